(** C20 — lemmas and theorems about the pkg/digest model. *)
From Coq Require Import Decimal DecimalN DecimalPos.
From Coq Require Import List NArith ZArith Bool Lia Arith.
From BBS Require Import Generated.Consts Digest.DigestModel.
Import ListNotations.
Open Scope N_scope.

(** * Byte strings *)
Lemma beqb_eq a b : beqb a b = true <-> a = b.
Proof.
  revert b; induction a as [|x a IH]; destruct b as [|y b]; cbn; try (split; congruence).
  rewrite andb_true_iff, N.eqb_eq, IH. split; [intros [-> ->]; reflexivity|intros [= -> ->]; auto].
Qed.
Lemma beqb_refl a : beqb a a = true.
Proof. apply beqb_eq; reflexivity. Qed.
Lemma beqb_neq a b : beqb a b = false <-> a <> b.
Proof. rewrite <- beqb_eq. destruct (beqb a b); split; congruence. Qed.

Lemma bltb_irrefl a : bltb a a = false.
Proof. induction a as [|x a IH]; cbn; [reflexivity|]. rewrite N.ltb_irrefl, N.eqb_refl. exact IH. Qed.
Lemma bltb_trans a b c : bltb a b = true -> bltb b c = true -> bltb a c = true.
Proof.
  revert b c; induction a as [|x a IH]; intros [|y b] [|z c]; cbn; try congruence.
  destruct (N.ltb_spec x y), (N.ltb_spec y z), (N.ltb_spec x z); try lia; try congruence;
    destruct (N.eqb_spec x y), (N.eqb_spec y z), (N.eqb_spec x z); try lia; try congruence.
  apply IH.
Qed.
Lemma bltb_total a b : bltb a b = false -> beqb a b = false -> bltb b a = true.
Proof.
  revert b; induction a as [|x a IH]; intros [|y b]; cbn; try congruence.
  rewrite (N.eqb_sym y x).
  destruct (N.ltb_spec x y), (N.ltb_spec y x), (N.eqb_spec x y); try lia; try congruence.
  cbn. apply IH.
Qed.
Lemma bltb_asym a b : bltb a b = true -> bltb b a = false.
Proof.
  intro H. destruct (bltb b a) eqn:E; [|reflexivity].
  pose proof (bltb_trans _ _ _ H E) as T. rewrite bltb_irrefl in T. discriminate.
Qed.
Lemma bltb_neq a b : bltb a b = true -> a <> b.
Proof. intros H ->. rewrite bltb_irrefl in H. discriminate. Qed.

Lemma memb_In x l : memb x l = true <-> In x l.
Proof.
  unfold memb. rewrite existsb_exists. split.
  - intros [y [Hy E]]. apply beqb_eq in E. subst. exact Hy.
  - intro H. exists x. split; [exact H|apply beqb_refl].
Qed.

(** * Decimal *)
Lemma horner_acc d p : horner (N.pos p) (uint_bytes d) = N.pos (Pos.of_uint_acc d p).
Proof.
  revert p; induction d; intro p; cbn [uint_bytes horner Pos.of_uint_acc]; try reflexivity;
    rewrite <- IHd; f_equal; lia.
Qed.
Lemma horner_uint d : horner 0 (uint_bytes d) = Pos.of_uint d.
Proof.
  induction d; cbn [uint_bytes horner Pos.of_uint]; try reflexivity;
    try (rewrite <- horner_acc; f_equal; lia).
  exact IHd.
Qed.
Lemma horner_dec n : horner 0 (dec n) = n.
Proof. unfold dec. rewrite horner_uint. apply DecimalN.Unsigned.of_to. Qed.

Lemma uint_bytes_digits d : forallb is_digit (uint_bytes d) = true.
Proof. induction d; cbn; auto. Qed.
Lemma dec_digits n : forallb is_digit (dec n) = true.
Proof. apply uint_bytes_digits. Qed.
Lemma dec_nonempty n : dec n <> [].
Proof.
  unfold dec. destruct n as [|p]; cbn; [discriminate|].
  pose proof (DecimalPos.Unsigned.to_uint_nonnil p) as H.
  destruct (Pos.to_uint p); cbn; congruence.
Qed.

Lemma horner_ge ds a : a <= horner a ds.
Proof.
  revert a; induction ds as [|c r IH]; intro a; cbn; [lia|].
  specialize (IH (a * 10 + (c - 48))). lia.
Qed.

Lemma is_digit_range c : is_digit c = true <-> 48 <= c <= 57.
Proof. unfold is_digit. rewrite andb_true_iff, !N.leb_le. tauto. Qed.

Lemma byte_sub_digit c : is_digit c = true -> byte_sub c 48 = c - 48.
Proof.
  intro H. apply is_digit_range in H. unfold byte_sub.
  replace (c + 256 - 48) with (c - 48 + 1 * 256) by lia.
  rewrite N.mod_add by lia. apply N.mod_small. lia.
Qed.

Lemma wrap64_small z : (- 2 ^ 63 <= z < 2 ^ 63)%Z -> wrap64 z = z.
Proof. intro H. unfold wrap64. rewrite Z.mod_small; lia. Qed.

(** * unpack on a string of the packed shape *)
Lemma scan_dash_app h rest i :
  forallb (fun c => negb (c =? dash)) h = true ->
  scan_dash (h ++ dash :: rest) i = Ok (i + length h)%nat.
Proof.
  revert i; induction h as [|c h IH]; intros i H; cbn.
  - f_equal. lia.
  - cbn in H. apply andb_true_iff in H as [Hc Hh]. apply negb_true_iff in Hc. rewrite Hc.
    rewrite IH by exact Hh. f_equal. lia.
Qed.

Lemma scan_size_app ds rest i a :
  forallb is_digit ds = true -> horner a ds < 2 ^ 63 ->
  scan_size (ds ++ dash :: rest) i (Z.of_N a) = Ok (Z.of_N (horner a ds), (i + length ds)%nat).
Proof.
  revert i a; induction ds as [|c r IH]; intros i a Hd Hb; cbn.
  - do 2 f_equal. lia.
  - cbn in Hd. apply andb_true_iff in Hd as [Hc Hr].
    assert (c =? dash = false) as ->.
    { apply is_digit_range in Hc. apply N.eqb_neq. unfold dash. lia. }
    rewrite byte_sub_digit by exact Hc. cbn in Hb.
    pose proof (horner_ge r (a * 10 + (c - 48))) as Hge.
    rewrite wrap64_small.
    + replace (Z.of_N a * 10 + Z.of_N (c - 48))%Z with (Z.of_N (a * 10 + (c - 48))) by lia.
      rewrite IH by assumption. do 2 f_equal. lia.
    + assert (2 ^ 63 = 9223372036854775808) as E by reflexivity. rewrite E in *.
      assert ((2 ^ 63)%Z = 9223372036854775808%Z) as EZ by reflexivity. rewrite EZ. lia.
Qed.

(** the digits of the function enum at the front of the packed string *)
Definition fnb_check (fb : bytes) (fn : N) : bool :=
  match fb with
  | [a] => is_digit a && (fn =? a - 48)
  | [a; b] => is_digit a && is_digit b && (fn =? (a - 48) * 10 + (b - 48))
  | _ => false
  end.

Lemma lowerhex_not_dash h :
  forallb lowerhex h = true -> forallb (fun c => negb (c =? dash)) h = true.
Proof.
  intro H. rewrite forallb_forall in *. intros c Hc. specialize (H c Hc).
  unfold lowerhex in H. apply negb_true_iff, N.eqb_neq. unfold dash.
  rewrite orb_true_iff, !andb_true_iff, !N.leb_le in H. lia.
Qed.

Lemma skipn_app_le {T} n (l r : list T) : (n <= length l)%nat -> skipn n (l ++ r) = skipn n l ++ r.
Proof. intro H. rewrite skipn_app. replace (n - length l)%nat with 0%nat by lia. reflexivity. Qed.

Lemma forallb_skipn {T} (f : T -> bool) n l : forallb f l = true -> forallb f (skipn n l) = true.
Proof.
  intro H. rewrite forallb_forall in *. intros x Hx. apply H.
  rewrite <- (firstn_skipn n l). apply in_or_app. right. exact Hx.
Qed.

Lemma unpack_shape fb fn hash sb inst :
  fnb_check fb fn = true ->
  (N.to_nat c20_shortest_hash_string_size <= length hash)%nat ->
  forallb lowerhex hash = true ->
  forallb is_digit sb = true -> horner 0 sb < 2 ^ 63 ->
  unpack (fb ++ dash :: hash ++ dash :: sb ++ dash :: inst) =
  Ok {| u_fn := fn; u_hs := S (length fb); u_he := (S (length fb) + length hash)%nat;
        u_size := Z.of_N (horner 0 sb);
        u_se := (S (length fb) + length hash + 1 + length sb)%nat |}.
Proof.
  intros Hfb Hlen Hhex Hdig Hb.
  assert (N.to_nat c20_shortest_hash_string_size = 32%nat) as E32 by reflexivity.
  rewrite E32 in Hlen.
  pose proof (lowerhex_not_dash _ Hhex) as Hnd.
  unfold unpack. rewrite E32.
  destruct fb as [|a [|b [|? ?]]]; cbn in Hfb; try discriminate.
  - apply andb_true_iff in Hfb as [Ha Hfn]. apply N.eqb_eq in Hfn.
    cbn [app nth_byte nth_error bind]. rewrite N.eqb_refl.
    change (skipn 32 (a :: dash :: hash ++ dash :: sb ++ dash :: inst))
      with (skipn 30 (hash ++ dash :: sb ++ dash :: inst)).
    rewrite skipn_app_le by lia.
    rewrite scan_dash_app by (apply forallb_skipn; exact Hnd).
    rewrite skipn_length. cbn [bind].
    replace (32 + (length hash - 30))%nat with (2 + length hash)%nat by lia.
    change (skipn (S (2 + length hash)) (a :: dash :: hash ++ dash :: sb ++ dash :: inst))
      with (skipn (S (length hash)) (hash ++ dash :: sb ++ dash :: inst)).
    replace (hash ++ dash :: sb ++ dash :: inst) with ((hash ++ [dash]) ++ sb ++ dash :: inst)
      by (rewrite <- app_assoc; reflexivity).
    rewrite skipn_app_le by (rewrite app_length; cbn; lia).
    rewrite skipn_all2 by (rewrite app_length; cbn; lia). cbn [app].
    change 0%Z with (Z.of_N 0).
    rewrite scan_size_app by assumption. cbn [bind].
    rewrite byte_sub_digit by exact Ha. subst fn.
    f_equal. f_equal; cbn [length]; lia.
  - apply andb_true_iff in Hfb as [Hab Hfn]. apply andb_true_iff in Hab as [Ha Hb'].
    apply N.eqb_eq in Hfn.
    cbn [app nth_byte nth_error bind].
    assert (b =? dash = false) as ->.
    { apply is_digit_range in Hb'. apply N.eqb_neq. unfold dash. lia. }
    change (skipn 32 (a :: b :: dash :: hash ++ dash :: sb ++ dash :: inst))
      with (skipn 29 (hash ++ dash :: sb ++ dash :: inst)).
    rewrite skipn_app_le by lia.
    rewrite scan_dash_app by (apply forallb_skipn; exact Hnd).
    rewrite skipn_length. cbn [bind].
    replace (32 + (length hash - 29))%nat with (3 + length hash)%nat by lia.
    change (skipn (S (3 + length hash)) (a :: b :: dash :: hash ++ dash :: sb ++ dash :: inst))
      with (skipn (S (length hash)) (hash ++ dash :: sb ++ dash :: inst)).
    replace (hash ++ dash :: sb ++ dash :: inst) with ((hash ++ [dash]) ++ sb ++ dash :: inst)
      by (rewrite <- app_assoc; reflexivity).
    rewrite skipn_app_le by (rewrite app_length; cbn; lia).
    rewrite skipn_all2 by (rewrite app_length; cbn; lia). cbn [app].
    change 0%Z with (Z.of_N 0).
    rewrite scan_size_app by assumption. cbn [bind].
    rewrite !byte_sub_digit by assumption. subst fn.
    f_equal. f_equal; cbn [length]; lia.
Qed.

(** * Facts about the literal tables (re-checked whenever the Go source changes) *)
Definition table_entry_ok (p : N * bytes) : bool :=
  let fn := fst p in
  fnb_check (dec fn) fn && negb (fn =? c20_enum_unknown) && (fn <? 256)
  && match assoc fn c20_bare_by_enum with
     | Some (e, hb) => (e =? fn) && (c20_shortest_hash_string_size <=? 2 * hb)
     | None => false
     end.
Lemma tables_ok : forallb table_entry_ok c20_supported = true.
Proof. vm_compute. reflexivity. Qed.

Lemma supported_entry fn : In fn supported_enums -> exists n, In (fn, n) c20_supported.
Proof.
  unfold supported_enums. rewrite in_map_iff. intros [[f n] [E H]]. cbn in E. subst. eauto.
Qed.

Lemma supported_facts fn :
  In fn supported_enums ->
  fnb_check (dec fn) fn = true /\ fn <> c20_enum_unknown /\ fn < 256 /\
  exists hb, assoc fn c20_bare_by_enum = Some (fn, hb) /\ c20_shortest_hash_string_size <= 2 * hb.
Proof.
  intro H. destruct (supported_entry _ H) as [n Hn].
  pose proof tables_ok as T. rewrite forallb_forall in T. specialize (T _ Hn).
  unfold table_entry_ok in T. cbn [fst] in T.
  destruct (assoc fn c20_bare_by_enum) as [[e hb]|]; [|rewrite andb_false_r in T; discriminate].
  rewrite !andb_true_iff in T. destruct T as [[[T1 T2] T3] [T4 T5]].
  apply negb_true_iff, N.eqb_neq in T2. apply N.ltb_lt in T3.
  apply N.eqb_eq in T4. apply N.leb_le in T5. subst e.
  repeat split; try assumption. exists hb. split; [reflexivity|assumption].
Qed.

Lemma valid_bare d :
  valid_digest d ->
  exists hb, get_bare_function (d_fn d) 0 = Some (d_fn d, hb)
             /\ N.of_nat (length (d_hash d)) = 2 * hb
             /\ (N.to_nat c20_shortest_hash_string_size <= length (d_hash d))%nat.
Proof.
  intros [Hfn [hb [Hhb Hlen]] _ _ _].
  destruct (supported_facts _ Hfn) as [_ [Hu [_ [hb' [Ha Hs]]]]].
  unfold hash_bytes_of in Hhb. rewrite Ha in Hhb. cbn in Hhb. injection Hhb as <-.
  exists hb'. unfold get_bare_function.
  apply N.eqb_neq in Hu. rewrite Hu. repeat split; [exact Ha|exact Hlen|lia].
Qed.

(** * Slices of the packed shape *)
Lemma slice_mid (a b c : bytes) : slice (a ++ b ++ c) (length a) (length a + length b) = Ok b.
Proof.
  unfold slice. rewrite !app_length.
  replace ((length a <=? length a + length b)%nat) with true by (symmetry; apply Nat.leb_le; lia).
  replace ((length a + length b <=? length a + (length b + length c))%nat) with true
    by (symmetry; apply Nat.leb_le; lia).
  cbn [andb]. rewrite skipn_app_le by lia. rewrite skipn_all. cbn [app].
  replace (length a + length b - length a)%nat with (length b + 0)%nat by lia.
  rewrite firstn_app_2. cbn. rewrite app_nil_r. reflexivity.
Qed.
Lemma slice_from_app (a b : bytes) : slice_from (a ++ b) (length a) = Ok b.
Proof.
  unfold slice_from, slice. rewrite app_length.
  replace ((length a <=? length a + length b)%nat) with true by (symmetry; apply Nat.leb_le; lia).
  rewrite Nat.leb_refl. cbn [andb]. rewrite skipn_app_le by lia. rewrite skipn_all. cbn [app].
  rewrite firstn_all2 by lia. reflexivity.
Qed.
Lemma slice_prefix (a b : bytes) : slice (a ++ b) 0 (length a) = Ok a.
Proof.
  unfold slice. rewrite app_length. cbn [Nat.leb andb skipn].
  replace ((length a <=? length a + length b)%nat) with true by (symmetry; apply Nat.leb_le; lia).
  rewrite Nat.sub_0_r. replace (length a) with (length a + 0)%nat at 1 by lia.
  rewrite firstn_app_2. cbn. rewrite app_nil_r. reflexivity.
Qed.

Lemma format_int_nonneg z : (0 <= z)%Z -> format_int z = dec (Z.to_N z).
Proof. intro H. unfold format_int. destruct (Z.ltb_spec z 0); [lia|reflexivity]. Qed.

(** the key without instance name *)
Definition key0 (d : digest) : bytes := dec (d_fn d) ++ dash :: d_hash d ++ dash :: dec (Z.to_N (d_size d)).

Lemma pack_shape d : (0 <= d_size d)%Z -> pack d = key0 d ++ dash :: d_inst d.
Proof.
  intro H. unfold pack, pack_raw, key0. rewrite format_int_nonneg by exact H.
  rewrite <- !app_assoc. cbn [app]. rewrite <- !app_assoc. reflexivity.
Qed.

Lemma unpack_pack d :
  valid_digest d ->
  unpack (pack d) =
  Ok {| u_fn := d_fn d; u_hs := S (length (dec (d_fn d)));
        u_he := (S (length (dec (d_fn d))) + length (d_hash d))%nat;
        u_size := d_size d;
        u_se := length (key0 d) |}.
Proof.
  intro V. destruct (valid_bare d V) as [hb [_ [_ Hlen]]].
  destruct V as [Hfn _ Hhex Hsz _].
  destruct (supported_facts _ Hfn) as [Hfb _].
  unfold pack, pack_raw. rewrite format_int_nonneg by lia.
  rewrite (unpack_shape _ (d_fn d)); try assumption.
  - rewrite horner_dec. rewrite Z2N.id by lia. do 2 f_equal.
    unfold key0. rewrite !app_length. cbn [length]. rewrite !app_length. cbn [length]. lia.
  - apply dec_digits.
  - rewrite horner_dec.
    assert ((2 ^ 63)%Z = Z.of_N (2 ^ 63)) as E by reflexivity. lia.
Qed.

(** * Hexadecimal *)
Lemma hexdigit_hexval c : lowerhex c = true -> exists x, hexval c = Some x /\ x < 16 /\ hexdigit x = c.
Proof.
  unfold lowerhex, hexval, hexdigit. intro H.
  destruct ((48 <=? c) && (c <=? 57)) eqn:E1.
  - apply andb_true_iff in E1 as [A B]. apply N.leb_le in A, B.
    exists (c - 48). repeat split; [lia|].
    destruct (N.ltb_spec (c - 48) 10); lia.
  - cbn in H. rewrite H. apply andb_true_iff in H as [A B]. apply N.leb_le in A, B.
    exists (c - 87). repeat split; [lia|].
    destruct (N.ltb_spec (c - 87) 10); lia.
Qed.

Lemma hex_decode_encode n : forall h,
  length h = (2 * n)%nat -> forallb lowerhex h = true ->
  exists b, hex_decode h = Some b /\ hex_encode b = h /\ length b = n.
Proof.
  induction n as [|n IH]; intros h Hl Hh.
  - destruct h; [|discriminate]. exists []. auto.
  - destruct h as [|a [|b h]]; try (cbn in Hl; lia).
    cbn in Hh. apply andb_true_iff in Hh as [Ha Hh]. apply andb_true_iff in Hh as [Hb Hh].
    destruct (IH h) as [t [Ht [Et Lt]]]; [cbn in Hl; lia|exact Hh|].
    destruct (hexdigit_hexval a Ha) as [x [Hx [Lx Dx]]].
    destruct (hexdigit_hexval b Hb) as [y [Hy [Ly Dy]]].
    exists (x * 16 + y :: t). cbn [hex_decode]. rewrite Hx, Hy, Ht. split; [reflexivity|].
    split; [|cbn; lia]. cbn [hex_encode].
    replace ((x * 16 + y) / 16) with x by (rewrite N.div_add_l by lia; rewrite N.div_small by lia; lia).
    replace ((x * 16 + y) mod 16) with y
      by (rewrite N.add_comm, N.mod_add by lia; rewrite N.mod_small by lia; reflexivity).
    rewrite Dx, Dy, Et. reflexivity.
Qed.

(** * Theorem: accessors of a constructed digest return its fields (no panic) *)
Theorem pack_unpack_accessors d :
  valid_digest d ->
  get_function_enum (pack d) = Ok (d_fn d) /\
  get_hash_string (pack d) = Ok (d_hash d) /\
  get_size_bytes (pack d) = Ok (d_size d) /\
  get_instance_name (pack d) = Ok (d_inst d) /\
  get_proto (pack d) = Ok (d_hash d, d_size d) /\
  get_key (pack d) 1 = Ok (pack d) /\
  get_key (pack d) 0 = Ok (key0 d) /\
  (exists b, get_hash_bytes (pack d) = Ok b /\ hex_encode b = d_hash d) /\
  (exists b, get_compact_binary (pack d) = Ok (d_fn d :: b ++ put_varint (d_size d))
             /\ hex_encode b = d_hash d /\ N.of_nat (length b) * 2 = N.of_nat (length (d_hash d))).
Proof.
  intro V. pose proof (unpack_pack d V) as U.
  destruct (valid_bare d V) as [hb [Hbare [Hlen _]]].
  pose proof (vd_size d V) as Hsz. pose proof (vd_hex d V) as Hhex.
  destruct (supported_facts _ (vd_fn d V)) as [_ [_ [H256 _]]].
  assert (Hhash : slice (pack d) (S (length (dec (d_fn d))))
                        (S (length (dec (d_fn d))) + length (d_hash d)) = Ok (d_hash d)).
  { unfold pack, pack_raw.
    replace (dec (d_fn d) ++ dash :: d_hash d ++ dash :: format_int (d_size d) ++ dash :: d_inst d)
      with ((dec (d_fn d) ++ [dash]) ++ d_hash d ++ (dash :: format_int (d_size d) ++ dash :: d_inst d))
      by (rewrite <- app_assoc; reflexivity).
    replace (S (length (dec (d_fn d)))) with (length (dec (d_fn d) ++ [dash]))
      by (rewrite app_length; cbn; lia).
    apply slice_mid. }
  assert (Hinst : slice_from (pack d) (S (length (key0 d))) = Ok (d_inst d)).
  { rewrite pack_shape by lia.
    replace (key0 d ++ dash :: d_inst d) with ((key0 d ++ [dash]) ++ d_inst d)
      by (rewrite <- app_assoc; reflexivity).
    replace (S (length (key0 d))) with (length (key0 d ++ [dash])) by (rewrite app_length; cbn; lia).
    apply slice_from_app. }
  assert (Hkey : slice (pack d) 0 (length (key0 d)) = Ok (key0 d)).
  { rewrite pack_shape by lia. apply slice_prefix. }
  destruct (hex_decode_encode (N.to_nat hb) (d_hash d)) as [b [Hdec [Henc Lb]]]; [lia|exact Hhex|].
  unfold get_function_enum, get_hash_string, get_size_bytes, get_instance_name, get_proto, get_key,
    get_hash_bytes, get_compact_binary, get_hash_string.
  rewrite U. cbn [bind u_fn u_hs u_he u_size u_se Z.eqb].
  rewrite Hbare, Hhash, Hinst, Hkey. cbn [bind fst]. rewrite Hdec.
  repeat split; try reflexivity.
  - exists b. split; [reflexivity|exact Henc].
  - exists b. rewrite N.mod_small by exact H256. repeat split; [exact Henc|lia].
Qed.

(** * Constructor on valid fields; proto round trip; key equality *)
Lemma new_digest_valid d hb :
  valid_digest d -> get_bare_function (d_fn d) 0 = Some (d_fn d, hb) ->
  new_digest (d_inst d) (d_fn d, hb) (d_hash d) (d_size d) = Ok (pack d).
Proof.
  intros V Hb. destruct (valid_bare d V) as [hb' [Hb' [Hlen _]]].
  rewrite Hb in Hb'. injection Hb' as <-.
  unfold new_digest. cbn [fst snd]. rewrite Hlen, N.eqb_refl. cbn [negb].
  rewrite (vd_hex d V). cbn [negb].
  destruct (Z.ltb_spec (d_size d) 0); [pose proof (vd_size d V); lia|]. reflexivity.
Qed.

Theorem proto_roundtrip_proof d :
  valid_digest d ->
  exists f, get_digest_function (d_fn d) 0 = Ok f /\
    exists h s, get_proto (pack d) = Ok (h, s) /\ new_digest (d_inst d) f h s = Ok (pack d).
Proof.
  intro V. destruct (valid_bare d V) as [hb [Hb _]].
  exists (d_fn d, hb). split; [unfold get_digest_function; rewrite Hb; reflexivity|].
  destruct (pack_unpack_accessors d V) as [_ [_ [_ [_ [Hp _]]]]].
  exists (d_hash d), (d_size d). split; [exact Hp|apply new_digest_valid; assumption].
Qed.

Lemma valid_instance_nil : valid_instance [].
Proof. exists []. split; [reflexivity|constructor]. Qed.

Lemma valid_with_instance d i : valid_digest d -> valid_instance i -> valid_digest (with_instance d i).
Proof. intros [A B C D _] Hi. constructor; cbn; assumption. Qed.

Lemma Ok_inj {T} (a b : T) : Ok a = Ok b -> a = b.
Proof. intros [= ->]. reflexivity. Qed.

Theorem key_with_instance_eq_iff d1 d2 :
  valid_digest d1 -> valid_digest d2 ->
  (get_key (pack d1) 1 = get_key (pack d2) 1 <-> d1 = d2).
Proof.
  intros V1 V2. split; [|intros ->; reflexivity].
  cbn [get_key Z.eqb]. intros E. apply Ok_inj in E.
  destruct (pack_unpack_accessors d1 V1) as [A1 [B1 [C1 [D1 _]]]].
  destruct (pack_unpack_accessors d2 V2) as [A2 [B2 [C2 [D2 _]]]].
  rewrite E in A1, B1, C1, D1.
  rewrite A2 in A1. rewrite B2 in B1. rewrite C2 in C1. rewrite D2 in D1.
  apply Ok_inj in A1, B1, C1, D1. destruct d1, d2; cbn in *; congruence.
Qed.

Theorem key_without_instance_eq_iff d1 d2 :
  valid_digest d1 -> valid_digest d2 ->
  (get_key (pack d1) 0 = get_key (pack d2) 0 <->
   d_fn d1 = d_fn d2 /\ d_hash d1 = d_hash d2 /\ d_size d1 = d_size d2).
Proof.
  intros V1 V2.
  destruct (pack_unpack_accessors d1 V1) as [_ [_ [_ [_ [_ [_ [K1 _]]]]]]].
  destruct (pack_unpack_accessors d2 V2) as [_ [_ [_ [_ [_ [_ [K2 _]]]]]]].
  rewrite K1, K2. split.
  - intro E. apply Ok_inj in E.
    pose proof (valid_with_instance d1 [] V1 valid_instance_nil) as W1.
    pose proof (valid_with_instance d2 [] V2 valid_instance_nil) as W2.
    assert (pack (with_instance d1 []) = pack (with_instance d2 [])) as P.
    { rewrite !pack_shape by (cbn; pose proof (vd_size _ V1); pose proof (vd_size _ V2); lia).
      unfold key0 in *. cbn [with_instance d_fn d_hash d_size d_inst]. rewrite E. reflexivity. }
    assert (with_instance d1 [] = with_instance d2 []) as Q.
    { apply (key_with_instance_eq_iff _ _ W1 W2). cbn [get_key Z.eqb]. rewrite P. reflexivity. }
    unfold with_instance in Q. injection Q. auto.
  - intros [A [B C]]. unfold key0. rewrite A, B, C. reflexivity.
Qed.

(** * Varint (binary.PutVarint / binary.ReadVarint) *)
Lemma read_put_uvarint k : forall u x s first tail,
  u < 2 ^ (7 * N.of_nat k - 6) -> (0 < k)%nat ->
  read_uvarint k first x s (put_uvarint k u ++ tail) = Ok (x + u * 2 ^ s, tail).
Proof.
  induction k as [|k IH]; intros u x s first tail Hu Hk; [lia|].
  cbn [put_uvarint read_uvarint].
  destruct (N.ltb_spec u 128) as [Hs|Hs].
  - cbn [app]. apply N.ltb_lt in Hs. rewrite Hs.
    destruct k as [|k'].
    + cbn in Hu. assert (1 <? u = false) as -> by (apply N.ltb_ge; lia). reflexivity.
    + reflexivity.
  - cbn [app].
    assert (u mod 128 < 128) as Hm by (apply N.mod_lt; lia).
    assert (u mod 128 + 128 <? 128 = false) as -> by (apply N.ltb_ge; apply N.le_add_l).
    destruct k as [|k'].
    + exfalso. cbn in Hu. lia.
    + rewrite IH.
      * f_equal. f_equal.
        replace ((u mod 128 + 128) mod 128) with (u mod 128)
          by (replace (u mod 128 + 128) with (u mod 128 + 1 * 128) by lia;
              rewrite N.mod_add by lia; rewrite N.mod_mod by lia; reflexivity).
        rewrite N.pow_add_r. pose proof (N.div_mod u 128 ltac:(lia)) as DM.
        replace (2 ^ 7) with 128 by reflexivity. nia.
      * replace (7 * N.of_nat (S (S k')) - 6) with (7 + (7 * N.of_nat (S k') - 6)) in Hu by lia.
        rewrite N.pow_add_r in Hu. replace (2 ^ 7) with 128 in Hu by reflexivity.
        apply N.div_lt_upper_bound; lia.
      * lia.
Qed.

Lemma odd_half a : N.odd (2 * a + 1) = true /\ (2 * a + 1) / 2 = a /\ N.odd (2 * a) = false /\ (2 * a) / 2 = a.
Proof.
  repeat split.
  - apply N.odd_spec. exists a. reflexivity.
  - symmetry. apply N.div_unique with (r := 1); lia.
  - rewrite <- N.negb_even. apply negb_false_iff. apply N.even_spec. exists a. reflexivity.
  - symmetry. apply N.div_unique with (r := 0); lia.
Qed.

Lemma unzigzag_zigzag x : (- 2 ^ 63 <= x < 2 ^ 63)%Z -> unzigzag (zigzag x) = x /\ zigzag x < 2 ^ 64.
Proof.
  intro H. unfold zigzag, unzigzag.
  assert ((2 ^ 63)%Z = 9223372036854775808%Z) as E by reflexivity. rewrite E in H.
  assert (2 ^ 64 = 18446744073709551616) as E2 by reflexivity. rewrite E2.
  destruct (Z.ltb_spec x 0).
  - assert (Z.to_N (- (2 * x) - 1) = 2 * Z.to_N (- x - 1) + 1) as -> by lia.
    destruct (odd_half (Z.to_N (- x - 1))) as [-> [-> _]]. split; lia.
  - assert (Z.to_N (2 * x) = 2 * Z.to_N x) as -> by lia.
    destruct (odd_half (Z.to_N x)) as [_ [_ [-> ->]]]. split; lia.
Qed.

Lemma read_put_varint x tail :
  (- 2 ^ 63 <= x < 2 ^ 63)%Z -> read_varint (put_varint x ++ tail) = Ok (x, tail).
Proof.
  intro H. destruct (unzigzag_zigzag x H) as [U B].
  unfold read_varint, put_varint. rewrite read_put_uvarint; [|exact B|lia].
  cbn [bind]. rewrite N.mul_1_r, N.add_0_l. rewrite U. reflexivity.
Qed.

Theorem compact_roundtrip_proof d tail :
  valid_digest d ->
  exists b, get_compact_binary (pack d) = Ok b /\
            new_digest_from_compact_binary (d_inst d) (b ++ tail) = Ok (pack d, tail).
Proof.
  intro V. destruct (pack_unpack_accessors d V) as [_ [_ [_ [_ [_ [_ [_ [_ [b [Hc [He Hl]]]]]]]]]]].
  destruct (valid_bare d V) as [hb [Hb [Hlen _]]].
  exists (d_fn d :: b ++ put_varint (d_size d)). split; [exact Hc|].
  cbn [app new_digest_from_compact_binary]. unfold get_digest_function. rewrite Hb. cbn [bind snd].
  assert (length b = N.to_nat hb) as Lb by lia.
  rewrite <- app_assoc.
  destruct (Nat.ltb_spec (length (b ++ put_varint (d_size d) ++ tail)) (N.to_nat hb)) as [C|C];
    [rewrite app_length in C; lia|].
  rewrite <- Lb. rewrite skipn_app_le by lia. rewrite skipn_all. cbn [app].
  rewrite read_put_varint by (pose proof (vd_size d V); lia). cbn [bind].
  replace (length b) with (length b + 0)%nat at 1 by lia. rewrite firstn_app_2. cbn [firstn].
  rewrite app_nil_r, He. rewrite new_digest_valid by assumption. reflexivity.
Qed.

(** * Splitting and joining at slashes *)
Definition slash_free (c : bytes) : Prop := ~ In slash c.

Lemma fields_aux_app c : forall cur rest,
  slash_free c -> fields_aux cur (c ++ rest) = fields_aux (rev c ++ cur) rest.
Proof.
  induction c as [|x c IH]; intros cur rest H; [reflexivity|].
  cbn [app fields_aux].
  assert (x =? slash = false) as -> by (apply N.eqb_neq; intro E; apply H; left; auto).
  rewrite IH by (intro K; apply H; right; exact K).
  cbn [rev]. rewrite <- app_assoc. reflexivity.
Qed.

Lemma nonempty_true {T} (l : list T) : l <> [] -> nonempty l = true.
Proof. destruct l; [congruence|reflexivity]. Qed.

Lemma fields_join l :
  Forall (fun c => c <> [] /\ slash_free c) l -> fields_by_slash (join_slash l) = l.
Proof.
  unfold fields_by_slash. induction l as [|x r IH]; intro H; [reflexivity|].
  inversion H as [|? ? [Hne Hsf] Hr]; subst.
  destruct r as [|y r'].
  - cbn [join_slash]. rewrite <- (app_nil_r x) at 1. rewrite fields_aux_app by exact Hsf.
    cbn [fields_aux]. rewrite app_nil_r.
    rewrite nonempty_true by (intro E; apply Hne; apply (f_equal (@rev N)) in E;
                              rewrite rev_involutive in E; exact E).
    rewrite rev_involutive. reflexivity.
  - change (join_slash (x :: y :: r')) with (x ++ slash :: join_slash (y :: r')).
    rewrite fields_aux_app by exact Hsf. cbn [fields_aux]. rewrite N.eqb_refl, app_nil_r.
    rewrite nonempty_true by (intro E; apply Hne; apply (f_equal (@rev N)) in E;
                              rewrite rev_involutive in E; exact E).
    rewrite rev_involutive. rewrite IH by exact Hr. reflexivity.
Qed.

Lemma join_join comps rest :
  comps <> [] -> join_slash (join_slash comps :: rest) = join_slash (comps ++ rest).
Proof.
  induction comps as [|x r IH]; intro H; [congruence|].
  destruct r as [|y r'].
  - reflexivity.
  - change (join_slash (x :: y :: r')) with (x ++ slash :: join_slash (y :: r')).
    change ((x :: y :: r') ++ rest) with (x :: (y :: r') ++ rest).
    destruct rest as [|z rest'].
    + rewrite app_nil_r. reflexivity.
    + change (join_slash (x :: (y :: r') ++ z :: rest'))
        with (x ++ slash :: join_slash ((y :: r') ++ z :: rest')).
      rewrite <- IH by discriminate.
      change (join_slash ((x ++ slash :: join_slash (y :: r')) :: z :: rest'))
        with ((x ++ slash :: join_slash (y :: r')) ++ slash :: join_slash (z :: rest')).
      change (join_slash (join_slash (y :: r') :: z :: rest'))
        with (join_slash (y :: r') ++ slash :: join_slash (z :: rest')).
      rewrite <- app_assoc. reflexivity.
Qed.

Lemma join_slash_nonempty comps :
  comps <> [] -> Forall (fun c => c <> []) comps -> join_slash comps <> [].
Proof.
  destruct comps as [|x r]; [congruence|]. intros _ H. inversion H; subst.
  destruct r; cbn; [assumption|]. destruct x; [congruence|discriminate].
Qed.

(** the formatters' join applied to an instance name followed by other components *)
Lemma path_join_instance comps ps :
  Forall (fun c => c <> []) comps ->
  path_join (join_slash comps :: ps) = join_slash (comps ++ filter nonempty ps).
Proof.
  intro H. unfold path_join. cbn [filter].
  destruct comps as [|x r].
  - reflexivity.
  - rewrite nonempty_true by (apply join_slash_nonempty; [discriminate|exact H]).
    apply join_join. discriminate.
Qed.

Lemma valid_component_facts comps :
  Forall valid_component comps ->
  Forall (fun c => c <> []) comps /\ Forall (fun c => c <> [] /\ slash_free c) comps
  /\ Forall (fun c => memb c c20_reserved = false) comps.
Proof.
  intro H. repeat split; eapply Forall_impl; try exact H; intros c [A [B C]]; auto.
  destruct (memb c c20_reserved) eqn:E; [|reflexivity]. apply memb_In in E. contradiction.
Qed.

Lemma validate_components_valid comps :
  Forall valid_component comps -> validate_components comps = Ok tt.
Proof.
  induction 1 as [|c r [A [B C]] Hr IH]; [reflexivity|]. cbn [validate_components].
  rewrite nonempty_true by exact A.
  destruct (memb c c20_reserved) eqn:E; [apply memb_In in E; contradiction|exact IH].
Qed.

(** * The split loop of the parsers *)
Lemma nth_field_app_l (pre : list bytes) x post i :
  (i < length pre)%nat -> nth_field (pre ++ x :: post) i = Ok (nth i pre []).
Proof.
  intro H. unfold nth_field. rewrite nth_error_app1 by exact H.
  rewrite (nth_error_nth' pre [] H). reflexivity.
Qed.
Lemma nth_field_app_mid (pre : list bytes) x post : nth_field (pre ++ x :: post) (length pre) = Ok x.
Proof.
  unfold nth_field. rewrite nth_error_app2 by lia. rewrite Nat.sub_diag. reflexivity.
Qed.

Lemma find_split_app stop pre x post k : forall n i fuel,
  (forall c, In c pre -> stop c = false) -> stop x = true ->
  (length pre + k <= length (pre ++ x :: post))%nat ->
  (n = length pre - i)%nat -> (i <= length pre)%nat -> (n < fuel)%nat ->
  find_split stop (pre ++ x :: post) k i fuel = Ok (length pre).
Proof.
  induction n as [|n IH]; intros i fuel Hpre Hx Hlen Hn Hi Hf;
    (destruct fuel as [|fuel]; [lia|]); cbn [find_split].
  - assert (i = length pre) by lia. subst i. rewrite nth_field_app_mid. cbn [bind]. rewrite Hx. reflexivity.
  - rewrite nth_field_app_l by lia. cbn [bind].
    rewrite Hpre by (apply nth_In; lia).
    destruct (Nat.ltb_spec (length (pre ++ x :: post) - k) (S i)); [lia|].
    apply IH; try assumption; lia.
Qed.

(** * More table facts *)
Definition bare_eqb (a : option bare) (fn hb : N) : bool :=
  match a with Some (e, h) => (e =? fn) && (h =? hb) | None => false end.
Lemma bare_eqb_true a fn hb : bare_eqb a fn hb = true -> a = Some (fn, hb).
Proof.
  destruct a as [[e h]|]; cbn; [|discriminate]. rewrite andb_true_iff, !N.eqb_eq. intros [-> ->]. reflexivity.
Qed.

Definition no_slash (s : bytes) : bool := negb (existsb (N.eqb slash) s).
Lemma no_slash_free s : no_slash s = true -> slash_free s.
Proof.
  unfold no_slash, slash_free. intros H K. apply negb_true_iff in H.
  assert (existsb (N.eqb slash) s = true) as E by (apply existsb_exists; exists slash; split; [exact K|apply N.eqb_refl]).
  congruence.
Qed.

Definition fn_entry_ok (p : N * bytes) : bool :=
  let fn := fst p in
  match assoc fn c20_bare_by_enum with
  | Some (_, hb) =>
      if c20_midfix_above <? fn then
        match assoc fn midfix_functions with
        | Some name => nonempty name && no_slash name && bare_eqb (function_by_name name) fn hb
        | None => false
        end
      else
        match assoc fn midfix_functions with
        | Some _ => false
        | None => bare_eqb (assoc (2 * hb) c20_bare_by_size) fn hb
        end
  | None => false
  end.
Lemma fn_tables_ok : forallb fn_entry_ok c20_supported = true.
Proof. vm_compute. reflexivity. Qed.
Lemma midfix_names_short :
  forallb (fun p => (length (snd p) <? N.to_nat c20_shortest_hash_string_size)%nat) midfix_functions = true.
Proof. vm_compute. reflexivity. Qed.

Definition compressor_entry_ok (p : N * bytes) : bool :=
  negb (fst p =? c20_compressor_identity)
  && match assoc (fst p) c20_compressors with Some n => beqb n (snd p) | None => false end
  && match assoc_name (snd p) c20_compressors with Some c => c =? fst p | None => false end
  && nonempty (snd p) && no_slash (snd p).
Lemma compressor_tables_ok : forallb compressor_entry_ok c20_compressors = true.
Proof. vm_compute. reflexivity. Qed.
Lemma keyword_facts :
  beqb c20_compressed_blobs c20_blobs = false /\
  nonempty c20_blobs = true /\ no_slash c20_blobs = true /\
  nonempty c20_compressed_blobs = true /\ no_slash c20_compressed_blobs = true /\
  nonempty c20_uploads = true /\ no_slash c20_uploads = true /\
  memb c20_blobs c20_reserved = true /\ memb c20_compressed_blobs c20_reserved = true /\
  memb c20_uploads c20_reserved = true.
Proof. vm_compute. repeat split; reflexivity. Qed.

Lemma assoc_name_short k (tbl : list (N * bytes)) n :
  forallb (fun p => (length (snd p) <? n)%nat) tbl = true -> (n <= length k)%nat ->
  assoc_name k tbl = None.
Proof.
  induction tbl as [|[v k'] r IH]; intros H L; [reflexivity|].
  cbn in H. apply andb_true_iff in H as [H1 H2]. apply Nat.ltb_lt in H1. cbn [assoc_name].
  destruct (beqb k k') eqn:E; [apply beqb_eq in E; subst; lia|]. apply IH; assumption.
Qed.

Lemma compressor_facts comp :
  In comp (map fst c20_compressors) ->
  exists name, compressor_midfix comp = [c20_compressed_blobs; name] /\
               compressor_by_name name = Some comp /\ name <> [] /\ slash_free name.
Proof.
  rewrite in_map_iff. intros [[c n] [E H]]. cbn in E. subst c.
  pose proof compressor_tables_ok as T. rewrite forallb_forall in T. specialize (T _ H).
  unfold compressor_entry_ok in T. cbn [fst snd] in T.
  rewrite !andb_true_iff in T. destruct T as [[[[T1 T2] T3] T4] T5].
  apply negb_true_iff in T1.
  destruct (assoc comp c20_compressors) as [n'|] eqn:A; [|discriminate]. apply beqb_eq in T2. subst n'.
  destruct (assoc_name n c20_compressors) as [c'|] eqn:B; [|discriminate]. apply N.eqb_eq in T3. subst c'.
  exists n. unfold compressor_midfix, compressor_by_name. rewrite T1, A, B.
  repeat split; [destruct n; [discriminate|congruence]|apply no_slash_free; exact T5].
Qed.

Lemma parse_int_dec n : n < 2 ^ 63 -> parse_int (dec n) = Some (Z.of_N n).
Proof.
  intro H. pose proof (dec_digits n) as D. pose proof (dec_nonempty n) as NE.
  pose proof (horner_dec n) as Hh.
  unfold parse_int. destruct (dec n) as [|c r] eqn:E; [congruence|].
  assert (is_digit c = true) as Dc by (cbn in D; apply andb_true_iff in D; tauto).
  apply is_digit_range in Dc.
  assert (c =? 43 = false) as -> by (apply N.eqb_neq; lia).
  assert (c =? dash = false) as -> by (apply N.eqb_neq; unfold dash; lia).
  rewrite D, Hh. apply N.ltb_lt in H. rewrite H. reflexivity.
Qed.

(** * The common part of the resource name parsers on a formatted name *)
Definition formatted_tail (d : digest) (comp : N) : list bytes :=
  compressor_midfix comp ++ filter nonempty [function_midfix (d_fn d)]
  ++ [d_hash d; dec (Z.to_N (d_size d))].

Lemma parse_function_part d inst (comp : N) :
  valid_digest d -> d_inst d = inst ->
  (h0 <- nth_field (filter nonempty [function_midfix (d_fn d)] ++ [d_hash d; dec (Z.to_N (d_size d))]) 0 ;;
   '(f, trailer2) <-
      (match function_by_name h0 with
       | Some f => Ok (f, skipn 1 (filter nonempty [function_midfix (d_fn d)] ++ [d_hash d; dec (Z.to_N (d_size d))]))
       | None =>
           match get_bare_function c20_enum_unknown (N.of_nat (length h0)) with
           | Some f => Ok (f, filter nonempty [function_midfix (d_fn d)] ++ [d_hash d; dec (Z.to_N (d_size d))])
           | None => Err InvalidArgument
           end
       end) ;;
   if (length trailer2 <? 2)%nat then Err InvalidArgument
   else
     h <- nth_field trailer2 0 ;;
     s <- nth_field trailer2 1 ;;
     match parse_int s with
     | None => Err InvalidArgument
     | Some size => dd <- new_digest inst f h size ;; Ok (dd, comp)
     end) = Ok (pack d, comp).
Proof.
  intros V <-. destruct (valid_bare d V) as [hb [Hbare [Hlen Hmin]]].
  destruct (supported_entry _ (vd_fn d V)) as [nm Hnm].
  pose proof fn_tables_ok as T. rewrite forallb_forall in T. specialize (T _ Hnm).
  unfold fn_entry_ok in T. cbn [fst] in T.
  assert (assoc (d_fn d) c20_bare_by_enum = Some (d_fn d, hb)) as Ha.
  { unfold get_bare_function in Hbare. destruct (d_fn d =? c20_enum_unknown) eqn:E; [|exact Hbare].
    destruct (supported_facts _ (vd_fn d V)) as [_ [Hu _]]. apply N.eqb_eq in E. contradiction. }
  rewrite Ha in T.
  assert (Hpi : parse_int (dec (Z.to_N (d_size d))) = Some (d_size d)).
  { pose proof (vd_size d V) as S. rewrite parse_int_dec.
    - rewrite Z2N.id by lia. reflexivity.
    - assert ((2 ^ 63)%Z = Z.of_N (2 ^ 63)) as E by reflexivity. lia. }
  unfold function_midfix.
  destruct (c20_midfix_above <? d_fn d).
  - destruct (assoc (d_fn d) midfix_functions) as [name|]; [|discriminate].
    rewrite !andb_true_iff in T. destruct T as [[T1 T2] T3]. apply bare_eqb_true in T3.
    cbn [filter]. rewrite T1. cbn [app nth_field nth_error bind]. rewrite T3.
    cbn [bind skipn length Nat.ltb Nat.leb nth_field nth_error]. rewrite Hpi.
    rewrite new_digest_valid by assumption. reflexivity.
  - destruct (assoc (d_fn d) midfix_functions) as [name|]; [discriminate|].
    apply bare_eqb_true in T. cbn [filter nonempty app nth_field nth_error bind].
    unfold function_by_name. rewrite (assoc_name_short _ _ _ midfix_names_short Hmin).
    unfold get_bare_function. rewrite N.eqb_refl, Hlen, T.
    cbn [bind length Nat.ltb Nat.leb nth_field nth_error]. rewrite Hpi.
    rewrite new_digest_valid by assumption. reflexivity.
Qed.

Lemma parse_common_valid d comp comps :
  valid_digest d -> d_inst d = join_slash comps -> Forall valid_component comps ->
  valid_compressor comp ->
  parse_common comps (formatted_tail d comp) = Ok (pack d, comp).
Proof.
  intros V Hi Hc Hcomp. unfold parse_common, new_instance_name_from_components.
  rewrite validate_components_valid by exact Hc. cbn [bind].
  destruct keyword_facts as [K1 _].
  unfold formatted_tail.
  destruct Hcomp as [->|Hcomp].
  - unfold compressor_midfix. rewrite N.eqb_refl.
    cbn [app nth_field nth_error bind]. rewrite beqb_refl. cbn [bind skipn].
    apply parse_function_part; auto.
  - destruct (compressor_facts comp Hcomp) as [name [-> [Hn _]]].
    cbn [app nth_field nth_error bind]. rewrite K1, beqb_refl. cbn [bind nth_field nth_error].
    rewrite Hn. cbn [bind skipn].
    apply parse_function_part; auto.
Qed.

(** * Read and write resource names: format, then parse *)
Lemma digits_slash_free s : forallb is_digit s = true -> slash_free s.
Proof.
  intros H K. rewrite forallb_forall in H. specialize (H _ K). apply is_digit_range in H.
  unfold slash in H. lia.
Qed.
Lemma lowerhex_slash_free s : forallb lowerhex s = true -> slash_free s.
Proof.
  intros H K. rewrite forallb_forall in H. specialize (H _ K). unfold lowerhex, slash in H.
  rewrite orb_true_iff, !andb_true_iff, !N.leb_le in H. lia.
Qed.

Definition good_field (c : bytes) : Prop := c <> [] /\ slash_free c.

Lemma nonempty_neq {T} (l : list T) : nonempty l = true -> l <> [].
Proof. destruct l; [discriminate|congruence]. Qed.

Lemma formatted_tail_facts d comp :
  valid_digest d -> valid_compressor comp ->
  Forall good_field (formatted_tail d comp) /\
  (exists x post, formatted_tail d comp = x :: post /\
                  (beqb x c20_blobs || beqb x c20_compressed_blobs) = true /\ (2 <= length post)%nat) /\
  filter nonempty (compressor_midfix comp ++ [function_midfix (d_fn d); d_hash d; format_int (d_size d)])
  = formatted_tail d comp.
Proof.
  intros V Hcomp. destruct (valid_bare d V) as [hb [Hbare [Hlen Hmin]]].
  destruct keyword_facts as [_ [B1 [B2 [C1 [C2 _]]]]].
  assert (Hh : good_field (d_hash d)).
  { split; [|apply lowerhex_slash_free, (vd_hex d V)].
    assert (N.to_nat c20_shortest_hash_string_size = 32%nat) as E by reflexivity. rewrite E in Hmin.
    destruct (d_hash d); [cbn in Hmin; lia|discriminate]. }
  assert (Hs : good_field (dec (Z.to_N (d_size d)))).
  { split; [apply dec_nonempty|apply digits_slash_free, dec_digits]. }
  assert (Hf : Forall good_field (filter nonempty [function_midfix (d_fn d)])).
  { destruct (supported_entry _ (vd_fn d V)) as [nm Hnm].
    pose proof fn_tables_ok as T. rewrite forallb_forall in T. specialize (T _ Hnm).
    unfold fn_entry_ok in T. cbn [fst] in T. unfold function_midfix.
    destruct (assoc (d_fn d) c20_bare_by_enum) as [[e h]|]; [|discriminate].
    destruct (c20_midfix_above <? d_fn d).
    - destruct (assoc (d_fn d) midfix_functions) as [name|]; [|discriminate].
      rewrite !andb_true_iff in T. destruct T as [[T1 T2] _]. cbn [filter]. rewrite T1.
      constructor; [|constructor]. split; [apply nonempty_neq, T1|apply no_slash_free, T2].
    - destruct (assoc (d_fn d) midfix_functions); [discriminate|]. cbn. constructor. }
  rewrite format_int_nonneg by (pose proof (vd_size d V); lia).
  unfold formatted_tail.
  assert (Hne : filter nonempty [d_hash d; dec (Z.to_N (d_size d))] = [d_hash d; dec (Z.to_N (d_size d))]).
  { cbn [filter]. rewrite !nonempty_true by (apply Hh || apply Hs). reflexivity. }
  destruct Hcomp as [->|Hcomp].
  - unfold compressor_midfix. rewrite N.eqb_refl. repeat split.
    + constructor; [split; [apply nonempty_neq, B1|apply no_slash_free, B2]|].
      apply Forall_app. split; [exact Hf|repeat constructor; apply Hh || apply Hs].
    + eexists _, _. split; [reflexivity|]. rewrite beqb_refl. split; [reflexivity|].
      rewrite app_length. cbn. lia.
    + change [function_midfix (d_fn d); d_hash d; dec (Z.to_N (d_size d))]
        with ([function_midfix (d_fn d)] ++ [d_hash d; dec (Z.to_N (d_size d))]).
      rewrite !filter_app. cbn [filter]. rewrite B1, (nonempty_true _ (proj1 Hh)), (nonempty_true _ (proj1 Hs)). reflexivity.
  - destruct (compressor_facts comp Hcomp) as [name [-> [_ [N1 N2]]]]. repeat split.
    + constructor; [split; [apply nonempty_neq, C1|apply no_slash_free, C2]|].
      constructor; [split; assumption|].
      apply Forall_app. split; [exact Hf|repeat constructor; apply Hh || apply Hs].
    + eexists _, _. split; [reflexivity|]. rewrite beqb_refl, orb_true_r. split; [reflexivity|].
      cbn [length]. rewrite app_length. cbn. lia.
    + change [function_midfix (d_fn d); d_hash d; dec (Z.to_N (d_size d))]
        with ([function_midfix (d_fn d)] ++ [d_hash d; dec (Z.to_N (d_size d))]).
      rewrite !filter_app. cbn [filter]. rewrite C1, (nonempty_true name N1), (nonempty_true _ (proj1 Hh)), (nonempty_true _ (proj1 Hs)). reflexivity.
Qed.

Lemma not_reserved_not_keyword c :
  valid_component c ->
  beqb c c20_blobs = false /\ beqb c c20_compressed_blobs = false /\ beqb c c20_uploads = false.
Proof.
  intros [_ [_ H]]. destruct keyword_facts as [_ [_ [_ [_ [_ [_ [_ [R1 [R2 R3]]]]]]]]].
  apply memb_In in R1, R2, R3.
  repeat split; apply beqb_neq; intros ->; contradiction.
Qed.

Theorem read_path_roundtrip_proof d comp :
  valid_digest d -> valid_compressor comp ->
  exists s, get_read_path (pack d) comp = Ok s /\ parse_read_path s = Ok (pack d, comp).
Proof.
  intros V Hcomp. destruct (vd_inst d V) as [comps [Hi Hc]].
  destruct (valid_component_facts comps Hc) as [Hne [Hgf _]].
  destruct (formatted_tail_facts d comp V Hcomp) as [Hgood [[x [post [Ht [Hx Hp]]]] Hfil]].
  pose proof (unpack_pack d V) as U.
  destruct (pack_unpack_accessors d V) as [_ [Hh [_ [Hin _]]]].
  unfold get_hash_string, get_instance_name in Hh, Hin. rewrite U in Hh, Hin. cbn [bind u_hs u_he u_se] in Hh, Hin.
  exists (join_slash (comps ++ formatted_tail d comp)). split.
  - unfold get_read_path. rewrite U. cbn [bind u_hs u_he u_se u_fn u_size]. rewrite Hin, Hh. cbn [bind].
    f_equal. cbn [app]. rewrite Hi, path_join_instance by exact Hne. rewrite Hfil. reflexivity.
  - unfold parse_read_path.
    rewrite fields_join by (apply Forall_app; split; assumption).
    rewrite Ht in *.
    destruct (Nat.ltb_spec (length (comps ++ x :: post)) 3) as [L|L];
      [rewrite app_length in L; cbn in L; lia|].
    rewrite (find_split_app _ comps x post 3 (length comps) 0 _); try lia; try assumption.
    + cbn [bind]. rewrite firstn_app, Nat.sub_diag, firstn_all, firstn_O, app_nil_r.
      rewrite skipn_app, Nat.sub_diag, skipn_all. cbn [app skipn].
      rewrite <- Ht. apply parse_common_valid; assumption.
    + intros c Hcin. rewrite Forall_forall in Hc.
      destruct (not_reserved_not_keyword c (Hc c Hcin)) as [-> [-> _]]. reflexivity.
    + rewrite app_length. cbn. lia.
    + rewrite app_length. cbn. lia.
Qed.

Theorem write_path_roundtrip_proof d uuid comp :
  valid_digest d -> valid_compressor comp -> uuid <> [] -> ~ In slash uuid ->
  exists s, get_write_path (pack d) uuid comp = Ok s /\ parse_write_path s = Ok (pack d, comp).
Proof.
  intros V Hcomp Hu1 Hu2. destruct (vd_inst d V) as [comps [Hi Hc]].
  destruct (valid_component_facts comps Hc) as [Hne [Hgf _]].
  destruct (formatted_tail_facts d comp V Hcomp) as [Hgood [[x [post [Ht [Hx Hp]]]] Hfil]].
  destruct keyword_facts as [_ [_ [_ [_ [_ [U1 [U2 _]]]]]]].
  pose proof (unpack_pack d V) as U.
  destruct (pack_unpack_accessors d V) as [_ [Hh [_ [Hin _]]]].
  unfold get_hash_string, get_instance_name in Hh, Hin. rewrite U in Hh, Hin. cbn [bind u_hs u_he u_se] in Hh, Hin.
  exists (join_slash (comps ++ c20_uploads :: uuid :: formatted_tail d comp)). split.
  - unfold get_write_path. rewrite U. cbn [bind u_hs u_he u_se u_fn u_size]. rewrite Hin, Hh. cbn [bind].
    f_equal. cbn [app]. rewrite Hi, path_join_instance by exact Hne. cbn [filter].
    rewrite U1, (nonempty_true uuid Hu1), Hfil. reflexivity.
  - unfold parse_write_path.
    rewrite fields_join.
    2:{ apply Forall_app. split; [exact Hgf|].
        constructor; [split; [apply nonempty_neq, U1|apply no_slash_free, U2]|].
        constructor; [split; assumption|exact Hgood]. }
    assert (Ltail : (3 <= length (formatted_tail d comp))%nat) by (rewrite Ht; cbn; lia).
    destruct (Nat.ltb_spec (length (comps ++ c20_uploads :: uuid :: formatted_tail d comp)) 5) as [L|L];
      [rewrite app_length in L; cbn in L; lia|].
    rewrite (find_split_app _ comps c20_uploads (uuid :: formatted_tail d comp) 5 (length comps) 0 _);
      try lia.
    + cbn [bind]. rewrite firstn_app, Nat.sub_diag, firstn_all, firstn_O, app_nil_r.
      rewrite skipn_app. replace (length comps + 2 - length comps)%nat with 2%nat by lia.
      rewrite skipn_all2 by lia. cbn [app skipn].
      apply parse_common_valid; assumption.
    + intros c Hcin. rewrite Forall_forall in Hc.
      destruct (not_reserved_not_keyword c (Hc c Hcin)) as [_ [_ ->]]. reflexivity.
    + apply beqb_refl.
    + rewrite app_length. cbn. lia.
    + rewrite app_length. cbn. lia.
Qed.

(** * Totality: the parsers never panic, on arbitrary bytes *)
Lemma fields_aux_nonempty s : forall cur, Forall (fun c => c <> []) (fields_aux cur s).
Proof.
  induction s as [|c r IH]; intro cur; cbn [fields_aux].
  - destruct cur as [|x cur']; cbn [nonempty]; constructor; [|constructor].
    intro E. apply (f_equal (@length N)) in E. rewrite rev_length in E. discriminate.
  - destruct (c =? slash); [|apply IH].
    destruct cur as [|x cur']; cbn [nonempty]; [apply IH|]. constructor; [|apply IH].
    intro E. apply (f_equal (@length N)) in E. rewrite rev_length in E. discriminate.
Qed.

Lemma validate_components_no_panic l :
  Forall (fun c => c <> []) l -> validate_components l <> Panic.
Proof.
  induction 1 as [|c r Hc Hr IH]; cbn [validate_components]; [discriminate|].
  rewrite nonempty_true by exact Hc. destruct (memb c c20_reserved); [discriminate|exact IH].
Qed.

Lemma new_digest_no_panic i f h s : new_digest i f h s <> Panic.
Proof.
  unfold new_digest.
  destruct (negb (N.of_nat (length h) =? 2 * snd f)); [discriminate|].
  destruct (negb (forallb lowerhex h)); [discriminate|].
  destruct (s <? 0)%Z; discriminate.
Qed.

Lemma find_split_total stop fields k : forall fuel i,
  (1 <= k)%nat -> (i + k <= length fields)%nat -> (length fields - k - i < fuel)%nat ->
  match find_split stop fields k i fuel with
  | Ok sp => (i <= sp)%nat /\ (sp + k <= length fields)%nat
  | Err _ => True
  | Panic => False
  end.
Proof.
  induction fuel as [|fuel IH]; intros i Hk Hi Hf; [lia|]. cbn [find_split].
  unfold nth_field. destruct (nth_error fields i) as [c|] eqn:E.
  - cbn [bind]. destruct (stop c); [lia|].
    destruct (Nat.ltb_spec (length fields - k) (S i)); [exact I|].
    specialize (IH (S i) Hk ltac:(lia) ltac:(lia)).
    destruct (find_split stop fields k (S i) fuel); [lia|exact I|exact IH].
  - apply nth_error_None in E. lia.
Qed.

Ltac no_panic_step :=
  cbn [bind skipn nth_field nth_error length Nat.ltb Nat.leb];
  match goal with
  | H : new_digest _ _ _ _ = Panic |- _ => exfalso; exact (new_digest_no_panic _ _ _ _ H)
  | |- Err _ <> Panic => discriminate
  | |- Ok _ <> Panic => discriminate
  | |- context [match ?x with _ => _ end] => destruct x eqn:?
  | |- context [bind ?x _] => destruct x eqn:?
  end.

Lemma parse_common_no_panic header trailer :
  Forall (fun c => c <> []) header -> (3 <= length trailer)%nat ->
  parse_common header trailer <> Panic.
Proof.
  intros Hh Hl. unfold parse_common, new_instance_name_from_components.
  pose proof (validate_components_no_panic header Hh) as Hv.
  destruct (validate_components header) as [[]| |]; [|cbn [bind]; discriminate|congruence].
  cbn [bind].
  destruct trailer as [|t0 [|t1 [|t2 rest]]]; cbn [length] in Hl; try lia.
  destruct rest as [|r0 [|r1 rest']]; repeat no_panic_step.
Qed.

Lemma Forall_firstn' {T} (P : T -> Prop) n l : Forall P l -> Forall P (firstn n l).
Proof.
  intro H. rewrite Forall_forall in *. intros x Hx. apply H.
  rewrite <- (firstn_skipn n l). apply in_or_app. left. exact Hx.
Qed.

Theorem parse_total_proof s : parse_read_path s <> Panic /\ parse_write_path s <> Panic.
Proof.
  pose proof (fields_aux_nonempty s []) as Hne. fold (fields_by_slash s) in Hne.
  split.
  - unfold parse_read_path. destruct (Nat.ltb_spec (length (fields_by_slash s)) 3) as [L|L]; [discriminate|].
    pose proof (find_split_total (fun f => beqb f c20_blobs || beqb f c20_compressed_blobs)
                  (fields_by_slash s) 3 (S (length (fields_by_slash s))) 0 ltac:(lia) ltac:(lia) ltac:(lia)) as F.
    destruct (find_split _ (fields_by_slash s) 3 0 _) as [sp| |]; [|discriminate|destruct F].
    cbn [bind]. apply parse_common_no_panic.
    + apply Forall_firstn'. exact Hne.
    + rewrite skipn_length. lia.
  - unfold parse_write_path. destruct (Nat.ltb_spec (length (fields_by_slash s)) 5) as [L|L]; [discriminate|].
    pose proof (find_split_total (fun f => beqb f c20_uploads)
                  (fields_by_slash s) 5 (S (length (fields_by_slash s))) 0 ltac:(lia) ltac:(lia) ltac:(lia)) as F.
    destruct (find_split _ (fields_by_slash s) 5 0 _) as [sp| |]; [|discriminate|destruct F].
    cbn [bind]. apply parse_common_no_panic.
    + apply Forall_firstn'. exact Hne.
    + rewrite skipn_length. lia.
Qed.

Theorem instance_name_total_proof s : new_instance_name s <> Panic.
Proof.
  unfold new_instance_name.
  destruct (has_prefix [slash] s || has_suffix [slash] s || contains [slash; slash] s); [discriminate|].
  pose proof (validate_components_no_panic (fields_by_slash s) (fields_aux_nonempty s [])) as H.
  destruct (validate_components (fields_by_slash s)) as [[]| |]; cbn [bind]; congruence.
Qed.

Lemma read_uvarint_no_panic fuel : forall first x s inp, read_uvarint fuel first x s inp <> Panic.
Proof.
  induction fuel as [|f IH]; intros first x s inp; cbn [read_uvarint]; [discriminate|].
  destruct inp as [|b r]; [discriminate|].
  destruct (b <? 128); [|apply IH].
  destruct ((match f with O => true | S _ => false end) && (1 <? b)); discriminate.
Qed.

Theorem compact_total_proof inst inp : new_digest_from_compact_binary inst inp <> Panic.
Proof.
  unfold new_digest_from_compact_binary. destruct inp as [|e r]; [discriminate|].
  unfold get_digest_function. destruct (get_bare_function e 0) as [f|]; cbn [bind]; [|discriminate].
  destruct (length r <? N.to_nat (snd f))%nat; [discriminate|].
  unfold read_varint.
  pose proof (read_uvarint_no_panic 10 true 0 0 (skipn (N.to_nat (snd f)) r)) as H.
  destruct (read_uvarint 10 true 0 0 (skipn (N.to_nat (snd f)) r)) as [[ux rest]| |]; cbn [bind];
    [|discriminate|congruence].
  pose proof (new_digest_no_panic inst f (hex_encode (firstn (N.to_nat (snd f)) r)) (unzigzag ux)) as H2.
  destruct (new_digest inst f (hex_encode (firstn (N.to_nat (snd f)) r)) (unzigzag ux)); cbn [bind];
    congruence || discriminate.
Qed.

(** * Rejection of each malformed class *)
Lemma reject_wrong_hash_length inst f h s :
  N.of_nat (length h) <> 2 * snd f -> new_digest inst f h s = Err InvalidArgument.
Proof. intro H. unfold new_digest. apply N.eqb_neq in H. rewrite H. reflexivity. Qed.

Lemma reject_non_lowerhex inst f h s c :
  In c h -> lowerhex c = false -> new_digest inst f h s = Err InvalidArgument.
Proof.
  intros Hc Hl. unfold new_digest. destruct (negb (N.of_nat (length h) =? 2 * snd f)); [reflexivity|].
  assert (forallb lowerhex h = false) as ->; [|reflexivity].
  destruct (forallb lowerhex h) eqn:E; [|reflexivity].
  rewrite forallb_forall in E. rewrite (E c Hc) in Hl. discriminate.
Qed.

Lemma uppercase_is_not_lowerhex c : 65 <= c <= 70 -> lowerhex c = false.
Proof.
  intro H. unfold lowerhex. apply orb_false_iff. split; apply andb_false_iff.
  - right. apply N.leb_gt. lia.
  - left. apply N.leb_gt. lia.
Qed.

Lemma reject_negative_size inst f h s :
  (s < 0)%Z -> new_digest inst f h s = Err InvalidArgument.
Proof.
  intro H. unfold new_digest. destruct (negb (N.of_nat (length h) =? 2 * snd f)); [reflexivity|].
  destruct (negb (forallb lowerhex h)); [reflexivity|].
  apply Z.ltb_lt in H. rewrite H. reflexivity.
Qed.

(** strconv.ParseInt: a non-digit after the optional sign, no digit at all, or a value
    outside int64 is an error *)
Definition strip_sign (s : bytes) : bytes :=
  match s with c :: r => if (c =? 43) || (c =? dash) then r else s | [] => [] end.
Lemma reject_non_numeric_size s : forallb is_digit (strip_sign s) = false -> parse_int s = None.
Proof.
  unfold parse_int, strip_sign. destruct s as [|c r]; [reflexivity|].
  destruct (c =? 43); cbn [orb].
  - intro H. destruct r; [reflexivity|]. rewrite H. reflexivity.
  - destruct (c =? dash).
    + intro H. destruct r; [reflexivity|]. rewrite H. reflexivity.
    + intro H. rewrite H. reflexivity.
Qed.
Lemma reject_empty_size : parse_int [] = None /\ parse_int [43] = None /\ parse_int [dash] = None.
Proof. repeat split. Qed.
Lemma reject_overflowing_size ds :
  ds <> [] -> forallb is_digit ds = true -> 2 ^ 63 <= horner 0 ds -> parse_int ds = None.
Proof.
  intros Hne Hd Hv. unfold parse_int. destruct ds as [|c r]; [congruence|].
  assert (is_digit c = true) as Dc by (cbn in Hd; apply andb_true_iff in Hd; tauto).
  apply is_digit_range in Dc.
  assert (c =? 43 = false) as -> by (apply N.eqb_neq; lia).
  assert (c =? dash = false) as -> by (apply N.eqb_neq; unfold dash; lia).
  rewrite Hd. apply N.ltb_ge in Hv. rewrite Hv. reflexivity.
Qed.
(** whatever ParseInt accepts is an int64 *)
Definition ptail (neg : bool) (ds : bytes) : option Z :=
  match ds with
  | [] => None
  | _ => if forallb is_digit ds then
           let v := horner 0 ds in
           if neg then (if v <=? 2 ^ 63 then Some (- Z.of_N v)%Z else None)
           else (if v <? 2 ^ 63 then Some (Z.of_N v) else None)
         else None
  end.
Lemma ptail_range neg ds z : ptail neg ds = Some z -> (- 2 ^ 63 <= z < 2 ^ 63)%Z.
Proof.
  assert ((2 ^ 63)%Z = 9223372036854775808%Z) as E by reflexivity. rewrite E.
  assert (2 ^ 63 = 9223372036854775808) as E' by reflexivity.
  unfold ptail. rewrite E'. destruct ds as [|d ds']; [discriminate|].
  destruct (forallb is_digit (d :: ds')); [|discriminate]. cbv zeta.
  generalize (horner 0 (d :: ds')). intro v.
  destruct neg.
  - destruct (N.leb_spec v 9223372036854775808); [|discriminate]. intros [= <-]. lia.
  - destruct (N.ltb_spec v 9223372036854775808); [|discriminate]. intros [= <-]. lia.
Qed.
Lemma parse_int_range s z : parse_int s = Some z -> (- 2 ^ 63 <= z < 2 ^ 63)%Z.
Proof.
  destruct s as [|c r]; [discriminate|].
  assert (parse_int (c :: r) = if c =? 43 then ptail false r else if c =? dash then ptail true r
                               else ptail false (c :: r)) as ->.
  { unfold parse_int, ptail. destruct (c =? 43); [reflexivity|]. destruct (c =? dash); reflexivity. }
  destruct (c =? 43); [apply ptail_range|]. destruct (c =? dash); apply ptail_range.
Qed.

Lemma reject_reserved_keyword comps c :
  Forall (fun c => c <> []) comps -> In c comps -> In c c20_reserved ->
  new_instance_name_from_components comps = Err InvalidArgument.
Proof.
  intros Hne Hc Hr. unfold new_instance_name_from_components.
  assert (validate_components comps = Err InvalidArgument) as ->; [|reflexivity].
  induction Hne as [|x r Hx Hne IH]; [destruct Hc|]. cbn [validate_components].
  rewrite nonempty_true by exact Hx.
  destruct (memb x c20_reserved) eqn:E; [reflexivity|].
  destruct Hc as [->|Hc]; [|apply IH, Hc].
  apply memb_In in Hr. congruence.
Qed.

Lemma has_prefix_app p s : has_prefix p (p ++ s) = true.
Proof. induction p as [|x p IH]; [destruct s; reflexivity|]. cbn. rewrite N.eqb_refl. exact IH. Qed.
Lemma contains_app p a b : contains p (a ++ p ++ b) = true.
Proof.
  induction a as [|x a IH]; cbn [app].
  - destruct (p ++ b) eqn:E; unfold contains; fold contains; rewrite <- E, has_prefix_app; reflexivity.
  - cbn [contains]. rewrite IH. apply orb_true_r.
Qed.

Lemma reject_redundant_slashes :
  (forall s, new_instance_name (slash :: s) = Err InvalidArgument) /\
  (forall s, new_instance_name (s ++ [slash]) = Err InvalidArgument) /\
  (forall a b, new_instance_name (a ++ slash :: slash :: b) = Err InvalidArgument).
Proof.
  split; [|split]; intros; unfold new_instance_name.
  - assert (has_prefix [slash] (slash :: s) = true) as -> by reflexivity. reflexivity.
  - unfold has_suffix. rewrite rev_app_distr.
    assert (has_prefix (rev [slash]) (rev [slash] ++ rev s) = true) as -> by reflexivity.
    rewrite orb_true_r. reflexivity.
  - change (a ++ slash :: slash :: b) with (a ++ [slash; slash] ++ b). rewrite contains_app.
    rewrite orb_true_r. reflexivity.
Qed.

Lemma reject_unknown_function e :
  get_bare_function e 0 = None -> get_digest_function e 0 = Err InvalidArgument.
Proof. intro H. unfold get_digest_function. rewrite H. reflexivity. Qed.

Lemma reject_unknown_compressor header name rest :
  validate_components header = Ok tt -> compressor_by_name name = None ->
  parse_common header (c20_compressed_blobs :: name :: rest) = Err Unimplemented.
Proof.
  intros Hv Hn. unfold parse_common, new_instance_name_from_components. rewrite Hv.
  cbn [bind nth_field nth_error]. destruct keyword_facts as [K _]. rewrite K, beqb_refl.
  cbn [bind nth_field nth_error]. rewrite Hn. reflexivity.
Qed.

Lemma reject_truncated_paths s :
  ((length (fields_by_slash s) < 3)%nat -> parse_read_path s = Err InvalidArgument) /\
  ((length (fields_by_slash s) < 5)%nat -> parse_write_path s = Err InvalidArgument).
Proof.
  split; intro H; [unfold parse_read_path|unfold parse_write_path];
    apply Nat.ltb_lt in H; rewrite H; reflexivity.
Qed.

(** * Ancestors: GetDigestsWithParentInstanceNames = the chain of component prefixes *)
Lemma join_snoc cs c : cs <> [] -> join_slash (cs ++ [c]) = join_slash cs ++ slash :: c.
Proof.
  induction cs as [|x r IH]; intro H; [congruence|].
  destruct r as [|y r'].
  - reflexivity.
  - change ((x :: y :: r') ++ [c]) with (x :: (y :: r') ++ [c]).
    change (join_slash (x :: (y :: r') ++ [c])) with (x ++ slash :: join_slash ((y :: r') ++ [c])).
    rewrite IH by discriminate.
    change (join_slash (x :: y :: r')) with (x ++ slash :: join_slash (y :: r')).
    rewrite <- app_assoc. reflexivity.
Qed.

Lemma prefixes_snoc {T} (cs : list T) c : prefixes (cs ++ [c]) = prefixes cs ++ [cs ++ [c]].
Proof.
  induction cs as [|x r IH]; [reflexivity|].
  cbn [app prefixes]. rewrite IH, map_app. reflexivity.
Qed.
Lemma prefixes_head {T} (l : list T) : prefixes l = [] :: tl (prefixes l).
Proof. destruct l; reflexivity. Qed.

Lemma count_slashes_app a b : count_slashes (a ++ b) = (count_slashes a + count_slashes b)%nat.
Proof. induction a as [|x a IH]; [reflexivity|]. cbn [app count_slashes]. rewrite IH. lia. Qed.
Lemma count_slashes_free c : slash_free c -> count_slashes c = 0%nat.
Proof.
  induction c as [|x c IH]; intro H; [reflexivity|]. cbn [count_slashes].
  assert (x =? slash = false) as -> by (apply N.eqb_neq; intro E; apply H; left; auto).
  apply IH. intro K. apply H. right. exact K.
Qed.
Lemma count_slashes_join comps :
  comps <> [] -> Forall (fun c => c <> [] /\ slash_free c) comps ->
  count_slashes (join_slash comps) = (length comps - 1)%nat.
Proof.
  induction comps as [|x r IH]; intros H F; [congruence|]. inversion F as [|? ? [_ Hx] Fr]; subst.
  destruct r as [|y r'].
  - cbn [join_slash length]. rewrite count_slashes_free by exact Hx. reflexivity.
  - change (join_slash (x :: y :: r')) with (x ++ slash :: join_slash (y :: r')).
    rewrite count_slashes_app, count_slashes_free by exact Hx. cbn [count_slashes].
    rewrite N.eqb_refl, IH by (discriminate || assumption). cbn [length]. lia.
Qed.

(** first and last byte of a joined instance name are not slashes *)
Lemma join_first_last comps :
  comps <> [] -> Forall (fun c => c <> [] /\ slash_free c) comps ->
  (exists a t, join_slash comps = a :: t /\ a <> slash) /\
  (exists t z, join_slash comps = t ++ [z] /\ z <> slash).
Proof.
  intros H F. split.
  - destruct comps as [|x r]; [congruence|]. inversion F as [|? ? [Hne Hsf] _]; subst.
    destruct x as [|a x']; [congruence|].
    assert (a <> slash) by (intro E; apply Hsf; left; auto).
    destruct r; [exists a, x'; split; [reflexivity|assumption]|].
    eexists a, _. split; [reflexivity|assumption].
  - destruct (exists_last H) as [cs [c ->]].
    apply Forall_app in F as [_ Fc]. inversion Fc as [|? ? [Hne Hsf] _]; subst.
    destruct (exists_last Hne) as [c' [z ->]].
    assert (z <> slash) by (intro E; apply Hsf; apply in_or_app; right; left; auto).
    destruct cs as [|y cs'].
    + exists c', z. split; [reflexivity|assumption].
    + rewrite join_snoc by discriminate.
      exists (join_slash (y :: cs') ++ slash :: c'), z. split; [|assumption].
      rewrite <- app_assoc. reflexivity.
Qed.

Lemma count_slashes_mid s :
  (exists a t, s = a :: t /\ a <> slash) -> (exists t z, s = t ++ [z] /\ z <> slash) ->
  count_slashes (firstn (length s - 2) (tl s)) = count_slashes s.
Proof.
  intros [a [t [-> Ha]]] [t' [z [E Hz]]]. cbn [tl length count_slashes].
  assert (a =? slash = false) as -> by (apply N.eqb_neq; exact Ha). cbn [Nat.add].
  destruct t' as [|b t''].
  - cbn in E. injection E as -> ->. reflexivity.
  - cbn [app] in E. injection E as <- ->. rewrite app_length. cbn [length].
    replace (S (length t'' + 1) - 2)%nat with (length t'' + 0)%nat by lia.
    rewrite firstn_app_2. cbn [firstn]. rewrite app_nil_r, count_slashes_app. cbn [count_slashes].
    assert (z =? slash = false) as -> by (apply N.eqb_neq; exact Hz). lia.
Qed.

Lemma scan_back_app pre c : forall k,
  slash_free c -> (k < length c)%nat ->
  scan_back (pre ++ slash :: c) (S (length pre) + k) = Ok (S (length pre)).
Proof.
  induction k as [|k IH]; intros Hsf Hk.
  - rewrite Nat.add_0_r. cbn [scan_back]. unfold nth_byte.
    rewrite nth_error_app2 by lia. rewrite Nat.sub_diag. cbn [nth_error bind]. rewrite N.eqb_refl. reflexivity.
  - replace (S (length pre) + S k)%nat with (S (S (length pre) + k)) by lia. cbn [scan_back]. unfold nth_byte.
    rewrite nth_error_app2 by lia.
    replace (S (length pre) + k - length pre)%nat with (S k) by lia. cbn [nth_error].
    destruct (nth_error c k) as [x|] eqn:E; [|apply nth_error_None in E; lia].
    cbn [bind]. assert (x =? slash = false) as ->.
    { apply N.eqb_neq. intro Q. subst x. apply Hsf. eapply nth_error_In. exact E. }
    apply IH; [exact Hsf|lia].
Qed.

Lemma parents_loop_spec K : forall comps acc,
  comps <> [] -> Forall (fun c => c <> [] /\ slash_free c) comps ->
  parents_loop (K ++ dash :: join_slash comps) (length comps - 1) acc =
  Ok (map (fun p => K ++ dash :: join_slash p) (tl (prefixes comps)) ++ acc).
Proof.
  intro comps. induction comps as [|c cs IH] using rev_ind; intros acc H F; [congruence|].
  apply Forall_app in F as [Fcs Fc]. inversion Fc as [|? ? [Hne Hsf] _]; subst.
  rewrite prefixes_snoc. destruct cs as [|y cs'].
  - cbn. reflexivity.
  - rewrite app_length. cbn [length]. replace (S (length cs') + 1 - 1)%nat with (S (length cs')) by lia.
    cbn [parents_loop]. rewrite join_snoc by discriminate.
    set (pre := K ++ dash :: join_slash (y :: cs')).
    assert (Ev : K ++ dash :: join_slash (y :: cs') ++ slash :: c = pre ++ slash :: c).
    { unfold pre. rewrite <- app_assoc. reflexivity. }
    rewrite Ev.
    assert (Lc : (0 < length c)%nat) by (destruct c; [congruence|cbn; lia]).
    replace (length (pre ++ slash :: c) - 1)%nat with (S (length pre) + (length c - 1))%nat
      by (rewrite app_length; cbn [length]; lia).
    rewrite scan_back_app by (assumption || lia). cbn [bind].
    replace (S (length pre) - 1)%nat with (length pre) by lia.
    rewrite slice_prefix. cbn [bind]. unfold pre.
    replace (length (y :: cs') - 1)%nat with (length (y :: cs') - 1)%nat in IH by reflexivity.
    cbn [length] in IH. replace (S (length cs') - 1)%nat with (length cs') in IH by lia.
    rewrite IH by (discriminate || assumption).
    rewrite (prefixes_head (y :: cs')). cbn [tl app]. rewrite map_app. cbn [map].
    change (y :: cs' ++ [c]) with ((y :: cs') ++ [c]). rewrite join_snoc by discriminate.
    rewrite <- (app_assoc _ [_] acc). cbn [app].
    replace ((K ++ dash :: join_slash (y :: cs')) ++ slash :: c)
      with (K ++ dash :: join_slash (y :: cs') ++ slash :: c) by (rewrite <- app_assoc; reflexivity).
    reflexivity.
Qed.

Theorem parents_spec_proof d comps :
  valid_digest d -> d_inst d = join_slash comps -> Forall valid_component comps ->
  get_parents (pack d) = Ok (map (fun p => pack (with_instance d (join_slash p))) (prefixes comps)).
Proof.
  intros V Hi Hc. destruct (valid_component_facts comps Hc) as [_ [Hgf _]].
  pose proof (vd_size d V) as Hsz.
  assert (Hp : forall p, pack (with_instance d (join_slash p)) = key0 d ++ dash :: join_slash p).
  { intro p. rewrite pack_shape by (cbn; lia). reflexivity. }
  rewrite (map_ext _ _ Hp).
  unfold get_parents. rewrite (unpack_pack d V). cbn [bind u_se].
  rewrite pack_shape by lia. rewrite Hi.
  replace (key0 d ++ dash :: join_slash comps) with ((key0 d ++ [dash]) ++ join_slash comps)
    by (rewrite <- app_assoc; reflexivity).
  replace (S (length (key0 d))) with (length (key0 d ++ [dash])) by (rewrite app_length; cbn; lia).
  rewrite slice_prefix. cbn [bind].
  destruct comps as [|c0 cs].
  - cbn [join_slash]. rewrite app_nil_r, Nat.eqb_refl. cbn. reflexivity.
  - assert (Hne : c0 :: cs <> []) by discriminate.
    destruct (join_first_last (c0 :: cs) Hne Hgf) as [Hf Hl].
    assert (Ln : (0 < length (join_slash (c0 :: cs)))%nat).
    { destruct Hf as [a [t [-> _]]]. cbn. lia. }
    destruct (Nat.eqb_spec (length (key0 d ++ [dash])) (length ((key0 d ++ [dash]) ++ join_slash (c0 :: cs)))) as [E|_];
      [rewrite !app_length in E; lia|].
    assert (Hmid : firstn (length ((key0 d ++ [dash]) ++ join_slash (c0 :: cs)) - 1 - S (length (key0 d ++ [dash])))
                     (skipn (S (length (key0 d ++ [dash]))) ((key0 d ++ [dash]) ++ join_slash (c0 :: cs)))
                   = firstn (length (join_slash (c0 :: cs)) - 2) (tl (join_slash (c0 :: cs)))).
    { rewrite app_length.
      replace (length (key0 d ++ [dash]) + length (join_slash (c0 :: cs)) - 1 - S (length (key0 d ++ [dash])))%nat
        with (length (join_slash (c0 :: cs)) - 2)%nat by lia.
      f_equal. destruct Hf as [a [t [-> _]]].
      replace (S (length (key0 d ++ [dash]))) with (length ((key0 d ++ [dash]) ++ [a]))
        by (rewrite app_length; cbn; lia).
      replace ((key0 d ++ [dash]) ++ a :: t) with (((key0 d ++ [dash]) ++ [a]) ++ t)
        by (rewrite <- app_assoc; reflexivity).
      rewrite skipn_app_le by lia. rewrite skipn_all. reflexivity. }
    rewrite Hmid, (count_slashes_mid _ Hf Hl), (count_slashes_join _ Hne Hgf).
    replace ((key0 d ++ [dash]) ++ join_slash (c0 :: cs)) with (key0 d ++ dash :: join_slash (c0 :: cs))
      by (rewrite <- app_assoc; reflexivity).
    rewrite parents_loop_spec by assumption. cbn [bind].
    rewrite (prefixes_head (c0 :: cs)). cbn [map tl]. rewrite app_nil_r.
    reflexivity.
Qed.

(** * NewInstanceName accepts every valid instance name *)
Lemma contains_skip c rest :
  slash_free c -> contains [slash; slash] (c ++ rest) = contains [slash; slash] rest.
Proof.
  induction c as [|x c IH]; intro H; [reflexivity|]. cbn [app].
  assert (x =? slash = false) as E by (apply N.eqb_neq; intro Q; apply H; left; auto).
  change (contains [slash; slash] (x :: c ++ rest))
    with (has_prefix [slash; slash] (x :: c ++ rest) || contains [slash; slash] (c ++ rest)).
  cbn [has_prefix]. rewrite N.eqb_sym, E. cbn [andb orb]. apply IH. intro K. apply H. right. exact K.
Qed.

Lemma contains_join comps :
  Forall (fun c => c <> [] /\ slash_free c) comps -> contains [slash; slash] (join_slash comps) = false.
Proof.
  induction comps as [|x r IH]; intro F; [reflexivity|]. inversion F as [|? ? [Hne Hsf] Fr]; subst.
  destruct r as [|y r'].
  - cbn [join_slash]. rewrite <- (app_nil_r x), contains_skip by exact Hsf. reflexivity.
  - change (join_slash (x :: y :: r')) with (x ++ slash :: join_slash (y :: r')).
    rewrite contains_skip by exact Hsf.
    change (contains [slash; slash] (slash :: join_slash (y :: r')))
      with (has_prefix [slash; slash] (slash :: join_slash (y :: r')) || contains [slash; slash] (join_slash (y :: r'))).
    rewrite IH by exact Fr. rewrite orb_false_r.
    destruct (join_first_last (y :: r') ltac:(discriminate) Fr) as [[a [t [-> Ha]]] _].
    cbn [has_prefix]. rewrite N.eqb_refl. cbn [andb].
    assert (slash =? a = false) as -> by (apply N.eqb_neq; congruence). reflexivity.
Qed.

Theorem instance_name_accepts_valid_proof v : valid_instance v -> new_instance_name v = Ok v.
Proof.
  intros [comps [-> Hc]]. destruct (valid_component_facts comps Hc) as [_ [Hgf _]].
  unfold new_instance_name. rewrite contains_join by exact Hgf. rewrite orb_false_r.
  rewrite fields_join by exact Hgf. rewrite validate_components_valid by exact Hc. cbn [bind].
  destruct comps as [|c0 cs]; [reflexivity|].
  destruct (join_first_last (c0 :: cs) ltac:(discriminate) Hgf) as [[a [t [E1 Ha]]] [t' [z [E2 Hz]]]].
  assert (has_prefix [slash] (join_slash (c0 :: cs)) = false) as ->.
  { rewrite E1. cbn [has_prefix]. assert (slash =? a = false) as -> by (apply N.eqb_neq; congruence). reflexivity. }
  assert (has_suffix [slash] (join_slash (c0 :: cs)) = false) as ->.
  { unfold has_suffix. rewrite E2, rev_app_distr. cbn [rev app has_prefix].
    assert (slash =? z = false) as -> by (apply N.eqb_neq; congruence). reflexivity. }
  reflexivity.
Qed.

(** * Soundness of acceptance: whatever a parser accepts is a non-degenerate digest *)
Definition bare_entry_ok (f : bare) : bool :=
  existsb (N.eqb (fst f)) supported_enums
  && match assoc (fst f) c20_bare_by_enum with Some g => (fst g =? fst f) && (snd g =? snd f) | None => false end.
Lemma bare_tables_sound :
  forallb (fun p => bare_entry_ok (snd p)) c20_bare_by_enum = true /\
  forallb (fun p => bare_entry_ok (snd p)) c20_bare_by_size = true.
Proof. split; vm_compute; reflexivity. Qed.

Lemma assoc_In {V} k (tbl : list (N * V)) v : assoc k tbl = Some v -> In (k, v) tbl.
Proof.
  induction tbl as [|[k' v'] r IH]; [discriminate|]. cbn [assoc].
  destruct (N.eqb_spec k k'); [intros [= ->]; subst; left; reflexivity|intro H; right; apply IH, H].
Qed.

Lemma get_bare_function_sound e n f :
  get_bare_function e n = Some f ->
  In (fst f) supported_enums /\ hash_bytes_of (fst f) = Some (snd f).
Proof.
  intro H. assert (bare_entry_ok f = true) as B.
  { destruct bare_tables_sound as [T1 T2]. unfold get_bare_function in H.
    destruct (e =? c20_enum_unknown); apply assoc_In in H;
      [rewrite forallb_forall in T2; exact (T2 _ H)|rewrite forallb_forall in T1; exact (T1 _ H)]. }
  unfold bare_entry_ok in B. apply andb_true_iff in B as [B1 B2].
  split.
  - apply existsb_exists in B1 as [x [Hx E]]. apply N.eqb_eq in E. subst. exact Hx.
  - unfold hash_bytes_of. destruct (assoc (fst f) c20_bare_by_enum) as [g|]; [|discriminate].
    apply andb_true_iff in B2 as [_ B2]. apply N.eqb_eq in B2. rewrite B2. reflexivity.
Qed.

Lemma function_by_name_sound name f :
  function_by_name name = Some f -> In (fst f) supported_enums /\ hash_bytes_of (fst f) = Some (snd f).
Proof.
  unfold function_by_name. destruct (assoc_name name midfix_functions); [|discriminate].
  apply get_bare_function_sound.
Qed.

Lemma fields_aux_slash_free s : forall cur,
  slash_free cur -> Forall slash_free (fields_aux cur s).
Proof.
  induction s as [|c r IH]; intros cur H; cbn [fields_aux].
  - destruct (nonempty cur); constructor; [|constructor]. intro K. apply in_rev in K. exact (H K).
  - destruct (N.eqb_spec c slash).
    + destruct (nonempty cur); [constructor; [intro K; apply in_rev in K; exact (H K)|]|];
        apply IH; intros [].
    + apply IH. intros [E|K]; [congruence|exact (H K)].
Qed.

Lemma validate_components_ok_not_reserved l :
  validate_components l = Ok tt -> Forall (fun c => ~ In c c20_reserved) l.
Proof.
  induction l as [|c r IH]; intro H; [constructor|]. cbn [validate_components] in H.
  destruct (nonempty c); [|discriminate].
  destruct (memb c c20_reserved) eqn:E; [discriminate|].
  constructor; [intro K; apply memb_In in K; congruence|apply IH, H].
Qed.

Lemma new_digest_ok_valid comps f h z v :
  Forall (fun c => c <> [] /\ slash_free c) comps -> validate_components comps = Ok tt ->
  In (fst f) supported_enums -> hash_bytes_of (fst f) = Some (snd f) -> (z < 2 ^ 63)%Z ->
  new_digest (join_slash comps) f h z = Ok v ->
  exists d, valid_digest d /\ v = pack d.
Proof.
  intros Hgf Hv Hs Hb Hz H. unfold new_digest in H.
  destruct (N.eqb_spec (N.of_nat (length h)) (2 * snd f)) as [El|]; [|discriminate]. cbn [negb] in H.
  destruct (forallb lowerhex h) eqn:Eh; [|discriminate]. cbn [negb] in H.
  destruct (Z.ltb_spec z 0); [discriminate|]. injection H as <-.
  exists {| d_fn := fst f; d_hash := h; d_size := z; d_inst := join_slash comps |}.
  split; [|reflexivity]. constructor; cbn [d_fn d_hash d_size d_inst].
  - exact Hs.
  - exists (snd f). split; assumption.
  - exact Eh.
  - lia.
  - exists comps. split; [reflexivity|].
    pose proof (validate_components_ok_not_reserved comps Hv) as Hr.
    rewrite Forall_forall in *. intros c Hc. destruct (Hgf c Hc) as [A B].
    repeat split; [exact A|exact B|exact (Hr c Hc)].
Qed.

Ltac sound_step :=
  cbn [bind skipn nth_field nth_error length Nat.ltb Nat.leb];
  match goal with
  | |- Err _ = Ok _ -> _ => discriminate
  | |- Panic = Ok _ -> _ => discriminate
  | |- context [match ?x with _ => _ end] => destruct x eqn:?
  | |- context [bind ?x _] =>
      lazymatch x with new_digest _ _ _ _ => fail | _ => destruct x eqn:? end
  end.

Lemma parse_common_sound header trailer v c :
  Forall (fun c => c <> [] /\ slash_free c) header -> (3 <= length trailer)%nat ->
  parse_common header trailer = Ok (v, c) ->
  (exists d, valid_digest d /\ v = pack d) /\ valid_compressor c.
Proof.
  intros Hh Hl. unfold parse_common, new_instance_name_from_components.
  destruct (validate_components header) as [[]| |] eqn:Hv; cbn [bind]; try discriminate.
  assert (Fin : forall f h z cc,
            In (fst f) supported_enums /\ hash_bytes_of (fst f) = Some (snd f) ->
            (exists s, parse_int s = Some z) -> valid_compressor cc ->
            (' d <- new_digest (join_slash header) f h z;; Ok (d, cc)) = Ok (v, c) ->
            (exists d, valid_digest d /\ v = pack d) /\ valid_compressor c).
  { intros f h z cc [F1 F2] [s Hs] Hcc H.
    destruct (new_digest (join_slash header) f h z) as [v'| |] eqn:N; cbn [bind] in H; try discriminate.
    injection H as -> ->. split; [|exact Hcc].
    eapply new_digest_ok_valid; try eassumption. apply parse_int_range in Hs. lia. }
  assert (Cid : valid_compressor c20_compressor_identity) by (left; reflexivity).
  assert (Cn : forall n cc, compressor_by_name n = Some cc -> valid_compressor cc).
  { intros n cc H. right. unfold compressor_by_name in H.
    clear -H. induction c20_compressors as [|[c0 n0] r IH]; [discriminate|]. cbn [assoc_name] in H.
    destruct (beqb n n0); [injection H as ->; left; reflexivity|right; apply IH, H]. }
  destruct trailer as [|t0 [|t1 [|t2 rest]]]; cbn [length] in Hl; try lia.
  destruct rest as [|r0 [|r1 rest']]; repeat sound_step;
    try (apply Fin; [first [eapply function_by_name_sound; eassumption
                           |eapply get_bare_function_sound; eassumption]
                    |eexists; eassumption
                    |first [exact Cid|eapply Cn; eassumption]]).
Qed.

Theorem parse_sound_proof s v c :
  (parse_read_path s = Ok (v, c) \/ parse_write_path s = Ok (v, c)) ->
  (exists d, valid_digest d /\ v = pack d) /\ valid_compressor c.
Proof.
  assert (Hf : Forall (fun c => c <> [] /\ slash_free c) (fields_by_slash s)).
  { pose proof (fields_aux_nonempty s []) as A. pose proof (fields_aux_slash_free s [] ltac:(intros [])) as B.
    fold (fields_by_slash s) in A, B. rewrite Forall_forall in *. intros x Hx. split; [apply A|apply B]; exact Hx. }
  intros [H|H].
  - unfold parse_read_path in H. destruct (Nat.ltb_spec (length (fields_by_slash s)) 3) as [L|L]; [discriminate|].
    pose proof (find_split_total (fun f => beqb f c20_blobs || beqb f c20_compressed_blobs)
                  (fields_by_slash s) 3 (S (length (fields_by_slash s))) 0 ltac:(lia) ltac:(lia) ltac:(lia)) as F.
    destruct (find_split _ (fields_by_slash s) 3 0 _) as [sp| |]; [|discriminate|destruct F].
    cbn [bind] in H. eapply parse_common_sound; [| |exact H].
    + apply Forall_firstn'. exact Hf.
    + rewrite skipn_length. lia.
  - unfold parse_write_path in H. destruct (Nat.ltb_spec (length (fields_by_slash s)) 5) as [L|L]; [discriminate|].
    pose proof (find_split_total (fun f => beqb f c20_uploads)
                  (fields_by_slash s) 5 (S (length (fields_by_slash s))) 0 ltac:(lia) ltac:(lia) ltac:(lia)) as F.
    destruct (find_split _ (fields_by_slash s) 5 0 _) as [sp| |]; [|discriminate|destruct F].
    cbn [bind] in H. eapply parse_common_sound; [| |exact H].
    + apply Forall_firstn'. exact Hf.
    + rewrite skipn_length. lia.
Qed.
