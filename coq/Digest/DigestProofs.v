(** C20 — lemmas and theorems about the pkg/digest model. *)
From Coq Require Import Decimal DecimalN DecimalPos.
From Coq Require Import List NArith ZArith Bool Lia Arith.
From BBS Require Import Generated.Consts Digest.DigestModel.
Import ListNotations.
Open Scope N_scope.

(** * Byte strings *)
Lemma beqb_eq a b : beqb a b = true <-> a = b.
Proof.
  revert b; induction a as [|x a IH]; destruct b as [|y b]; cbn; try (split; congruence).
  rewrite andb_true_iff, N.eqb_eq, IH. split; [intros [-> ->]; reflexivity|intros [= -> ->]; auto].
Qed.
Lemma beqb_refl a : beqb a a = true.
Proof. apply beqb_eq; reflexivity. Qed.
Lemma beqb_neq a b : beqb a b = false <-> a <> b.
Proof. rewrite <- beqb_eq. destruct (beqb a b); split; congruence. Qed.

Lemma bltb_irrefl a : bltb a a = false.
Proof. induction a as [|x a IH]; cbn; [reflexivity|]. rewrite N.ltb_irrefl, N.eqb_refl. exact IH. Qed.
Lemma bltb_trans a b c : bltb a b = true -> bltb b c = true -> bltb a c = true.
Proof.
  revert b c; induction a as [|x a IH]; intros [|y b] [|z c]; cbn; try congruence.
  destruct (N.ltb_spec x y), (N.ltb_spec y z), (N.ltb_spec x z); try lia; try congruence;
    destruct (N.eqb_spec x y), (N.eqb_spec y z), (N.eqb_spec x z); try lia; try congruence.
  apply IH.
Qed.
Lemma bltb_total a b : bltb a b = false -> beqb a b = false -> bltb b a = true.
Proof.
  revert b; induction a as [|x a IH]; intros [|y b]; cbn; try congruence.
  rewrite (N.eqb_sym y x).
  destruct (N.ltb_spec x y), (N.ltb_spec y x), (N.eqb_spec x y); try lia; try congruence.
  cbn. apply IH.
Qed.
Lemma bltb_asym a b : bltb a b = true -> bltb b a = false.
Proof.
  intro H. destruct (bltb b a) eqn:E; [|reflexivity].
  pose proof (bltb_trans _ _ _ H E) as T. rewrite bltb_irrefl in T. discriminate.
Qed.
Lemma bltb_neq a b : bltb a b = true -> a <> b.
Proof. intros H ->. rewrite bltb_irrefl in H. discriminate. Qed.

Lemma memb_In x l : memb x l = true <-> In x l.
Proof.
  unfold memb. rewrite existsb_exists. split.
  - intros [y [Hy E]]. apply beqb_eq in E. subst. exact Hy.
  - intro H. exists x. split; [exact H|apply beqb_refl].
Qed.

(** * Decimal *)
Lemma horner_acc d p : horner (N.pos p) (uint_bytes d) = N.pos (Pos.of_uint_acc d p).
Proof.
  revert p; induction d; intro p; cbn [uint_bytes horner Pos.of_uint_acc]; try reflexivity;
    rewrite <- IHd; f_equal; lia.
Qed.
Lemma horner_uint d : horner 0 (uint_bytes d) = Pos.of_uint d.
Proof.
  induction d; cbn [uint_bytes horner Pos.of_uint]; try reflexivity;
    try (rewrite <- horner_acc; f_equal; lia).
  exact IHd.
Qed.
Lemma horner_dec n : horner 0 (dec n) = n.
Proof. unfold dec. rewrite horner_uint. apply DecimalN.Unsigned.of_to. Qed.

Lemma uint_bytes_digits d : forallb is_digit (uint_bytes d) = true.
Proof. induction d; cbn; auto. Qed.
Lemma dec_digits n : forallb is_digit (dec n) = true.
Proof. apply uint_bytes_digits. Qed.
Lemma dec_nonempty n : dec n <> [].
Proof.
  unfold dec. destruct n as [|p]; cbn; [discriminate|].
  pose proof (DecimalPos.Unsigned.to_uint_nonnil p) as H.
  destruct (Pos.to_uint p); cbn; congruence.
Qed.

Lemma horner_ge ds a : a <= horner a ds.
Proof.
  revert a; induction ds as [|c r IH]; intro a; cbn; [lia|].
  specialize (IH (a * 10 + (c - 48))). lia.
Qed.

Lemma is_digit_range c : is_digit c = true <-> 48 <= c <= 57.
Proof. unfold is_digit. rewrite andb_true_iff, !N.leb_le. tauto. Qed.

Lemma byte_sub_digit c : is_digit c = true -> byte_sub c 48 = c - 48.
Proof.
  intro H. apply is_digit_range in H. unfold byte_sub.
  replace (c + 256 - 48) with (c - 48 + 1 * 256) by lia.
  rewrite N.mod_add by lia. apply N.mod_small. lia.
Qed.

Lemma wrap64_small z : (- 2 ^ 63 <= z < 2 ^ 63)%Z -> wrap64 z = z.
Proof. intro H. unfold wrap64. rewrite Z.mod_small; lia. Qed.

(** * unpack on a string of the packed shape *)
Lemma scan_dash_app h rest i :
  forallb (fun c => negb (c =? dash)) h = true ->
  scan_dash (h ++ dash :: rest) i = Ok (i + length h)%nat.
Proof.
  revert i; induction h as [|c h IH]; intros i H; cbn.
  - f_equal. lia.
  - cbn in H. apply andb_true_iff in H as [Hc Hh]. apply negb_true_iff in Hc. rewrite Hc.
    rewrite IH by exact Hh. f_equal. lia.
Qed.

Lemma scan_size_app ds rest i a :
  forallb is_digit ds = true -> horner a ds < 2 ^ 63 ->
  scan_size (ds ++ dash :: rest) i (Z.of_N a) = Ok (Z.of_N (horner a ds), (i + length ds)%nat).
Proof.
  revert i a; induction ds as [|c r IH]; intros i a Hd Hb; cbn.
  - do 2 f_equal. lia.
  - cbn in Hd. apply andb_true_iff in Hd as [Hc Hr].
    assert (c =? dash = false) as ->.
    { apply is_digit_range in Hc. apply N.eqb_neq. unfold dash. lia. }
    rewrite byte_sub_digit by exact Hc. cbn in Hb.
    pose proof (horner_ge r (a * 10 + (c - 48))) as Hge.
    rewrite wrap64_small.
    + replace (Z.of_N a * 10 + Z.of_N (c - 48))%Z with (Z.of_N (a * 10 + (c - 48))) by lia.
      rewrite IH by assumption. do 2 f_equal. lia.
    + assert (2 ^ 63 = 9223372036854775808) as E by reflexivity. rewrite E in *.
      assert ((2 ^ 63)%Z = 9223372036854775808%Z) as EZ by reflexivity. rewrite EZ. lia.
Qed.

(** the digits of the function enum at the front of the packed string *)
Definition fnb_check (fb : bytes) (fn : N) : bool :=
  match fb with
  | [a] => is_digit a && (fn =? a - 48)
  | [a; b] => is_digit a && is_digit b && (fn =? (a - 48) * 10 + (b - 48))
  | _ => false
  end.

Lemma lowerhex_not_dash h :
  forallb lowerhex h = true -> forallb (fun c => negb (c =? dash)) h = true.
Proof.
  intro H. rewrite forallb_forall in *. intros c Hc. specialize (H c Hc).
  unfold lowerhex in H. apply negb_true_iff, N.eqb_neq. unfold dash.
  rewrite orb_true_iff, !andb_true_iff, !N.leb_le in H. lia.
Qed.

Lemma skipn_app_le {T} n (l r : list T) : (n <= length l)%nat -> skipn n (l ++ r) = skipn n l ++ r.
Proof. intro H. rewrite skipn_app. replace (n - length l)%nat with 0%nat by lia. reflexivity. Qed.

Lemma forallb_skipn {T} (f : T -> bool) n l : forallb f l = true -> forallb f (skipn n l) = true.
Proof.
  intro H. rewrite forallb_forall in *. intros x Hx. apply H.
  rewrite <- (firstn_skipn n l). apply in_or_app. right. exact Hx.
Qed.

Lemma unpack_shape fb fn hash sb inst :
  fnb_check fb fn = true ->
  (N.to_nat c20_shortest_hash_string_size <= length hash)%nat ->
  forallb lowerhex hash = true ->
  forallb is_digit sb = true -> horner 0 sb < 2 ^ 63 ->
  unpack (fb ++ dash :: hash ++ dash :: sb ++ dash :: inst) =
  Ok {| u_fn := fn; u_hs := S (length fb); u_he := (S (length fb) + length hash)%nat;
        u_size := Z.of_N (horner 0 sb);
        u_se := (S (length fb) + length hash + 1 + length sb)%nat |}.
Proof.
  intros Hfb Hlen Hhex Hdig Hb.
  assert (N.to_nat c20_shortest_hash_string_size = 32%nat) as E32 by reflexivity.
  rewrite E32 in Hlen.
  pose proof (lowerhex_not_dash _ Hhex) as Hnd.
  unfold unpack. rewrite E32.
  destruct fb as [|a [|b [|? ?]]]; cbn in Hfb; try discriminate.
  - apply andb_true_iff in Hfb as [Ha Hfn]. apply N.eqb_eq in Hfn.
    cbn [app nth_byte nth_error bind]. rewrite N.eqb_refl.
    change (skipn 32 (a :: dash :: hash ++ dash :: sb ++ dash :: inst))
      with (skipn 30 (hash ++ dash :: sb ++ dash :: inst)).
    rewrite skipn_app_le by lia.
    rewrite scan_dash_app by (apply forallb_skipn; exact Hnd).
    rewrite skipn_length. cbn [bind].
    replace (32 + (length hash - 30))%nat with (2 + length hash)%nat by lia.
    change (skipn (S (2 + length hash)) (a :: dash :: hash ++ dash :: sb ++ dash :: inst))
      with (skipn (S (length hash)) (hash ++ dash :: sb ++ dash :: inst)).
    replace (hash ++ dash :: sb ++ dash :: inst) with ((hash ++ [dash]) ++ sb ++ dash :: inst)
      by (rewrite <- app_assoc; reflexivity).
    rewrite skipn_app_le by (rewrite app_length; cbn; lia).
    rewrite skipn_all2 by (rewrite app_length; cbn; lia). cbn [app].
    change 0%Z with (Z.of_N 0).
    rewrite scan_size_app by assumption. cbn [bind].
    rewrite byte_sub_digit by exact Ha. subst fn.
    f_equal. f_equal; cbn [length]; lia.
  - apply andb_true_iff in Hfb as [Hab Hfn]. apply andb_true_iff in Hab as [Ha Hb'].
    apply N.eqb_eq in Hfn.
    cbn [app nth_byte nth_error bind].
    assert (b =? dash = false) as ->.
    { apply is_digit_range in Hb'. apply N.eqb_neq. unfold dash. lia. }
    change (skipn 32 (a :: b :: dash :: hash ++ dash :: sb ++ dash :: inst))
      with (skipn 29 (hash ++ dash :: sb ++ dash :: inst)).
    rewrite skipn_app_le by lia.
    rewrite scan_dash_app by (apply forallb_skipn; exact Hnd).
    rewrite skipn_length. cbn [bind].
    replace (32 + (length hash - 29))%nat with (3 + length hash)%nat by lia.
    change (skipn (S (3 + length hash)) (a :: b :: dash :: hash ++ dash :: sb ++ dash :: inst))
      with (skipn (S (length hash)) (hash ++ dash :: sb ++ dash :: inst)).
    replace (hash ++ dash :: sb ++ dash :: inst) with ((hash ++ [dash]) ++ sb ++ dash :: inst)
      by (rewrite <- app_assoc; reflexivity).
    rewrite skipn_app_le by (rewrite app_length; cbn; lia).
    rewrite skipn_all2 by (rewrite app_length; cbn; lia). cbn [app].
    change 0%Z with (Z.of_N 0).
    rewrite scan_size_app by assumption. cbn [bind].
    rewrite !byte_sub_digit by assumption. subst fn.
    f_equal. f_equal; cbn [length]; lia.
Qed.

(** * Facts about the literal tables (re-checked whenever the Go source changes) *)
Definition table_entry_ok (p : N * bytes) : bool :=
  let fn := fst p in
  fnb_check (dec fn) fn && negb (fn =? c20_enum_unknown) && (fn <? 256)
  && match assoc fn c20_bare_by_enum with
     | Some (e, hb) => (e =? fn) && (c20_shortest_hash_string_size <=? 2 * hb)
     | None => false
     end.
Lemma tables_ok : forallb table_entry_ok c20_supported = true.
Proof. vm_compute. reflexivity. Qed.

Lemma supported_entry fn : In fn supported_enums -> exists n, In (fn, n) c20_supported.
Proof.
  unfold supported_enums. rewrite in_map_iff. intros [[f n] [E H]]. cbn in E. subst. eauto.
Qed.

Lemma supported_facts fn :
  In fn supported_enums ->
  fnb_check (dec fn) fn = true /\ fn <> c20_enum_unknown /\ fn < 256 /\
  exists hb, assoc fn c20_bare_by_enum = Some (fn, hb) /\ c20_shortest_hash_string_size <= 2 * hb.
Proof.
  intro H. destruct (supported_entry _ H) as [n Hn].
  pose proof tables_ok as T. rewrite forallb_forall in T. specialize (T _ Hn).
  unfold table_entry_ok in T. cbn [fst] in T.
  destruct (assoc fn c20_bare_by_enum) as [[e hb]|]; [|rewrite andb_false_r in T; discriminate].
  rewrite !andb_true_iff in T. destruct T as [[[T1 T2] T3] [T4 T5]].
  apply negb_true_iff, N.eqb_neq in T2. apply N.ltb_lt in T3.
  apply N.eqb_eq in T4. apply N.leb_le in T5. subst e.
  repeat split; try assumption. exists hb. split; [reflexivity|assumption].
Qed.

Lemma valid_bare d :
  valid_digest d ->
  exists hb, get_bare_function (d_fn d) 0 = Some (d_fn d, hb)
             /\ N.of_nat (length (d_hash d)) = 2 * hb
             /\ (N.to_nat c20_shortest_hash_string_size <= length (d_hash d))%nat.
Proof.
  intros [Hfn [hb [Hhb Hlen]] _ _ _].
  destruct (supported_facts _ Hfn) as [_ [Hu [_ [hb' [Ha Hs]]]]].
  unfold hash_bytes_of in Hhb. rewrite Ha in Hhb. cbn in Hhb. injection Hhb as <-.
  exists hb'. unfold get_bare_function.
  apply N.eqb_neq in Hu. rewrite Hu. repeat split; [exact Ha|exact Hlen|lia].
Qed.

(** * Slices of the packed shape *)
Lemma slice_mid (a b c : bytes) : slice (a ++ b ++ c) (length a) (length a + length b) = Ok b.
Proof.
  unfold slice. rewrite !app_length.
  replace ((length a <=? length a + length b)%nat) with true by (symmetry; apply Nat.leb_le; lia).
  replace ((length a + length b <=? length a + (length b + length c))%nat) with true
    by (symmetry; apply Nat.leb_le; lia).
  cbn [andb]. rewrite skipn_app_le by lia. rewrite skipn_all. cbn [app].
  replace (length a + length b - length a)%nat with (length b + 0)%nat by lia.
  rewrite firstn_app_2. cbn. rewrite app_nil_r. reflexivity.
Qed.
Lemma slice_from_app (a b : bytes) : slice_from (a ++ b) (length a) = Ok b.
Proof.
  unfold slice_from, slice. rewrite app_length.
  replace ((length a <=? length a + length b)%nat) with true by (symmetry; apply Nat.leb_le; lia).
  rewrite Nat.leb_refl. cbn [andb]. rewrite skipn_app_le by lia. rewrite skipn_all. cbn [app].
  rewrite firstn_all2 by lia. reflexivity.
Qed.
Lemma slice_prefix (a b : bytes) : slice (a ++ b) 0 (length a) = Ok a.
Proof.
  unfold slice. rewrite app_length. cbn [Nat.leb andb skipn].
  replace ((length a <=? length a + length b)%nat) with true by (symmetry; apply Nat.leb_le; lia).
  rewrite Nat.sub_0_r. replace (length a) with (length a + 0)%nat at 1 by lia.
  rewrite firstn_app_2. cbn. rewrite app_nil_r. reflexivity.
Qed.

Lemma format_int_nonneg z : (0 <= z)%Z -> format_int z = dec (Z.to_N z).
Proof. intro H. unfold format_int. destruct (Z.ltb_spec z 0); [lia|reflexivity]. Qed.

(** the key without instance name *)
Definition key0 (d : digest) : bytes := dec (d_fn d) ++ dash :: d_hash d ++ dash :: dec (Z.to_N (d_size d)).

Lemma pack_shape d : (0 <= d_size d)%Z -> pack d = key0 d ++ dash :: d_inst d.
Proof.
  intro H. unfold pack, pack_raw, key0. rewrite format_int_nonneg by exact H.
  rewrite <- !app_assoc. cbn [app]. rewrite <- !app_assoc. reflexivity.
Qed.

Lemma unpack_pack d :
  valid_digest d ->
  unpack (pack d) =
  Ok {| u_fn := d_fn d; u_hs := S (length (dec (d_fn d)));
        u_he := (S (length (dec (d_fn d))) + length (d_hash d))%nat;
        u_size := d_size d;
        u_se := length (key0 d) |}.
Proof.
  intro V. destruct (valid_bare d V) as [hb [_ [_ Hlen]]].
  destruct V as [Hfn _ Hhex Hsz _].
  destruct (supported_facts _ Hfn) as [Hfb _].
  unfold pack, pack_raw. rewrite format_int_nonneg by lia.
  rewrite (unpack_shape _ (d_fn d)); try assumption.
  - rewrite horner_dec. rewrite Z2N.id by lia. do 2 f_equal.
    unfold key0. rewrite !app_length. cbn [length]. rewrite !app_length. cbn [length]. lia.
  - apply dec_digits.
  - rewrite horner_dec.
    assert ((2 ^ 63)%Z = Z.of_N (2 ^ 63)) as E by reflexivity. lia.
Qed.

(** * Hexadecimal *)
Lemma hexdigit_hexval c : lowerhex c = true -> exists x, hexval c = Some x /\ x < 16 /\ hexdigit x = c.
Proof.
  unfold lowerhex, hexval, hexdigit. intro H.
  destruct ((48 <=? c) && (c <=? 57)) eqn:E1.
  - apply andb_true_iff in E1 as [A B]. apply N.leb_le in A, B.
    exists (c - 48). repeat split; [lia|].
    destruct (N.ltb_spec (c - 48) 10); lia.
  - cbn in H. rewrite H. apply andb_true_iff in H as [A B]. apply N.leb_le in A, B.
    exists (c - 87). repeat split; [lia|].
    destruct (N.ltb_spec (c - 87) 10); lia.
Qed.

Lemma hex_decode_encode n : forall h,
  length h = (2 * n)%nat -> forallb lowerhex h = true ->
  exists b, hex_decode h = Some b /\ hex_encode b = h /\ length b = n.
Proof.
  induction n as [|n IH]; intros h Hl Hh.
  - destruct h; [|discriminate]. exists []. auto.
  - destruct h as [|a [|b h]]; try (cbn in Hl; lia).
    cbn in Hh. apply andb_true_iff in Hh as [Ha Hh]. apply andb_true_iff in Hh as [Hb Hh].
    destruct (IH h) as [t [Ht [Et Lt]]]; [cbn in Hl; lia|exact Hh|].
    destruct (hexdigit_hexval a Ha) as [x [Hx [Lx Dx]]].
    destruct (hexdigit_hexval b Hb) as [y [Hy [Ly Dy]]].
    exists (x * 16 + y :: t). cbn [hex_decode]. rewrite Hx, Hy, Ht. split; [reflexivity|].
    split; [|cbn; lia]. cbn [hex_encode].
    replace ((x * 16 + y) / 16) with x by (rewrite N.div_add_l by lia; rewrite N.div_small by lia; lia).
    replace ((x * 16 + y) mod 16) with y
      by (rewrite N.add_comm, N.mod_add by lia; rewrite N.mod_small by lia; reflexivity).
    rewrite Dx, Dy, Et. reflexivity.
Qed.

(** * Theorem: accessors of a constructed digest return its fields (no panic) *)
Theorem pack_unpack_accessors d :
  valid_digest d ->
  get_function_enum (pack d) = Ok (d_fn d) /\
  get_hash_string (pack d) = Ok (d_hash d) /\
  get_size_bytes (pack d) = Ok (d_size d) /\
  get_instance_name (pack d) = Ok (d_inst d) /\
  get_proto (pack d) = Ok (d_hash d, d_size d) /\
  get_key (pack d) 1 = Ok (pack d) /\
  get_key (pack d) 0 = Ok (key0 d) /\
  (exists b, get_hash_bytes (pack d) = Ok b /\ hex_encode b = d_hash d) /\
  (exists b, get_compact_binary (pack d) = Ok (d_fn d :: b ++ put_varint (d_size d))
             /\ hex_encode b = d_hash d /\ N.of_nat (length b) * 2 = N.of_nat (length (d_hash d))).
Proof.
  intro V. pose proof (unpack_pack d V) as U.
  destruct (valid_bare d V) as [hb [Hbare [Hlen _]]].
  pose proof (vd_size d V) as Hsz. pose proof (vd_hex d V) as Hhex.
  destruct (supported_facts _ (vd_fn d V)) as [_ [_ [H256 _]]].
  assert (Hhash : slice (pack d) (S (length (dec (d_fn d))))
                        (S (length (dec (d_fn d))) + length (d_hash d)) = Ok (d_hash d)).
  { unfold pack, pack_raw.
    replace (dec (d_fn d) ++ dash :: d_hash d ++ dash :: format_int (d_size d) ++ dash :: d_inst d)
      with ((dec (d_fn d) ++ [dash]) ++ d_hash d ++ (dash :: format_int (d_size d) ++ dash :: d_inst d))
      by (rewrite <- app_assoc; reflexivity).
    replace (S (length (dec (d_fn d)))) with (length (dec (d_fn d) ++ [dash]))
      by (rewrite app_length; cbn; lia).
    apply slice_mid. }
  assert (Hinst : slice_from (pack d) (S (length (key0 d))) = Ok (d_inst d)).
  { rewrite pack_shape by lia.
    replace (key0 d ++ dash :: d_inst d) with ((key0 d ++ [dash]) ++ d_inst d)
      by (rewrite <- app_assoc; reflexivity).
    replace (S (length (key0 d))) with (length (key0 d ++ [dash])) by (rewrite app_length; cbn; lia).
    apply slice_from_app. }
  assert (Hkey : slice (pack d) 0 (length (key0 d)) = Ok (key0 d)).
  { rewrite pack_shape by lia. apply slice_prefix. }
  destruct (hex_decode_encode (N.to_nat hb) (d_hash d)) as [b [Hdec [Henc Lb]]]; [lia|exact Hhex|].
  unfold get_function_enum, get_hash_string, get_size_bytes, get_instance_name, get_proto, get_key,
    get_hash_bytes, get_compact_binary, get_hash_string.
  rewrite U. cbn [bind u_fn u_hs u_he u_size u_se Z.eqb].
  rewrite Hbare, Hhash, Hinst, Hkey. cbn [bind fst]. rewrite Hdec.
  repeat split; try reflexivity.
  - exists b. split; [reflexivity|exact Henc].
  - exists b. rewrite N.mod_small by exact H256. repeat split; [exact Henc|lia].
Qed.

(** * Constructor on valid fields; proto round trip; key equality *)
Lemma new_digest_valid d hb :
  valid_digest d -> get_bare_function (d_fn d) 0 = Some (d_fn d, hb) ->
  new_digest (d_inst d) (d_fn d, hb) (d_hash d) (d_size d) = Ok (pack d).
Proof.
  intros V Hb. destruct (valid_bare d V) as [hb' [Hb' [Hlen _]]].
  rewrite Hb in Hb'. injection Hb' as <-.
  unfold new_digest. cbn [fst snd]. rewrite Hlen, N.eqb_refl. cbn [negb].
  rewrite (vd_hex d V). cbn [negb].
  destruct (Z.ltb_spec (d_size d) 0); [pose proof (vd_size d V); lia|]. reflexivity.
Qed.

Theorem proto_roundtrip_proof d :
  valid_digest d ->
  exists f, get_digest_function (d_fn d) 0 = Ok f /\
    exists h s, get_proto (pack d) = Ok (h, s) /\ new_digest (d_inst d) f h s = Ok (pack d).
Proof.
  intro V. destruct (valid_bare d V) as [hb [Hb _]].
  exists (d_fn d, hb). split; [unfold get_digest_function; rewrite Hb; reflexivity|].
  destruct (pack_unpack_accessors d V) as [_ [_ [_ [_ [Hp _]]]]].
  exists (d_hash d), (d_size d). split; [exact Hp|apply new_digest_valid; assumption].
Qed.

Lemma valid_instance_nil : valid_instance [].
Proof. exists []. split; [reflexivity|constructor]. Qed.

Lemma valid_with_instance d i : valid_digest d -> valid_instance i -> valid_digest (with_instance d i).
Proof. intros [A B C D _] Hi. constructor; cbn; assumption. Qed.

Lemma Ok_inj {T} (a b : T) : Ok a = Ok b -> a = b.
Proof. intros [= ->]. reflexivity. Qed.

Theorem key_with_instance_eq_iff d1 d2 :
  valid_digest d1 -> valid_digest d2 ->
  (get_key (pack d1) 1 = get_key (pack d2) 1 <-> d1 = d2).
Proof.
  intros V1 V2. split; [|intros ->; reflexivity].
  cbn [get_key Z.eqb]. intros E. apply Ok_inj in E.
  destruct (pack_unpack_accessors d1 V1) as [A1 [B1 [C1 [D1 _]]]].
  destruct (pack_unpack_accessors d2 V2) as [A2 [B2 [C2 [D2 _]]]].
  rewrite E in A1, B1, C1, D1.
  rewrite A2 in A1. rewrite B2 in B1. rewrite C2 in C1. rewrite D2 in D1.
  apply Ok_inj in A1, B1, C1, D1. destruct d1, d2; cbn in *; congruence.
Qed.

Theorem key_without_instance_eq_iff d1 d2 :
  valid_digest d1 -> valid_digest d2 ->
  (get_key (pack d1) 0 = get_key (pack d2) 0 <->
   d_fn d1 = d_fn d2 /\ d_hash d1 = d_hash d2 /\ d_size d1 = d_size d2).
Proof.
  intros V1 V2.
  destruct (pack_unpack_accessors d1 V1) as [_ [_ [_ [_ [_ [_ [K1 _]]]]]]].
  destruct (pack_unpack_accessors d2 V2) as [_ [_ [_ [_ [_ [_ [K2 _]]]]]]].
  rewrite K1, K2. split.
  - intro E. apply Ok_inj in E.
    pose proof (valid_with_instance d1 [] V1 valid_instance_nil) as W1.
    pose proof (valid_with_instance d2 [] V2 valid_instance_nil) as W2.
    assert (pack (with_instance d1 []) = pack (with_instance d2 [])) as P.
    { rewrite !pack_shape by (cbn; pose proof (vd_size _ V1); pose proof (vd_size _ V2); lia).
      unfold key0 in *. cbn [with_instance d_fn d_hash d_size d_inst]. rewrite E. reflexivity. }
    assert (with_instance d1 [] = with_instance d2 []) as Q.
    { apply (key_with_instance_eq_iff _ _ W1 W2). cbn [get_key Z.eqb]. rewrite P. reflexivity. }
    unfold with_instance in Q. injection Q. auto.
  - intros [A [B C]]. unfold key0. rewrite A, B, C. reflexivity.
Qed.

(** * Varint (binary.PutVarint / binary.ReadVarint) *)
Lemma read_put_uvarint k : forall u x s first tail,
  u < 2 ^ (7 * N.of_nat k - 6) -> (0 < k)%nat ->
  read_uvarint k first x s (put_uvarint k u ++ tail) = Ok (x + u * 2 ^ s, tail).
Proof.
  induction k as [|k IH]; intros u x s first tail Hu Hk; [lia|].
  cbn [put_uvarint read_uvarint].
  destruct (N.ltb_spec u 128) as [Hs|Hs].
  - cbn [app]. apply N.ltb_lt in Hs. rewrite Hs.
    destruct k as [|k'].
    + cbn in Hu. assert (1 <? u = false) as -> by (apply N.ltb_ge; lia). reflexivity.
    + reflexivity.
  - cbn [app].
    assert (u mod 128 < 128) as Hm by (apply N.mod_lt; lia).
    assert (u mod 128 + 128 <? 128 = false) as -> by (apply N.ltb_ge; apply N.le_add_l).
    destruct k as [|k'].
    + exfalso. cbn in Hu. lia.
    + rewrite IH.
      * f_equal. f_equal.
        replace ((u mod 128 + 128) mod 128) with (u mod 128)
          by (replace (u mod 128 + 128) with (u mod 128 + 1 * 128) by lia;
              rewrite N.mod_add by lia; rewrite N.mod_mod by lia; reflexivity).
        rewrite N.pow_add_r. pose proof (N.div_mod u 128 ltac:(lia)) as DM.
        replace (2 ^ 7) with 128 by reflexivity. nia.
      * replace (7 * N.of_nat (S (S k')) - 6) with (7 + (7 * N.of_nat (S k') - 6)) in Hu by lia.
        rewrite N.pow_add_r in Hu. replace (2 ^ 7) with 128 in Hu by reflexivity.
        apply N.div_lt_upper_bound; lia.
      * lia.
Qed.

Lemma odd_half a : N.odd (2 * a + 1) = true /\ (2 * a + 1) / 2 = a /\ N.odd (2 * a) = false /\ (2 * a) / 2 = a.
Proof.
  repeat split.
  - apply N.odd_spec. exists a. reflexivity.
  - symmetry. apply N.div_unique with (r := 1); lia.
  - rewrite <- N.negb_even. apply negb_false_iff. apply N.even_spec. exists a. reflexivity.
  - symmetry. apply N.div_unique with (r := 0); lia.
Qed.

Lemma unzigzag_zigzag x : (- 2 ^ 63 <= x < 2 ^ 63)%Z -> unzigzag (zigzag x) = x /\ zigzag x < 2 ^ 64.
Proof.
  intro H. unfold zigzag, unzigzag.
  assert ((2 ^ 63)%Z = 9223372036854775808%Z) as E by reflexivity. rewrite E in H.
  assert (2 ^ 64 = 18446744073709551616) as E2 by reflexivity. rewrite E2.
  destruct (Z.ltb_spec x 0).
  - assert (Z.to_N (- (2 * x) - 1) = 2 * Z.to_N (- x - 1) + 1) as -> by lia.
    destruct (odd_half (Z.to_N (- x - 1))) as [-> [-> _]]. split; lia.
  - assert (Z.to_N (2 * x) = 2 * Z.to_N x) as -> by lia.
    destruct (odd_half (Z.to_N x)) as [_ [_ [-> ->]]]. split; lia.
Qed.

Lemma read_put_varint x tail :
  (- 2 ^ 63 <= x < 2 ^ 63)%Z -> read_varint (put_varint x ++ tail) = Ok (x, tail).
Proof.
  intro H. destruct (unzigzag_zigzag x H) as [U B].
  unfold read_varint, put_varint. rewrite read_put_uvarint; [|exact B|lia].
  cbn [bind]. rewrite N.mul_1_r, N.add_0_l. rewrite U. reflexivity.
Qed.

Theorem compact_roundtrip_proof d tail :
  valid_digest d ->
  exists b, get_compact_binary (pack d) = Ok b /\
            new_digest_from_compact_binary (d_inst d) (b ++ tail) = Ok (pack d, tail).
Proof.
  intro V. destruct (pack_unpack_accessors d V) as [_ [_ [_ [_ [_ [_ [_ [_ [b [Hc [He Hl]]]]]]]]]]].
  destruct (valid_bare d V) as [hb [Hb [Hlen _]]].
  exists (d_fn d :: b ++ put_varint (d_size d)). split; [exact Hc|].
  cbn [app new_digest_from_compact_binary]. unfold get_digest_function. rewrite Hb. cbn [bind snd].
  assert (length b = N.to_nat hb) as Lb by lia.
  rewrite <- app_assoc.
  destruct (Nat.ltb_spec (length (b ++ put_varint (d_size d) ++ tail)) (N.to_nat hb)) as [C|C];
    [rewrite app_length in C; lia|].
  rewrite <- Lb. rewrite skipn_app_le by lia. rewrite skipn_all. cbn [app].
  rewrite read_put_varint by (pose proof (vd_size d V); lia). cbn [bind].
  replace (length b) with (length b + 0)%nat at 1 by lia. rewrite firstn_app_2. cbn [firstn].
  rewrite app_nil_r, He. rewrite new_digest_valid by assumption. reflexivity.
Qed.
