(** C20 — the set operations equal the mathematical sets, sorted and duplicate-free. *)
From Coq Require Import List NArith ZArith Bool Lia Arith Sorted.
From BBS Require Import Digest.DigestModel Digest.SetModel Digest.DigestProofs.
Import ListNotations.

Definition blt (a b : bytes) : Prop := bltb a b = true.

(** strictly increasing in Go's string order (hence duplicate-free) *)
Definition sorted (l : list bytes) : Prop := StronglySorted blt l.

Lemma blt_trans a b c : blt a b -> blt b c -> blt a c.
Proof. apply bltb_trans. Qed.

Lemma sorted_NoDup l : sorted l -> NoDup l.
Proof.
  induction 1 as [|x l Hs IH Hx]; constructor; [|exact IH].
  intro K. rewrite Forall_forall in Hx. specialize (Hx _ K). unfold blt in Hx.
  rewrite bltb_irrefl in Hx. discriminate.
Qed.

(** ** Build *)
Lemma insert_In x y l : In y (insert x l) <-> y = x \/ In y l.
Proof.
  induction l as [|h t IH]; cbn [insert].
  - cbn. intuition.
  - destruct (bltb x h); [cbn; intuition|].
    destruct (beqb x h) eqn:E.
    + apply beqb_eq in E. subst. cbn. intuition.
    + cbn. rewrite IH. intuition.
Qed.

Lemma insert_sorted x l : sorted l -> sorted (insert x l).
Proof.
  induction 1 as [|h t Hs IH Hh]; cbn [insert].
  - constructor; constructor.
  - destruct (bltb x h) eqn:E1.
    + constructor; [constructor; assumption|].
      constructor; [exact E1|]. eapply Forall_impl; [|exact Hh]. intros a Ha. eapply blt_trans; eassumption.
    + destruct (beqb x h) eqn:E2; [constructor; assumption|].
      constructor; [exact IH|].
      rewrite Forall_forall. intros y Hy. apply insert_In in Hy as [->|Hy].
      * apply bltb_total; assumption.
      * rewrite Forall_forall in Hh. apply Hh, Hy.
Qed.

Theorem build_spec_proof l :
  sorted (build l) /\ NoDup (build l) /\ forall x, In x (build l) <-> In x l.
Proof.
  assert (S : sorted (build l)).
  { induction l as [|h t IH]; cbn; [constructor|apply insert_sorted, IH]. }
  split; [exact S|]. split; [apply sorted_NoDup, S|]. clear S.
  induction l as [|h t IH]; intro x; cbn [build fold_right]; [reflexivity|].
  fold (build t). rewrite insert_In, IH. cbn. intuition congruence.
Qed.

(** ** GetDifferenceAndIntersection *)
Lemma sorted_tail x l : sorted (x :: l) -> sorted l.
Proof. inversion 1; assumption. Qed.
Lemma sorted_head_lt x l y : sorted (x :: l) -> In y l -> blt x y.
Proof. inversion 1; subst. rewrite Forall_forall in *. auto. Qed.
Lemma sorted_lt_not_in x y l : blt x y -> sorted (y :: l) -> ~ In x (y :: l).
Proof.
  intros Hxy Hs [->|K].
  - unfold blt in Hxy. rewrite bltb_irrefl in Hxy. discriminate.
  - pose proof (sorted_head_lt _ _ _ Hs K) as H2. pose proof (blt_trans _ _ _ Hxy H2) as H3.
    unfold blt in H3. rewrite bltb_irrefl in H3. discriminate.
Qed.

Lemma sorted_cons_intro x l : sorted l -> (forall y, In y l -> blt x y) -> sorted (x :: l).
Proof. intros Hs H. constructor; [exact Hs|]. rewrite Forall_forall. exact H. Qed.

Theorem diff_inter_spec_proof : forall a b,
  sorted a -> sorted b ->
  let '(oa, bo, ob) := diff_inter a b in
  (sorted oa /\ sorted bo /\ sorted ob) /\
  (forall x, In x oa <-> In x a /\ ~ In x b) /\
  (forall x, In x bo <-> In x a /\ In x b) /\
  (forall x, In x ob <-> In x b /\ ~ In x a).
Proof.
  induction a as [|x a' IHa]; intros b Sa Sb.
  - cbn [diff_inter]. split; [split; [constructor|split; [constructor|exact Sb]]|].
    split; [|split]; intro z; cbn [In]; tauto.
  - induction b as [|y b' IHb].
    + cbn [diff_inter]. split; [split; [exact Sa|split; constructor]|].
      split; [|split]; intro z; cbn [In]; tauto.
    + cbn [diff_inter].
      destruct (bltb x y) eqn:E1.
      * specialize (IHa (y :: b') (sorted_tail _ _ Sa) Sb).
        destruct (diff_inter a' (y :: b')) as [[oa bo] ob].
        destruct IHa as [[S1 [S2 S3]] [H1 [H2 H3]]].
        assert (Nx : ~ In x (y :: b')) by (apply sorted_lt_not_in; assumption).
        split; [split; [|split; assumption]|split; [|split]].
        -- apply sorted_cons_intro; [exact S1|]. intros z Hz. apply H1 in Hz as [Hz _].
           eapply sorted_head_lt; eassumption.
        -- intro z. change (In z (x :: oa)) with (x = z \/ In z oa).
           change (In z (x :: a')) with (x = z \/ In z a'). rewrite H1. split.
           ++ intros [<-|[A B]]; [split; [left; reflexivity|exact Nx]|split; [right; exact A|exact B]].
           ++ intros [[<-|A] B]; [left; reflexivity|right; split; assumption].
        -- intro z. change (In z (x :: a')) with (x = z \/ In z a'). rewrite H2. split.
           ++ intros [A B]; split; [right; exact A|exact B].
           ++ intros [[<-|A] B]; [contradiction (Nx B)|split; assumption].
        -- intro z. change (In z (x :: a')) with (x = z \/ In z a'). rewrite H3. split.
           ++ intros [A B]; split; [exact A|]. intros [<-|C]; [exact (Nx A)|exact (B C)].
           ++ intros [A B]; split; [exact A|]. intro C; apply B; right; exact C.
      * destruct (beqb x y) eqn:E2.
        -- apply beqb_eq in E2. subst y.
           specialize (IHa b' (sorted_tail _ _ Sa) (sorted_tail _ _ Sb)).
           destruct (diff_inter a' b') as [[oa bo] ob].
           destruct IHa as [[S1 [S2 S3]] [H1 [H2 H3]]].
           assert (Na : ~ In x a').
           { intro K. pose proof (sorted_head_lt _ _ _ Sa K) as L. unfold blt in L. rewrite bltb_irrefl in L. discriminate. }
           assert (Nb : ~ In x b').
           { intro K. pose proof (sorted_head_lt _ _ _ Sb K) as L. unfold blt in L. rewrite bltb_irrefl in L. discriminate. }
           split; [split; [assumption|split; [|assumption]]|split; [|split]].
           ++ apply sorted_cons_intro; [exact S2|]. intros z Hz. apply H2 in Hz as [Hz _].
              exact (sorted_head_lt _ _ _ Sa Hz).
           ++ intro z. change (In z (x :: a')) with (x = z \/ In z a').
              change (In z (x :: b')) with (x = z \/ In z b'). rewrite H1. split.
              ** intros [A B]; split; [right; exact A|]. intros [<-|C]; [exact (Na A)|exact (B C)].
              ** intros [[<-|A] B]; [exfalso; apply B; left; reflexivity|].
                 split; [exact A|intro C; apply B; right; exact C].
           ++ intro z. change (In z (x :: a')) with (x = z \/ In z a').
              change (In z (x :: b')) with (x = z \/ In z b').
              change (In z (x :: bo)) with (x = z \/ In z bo). rewrite H2. split.
              ** intros [<-|[A B]]; [split; left; reflexivity|split; right; assumption].
              ** intros [[E|A] [E'|B]]; [left; exact E|left; exact E|left; exact E'|right; split; assumption].
           ++ intro z. change (In z (x :: a')) with (x = z \/ In z a').
              change (In z (x :: b')) with (x = z \/ In z b'). rewrite H3. split.
              ** intros [A B]; split; [right; exact A|]. intros [<-|C]; [exact (Nb A)|exact (B C)].
              ** intros [[<-|A] B]; [exfalso; apply B; left; reflexivity|].
                 split; [exact A|intro C; apply B; right; exact C].
        -- pose proof (bltb_total _ _ E1 E2) as Lyx.
           specialize (IHb (sorted_tail _ _ Sb)).
           change ((fix inner (b : list bytes) : list bytes * list bytes * list bytes :=
                     match b with
                     | [] => (x :: a', [], [])
                     | y :: b' =>
                         if bltb x y then let '(oa, bo, ob) := diff_inter a' b in (x :: oa, bo, ob)
                         else if beqb x y then let '(oa, bo, ob) := diff_inter a' b' in (oa, x :: bo, ob)
                         else let '(oa, bo, ob) := inner b' in (oa, bo, y :: ob)
                     end) b') with (diff_inter (x :: a') b').
           destruct (diff_inter (x :: a') b') as [[oa bo] ob].
           destruct IHb as [[S1 [S2 S3]] [H1 [H2 H3]]].
           assert (Ny : ~ In y (x :: a')) by (apply sorted_lt_not_in; assumption).
           split; [split; [assumption|split; [assumption|]]|split; [|split]].
           ++ apply sorted_cons_intro; [exact S3|]. intros z Hz. apply H3 in Hz as [Hz _].
              eapply sorted_head_lt; eassumption.
           ++ intro z. change (In z (y :: b')) with (y = z \/ In z b'). rewrite H1. split.
              ** intros [A B]; split; [exact A|]. intros [<-|C]; [exact (Ny A)|exact (B C)].
              ** intros [A B]; split; [exact A|intro C; apply B; right; exact C].
           ++ intro z. change (In z (y :: b')) with (y = z \/ In z b'). rewrite H2. split.
              ** intros [A B]; split; [exact A|right; exact B].
              ** intros [A [<-|B]]; [contradiction (Ny A)|split; assumption].
           ++ intro z. change (In z (y :: b')) with (y = z \/ In z b').
              change (In z (y :: ob)) with (y = z \/ In z ob). rewrite H3. split.
              ** intros [<-|[A B]]; [split; [left; reflexivity|exact Ny]|split; [right; exact A|exact B]].
              ** intros [[<-|A] B]; [left; reflexivity|right; split; assumption].
Qed.

(** ** GetUnion *)
Definition elem (ls : list (list bytes)) (x : bytes) : Prop := exists l, In l ls /\ In x l.
Definition ble (a b : bytes) : Prop := a = b \/ blt a b.

Lemma min_head_none ls : min_head ls = None -> forall l, In l ls -> l = [].
Proof.
  induction ls as [|l r IH]; intros H l' K; [destruct K|].
  cbn [min_head] in H. destruct l as [|x t].
  - destruct K as [<-|K]; [reflexivity|apply IH; assumption].
  - destruct (min_head r) as [m|]; [destruct (bltb m x)|]; discriminate.
Qed.

Lemma min_head_some ls m :
  Forall sorted ls -> min_head ls = Some m ->
  (exists t, In (m :: t) ls) /\ forall x, elem ls x -> ble m x.
Proof.
  revert m. induction ls as [|l r IH]; intros m S H; [discriminate|].
  inversion S as [|? ? Sl Sr]; subst. cbn [min_head] in H.
  destruct l as [|x t].
  - destruct (IH m Sr H) as [[t' Ht] Hm]. split; [exists t'; right; exact Ht|].
    intros y [l' [[<-|Hl] Hy]]; [destruct Hy|]. apply Hm. exists l'. split; assumption.
  - assert (Hx : forall y, In y (x :: t) -> ble x y).
    { intros y [->|Hy]; [left; reflexivity|right; exact (sorted_head_lt _ _ _ Sl Hy)]. }
    destruct (min_head r) as [m'|] eqn:E.
    + destruct (IH m' Sr eq_refl) as [[t' Ht] Hm].
      destruct (bltb m' x) eqn:L; injection H as <-.
      * split; [exists t'; right; exact Ht|].
        intros y [l' [[<-|Hl] Hy]].
        -- destruct (Hx y Hy) as [<-|Lt]; [right; exact L|right; exact (blt_trans _ _ _ L Lt)].
        -- apply Hm. exists l'. split; assumption.
      * split; [exists t; left; reflexivity|].
        intros y [l' [[<-|Hl] Hy]]; [apply Hx, Hy|].
        assert (ble m' y) as [<-|Lt] by (apply Hm; exists l'; split; assumption).
        -- destruct (beqb m' x) eqn:Q; [apply beqb_eq in Q; left; congruence|].
           right. apply bltb_total; assumption.
        -- destruct (beqb m' x) eqn:Q; [apply beqb_eq in Q; subst; right; exact Lt|].
           right. eapply blt_trans; [apply bltb_total; eassumption|exact Lt].
    + injection H as <-. split; [exists t; left; reflexivity|].
      intros y [l' [[<-|Hl] Hy]]; [apply Hx, Hy|].
      rewrite (min_head_none r E l' Hl) in Hy. destruct Hy.
Qed.

Lemma pop_head_spec ls m :
  Forall sorted ls -> (exists t, In (m :: t) ls) ->
  Forall sorted (pop_head m ls) /\
  (forall x, elem ls x <-> x = m \/ elem (pop_head m ls) x) /\
  S (total_length (pop_head m ls)) = total_length ls.
Proof.
  induction ls as [|l r IH]; intros S [t Ht]; [destruct Ht|].
  inversion S as [|? ? Sl Sr]; subst. cbn [pop_head].
  destruct l as [|x t'].
  - destruct Ht as [Ht|Ht]; [discriminate|].
    destruct (IH Sr (ex_intro _ t Ht)) as [A [B C]]. split; [exact A|]. split; [|exact C].
    intro y. rewrite <- B. split.
    + intros [l' [[<-|Hl] Hy]]; [destruct Hy|exists l'; split; assumption].
    + intros [l' [Hl Hy]]. exists l'. split; [right; exact Hl|exact Hy].
  - destruct (beqb x m) eqn:E.
    + apply beqb_eq in E. subst x.
      assert (St : sorted t') by (apply (sorted_tail _ _ Sl)).
      destruct t' as [|z t''].
      * split; [exact Sr|]. split; [|reflexivity].
        intro y. split.
        -- intros [l' [[<-|Hl] Hy]]; [destruct Hy as [->|[]]; left; reflexivity|right; exists l'; split; assumption].
        -- intros [->|[l' [Hl Hy]]]; [exists [m]; split; [left; reflexivity|left; reflexivity]|].
           exists l'. split; [right; exact Hl|exact Hy].
      * split; [constructor; assumption|]. split; [|unfold total_length; cbn [fold_right length]; lia].
        intro y. split.
        -- intros [l' [[<-|Hl] Hy]].
           ++ destruct Hy as [->|Hy]; [left; reflexivity|right; exists (z :: t''); split; [left; reflexivity|exact Hy]].
           ++ right. exists l'. split; [right; exact Hl|exact Hy].
        -- intros [->|[l' [[<-|Hl] Hy]]].
           ++ exists (m :: z :: t''). split; left; reflexivity.
           ++ exists (m :: z :: t''). split; [left; reflexivity|right; exact Hy].
           ++ exists l'. split; [right; exact Hl|exact Hy].
    + assert (Hr : exists t, In (m :: t) r).
      { destruct Ht as [Ht|Ht]; [|exists t; exact Ht]. injection Ht as -> _. rewrite beqb_refl in E. discriminate. }
      destruct (IH Sr Hr) as [A [B C]]. split; [constructor; assumption|]. split; [|unfold total_length in *; cbn [fold_right]; lia].
      intro y. split.
      * intros [l' [[<-|Hl] Hy]].
        -- right. exists (x :: t'). split; [left; reflexivity|exact Hy].
        -- assert (elem r y) as K by (exists l'; split; assumption). apply B in K as [->|[l'' [Hl' Hy']]];
             [left; reflexivity|right; exists l''; split; [right; exact Hl'|exact Hy']].
      * intros [->|[l' [[<-|Hl] Hy]]].
        -- assert (elem r m) as [l' [Hl Hy]] by (apply B; left; reflexivity).
           exists l'. split; [right; exact Hl|exact Hy].
        -- exists (x :: t'). split; [left; reflexivity|exact Hy].
        -- assert (elem r y) as [l'' [Hl' Hy']] by (apply B; right; exists l'; split; assumption).
           exists l''. split; [right; exact Hl'|exact Hy'].
Qed.

Lemma blt_irrefl a : ~ blt a a.
Proof. unfold blt. rewrite bltb_irrefl. discriminate. Qed.

Lemma union_loop_spec fuel : forall ls last,
  Forall sorted ls -> min_head ls = Some last -> (total_length ls <= fuel)%nat ->
  sorted (union_loop fuel ls last) /\
  forall x, In x (union_loop fuel ls last) <-> blt last x /\ elem ls x.
Proof.
  induction fuel as [|f IH]; intros ls last S Hm Hf.
  - exfalso. destruct (min_head_some ls last S Hm) as [[t Ht] _].
    destruct (pop_head_spec ls last S (ex_intro _ t Ht)) as [_ [_ C]]. lia.
  - cbn [union_loop]. rewrite Hm.
    destruct (min_head_some ls last S Hm) as [[t Ht] Hmin].
    destruct (pop_head_spec ls last S (ex_intro _ t Ht)) as [S' [El C]].
    destruct (min_head (pop_head last ls)) as [d|] eqn:E.
    + destruct (min_head_some _ d S' E) as [[t' Ht'] Hmin'].
      assert (Ed : elem (pop_head last ls) d) by (exists (d :: t'); split; [exact Ht'|left; reflexivity]).
      destruct (beqb d last) eqn:Q.
      * apply beqb_eq in Q. subst d.
        destruct (IH (pop_head last ls) last S' E ltac:(lia)) as [A B]. split; [exact A|].
        intro x. rewrite B. split.
        -- intros [L K]. split; [exact L|]. apply El. right. exact K.
        -- intros [L K]. split; [exact L|]. apply El in K as [->|K]; [destruct (blt_irrefl _ L)|exact K].
      * destruct (IH (pop_head last ls) d S' E ltac:(lia)) as [A B].
        assert (Ld : blt last d).
        { assert (ble last d) as [->|L] by (apply Hmin, El; right; exact Ed); [|exact L].
          rewrite beqb_refl in Q. discriminate. }
        split.
        -- apply sorted_cons_intro; [exact A|]. intros y Hy. apply B in Hy. tauto.
        -- intro x. change (In x (d :: union_loop f (pop_head last ls) d))
             with (d = x \/ In x (union_loop f (pop_head last ls) d)). rewrite B. split.
           ++ intros [<-|[L K]]; [split; [exact Ld|apply El; right; exact Ed]|].
              split; [exact (blt_trans _ _ _ Ld L)|apply El; right; exact K].
           ++ intros [L K]. apply El in K as [->|K]; [destruct (blt_irrefl _ L)|].
              destruct (Hmin' x K) as [->|L']; [left; reflexivity|right; split; assumption].
    + split; [constructor|]. intro x. split; [intros []|].
      intros [L K]. apply El in K as [->|[l [Hl Hx]]]; [destruct (blt_irrefl _ L)|].
      rewrite (min_head_none _ E l Hl) in Hx. destruct Hx.
Qed.

Lemma elem_filter_nonempty sets x : elem (filter nonempty sets) x <-> elem sets x.
Proof.
  split; intros [l [Hl Hx]]; exists l; (split; [|exact Hx]).
  - apply filter_In in Hl. tauto.
  - apply filter_In. split; [exact Hl|]. destruct l; [destruct Hx|reflexivity].
Qed.

Theorem union_spec_proof sets :
  Forall sorted sets ->
  sorted (union sets) /\ NoDup (union sets) /\ forall x, In x (union sets) <-> elem sets x.
Proof.
  intro HS.
  assert (Sa : Forall sorted (filter nonempty sets)).
  { rewrite Forall_forall in *. intros l Hl. apply filter_In in Hl. apply HS. tauto. }
  assert (R : sorted (union sets) /\ forall x, In x (union sets) <-> elem sets x).
  { unfold union. setoid_rewrite <- elem_filter_nonempty.
    destruct (filter nonempty sets) as [|s1 [|s2 r]] eqn:EA.
    - split; [constructor|]. intro x. split; [intros []|intros [l [[] _]]].
    - split; [inversion Sa; assumption|]. intro x. split.
      + intro K. exists s1. split; [left; reflexivity|exact K].
      + intros [l [[<-|[]] K]]. exact K.
    - destruct (min_head (s1 :: s2 :: r)) as [m|] eqn:E.
      + destruct (min_head_some _ m Sa E) as [[t Ht] Hmin].
        destruct (union_loop_spec (S (total_length (s1 :: s2 :: r))) _ m Sa E ltac:(lia)) as [A B].
        split.
        * apply sorted_cons_intro; [exact A|]. intros y Hy. apply B in Hy. tauto.
        * intro x. change (In x (m :: union_loop (S (total_length (s1 :: s2 :: r))) (s1 :: s2 :: r) m))
            with (m = x \/ In x (union_loop (S (total_length (s1 :: s2 :: r))) (s1 :: s2 :: r) m)).
          rewrite B. split.
          -- intros [<-|[_ K]]; [exists (m :: t); split; [exact Ht|left; reflexivity]|exact K].
          -- intro K. destruct (Hmin x K) as [->|L]; [left; reflexivity|right; split; assumption].
      + exfalso. assert (s1 = []) as -> by (apply (min_head_none _ E); left; reflexivity).
        assert (In [] (filter nonempty sets)) as K by (rewrite EA; left; reflexivity).
        apply filter_In in K. destruct K as [_ K]. discriminate. }
  destruct R as [R1 R2]. split; [exact R1|]. split; [apply sorted_NoDup, R1|exact R2].
Qed.

(** ** RemoveEmptyBlob *)
Lemma remove_by_spec {T} (isz : T -> bool) s : remove_by isz s = filter (fun y => negb (isz y)) s.
Proof.
  induction s as [|x r IH]; [reflexivity|]. cbn [remove_by filter].
  destruct (isz x); cbn [negb]; [reflexivity|rewrite IH; reflexivity].
Qed.

Lemma filter_sorted (f : bytes -> bool) l : sorted l -> sorted (filter f l).
Proof.
  induction 1 as [|x l Hs IH Hx]; cbn [filter]; [constructor|].
  destruct (f x); [|exact IH]. constructor; [exact IH|].
  rewrite Forall_forall in *. intros y Hy. apply filter_In in Hy. apply Hx. tauto.
Qed.

Lemma map_outcome_ok {T U} (f : T -> outcome U) (g : T -> U) l :
  (forall x, In x l -> f x = Ok (g x)) -> map_outcome f l = Ok (map g l).
Proof.
  induction l as [|x r IH]; intro H; [reflexivity|]. cbn [map_outcome map].
  rewrite H by (left; reflexivity). cbn [bind]. rewrite IH by (intros y Hy; apply H; right; exact Hy).
  reflexivity.
Qed.

Lemma map_fst_filter_combine {U} (l : list bytes) (g : bytes -> U) (p : U -> bool) :
  map fst (filter (fun q => p (snd q)) (combine l (map g l))) = filter (fun x => p (g x)) l.
Proof.
  induction l as [|x r IH]; [reflexivity|]. cbn [map combine filter snd].
  destruct (p (g x)); cbn [map fst]; rewrite IH; reflexivity.
Qed.

(** on sets of packed valid digests: exactly the elements with a non-zero size, still sorted *)
Theorem remove_empty_spec_proof (ds : list digest) :
  Forall valid_digest ds -> sorted (map pack ds) ->
  exists r, remove_empty_blob (map pack ds) = Ok r /\ sorted r /\
    r = map pack (filter (fun d => negb (Z.eqb (d_size d) 0)) ds).
Proof.
  intros V S. unfold remove_empty_blob.
  assert (E : map_outcome get_size_bytes (map pack ds) = Ok (map d_size ds)).
  { clear S. induction ds as [|d r IH]; [reflexivity|]. inversion V; subst. cbn [map map_outcome].
    destruct (pack_unpack_accessors d H1) as [_ [_ [-> _]]]. cbn [bind]. rewrite IH by assumption. reflexivity. }
  rewrite E. cbn [bind]. rewrite remove_by_spec.
  assert (Q : forall l : list digest,
             map fst (filter (fun y : bytes * Z => negb (Z.eqb (snd y) 0)) (combine (map pack l) (map d_size l)))
             = map pack (filter (fun d => negb (Z.eqb (d_size d) 0)) l)).
  { induction l as [|d r IH]; [reflexivity|]. cbn [map combine filter snd].
    destruct (Z.eqb (d_size d) 0); cbn [negb map fst]; rewrite IH; reflexivity. }
  eexists. split; [reflexivity|]. rewrite Q. split; [|reflexivity].
  clear E Q V. induction ds as [|d r IH]; [constructor|]. cbn [filter map] in *.
  inversion S as [|? ? Sr Hd]; subst.
  destruct (negb (Z.eqb (d_size d) 0)); [|apply IH, Sr].
  cbn [map]. constructor; [apply IH, Sr|].
  rewrite Forall_forall in *. intros y Hy. apply Hd. apply in_map_iff in Hy as [d' [<- Hd']].
  apply in_map. apply filter_In in Hd'. tauto.
Qed.

(** ** PartitionByInstanceName *)
Lemma NoDup_snoc {A} (l : list A) k : NoDup l -> ~ In k l -> NoDup (l ++ [k]).
Proof.
  induction 1 as [|x l Hx ND IH]; intro Hk; cbn [app].
  - constructor; [intros []|constructor].
  - constructor.
    + intro K. apply in_app_or in K as [K|[<-|[]]]; [contradiction|]. apply Hk. left. reflexivity.
    + apply IH. intro K. apply Hk. right. exact K.
Qed.

Section PartitionSpec.
  Context {T K : Type}.
  Variable keqb : K -> K -> bool.
  Hypothesis keqb_eq : forall a b, keqb a b = true <-> a = b.
  Variable key : T -> K.

  (** keys in the order of their first occurrence *)
  Definition fstep (acc : list K) (k : K) : list K := if existsb (keqb k) acc then acc else acc ++ [k].
  Definition firsts (l : list K) : list K := fold_left fstep l [].
  Definition part_of (s : list T) (k : K) : list T := filter (fun x => keqb (key x) k) s.

  Lemma keqb_refl a : keqb a a = true.
  Proof. apply keqb_eq. reflexivity. Qed.

  Lemma existsb_keqb k l : existsb (keqb k) l = true <-> In k l.
  Proof.
    rewrite existsb_exists. split.
    - intros [y [Hy E]]. apply keqb_eq in E. subst. exact Hy.
    - intro H. exists k. split; [exact H|apply keqb_refl].
  Qed.

  Lemma add_to_map k x (F : K -> list T) r :
    NoDup r ->
    add_to keqb k x (map (fun k' => (k', F k')) r) =
    if existsb (keqb k) r
    then map (fun k' => (k', if keqb k k' then F k' ++ [x] else F k')) r
    else map (fun k' => (k', F k')) r ++ [(k, [x])].
  Proof.
    induction r as [|k' r IH]; intro ND; [reflexivity|].
    inversion ND as [|? ? Hn ND']; subst. cbn [map add_to existsb].
    destruct (keqb k k') eqn:E.
    - cbn [orb]. f_equal. apply keqb_eq in E. subst k'.
      apply map_ext_in. intros k'' Hk. destruct (keqb k k'') eqn:E2; [|reflexivity].
      apply keqb_eq in E2. subst. contradiction.
    - cbn [orb]. rewrite IH by exact ND'. destruct (existsb (keqb k) r); reflexivity.
  Qed.

  Lemma part_of_snoc p x k' :
    part_of (p ++ [x]) k' = if keqb (key x) k' then part_of p k' ++ [x] else part_of p k'.
  Proof.
    unfold part_of. rewrite filter_app. cbn [filter].
    destruct (keqb (key x) k'); [reflexivity|apply app_nil_r].
  Qed.

  Lemma fstep_NoDup ks k : NoDup ks -> NoDup (fstep ks k).
  Proof.
    intro ND. unfold fstep. destruct (existsb (keqb k) ks) eqn:E; [exact ND|].
    assert (~ In k ks) as Hn by (intro H; apply existsb_keqb in H; congruence).
    apply NoDup_snoc; assumption.
  Qed.

  Lemma fold_add_to s : forall p ks,
    NoDup ks -> (forall y, In y p -> In (key y) ks) ->
    fold_left (fun parts x => add_to keqb (key x) x parts) s (map (fun k => (k, part_of p k)) ks) =
    map (fun k => (k, part_of (p ++ s) k)) (fold_left fstep (map key s) ks).
  Proof.
    induction s as [|x s IH]; intros p ks ND Hcov.
    - cbn. rewrite app_nil_r. reflexivity.
    - cbn [fold_left map]. rewrite add_to_map by exact ND.
      assert (Estep : (if existsb (keqb (key x)) ks
                       then map (fun k' => (k', if keqb (key x) k' then part_of p k' ++ [x] else part_of p k')) ks
                       else map (fun k' => (k', part_of p k')) ks ++ [(key x, [x])])
                      = map (fun k => (k, part_of (p ++ [x]) k)) (fstep ks (key x))).
      { unfold fstep. destruct (existsb (keqb (key x)) ks) eqn:E.
        - apply map_ext. intro k'. rewrite part_of_snoc. reflexivity.
        - rewrite map_app. cbn [map]. f_equal.
          + apply map_ext_in. intros k' Hk. rewrite part_of_snoc.
            destruct (keqb (key x) k') eqn:E2; [|reflexivity].
            apply keqb_eq in E2. subst k'. apply existsb_keqb in Hk. congruence.
          + rewrite part_of_snoc, keqb_refl. f_equal. f_equal.
            unfold part_of. destruct (filter (fun x0 => keqb (key x0) (key x)) p) as [|y l] eqn:F; [reflexivity|].
            assert (In y (filter (fun x0 => keqb (key x0) (key x)) p)) as Hy by (rewrite F; left; reflexivity).
            apply filter_In in Hy as [Hy1 Hy2]. apply keqb_eq in Hy2.
            specialize (Hcov y Hy1). rewrite Hy2 in Hcov. apply existsb_keqb in Hcov. congruence. }
      rewrite Estep. rewrite IH.
      + rewrite <- app_assoc. reflexivity.
      + apply fstep_NoDup, ND.
      + intros y Hy. apply in_app_or in Hy as [Hy|[<-|[]]].
        * unfold fstep. destruct (existsb (keqb (key x)) ks); [apply Hcov, Hy|apply in_or_app; left; apply Hcov, Hy].
        * unfold fstep. destruct (existsb (keqb (key x)) ks) eqn:E; [apply existsb_keqb, E|apply in_or_app; right; left; reflexivity].
  Qed.

  Theorem partition_by_spec s :
    partition_by keqb key s = map (part_of s) (firsts (map key s)).
  Proof.
    unfold partition_by, firsts.
    pose proof (fold_add_to s [] [] (NoDup_nil K) ltac:(intros y [])) as H. cbn [map app] in H.
    rewrite H, map_map. reflexivity.
  Qed.
End PartitionSpec.

(** on packed valid digests: one set per instance name, in the order of first occurrence,
    each the sub-list (hence sorted) of the digests with that instance name *)
Theorem partition_spec_proof (ds : list digest) :
  Forall valid_digest ds ->
  partition_by_instance_name (map pack ds) =
  Ok (map (fun i => map pack (filter (fun d => beqb (d_inst d) i) ds)) (firsts beqb (map d_inst ds))).
Proof.
  intro V. unfold partition_by_instance_name.
  assert (E : map_outcome get_instance_name (map pack ds) = Ok (map d_inst ds)).
  { induction ds as [|d r IH]; [reflexivity|]. inversion V; subst. cbn [map map_outcome].
    destruct (pack_unpack_accessors d H1) as [_ [_ [_ [-> _]]]]. cbn [bind]. rewrite IH by assumption. reflexivity. }
  rewrite E. cbn [bind]. f_equal.
  rewrite (partition_by_spec beqb beqb_eq snd).
  assert (Ek : map snd (combine (map pack ds) (map d_inst ds)) = map d_inst ds).
  { clear. induction ds as [|d r IH]; [reflexivity|]. cbn. rewrite IH. reflexivity. }
  rewrite Ek, map_map. apply map_ext. intro i. unfold part_of.
  clear. induction ds as [|d r IH]; [reflexivity|]. cbn [map combine filter snd].
  destruct (beqb (d_inst d) i); cbn [map fst]; rewrite IH; reflexivity.
Qed.
