(** C20 — executable model of pkg/digest/set.go and set_builder.go.  Definitions only.
    A set is a list of packed digest strings; the order is Go's string order. *)
From Coq Require Import List NArith ZArith Bool Lia.
From BBS Require Import Digest.DigestModel.
Import ListNotations.

(** SetBuilder.Build: the map removes duplicates (string equality), then
    slices.SortFunc with strings.Compare.  Only the result is observable:
    modelled as insertion into a strictly increasing list. *)
Fixpoint insert (x : bytes) (l : list bytes) : list bytes :=
  match l with
  | [] => [x]
  | h :: t => if bltb x h then x :: l else if beqb x h then l else h :: insert x t
  end.
Definition build (l : list bytes) : list bytes := fold_right insert [] l.

(** GetDifferenceAndIntersection: the two-finger merge loop. *)
Fixpoint diff_inter (a b : list bytes) {struct a} : list bytes * list bytes * list bytes :=
  match a with
  | [] => ([], [], b)
  | x :: a' =>
      (fix inner (b : list bytes) : list bytes * list bytes * list bytes :=
         match b with
         | [] => (a, [], [])
         | y :: b' =>
             if bltb x y then let '(oa, bo, ob) := diff_inter a' b in (x :: oa, bo, ob)
             else if beqb x y then let '(oa, bo, ob) := diff_inter a' b' in (oa, x :: bo, ob)
             else let '(oa, bo, ob) := inner b' in (oa, bo, y :: ob)
         end) b
  end.

(** GetUnion: k-way merge.  The heap is abstracted to "the least head of the
    active sets"; which of several equal least heads is removed first is not
    observable. *)
Fixpoint min_head (ls : list (list bytes)) : option bytes :=
  match ls with
  | [] => None
  | l :: r =>
      match l, min_head r with
      | [], m => m
      | x :: _, None => Some x
      | x :: _, Some m => if bltb m x then Some m else Some x
      end
  end.

(** remove the head of the first set whose head is [m]; drop the set when it
    becomes empty (heap.Pop) *)
Fixpoint pop_head (m : bytes) (ls : list (list bytes)) : list (list bytes) :=
  match ls with
  | [] => []
  | l :: r =>
      match l with
      | [] => pop_head m r
      | x :: t => if beqb x m then (match t with [] => r | _ => t :: r end) else l :: pop_head m r
      end
  end.

(** one iteration = remove the lowest digest, then copy the next lowest iff it
    differs from the previously added one; returns what is appended after [last] *)
Fixpoint union_loop (fuel : nat) (ls : list (list bytes)) (last : bytes) : list bytes :=
  match fuel with
  | O => []
  | S f =>
      match min_head ls with
      | None => []
      | Some m =>
          let ls' := pop_head m ls in
          match min_head ls' with
          | None => []
          | Some d => if beqb d last then union_loop f ls' last else d :: union_loop f ls' d
          end
      end
  end.

Definition total_length (ls : list (list bytes)) : nat := fold_right (fun l n => (length l + n)%nat) O ls.

Definition union (sets : list (list bytes)) : list bytes :=
  let active := filter nonempty sets in
  match active with
  | [] => []
  | [s] => s
  | _ =>
      match min_head active with
      | Some m => m :: union_loop (S (total_length active)) active m
      | None => []
      end
  end.

(** PartitionByInstanceName, generic in the key: sets in the order in which
    their first element occurs, elements in the original order. *)
Section Generic.
  Context {T K : Type}.
  Variable keqb : K -> K -> bool.

  Fixpoint add_to (k : K) (x : T) (parts : list (K * list T)) : list (K * list T) :=
    match parts with
    | [] => [(k, [x])]
    | (k', l) :: r => if keqb k k' then (k', l ++ [x]) :: r else (k', l) :: add_to k x r
    end.
  Definition partition_by (key : T -> K) (s : list T) : list (list T) :=
    map snd (fold_left (fun parts x => add_to (key x) x parts) s []).

  (** RemoveEmptyBlob: up to the first empty blob the set is kept, the rest is filtered. *)
  Fixpoint remove_by (isz : T -> bool) (s : list T) : list T :=
    match s with
    | [] => []
    | x :: r => if isz x then filter (fun y => negb (isz y)) r else x :: remove_by isz r
    end.
End Generic.

(** The accessors are applied to every element first; a panic of any of them
    is a panic of the operation. *)
Fixpoint map_outcome {T U} (f : T -> outcome U) (l : list T) : outcome (list U) :=
  match l with
  | [] => Ok []
  | x :: r => y <- f x ;; ys <- map_outcome f r ;; Ok (y :: ys)
  end.

Definition partition_by_instance_name (s : list bytes) : outcome (list (list bytes)) :=
  ks <- map_outcome get_instance_name s ;;
  Ok (map (map fst) (partition_by beqb snd (combine s ks))).

Definition remove_empty_blob (s : list bytes) : outcome (list bytes) :=
  zs <- map_outcome get_size_bytes s ;;
  Ok (map fst (remove_by (fun p => Z.eqb (snd p) 0) (combine s zs))).

Definition first (s : list bytes) : option bytes :=
  match s with [] => None | x :: _ => Some x end.
