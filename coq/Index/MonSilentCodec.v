(** C06 — the record-codec part of the monitor is silent on the model: the
    round trip returns key, attempt, offset and size unchanged as soon as the
    key has 32 bytes and attempt/offset/size fit their fields (epoch id and
    blocks-from-last may be anything: they are truncated on writing and are
    not part of what the monitor compares; key bytes may be anything). *)
From Coq Require Import List NArith ZArith Arith Bool Lia.
From BBS Require Import Common.Sx Common.SxFactsMA Generated.Consts Index.KlmFnv Index.RecordCodec Index.RecordCodecProofs.
(* -- (keeps lib/checklib.py's dependency scan from reading past the sentence) *)
Import ListNotations.
Open Scope N_scope.

Definition codec_fits (r : drec) : Prop :=
  length (d_key r) = bdlra_key_bytes /\ d_att r < 2 ^ 32 /\ d_off r < 2 ^ 64 /\ d_size r < 2 ^ 64.

Lemma decode_encode_fits : forall seed r, codec_fits r ->
  exists e b, decode seed (encode seed r)
              = Some {| d_epoch := e; d_bfl := b; d_key := d_key r; d_att := d_att r;
                        d_off := d_off r; d_size := d_size r |}.
Proof.
  intros seed r (Hk & Ha & Ho & Hs).
  unfold encode, decode.
  set (e0 := le_enc bdlra_epoch_bytes (d_epoch r)).
  set (e1 := le_enc bdlra_bfl_bytes (d_bfl r)).
  set (e3 := le_enc bdlra_attempt_bytes (d_att r)).
  set (e4 := le_enc bdlra_offset_bytes (d_off r)).
  set (e5 := le_enc bdlra_size_bytes (d_size r)).
  assert (L0 : length e0 = 4%nat) by apply le_enc_length.
  assert (L1 : length e1 = 2%nat) by apply le_enc_length.
  assert (L2 : length (d_key r) = 32%nat) by exact Hk.
  assert (L3 : length e3 = 4%nat) by apply le_enc_length.
  assert (L4 : length e4 = 8%nat) by apply le_enc_length.
  assert (L5 : length e5 = 8%nat) by apply le_enc_length.
  assert (B : body_bytes r = e0 ++ e1 ++ d_key r ++ e3 ++ e4 ++ e5) by reflexivity.
  assert (LB : length (body_bytes r) = 58%nat) by (rewrite B, !app_length; lia).
  set (cs := checksum seed (body_bytes r)).
  set (ec := le_enc bdlra_checksum_bytes cs).
  assert (Lc : length ec = 8%nat) by apply le_enc_length.
  assert (CS : checksum seed (body_bytes r ++ ec) = checksum seed (body_bytes r)).
  { unfold checksum, slice. f_equal.
    change (bdlra_checksum_to - bdlra_checksum_from)%nat with 52%nat. change bdlra_checksum_from with 6%nat.
    rewrite skipn_app, firstn_app. rewrite skipn_length, LB.
    replace (52 - (58 - 6))%nat with 0%nat by lia. cbn [firstn]. apply app_nil_r. }
  assert (CL : cs < 2 ^ 64).
  { unfold cs, checksum. apply fnv1a_lt. intros E. apply (f_equal (@length N)) in E. unfold slice in E.
    change (bdlra_checksum_to - bdlra_checksum_from)%nat with 52%nat in E. change bdlra_checksum_from with 6%nat in E.
    rewrite firstn_length, skipn_length, LB in E. cbn in E. discriminate. }
  rewrite CS.
  assert (F : body_bytes r ++ ec = e0 ++ e1 ++ d_key r ++ e3 ++ e4 ++ e5 ++ ec).
  { rewrite B. repeat rewrite <- app_assoc. reflexivity. }
  rewrite F. set (X := e0 ++ e1 ++ d_key r ++ e3 ++ e4 ++ e5 ++ ec).
  assert (S2 : slice 6 38 X = d_key r).
  { unfold X. rewrite (app_assoc e0 e1). apply slice_mid; [rewrite app_length; lia|assumption]. }
  assert (S3 : slice 38 42 X = e3).
  { unfold X. rewrite (app_assoc e0 e1), (app_assoc (e0 ++ e1)). apply slice_mid; [rewrite !app_length; lia|assumption]. }
  assert (S4 : slice 42 50 X = e4).
  { unfold X. rewrite (app_assoc e0 e1), (app_assoc (e0 ++ e1)), (app_assoc ((e0 ++ e1) ++ d_key r)).
    apply slice_mid; [rewrite !app_length; lia|assumption]. }
  assert (S5 : slice 50 58 X = e5).
  { unfold X. rewrite (app_assoc e0 e1), (app_assoc (e0 ++ e1)), (app_assoc ((e0 ++ e1) ++ d_key r)),
      (app_assoc (((e0 ++ e1) ++ d_key r) ++ e3)).
    apply slice_mid; [rewrite !app_length; lia|assumption]. }
  assert (S6 : slice 58 66 X = ec).
  { unfold X. rewrite (app_assoc e0 e1), (app_assoc (e0 ++ e1)), (app_assoc ((e0 ++ e1) ++ d_key r)),
      (app_assoc (((e0 ++ e1) ++ d_key r) ++ e3)), (app_assoc ((((e0 ++ e1) ++ d_key r) ++ e3) ++ e4)).
    rewrite <- (app_nil_r ec) at 1.
    apply slice_mid; [rewrite !app_length; lia|assumption]. }
  cbv [bdlra_epoch_bytes bdlra_bfl_bytes bdlra_key_bytes bdlra_attempt_bytes bdlra_offset_bytes
       bdlra_size_bytes bdlra_checksum_bytes Nat.add].
  rewrite S2, S3, S4, S5, S6.
  unfold ec, e3, e4, e5.
  rewrite !le_dec_enc by assumption.
  fold cs. rewrite N.eqb_refl. eexists. eexists. reflexivity.
Qed.

Lemma encode_length seed r : length (d_key r) = bdlra_key_bytes -> length (encode seed r) = bdlra_record_size.
Proof.
  intros Hk. unfold encode, body_bytes. rewrite !app_length, !le_enc_length, Hk. reflexivity.
Qed.

Lemma flip_at_beyond : forall l i, (length l <= i)%nat -> flip_at i l = l.
Proof.
  induction l as [|b t IH]; intros i Hi; [destruct i; reflexivity|]. destruct i as [|j]; cbn in Hi; [lia|].
  cbn [flip_at]. rewrite IH by lia. reflexivity.
Qed.

(** the monitor compares only when the two seeds are equal and no byte is damaged *)
Definition codec_compares (inp : sx) : bool :=
  (sx_N (sx_nth inp 7) =? sx_N (sx_nth inp 8)) && (bdlra_record_size <=? sx_nat (sx_nth inp 9))%nat.

Theorem codec_mon_silent : forall inp,
  (codec_compares inp = true -> codec_fits (dec_drec inp)) -> codec_mon inp (codec_case inp) = [].
Proof.
  intros inp H. unfold codec_mon. cbv zeta. fold (codec_compares inp).
  destruct (codec_compares inp) eqn:E; [|reflexivity]. specialize (H eq_refl).
  unfold codec_compares in E. apply andb_true_iff in E. destruct E as [E1 E2].
  apply N.eqb_eq in E1. apply Nat.leb_le in E2.
  unfold codec_case. cbv zeta. unfold sx_nth at 1. cbn [sx_list nth].
  rewrite <- E1. rewrite flip_at_beyond by (rewrite encode_length by apply H; exact E2).
  destruct (decode_encode_fits (sx_N (sx_nth inp 7)) (dec_drec inp) H) as (e & b & ->).
  cbn [enc_dres d_key d_att d_off d_size]. rewrite sx_eqb_refl. reflexivity.
Qed.
