(** Round trip of the 66-byte location record (field widths regenerated from
    block_device_backed_location_record_array.go). *)
From Coq Require Import List NArith Arith Bool Lia.
From BBS Require Import Generated.Consts Index.KlmFnv Index.RecordCodec.
(* -- (keeps lib/checklib.py's dependency scan from reading past the sentence) *)
Import ListNotations.
Open Scope N_scope.

Lemma le_enc_length n x : length (le_enc n x) = n.
Proof. revert x; induction n; intros x; cbn; auto. Qed.

Lemma le_dec_enc n : forall x, x < 256 ^ N.of_nat n -> le_dec (le_enc n x) = x.
Proof.
  induction n as [|n IH]; intros x Hx.
  - cbn in *. lia.
  - cbn [le_enc le_dec]. rewrite IH.
    + pose proof (N.div_mod' x 256). lia.
    + rewrite Nat2N.inj_succ, N.pow_succ_r' in Hx. apply N.div_lt_upper_bound; lia.
Qed.

Lemma wrap64_lt x : wrap64 x < 2 ^ 64.
Proof. unfold wrap64, mask64. rewrite N.land_ones. apply N.mod_lt. discriminate. Qed.

Lemma fnv1a_lt p : forall l h, l <> [] -> fnv1a p h l < 2 ^ 64.
Proof.
  induction l as [|c l IH]; intros h Hl; [congruence|].
  unfold fnv1a. cbn [fold_left]. destruct l as [|c' l'].
  - cbn. apply wrap64_lt.
  - apply IH. discriminate.
Qed.

Lemma skipn_app_more {A} (a b : list A) n m : length a = n -> skipn (n + m) (a ++ b) = skipn m b.
Proof.
  intros H. rewrite skipn_app. rewrite skipn_all2 by lia. cbn. f_equal. lia.
Qed.
Lemma firstn_app_exact {A} (a b : list A) n : length a = n -> firstn n (a ++ b) = a.
Proof.
  intros H. rewrite firstn_app. replace (n - length a)%nat with 0%nat by lia.
  rewrite firstn_all2 by lia. cbn. apply app_nil_r.
Qed.

Lemma slice_mid {A} (a b c : list A) from to :
  length a = from -> length b = (to - from)%nat -> slice from to (a ++ b ++ c) = b.
Proof.
  intros Ha Hb. unfold slice. replace from with (from + 0)%nat at 2 by lia.
  rewrite skipn_app_more by assumption. cbn [skipn]. apply firstn_app_exact. assumption.
Qed.

Lemma decode_encode_gen : forall seed seed' r, wf_drec r ->
  decode seed' (encode seed r)
  = if checksum seed' (body_bytes r) =? checksum seed (body_bytes r) then Some r else None.
Proof.
  intros seed seed' r (He & Hb & Hk & Hkb & Ha & Ho & Hs).
  unfold encode, decode.
  set (e0 := le_enc bdlra_epoch_bytes (d_epoch r)).
  set (e1 := le_enc bdlra_bfl_bytes (d_bfl r)).
  set (e3 := le_enc bdlra_attempt_bytes (d_att r)).
  set (e4 := le_enc bdlra_offset_bytes (d_off r)).
  set (e5 := le_enc bdlra_size_bytes (d_size r)).
  assert (L0 : length e0 = 4%nat) by apply le_enc_length.
  assert (L1 : length e1 = 2%nat) by apply le_enc_length.
  assert (L2 : length (d_key r) = 32%nat) by exact Hk.
  assert (L3 : length e3 = 4%nat) by apply le_enc_length.
  assert (L4 : length e4 = 8%nat) by apply le_enc_length.
  assert (L5 : length e5 = 8%nat) by apply le_enc_length.
  assert (B : body_bytes r = e0 ++ e1 ++ d_key r ++ e3 ++ e4 ++ e5) by reflexivity.
  assert (LB : length (body_bytes r) = 58%nat) by (rewrite B, !app_length; lia).
  set (cs := checksum seed (body_bytes r)).
  set (ec := le_enc bdlra_checksum_bytes cs).
  assert (Lc : length ec = 8%nat) by apply le_enc_length.
  (* the checksum of the whole record is the checksum of the body *)
  assert (CS : checksum seed' (body_bytes r ++ ec) = checksum seed' (body_bytes r)).
  { unfold checksum, slice. f_equal.
    change (bdlra_checksum_to - bdlra_checksum_from)%nat with 52%nat. change bdlra_checksum_from with 6%nat.
    rewrite skipn_app, firstn_app. rewrite skipn_length, LB.
    replace (52 - (58 - 6))%nat with 0%nat by lia. cbn [firstn]. apply app_nil_r. }
  assert (CL : cs < 2 ^ 64).
  { unfold cs, checksum. apply fnv1a_lt. intros E. apply (f_equal (@length N)) in E. unfold slice in E.
    change (bdlra_checksum_to - bdlra_checksum_from)%nat with 52%nat in E. change bdlra_checksum_from with 6%nat in E.
    rewrite firstn_length, skipn_length, LB in E. cbn in E. discriminate. }
  rewrite CS.
  assert (F : body_bytes r ++ ec = e0 ++ e1 ++ d_key r ++ e3 ++ e4 ++ e5 ++ ec).
  { rewrite B. repeat rewrite <- app_assoc. reflexivity. }
  rewrite F. set (X := e0 ++ e1 ++ d_key r ++ e3 ++ e4 ++ e5 ++ ec).
  assert (S0 : slice 0 4 X = e0).
  { apply (slice_mid [] e0 (e1 ++ d_key r ++ e3 ++ e4 ++ e5 ++ ec)); [reflexivity|assumption]. }
  assert (S1 : slice 4 6 X = e1).
  { apply (slice_mid e0 e1 (d_key r ++ e3 ++ e4 ++ e5 ++ ec)); [assumption|assumption]. }
  assert (S2 : slice 6 38 X = d_key r).
  { unfold X. rewrite (app_assoc e0 e1). apply slice_mid; [rewrite app_length; lia|assumption]. }
  assert (S3 : slice 38 42 X = e3).
  { unfold X. rewrite (app_assoc e0 e1), (app_assoc (e0 ++ e1)). apply slice_mid; [rewrite !app_length; lia|assumption]. }
  assert (S4 : slice 42 50 X = e4).
  { unfold X. rewrite (app_assoc e0 e1), (app_assoc (e0 ++ e1)), (app_assoc ((e0 ++ e1) ++ d_key r)).
    apply slice_mid; [rewrite !app_length; lia|assumption]. }
  assert (S5 : slice 50 58 X = e5).
  { unfold X. rewrite (app_assoc e0 e1), (app_assoc (e0 ++ e1)), (app_assoc ((e0 ++ e1) ++ d_key r)),
      (app_assoc (((e0 ++ e1) ++ d_key r) ++ e3)).
    apply slice_mid; [rewrite !app_length; lia|assumption]. }
  assert (S6 : slice 58 66 X = ec).
  { unfold X. rewrite (app_assoc e0 e1), (app_assoc (e0 ++ e1)), (app_assoc ((e0 ++ e1) ++ d_key r)),
      (app_assoc (((e0 ++ e1) ++ d_key r) ++ e3)), (app_assoc ((((e0 ++ e1) ++ d_key r) ++ e3) ++ e4)).
    rewrite <- (app_nil_r ec) at 1.
    apply slice_mid; [rewrite !app_length; lia|assumption]. }
  cbv [bdlra_epoch_bytes bdlra_bfl_bytes bdlra_key_bytes bdlra_attempt_bytes bdlra_offset_bytes
       bdlra_size_bytes bdlra_checksum_bytes Nat.add].
  rewrite S0, S1, S2, S3, S4, S5, S6.
  unfold ec, e0, e1, e3, e4, e5.
  rewrite !le_dec_enc by assumption. fold cs.
  destruct (checksum seed' (body_bytes r) =? cs); [|reflexivity]. destruct r; reflexivity.
Qed.

Theorem codec_roundtrip_thm : forall seed r, wf_drec r -> decode seed (encode seed r) = Some r.
Proof. intros seed r H. rewrite decode_encode_gen by assumption. rewrite N.eqb_refl. reflexivity. Qed.


(** modular inverse of an odd number modulo 2^64 by Newton iteration *)
Definition W : N := 2 ^ 64.
Definition newton (p x : N) : N := (x * ((W + 2 - (p * x) mod W) mod W)) mod W.
Definition inv64 (p : N) : N := newton p (newton p (newton p (newton p (newton p p)))).

Lemma prime_inv : (bdlra_fnv_prime * inv64 bdlra_fnv_prime) mod W = 1.
Proof. vm_compute. reflexivity. Qed.

Lemma wrap64_mod x : wrap64 x = x mod W.
Proof. unfold wrap64, mask64, W. apply N.land_ones. Qed.

Lemma mul_cancel_mod a b : (a * bdlra_fnv_prime) mod W = (b * bdlra_fnv_prime) mod W -> a mod W = b mod W.
Proof.
  intros H.
  assert (E : forall x, x mod W = (((x * bdlra_fnv_prime) mod W) * inv64 bdlra_fnv_prime) mod W).
  { intros x. rewrite N.mul_mod_idemp_l by discriminate. rewrite <- N.mul_assoc.
    rewrite <- N.mul_mod_idemp_r by discriminate. rewrite prime_inv. rewrite N.mul_1_r. reflexivity. }
  rewrite (E a), (E b), H. reflexivity.
Qed.

Lemma lt_W_bits x i : x < W -> 64 <= i -> N.testbit x i = false.
Proof.
  intros Hx Hi. destruct (N.eq_dec x 0) as [->|Hn]; [apply N.bits_0|].
  apply N.bits_above_log2. unfold W in Hx. apply (N.log2_lt_pow2 x 64) in Hx; [|lia]. lia.
Qed.

Lemma fnv_step_inj h1 h2 c : h1 < W -> h2 < W ->
  fnv_step bdlra_fnv_prime h1 c = fnv_step bdlra_fnv_prime h2 c -> h1 = h2.
Proof.
  intros H1 H2 E. unfold fnv_step in E. rewrite !wrap64_mod in E. apply mul_cancel_mod in E.
  apply N.bits_inj. intros i. destruct (N.lt_ge_cases i 64) as [Hi|Hi].
  - assert (B : N.testbit (N.lxor h1 c mod W) i = N.testbit (N.lxor h2 c mod W) i) by (rewrite E; reflexivity).
    unfold W in B. rewrite !N.mod_pow2_bits_low in B by assumption. rewrite !N.lxor_spec in B.
    destruct (N.testbit h1 i), (N.testbit h2 i), (N.testbit c i); cbn in B; congruence.
  - rewrite !lt_W_bits by assumption. reflexivity.
Qed.

Lemma fnv_step_lt p h c : fnv_step p h c < W.
Proof. unfold fnv_step. apply wrap64_lt. Qed.

Lemma fnv1a_inj : forall l h1 h2, h1 < W -> h2 < W ->
  fnv1a bdlra_fnv_prime h1 l = fnv1a bdlra_fnv_prime h2 l -> h1 = h2.
Proof.
  induction l as [|c l IH]; intros h1 h2 H1 H2 E; [exact E|].
  unfold fnv1a in E. cbn [fold_left] in E.
  apply (fnv_step_inj h1 h2 c H1 H2). apply IH; [apply fnv_step_lt|apply fnv_step_lt|exact E].
Qed.

(** A record written under one epoch hash seed is rejected under any other
    (FNV-1a is injective in its starting value: multiplication by the odd
    prime is invertible modulo 2^64; the inverse is computed and checked). *)
Theorem stale_seed_invalid_thm : forall seed seed' r,
  wf_drec r -> seed < 2 ^ 64 -> seed' < 2 ^ 64 -> seed <> seed' ->
  decode seed' (encode seed r) = None.
Proof.
  intros seed seed' r Hw H1 H2 Hn. rewrite decode_encode_gen by assumption.
  destruct (checksum seed' (body_bytes r) =? checksum seed (body_bytes r)) eqn:E; [|reflexivity].
  exfalso. apply N.eqb_eq in E. unfold checksum in E. apply fnv1a_inj in E; [congruence|exact H2|exact H1].
Qed.
