(** The 66-byte record layout of block_device_backed_location_record_array.go:
    epoch id (4, LE) | blocks from last (2) | key (32) | attempt (4) | offset (8)
    | size (8) | checksum (8) ; checksum = FNV-1a over bytes [6, 58) started
    from the epoch's hash seed.  Field widths are regenerated from the source.
    Definitions only. *)
From Coq Require Import List NArith Arith Bool Lia.
From BBS Require Import Common.Sx Generated.Consts Index.KlmFnv.
(* -- (keeps lib/checklib.py's dependency scan from reading past the sentence) *)
Import ListNotations.
Open Scope N_scope.

Fixpoint le_enc (n : nat) (x : N) : list N :=
  match n with
  | O => []
  | S n' => x mod 256 :: le_enc n' (x / 256)
  end.
Fixpoint le_dec (bs : list N) : N :=
  match bs with
  | [] => 0
  | b :: t => b + 256 * le_dec t
  end.

Record drec := { d_epoch : N; d_bfl : N; d_key : list N; d_att : N; d_off : N; d_size : N }.

Definition body_bytes (r : drec) : list N :=
  le_enc bdlra_epoch_bytes (d_epoch r) ++ le_enc bdlra_bfl_bytes (d_bfl r) ++ d_key r
  ++ le_enc bdlra_attempt_bytes (d_att r) ++ le_enc bdlra_offset_bytes (d_off r)
  ++ le_enc bdlra_size_bytes (d_size r).

Definition slice {A} (from to : nat) (l : list A) : list A := firstn (to - from) (skipn from l).

Definition checksum (seed : N) (bytes : list N) : N :=
  fnv1a bdlra_fnv_prime seed (slice bdlra_checksum_from bdlra_checksum_to bytes).

Definition encode (seed : N) (r : drec) : list N :=
  let b := body_bytes r in b ++ le_enc bdlra_checksum_bytes (checksum seed b).

(** Get after the resolver accepted the reference and returned [seed]. *)
Definition decode (seed : N) (bytes : list N) : option drec :=
  let o_bfl := bdlra_epoch_bytes in
  let o_key := (o_bfl + bdlra_bfl_bytes)%nat in
  let o_att := (o_key + bdlra_key_bytes)%nat in
  let o_off := (o_att + bdlra_attempt_bytes)%nat in
  let o_size := (o_off + bdlra_offset_bytes)%nat in
  let o_sum := (o_size + bdlra_size_bytes)%nat in
  if checksum seed bytes =? le_dec (slice o_sum (o_sum + bdlra_checksum_bytes) bytes)
  then Some {| d_epoch := le_dec (slice 0 o_bfl bytes);
               d_bfl := le_dec (slice o_bfl o_key bytes);
               d_key := slice o_key o_att bytes;
               d_att := le_dec (slice o_att o_off bytes);
               d_off := le_dec (slice o_off o_size bytes);
               d_size := le_dec (slice o_size o_sum bytes) |}
  else None.

Definition wf_drec (r : drec) : Prop :=
  d_epoch r < 2 ^ 32 /\ d_bfl r < 2 ^ 16 /\ length (d_key r) = bdlra_key_bytes
  /\ Forall (fun b => b < 256) (d_key r) /\ d_att r < 2 ^ 32 /\ d_off r < 2 ^ 64 /\ d_size r < 2 ^ 64.

(** ---- sx interface of the codec cases (judged in Run/R06) ----
    input (1 epoch bfl (key) attempt off size seed seed2 flip):
    Put through the real array with hash seed [seed]; observation =
    ((66 device bytes) (result of Get with hash seed [seed2] after xor-ing
    device byte [flip] with 1, when flip < 66)). *)
Definition dec_drec (inp : sx) : drec :=
  {| d_epoch := sx_N (sx_nth inp 1); d_bfl := sx_N (sx_nth inp 2); d_key := sx_Ns (sx_nth inp 3);
     d_att := sx_N (sx_nth inp 4); d_off := sx_N (sx_nth inp 5); d_size := sx_N (sx_nth inp 6) |}.

Fixpoint flip_at (i : nat) (l : list N) : list N :=
  match l, i with
  | [], _ => []
  | b :: t, O => N.lxor b 1 :: t
  | b :: t, S j => b :: flip_at j t
  end.

Definition enc_dres (o : option drec) : sx :=
  match o with
  | None => L []
  | Some r => L [of_Ns (d_key r); of_N (d_att r); of_N (d_off r); of_N (d_size r)]
  end.

Definition codec_case (inp : sx) : sx :=
  let r := dec_drec inp in
  let bytes := encode (sx_N (sx_nth inp 7)) r in
  L [of_Ns bytes; enc_dres (decode (sx_N (sx_nth inp 8)) (flip_at (sx_nat (sx_nth inp 9)) bytes))].

(** monitor: what was read back under the same seed from an undamaged record
    is what was written; nothing is read back from a damaged record. *)
Definition codec_mon (inp obs : sx) : list Z :=
  let r := dec_drec inp in
  let same := (sx_N (sx_nth inp 7) =? sx_N (sx_nth inp 8)) && (bdlra_record_size <=? sx_nat (sx_nth inp 9))%nat in
  let got := sx_nth obs 1 in
  let want := enc_dres (Some r) in
  if same then (if sx_eqb got want then [] else [8%Z])
  else [].
