(** C06 — additional theorems about Index/Klm.v (arbitrary slot function)
    needed to show that the run-time monitor of C06 is silent on the model:

    - a record that is NEWER than the location being stored is never moved by
      a Put, hence the lookup of a key whose location is newer than the one
      stored is unchanged (so: a key whose lookup changes had a location that
      is not newer than the entry stored -- monitor clause 4);
    - the key being stored ends with the newer of (previous, new) or, when its
      own record is the reported discard, possibly with what it had (clause 5);
    - histories: appending an operation. *)
From Coq Require Import List NArith Arith Bool Lia.
From BBS Require Import Index.Klm Index.KlmProofs Index.KlmFrame.
(* -- (keeps lib/checklib.py's dependency scan from reading past the sentence) *)
Import ListNotations.

Section MS.
  Variable key : Type.
  Variable key_eqb : key -> key -> bool.
  Hypothesis key_eqb_spec : forall a b, key_eqb a b = true <-> a = b.
  Variable n : nat.
  Variable slot : key -> nat -> nat.
  Hypothesis slot_lt : forall k a, slot k a < n.
  Variables maxGet maxPut : nat.

  Notation rec := (rec key).
  Notation table := (table key).
  Notation read := (read key).
  Notation put_loop := (put_loop key key_eqb slot maxGet).
  Notation put := (put key key_eqb slot maxGet maxPut).
  Notation klm := (klm key).
  Notation lookup := (lookup key key_eqb slot maxGet).
  Notation klm_put := (klm_put key key_eqb slot maxGet maxPut).
  Notation step := (step key key_eqb slot maxGet maxPut).
  Notation run := (run key key_eqb slot maxGet maxPut).
  Notation discards := (discards key key_eqb slot maxGet maxPut).
  Notation bump := (bump key).
  Notation rk_eqb := (rk_eqb key key_eqb).
  Notation mk := (Build_rec key).
  Notation LoopInv := (LoopInv key n slot maxGet).
  Notation Inv2 := (Inv2 key n slot maxGet).
  Notation InvS2 := (InvS2 key n slot maxGet).
  Notation cand := (cand key slot).
  Notation tlookup := (tlookup key key_eqb slot maxGet).
  Notation MaxCand := (MaxCand key slot).
  Notation vcand := (vcand key slot).
  Notation NoCandBefore := (NoCandBefore key slot).
  Notation loop_swap := (loop_swap key key_eqb n slot slot_lt maxGet).
  Notation loop_move := (loop_move key key_eqb key_eqb_spec n slot maxGet).
  Notation put_loop_inv2 := (put_loop_inv2 key key_eqb key_eqb_spec n slot slot_lt maxGet).
  Notation put_loop_subset := (put_loop_subset key key_eqb key_eqb_spec n slot slot_lt maxGet).
  Notation tlookup_max := (tlookup_max key key_eqb key_eqb_spec n slot maxGet).
  Notation place_inv2 := (place_inv2 key n slot slot_lt maxGet).
  Notation loopinv_start := (loopinv_start key n slot maxGet).
  Notation cand_upd := (cand_upd key slot).
  Notation cand_at_slot := (cand_at_slot key slot).
  Notation cand_of_read := (cand_of_read key slot).
  Notation rec_eta := (rec_eta key).
  Notation rk_eqb_spec := (rk_eqb_spec key key_eqb key_eqb_spec).
  Notation read_some := (read_some key).
  Notation key_eqb_refl := (key_eqb_refl key key_eqb key_eqb_spec).

  (** A live record whose location is newer than a threshold [th] stays where
      it is while the carried record is not newer than [th]. *)
  Lemma put_loop_keeps lo hi th fuel : forall it t c disp t' o k' a p,
    LoopInv lo hi t c disp -> put_loop lo hi fuel it t c = (t', o) ->
    older th (rloc c) = false -> cand lo hi t k' a p -> older th p = true ->
    cand lo hi t' k' a p.
  Proof.
    induction fuel as [|f IH]; intros it t c disp t' o k' a p HL H Hc Cp Hp; cbn [Klm.put_loop] in H.
    - inversion H; subst. exact Cp.
    - pose proof HL as [[HI [HS HA]] [V [G [H3 [H4 HM]]]]].
      pose proof HI as [Hl [Hpl [Hb Ho]]].
      set (s := slot (rkey c) (ratt c)) in *.
      assert (Hs : s < length t) by (rewrite Hl; apply slot_lt).
      assert (PL : (forall q, read lo hi t s = Some q -> older (rloc q) (rloc c) = true) ->
                   cand lo hi (upd t s (Some c)) k' a p).
      { intros Hq. apply cand_upd; [assumption|assumption|]. right. split; [|exact Cp].
        intros E. unfold KlmFrame.cand in Cp. rewrite E in Cp. specialize (Hq _ Cp). cbn in Hq.
        clear - Hq Hc Hp. ord. }
      destruct (read lo hi t s) as [q|] eqn:R.
      + destruct (rk_eqb q (rkey c) (ratt c)) eqn:K.
        * destruct (older (rloc q) (rloc c)) eqn:O; inversion H; subst t' o; [|exact Cp].
          apply PL. intros q' Hq'. inversion Hq'; subst q'. exact O.
        * destruct (older (rloc q) (rloc c)) eqn:O.
          -- assert (PL' : cand lo hi (upd t s (Some c)) k' a p).
             { apply PL. intros q' Hq'. inversion Hq'; subst q'. exact O. }
             destruct (maxGet <=? ratt (bump q)) eqn:HG.
             ++ inversion H; subst t' o. exact PL'.
             ++ eapply (IH _ _ _ _ _ _ k' a p (loop_swap _ _ _ _ _ _ HL R K O HG) H); [|exact PL'|exact Hp].
                cbn [Klm.bump rloc]. clear - O Hc. ord.
          -- destruct (maxGet <=? ratt (bump c)) eqn:HG.
             ++ inversion H; subst t' o. exact Cp.
             ++ eapply (IH _ _ _ _ _ _ k' a p (loop_move _ _ _ _ _ _ HL R K O HG) H); [|exact Cp|exact Hp].
                cbn [Klm.bump rloc]. exact Hc.
      + inversion H; subst t' o. apply PL. intros q' Hq'. discriminate.
  Qed.

  (** the lookup of a key whose location is newer than the one stored is unchanged *)
  Theorem put_newer_kept_tbl lo hi t k l t' o k' p :
    Inv2 lo hi t -> valid lo hi l = true -> put lo hi t k l = (t', o) ->
    tlookup lo hi t k' = Some p -> older l p = true -> tlookup lo hi t' k' = Some p.
  Proof.
    intros HI V H L O. unfold Klm.put in H.
    pose proof (loopinv_start lo hi t k l HI V) as HL.
    assert (HI' : Inv2 lo hi t') by (eapply put_loop_inv2; eassumption).
    apply tlookup_max in L; [|assumption]. destruct L as [[a Ca] Hmax].
    apply tlookup_max; [assumption|]. split.
    - exists a. eapply (put_loop_keeps lo hi l); [exact HL|exact H|cbn; apply older_irrefl|exact Ca|exact O].
    - intros a' l' C'. pose proof (put_loop_subset _ _ _ _ _ _ _ _ _ _ _ _ HL H C') as VC.
      destruct VC as [[a0 C0]|[E1 E2]].
      + eapply Hmax; eassumption.
      + cbn in E2. subst l'. apply older_asym. exact O.
  Qed.

  (** the key being stored, whatever is reported as discarded *)
  Lemma put_loop_self_or lo hi fuel : forall it t c t' o,
    LoopInv lo hi t c false -> NoCandBefore lo hi t c ->
    put_loop lo hi fuel it t c = (t', o) ->
    tlookup lo hi t' (rkey c) = Some (newest (tlookup lo hi t (rkey c)) (rloc c))
    \/ tlookup lo hi t' (rkey c) = tlookup lo hi t (rkey c).
  Proof.
    induction fuel as [|f IH]; intros it t c t' o HL HN H; cbn [Klm.put_loop] in H.
    - inversion H; subst. right; reflexivity.
    - pose proof HL as [HI2 [V [G [H3 [H4 HM]]]]].
      pose proof HI2 as [HI [HS HA]].
      pose proof HI as [Hl [Hp [Hb Ho]]].
      set (k := rkey c) in *. set (s := slot k (ratt c)) in *.
      assert (Hs : s < length t) by (rewrite Hl; apply slot_lt).
      assert (Cc : cand lo hi (upd t s (Some c)) k (ratt c) (rloc c)).
      { apply cand_upd; [assumption|assumption|]. left. split; [reflexivity|apply rec_eta]. }
      assert (Done : forall t1, Inv2 lo hi t1 -> cand lo hi t1 k (ratt c) (rloc c) ->
                (forall a' l', cand lo hi t1 k a' l' -> l' = rloc c \/ older l' (rloc c) = true) ->
                tlookup lo hi t1 k = Some (rloc c)).
      { intros t1 HI1 C1 Hall. apply tlookup_max; [assumption|]. split; [eauto|]. intros a' l' C'.
        destruct (Hall _ _ C') as [->|Hx]; [apply older_irrefl|apply older_asym; exact Hx]. }
      destruct (read lo hi t s) as [q|] eqn:R.
      + pose proof R as R'. apply read_some in R'. destruct R' as [Rn Rv].
        assert (Cq : cand lo hi t (rkey q) (ratt q) (rloc q)) by (eapply cand_of_read; eassumption).
        assert (Far : forall a' l', cand lo hi t k a' l' -> ratt c < a' -> older (rloc q) l' = false).
        { intros a' l' C' Ha'. destruct (Ho _ _ C' (ratt c)) as [r' [Hr' Hold]]; [cbn; lia|]. cbn in Hr', Hold.
          fold s in Hr'. rewrite R in Hr'. inversion Hr'; subst r'. assumption. }
        destruct (rk_eqb q k (ratt c)) eqn:K.
        * left. apply rk_eqb_spec in K. destruct K as [K1 K2].
          rewrite K1, K2 in Cq.
          assert (Lq : tlookup lo hi t k = Some (rloc q)).
          { apply tlookup_max; [assumption|]. split; [eauto|]. intros a' l' C'.
            destruct (Nat.lt_trichotomy a' (ratt c)) as [Hc|[Hc|Hc]].
            - exfalso. eapply HN; eassumption.
            - subst a'. unfold KlmFrame.cand in *. rewrite Cq in C'. inversion C'. apply older_irrefl.
            - apply older_asym. eapply HS; eassumption. }
          rewrite Lq. cbn [newest].
          destruct (older (rloc q) (rloc c)) eqn:O; inversion H; subst t' o; clear H; [|assumption].
          apply Done; [|exact Cc|].
          { eapply place_inv2; [exact HL|reflexivity|]. intros o' Ho'. fold k s in Ho'. rewrite R in Ho'.
            inversion Ho'; subst; assumption. }
          intros a' l' C'. apply cand_upd in C'; [|assumption|assumption].
          destruct C' as [[E Q]|[E C']].
          -- left. rewrite Q. reflexivity.
          -- right. destruct (Nat.lt_trichotomy a' (ratt c)) as [Hc|[Hc|Hc]].
             ++ exfalso. eapply HN; eassumption.
             ++ subst a'. contradiction.
             ++ specialize (Far _ _ C' Hc). clear - Far O. ord.
        * assert (NoAt : forall l', ~ cand lo hi t k (ratt c) l').
          { intros l' C'. pose proof (cand_at_slot _ _ _ _ _ _ _ R C') as E. subst q.
            unfold Klm.rk_eqb in K. cbn in K. rewrite key_eqb_refl, Nat.eqb_refl in K. discriminate. }
          destruct (older (rloc q) (rloc c)) eqn:O.
          -- assert (AllOlder : forall a' l', cand lo hi t k a' l' -> older l' (rloc c) = true).
             { intros a' l' C'. destruct (Nat.lt_trichotomy a' (ratt c)) as [Hc|[Hc|Hc]].
               - exfalso. eapply HN; eassumption.
               - subst a'. exfalso. eapply NoAt; eassumption.
               - specialize (Far _ _ C' Hc). clear - Far O. ord. }
             assert (Nw : newest (tlookup lo hi t k) (rloc c) = rloc c).
             { destruct (tlookup lo hi t k) as [l0|] eqn:L0; [|reflexivity]. cbn.
               apply tlookup_max in L0; [|assumption]. destruct L0 as [[a0 C0] _].
               rewrite (AllOlder _ _ C0). reflexivity. }
             left. rewrite Nw.
             assert (UpdAll : forall a' l', cand lo hi (upd t s (Some c)) k a' l' ->
                                            l' = rloc c \/ older l' (rloc c) = true).
             { intros a' l' C'. apply cand_upd in C'; [|assumption|assumption].
               destruct C' as [[E Q]|[E C']]; [left; rewrite Q; reflexivity|right; eapply AllOlder; eassumption]. }
             destruct (maxGet <=? ratt (bump q)) eqn:HG.
             ++ inversion H; subst t' o; clear H. apply Done; [|exact Cc|exact UpdAll].
                eapply place_inv2; [exact HL|reflexivity|]. intros o' Ho'. fold k s in Ho'. rewrite R in Ho'.
                inversion Ho'; subst; assumption.
             ++ assert (HL1 : LoopInv lo hi (upd t s (Some c)) (bump q) true) by (eapply loop_swap; eassumption).
                apply Done.
                ** eapply put_loop_inv2; [exact HL1|exact H].
                ** eapply (put_loop_keeps lo hi (rloc q)); [exact HL1|exact H|cbn; apply older_irrefl|exact Cc|exact O].
                ** intros a' l' C'. pose proof (put_loop_subset _ _ _ _ _ _ _ _ _ _ _ _ HL1 H C') as VC.
                   destruct VC as [[a0 C0]|[E1 E2]]; [eapply UpdAll; exact C0|].
                   cbn in E2. subst l'. right. exact O.
          -- destruct (maxGet <=? ratt (bump c)) eqn:HG.
             ++ inversion H; subst t' o. right; reflexivity.
             ++ assert (HL1 : LoopInv lo hi t (bump c) false) by (eapply loop_move; eassumption).
                change (tlookup lo hi t' (rkey (bump c)) = Some (newest (tlookup lo hi t (rkey (bump c))) (rloc (bump c)))
                        \/ tlookup lo hi t' (rkey (bump c)) = tlookup lo hi t (rkey (bump c))).
                eapply IH; [exact HL1| |exact H].
                intros a l' Ha C'. cbn [Klm.bump rkey ratt] in Ha, C'. fold k in C'.
                assert (Cx : a < ratt c \/ a = ratt c) by lia. destruct Cx as [Cx|Cx].
                ** eapply HN; eassumption.
                ** subst a. eapply NoAt; eassumption.
      + left. inversion H; subst t' o; clear H.
        assert (NoC : forall a' l', ~ cand lo hi t k a' l').
        { intros a' l' C'. destruct (Nat.lt_trichotomy a' (ratt c)) as [Hc|[Hc|Hc]].
          - eapply HN; eassumption.
          - subst a'. unfold KlmFrame.cand in C'. fold s in C'. rewrite R in C'. discriminate.
          - destruct (Ho _ _ C' (ratt c)) as [r' [Hr' _]]; [cbn; lia|]. cbn in Hr'. fold s in Hr'.
            rewrite R in Hr'. discriminate. }
        assert (L0 : tlookup lo hi t k = None).
        { destruct (tlookup lo hi t k) as [l0|] eqn:L0; [|reflexivity].
          apply tlookup_max in L0; [|assumption]. destruct L0 as [[a0 C0] _]. exfalso. eapply NoC; eassumption. }
        rewrite L0. cbn [newest]. apply Done; [|exact Cc|].
        { eapply place_inv2; [exact HL|reflexivity|]. intros o' Ho'. fold k s in Ho'. rewrite R in Ho'. discriminate. }
        intros a' l' C'. apply cand_upd in C'; [|assumption|assumption].
        destruct C' as [[E Q]|[E C']]; [left; rewrite Q; reflexivity|exfalso; eapply NoC; eassumption].
  Qed.

  Theorem put_self_or_tbl lo hi t k l t' o :
    Inv2 lo hi t -> valid lo hi l = true -> put lo hi t k l = (t', o) ->
    tlookup lo hi t' k = Some (newest (tlookup lo hi t k) l) \/ tlookup lo hi t' k = tlookup lo hi t k.
  Proof.
    intros HI V H. unfold Klm.put in H.
    pose proof (loopinv_start lo hi t k l HI V) as HL.
    change (tlookup lo hi t' (rkey (mk k 0 l)) = Some (newest (tlookup lo hi t (rkey (mk k 0 l))) (rloc (mk k 0 l)))
            \/ tlookup lo hi t' (rkey (mk k 0 l)) = tlookup lo hi t (rkey (mk k 0 l))).
    eapply put_loop_self_or; [exact HL| |exact H].
    intros a l' Ha. cbn in Ha. lia.
  Qed.

  (** ---- state level ---- *)
  Lemma klm_put_window s k l s' o : klm_put s k l = (s', o) -> lo s' = lo s /\ hi s' = hi s.
  Proof.
    unfold Klm.klm_put. destruct (put (lo s) (hi s) (tbl s) k l) as [t' o']. intros H. inversion H. cbn. auto.
  Qed.

  Theorem put_newer_kept s k l s' o k' p :
    InvS2 s -> valid (lo s) (hi s) l = true -> klm_put s k l = (s', o) ->
    lookup s k' = Some p -> older l p = true -> lookup s' k' = Some p.
  Proof.
    intros HR V H. unfold Klm.klm_put in H.
    destruct (put (lo s) (hi s) (tbl s) k l) as [t' o'] eqn:E. inversion H; subst s' o'; clear H.
    exact (put_newer_kept_tbl _ _ _ _ _ _ _ _ _ HR V E).
  Qed.

  Theorem put_self_or s k l s' o :
    InvS2 s -> valid (lo s) (hi s) l = true -> klm_put s k l = (s', o) ->
    lookup s' k = Some (newest (lookup s k) l) \/ lookup s' k = lookup s k.
  Proof.
    intros HR V H. unfold Klm.klm_put in H.
    destruct (put (lo s) (hi s) (tbl s) k l) as [t' o'] eqn:E. inversion H; subst s' o'; clear H.
    exact (put_self_or_tbl _ _ _ _ _ _ _ HR V E).
  Qed.

  Lemma lookup_empty h0 k : lookup (klm_empty key n h0) k = None.
  Proof.
    assert (HE : Inv2 0 h0 (repeat None n)) by apply inv2_empty.
    destruct (lookup (klm_empty key n h0) k) as [x|] eqn:L; [|reflexivity].
    exfalso. change (lookup (klm_empty key n h0) k) with (tlookup 0 h0 (repeat None n) k) in L.
    apply tlookup_max in L; [|exact HE]. destruct L as [[a Ca] _]. unfold KlmFrame.cand in Ca.
    apply read_some in Ca. destruct Ca as [Cn _]. revert Cn. generalize (slot k a). generalize n. clear.
    intros m. induction m; intros [|i] Cn; cbn in Cn; try discriminate; eauto.
  Qed.

  (** ---- histories: appending an operation ---- *)
  Lemma run_app h : forall s o, run s (h ++ [o]) = match run s h with Some s1 => step s1 o | None => None end.
  Proof.
    induction h as [|x h IH]; intros s o; cbn [app Klm.run].
    - destruct (step s o); reflexivity.
    - destruct (step s x) as [s1|]; [apply IH|reflexivity].
  Qed.

  Definition step_discards (s : klm) (o : op key) : list rec :=
    match step s o with
    | None => []
    | Some _ => match o with
                | OPut k l => match discarded (snd (klm_put s k l)) with Some d => [d] | None => [] end
                | _ => []
                end
    end.

  Lemma discards_app h : forall s s1 o, run s h = Some s1 ->
    discards s (h ++ [o]) = discards s h ++ step_discards s1 o.
  Proof.
    induction h as [|x h IH]; intros s s1 o Hr; cbn [app Klm.run Klm.discards] in *.
    - inversion Hr; subst s1. unfold step_discards. destruct (step s o); [|reflexivity].
      rewrite app_nil_r. reflexivity.
    - destruct (step s x) as [s2|]; [|discriminate]. rewrite (IH _ _ _ Hr), app_assoc. reflexivity.
  Qed.

  Lemma amap_run_app h : forall m o,
    amap_run key key_eqb m (h ++ [o])
    = match o with OPut k l => amap_put key key_eqb (amap_run key key_eqb m h) k l | _ => amap_run key key_eqb m h end.
  Proof.
    induction h as [|x h IH]; intros m o; cbn [app Klm.amap_run].
    - destruct o; reflexivity.
    - destruct x; apply IH.
  Qed.
End MS.
