(** Frame and refinement theorems for Index/Klm.v (arbitrary slot function):
    a lookup is the maximum of the key's candidate records; a Put changes the
    candidate sets only by adding the new record and dropping the reported
    discard; refinement to a map key -> newest valid location. *)
From Coq Require Import List NArith Arith Bool Lia.
From BBS Require Import Index.Klm Index.KlmProofs.
(* -- (keeps lib/checklib.py's dependency scan from reading past the sentence) *)
Import ListNotations.

Section Frame.
  Variable key : Type.
  Variable key_eqb : key -> key -> bool.
  Hypothesis key_eqb_spec : forall a b, key_eqb a b = true <-> a = b.
  Variable n : nat.
  Variable slot : key -> nat -> nat.
  Hypothesis slot_lt : forall k a, slot k a < n.
  Variables maxGet maxPut : nat.

  Notation rec := (rec key).
  Notation table := (table key).
  Notation read := (read key).
  Notation get_loop := (get_loop key key_eqb slot).
  Notation put_loop := (put_loop key key_eqb slot maxGet).
  Notation put := (put key key_eqb slot maxGet maxPut).
  Notation klm := (klm key).
  Notation lookup := (lookup key key_eqb slot maxGet).
  Notation klm_put := (klm_put key key_eqb slot maxGet maxPut).
  Notation step := (step key key_eqb slot maxGet maxPut).
  Notation run := (run key key_eqb slot maxGet maxPut).
  Notation discards := (discards key key_eqb slot maxGet maxPut).
  Notation bump := (bump key).
  Notation Inv := (Inv key n slot).
  Notation GeChain := (GeChain key slot).
  Notation Placed := (Placed key slot).
  Notation rk_eqb := (rk_eqb key key_eqb).
  Notation mk := (Build_rec key).

  Definition M : nat := Nat.max 1 maxGet.

  (** table lookups as a function of the table *)
  Definition tlookup (lo hi : N) (t : table) (k : key) : option loc :=
    lookup_of (get_loop lo hi t k (pred maxGet) 0).

  (** [cand t k a l]: the live record (k, a, l) sits at its slot. *)
  Definition cand (lo hi : N) (t : table) (k : key) (a : nat) (l : loc) : Prop :=
    read lo hi t (slot k a) = Some (mk k a l).

  Definition AttBound (t : table) : Prop := forall i r, nth i t None = Some r -> ratt r < M.
  (** records of one key at different attempts are strictly ordered by age *)
  Definition Strict (lo hi : N) (t : table) : Prop :=
    forall k a1 l1 a2 l2, cand lo hi t k a1 l1 -> cand lo hi t k a2 l2 -> a1 < a2 -> older l2 l1 = true.
  Definition Inv2 (lo hi : N) (t : table) : Prop := Inv lo hi t /\ Strict lo hi t /\ AttBound t.

  Lemma rec_eta (r : rec) : r = mk (rkey r) (ratt r) (rloc r).
  Proof. destruct r; reflexivity. Qed.

  Lemma cand_of_read lo hi t i r :
    Placed t -> read lo hi t i = Some r -> cand lo hi t (rkey r) (ratt r) (rloc r).
  Proof.
    intros Hp R. unfold cand. pose proof R as R'. apply read_some in R'. destruct R' as [Rn _].
    rewrite (Hp _ _ Rn). rewrite R. f_equal. apply rec_eta.
  Qed.

  Lemma cand_upd lo hi t s c k a l :
    s < length t -> valid lo hi (rloc c) = true ->
    (cand lo hi (upd t s (Some c)) k a l <->
     (slot k a = s /\ c = mk k a l) \/ (slot k a <> s /\ cand lo hi t k a l)).
  Proof.
    intros Hs V. unfold cand. rewrite read_upd by assumption.
    destruct (Nat.eqb (slot k a) s) eqn:E.
    - apply Nat.eqb_eq in E. split.
      + intros H. inversion H. left. split; [assumption|reflexivity].
      + intros [[_ H]|[H _]]; [subst; reflexivity|contradiction].
    - apply Nat.eqb_neq in E. split.
      + intros H. right. split; assumption.
      + intros [[H _]|[_ H]]; [contradiction|assumption].
  Qed.

  Lemma cand_at_slot lo hi t k a l o :
    read lo hi t (slot k a) = Some o -> cand lo hi t k a l -> o = mk k a l.
  Proof. unfold cand. intros R C. rewrite R in C. inversion C. reflexivity. Qed.

  (** ---- state carried through the Put loop ---- *)
  Definition C3 lo hi (t : table) (c : rec) : Prop :=
    forall a l, cand lo hi t (rkey c) a l -> a < ratt c -> older (rloc c) l = true.
  Definition C4 lo hi (t : table) (c : rec) : Prop :=
    forall a l, cand lo hi t (rkey c) a l -> ratt c <= a -> older l (rloc c) = true.
  Definition LoopInv lo hi (t : table) (c : rec) (disp : bool) : Prop :=
    Inv2 lo hi t /\ valid lo hi (rloc c) = true /\ GeChain lo hi t (rkey c) (ratt c) (rloc c)
    /\ C3 lo hi t c /\ (disp = true -> C4 lo hi t c) /\ ratt c < M.

  (** placing the carried record over nothing or over an older record *)
  Lemma place_inv2 lo hi t c disp s :
    LoopInv lo hi t c disp -> s = slot (rkey c) (ratt c) ->
    (forall o, read lo hi t s = Some o -> older (rloc o) (rloc c) = true) ->
    Inv2 lo hi (upd t s (Some c)).
  Proof.
    intros [[HI [HS HA]] [V [G [H3 [_ HM]]]]] Es Hnew.
    assert (Hs : s < length t) by (destruct HI as [Hl _]; rewrite Hl, Es; apply slot_lt).
    split; [apply inv_upd; auto|]. split.
    - intros k a1 l1 a2 l2 C1 C2 Hlt.
      apply cand_upd in C1; [|assumption|assumption]. apply cand_upd in C2; [|assumption|assumption].
      destruct C1 as [[E1 Q1]|[E1 C1]], C2 as [[E2 Q2]|[E2 C2]].
      + rewrite Q1 in Q2. inversion Q2. lia.
      + (* c first, an old candidate further along: it is not newer than what c replaced *)
        subst c. cbn in *.
        destruct HI as [_ [Hp [_ Ho]]].
        destruct (Ho _ _ C2 a1) as [r' [Hr' Hold]]; [cbn; lia|]. cbn in Hr', Hold.
        rewrite E1 in Hr'. specialize (Hnew _ Hr'). clear - Hnew Hold. ord.
      + subst c. cbn in *. eapply H3; eassumption.
      + eapply HS; eassumption.
    - intros i r Hn. rewrite nth_upd in Hn by assumption. destruct (Nat.eqb i s).
      + inversion Hn; subst; assumption.
      + eapply HA; eassumption.
  Qed.

  Lemma loop_swap lo hi t c disp o :
    LoopInv lo hi t c disp ->
    read lo hi t (slot (rkey c) (ratt c)) = Some o ->
    rk_eqb o (rkey c) (ratt c) = false -> older (rloc o) (rloc c) = true ->
    (maxGet <=? ratt (bump o)) = false ->
    LoopInv lo hi (upd t (slot (rkey c) (ratt c)) (Some c)) (bump o) true.
  Proof.
    intros HL R K O HG. set (s := slot (rkey c) (ratt c)) in *.
    assert (HI2 : Inv2 lo hi (upd t s (Some c))).
    { eapply place_inv2; [exact HL|reflexivity|]. intros o' Ho'. rewrite R in Ho'. inversion Ho'; subst; assumption. }
    destruct HL as [[HI [HS HA]] [V [G [H3 [H4 HM]]]]].
    pose proof HI as [Hl [Hp [Hb Ho]]].
    assert (Hs : s < length t) by (rewrite Hl; apply slot_lt).
    pose proof R as R'. apply read_some in R'. destruct R' as [Rn Rv].
    assert (Eo : slot (rkey o) (ratt o) = s) by (apply (Hp _ _ Rn)).
    assert (Co : cand lo hi t (rkey o) (ratt o) (rloc o)) by (eapply cand_of_read; eassumption).
    assert (Hnew : forall o', read lo hi t s = Some o' -> older (rloc o') (rloc c) = true).
    { intros o' Ho'. rewrite R in Ho'. inversion Ho'; subst; assumption. }
    apply Nat.leb_gt in HG. cbn [Klm.bump ratt] in HG.
    split; [exact HI2|]. cbn [Klm.bump rkey ratt rloc]. split; [assumption|]. split; [|split; [|split]].
    - (* chain of the displaced record *)
      assert (G1 : GeChain lo hi (upd t s (Some c)) (rkey o) (ratt o) (rloc o)).
      { apply gechain_upd; auto. eapply Ho; eassumption. }
      intros a' Ha'. assert (Ca : a' < ratt o \/ a' = ratt o) by lia. destruct Ca as [Ca|Ca].
      + apply G1; assumption.
      + subst a'. rewrite Eo. rewrite read_upd by assumption. rewrite Nat.eqb_refl.
        exists c. split; [reflexivity|]. apply older_asym; assumption.
    - (* C3 *)
      intros a l Ca Ha. cbn [Klm.bump rkey ratt rloc] in Ca, Ha |- *. apply cand_upd in Ca; [|assumption|assumption].
      destruct Ca as [[E Q]|[E Ca]].
      + subst c. cbn in *. assumption.
      + assert (Cx : a < ratt o \/ a = ratt o) by lia. destruct Cx as [Cx|Cx].
        * eapply HS; eassumption.
        * subst a. contradiction.
    - (* C4 *)
      intros _ a l Ca Ha. cbn [Klm.bump rkey ratt rloc] in Ca, Ha |- *. apply cand_upd in Ca; [|assumption|assumption].
      destruct Ca as [[E Q]|[E Ca]].
      + (* c has the key of o and a larger attempt: then o sits on c's chain, so o is not older than c *)
        exfalso. subst c. cbn in *.
        destruct (G (ratt o)) as [r' [Hr' Hold]]; [lia|].
        rewrite Eo in Hr'. rewrite R in Hr'. inversion Hr'; subst r'. clear - Hold O. ord.
      + eapply HS; [exact Co|exact Ca|lia].
    - unfold M in *. lia.
  Qed.

  Lemma loop_move lo hi t c disp o :
    LoopInv lo hi t c disp ->
    read lo hi t (slot (rkey c) (ratt c)) = Some o ->
    rk_eqb o (rkey c) (ratt c) = false -> older (rloc o) (rloc c) = false ->
    (maxGet <=? ratt (bump c)) = false ->
    LoopInv lo hi t (bump c) disp.
  Proof.
    intros [HI2 [V [G [H3 [H4 HM]]]]] R K O HG.
    apply Nat.leb_gt in HG. cbn [Klm.bump ratt] in HG.
    split; [assumption|]. cbn [Klm.bump rkey ratt rloc]. split; [assumption|]. split; [|split; [|split]].
    - intros a' Ha'. assert (Ca : a' < ratt c \/ a' = ratt c) by lia. destruct Ca as [Ca|Ca].
      + apply G; assumption.
      + subst a'. exists o. split; assumption.
    - intros a l Ca Ha. cbn [Klm.bump rkey ratt rloc] in Ca, Ha |- *.
      assert (Cx : a < ratt c \/ a = ratt c) by lia. destruct Cx as [Cx|Cx].
      + eapply H3; eassumption.
      + subst a. exfalso. pose proof (cand_at_slot _ _ _ _ _ _ _ R Ca) as E. subst o.
        unfold Klm.rk_eqb in K. cbn in K. rewrite key_eqb_refl, Nat.eqb_refl in K by assumption. discriminate.
    - intros D a l Ca Ha. cbn [Klm.bump rkey ratt rloc] in Ca, Ha |- *. eapply H4; [assumption|exact Ca|lia].
    - unfold M in *. lia.
  Qed.

  (** ---- Inv2 is preserved ---- *)
  Lemma put_loop_inv2 lo hi fuel : forall it t c disp t' o,
    LoopInv lo hi t c disp -> put_loop lo hi fuel it t c = (t', o) -> Inv2 lo hi t'.
  Proof.
    induction fuel as [|f IH]; intros it t c disp t' o HL H; cbn [Klm.put_loop] in H.
    - inversion H; subst. apply HL.
    - destruct (read lo hi t (slot (rkey c) (ratt c))) as [q|] eqn:R.
      + destruct (rk_eqb q (rkey c) (ratt c)) eqn:K.
        * destruct (older (rloc q) (rloc c)) eqn:O; inversion H; subst; [|apply HL].
          eapply place_inv2; [exact HL|reflexivity|]. intros o' Ho'. rewrite R in Ho'. inversion Ho'; subst; assumption.
        * destruct (older (rloc q) (rloc c)) eqn:O.
          -- destruct (maxGet <=? ratt (bump q)) eqn:HG.
             ++ inversion H; subst. eapply place_inv2; [exact HL|reflexivity|].
                intros o' Ho'. rewrite R in Ho'. inversion Ho'; subst; assumption.
             ++ eapply IH; [|exact H]. eapply loop_swap; eassumption.
          -- destruct (maxGet <=? ratt (bump c)) eqn:HG.
             ++ inversion H; subst. apply HL.
             ++ eapply IH; [|exact H]. eapply loop_move; eassumption.
      + inversion H; subst. eapply place_inv2; [exact HL|reflexivity|]. intros o' Ho'. rewrite R in Ho'. discriminate.
  Qed.

  Lemma loopinv_start lo hi t k l :
    Inv2 lo hi t -> valid lo hi l = true -> LoopInv lo hi t (mk k 0 l) false.
  Proof.
    intros HI V. split; [assumption|]. cbn [rkey ratt rloc]. split; [assumption|]. split; [|split; [|split]].
    - intros a' Ha'. lia.
    - intros a l' _ Ha. cbn in Ha. lia.
    - discriminate.
    - unfold M. lia.
  Qed.

  Lemma put_inv2 lo hi t k l :
    Inv2 lo hi t -> valid lo hi l = true -> Inv2 lo hi (fst (put lo hi t k l)).
  Proof.
    intros HI V. unfold Klm.put.
    destruct (put_loop lo hi maxPut 1 t (mk k 0 l)) as [t' o] eqn:E. cbn.
    eapply put_loop_inv2; [|exact E]. apply loopinv_start; assumption.
  Qed.

  Lemma inv2_empty lo hi : Inv2 lo hi (repeat None n).
  Proof.
    assert (E : forall i, nth i (repeat (@None rec) n) None = None).
    { intros i. generalize n. clear. intros m. revert i. induction m; intros [|i]; cbn; auto. }
    split; [apply inv_empty|]. split.
    - intros k a1 l1 a2 l2 C1 _ _. unfold cand in C1. apply read_some in C1. rewrite E in C1. destruct C1; discriminate.
    - intros i r H. rewrite E in H. discriminate.
  Qed.

  Lemma release_inv2 lo hi t : Inv2 lo hi t -> Inv2 (N.succ lo) hi t.
  Proof.
    intros [HI [HS HA]]. split; [apply release_inv; assumption|]. split; [|assumption].
    assert (W : forall k a l, cand (N.succ lo) hi t k a l -> cand lo hi t k a l).
    { unfold cand. intros k a l C. apply read_some in C. destruct C as [Cn Cv]. apply read_some. split; [assumption|].
      clear - Cv. cbn in *. ord. }
    intros k a1 l1 a2 l2 C1 C2 Hlt. eapply HS; eauto.
  Qed.

  Lemma grow_inv2 lo hi t : Inv2 lo hi t -> Inv2 lo (N.succ hi) t.
  Proof.
    intros [HI [HS HA]]. split; [apply grow_inv; assumption|]. split; [|assumption].
    destruct HI as [_ [_ [Hb _]]].
    intros k a1 l1 a2 l2 C1 C2 Hlt. unfold cand in *. rewrite read_grow in C1, C2 by assumption.
    eapply HS; eauto.
  Qed.

  (** ---- a lookup is the maximal candidate ---- *)
  Definition MaxCand lo hi (t : table) (k : key) (l : loc) : Prop :=
    (exists a, cand lo hi t k a l) /\ forall a' l', cand lo hi t k a' l' -> older l l' = false.

  Lemma get_loop_first lo hi t k : forall fuel a0 l att,
    get_loop lo hi t k fuel a0 = GFound l att ->
    exists a, a0 <= a /\ cand lo hi t k a l /\ forall a' l', a0 <= a' -> a' < a -> ~ cand lo hi t k a' l'.
  Proof.
    induction fuel as [|f IH]; intros a0 l att H; cbn [Klm.get_loop] in H;
      destruct (read lo hi t (slot k a0)) as [r|] eqn:R; try discriminate;
      destruct (rk_eqb r k a0) eqn:K; try discriminate.
    - inversion H; subst. apply rk_eqb_spec in K; [|assumption]. destruct K as [K1 K2].
      exists a0. split; [lia|]. split; [|intros; lia]. unfold cand. rewrite R. f_equal.
      rewrite (rec_eta r). subst. reflexivity.
    - inversion H; subst. apply rk_eqb_spec in K; [|assumption]. destruct K as [K1 K2].
      exists a0. split; [lia|]. split; [|intros; lia]. unfold cand. rewrite R. f_equal.
      rewrite (rec_eta r). subst. reflexivity.
    - destruct (IH _ _ _ H) as [a [Ha [Ca Hn]]]. exists a. split; [lia|]. split; [assumption|].
      intros a' l' H1 H2 C. assert (Cx : a' = a0 \/ S a0 <= a') by lia. destruct Cx as [Cx|Cx].
      + subst a'. pose proof (cand_at_slot _ _ _ _ _ _ _ R C) as E. subst r.
        unfold Klm.rk_eqb in K. cbn in K. rewrite key_eqb_refl, Nat.eqb_refl in K by assumption. discriminate.
      + eapply Hn; eauto.
  Qed.

  Lemma get_loop_reaches lo hi t k a l :
    Inv lo hi t -> cand lo hi t k a l ->
    forall d fuel a0, a0 + d = a -> d <= fuel -> exists l1, lookup_of (get_loop lo hi t k fuel a0) = Some l1.
  Proof.
    intros [_ [_ [_ Ho]]] C. induction d as [|d IH]; intros fuel a0 E Hf.
    - assert (a0 = a) by lia. subst a0. destruct fuel; cbn [Klm.get_loop]; rewrite C;
        unfold Klm.rk_eqb; cbn; rewrite key_eqb_refl, Nat.eqb_refl by assumption; cbn; eauto.
    - destruct (Ho _ _ C a0) as [r' [Hr' _]]; [cbn; lia|]. cbn in Hr'.
      destruct fuel as [|f]; [lia|]. cbn [Klm.get_loop]. rewrite Hr'.
      destruct (rk_eqb r' k a0); [cbn; eauto|]. apply IH; lia.
  Qed.

  Lemma cand_att lo hi t k a l : AttBound t -> cand lo hi t k a l -> a < M.
  Proof. intros HA C. apply read_some in C. destruct C as [Cn _]. apply (HA _ _ Cn). Qed.

  Lemma tlookup_of_cand lo hi t k a l :
    Inv2 lo hi t -> cand lo hi t k a l -> exists l1, tlookup lo hi t k = Some l1.
  Proof.
    intros [HI [_ HA]] C. unfold tlookup.
    eapply (get_loop_reaches lo hi t k a l HI C a); [lia|].
    pose proof (cand_att _ _ _ _ _ _ HA C). unfold M in *. lia.
  Qed.

  Lemma tlookup_max lo hi t k l : Inv2 lo hi t -> (tlookup lo hi t k = Some l <-> MaxCand lo hi t k l).
  Proof.
    intros HI2. pose proof HI2 as [HI [HS HA]]. split.
    - unfold tlookup. intros H.
      destruct (get_loop lo hi t k (pred maxGet) 0) as [l0 att| |] eqn:G; cbn in H; try discriminate.
      inversion H; subst l0. apply get_loop_first in G. destruct G as [a [_ [Ca Hn]]].
      split; [exists a; assumption|]. intros a' l' C'.
      destruct (Nat.lt_trichotomy a' a) as [Hc|[Hc|Hc]].
      + exfalso. eapply Hn; [| |exact C']; lia.
      + subst a'. unfold cand in *. rewrite Ca in C'. inversion C'. apply older_irrefl.
      + apply older_asym. eapply HS; eassumption.
    - intros [[a Ca] Hmax].
      destruct (tlookup_of_cand _ _ _ _ _ _ HI2 Ca) as [l1 H1]. rewrite H1. f_equal.
      unfold tlookup in H1.
      destruct (get_loop lo hi t k (pred maxGet) 0) as [l0 att| |] eqn:G; cbn in H1; try discriminate.
      inversion H1; subst l0. apply get_loop_first in G. destruct G as [a1 [_ [C1 Hn]]].
      destruct (Nat.lt_trichotomy a1 a) as [Hc|[Hc|Hc]].
      + pose proof (HS _ _ _ _ _ C1 Ca Hc) as O. specialize (Hmax _ _ C1). congruence.
      + subst a1. unfold cand in *. rewrite Ca in C1. inversion C1. reflexivity.
      + exfalso. eapply Hn; [| |exact Ca]; lia.
  Qed.

  Lemma tlookup_ext lo hi t t' k k' :
    Inv2 lo hi t -> Inv2 lo hi t' ->
    (forall l, MaxCand lo hi t' k' l <-> MaxCand lo hi t k l) ->
    tlookup lo hi t' k' = tlookup lo hi t k.
  Proof.
    intros HI HI' E.
    destruct (tlookup lo hi t k) as [l|] eqn:L.
    - apply tlookup_max; [assumption|]. apply E. apply tlookup_max; assumption.
    - destruct (tlookup lo hi t' k') as [l'|] eqn:L'; [|reflexivity].
      apply tlookup_max in L'; [|assumption]. apply E in L'. apply tlookup_max in L'; [|assumption]. congruence.
  Qed.

  (** ---- candidates through the Put loop ---- *)
  Definition vcand lo hi (t : table) (c : rec) (k : key) (l : loc) : Prop :=
    (exists a, cand lo hi t k a l) \/ (rkey c = k /\ rloc c = l).
  Definition VMax lo hi (t : table) (c : rec) (k : key) (l : loc) : Prop :=
    vcand lo hi t c k l /\ forall l', vcand lo hi t c k l' -> older l l' = false.

  (** exchanging the carried record with the record at its slot keeps the
      candidate sets of every key *)
  Lemma vcand_swap lo hi t c o k l :
    Inv lo hi t -> valid lo hi (rloc c) = true ->
    read lo hi t (slot (rkey c) (ratt c)) = Some o ->
    (vcand lo hi (upd t (slot (rkey c) (ratt c)) (Some c)) (bump o) k l <-> vcand lo hi t c k l).
  Proof.
    intros [Hl [Hp _]] V R. set (s := slot (rkey c) (ratt c)) in *.
    assert (Hs : s < length t) by (rewrite Hl; apply slot_lt).
    assert (Co : cand lo hi t (rkey o) (ratt o) (rloc o)) by (eapply cand_of_read; eassumption).
    unfold vcand. cbn [Klm.bump rkey rloc]. split.
    - intros [[a Ca]|[E1 E2]].
      + apply cand_upd in Ca; [|assumption|assumption]. destruct Ca as [[E Q]|[E Ca]].
        * right. subst c. cbn. auto.
        * left. exists a. assumption.
      + left. exists (ratt o). subst k l. assumption.
    - intros [[a Ca]|[E1 E2]].
      + destruct (Nat.eq_dec (slot k a) s) as [E|E].
        * right. rewrite <- E in R. pose proof (cand_at_slot _ _ _ _ _ _ _ R Ca) as Q.
          subst o. cbn. auto.
        * left. exists a. apply cand_upd; [assumption|assumption|]. right. split; assumption.
      + left. exists (ratt c). apply cand_upd; [assumption|assumption|]. left. split.
        * subst k. reflexivity.
        * subst k l. apply rec_eta.
  Qed.

  Lemma vmax_ext lo hi t c t' c' k :
    (forall l, vcand lo hi t' c' k l <-> vcand lo hi t c k l) ->
    forall l, VMax lo hi t' c' k l <-> VMax lo hi t c k l.
  Proof.
    intros E l. unfold VMax. split; intros [H1 H2]; (split; [apply E; assumption|]); intros l' H'; apply H2; apply E; assumption.
  Qed.

  (** candidates after placing the carried record over nothing / an older record *)
  Lemma cand_place lo hi t c k l :
    Inv lo hi t -> valid lo hi (rloc c) = true ->
    ((exists a, cand lo hi (upd t (slot (rkey c) (ratt c)) (Some c)) k a l) <->
     (rkey c = k /\ rloc c = l) \/
     (exists a, cand lo hi t k a l /\ slot k a <> slot (rkey c) (ratt c))).
  Proof.
    intros [Hl _] V. set (s := slot (rkey c) (ratt c)) in *.
    assert (Hs : s < length t) by (rewrite Hl; apply slot_lt).
    split.
    - intros [a Ca]. apply cand_upd in Ca; [|assumption|assumption]. destruct Ca as [[E Q]|[E Ca]].
      + left. subst c. cbn. auto.
      + right. exists a. split; assumption.
    - intros [[E1 E2]|[a [Ca E]]].
      + exists (ratt c). apply cand_upd; [assumption|assumption|]. left. subst k l. split; [reflexivity|apply rec_eta].
      + exists a. apply cand_upd; [assumption|assumption|]. right. split; assumption.
  Qed.

  (** Main loop lemma: for every key that is not the reported victim (and, while
      the new record itself is carried, not its key) the maximal candidate after
      the Put is the maximum over table candidates and carried record before. *)
  Lemma put_loop_frame lo hi fuel : forall it t c disp t' o k',
    LoopInv lo hi t c disp -> put_loop lo hi fuel it t c = (t', o) ->
    (disp = false -> rkey c <> k') ->
    (forall d, discarded o = Some d -> rkey d <> k') ->
    forall l, MaxCand lo hi t' k' l <-> VMax lo hi t c k' l.
  Proof.
    induction fuel as [|f IH]; intros it t c disp t' o k' HL H Hd Hv; cbn [Klm.put_loop] in H.
    - inversion H; subst. specialize (Hv c eq_refl).
      intros l. unfold MaxCand, VMax, vcand. split.
      + intros [H1 H2]. split; [left; assumption|]. intros l' [[a' C']|[E _]]; [eauto|contradiction].
      + intros [[H1|[E _]] H2]; [|contradiction]. split; [assumption|]. intros a' l' C'. apply H2. left. eauto.
    - pose proof HL as [[HI [HS HA]] [V [G [H3 [H4 HM]]]]].
      pose proof HI as [Hl [Hp [Hb Ho]]].
      set (s := slot (rkey c) (ratt c)) in *.
      assert (Hs : s < length t) by (rewrite Hl; apply slot_lt).
      destruct (read lo hi t s) as [q|] eqn:R.
      + pose proof R as R'. apply read_some in R'. destruct R' as [Rn Rv].
        assert (Cq : cand lo hi t (rkey q) (ratt q) (rloc q)) by (eapply cand_of_read; eassumption).
        assert (Eq : slot (rkey q) (ratt q) = s) by (apply (Hp _ _ Rn)).
        destruct (rk_eqb q (rkey c) (ratt c)) eqn:K.
        * apply rk_eqb_spec in K; [|assumption]. destruct K as [K1 K2].
          destruct (older (rloc q) (rloc c)) eqn:O; inversion H; subst t' o; clear H.
          -- (* Updated: q (same key and attempt, older) is overwritten *)
             intros l. unfold MaxCand, VMax, vcand. split.
             ++ intros [[a Ca] Hmax]. split.
                ** apply cand_upd in Ca; [|assumption|assumption]. destruct Ca as [[E Q]|[E Ca]].
                   --- right. rewrite Q. cbn. auto.
                   --- left. eauto.
                ** intros l' [[a' C']|[E1 E2]].
                   --- destruct (Nat.eq_dec (slot k' a') s) as [E|E].
                       +++ (* l' is q's location: older than c, and c is a candidate now *)
                           rewrite <- E in R. pose proof (cand_at_slot _ _ _ _ _ _ _ R C') as Q.
                           assert (Cc : cand lo hi (upd t s (Some c)) k' (ratt c) (rloc c)).
                           { apply cand_upd; [assumption|assumption|]. left. subst q. cbn in *. subst k'.
                             split; [reflexivity|apply rec_eta]. }
                           specialize (Hmax _ _ Cc). subst q. cbn in O. clear - Hmax O. ord.
                       +++ apply (Hmax a'). apply cand_upd; [assumption|assumption|]. right. split; assumption.
                   --- apply (Hmax (ratt c)). apply cand_upd; [assumption|assumption|]. left.
                       subst k' l'. split; [reflexivity|apply rec_eta].
             ++ intros [Hin Hmax]. split.
                ** destruct Hin as [[a Ca]|[E1 E2]].
                   --- destruct (Nat.eq_dec (slot k' a) s) as [E|E].
                       +++ exfalso. rewrite <- E in R. pose proof (cand_at_slot _ _ _ _ _ _ _ R Ca) as Q.
                           subst q. cbn in *. subst k'.
                           assert (Hx : older l (rloc c) = false) by (apply Hmax; right; auto).
                           clear - Hx O. ord.
                       +++ exists a. apply cand_upd; [assumption|assumption|]. right. split; assumption.
                   --- exists (ratt c). apply cand_upd; [assumption|assumption|]. left.
                       subst k' l. split; [reflexivity|apply rec_eta].
                ** intros a' l' C'. apply cand_upd in C'; [|assumption|assumption]. destruct C' as [[E Q]|[E C']].
                   --- apply Hmax. right. rewrite Q. cbn. auto.
                   --- apply Hmax. left. eauto.
          -- (* IgnoredOlder *)
             destruct (key_eqb (rkey c) k') eqn:Ek.
             ++ apply key_eqb_spec in Ek. destruct disp; [|exfalso; apply Hd; auto].
                exfalso. pose proof (H4 eq_refl) as H4'. unfold C4 in H4'.
                assert (Hx : older (rloc q) (rloc c) = true).
                { apply (H4' (ratt q)); [rewrite <- K1; exact Cq|lia]. }
                congruence.
             ++ assert (Nk : rkey c <> k') by (intros E; apply key_eqb_spec in E; congruence).
                intros l. unfold MaxCand, VMax, vcand. split.
                ** intros [H1 H2]. split; [left; assumption|]. intros l' [[a' C']|[E _]]; [eauto|contradiction].
                ** intros [[H1|[E _]] H2]; [|contradiction]. split; [assumption|]. intros a' l' C'. apply H2. left. eauto.
        * destruct (older (rloc q) (rloc c)) eqn:O.
          -- (* swap *)
             destruct (maxGet <=? ratt (bump q)) eqn:HG.
             ++ inversion H; subst t' o; clear H. specialize (Hv (bump q) eq_refl). cbn in Hv.
                intros l. unfold MaxCand, VMax.
                assert (E : forall l, (exists a, cand lo hi (upd t s (Some c)) k' a l) <-> vcand lo hi t c k' l).
                { intros l0. rewrite <- (vcand_swap lo hi t c q k' l0 HI V R). unfold vcand. cbn [Klm.bump rkey rloc].
                  split; [intros H; left; assumption|]. intros [H|[E _]]; [assumption|contradiction]. }
                split.
                ** intros [H1 H2]. split; [apply E; assumption|]. intros l' H'. apply E in H'. destruct H' as [a' C']. eauto.
                ** intros [H1 H2]. split; [apply E; assumption|]. intros a' l' C'. apply H2. apply E. eauto.
             ++ intros l. rewrite (IH _ _ _ true _ _ k' (loop_swap _ _ _ _ _ _ HL R K O HG) H); [|discriminate|assumption].
                apply vmax_ext. intros l0. apply vcand_swap; assumption.
          -- (* move on *)
             destruct (maxGet <=? ratt (bump c)) eqn:HG.
             ++ inversion H; subst t' o; clear H. specialize (Hv (bump c) eq_refl). cbn in Hv.
                intros l. unfold MaxCand, VMax, vcand. split.
                ** intros [H1 H2]. split; [left; assumption|]. intros l' [[a' C']|[E _]]; [eauto|contradiction].
                ** intros [[H1|[E _]] H2]; [|contradiction]. split; [assumption|]. intros a' l' C'. apply H2. left. eauto.
             ++ intros l. rewrite (IH _ _ _ disp _ _ k' (loop_move _ _ _ _ _ _ HL R K O HG) H); [|assumption|assumption].
                apply vmax_ext. intros l0. unfold vcand. cbn [Klm.bump rkey rloc]. reflexivity.
      + (* Inserted into a free slot *)
        inversion H; subst t' o; clear H.
        assert (E : forall l, (exists a, cand lo hi (upd t s (Some c)) k' a l) <-> vcand lo hi t c k' l).
        { intros l0. pose proof (cand_place lo hi t c k' l0 HI V) as CP. fold s in CP. unfold vcand. split.
          - intros H. apply CP in H. destruct H as [H|[a [Ca _]]]; [right; assumption|left; eauto].
          - intros H. apply CP. destruct H as [[a Ca]|H]; [|left; assumption]. right. exists a. split; [assumption|].
            intros E. unfold cand in Ca. rewrite E in Ca. rewrite R in Ca. discriminate. }
        intros l. unfold MaxCand, VMax. split.
        * intros [H1 H2]. split; [apply E; assumption|]. intros l' H'. apply E in H'. destruct H' as [a' C']. eauto.
        * intros [H1 H2]. split; [apply E; assumption|]. intros a' l' C'. apply H2. apply E. eauto.
  Qed.

  Lemma vmax_other lo hi t c k l : rkey c <> k -> (VMax lo hi t c k l <-> MaxCand lo hi t k l).
  Proof.
    intros Nk. unfold MaxCand, VMax, vcand. split.
    - intros [[H1|[E _]] H2]; [|contradiction]. split; [assumption|]. intros a' l' C'. apply H2. left. eauto.
    - intros [H1 H2]. split; [left; assumption|]. intros l' [[a' C']|[E _]]; [eauto|contradiction].
  Qed.

  (** nothing appears: every candidate after the Put was a candidate or is the carried record *)
  Lemma put_loop_subset lo hi fuel : forall it t c disp t' o k' a l,
    LoopInv lo hi t c disp -> put_loop lo hi fuel it t c = (t', o) ->
    cand lo hi t' k' a l -> vcand lo hi t c k' l.
  Proof.
    induction fuel as [|f IH]; intros it t c disp t' o k' a l HL H C; cbn [Klm.put_loop] in H.
    - inversion H; subst. left; eauto.
    - pose proof HL as [[HI [HS HA]] [V [G [H3 [H4 HM]]]]].
      pose proof HI as [Hl [Hp [Hb Ho]]].
      set (s := slot (rkey c) (ratt c)) in *.
      assert (Hs : s < length t) by (rewrite Hl; apply slot_lt).
      assert (PL : cand lo hi (upd t s (Some c)) k' a l -> vcand lo hi t c k' l).
      { intros C1. apply cand_upd in C1; [|assumption|assumption]. destruct C1 as [[E Q]|[E C1]].
        - right. rewrite Q. cbn. auto.
        - left. eauto. }
      destruct (read lo hi t s) as [q|] eqn:R.
      + destruct (rk_eqb q (rkey c) (ratt c)) eqn:K.
        * destruct (older (rloc q) (rloc c)) eqn:O; inversion H; subst t' o; [auto|left; eauto].
        * destruct (older (rloc q) (rloc c)) eqn:O.
          -- destruct (maxGet <=? ratt (bump q)) eqn:HG.
             ++ inversion H; subst t' o. auto.
             ++ apply (vcand_swap lo hi t c q k' l HI V R).
                eapply IH; [|exact H|exact C]. eapply loop_swap; eassumption.
          -- destruct (maxGet <=? ratt (bump c)) eqn:HG.
             ++ inversion H; subst t' o. left; eauto.
             ++ assert (X : vcand lo hi t (bump c) k' l).
                { eapply IH; [|exact H|exact C]. eapply loop_move; eassumption. }
                exact X.
      + inversion H; subst t' o. auto.
  Qed.

  Definition newest (p : option loc) (l : loc) : loc :=
    match p with Some l0 => if older l0 l then l else l0 | None => l end.

  Definition NoCandBefore lo hi (t : table) (c : rec) : Prop :=
    forall a l', a < ratt c -> ~ cand lo hi t (rkey c) a l'.

  (** the key being stored, while its own record is carried *)
  Lemma put_loop_self lo hi fuel : forall it t c t' o,
    LoopInv lo hi t c false -> NoCandBefore lo hi t c ->
    put_loop lo hi fuel it t c = (t', o) ->
    (forall d, discarded o = Some d -> rkey d <> rkey c) ->
    tlookup lo hi t' (rkey c) = Some (newest (tlookup lo hi t (rkey c)) (rloc c)).
  Proof.
    induction fuel as [|f IH]; intros it t c t' o HL HN H Hv; cbn [Klm.put_loop] in H.
    - inversion H; subst. exfalso. apply (Hv c eq_refl). reflexivity.
    - pose proof HL as [HI2 [V [G [H3 [H4 HM]]]]].
      pose proof HI2 as [HI [HS HA]].
      pose proof HI as [Hl [Hp [Hb Ho]]].
      set (k := rkey c) in *. set (s := slot k (ratt c)) in *.
      assert (Hs : s < length t) by (rewrite Hl; apply slot_lt).
      assert (Cc : cand lo hi (upd t s (Some c)) k (ratt c) (rloc c)).
      { apply cand_upd; [assumption|assumption|]. left. split; [reflexivity|apply rec_eta]. }
      destruct (read lo hi t s) as [q|] eqn:R.
      + pose proof R as R'. apply read_some in R'. destruct R' as [Rn Rv].
        assert (Cq : cand lo hi t (rkey q) (ratt q) (rloc q)) by (eapply cand_of_read; eassumption).
        (* candidates of k further along are not newer than q *)
        assert (Far : forall a' l', cand lo hi t k a' l' -> ratt c < a' -> older (rloc q) l' = false).
        { intros a' l' C' Ha'. destruct (Ho _ _ C' (ratt c)) as [r' [Hr' Hold]]; [cbn; lia|]. cbn in Hr', Hold.
          fold s in Hr'. rewrite R in Hr'. inversion Hr'; subst r'. assumption. }
        destruct (rk_eqb q k (ratt c)) eqn:K.
        * apply rk_eqb_spec in K; [|assumption]. destruct K as [K1 K2].
          rewrite K1, K2 in Cq.
          assert (Lq : tlookup lo hi t k = Some (rloc q)).
          { apply tlookup_max; [assumption|]. split; [eauto|]. intros a' l' C'.
            destruct (Nat.lt_trichotomy a' (ratt c)) as [Hc|[Hc|Hc]].
            - exfalso. eapply HN; eassumption.
            - subst a'. unfold cand in *. rewrite Cq in C'. inversion C'. apply older_irrefl.
            - apply older_asym. eapply HS; eassumption. }
          rewrite Lq. cbn [newest].
          destruct (older (rloc q) (rloc c)) eqn:O; inversion H; subst t' o; clear H; [|assumption].
          apply tlookup_max.
          { eapply place_inv2; [exact HL|reflexivity|]. intros o' Ho'. fold k s in Ho'. rewrite R in Ho'. inversion Ho'; subst; assumption. }
          split; [eauto|]. intros a' l' C'. apply cand_upd in C'; [|assumption|assumption].
          destruct C' as [[E Q]|[E C']].
          -- inversion Q. apply older_irrefl.
          -- destruct (Nat.lt_trichotomy a' (ratt c)) as [Hc|[Hc|Hc]].
             ++ exfalso. eapply HN; eassumption.
             ++ subst a'. contradiction.
             ++ specialize (Far _ _ C' Hc). clear - Far O. ord.
        * (* all candidates of k in t are strictly older than c when q is *)
          assert (NoAt : forall l', ~ cand lo hi t k (ratt c) l').
          { intros l' C'. pose proof (cand_at_slot _ _ _ _ _ _ _ R C') as E. subst q.
            unfold Klm.rk_eqb in K. cbn in K. rewrite key_eqb_refl, Nat.eqb_refl in K by assumption. discriminate. }
          destruct (older (rloc q) (rloc c)) eqn:O.
          -- assert (AllOlder : forall a' l', cand lo hi t k a' l' -> older l' (rloc c) = true).
             { intros a' l' C'. destruct (Nat.lt_trichotomy a' (ratt c)) as [Hc|[Hc|Hc]].
               - exfalso. eapply HN; eassumption.
               - subst a'. exfalso. eapply NoAt; eassumption.
               - specialize (Far _ _ C' Hc). clear - Far O. ord. }
             assert (Nw : newest (tlookup lo hi t k) (rloc c) = rloc c).
             { destruct (tlookup lo hi t k) as [l0|] eqn:L0; [|reflexivity]. cbn.
               apply tlookup_max in L0; [|assumption]. destruct L0 as [[a0 C0] _].
               rewrite (AllOlder _ _ C0). reflexivity. }
             rewrite Nw.
             destruct (maxGet <=? ratt (bump q)) eqn:HG.
             ++ inversion H; subst t' o; clear H. apply tlookup_max.
                { eapply place_inv2; [exact HL|reflexivity|]. intros o' Ho'. fold k s in Ho'. rewrite R in Ho'. inversion Ho'; subst; assumption. }
                split; [eauto|]. intros a' l' C'. apply cand_upd in C'; [|assumption|assumption].
                destruct C' as [[E Q]|[E C']].
                ** inversion Q. apply older_irrefl.
                ** apply older_asym. eapply AllOlder; eassumption.
             ++ assert (HL1 : LoopInv lo hi (upd t s (Some c)) (bump q) true) by (eapply loop_swap; eassumption).
                apply tlookup_max; [eapply put_loop_inv2; [exact HL1|exact H]|].
                apply (put_loop_frame lo hi f _ _ _ true _ _ k HL1 H); [discriminate|assumption|].
                apply (vmax_ext lo hi t c _ _ k (fun l0 => vcand_swap lo hi t c q k l0 HI V R)).
                split; [right; auto|]. intros l' [[a' C']|[_ E]].
                ** apply older_asym. eapply AllOlder; eassumption.
                ** subst l'. apply older_irrefl.
          -- destruct (maxGet <=? ratt (bump c)) eqn:HG.
             ++ inversion H; subst t' o. exfalso. apply (Hv (bump c) eq_refl). reflexivity.
             ++ assert (HL1 : LoopInv lo hi t (bump c) false) by (eapply loop_move; eassumption).
                change (tlookup lo hi t' (rkey (bump c)) = Some (newest (tlookup lo hi t (rkey (bump c))) (rloc (bump c)))).
                eapply IH; [exact HL1| |exact H|exact Hv].
                intros a l' Ha C'. cbn [Klm.bump rkey ratt] in Ha, C'. fold k in C'.
                assert (Cx : a < ratt c \/ a = ratt c) by lia. destruct Cx as [Cx|Cx].
                ** eapply HN; eassumption.
                ** subst a. eapply NoAt; eassumption.
      + (* free slot: k had no live record at all *)
        inversion H; subst t' o; clear H.
        assert (NoC : forall a' l', ~ cand lo hi t k a' l').
        { intros a' l' C'. destruct (Nat.lt_trichotomy a' (ratt c)) as [Hc|[Hc|Hc]].
          - eapply HN; eassumption.
          - subst a'. unfold cand in C'. fold s in C'. rewrite R in C'. discriminate.
          - destruct (Ho _ _ C' (ratt c)) as [r' [Hr' _]]; [cbn; lia|]. cbn in Hr'. fold s in Hr'. rewrite R in Hr'. discriminate. }
        assert (L0 : tlookup lo hi t k = None).
        { destruct (tlookup lo hi t k) as [l0|] eqn:L0; [|reflexivity].
          apply tlookup_max in L0; [|assumption]. destruct L0 as [[a0 C0] _]. exfalso. eapply NoC; eassumption. }
        rewrite L0. cbn [newest]. apply tlookup_max.
        { eapply place_inv2; [exact HL|reflexivity|]. intros o' Ho'. fold k s in Ho'. rewrite R in Ho'. discriminate. }
        split; [eauto|]. intros a' l' C'. apply cand_upd in C'; [|assumption|assumption].
        destruct C' as [[E Q]|[E C']].
        * inversion Q. apply older_irrefl.
        * exfalso. eapply NoC; eassumption.
  Qed.

  (** ---- table-level theorems ---- *)
  Theorem put_frame_tbl lo hi t k l t' o k' :
    Inv2 lo hi t -> valid lo hi l = true -> put lo hi t k l = (t', o) ->
    k' <> k -> (forall d, discarded o = Some d -> rkey d <> k') ->
    tlookup lo hi t' k' = tlookup lo hi t k'.
  Proof.
    intros HI V H Nk Hv. unfold Klm.put in H.
    pose proof (loopinv_start lo hi t k l HI V) as HL.
    apply tlookup_ext; [assumption|eapply put_loop_inv2; eassumption|].
    intros x. rewrite (put_loop_frame lo hi _ _ _ _ false _ _ k' HL H); [|cbn; congruence|assumption].
    apply vmax_other. cbn. congruence.
  Qed.

  Theorem put_self_tbl lo hi t k l t' o :
    Inv2 lo hi t -> valid lo hi l = true -> put lo hi t k l = (t', o) ->
    (forall d, discarded o = Some d -> rkey d <> k) ->
    tlookup lo hi t' k = Some (newest (tlookup lo hi t k) l).
  Proof.
    intros HI V H Hv. unfold Klm.put in H.
    pose proof (loopinv_start lo hi t k l HI V) as HL.
    change (tlookup lo hi t' (rkey (mk k 0 l)) = Some (newest (tlookup lo hi t (rkey (mk k 0 l))) (rloc (mk k 0 l)))).
    eapply put_loop_self; [exact HL| |exact H|exact Hv].
    intros a l' Ha. cbn in Ha. lia.
  Qed.

  (** whatever a Put leaves for a key is the new location (for the key stored)
      or what the key had before or something strictly older *)
  Theorem put_falls_back_tbl lo hi t k l t' o k' x :
    Inv2 lo hi t -> valid lo hi l = true -> put lo hi t k l = (t', o) ->
    tlookup lo hi t' k' = Some x ->
    (k' = k /\ x = l) \/
    exists prev, tlookup lo hi t k' = Some prev /\ (x = prev \/ older x prev = true).
  Proof.
    intros HI V H L. unfold Klm.put in H.
    pose proof (loopinv_start lo hi t k l HI V) as HL.
    assert (HI' : Inv2 lo hi t') by (eapply put_loop_inv2; eassumption).
    apply tlookup_max in L; [|assumption]. destruct L as [[a Ca] _].
    pose proof (put_loop_subset lo hi _ _ _ _ _ _ _ _ _ _ HL H Ca) as VC.
    destruct VC as [[a0 C0]|[E1 E2]]; [|left; cbn in *; auto].
    right. destruct (tlookup_of_cand _ _ _ _ _ _ HI C0) as [prev Lp]. exists prev. split; [assumption|].
    apply tlookup_max in Lp; [|assumption]. destruct Lp as [[a1 C1] Hmax].
    destruct HI as [_ [HS _]].
    destruct (Nat.lt_trichotomy a0 a1) as [Hc|[Hc|Hc]].
    - pose proof (HS _ _ _ _ _ C0 C1 Hc) as O. specialize (Hmax _ _ C0). congruence.
    - subst a1. unfold cand in *. rewrite C0 in C1. inversion C1. left; reflexivity.
    - right. eapply HS; eassumption.
  Qed.

  (** ---- reachable states ---- *)
  Definition InvS2 (s : klm) : Prop := Inv2 (lo s) (hi s) (tbl s).

  Lemma step_inv2 s o s' : InvS2 s -> step s o = Some s' -> InvS2 s'.
  Proof.
    unfold InvS2. intros HI H. destruct o as [k l|k| |]; cbn in H.
    - destruct (valid (lo s) (hi s) l) eqn:V; [|discriminate]. inversion H; subst; clear H.
      unfold Klm.klm_put. pose proof (put_inv2 (lo s) (hi s) (tbl s) k l HI V) as P.
      destruct (put (lo s) (hi s) (tbl s) k l) as [t' o]. cbn in *. assumption.
    - inversion H; subst; assumption.
    - destruct (lo s <? hi s)%N; [|discriminate]. inversion H; subst. cbn. apply release_inv2; assumption.
    - inversion H; subst. cbn. apply grow_inv2; assumption.
  Qed.

  Lemma run_inv2 h : forall s s', InvS2 s -> run s h = Some s' -> InvS2 s'.
  Proof.
    induction h as [|o h IH]; intros s s' HI H; cbn in H.
    - inversion H; subst; assumption.
    - destruct (step s o) as [s1|] eqn:E; [|discriminate].
      eapply IH; [|exact H]. eapply step_inv2; eassumption.
  Qed.

  Notation Reachable := (Reachable key key_eqb n slot maxGet maxPut).

  Lemma reachable_inv2 s : Reachable s -> InvS2 s.
  Proof.
    intros [h0 [h H]]. eapply run_inv2; [|exact H]. unfold InvS2. cbn. apply inv2_empty.
  Qed.

  Theorem strict_reachable_thm s : Reachable s -> Strict (lo s) (hi s) (tbl s).
  Proof. intros H. apply reachable_inv2 in H. apply H. Qed.

  Theorem put_frame_thm : forall s k l s' o k',
    Reachable s -> valid (lo s) (hi s) l = true -> klm_put s k l = (s', o) ->
    k' <> k -> (forall d, discarded o = Some d -> rkey d <> k') ->
    lookup s' k' = lookup s k'.
  Proof.
    intros s k l s' o k' HR V H Nk Hv. apply reachable_inv2 in HR. unfold Klm.klm_put in H.
    destruct (put (lo s) (hi s) (tbl s) k l) as [t' o'] eqn:E. inversion H; subst s' o'; clear H.
    exact (put_frame_tbl _ _ _ _ _ _ _ _ HR V E Nk Hv).
  Qed.

  Theorem put_self_thm : forall s k l s' o,
    Reachable s -> valid (lo s) (hi s) l = true -> klm_put s k l = (s', o) ->
    (forall d, discarded o = Some d -> rkey d <> k) ->
    lookup s' k = Some (newest (lookup s k) l).
  Proof.
    intros s k l s' o HR V H Hv. apply reachable_inv2 in HR. unfold Klm.klm_put in H.
    destruct (put (lo s) (hi s) (tbl s) k l) as [t' o'] eqn:E. inversion H; subst s' o'; clear H.
    exact (put_self_tbl _ _ _ _ _ _ _ HR V E Hv).
  Qed.

  Theorem put_falls_back_thm : forall s k l s' o k' x,
    Reachable s -> valid (lo s) (hi s) l = true -> klm_put s k l = (s', o) ->
    lookup s' k' = Some x ->
    (k' = k /\ x = l) \/
    exists prev, lookup s k' = Some prev /\ (x = prev \/ older x prev = true).
  Proof.
    intros s k l s' o k' x HR V H L. apply reachable_inv2 in HR. unfold Klm.klm_put in H.
    destruct (put (lo s) (hi s) (tbl s) k l) as [t' o'] eqn:E. inversion H; subst s' o'; clear H.
    exact (put_falls_back_tbl _ _ _ _ _ _ _ _ _ HR V E L).
  Qed.


  Lemma put_frame_tbl_state s k l s' o k' :
    InvS2 s -> valid (lo s) (hi s) l = true -> klm_put s k l = (s', o) ->
    k' <> k -> (forall d, discarded o = Some d -> rkey d <> k') ->
    lookup s' k' = lookup s k'.
  Proof.
    intros HR V H Nk Hv. unfold Klm.klm_put in H.
    destruct (put (lo s) (hi s) (tbl s) k l) as [t' o'] eqn:E. inversion H; subst s' o'; clear H.
    exact (put_frame_tbl _ _ _ _ _ _ _ _ HR V E Nk Hv).
  Qed.

  Lemma put_self_tbl_state s k l s' o :
    InvS2 s -> valid (lo s) (hi s) l = true -> klm_put s k l = (s', o) ->
    (forall d, discarded o = Some d -> rkey d <> k) ->
    lookup s' k = Some (newest (lookup s k) l).
  Proof.
    intros HR V H Hv. unfold Klm.klm_put in H.
    destruct (put (lo s) (hi s) (tbl s) k l) as [t' o'] eqn:E. inversion H; subst s' o'; clear H.
    exact (put_self_tbl _ _ _ _ _ _ _ HR V E Hv).
  Qed.

  (** ---- refinement: without reported discards the index is the map
      key -> newest valid stored location ---- *)
  Notation amap_put := (amap_put key key_eqb).
  Notation amap_run := (amap_run key key_eqb).
  Notation amap_get := (amap_get key).

  Definition ABound (hi : N) (m : amap key) : Prop := forall k l, m k = Some l -> (blk l < hi)%N.

  Lemma refine_run h : forall s0 s m0,
    InvS2 s0 -> InvS key n slot s0 -> ABound (hi s0) m0 ->
    (forall k, lookup s0 k = amap_get (lo s0) (hi s0) m0 k) ->
    run s0 h = Some s -> discards s0 h = [] ->
    forall k, lookup s k = amap_get (lo s) (hi s) (amap_run m0 h) k.
  Proof.
    induction h as [|o h IH]; intros s0 s m0 HI2 HI HB HR Hrun HD; cbn in Hrun.
    - inversion Hrun; subst. exact HR.
    - destruct (step s0 o) as [s1|] eqn:E; [|discriminate].
      assert (HI2' : InvS2 s1) by (eapply step_inv2; eassumption).
      assert (HI' : InvS key n slot s1) by (eapply step_inv; eassumption).
      cbn [Klm.discards] in HD. rewrite E in HD.
      destruct o as [k l|k| |]; cbn [Klm.amap_run]; cbn in E.
      + destruct (valid (lo s0) (hi s0) l) eqn:V; [|discriminate]. inversion E; subst s1; clear E.
        apply app_eq_nil in HD. destruct HD as [HD1 HD2].
        destruct (klm_put s0 k l) as [s1 o] eqn:P. cbn [fst snd] in *.
        assert (ND : forall d, discarded o = Some d -> False).
        { intros d Hd. rewrite Hd in HD1. discriminate. }
        assert (Ew : lo s1 = lo s0 /\ hi s1 = hi s0).
        { unfold Klm.klm_put in P. destruct (put (lo s0) (hi s0) (tbl s0) k l). inversion P; subst; cbn; auto. }
        destruct Ew as [Elo Ehi].
        apply (IH s1 s (amap_put m0 k l)); try assumption.
        * rewrite Ehi. intros k' x Hx. unfold Klm.amap_put in Hx.
          destruct (key_eqb k' k); [|eapply HB; eassumption].
          destruct (m0 k') as [l0|] eqn:M0.
          -- destruct (older l0 l); inversion Hx; subst; [clear - V; ord|eapply HB; eassumption].
          -- inversion Hx; subst. clear - V. ord.
        * intros k'. rewrite Elo, Ehi. unfold Klm.amap_get, Klm.amap_put.
          destruct (key_eqb k' k) eqn:Ek.
          -- apply key_eqb_spec in Ek. subst k'.
             rewrite (put_self_tbl_state s0 k l s1 o HI2 V P) by (intros d Hd; exfalso; eapply ND; eassumption).
             rewrite HR. unfold Klm.amap_get.
             destruct (m0 k) as [l0|] eqn:M0.
             ++ destruct (valid (lo s0) (hi s0) l0) eqn:V0; cbn [newest].
                ** destruct (older l0 l); [rewrite V|rewrite V0]; reflexivity.
                ** assert (O : older l0 l = true).
                   { specialize (HB _ _ M0). clear - HB V V0. ord. }
                   rewrite O, V. reflexivity.
             ++ cbn [newest]. rewrite V. reflexivity.
          -- assert (Nk : k' <> k) by (intros X; apply key_eqb_spec in X; congruence).
             rewrite (put_frame_tbl_state s0 k l s1 o k' HI2 V P Nk) by (intros d Hd; exfalso; eapply ND; eassumption).
             apply HR.
      + inversion E; subst s1. apply (IH s0 s m0); assumption.
      + destruct (lo s0 <? hi s0)%N; [|discriminate]. inversion E; subst s1; clear E.
        apply (IH (klm_release key s0) s m0); try assumption.
        intros k. change (lookup (klm_release key s0) k) with (tlookup (N.succ (lo s0)) (hi s0) (tbl s0) k).
        unfold tlookup. rewrite (get_loop_release key key_eqb key_eqb_spec n slot (lo s0) (hi s0) (tbl s0) k HI).
        fold (tlookup (lo s0) (hi s0) (tbl s0) k). change (tlookup (lo s0) (hi s0) (tbl s0) k) with (lookup s0 k).
        rewrite HR. cbn [lo hi Klm.klm_release]. unfold Klm.amap_get, keep_valid.
        destruct (m0 k) as [l0|]; [|reflexivity].
        destruct (valid (lo s0) (hi s0) l0) eqn:V0.
        * reflexivity.
        * replace (valid (N.succ (lo s0)) (hi s0) l0) with false; [reflexivity|]. symmetry. clear - V0. ord.
      + inversion E; subst s1; clear E.
        apply (IH (klm_grow key s0) s m0); try assumption.
        * cbn. intros k l Hm. specialize (HB _ _ Hm). lia.
        * intros k. destruct HI as [_ [_ [Hb _]]].
          change (lookup (klm_grow key s0) k) with (lookup_of (get_loop (lo s0) (N.succ (hi s0)) (tbl s0) k (pred maxGet) 0)).
          rewrite (get_loop_grow key key_eqb slot (lo s0) (hi s0) (tbl s0) k Hb).
          change (lookup_of (get_loop (lo s0) (hi s0) (tbl s0) k (pred maxGet) 0)) with (lookup s0 k).
          rewrite HR. cbn [lo hi Klm.klm_grow]. unfold Klm.amap_get.
          destruct (m0 k) as [l0|] eqn:M0; [|reflexivity]. specialize (HB _ _ M0).
          replace (valid (lo s0) (N.succ (hi s0)) l0) with (valid (lo s0) (hi s0) l0); [reflexivity|].
          unfold valid. f_equal. apply eq_true_iff_eq. rewrite !N.ltb_lt. lia.
  Qed.

  Theorem no_discard_newest_thm : forall h0 h s,
    run (klm_empty key n h0) h = Some s -> discards (klm_empty key n h0) h = [] ->
    forall k, lookup s k = amap_get (lo s) (hi s) (amap_run (amap_empty key) h) k.
  Proof.
    intros h0 h s Hrun HD. eapply (refine_run h (klm_empty key n h0) s (amap_empty key)); try assumption.
    - unfold InvS2. cbn. apply inv2_empty.
    - unfold InvS. cbn. apply inv_empty.
    - intros k l Hm. discriminate.
    - intros k. assert (HE : InvS2 (klm_empty key n h0)) by (unfold InvS2; cbn; apply inv2_empty).
      destruct (lookup (klm_empty key n h0) k) as [x|] eqn:L; [|reflexivity].
      exfalso. change (lookup (klm_empty key n h0) k) with (tlookup 0 h0 (repeat None n) k) in L.
      apply tlookup_max in L; [|exact HE]. destruct L as [[a Ca] _]. unfold cand in Ca. apply read_some in Ca.
      destruct Ca as [Cn _]. revert Cn. generalize (slot k a). generalize n. clear.
      intros m. induction m; intros [|i] Cn; cbn in Cn; try discriminate; eauto.
  Qed.
End Frame.
