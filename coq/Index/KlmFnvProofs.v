(** The real slot function satisfies the only hypothesis of the C06 theorems. *)
From Coq Require Import List NArith Arith Bool Lia.
From BBS Require Import Generated.Consts Index.Klm Index.KlmFnv.
(* -- (keeps lib/checklib.py's dependency scan from reading past the sentence) *)
Import ListNotations.

Lemma fnv_slot_lt (init : N) (n : nat) (k : bkey) (a : nat) : (0 < n)%nat -> (fnv_slot init n k a < n)%nat.
Proof.
  intros Hn. unfold fnv_slot.
  assert (H : (lrk_hash init k a mod N.of_nat n < N.of_nat n)%N) by (apply N.mod_lt; lia).
  lia.
Qed.

Lemma bkey_eqb_spec a : forall b, bkey_eqb a b = true <-> a = b.
Proof.
  induction a as [|x a IH]; intros [|y b]; cbn; split; intros H; try discriminate; try reflexivity.
  - apply andb_true_iff in H. destruct H as [H1 H2]. apply N.eqb_eq in H1. apply IH in H2. subst. reflexivity.
  - inversion H; subst. rewrite N.eqb_refl. cbn. apply IH. reflexivity.
Qed.
