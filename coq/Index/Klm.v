(** Model of pkg/blobstore/local/hashing_key_location_map.go over a
    LocationRecordArray (in_memory_location_record_array.go /
    block_device_backed_location_record_array.go), location.go and
    location_record_key.go.  Definitions only.

    Interface for the local-store models (C01, C04, C05, C08, C10):
      [loc], [older], [klm], [klm_empty], [klm_get], [klm_put], [klm_release],
      [klm_grow], [lookup] (= location returned by Get), the abstraction
      [amap]/[amap_put]/[amap_get] and (in KlmProofs) [no_discard_newest].

    Block numbers are ABSOLUTE (number of the block since the store was
    created); [lo] = number of blocks released so far, [hi] = number of blocks
    ever pushed.  The BlockReferenceResolver decides [lo <= blk < hi]. *)
From Coq Require Import List NArith Arith Bool Lia.
Import ListNotations.

(** location.go *)
Record loc := { blk : N; off : N; size : N }.

(** Location.IsOlder: strict, lexicographic on (block, offset); the size is
    not compared. *)
Definition older (a b : loc) : bool :=
  ((blk a <? blk b) || ((blk a =? blk b) && (off a <? off b)))%N.

Definition loc_eqb (a b : loc) : bool :=
  ((blk a =? blk b) && (off a =? off b) && (size a =? size b))%N.

(** What BlockReferenceToBlockIndex decides for a stored reference. *)
Definition valid (lo hi : N) (l : loc) : bool := ((lo <=? blk l) && (blk l <? hi))%N.

Fixpoint upd {A} (l : list A) (i : nat) (x : A) : list A :=
  match l, i with
  | [], _ => []
  | _ :: t, O => x :: t
  | h :: t, S j => h :: upd t j x
  end.

Section Klm.
  Variable key : Type.
  Variable key_eqb : key -> key -> bool.
  (** slot k a = LocationRecordKey{k, a}.Hash(init) % recordsCount; arbitrary here. *)
  Variable slot : key -> nat -> nat.
  Variable maxGet : nat.   (* maximumGetAttempts (uint32) *)
  Variable maxPut : nat.   (* maximumPutAttempts (int; <= 0 behaves as 0) *)

  (** LocationRecord: RecordKey{Key, Attempt} and Location. *)
  Record rec := { rkey : key; ratt : nat; rloc : loc }.
  Definition table := list (option rec).

  (** LocationRecordArray.Get: ErrLocationRecordInvalid = None. *)
  Definition read (lo hi : N) (t : table) (i : nat) : option rec :=
    match nth i t None with
    | Some r => if valid lo hi (rloc r) then Some r else None
    | None => None
    end.

  (** record.RecordKey == recordKey compares Key and Attempt. *)
  Definition rk_eqb (r : rec) (k : key) (a : nat) : bool := key_eqb (rkey r) k && Nat.eqb (ratt r) a.

  Definition bump (r : rec) : rec := {| rkey := rkey r; ratt := S (ratt r); rloc := rloc r |}.

  (** Get: result with the number of attempts observed by the histogram. *)
  Inductive gres :=
  | GFound (l : loc) (attempts : nat)
  | GNotFound (attempts : nat)
  | GTooMany.                       (* get_too_many_attempts_total, NotFound to the caller *)

  (** [fuel] = maxGet - 1 - a : the loop stops when a + 1 >= maxGet. *)
  Fixpoint get_loop (lo hi : N) (t : table) (k : key) (fuel a : nat) : gres :=
    match read lo hi t (slot k a) with
    | None => GNotFound (S a)
    | Some r =>
        if rk_eqb r k a then GFound (rloc r) (S a)
        else match fuel with
             | O => GTooMany
             | S f => get_loop lo hi t k f (S a)
             end
    end.
  Definition get (lo hi : N) (t : table) (k : key) : gres := get_loop lo hi t k (pred maxGet) 0.

  Definition lookup_of (g : gres) : option loc :=
    match g with GFound l _ => Some l | _ => None end.

  (** Put: outcomes = the Prometheus observations; [d] is the record dropped. *)
  Inductive pres :=
  | PInserted (it : nat)
  | PUpdated (it : nat)
  | PIgnoredOlder (it : nat)
  | PTooManyAttempts (it : nat) (d : rec)
  | PTooManyIterations (d : rec).

  Fixpoint put_loop (lo hi : N) (fuel it : nat) (t : table) (r : rec) : table * pres :=
    match fuel with
    | O => (t, PTooManyIterations r)
    | S f =>
        let s := slot (rkey r) (ratt r) in
        match read lo hi t s with
        | None => (upd t s (Some r), PInserted it)
        | Some o =>
            if rk_eqb o (rkey r) (ratt r) then
              if older (rloc o) (rloc r) then (upd t s (Some r), PUpdated it)
              else (t, PIgnoredOlder it)
            else
              let '(t', r') := if older (rloc o) (rloc r) then (upd t s (Some r), o) else (t, r) in
              let r'' := bump r' in
              if maxGet <=? ratt r'' then (t', PTooManyAttempts it r'')
              else put_loop lo hi f (S it) t' r''
        end
    end.
  Definition put (lo hi : N) (t : table) (k : key) (l : loc) : table * pres :=
    put_loop lo hi maxPut 1 t {| rkey := k; ratt := 0; rloc := l |}.

  Definition discarded (o : pres) : option rec :=
    match o with
    | PTooManyAttempts _ d => Some d
    | PTooManyIterations d => Some d
    | _ => None
    end.

  (** The index together with the block window. *)
  Record klm := { tbl : table; lo : N; hi : N }.
  Definition klm_empty (n : nat) (h : N) : klm := {| tbl := repeat None n; lo := 0; hi := h |}.
  Definition klm_get (s : klm) (k : key) : gres := get (lo s) (hi s) (tbl s) k.
  Definition lookup (s : klm) (k : key) : option loc := lookup_of (klm_get s k).
  Definition klm_put (s : klm) (k : key) (l : loc) : klm * pres :=
    let '(t', o) := put (lo s) (hi s) (tbl s) k l in
    ({| tbl := t'; lo := lo s; hi := hi s |}, o).
  (** BlockList.PopFront / PushBack as seen by the resolver. *)
  Definition klm_release (s : klm) : klm := {| tbl := tbl s; lo := N.succ (lo s); hi := hi s |}.
  Definition klm_grow (s : klm) : klm := {| tbl := tbl s; lo := lo s; hi := N.succ (hi s) |}.

  (** Histories.  A Put must name an existing block (BlockIndexToBlockReference:
      "It is invalid to call this function with a block index that is out of
      bounds"); PopFront needs a block. *)
  Inductive op :=
  | OPut (k : key) (l : loc)
  | OGet (k : key)
  | ORelease
  | OGrow.

  Definition step (s : klm) (o : op) : option klm :=
    match o with
    | OPut k l => if valid (lo s) (hi s) l then Some (fst (klm_put s k l)) else None
    | OGet _ => Some s
    | ORelease => if (lo s <? hi s)%N then Some (klm_release s) else None
    | OGrow => Some (klm_grow s)
    end.

  Fixpoint run (s : klm) (h : list op) : option klm :=
    match h with
    | [] => Some s
    | o :: h' => match step s o with Some s' => run s' h' | None => None end
    end.

  (** Discards reported while running a history (for [no_discard_newest]). *)
  Fixpoint discards (s : klm) (h : list op) : list rec :=
    match h with
    | [] => []
    | o :: h' =>
        match step s o with
        | None => []
        | Some s' =>
            (match o with
             | OPut k l => match discarded (snd (klm_put s k l)) with Some d => [d] | None => [] end
             | _ => []
             end) ++ discards s' h'
        end
    end.

  (** Abstraction: a map key -> option loc holding the newest location stored
      (ties keep the earlier one, as IsOlder is strict); a lookup filters by
      validity. *)
  Definition amap := key -> option loc.
  Definition amap_empty : amap := fun _ => None.
  Definition amap_put (m : amap) (k : key) (l : loc) : amap :=
    fun k' => if key_eqb k' k
              then match m k' with
                   | Some l0 => if older l0 l then Some l else Some l0
                   | None => Some l
                   end
              else m k'.
  Definition amap_get (lo hi : N) (m : amap) (k : key) : option loc :=
    match m k with Some l => if valid lo hi l then Some l else None | None => None end.
  Fixpoint amap_run (m : amap) (h : list op) : amap :=
    match h with
    | [] => m
    | OPut k l :: h' => amap_run (amap_put m k l) h'
    | _ :: h' => amap_run m h'
    end.
End Klm.

Arguments rkey {key}. Arguments ratt {key}. Arguments rloc {key}.
Arguments tbl {key}. Arguments lo {key}. Arguments hi {key}.
Arguments discarded {key}.
Arguments OPut {key}. Arguments OGet {key}. Arguments ORelease {key}. Arguments OGrow {key}.
