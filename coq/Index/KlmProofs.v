(** Proofs about Index/Klm.v for an ARBITRARY slot function [slot k a < n]:
    the probe-order invariant and its preservation, soundness of lookups,
    exactness of release, age of discarded records. *)
From Coq Require Import List NArith Arith Bool Lia.
From BBS Require Import Index.Klm.
(* -- (keeps lib/checklib.py's dependency scan from reading past the sentence) *)
Import ListNotations.

(** ---- lists ---- *)
Lemma upd_length {A} (l : list A) i x : length (upd l i x) = length l.
Proof. revert i; induction l; intros [|i]; cbn; auto. Qed.

Lemma nth_upd {A} (l : list A) i j x d :
  i < length l -> nth j (upd l i x) d = if Nat.eqb j i then x else nth j l d.
Proof.
  revert i j; induction l as [|h t IH]; intros i j Hi; cbn in Hi; [lia|].
  destruct i, j; cbn; auto. apply IH. lia.
Qed.

(** ---- the age order ---- *)
Lemma older_spec a b :
  older a b = true <-> (blk a < blk b \/ (blk a = blk b /\ off a < off b))%N.
Proof.
  unfold older. rewrite orb_true_iff, andb_true_iff, !N.ltb_lt, N.eqb_eq. tauto.
Qed.
Lemma older_false a b :
  older a b = false <-> ~ (blk a < blk b \/ (blk a = blk b /\ off a < off b))%N.
Proof. rewrite <- older_spec. destruct (older a b); split; intro H; try congruence; try (exfalso; apply H; reflexivity). Qed.
Lemma valid_spec lo hi l : valid lo hi l = true <-> (lo <= blk l /\ blk l < hi)%N.
Proof. unfold valid. rewrite andb_true_iff, N.leb_le, N.ltb_lt. tauto. Qed.
Lemma valid_false lo hi l : valid lo hi l = false <-> ~ (lo <= blk l /\ blk l < hi)%N.
Proof. rewrite <- valid_spec. destruct (valid lo hi l); split; intro H; try congruence; try (exfalso; apply H; reflexivity). Qed.

Ltac ord :=
  repeat match goal with
         | H : older _ _ = true |- _ => apply older_spec in H
         | H : older _ _ = false |- _ => apply older_false in H
         | H : valid _ _ _ = true |- _ => apply valid_spec in H
         | H : valid _ _ _ = false |- _ => apply valid_false in H
         end;
  try match goal with
      | |- older _ _ = true => apply older_spec
      | |- older _ _ = false => apply older_false
      | |- valid _ _ _ = true => apply valid_spec
      | |- valid _ _ _ = false => apply valid_false
      end;
  lia.

Lemma older_irrefl a : older a a = false.
Proof. ord. Qed.
Lemma older_asym a b : older a b = true -> older b a = false.
Proof. intros; ord. Qed.
Lemma older_trans a b c : older a b = true -> older b c = true -> older a c = true.
Proof. intros; ord. Qed.
(** a <= b < c *)
Lemma nolder_older_trans a b c : older b a = false -> older b c = true -> older c a = false.
Proof. intros; ord. Qed.
Lemma nolder_trans a b c : older b a = false -> older c b = false -> older c a = false.
Proof. intros; ord. Qed.

Section Proofs.
  Variable key : Type.
  Variable key_eqb : key -> key -> bool.
  Hypothesis key_eqb_spec : forall a b, key_eqb a b = true <-> a = b.
  Variable n : nat.
  Variable slot : key -> nat -> nat.
  Hypothesis slot_lt : forall k a, slot k a < n.
  Variables maxGet maxPut : nat.

  Notation rec := (rec key).
  Notation table := (table key).
  Notation read := (read key).
  Notation get_loop := (get_loop key key_eqb slot).
  Notation get := (get key key_eqb slot maxGet).
  Notation put_loop := (put_loop key key_eqb slot maxGet).
  Notation put := (put key key_eqb slot maxGet maxPut).
  Notation klm := (klm key).
  Notation lookup := (lookup key key_eqb slot maxGet).
  Notation klm_put := (klm_put key key_eqb slot maxGet maxPut).
  Notation step := (step key key_eqb slot maxGet maxPut).
  Notation run := (run key key_eqb slot maxGet maxPut).
  Notation bump := (bump key).

  Lemma key_eqb_refl k : key_eqb k k = true.
  Proof. apply key_eqb_spec; reflexivity. Qed.

  Lemma rk_eqb_spec (r : rec) k a : rk_eqb key key_eqb r k a = true <-> rkey r = k /\ ratt r = a.
  Proof. unfold rk_eqb. rewrite andb_true_iff, key_eqb_spec, Nat.eqb_eq. tauto. Qed.

  (** ---- reading ---- *)
  Lemma read_some lo hi t i r :
    read lo hi t i = Some r <-> nth i t None = Some r /\ valid lo hi (rloc r) = true.
  Proof.
    unfold Klm.read. destruct (nth i t None) as [q|]; [|split; [discriminate|intros [? _]; discriminate]].
    destruct (valid lo hi (rloc q)) eqn:V; split; intros H.
    - inversion H; subst; auto.
    - destruct H as [H _]; exact H.
    - discriminate.
    - destruct H as [H V']. inversion H; subst. congruence.
  Qed.

  Lemma read_upd lo hi t s r j :
    s < length t -> valid lo hi (rloc r) = true ->
    read lo hi (upd t s (Some r)) j = if Nat.eqb j s then Some r else read lo hi t j.
  Proof.
    intros Hs V. unfold Klm.read. rewrite nth_upd by assumption.
    destruct (Nat.eqb j s); [rewrite V|]; reflexivity.
  Qed.

  (** ---- the invariant ---- *)
  Definition Placed (t : table) : Prop :=
    forall i r, nth i t None = Some r -> slot (rkey r) (ratt r) = i.
  Definition Bounded (hi : N) (t : table) : Prop :=
    forall i r, nth i t None = Some r -> (blk (rloc r) < hi)%N.
  (** every slot earlier on the probe sequence of (k, a) holds a live record
      that is not older than [l]. *)
  Definition GeChain (lo hi : N) (t : table) (k : key) (a : nat) (l : loc) : Prop :=
    forall a', a' < a -> exists r', read lo hi t (slot k a') = Some r' /\ older (rloc r') l = false.
  (** "everything further along a probe sequence is older" *)
  Definition Ordered (lo hi : N) (t : table) : Prop :=
    forall i r, read lo hi t i = Some r -> GeChain lo hi t (rkey r) (ratt r) (rloc r).
  Definition Inv (lo hi : N) (t : table) : Prop :=
    length t = n /\ Placed t /\ Bounded hi t /\ Ordered lo hi t.

  Lemma inv_empty lo hi : Inv lo hi (repeat None n).
  Proof.
    assert (E : forall i, nth i (repeat (@None rec) n) None = None).
    { intros i. generalize n. clear. intros m. revert i. induction m; intros [|i]; cbn; auto. }
    repeat split.
    - apply repeat_length.
    - intros i r H. rewrite E in H. discriminate.
    - intros i r H. rewrite E in H. discriminate.
    - intros i r H. apply read_some in H. rewrite E in H. destruct H; discriminate.
  Qed.

  (** Overwriting slot [s] with a live record [r] that is newer than what the
      slot held keeps every chain. *)
  Lemma gechain_upd lo hi t s r k a l :
    s < length t -> valid lo hi (rloc r) = true ->
    (forall o, read lo hi t s = Some o -> older (rloc o) (rloc r) = true) ->
    GeChain lo hi t k a l -> GeChain lo hi (upd t s (Some r)) k a l.
  Proof.
    intros Hs V Hnew G a' Ha. destruct (G a' Ha) as [r' [Hr' Ho]].
    rewrite read_upd by assumption.
    destruct (Nat.eqb (slot k a') s) eqn:E.
    - apply Nat.eqb_eq in E. rewrite E in Hr'. exists r. split; [reflexivity|].
      specialize (Hnew _ Hr'). eapply nolder_older_trans; eassumption.
    - exists r'. split; assumption.
  Qed.

  Lemma inv_upd lo hi t s r :
    Inv lo hi t -> valid lo hi (rloc r) = true ->
    GeChain lo hi t (rkey r) (ratt r) (rloc r) ->
    (forall o, read lo hi t s = Some o -> older (rloc o) (rloc r) = true) ->
    s = slot (rkey r) (ratt r) ->
    Inv lo hi (upd t s (Some r)).
  Proof.
    intros [Hl [Hp [Hb Ho]]] V G Hnew Es.
    assert (Hs : s < length t) by (rewrite Hl, Es; apply slot_lt).
    repeat split.
    - rewrite upd_length; assumption.
    - intros i q H. rewrite nth_upd in H by assumption.
      destruct (Nat.eqb i s) eqn:E.
      + apply Nat.eqb_eq in E. inversion H; subst. reflexivity.
      + eapply Hp; eassumption.
    - intros i q H. rewrite nth_upd in H by assumption.
      destruct (Nat.eqb i s) eqn:E.
      + inversion H; subst. apply valid_spec in V. lia.
      + eapply Hb; eassumption.
    - intros i q H. rewrite read_upd in H by assumption.
      apply gechain_upd; try assumption.
      destruct (Nat.eqb i s) eqn:E.
      + inversion H; subst. assumption.
      + eapply Ho; eassumption.
  Qed.

  (** ---- Put preserves the invariant ---- *)
  Lemma put_loop_inv lo hi fuel : forall it t r t' o,
    Inv lo hi t -> valid lo hi (rloc r) = true ->
    GeChain lo hi t (rkey r) (ratt r) (rloc r) ->
    put_loop lo hi fuel it t r = (t', o) -> Inv lo hi t'.
  Proof.
    induction fuel as [|f IH]; intros it t r t' o HI V G H; cbn [Klm.put_loop] in H.
    - inversion H; subst; assumption.
    - set (s := slot (rkey r) (ratt r)) in *.
      destruct (read lo hi t s) as [q|] eqn:R.
      + destruct (rk_eqb key key_eqb q (rkey r) (ratt r)) eqn:K.
        * destruct (older (rloc q) (rloc r)) eqn:O; inversion H; subst; [|assumption].
          apply inv_upd; auto. intros o' Ho'. rewrite R in Ho'. inversion Ho'; subst. assumption.
        * destruct (older (rloc q) (rloc r)) eqn:O.
          -- (* displace q *)
             assert (HI' : Inv lo hi (upd t s (Some r))).
             { apply inv_upd; auto. intros o' Ho'. rewrite R in Ho'. inversion Ho'; subst. assumption. }
             destruct (maxGet <=? ratt (bump q)); [inversion H; subst; assumption|].
             eapply IH; [exact HI'| |  |exact H].
             ++ cbn. apply read_some in R. tauto.
             ++ cbn [Klm.bump rkey ratt rloc].
                destruct HI as [Hl [Hp [Hb Ho]]].
                assert (Hs : s < length t) by (rewrite Hl; apply slot_lt).
                assert (G1 : GeChain lo hi (upd t s (Some r)) (rkey q) (ratt q) (rloc q)).
                { apply gechain_upd; auto.
                  - intros o' Ho'. rewrite R in Ho'. inversion Ho'; subst. assumption.
                  - eapply Ho; eassumption. }
                intros a' Ha'.
                assert (Ca : a' < ratt q \/ a' = ratt q) by lia. destruct Ca as [Ca|Ca].
                ** apply G1; assumption.
                ** subst a'. apply read_some in R. destruct R as [Rn Rv].
                   rewrite (Hp _ _ Rn). rewrite read_upd by assumption.
                   rewrite Nat.eqb_refl. exists r. split; [reflexivity|]. apply older_asym; assumption.
          -- (* keep q, move on *)
             destruct (maxGet <=? ratt (bump r)); [inversion H; subst; assumption|].
             eapply IH; [exact HI| | |exact H].
             ++ cbn. assumption.
             ++ cbn [Klm.bump rkey ratt rloc]. intros a' Ha'.
                assert (Ca : a' < ratt r \/ a' = ratt r) by lia. destruct Ca as [Ca|Ca].
                ** apply G; assumption.
                ** subst a'. exists q. split; assumption.
      + inversion H; subst. apply inv_upd; auto. intros o' Ho'. rewrite R in Ho'. discriminate.
  Qed.

  Lemma put_inv lo hi t k l :
    Inv lo hi t -> valid lo hi l = true -> Inv lo hi (fst (put lo hi t k l)).
  Proof.
    intros HI V. unfold Klm.put.
    destruct (put_loop lo hi maxPut 1 t {| rkey := k; ratt := 0; rloc := l |}) as [t' o] eqn:E.
    eapply put_loop_inv; [exact HI| | |exact E]; cbn; auto.
    intros a' Ha'. lia.
  Qed.

  (** ---- Release and growth preserve the invariant ---- *)
  Lemma release_inv lo hi t : Inv lo hi t -> Inv (N.succ lo) hi t.
  Proof.
    intros [Hl [Hp [Hb Ho]]]. repeat split; auto.
    intros i r H. apply read_some in H. destruct H as [Hn Hv].
    assert (H0 : read lo hi t i = Some r) by (apply read_some; split; [assumption|ord]).
    intros a' Ha'. destruct (Ho _ _ H0 a' Ha') as [r' [Hr' Hold]].
    exists r'. split; [|assumption].
    apply read_some in Hr'. destruct Hr' as [Hn' Hv']. apply read_some. split; [assumption|ord].
  Qed.

  Lemma read_grow lo hi t i : Bounded hi t -> read lo (N.succ hi) t i = read lo hi t i.
  Proof.
    intros Hb. unfold Klm.read. destruct (nth i t None) as [r|] eqn:E; [|reflexivity].
    specialize (Hb _ _ E).
    replace (valid lo (N.succ hi) (rloc r)) with (valid lo hi (rloc r)); [reflexivity|].
    unfold valid. f_equal. apply eq_true_iff_eq. rewrite !N.ltb_lt. lia.
  Qed.

  Lemma grow_inv lo hi t : Inv lo hi t -> Inv lo (N.succ hi) t.
  Proof.
    intros [Hl [Hp [Hb Ho]]]. repeat split; auto.
    - intros i r H. specialize (Hb _ _ H). lia.
    - intros i r H. rewrite read_grow in H by assumption.
      intros a' Ha'. rewrite read_grow by assumption. eapply Ho; eassumption.
  Qed.

  (** ---- reachable states ---- *)
  Definition InvS (s : klm) : Prop := Inv (lo s) (hi s) (tbl s).

  Lemma step_inv s o s' : InvS s -> step s o = Some s' -> InvS s'.
  Proof.
    unfold InvS. intros HI H. destruct o as [k l|k| |]; cbn in H.
    - destruct (valid (lo s) (hi s) l) eqn:V; [|discriminate]. inversion H; subst; clear H.
      unfold Klm.klm_put. pose proof (put_inv (lo s) (hi s) (tbl s) k l HI V) as P.
      destruct (put (lo s) (hi s) (tbl s) k l) as [t' o]. cbn in *. assumption.
    - inversion H; subst; assumption.
    - destruct (lo s <? hi s)%N; [|discriminate]. inversion H; subst. cbn. apply release_inv; assumption.
    - inversion H; subst. cbn. apply grow_inv; assumption.
  Qed.

  Lemma run_inv h : forall s s', InvS s -> run s h = Some s' -> InvS s'.
  Proof.
    induction h as [|o h IH]; intros s s' HI H; cbn in H.
    - inversion H; subst; assumption.
    - destruct (step s o) as [s1|] eqn:E; [|discriminate].
      eapply IH; [|exact H]. eapply step_inv; eassumption.
  Qed.

  Definition Reachable (s : klm) : Prop := exists h0 h, run (klm_empty key n h0) h = Some s.

  Lemma reachable_inv s : Reachable s -> InvS s.
  Proof.
    intros [h0 [h H]]. eapply run_inv; [|exact H]. unfold InvS. cbn. apply inv_empty.
  Qed.

  (** ---- what Get returns ---- *)
  Lemma get_loop_found lo hi t k : forall fuel a l att,
    get_loop lo hi t k fuel a = GFound l att ->
    exists a', a <= a' /\ read lo hi t (slot k a') = Some {| rkey := k; ratt := a'; rloc := l |}.
  Proof.
    induction fuel as [|f IH]; intros a l att H; cbn [Klm.get_loop] in H;
      destruct (read lo hi t (slot k a)) as [r|] eqn:R; try discriminate;
      destruct (rk_eqb key key_eqb r k a) eqn:K.
    - inversion H; subst. apply rk_eqb_spec in K. destruct K as [K1 K2].
      exists a. split; [lia|]. rewrite R. destruct r; cbn in *; subst; reflexivity.
    - discriminate.
    - inversion H; subst. apply rk_eqb_spec in K. destruct K as [K1 K2].
      exists a. split; [lia|]. rewrite R. destruct r; cbn in *; subst; reflexivity.
    - destruct (IH _ _ _ H) as [a' [Ha' Hr]]. exists a'. split; [lia|assumption].
  Qed.

  (** Records in the table are records that were put. *)
  Definition StoredIn (P : key -> loc -> Prop) (t : table) : Prop :=
    forall i r, nth i t None = Some r -> P (rkey r) (rloc r).

  Lemma stored_upd P t s r : StoredIn P t -> P (rkey r) (rloc r) -> StoredIn P (upd t s (Some r)).
  Proof.
    intros HS Hr i q H. destruct (Nat.lt_ge_cases s (length t)) as [Hs|Hs].
    - rewrite nth_upd in H by assumption. destruct (Nat.eqb i s).
      + inversion H; subst; assumption.
      + eapply HS; eassumption.
    - assert (E : upd t s (Some r) = t).
      { clear - Hs. revert s Hs; induction t; intros [|s] Hs; cbn in *; auto; try lia. f_equal. apply IHt. lia. }
      rewrite E in H. eapply HS; eassumption.
  Qed.

  Lemma put_loop_stored P lo hi fuel : forall it t r t' o,
    StoredIn P t -> P (rkey r) (rloc r) -> put_loop lo hi fuel it t r = (t', o) -> StoredIn P t'.
  Proof.
    induction fuel as [|f IH]; intros it t r t' o HS Hr H; cbn [Klm.put_loop] in H.
    - inversion H; subst; assumption.
    - destruct (read lo hi t (slot (rkey r) (ratt r))) as [q|] eqn:R.
      + assert (Hq : P (rkey q) (rloc q)) by (apply read_some in R; destruct R as [R _]; eapply HS; eassumption).
        destruct (rk_eqb key key_eqb q (rkey r) (ratt r)).
        * destruct (older (rloc q) (rloc r)); inversion H; subst; auto using stored_upd.
        * destruct (older (rloc q) (rloc r)).
          -- destruct (maxGet <=? ratt (bump q)); [inversion H; subst; auto using stored_upd|].
             eapply IH; [| |exact H]; auto using stored_upd.
          -- destruct (maxGet <=? ratt (bump r)); [inversion H; subst; auto|].
             eapply IH; [| |exact H]; auto.
      + inversion H; subst; auto using stored_upd.
  Qed.

  Lemma run_stored h : forall s s' (P : key -> loc -> Prop),
    StoredIn P (tbl s) -> run s h = Some s' ->
    StoredIn (fun k l => P k l \/ In (OPut k l) h) (tbl s').
  Proof.
    induction h as [|o h IH]; intros s s' P HS H; cbn in H.
    - inversion H; subst. intros i r Hn. left. eapply HS; eassumption.
    - destruct (step s o) as [s1|] eqn:E; [|discriminate].
      assert (HS1 : StoredIn (fun k l => P k l \/ o = OPut k l) (tbl s1)).
      { destruct o as [k l|k| |]; cbn in E.
        - destruct (valid (lo s) (hi s) l); [|discriminate]. inversion E; subst; clear E.
          unfold Klm.klm_put, Klm.put.
          destruct (put_loop (lo s) (hi s) maxPut 1 (tbl s) {| rkey := k; ratt := 0; rloc := l |}) as [t' o'] eqn:E.
          cbn. eapply put_loop_stored; [| |exact E].
          + intros i r Hn. left. eapply HS; eassumption.
          + cbn. right. reflexivity.
        - inversion E; subst. intros i r Hn. left. eapply HS; eassumption.
        - destruct (lo s <? hi s)%N; [|discriminate]. inversion E; subst. cbn. intros i r Hn. left. eapply HS; eassumption.
        - inversion E; subst. cbn. intros i r Hn. left. eapply HS; eassumption. }
      specialize (IH _ _ _ HS1 H). intros i r Hn. specialize (IH i r Hn). cbn in IH.
      destruct IH as [[IH|IH]|IH]; [left; assumption|right; left; assumption|right; right; assumption].
  Qed.

  (** get_sound: a lookup returns only a location that was stored for exactly
      that key, in a block that has not been released. *)
  Theorem get_sound_thm : forall h0 h s k l,
    run (klm_empty key n h0) h = Some s -> lookup s k = Some l ->
    In (OPut k l) h /\ valid (lo s) (hi s) l = true.
  Proof.
    intros h0 h s k l Hrun Hl.
    unfold Klm.lookup, Klm.klm_get, Klm.get in Hl.
    destruct (get_loop (lo s) (hi s) (tbl s) k (pred maxGet) 0) as [l' att| |] eqn:G; cbn in Hl; try discriminate.
    inversion Hl; subst l'. apply get_loop_found in G. destruct G as [a' [_ R]].
    apply read_some in R. destruct R as [Rn Rv]. cbn in Rv. split; [|assumption].
    pose proof (run_stored h (klm_empty key n h0) s (fun _ _ => False)) as RS.
    assert (S0 : StoredIn (fun _ _ => False) (tbl (klm_empty key n h0))).
    { intros i r Hn. cbn in Hn. exfalso. revert Hn. generalize n. clear. intros m. revert i.
      induction m; intros [|i] Hn; cbn in Hn; try discriminate; eauto. }
    specialize (RS S0 Hrun _ _ Rn). cbn in RS. destruct RS as [[]|RS]. assumption.
  Qed.

  (** ---- release_exact ---- *)
  Definition keep_valid (lo hi : N) (o : option loc) : option loc :=
    match o with Some l => if valid lo hi l then Some l else None | None => None end.

  Lemma get_loop_release lo hi t k : Inv lo hi t -> forall fuel a,
    lookup_of (get_loop (N.succ lo) hi t k fuel a)
    = keep_valid (N.succ lo) hi (lookup_of (get_loop lo hi t k fuel a)).
  Proof.
    intros [Hl [Hp [Hb Ho]]].
    induction fuel as [|f IH]; intros a; cbn [Klm.get_loop].
    - destruct (read lo hi t (slot k a)) as [r|] eqn:R.
      + apply read_some in R. destruct R as [Rn Rv].
        unfold Klm.read. rewrite Rn. destruct (valid (N.succ lo) hi (rloc r)) eqn:V'; rewrite ?Rv.
        * destruct (rk_eqb key key_eqb r k a); cbn; [rewrite V'|]; reflexivity.
        * destruct (rk_eqb key key_eqb r k a); cbn; [rewrite V'|]; reflexivity.
      + assert (R' : read (N.succ lo) hi t (slot k a) = None).
        { unfold Klm.read in *. destruct (nth (slot k a) t None) as [r|]; [|reflexivity].
          destruct (valid lo hi (rloc r)) eqn:V; [discriminate|].
          replace (valid (N.succ lo) hi (rloc r)) with false; [reflexivity|]. symmetry. ord. }
        rewrite R'. reflexivity.
    - destruct (read lo hi t (slot k a)) as [r|] eqn:R.
      + pose proof R as R0. apply read_some in R. destruct R as [Rn Rv].
        unfold Klm.read at 1. rewrite Rn. destruct (valid (N.succ lo) hi (rloc r)) eqn:V'.
        * destruct (rk_eqb key key_eqb r k a); cbn; [rewrite V'; reflexivity|]. apply IH.
        * destruct (rk_eqb key key_eqb r k a) eqn:K; cbn; [rewrite V'; reflexivity|].
          (* the old lookup continues; whatever it finds is not newer than r, hence released too *)
          destruct (get_loop lo hi t k f (S a)) as [l att| |] eqn:G; cbn; try reflexivity.
          apply get_loop_found in G. destruct G as [a' [Ha' Rq]].
          destruct (Ho _ _ Rq a) as [r' [Hr' Hold]]; [cbn; lia|]. cbn in Hr', Hold.
          rewrite R0 in Hr'. inversion Hr'; subst r'.
          replace (valid (N.succ lo) hi l) with false; [reflexivity|]. symmetry. ord.
      + assert (R' : read (N.succ lo) hi t (slot k a) = None).
        { unfold Klm.read in *. destruct (nth (slot k a) t None) as [r|]; [|reflexivity].
          destruct (valid lo hi (rloc r)) eqn:V; [discriminate|].
          replace (valid (N.succ lo) hi (rloc r)) with false; [reflexivity|]. symmetry. ord. }
        rewrite R'. reflexivity.
  Qed.

  Theorem release_exact_thm : forall s k,
    Reachable s ->
    lookup (klm_release key s) k = keep_valid (N.succ (lo s)) (hi s) (lookup s k).
  Proof.
    intros s k HR. apply reachable_inv in HR. unfold Klm.lookup, Klm.klm_get, Klm.get. cbn.
    apply get_loop_release. exact HR.
  Qed.

  (** Growth (PushBack) does not change any lookup. *)
  Lemma get_loop_grow lo hi t k : Bounded hi t -> forall fuel a,
    get_loop lo (N.succ hi) t k fuel a = get_loop lo hi t k fuel a.
  Proof.
    intros Hb. induction fuel as [|f IH]; intros a; cbn [Klm.get_loop]; rewrite read_grow by assumption.
    - reflexivity.
    - destruct (read lo hi t (slot k a)); [|reflexivity]. destruct (rk_eqb _ _ _ _ _); [reflexivity|]. apply IH.
  Qed.

  Theorem grow_frame_thm : forall s k, Reachable s -> lookup (klm_grow key s) k = lookup s k.
  Proof.
    intros s k HR. apply reachable_inv in HR. destruct HR as [_ [_ [Hb _]]].
    unfold Klm.lookup, Klm.klm_get, Klm.get. cbn. rewrite get_loop_grow by assumption. reflexivity.
  Qed.

  (** ---- victim_not_newer ---- *)
  Lemma put_loop_dropped lo hi l fuel : forall it t r t' o d,
    older l (rloc r) = false ->
    put_loop lo hi fuel it t r = (t', o) -> discarded o = Some d -> older l (rloc d) = false.
  Proof.
    induction fuel as [|f IH]; intros it t r t' o d Hr H D; cbn [Klm.put_loop] in H.
    - inversion H; subst. cbn in D. inversion D; subst. assumption.
    - destruct (read lo hi t (slot (rkey r) (ratt r))) as [q|] eqn:R.
      + destruct (rk_eqb key key_eqb q (rkey r) (ratt r)).
        * destruct (older (rloc q) (rloc r)); inversion H; subst; discriminate.
        * destruct (older (rloc q) (rloc r)) eqn:O.
          -- assert (Hq : older l (rloc q) = false) by (clear - Hr O; ord).
             destruct (maxGet <=? ratt (bump q)).
             ++ inversion H; subst. cbn in D. inversion D; subst. assumption.
             ++ eapply IH; [|exact H|exact D]. assumption.
          -- destruct (maxGet <=? ratt (bump r)).
             ++ inversion H; subst. cbn in D. inversion D; subst. assumption.
             ++ eapply IH; [|exact H|exact D]. assumption.
      + inversion H; subst. discriminate.
  Qed.

  Theorem victim_not_newer_thm : forall lo hi t k l t' o d,
    put lo hi t k l = (t', o) -> discarded o = Some d -> older l (rloc d) = false.
  Proof.
    intros lo hi t k l t' o d H D. unfold Klm.put in H.
    eapply put_loop_dropped; [|exact H|exact D]. cbn. apply older_irrefl.
  Qed.
End Proofs.
