(** The concrete slot function of HashingKeyLocationMap.getSlot:
    FNV-1a (64-bit, wrap-around explicit) over the key bytes followed by the
    attempt in little-endian order, started from the configured hash
    initialisation, modulo the number of records.  Constants are regenerated
    from location_record_key.go. *)
From Coq Require Import List NArith Arith Bool Lia.
From BBS Require Import Generated.Consts Index.Klm.
(* -- (keeps lib/checklib.py's dependency scan from reading past the sentence) *)
Import ListNotations.
Open Scope N_scope.

Definition mask64 : N := N.ones 64.
(** uint64 multiplication: the low 64 bits ([N.land x (N.ones 64) = x mod 2^64], N.land_ones). *)
Definition wrap64 (x : N) : N := N.land x mask64.
Definition fnv_step (prime h c : N) : N := wrap64 (N.lxor h c * prime).
Definition fnv1a (prime init : N) (bytes : list N) : N := fold_left (fnv_step prime) bytes init.

(** [attempt & 0xff], [attempt >>= 8], klm_attempt_bytes times (uint32). *)
Fixpoint le_bytes (n : nat) (x : N) : list N :=
  match n with
  | O => []
  | S n' => N.land x klm_attempt_mask :: le_bytes n' (N.shiftr x klm_attempt_shift)
  end.

Definition bkey := list N.   (* Key: 32 bytes *)
Fixpoint bkey_eqb (a b : bkey) : bool :=
  match a, b with
  | [], [] => true
  | x :: a', y :: b' => (x =? y) && bkey_eqb a' b'
  | _, _ => false
  end.

Definition lrk_hash (init : N) (k : bkey) (a : nat) : N :=
  fnv1a klm_fnv_prime (fnv1a klm_fnv_prime init k) (le_bytes klm_attempt_bytes (N.of_nat a mod 2 ^ 32)).

(** n = recordsCount (> 0, otherwise Go panics on the modulo). *)
Definition fnv_slot (init : N) (n : nat) (k : bkey) (a : nat) : nat :=
  N.to_nat (lrk_hash init k a mod N.of_nat n).

(** The same slot function tabulated for a finite list of keys (identified by
    their index in the list) and attempts 0..amax: what the judge runs, so that
    each hash is computed once per case. *)
Definition slot_table (init : N) (n : nat) (keys : list bkey) (amax : nat) : list (list nat) :=
  map (fun k => map (fnv_slot init n k) (seq 0 (S amax))) keys.
Definition tab_slot (tb : list (list nat)) (ki a : nat) : nat := nth a (nth ki tb []) 0%nat.

(** index of the first key with the same bytes (two indices may name one key) *)
Fixpoint first_index (keys : list bkey) (k : bkey) (i : nat) : nat :=
  match keys with
  | [] => i
  | k' :: t => if bkey_eqb k' k then i else first_index t k (S i)
  end.
Definition canon (keys : list bkey) (i : nat) : nat := first_index keys (nth i keys []) 0.
