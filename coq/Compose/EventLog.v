(** C17 / C17L: the EVENT LOG of a trace of the replicator-decorator transition
    systems (Compose/Replicators.v, Compose/ReplEntry.v).

    The harness (harness/c17.go, kind 2) records, in one list and in the order
    in which they happen,

      [(0 i clk)]                      caller i is started
      [(1 i bk op ids clk)]            caller i arrives in a backend call (and parks)
      [(2 i bk op ids code ans clk)]   that call returns to caller i
      [(3 i code clk)]                 caller i returns to its own caller

    (backend 0 = sink, 1 = source; op 0 Get, 1 Put, 2 FindMissing,
    3 GetFromComposite).  The monitor clauses 24 / 25 (Run/R17Conc.v) and 27
    (Run/R17L.v) are evaluated on that list.  The transition systems have no
    log of their own; this file says which events a step of the model emits:

      - [EStart i] emits the start event;
      - [ERel i f] emits the return of the backend call caller i is parked in:
        its code is the injected fault f, else what the backend answers
        (sink.FindMissing [k]: OK with answer [] if the sink holds k, [k] if
        not; source.Get d: OK / NOT_FOUND (5); sink.Put d of buffer b: b's
        own error, else OK);
      - whenever the step leaves caller i in a backend call ([Fm], [Get],
        [Put]) the arrival in that call is emitted, and whenever it leaves
        caller i in [Done c] the caller's return with code c - these are the
        two things the harness sees of a caller between lock-protected
        sections;
      - internal steps, cancellations and clock advances emit nothing else.

    For the mixed entry points (ReplEntry.v) a ReplicateSingle /
    ReplicateComposite caller whose ReplicateMultiple part reached [Done 0]
    has not returned: it arrives in sink.Get (op 0) / sink.GetFromComposite
    (op 3); the release of that read emits its return (fault, else OK /
    NOT_FOUND) followed by the caller's return with [read_code].
    Definitions only. *)
From Coq Require Import List ZArith NArith Bool Arith Lia.
From BBS Require Import Common.Sx Common.ListX Compose.ExistenceCache Compose.Replicators Compose.ReplEntry.
Import ListNotations.
Open Scope Z_scope.

Definition pc_of (s : cstate) (i : nat) : pc :=
  match nth_error (thr s) i with Some t => tpc t | None => NotStarted end.

Definition ev_start (i : nat) (t : N) : sx := L [A 0; of_nat i; of_N t].
Definition ev_call (i : nat) (bk op : Z) (d : nat) (t : N) : sx :=
  L [A 1; of_nat i; A bk; A op; of_nats [d]; of_N t].
Definition ev_ret (i : nat) (bk op : Z) (d : nat) (code : Z) (ans : list nat) (t : N) : sx :=
  L [A 2; of_nat i; A bk; A op; of_nats [d]; A code; of_nats ans; of_N t].
Definition ev_done (i : nat) (c : Z) (t : N) : sx := L [A 3; of_nat i; A c; of_N t].

(** Caller i has just been left in pc [p]. *)
Definition arrive (i : nat) (t : N) (p : pc) : list sx :=
  match p with
  | Fm k _ => [ev_call i 0 2 k t]
  | Get d _ _ => [ev_call i 1 0 d t]
  | Put d _ _ _ => [ev_call i 0 1 d t]
  | Done c => [ev_done i c t]
  | _ => []
  end.

(** The backend call of pc [p] returns to caller i with injected fault [f]. *)
Definition returned (i : nat) (s : cstate) (f : Z) (p : pc) : list sx :=
  match p with
  | Fm k _ => [ev_ret i 0 2 k f (if negb (f =? 0) then [] else if memn k (snk s) then [] else [k]) (clk s)]
  | Get d _ _ => [ev_ret i 1 0 d (if negb (f =? 0) then f else if memn d (src s) then 0 else 5) [] (clk s)]
  | Put d b _ _ => [ev_ret i 0 1 d (if negb (f =? 0) then f else b) [] (clk s)]
  | _ => []
  end.

(** Events of one step, given how arrivals are reported. *)
Definition emit_with (arr : nat -> N -> pc -> list sx) (s : cstate) (e : ev) (s' : cstate) : list sx :=
  match e with
  | EStart i => ev_start i (clk s) :: arr i (clk s) (pc_of s' i)
  | ERel i f => returned i s f (pc_of s i) ++ arr i (clk s) (pc_of s' i)
  | ETau i _ => arr i (clk s) (pc_of s' i)
  | _ => []
  end.

Definition emit (m : mode) (s : cstate) (e : ev) : list sx :=
  match step m s e with Some s' => emit_with arrive s e s' | None => [] end.

(** The log of a trace, oldest event first. *)
Fixpoint tlog (m : mode) (s : cstate) (tr : list ev) : list sx :=
  match tr with
  | [] => []
  | e :: r => match step m s e with Some s' => emit m s e ++ tlog m s' r | None => [] end
  end.

(** * Mixed entry points *)
Definition read_op (k : ekind) : Z := match k with KComposite _ => 3 | _ => 0 end.

Definition xarrive (kinds : list ekind) (i : nat) (t : N) (p : pc) : list sx :=
  match p, read_obj (nth i kinds KMulti) with
  | Done 0, Some d => [ev_call i 0 (read_op (nth i kinds KMulti)) d t]
  | _, _ => arrive i t p
  end.

Definition xemit (kinds : list ekind) (m : mode) (x : xstate) (e : ev) : list sx :=
  match xstep kinds m x e with
  | None => []
  | Some x' =>
      match e with
      | ERel i f =>
          match reading kinds x i with
          | Some d =>
              [ev_ret i 0 (read_op (nth i kinds KMulti)) d
                 (if negb (f =? 0) then f else if memn d (snk (xb x)) then 0 else 5) [] (clk (xb x));
               ev_done i (read_code f d (snk (xb x))) (clk (xb x))]
          | None => emit_with (xarrive kinds) (xb x) e (xb x')
          end
      | _ => emit_with (xarrive kinds) (xb x) e (xb x')
      end
  end.

Fixpoint xlog (kinds : list ekind) (m : mode) (x : xstate) (tr : list ev) : list sx :=
  match tr with
  | [] => []
  | e :: r => match xstep kinds m x e with Some x' => xemit kinds m x e ++ xlog kinds m x' r | None => [] end
  end.
