(** C11 — errors are not masked (every operation, every oracle), and the
    lifting to histories. *)
From BBS Require Import Common.Sx Common.ListX Compose.Mirrored Compose.MirroredProofs Compose.MirroredFM.
From Coq Require Import Arith.
Local Open Scope nat_scope.

Definition benign (o : oracle) (c : call) : Prop :=
  ocall o c = 0%Z \/ (snd (fst c) = KGet /\ ocall o c = NF).

Definition both_answer_nf (o : oracle) (st : mstate) (d : nat) : Prop :=
  rget o RA (sA st) d = BErr NF RA /\ rget o RB (sB st) d = BErr NF RB.

Lemma sel_wrap_code name e : ecode (sel_wrap name e) = fst e.
Proof. unfold sel_wrap. destruct (Z.eqb_spec (fst e) NF) as [->|]; reflexivity. Qed.
Lemma sel_wrap_tag name e : fst e <> NF -> etag_of (sel_wrap name e) = TBackend name.
Proof. unfold sel_wrap. destruct (Z.eqb_spec (fst e) NF); [contradiction|reflexivity]. Qed.
Lemma sync_wrap_code src e : ecode (sync_wrap src e) <> NF.
Proof. unfold sync_wrap. destruct (Z.eqb_spec (fst e) NF); cbn; [discriminate|assumption]. Qed.
Lemma sync_wrap_tag src e : etag_of (sync_wrap src e) <> TNone.
Proof. unfold sync_wrap. destruct (fst e =? NF)%Z; discriminate. Qed.

Lemma get_not_masked o st d st' r :
  m_get o st d = (st', r) ->
  (errs r = [] -> forall c, In c (calls r) -> benign o c)
  /\ (wf_oracle o -> forall e, In e (errs r) -> ecode e = NF -> both_answer_nf o st d)
  /\ (forall e, In e (errs r) -> ecode e <> NF -> etag_of e <> TNone).
Proof.
  unfold m_get. fold (firstR st). set (F := firstR st).
  assert (HF : forall P : rid -> Prop, P F -> P (other F) -> P RA /\ P RB).
  { intros P. destruct F; cbn; auto. }
  destruct (rget o F (sto st F) d) as [x|c og] eqn:G1.
  - intros H; inversion H; subst; cbn. split; [|split; intros; contradiction].
    intros _ c [<-|[]]. left. cbn. apply rget_data in G1. tauto.
  - destruct (rget_origin _ _ _ _ _ _ G1) as [-> C0].
    destruct (Z.eqb_spec c NF) as [->|N].
    2:{ intros H; inversion H; subst; cbn. split; [discriminate|]. split.
        - intros _ e [<-|[]]. cbn. contradiction.
        - intros e [<-|[]]. cbn. discriminate. }
    assert (B1 : benign o (F, KGet, d)).
    { destruct (rget_cases o F (sto st F) d) as [(x & E & _)|[(_ & [[E _]|E])|(c & E & _ & _ & Nc)]].
      - congruence.
      - left. exact E.
      - right. split; [reflexivity|exact E].
      - rewrite G1 in E. inversion E. congruence. }
    destruct (rget o (other F) (sto st (other F)) d) as [x|c2 og2] eqn:G2.
    + destruct (rput o F (sto st F) d (BData x)) as [s' [e|]] eqn:P.
      * intros H; inversion H; subst; cbn. split; [discriminate|]. split.
        -- intros W e0 [<-|[]]. rewrite sel_wrap_code. intros En.
           apply rput_fail in P. destruct P as [_ [(Po & _)|(_ & Pb)]]; [|discriminate].
           exfalso. apply (W F KPut d); [discriminate|congruence].
        -- intros e0 [<-|[]]. rewrite sel_wrap_code. intros En. rewrite sel_wrap_tag by exact En. discriminate.
      * intros H; inversion H; subst; cbn. split; [|split; intros; contradiction].
        intros _ c [<-|[<-|[<-|[]]]]; [exact B1| |].
        -- left. cbn. apply rget_data in G2. tauto.
        -- left. cbn. apply rput_ok in P. tauto.
    + destruct (rget_origin _ _ _ _ _ _ G2) as [-> C2].
      intros H; inversion H; subst; cbn. split; [discriminate|]. split.
      * intros _ e [<-|[]]. rewrite sel_wrap_code. cbn. intros ->.
        apply (HF (fun y => rget o y (sto st y) d = BErr NF y)); assumption.
      * intros e [<-|[]]. rewrite sel_wrap_code. cbn. intros En. rewrite sel_wrap_tag by exact En. discriminate.
Qed.

Lemma put_not_masked o st d x st' r :
  m_put o st d x = (st', r) ->
  (errs r = [] -> forall c, In c (calls r) -> benign o c)
  /\ (wf_oracle o -> forall e, In e (errs r) -> ecode e <> NF)
  /\ (forall e, In e (errs r) -> etag_of e <> TNone).
Proof.
  unfold m_put.
  destruct (put_branch o RA d x st) as [st1 ea] eqn:B1.
  destruct (put_branch o RB d x st1) as [st2 eb] eqn:B2.
  intros H; inversion H; subst; clear H. cbn [errs calls].
  apply put_branch_spec in B1. apply put_branch_spec in B2.
  destruct B1 as (_ & _ & _ & A1 & E1). destruct B2 as (_ & _ & _ & A2 & E2).
  split; [|split].
  - intros E. apply app_eq_nil in E. destruct E as [-> ->].
    intros c [<-|[<-|[]]]; left; cbn; [apply A1|apply A2]; reflexivity.
  - intros W e I. apply in_app_or in I. destruct I as [I|I].
    + destruct (E1 e I) as (_ & -> & _). apply W. discriminate.
    + destruct (E2 e I) as (_ & -> & _). apply W. discriminate.
  - intros e I. apply in_app_or in I. destruct I as [I|I].
    + destruct (E1 e I) as (-> & _). discriminate.
    + destruct (E2 e I) as (-> & _). discriminate.
Qed.

Lemma fm_not_masked o st ds st' r :
  m_fm o st ds = (st', r) ->
  (errs r = [] -> forall c, In c (calls r) -> benign o c)
  /\ (wf_oracle o -> forall e, In e (errs r) -> ecode e <> NF)
  /\ (forall e, In e (errs r) -> etag_of e <> TNone).
Proof.
  intros H. split; [|split].
  - intros E c I. left. destruct (fm_ok_proof _ _ _ _ _ H E) as (_ & _ & Hc). apply Hc. exact I.
  - intros W e I.
    destruct (m_fm_unfold _ _ _ _ _ H)
      as [(st1 & e1 & c1 & e2 & c2 & _ & _ & _ & _ & He & _)|(_ & _ & _ & _ & Hall)].
    + rewrite He in I. apply in_app_or in I.
      destruct I as [I|I]; [destruct e1|destruct e2]; cbn in I; try contradiction;
        destruct I as [<-|[]]; apply sync_wrap_code.
    + destruct (Hall e I) as (y & _ & -> & _). apply W. discriminate.
  - intros e I.
    destruct (m_fm_unfold _ _ _ _ _ H)
      as [(st1 & e1 & c1 & e2 & c2 & _ & _ & _ & _ & He & _)|(_ & _ & _ & _ & Hall)].
    + rewrite He in I. apply in_app_or in I.
      destruct I as [I|I]; [destruct e1|destruct e2]; cbn in I; try contradiction;
        destruct I as [<-|[]]; apply sync_wrap_tag.
    + destruct (Hall e I) as (y & -> & _). discriminate.
Qed.

Lemma cap_not_masked o st st' r :
  m_cap o st = (st', r) ->
  (errs r = [] -> forall c, In c (calls r) -> benign o c)
  /\ (wf_oracle o -> forall e, In e (errs r) -> ecode e <> NF)
  /\ (forall e, In e (errs r) -> etag_of e <> TNone).
Proof.
  unfold m_cap. intros H; inversion H; subst; clear H. cbn [errs calls].
  destruct (Z.eqb_spec (o (first_of (S (rnd st))) KCap 0) 0) as [E|N].
  - split; [|split]; try (intros; contradiction).
    intros _ c [<-|[]]. left. exact E.
  - split; [discriminate|]. split.
    + intros W e [<-|[]]. cbn. apply W. discriminate.
    + intros e [<-|[]]. discriminate.
Qed.

(** Any replica failure other than NOT_FOUND is surfaced as an error naming
    a replica; never as NOT_FOUND, never as a successful answer. *)
Theorem errors_not_masked_proof : forall o st p st' r,
  step o st p = (st', r) ->
  (errs r = [] -> forall c, In c (calls r) -> benign o c)
  /\ (wf_oracle o -> forall e, In e (errs r) -> ecode e = NF ->
        exists d, p = OGet d /\ both_answer_nf o st d)
  /\ (forall e, In e (errs r) -> ecode e <> NF -> etag_of e <> TNone).
Proof.
  intros o st [d|d x|ds|] st' r H; cbn [step] in H.
  - destruct (get_not_masked _ _ _ _ _ H) as (A & B & C). split; [exact A|]. split; [|exact C].
    intros W e I En. exists d. split; [reflexivity|]. exact (B W e I En).
  - destruct (put_not_masked _ _ _ _ _ _ H) as (A & B & C). split; [exact A|]. split.
    + intros W e I En. exfalso. exact (B W e I En).
    + intros e I _. exact (C e I).
  - destruct (fm_not_masked _ _ _ _ _ H) as (A & B & C). split; [exact A|]. split.
    + intros W e I En. exfalso. exact (B W e I En).
    + intros e I _. exact (C e I).
  - destruct (cap_not_masked _ _ _ _ H) as (A & B & C). split; [exact A|]. split.
    + intros W e I En. exfalso. exact (B W e I En).
    + intros e I _. exact (C e I).
Qed.

(** Corollary in the "a failure surfaces" direction.  The only replica
    outcome that is not surfaced is that of the repair upload issued for an
    object neither replica returned (the upload of an error buffer, whose
    outcome the code discards): the read then still reports NOT_FOUND. *)
Corollary failure_surfaces_proof : forall o st p st' r c,
  step o st p = (st', r) -> wf_oracle o ->
  In c (calls r) -> ocall o c <> 0%Z -> ocall o c <> NF ->
  errs r <> []
  /\ ((forall e, In e (errs r) -> ecode e <> NF /\ etag_of e <> TNone)
      \/ (exists d, p = OGet d /\ both_answer_nf o st d /\ snd (fst c) = KPut)).
Proof.
  intros o st p st' r c H W I C0 CN.
  destruct (errors_not_masked_proof _ _ _ _ _ H) as (A & B & C).
  assert (NE : errs r <> []).
  { intros E. destruct (A E c I) as [Z|[_ Z]]; contradiction. }
  split; [exact NE|].
  destruct (existsb (fun e => (ecode e =? NF)%Z) (errs r)) eqn:X.
  - right. apply existsb_exists in X. destruct X as (e & Ie & En). apply Z.eqb_eq in En.
    destruct (B W e Ie En) as (d & -> & Hb). exists d. split; [reflexivity|]. split; [exact Hb|].
    (* the failing call is neither of the two lookups *)
    cbn [step] in H. unfold m_get in H. fold (firstR st) in H.
    destruct Hb as [HA HB].
    assert (G1 : rget o (firstR st) (sto st (firstR st)) d = BErr NF (firstR st))
      by (destruct (firstR st); assumption).
    assert (G2 : rget o (other (firstR st)) (sto st (other (firstR st))) d = BErr NF (other (firstR st)))
      by (destruct (firstR st); assumption).
    rewrite G1 in H. change (NF =? NF)%Z with true in H. cbn iota in H. rewrite G2 in H.
    inversion H; subst; clear H. cbn [calls] in I.
    assert (Hb : forall y s, rget o y s d = BErr NF y -> o y KGet d = 0%Z \/ o y KGet d = NF).
    { intros y s Hy. destruct (rget_cases o y s d) as [(x & E & _)|[(_ & [[E _]|E])|(c' & E & _ & _ & Nc)]];
        [congruence|auto|auto|]. rewrite Hy in E. inversion E. congruence. }
    destruct I as [<-|[<-|[<-|[]]]]; cbn in *; [|
      |reflexivity].
    + destruct (Hb _ _ G1); contradiction.
    + destruct (Hb _ _ G2); contradiction.
  - left. intros e Ie.
    assert (En : ecode e <> NF).
    { intros En. assert (Y : existsb (fun e => (ecode e =? NF)%Z) (errs r) = true).
      { apply existsb_exists. exists e. split; [exact Ie|apply Z.eqb_eq; exact En]. }
      congruence. }
    split; [exact En|exact (C e Ie En)].
Qed.

(** * One step: what can happen to the contents of a replica *)
Lemma step_frame o st p st' r : step o st p = (st', r) -> forall y d,
  lookup (sto st' y) d = lookup (sto st y) d
  \/ (lookup (sto st (other y)) d <> None /\ lookup (sto st' y) d = lookup (sto st (other y)) d)
  \/ (exists x, p = OPut d x /\ lookup (sto st' y) d = Some x).
Proof.
  destruct p as [d0|d0 x|ds|]; cbn [step]; intros H y d.
  - destruct (get_frame _ _ _ _ _ H) as (Ho & Hf).
    destruct (rid_eqb y (firstR st)) eqn:E.
    + assert (y = firstR st) by (revert E; destruct y, (firstR st); cbn; congruence). subst y.
      destruct (Hf d) as [Eq|(-> & _ & _ & N & Eq)]; [left; exact Eq|right; left; auto].
    + assert (y = other (firstR st)) by (revert E; destruct y, (firstR st); cbn; congruence). subst y.
      left. rewrite Ho. reflexivity.
  - destruct (put_frame _ _ _ _ _ _ H) as (_ & Hf).
    destruct (Hf y d) as [Eq|(-> & Eq & _)]; [left; exact Eq|right; right; eauto].
  - destruct (fm_frame_proof _ _ _ _ _ H) as (_ & Hf).
    destruct (Hf y d) as [Eq|(_ & _ & N & Eq)]; [left; exact Eq|right; left; auto].
  - unfold m_cap in H. inversion H; subst. left. apply (f_equal (fun s => lookup s d)). apply sto_set_rnd.
Qed.

Lemma step_presence o st p st' r y d :
  step o st p = (st', r) -> lookup (sto st y) d <> None -> lookup (sto st' y) d <> None.
Proof.
  intros H N. destruct (step_frame _ _ _ _ _ H y d) as [E|[(N2 & E)|(x & _ & E)]]; congruence.
Qed.

Lemma step_provenance o st p st' r y d v :
  step o st p = (st', r) -> lookup (sto st' y) d = Some v ->
  lookup (sA st) d = Some v \/ lookup (sB st) d = Some v \/ p = OPut d v.
Proof.
  intros H L. destruct (step_frame _ _ _ _ _ H y d) as [E|[(N2 & E)|(x & -> & E)]].
  - rewrite E in L. destruct y; cbn in L; auto.
  - rewrite E in L. destruct y; cbn in L; auto.
  - right. right. congruence.
Qed.

Definition synced (st : mstate) (d : nat) : Prop := lookup (sA st) d = None <-> lookup (sB st) d = None.

(** The invariant relating the two replicas: once they agree on the presence
    of [d], every operation keeps them in agreement, except an upload of [d]
    that fails (it may have reached one replica only). *)
Lemma step_synced o st p st' r d :
  step o st p = (st', r) -> synced st d ->
  (forall x, p = OPut d x -> errs r = []) -> synced st' d.
Proof.
  intros H S HP. unfold synced in *.
  assert (PUT : forall x, p = OPut d x -> lookup (sA st') d = None <-> lookup (sB st') d = None).
  { intros x ->. cbn [step] in H.
    destruct (put_ok_both_proof _ _ _ _ _ _ H (HP _ eq_refl)) as [LA LB].
    rewrite LA, LB. split; discriminate. }
  destruct (step_frame _ _ _ _ _ H RA d) as [EA|[(NA & EA)|(x & Ep & _)]]; [| |exact (PUT x Ep)];
  (destruct (step_frame _ _ _ _ _ H RB d) as [EB|[(NB & EB)|(x' & Ep' & _)]]; [| |exact (PUT x' Ep')]);
  cbn [sto other] in *; rewrite EA, EB; tauto.
Qed.

Lemma step_rnd o st p st' r :
  step o st p = (st', r) ->
  if bump_op p then rnd st' = S (rnd st) /\ first_called (calls r) = first_of (S (rnd st))
  else rnd st' = rnd st.
Proof.
  destruct p as [d|d x|ds|]; cbn [step bump_op]; intros H.
  - split; [exact (get_rnd _ _ _ _ _ H)|].
    unfold m_get in H.
    destruct (rget o _ _ d) as [x|c og]; [inversion H; reflexivity|].
    destruct (c =? NF)%Z; [|inversion H; reflexivity].
    destruct (rget o (other _) _ d) as [x|c2 og2]; [|inversion H; reflexivity].
    destruct (rput _ _ _ _ _) as [s' [e|]]; inversion H; reflexivity.
  - exact (proj1 (put_frame _ _ _ _ _ _ H)).
  - exact (proj1 (fm_frame_proof _ _ _ _ _ H)).
  - unfold m_cap in H. inversion H. split; reflexivity.
Qed.

Lemma first_of_alternates n : first_of (S n) = other (first_of n).
Proof.
  unfold first_of. rewrite Nat.odd_succ, <- Nat.negb_odd. destruct (Nat.odd n); reflexivity.
Qed.

(** * Histories (any length, a fresh oracle per operation) *)
Lemma run_cons st o p t : run st ((o, p) :: t) =
  let '(st1, r) := step o st p in let '(st2, rs) := run st1 t in (st2, r :: rs).
Proof. reflexivity. Qed.

Lemma run_app : forall h1 h2 st, run st (h1 ++ h2) =
  let '(s1, r1) := run st h1 in let '(s2, r2) := run s1 h2 in (s2, r1 ++ r2).
Proof.
  induction h1 as [|[o p] t IH]; intros h2 st.
  - cbn. destruct (run st h2); reflexivity.
  - cbn [app]. rewrite !run_cons. destruct (step o st p) as [sa ra]. rewrite IH.
    destruct (run sa t) as [sb rb]. destruct (run sb h2) as [sc rc]. reflexivity.
Qed.

Theorem history_presence_proof : forall h st st' rs y d,
  run st h = (st', rs) -> lookup (sto st y) d <> None -> lookup (sto st' y) d <> None.
Proof.
  induction h as [|[o p] t IH]; intros st st' rs y d H N.
  - inversion H; subst. exact N.
  - rewrite run_cons in H. destruct (step o st p) as [st1 r] eqn:S1.
    destruct (run st1 t) as [st2 rs2] eqn:R. inversion H; subst.
    eapply IH; [exact R|]. eapply step_presence; eassumption.
Qed.

(** No content is ever fabricated: whatever a replica holds at the end was
    held by a replica initially or was uploaded during the history. *)
Theorem history_provenance_proof : forall h st st' rs y d v,
  run st h = (st', rs) -> lookup (sto st' y) d = Some v ->
  lookup (sA st) d = Some v \/ lookup (sB st) d = Some v \/ exists o, In (o, OPut d v) h.
Proof.
  induction h as [|[o p] t IH]; intros st st' rs y d v H L.
  - inversion H; subst. destruct y; cbn in L; auto.
  - rewrite run_cons in H. destruct (step o st p) as [st1 r] eqn:S1.
    destruct (run st1 t) as [st2 rs2] eqn:R. inversion H; subst.
    destruct (IH _ _ _ _ _ _ R L) as [LA|[LB|(o' & I)]].
    + destruct (step_provenance _ _ _ _ _ RA _ _ S1 LA) as [X|[X|X]]; auto.
      right. right. exists o. left. congruence.
    + destruct (step_provenance _ _ _ _ _ RB _ _ S1 LB) as [X|[X|X]]; auto.
      right. right. exists o. left. congruence.
    + right. right. exists o'. right. exact I.
Qed.

(** A successful upload is present in both replicas for the rest of the
    history, whatever fails later. *)
Theorem history_put_persists_proof : forall h1 o d x h2 st st1 rs1 st2 r st3 rs3,
  run st h1 = (st1, rs1) -> step o st1 (OPut d x) = (st2, r) -> errs r = [] ->
  run st2 h2 = (st3, rs3) ->
  run st (h1 ++ (o, OPut d x) :: h2) = (st3, rs1 ++ r :: rs3)
  /\ lookup (sA st3) d <> None /\ lookup (sB st3) d <> None.
Proof.
  intros h1 o d x h2 st st1 rs1 st2 r st3 rs3 R1 S E R2. split.
  - rewrite run_app, R1, run_cons, S, R2. reflexivity.
  - cbn [step] in S. destruct (put_ok_both_proof _ _ _ _ _ _ S E) as [LA LB].
    split; [apply (history_presence_proof h2 st2 st3 rs3 RA d R2)|apply (history_presence_proof h2 st2 st3 rs3 RB d R2)];
      cbn; congruence.
Qed.

(** The invariant lifted: replicas that agree on [d] still agree after any
    history in which no upload of [d] fails. *)
Theorem history_synced_proof : forall h st st' rs d,
  run st h = (st', rs) -> synced st d ->
  (forall i o x r, nth_error h i = Some (o, OPut d x) -> nth_error rs i = Some r -> errs r = []) ->
  synced st' d.
Proof.
  induction h as [|[o p] t IH]; intros st st' rs d H Sy HP.
  - inversion H; subst. exact Sy.
  - rewrite run_cons in H. destruct (step o st p) as [st1 r] eqn:S1.
    destruct (run st1 t) as [st2 rs2] eqn:R. inversion H; subst.
    eapply IH; [exact R| |].
    + eapply step_synced; [exact S1|exact Sy|]. intros x ->. apply (HP 0 o x r); reflexivity.
    + intros i o' x r' N1 N2. apply (HP (S i) o' x r'); assumption.
Qed.

(** The round counter: every Get/GetCapabilities consults the replica
    opposite to the one the previous such operation consulted. *)
Theorem history_alternation_proof : forall h st st' rs,
  run st h = (st', rs) ->
  rnd st' = rnd st + length (filter bump_op (map snd h)).
Proof.
  induction h as [|[o p] t IH]; intros st st' rs H.
  - inversion H; subst. cbn. lia.
  - rewrite run_cons in H. destruct (step o st p) as [st1 r] eqn:S1.
    destruct (run st1 t) as [st2 rs2] eqn:R. inversion H; subst.
    rewrite (IH _ _ _ R). pose proof (step_rnd _ _ _ _ _ S1) as Hr. cbn [map snd filter].
    destruct (bump_op p); [destruct Hr as [-> _]; cbn; lia|rewrite Hr; lia].
Qed.
