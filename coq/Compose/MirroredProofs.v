(** C11 — proofs about the mirrored model. *)
From BBS Require Import Common.Sx Common.ListX Compose.Mirrored.
From Coq Require Import Arith.

Local Open Scope nat_scope.

(** * Stores *)
Lemma lookup_upd_eq s d x : lookup (upd s d x) d = Some x.
Proof. unfold upd. cbn. rewrite Nat.eqb_refl. reflexivity. Qed.

Lemma lookup_upd_neq s d x d' : d <> d' -> lookup (upd s d x) d' = lookup s d'.
Proof. intros H. unfold upd. cbn. apply Nat.eqb_neq in H. rewrite H. reflexivity. Qed.

Lemma other_other r : other (other r) = r.
Proof. destruct r; reflexivity. Qed.
Lemma other_neq r : other r <> r.
Proof. destruct r; discriminate. Qed.

Lemma sto_set_same st r s : sto (set_sto st r s) r = s.
Proof. destruct r; reflexivity. Qed.
Lemma sto_set_other st r s : sto (set_sto st r s) (other r) = sto st (other r).
Proof. destruct r; reflexivity. Qed.
Lemma sto_set_rnd st n r : sto (set_rnd st n) r = sto st r.
Proof. destruct r; reflexivity. Qed.
Lemma rnd_set_sto st r s : rnd (set_sto st r s) = rnd st.
Proof. destruct r; reflexivity. Qed.

(** * Replica calls *)
Lemma rget_cases o r s d :
  (exists x, rget o r s d = BData x /\ o r KGet d = 0%Z /\ lookup s d = Some x)
  \/ (rget o r s d = BErr NF r /\ ((o r KGet d = 0%Z /\ lookup s d = None) \/ o r KGet d = NF))
  \/ (exists c, rget o r s d = BErr c r /\ o r KGet d = c /\ c <> 0%Z /\ c <> NF).
Proof.
  unfold rget. destruct (Z.eqb_spec (o r KGet d) 0) as [E|E].
  - destruct (lookup s d) as [x|] eqn:L.
    + left. exists x. auto.
    + right. left. auto.
  - destruct (Z.eq_dec (o r KGet d) NF) as [E2|E2].
    + right. left. rewrite E2. auto.
    + right. right. exists (o r KGet d). auto.
Qed.

Lemma rget_origin o r s d c og : rget o r s d = BErr c og -> og = r /\ c <> 0%Z.
Proof.
  unfold rget. destruct (Z.eqb_spec (o r KGet d) 0).
  - destruct (lookup s d); [discriminate|]. intros H; inversion H; subst. split; [reflexivity|discriminate].
  - intros H; inversion H; subst. auto.
Qed.

Lemma rget_data o r s d x : rget o r s d = BData x -> o r KGet d = 0%Z /\ lookup s d = Some x.
Proof.
  unfold rget. destruct (Z.eqb_spec (o r KGet d) 0); [|discriminate].
  destruct (lookup s d); [|discriminate]. intros H; inversion H; subst. auto.
Qed.

Lemma rput_ok o r s d b s' : rput o r s d b = (s', None) ->
  o r KPut d = 0%Z /\ exists x, b = BData x /\ s' = upd s d x.
Proof.
  unfold rput. destruct (Z.eqb_spec (o r KPut d) 0); [|discriminate].
  destruct b; [|discriminate]. intros H; inversion H; subst. eauto.
Qed.

Lemma rput_fail o r s d b s' e : rput o r s d b = (s', Some e) ->
  s' = s /\ ((o r KPut d = fst e /\ fst e <> 0%Z /\ snd e = r)
             \/ (o r KPut d = 0%Z /\ b = BErr (fst e) (snd e))).
Proof.
  unfold rput. destruct (Z.eqb_spec (o r KPut d) 0).
  - destruct b; [discriminate|]. intros H; inversion H; subst. cbn. auto.
  - intros H; inversion H; subst. cbn. auto.
Qed.

(** * Put *)
Lemma put_branch_spec o r d x st st' e :
  put_branch o r d x st = (st', e) ->
  sto st' (other r) = sto st (other r) /\ rnd st' = rnd st
  /\ (forall d', lookup (sto st' r) d' = lookup (sto st r) d'
                 \/ (d' = d /\ lookup (sto st' r) d' = Some x /\ o r KPut d = 0%Z))
  /\ (e = [] -> lookup (sto st' r) d = Some x /\ o r KPut d = 0%Z)
  /\ (forall e', In e' e -> etag_of e' = TBackend r /\ ecode e' = o r KPut d /\ ecode e' <> 0%Z).
Proof.
  unfold put_branch. destruct (rput o r (sto st r) d (BData x)) as [s' [e0|]] eqn:P;
    intros H; inversion H; subst; clear H; rewrite sto_set_other, rnd_set_sto, sto_set_same.
  - apply rput_fail in P. destruct P as [-> P].
    split; [reflexivity|]. split; [reflexivity|]. split; [auto|]. split; [discriminate|].
    intros e' [<-|[]]. cbn. destruct P as [(P1 & P2 & _)|(_ & P2)]; [auto|discriminate].
  - apply rput_ok in P. destruct P as (Ho & x1 & E & ->). inversion E; subst x1.
    split; [reflexivity|]. split; [reflexivity|]. split; [|split; [|intros e' []]].
    + intros d'. destruct (Nat.eq_dec d d') as [<-|N].
      * right. rewrite lookup_upd_eq. auto.
      * left. apply lookup_upd_neq. exact N.
    + intros _. split; [apply lookup_upd_eq|exact Ho].
Qed.

Theorem put_ok_both_proof : forall o st d x st' r,
  m_put o st d x = (st', r) -> errs r = [] ->
  lookup (sA st') d = Some x /\ lookup (sB st') d = Some x.
Proof.
  intros o st d x st' r. unfold m_put.
  destruct (put_branch o RA d x st) as [st1 ea] eqn:B1.
  destruct (put_branch o RB d x st1) as [st2 eb] eqn:B2.
  intros H; inversion H; subst; clear H. cbn [errs]. intros E.
  apply app_eq_nil in E. destruct E as [-> ->].
  apply put_branch_spec in B1. apply put_branch_spec in B2.
  destruct B1 as (_ & _ & _ & A1 & _). destruct B2 as (O2 & _ & _ & A2 & _).
  destruct (A1 eq_refl) as [A1' _]. destruct (A2 eq_refl) as [A2' _].
  cbn in *. rewrite O2. auto.
Qed.

(** A replica is changed by an upload only at the uploaded digest, and only
    by storing the uploaded content; a failing branch leaves it unchanged. *)
Lemma put_frame : forall o st d x st' r,
  m_put o st d x = (st', r) ->
  rnd st' = rnd st /\
  forall y d', lookup (sto st' y) d' = lookup (sto st y) d'
               \/ (d' = d /\ lookup (sto st' y) d' = Some x /\ o y KPut d = 0%Z).
Proof.
  intros o st d x st' r. unfold m_put.
  destruct (put_branch o RA d x st) as [st1 ea] eqn:B1.
  destruct (put_branch o RB d x st1) as [st2 eb] eqn:B2.
  intros H; inversion H; subst; clear H.
  apply put_branch_spec in B1. apply put_branch_spec in B2.
  destruct B1 as (O1 & R1 & F1 & _). destruct B2 as (O2 & R2 & F2 & _).
  split; [congruence|]. intros [] d'; cbn in *.
  - rewrite O2. apply F1.
  - rewrite <- O1. apply F2.
Qed.

(** The two goroutines of [Put] touch disjoint replicas: their order is irrelevant. *)
Lemma put_branches_commute_proof : forall o d x st,
  let '(s1, e1) := put_branch o RA d x st in
  let '(s2, e2) := put_branch o RB d x s1 in
  let '(t1, f1) := put_branch o RB d x st in
  let '(t2, f2) := put_branch o RA d x t1 in
  s2 = t2 /\ e1 = f2 /\ e2 = f1.
Proof.
  intros o d x st. unfold put_branch. cbn.
  destruct (rput o RA (sA st) d (BData x)) as [sa' [ea|]] eqn:Ha;
  destruct (rput o RB (sB st) d (BData x)) as [sb' [eb|]] eqn:Hb; cbn;
  rewrite ?Ha, ?Hb; cbn; auto.
Qed.

(** * Get *)
Definition firstR (st : mstate) : rid := first_of (S (rnd st)).

Lemma get_rnd o st d st' r : m_get o st d = (st', r) -> rnd st' = S (rnd st).
Proof.
  unfold m_get.
  destruct (rget o _ _ d) as [x|c og]; [intros H; inversion H; reflexivity|].
  destruct (c =? NF)%Z; [|intros H; inversion H; reflexivity].
  destruct (rget o (other _) _ d) as [x|c2 og2]; [|intros H; inversion H; reflexivity].
  destruct (rput _ _ _ _ _) as [s' [e|]]; intros H; inversion H; try reflexivity.
  rewrite rnd_set_sto. reflexivity.
Qed.

(** For every oracle: a successful read returns a content that one of the
    replicas held, and afterwards the first-consulted replica holds it; the
    other replica is never touched, and the first-consulted one only at [d]. *)
Theorem get_ok_sound_proof : forall o st d st' r,
  m_get o st d = (st', r) -> errs r = [] ->
  exists x, okv r = [x]
    /\ (lookup (sto st (firstR st)) d = Some x
        \/ (lookup (sto st (other (firstR st))) d = Some x
            /\ rget o (firstR st) (sto st (firstR st)) d = BErr NF (firstR st)))
    /\ lookup (sto st' (firstR st)) d = Some x.
Proof.
  intros o st d st' r. unfold m_get. fold (firstR st). set (F := firstR st).
  destruct (rget o F (sto st F) d) as [x|c og] eqn:G1.
  - intros H; inversion H; subst; cbn. intros _. exists x.
    apply rget_data in G1. destruct G1 as [_ L]. rewrite sto_set_rnd. auto.
  - destruct (Z.eqb_spec c NF) as [->|N]; [|intros H; inversion H; subst; cbn; discriminate].
    destruct (rget o (other F) (sto st (other F)) d) as [x|c2 og2] eqn:G2;
      [|intros H; inversion H; subst; cbn; unfold sel_wrap; cbn; destruct (c2 =? NF)%Z; discriminate].
    destruct (rput o F (sto st F) d (BData x)) as [s' [e|]] eqn:P.
    + intros H; inversion H; subst; cbn. unfold sel_wrap. destruct (fst e =? NF)%Z; discriminate.
    + intros H; inversion H; subst; cbn. intros _. exists x.
      apply rget_data in G2. destruct G2 as [_ L2].
      apply rput_ok in P. destruct P as (_ & x1 & E & ->). inversion E; subst.
      rewrite sto_set_same, lookup_upd_eq.
      destruct (rget_origin _ _ _ _ _ _ G1) as [-> _]. auto.
Qed.

Lemma get_frame : forall o st d st' r,
  m_get o st d = (st', r) ->
  sto st' (other (firstR st)) = sto st (other (firstR st))
  /\ forall d', lookup (sto st' (firstR st)) d' = lookup (sto st (firstR st)) d'
       \/ (d' = d /\ errs r = []
           /\ rget o (firstR st) (sto st (firstR st)) d = BErr NF (firstR st)
           /\ lookup (sto st (other (firstR st))) d <> None
           /\ lookup (sto st' (firstR st)) d' = lookup (sto st (other (firstR st))) d).
Proof.
  intros o st d st' r. unfold m_get. fold (firstR st). set (F := firstR st).
  destruct (rget o F (sto st F) d) as [x|c og] eqn:G1.
  { intros H; inversion H; subst. rewrite !sto_set_rnd. auto. }
  destruct (Z.eqb_spec c NF) as [->|N]; [|intros H; inversion H; subst; rewrite !sto_set_rnd; auto].
  destruct (rget o (other F) (sto st (other F)) d) as [x|c2 og2] eqn:G2;
    [|intros H; inversion H; subst; rewrite !sto_set_rnd; auto].
  destruct (rput o F (sto st F) d (BData x)) as [s' [e|]] eqn:P;
    intros H; inversion H; subst; [rewrite !sto_set_rnd; auto|].
  rewrite sto_set_other, sto_set_same, !sto_set_rnd. split; [reflexivity|].
  apply rput_ok in P. destruct P as (_ & x1 & E & ->). inversion E; subst.
  apply rget_data in G2. destruct G2 as [_ L2].
  destruct (rget_origin _ _ _ _ _ _ G1) as [-> _].
  intros d'. destruct (Nat.eq_dec d d') as [<-|Nd].
  - right. rewrite lookup_upd_eq, L2. repeat split; auto. discriminate.
  - left. apply lookup_upd_neq. exact Nd.
Qed.

(** Absent faults: success iff at least one replica holds the object; the
    content is the first-consulted replica's if it holds one, else the
    other's; a failure is a plain NOT_FOUND. *)
Theorem get_iff_either_proof : forall o st d st' r,
  no_faults o -> m_get o st d = (st', r) ->
  (errs r = [] <-> (lookup (sA st) d <> None \/ lookup (sB st) d <> None))
  /\ (errs r <> [] -> errs r = [mkerr NF TNone (other (firstR st))] /\ okv r = [])
  /\ (forall x, lookup (sto st (firstR st)) d = Some x -> okv r = [x])
  /\ (forall x, lookup (sto st (firstR st)) d = None ->
                lookup (sto st (other (firstR st))) d = Some x -> okv r = [x]).
Proof.
  intros o st d st' r NFo. unfold m_get, rget, rput. rewrite !NFo. cbn [Z.eqb].
  fold (firstR st). set (F := firstR st).
  assert (HE : (lookup (sA st) d <> None \/ lookup (sB st) d <> None)
               <-> (lookup (sto st F) d <> None \/ lookup (sto st (other F)) d <> None)).
  { destruct F; cbn; tauto. }
  rewrite HE. clear HE.
  destruct (lookup (sto st F) d) as [x|] eqn:L1.
  - intros H; inversion H; subst; cbn.
    split; [split; [intros _; left; discriminate|reflexivity]|].
    split; [intros C; contradiction C; reflexivity|].
    split; [intros x0 E; inversion E; reflexivity|discriminate].
  - change (NF =? NF)%Z with true. cbn iota.
    destruct (lookup (sto st (other F)) d) as [x|] eqn:L2.
    + intros H; inversion H; subst; cbn.
      split; [split; [intros _; right; discriminate|reflexivity]|].
      split; [intros C; contradiction C; reflexivity|].
      split; [discriminate|intros x0 _ E; inversion E; reflexivity].
    + intros H; inversion H; subst; cbn. unfold sel_wrap. cbn.
      split; [split; [discriminate|intros [C|C]; congruence]|].
      split; [intros _; split; reflexivity|].
      split; discriminate.
Qed.

Theorem get_repairs_first_consulted_proof : forall o st d x st' r,
  no_faults o -> m_get o st d = (st', r) ->
  lookup (sto st (firstR st)) d = None ->
  lookup (sto st (other (firstR st))) d = Some x ->
  errs r = [] /\ okv r = [x]
  /\ lookup (sto st' (firstR st)) d = Some x
  /\ sto st' (other (firstR st)) = sto st (other (firstR st))
  /\ (forall d', d' <> d -> lookup (sto st' (firstR st)) d' = lookup (sto st (firstR st)) d').
Proof.
  intros o st d x st' r NFo H L1 L2.
  destruct (get_iff_either_proof o st d st' r NFo H) as (Hiff & _ & _ & Hv).
  assert (E : errs r = []).
  { apply Hiff. destruct (firstR st); cbn in *; [right|left]; congruence. }
  destruct (get_ok_sound_proof o st d st' r H E) as (x' & Hx & _ & Hpost).
  rewrite (Hv x L1 L2) in Hx. inversion Hx; subst x'.
  destruct (get_frame o st d st' r H) as (Ho & Hf).
  repeat split; auto.
  intros d' Nd. destruct (Hf d') as [Hd|(Hd & _)]; [exact Hd|contradiction].
Qed.

(** Exact attribution of read failures (c is a failure other than NOT_FOUND). *)
Lemma get_first_failure o st d st' r c :
  m_get o st d = (st', r) -> c <> 0%Z -> c <> NF -> o (firstR st) KGet d = c ->
  errs r = [mkerr c (TBackend (firstR st)) (firstR st)].
Proof.
  unfold m_get. fold (firstR st). intros H C0 CN E. revert H. unfold rget at 1. rewrite E.
  destruct (Z.eqb_spec c 0); [contradiction|].
  destruct (Z.eqb_spec c NF); [contradiction|].
  intros H; inversion H; reflexivity.
Qed.

Lemma get_second_failure o st d st' r c :
  m_get o st d = (st', r) -> c <> 0%Z -> c <> NF ->
  rget o (firstR st) (sto st (firstR st)) d = BErr NF (firstR st) ->
  o (other (firstR st)) KGet d = c ->
  errs r = [mkerr c (TBackend (other (firstR st))) (other (firstR st))].
Proof.
  unfold m_get. fold (firstR st). intros H C0 CN G1 E. revert H. rewrite G1.
  change (NF =? NF)%Z with true. cbn iota.
  unfold rget at 1. rewrite E. destruct (Z.eqb_spec c 0); [contradiction|].
  intros H; inversion H; cbn. unfold sel_wrap; cbn.
  destruct (Z.eqb_spec c NF); [contradiction|]. reflexivity.
Qed.

(** A failing repair upload on the first-consulted replica comes back under
    the name of the SECOND backend (the replication source), carrying the
    first replica's answer; nothing is stored. *)
Lemma get_repair_failure o st d st' r c x :
  m_get o st d = (st', r) -> c <> 0%Z -> c <> NF ->
  rget o (firstR st) (sto st (firstR st)) d = BErr NF (firstR st) ->
  rget o (other (firstR st)) (sto st (other (firstR st))) d = BData x ->
  o (firstR st) KPut d = c ->
  errs r = [mkerr c (TBackend (other (firstR st))) (firstR st)]
  /\ sA st' = sA st /\ sB st' = sB st.
Proof.
  unfold m_get. fold (firstR st). intros H C0 CN G1 G2 E. revert H. rewrite G1.
  change (NF =? NF)%Z with true. cbn iota. rewrite G2.
  unfold rput. rewrite E. destruct (Z.eqb_spec c 0); [contradiction|].
  intros H; inversion H; cbn. unfold sel_wrap; cbn.
  destruct (Z.eqb_spec c NF); [contradiction|]. auto.
Qed.
