(** C11 — proofs about FindMissing of the mirrored model: the sorted merge,
    the replication loop, the existence-check theorems. *)
From BBS Require Import Common.Sx Common.ListX Compose.Mirrored Compose.MirroredProofs.
From Coq Require Import Arith.
Local Open Scope nat_scope.

(** * Sorted lists *)
Lemma ss_cons_iff x l : strictly_sorted (x :: l) <-> (Forall (lt x) l /\ strictly_sorted l).
Proof.
  revert x. induction l as [|y l IH]; intros x.
  - split; [intros _; split; constructor|intros _; constructor].
  - split.
    + intros H. inversion H; subst. split; [|assumption].
      constructor; [assumption|].
      apply IH in H4. destruct H4 as [F _].
      eapply Forall_impl; [|exact F]. cbn. intros; lia.
    + intros [F S]. inversion F; subst. constructor; assumption.
Qed.

Lemma ss_filter f l : strictly_sorted l -> strictly_sorted (filter f l).
Proof.
  induction l as [|x l IH]; cbn; [auto|].
  intros H. apply ss_cons_iff in H. destruct H as [F S].
  destruct (f x); [|auto].
  apply ss_cons_iff. split; [|auto].
  apply Forall_forall. intros y Hy. apply filter_In in Hy.
  rewrite Forall_forall in F. apply F. tauto.
Qed.

Definition mem (d : nat) (l : list nat) : bool := existsb (Nat.eqb d) l.
Lemma mem_In d l : mem d l = true <-> In d l.
Proof.
  unfold mem. rewrite existsb_exists. split.
  - intros (y & Hy & E). apply Nat.eqb_eq in E. subst. assumption.
  - intros H. exists d. split; [assumption|apply Nat.eqb_refl].
Qed.
Lemma mem_false d l : mem d l = false <-> ~ In d l.
Proof. rewrite <- mem_In. destruct (mem d l); split; intros; congruence. Qed.

Lemma lt_all_not_in x l : Forall (lt x) l -> forall y, y <= x -> ~ In y l.
Proof. intros F y Hy Hin. rewrite Forall_forall in F. apply F in Hin. lia. Qed.

Lemma filter_cons {T} (f : T -> bool) x l :
  filter f (x :: l) = if f x then x :: filter f l else filter f l.
Proof. reflexivity. Qed.

(** * The merge computes differences and intersection *)
Lemma diff_inter_spec : forall a b, strictly_sorted a -> strictly_sorted b ->
  diff_inter a b = (filter (fun d => negb (mem d b)) a,
                    filter (fun d => mem d b) a,
                    filter (fun d => negb (mem d a)) b).
Proof.
  induction a as [|x a IHa].
  - intros b _ _. cbn. f_equal. induction b as [|y b IH]; cbn; [reflexivity|]. f_equal. exact IH.
  - induction b as [|y b IHb]; intros Sa Sb.
    + cbn [diff_inter]. cbn [filter mem existsb negb]. f_equal. f_equal.
      * f_equal. clear. induction a; cbn; [reflexivity|]. f_equal. assumption.
      * clear. induction a; cbn; [reflexivity|]. assumption.
    + pose proof Sa as Sa'. pose proof Sb as Sb'.
      apply ss_cons_iff in Sa'. destruct Sa' as [Fa Sa'].
      apply ss_cons_iff in Sb'. destruct Sb' as [Fb Sb'].
      change (diff_inter (x :: a) (y :: b)) with
        (if Nat.ltb x y then let '(oa, bo, ob) := diff_inter a (y :: b) in (x :: oa, bo, ob)
         else if Nat.eqb x y then let '(oa, bo, ob) := diff_inter a b in (oa, x :: bo, ob)
         else let '(oa, bo, ob) := diff_inter (x :: a) b in (oa, bo, y :: ob)).
      destruct (Nat.ltb_spec x y) as [Lt|Ge].
      * (* x < y: x is in a only *)
        rewrite (IHa (y :: b) Sa' Sb).
        assert (Hx : mem x (y :: b) = false).
        { apply mem_false. intros [E|Hin]; [lia|].
          revert Hin. apply (lt_all_not_in y b Fb). lia. }
        rewrite !(filter_cons _ x a), Hx. cbn [negb]. apply (f_equal2 pair); [reflexivity|].
        apply filter_ext_in. intros d Hd. f_equal. cbn [mem existsb].
        destruct (Nat.eqb_spec d x) as [->|]; [|reflexivity].
        exfalso. apply mem_false in Hx. contradiction.
      * destruct (Nat.eqb_spec x y) as [E|Ne].
        -- (* x = y: in both *)
           subst y. rewrite (IHa b Sa' Sb').
           assert (Hxa : forall d, In d a -> Nat.eqb d x = false).
           { intros d Hd. apply Nat.eqb_neq. intros ->. revert Hd. apply (lt_all_not_in x a Fa). lia. }
           assert (Hxb : forall d, In d b -> Nat.eqb d x = false).
           { intros d Hd. apply Nat.eqb_neq. intros ->. revert Hd. apply (lt_all_not_in x b Fb). lia. }
           rewrite !(filter_cons _ x a), (filter_cons _ x b).
           cbn [mem existsb]. rewrite Nat.eqb_refl. cbn [orb negb]. apply (f_equal2 pair); [apply (f_equal2 pair)|].
           ++ apply filter_ext_in. intros d Hd. cbn [mem existsb]. rewrite (Hxa d Hd). reflexivity.
           ++ f_equal. apply filter_ext_in. intros d Hd. cbn [mem existsb]. rewrite (Hxa d Hd). reflexivity.
           ++ apply filter_ext_in. intros d Hd. cbn [mem existsb]. rewrite (Hxb d Hd). reflexivity.
        -- (* y < x: y is in b only *)
           assert (Lt : y < x) by lia.
           rewrite (IHb Sa Sb').
           assert (Hy : mem y (x :: a) = false).
           { apply mem_false. intros [E|Hin]; [lia|].
             revert Hin. apply (lt_all_not_in x a Fa). lia. }
           rewrite (filter_cons _ y b), Hy. cbn [negb]. apply (f_equal2 pair); [apply (f_equal2 pair)|reflexivity].
           ++ apply filter_ext_in. intros d Hd. f_equal. cbn [mem existsb].
              destruct (Nat.eqb_spec d y) as [->|]; [|reflexivity].
              exfalso. apply mem_false in Hy. contradiction.
           ++ apply filter_ext_in. intros d Hd. cbn [mem existsb].
              destruct (Nat.eqb_spec d y) as [->|]; [|reflexivity].
              exfalso. apply mem_false in Hy. contradiction.
Qed.

Lemma in_only (f g : nat -> bool) ds d :
  In d (filter (fun d => negb (mem d (filter g ds))) (filter f ds))
  <-> (In d ds /\ f d = true /\ g d = false).
Proof.
  rewrite filter_In, filter_In. split.
  - intros [[Hd Hf] Hm]. repeat split; auto.
    apply Bool.negb_true_iff, mem_false in Hm.
    destruct (g d) eqn:G; [|reflexivity]. exfalso. apply Hm. apply filter_In. auto.
  - intros (Hd & Hf & Hg). repeat split; auto.
    apply Bool.negb_true_iff, mem_false. intros Hin. apply filter_In in Hin. destruct Hin; congruence.
Qed.

Lemma both_eq (f g : nat -> bool) ds :
  filter (fun d => mem d (filter g ds)) (filter f ds) = filter (fun d => f d && g d) ds.
Proof.
  assert (H : forall l, (forall d, In d l -> In d ds) ->
            filter (fun d => mem d (filter g ds)) (filter f l) = filter (fun d => f d && g d) l).
  { induction l as [|x l IH]; intros Hs; cbn; [reflexivity|].
    assert (IH' := IH (fun d Hd => Hs d (or_intror Hd))).
    destruct (f x) eqn:Fx; cbn [andb].
    - cbn [filter]. destruct (g x) eqn:Gx.
      + assert (M : mem x (filter g ds) = true).
        { apply mem_In, filter_In. split; [apply Hs; left; reflexivity|assumption]. }
        rewrite M. f_equal. exact IH'.
      + assert (M : mem x (filter g ds) = false).
        { apply mem_false. intros Hin. apply filter_In in Hin. destruct Hin; congruence. }
        rewrite M. exact IH'.
    - exact IH'. }
  apply H. auto.
Qed.

(** * The replication loop *)
Lemma repl_multi_spec o src : forall l st st' e cs,
  repl_multi o src (other src) st l = (st', e, cs) ->
  sto st' src = sto st src /\ rnd st' = rnd st
  /\ (forall d, lookup (sto st' (other src)) d = lookup (sto st (other src)) d
        \/ (In d l /\ lookup (sto st src) d <> None
            /\ lookup (sto st' (other src)) d = lookup (sto st src) d))
  /\ (e = None ->
        (forall d, In d l -> lookup (sto st src) d <> None
                             /\ lookup (sto st' (other src)) d = lookup (sto st src) d)
        /\ (forall c, In c cs -> ocall o c = 0%Z)).
Proof.
  induction l as [|d t IH]; intros st st' e cs; cbn [repl_multi].
  - intros H; inversion H; subst. split; [reflexivity|]. split; [reflexivity|]. split; [auto|].
    intros _. split; intros ? [].
  - destruct (rget o src (sto st src) d) as [x|c og] eqn:G.
    + destruct (rput o (other src) (sto st (other src)) d (BData x)) as [s' [pe|]] eqn:P.
      * intros H; inversion H; subst. split; [reflexivity|]. split; [reflexivity|]. split; [auto|discriminate].
      * apply rput_ok in P. destruct P as (Po & x1 & E & ->). inversion E; subst x1.
        apply rget_data in G. destruct G as [Go L].
        destruct (repl_multi o src (other src) (set_sto st (other src) (upd (sto st (other src)) d x)) t)
          as [[st1 e1] cs1] eqn:R.
        intros H; inversion H; subst; clear H.
        apply IH in R. destruct R as (R1 & R2 & R3 & R4).
        assert (Hs : sto (set_sto st (other src) (upd (sto st (other src)) d x)) src = sto st src).
        { destruct src; reflexivity. }
        rewrite Hs in *. rewrite rnd_set_sto in R2. rewrite sto_set_same in R3.
        assert (F3 : forall d0, lookup (sto st' (other src)) d0 = lookup (sto st (other src)) d0
                   \/ (In d0 (d :: t) /\ lookup (sto st src) d0 <> None
                       /\ lookup (sto st' (other src)) d0 = lookup (sto st src) d0)).
        { intros d0. destruct (R3 d0) as [Eq|(I & N & Eq)].
          - rewrite Eq. destruct (Nat.eq_dec d d0) as [<-|Nd].
            + right. rewrite lookup_upd_eq, L. repeat split; [left; reflexivity|discriminate].
            + left. apply lookup_upd_neq. exact Nd.
          - right. repeat split; auto. right. exact I. }
        split; [exact R1|]. split; [exact R2|]. split; [exact F3|].
        intros ->. destruct (R4 eq_refl) as [R5 R6]. split.
        -- intros d0 [<-|I]; [|apply R5; exact I].
           rewrite L. split; [discriminate|].
           destruct (R3 d) as [Eq|(_ & _ & Eq)]; rewrite Eq; [apply lookup_upd_eq|exact L].
        -- intros c0 [<-|[<-|I]]; cbn; auto.
    + destruct (rput o (other src) (sto st (other src)) d (BErr c og)) as [s' [pe|]] eqn:P.
      * intros H; inversion H; subst. split; [reflexivity|]. split; [reflexivity|]. split; [auto|discriminate].
      * apply rput_ok in P. destruct P as (_ & x1 & E & _). discriminate.
Qed.

Lemma rfm_cases o r s ds :
  (rfm o r s ds = inr (filter (absent s) ds) /\ o r KFM 0 = 0%Z)
  \/ (exists c, rfm o r s ds = inl (c, r) /\ o r KFM 0 = c /\ c <> 0%Z).
Proof.
  unfold rfm. destruct (Z.eqb_spec (o r KFM 0) 0); [left; auto|right; eauto].
Qed.

Lemma absent_true s d : absent s d = true <-> lookup s d = None.
Proof. unfold absent. destruct (lookup s d); split; congruence. Qed.
Lemma absent_false s d : absent s d = false <-> lookup s d <> None.
Proof. unfold absent. destruct (lookup s d); split; congruence. Qed.

(** The shape of a FindMissing run whose two existence checks succeeded. *)
Lemma m_fm_unfold o st ds0 st' r :
  m_fm o st ds0 = (st', r) ->
  let ds := dedup_sort ds0 in
  let mfA := filter (fun d => negb (mem d (filter (absent (sB st)) ds))) (filter (absent (sA st)) ds) in
  let mfB := filter (fun d => negb (mem d (filter (absent (sA st)) ds))) (filter (absent (sB st)) ds) in
  (exists st1 e1 c1 e2 c2,
      o RA KFM 0 = 0%Z /\ o RB KFM 0 = 0%Z
      /\ repl_multi o RA RB st mfB = (st1, e1, c1)
      /\ repl_multi o RB RA st1 mfA = (st', e2, c2)
      /\ errs r = opt_list (option_map (sync_wrap RA) e1) ++ opt_list (option_map (sync_wrap RB) e2)
      /\ okv r = (if is_nil (errs r) then filter (fun d => absent (sA st) d && absent (sB st) d) ds else [])
      /\ calls r = [(RA, KFM, 0); (RB, KFM, 0)] ++ c1 ++ c2)
  \/ (st' = st /\ errs r <> [] /\ okv r = [] /\ calls r = [(RA, KFM, 0); (RB, KFM, 0)]
      /\ forall e, In e (errs r) ->
           exists y, etag_of e = TBackend y /\ ecode e = o y KFM 0 /\ ecode e <> 0%Z).
Proof.
  intros H ds mfA mfB. unfold m_fm in H. fold ds in H.
  destruct (rfm_cases o RA (sA st) ds) as [[EA OA]|(ca & EA & OA & NA)];
  destruct (rfm_cases o RB (sB st) ds) as [[EB OB]|(cb & EB & OB & NB)];
  rewrite EA, EB in H.
  - left.
    assert (SD : strictly_sorted ds) by apply dedup_sort_sorted.
    rewrite (diff_inter_spec _ _ (ss_filter _ _ SD) (ss_filter _ _ SD)) in H.
    fold mfA mfB in H.
    destruct (repl_multi o RA RB st mfB) as [[st1 e1] c1] eqn:R1.
    destruct (repl_multi o RB RA st1 mfA) as [[st2 e2] c2] eqn:R2.
    inversion H; subst; clear H. cbn [errs okv calls].
    exists st1, e1, c1, e2, c2. rewrite both_eq. repeat split; auto.
  - right. inversion H; subst; cbn. repeat split; auto; try discriminate.
    intros e [<-|[]]. exists RB. cbn. auto.
  - right. inversion H; subst; cbn. repeat split; auto; try discriminate.
    intros e [<-|[]]. exists RA. cbn. auto.
  - right. inversion H; subst; cbn. repeat split; auto; try discriminate.
    intros e [<-|[<-|[]]]; [exists RA|exists RB]; cbn; auto.
Qed.

(** * FindMissing theorems *)

(** Whatever the outcome (also when a replication fails half-way): nothing is
    lost or altered; an object appears in a replica only if it was requested,
    the replica lacked it, and it is the other replica's copy. *)
Theorem fm_frame_proof : forall o st ds0 st' r,
  m_fm o st ds0 = (st', r) ->
  rnd st' = rnd st /\
  forall y d, lookup (sto st' y) d = lookup (sto st y) d
    \/ (In d ds0 /\ lookup (sto st y) d = None /\ lookup (sto st (other y)) d <> None
        /\ lookup (sto st' y) d = lookup (sto st (other y)) d).
Proof.
  intros o st ds0 st' r H. destruct (m_fm_unfold _ _ _ _ _ H)
    as [(st1 & e1 & c1 & e2 & c2 & _ & _ & R1 & R2 & _)|(-> & _)]; [|auto].
  apply (repl_multi_spec o RA) in R1. apply (repl_multi_spec o RB) in R2. cbn [other sto] in *.
  destruct R1 as (A1 & N1 & F1 & _). destruct R2 as (A2 & N2 & F2 & _).
  split; [congruence|]. intros y d.
  assert (HB : lookup (sB st1) d = lookup (sB st) d
               \/ (In d ds0 /\ lookup (sB st) d = None /\ lookup (sA st) d <> None
                   /\ lookup (sB st1) d = lookup (sA st) d)).
  { destruct (F1 d) as [E|(I & N & E)]; [left; exact E|right].
    apply in_only in I. destruct I as (I & Ab & Aa).
    rewrite dedup_sort_in in I. rewrite absent_true in Ab. repeat split; assumption. }
  destruct y; cbn [sto other].
  - destruct (F2 d) as [E|(I & N & E)]; [left; congruence|right].
    apply in_only in I. destruct I as (I & Aa & Ab).
    rewrite dedup_sort_in in I. rewrite absent_true in Aa. rewrite absent_false in Ab.
    destruct HB as [E'|(_ & C & _)]; [|contradiction].
    rewrite E' in E. auto.
  - rewrite A2. exact HB.
Qed.

(** On success the answer is exactly the requested objects both replicas
    lack, and every requested object a replica lacked is now its copy of what
    the other replica held (so objects held by exactly one were copied). *)
Theorem fm_ok_proof : forall o st ds0 st' r,
  m_fm o st ds0 = (st', r) -> errs r = [] ->
  okv r = filter (fun d => absent (sA st) d && absent (sB st) d) (dedup_sort ds0)
  /\ (forall y d, In d ds0 -> lookup (sto st y) d = None ->
                  lookup (sto st' y) d = lookup (sto st (other y)) d)
  /\ (forall c, In c (calls r) -> ocall o c = 0%Z).
Proof.
  intros o st ds0 st' r H E.
  destruct (fm_frame_proof _ _ _ _ _ H) as [_ Fr].
  destruct (m_fm_unfold _ _ _ _ _ H)
    as [(st1 & e1 & c1 & e2 & c2 & OA & OB & R1 & R2 & He & Hv & Hc)|(_ & Ne & _)]; [|contradiction].
  rewrite E in Hv. cbn in Hv. split; [exact Hv|].
  rewrite E in He. symmetry in He. apply app_eq_nil in He. destruct He as [He1 He2].
  assert (e1 = None) by (destruct e1; [discriminate|reflexivity]).
  assert (e2 = None) by (destruct e2; [discriminate|reflexivity]). subst e1 e2.
  apply (repl_multi_spec o RA) in R1. apply (repl_multi_spec o RB) in R2. cbn [other sto] in *.
  destruct R1 as (A1 & _ & F1 & S1). destruct R2 as (A2 & _ & F2 & S2).
  destruct (S1 eq_refl) as [S1a S1c]. destruct (S2 eq_refl) as [S2a S2c]. split.
  - intros y d I L.
    destruct (lookup (sto st (other y)) d) as [x|] eqn:Lo.
    + (* the other replica holds it: it was replicated *)
      rewrite <- dedup_sort_in in I. destruct y; cbn [sto other] in *.
      * assert (Im : In d (filter (fun d => negb (mem d (filter (absent (sB st)) (dedup_sort ds0))))
                                  (filter (absent (sA st)) (dedup_sort ds0)))).
        { apply in_only. repeat split; [exact I|apply absent_true; exact L|apply absent_false; congruence]. }
        destruct (S2a d Im) as [_ Eq]. rewrite Eq.
        destruct (F1 d) as [E1|(I1 & _)]; [congruence|].
        apply in_only in I1. destruct I1 as (_ & _ & C). rewrite absent_false in C. contradiction.
      * assert (Im : In d (filter (fun d => negb (mem d (filter (absent (sA st)) (dedup_sort ds0))))
                                  (filter (absent (sB st)) (dedup_sort ds0)))).
        { apply in_only. repeat split; [exact I|apply absent_true; exact L|apply absent_false; congruence]. }
        destruct (S1a d Im) as [_ Eq]. rewrite A2, Eq. exact Lo.
    + destruct (Fr y d) as [Eq|(_ & _ & C & _)]; [congruence|contradiction].
  - intros c Hin. rewrite Hc in Hin. cbn [app] in Hin.
    destruct Hin as [<-|[<-|Hin]]; [exact OA|exact OB|].
    apply in_app_or in Hin. destruct Hin; auto.
Qed.

Theorem fm_missing_iff_both_missing_proof : forall o st ds0 st' r,
  m_fm o st ds0 = (st', r) -> errs r = [] ->
  forall d, In d (okv r) <-> (In d ds0 /\ lookup (sA st) d = None /\ lookup (sB st) d = None).
Proof.
  intros o st ds0 st' r H E d.
  destruct (fm_ok_proof _ _ _ _ _ H E) as (-> & _).
  rewrite filter_In, dedup_sort_in, Bool.andb_true_iff, !absent_true. tauto.
Qed.

Theorem fm_ok_repairs_symmetric_difference_proof : forall o st ds0 st' r,
  m_fm o st ds0 = (st', r) -> errs r = [] ->
  forall d, In d ds0 ->
    (forall x, lookup (sA st) d = Some x -> lookup (sB st) d = None ->
               lookup (sB st') d = Some x /\ lookup (sA st') d = Some x)
    /\ (forall x, lookup (sB st) d = Some x -> lookup (sA st) d = None ->
               lookup (sA st') d = Some x /\ lookup (sB st') d = Some x)
    /\ (lookup (sA st') d = None <-> lookup (sB st') d = None).
Proof.
  intros o st ds0 st' r H E d I.
  destruct (fm_ok_proof _ _ _ _ _ H E) as (_ & Rep & _).
  destruct (fm_frame_proof _ _ _ _ _ H) as [_ Fr].
  pose proof (Rep RA d I) as RA'. pose proof (Rep RB d I) as RB'.
  pose proof (Fr RA d) as FA. pose proof (Fr RB d) as FB. cbn [sto other] in *.
  repeat split.
  - rewrite (RB' H1). exact H0.
  - destruct FA as [Eq|(_ & C1 & C2 & _)]; congruence.
  - rewrite (RA' H1). exact H0.
  - destruct FB as [Eq|(_ & C1 & C2 & _)]; congruence.
  - intros N. destruct (lookup (sA st) d) eqn:LA.
    + destruct FA as [Eq|(_ & C1 & C2 & _)]; congruence.
    + rewrite (RA' eq_refl) in N. destruct FB as [Eq|(_ & C1 & C2 & _)]; congruence.
  - intros N. destruct (lookup (sB st) d) eqn:LB.
    + destruct FB as [Eq|(_ & C1 & C2 & _)]; congruence.
    + rewrite (RB' eq_refl) in N. destruct FA as [Eq|(_ & C1 & C2 & _)]; congruence.
Qed.

(** Absent faults the existence check succeeds. *)
Lemma repl_multi_no_faults o src : no_faults o -> forall l st,
  (forall d, In d l -> lookup (sto st src) d <> None) ->
  exists st' cs, repl_multi o src (other src) st l = (st', None, cs).
Proof.
  intros NFo. induction l as [|d t IH]; intros st Hl; cbn [repl_multi]; [eauto|].
  unfold rget, rput. rewrite !NFo. cbn [Z.eqb].
  destruct (lookup (sto st src) d) as [x|] eqn:L; [|exfalso; apply (Hl d); [left; reflexivity|exact L]].
  destruct (IH (set_sto st (other src) (upd (sto st (other src)) d x))) as (st' & cs & R).
  { intros d0 I. replace (sto (set_sto st (other src) (upd (sto st (other src)) d x)) src) with (sto st src)
      by (destruct src; reflexivity). apply Hl. right. exact I. }
  rewrite R. eauto.
Qed.

Theorem fm_no_faults_ok_proof : forall o st ds0 st' r,
  no_faults o -> m_fm o st ds0 = (st', r) -> errs r = [].
Proof.
  intros o st ds0 st' r NFo H.
  destruct (m_fm_unfold _ _ _ _ _ H)
    as [(st1 & e1 & c1 & e2 & c2 & _ & _ & R1 & R2 & He & _)|(_ & _ & _ & _ & Hall)].
  - destruct (repl_multi_no_faults o RA NFo
               (filter (fun d => negb (mem d (filter (absent (sA st)) (dedup_sort ds0))))
                       (filter (absent (sB st)) (dedup_sort ds0))) st) as (st1' & cs1 & Q1).
    { intros d I. apply in_only in I. destruct I as (_ & _ & I). rewrite absent_false in I. exact I. }
    cbn [other] in Q1. rewrite Q1 in R1. inversion R1; subst.
    destruct (repl_multi_no_faults o RB NFo
               (filter (fun d => negb (mem d (filter (absent (sB st)) (dedup_sort ds0))))
                       (filter (absent (sA st)) (dedup_sort ds0))) st1) as (st2' & cs2 & Q2).
    { intros d I. apply in_only in I. destruct I as (_ & Aa & I). rewrite absent_false in I.
      apply (repl_multi_spec o RA) in Q1. destruct Q1 as (_ & _ & F1 & _). cbn [other sto] in *.
      destruct (F1 d) as [Eq|(Im & _)]; [congruence|].
      apply in_only in Im. destruct Im as (_ & _ & C). congruence. }
    cbn [other] in Q2. rewrite Q2 in R2. inversion R2; subst. exact He.
  - destruct (errs r) as [|e l]; [reflexivity|].
    destruct (Hall e (or_introl eq_refl)) as (y & _ & Ec & Ne). rewrite NFo in Ec. contradiction.
Qed.
