(** C17: invariants of the replicator-decorator transition system, for every
    trace accepted by [run] (any number of callers, any interleaving of the
    atomic steps, any faults, cancellations and clock advances). *)
From Coq Require Import List ZArith NArith Bool Arith Lia.
From BBS Require Import Common.ListX Compose.ExistenceCache Compose.Replicators.
Import ListNotations.
Open Scope Z_scope.

(** * Lists *)
Lemma nth_error_upd_eq {T} i (x : T) l y : nth_error l i = Some y -> nth_error (upd i x l) i = Some x.
Proof. revert i. induction l as [|h t IH]; intros [|i] H; cbn in *; try discriminate; auto. Qed.

Lemma nth_error_upd_neq {T} i j (x : T) l : i <> j -> nth_error (upd i x l) j = nth_error l j.
Proof.
  revert i j. induction l as [|h t IH]; intros [|i] [|j] H; cbn; try reflexivity; try congruence.
  apply IH. congruence.
Qed.

Lemma nth_error_upd_inv {T} i j (x t : T) l : nth_error (upd i x l) j = Some t ->
  (j = i /\ t = x) \/ (j <> i /\ nth_error l j = Some t).
Proof.
  destruct (Nat.eq_dec i j) as [->|Hn].
  - intros H. left. split; [reflexivity|].
    destruct (nth_error l j) as [y|] eqn:E.
    + rewrite (nth_error_upd_eq _ _ _ _ E) in H. congruence.
    + exfalso. revert j H E. induction l as [|h tl IH]; intros [|j] H E; cbn in *; try discriminate. eapply IH; eassumption.
  - intros H. right. split; [congruence|]. rewrite nth_error_upd_neq in H by assumption. exact H.
Qed.

Lemma upd_upd {T} i (x y : T) l : upd i x (upd i y l) = upd i x l.
Proof. revert i. induction l as [|h t IH]; intros [|i]; cbn; try reflexivity. rewrite IH. reflexivity. Qed.

Definition count {T} (p : T -> bool) (l : list T) : nat := length (filter p l).
Definition b2n (b : bool) : nat := if b then 1%nat else 0%nat.

Lemma count_upd {T} (p : T -> bool) i x l y : nth_error l i = Some y ->
  (count p (upd i x l) + b2n (p y) = count p l + b2n (p x))%nat.
Proof.
  revert i. induction l as [|h t IH]; intros [|i] H; cbn in *; try discriminate.
  - inversion H; subst. unfold count. cbn. destruct (p x), (p y); cbn; lia.
  - specialize (IH i H). unfold count in *. cbn. destruct (p h); cbn; lia.
Qed.

Lemma count_le_1 {T} (p : T -> bool) l :
  (forall i j x y, nth_error l i = Some x -> nth_error l j = Some y -> p x = true -> p y = true -> i = j) ->
  (count p l <= 1)%nat.
Proof.
  induction l as [|h t IH]; intros H; unfold count in *; cbn; [lia|].
  destruct (p h) eqn:Ph.
  - assert (E : filter p t = []).
    { destruct (filter p t) as [|z zs] eqn:F; [reflexivity|]. exfalso.
      assert (Hz : In z (filter p t)) by (rewrite F; left; reflexivity).
      apply filter_In in Hz. destruct Hz as [Hin Pz]. apply In_nth_error in Hin. destruct Hin as [j Hj].
      specialize (H 0%nat (S j) h z eq_refl Hj Ph Pz). discriminate. }
    rewrite E. cbn. lia.
  - apply IH. intros i j x y Hi Hj Px Py. specialize (H (S i) (S j) x y Hi Hj Px Py). congruence.
Qed.

(** * Accessors of the composite updates *)
Lemma thr_note_max ds s : thr (note_max ds s) = thr s. Proof. reflexivity. Qed.

Lemma notify_other fuel k : forall s,
  inflight (notify fuel k s) = inflight s /\ tok (notify fuel k s) = tok s.
Proof.
  induction fuel as [|f IH]; intros s; cbn [notify]; [auto|].
  destruct (semq s) as [|j q']; [auto|]. destruct (Nat.ltb (cur s) k); [|auto].
  destruct (nth_error (thr s) j); [|auto]. destruct (IH (mkcs (upd j (mkthr Granted (todo t) (cancelled t) (bset t)) (thr s)) (inflight s) (ents s) (src s) (snk s) (S (cur s)) q' (tok s) (qcache s) (clk s) (maxkey s) (maxall s))) as [A B].
  cbn in A, B. auto.
Qed.

(** * Deduplicating replicator: never more than one concurrent copy per key *)
Definition owns (t : thread) : option nat :=
  match tpc t with
  | Fm k _ | Unreg k _ _ => Some k
  | Get d _ _ | Put d _ _ _ => Some d
  | _ => None
  end.
Definition single_rest (t : thread) : Prop :=
  match tpc t with Get _ r _ | Put _ _ r _ => r = [] | _ => True end.

Record dinv (s : cstate) : Prop := mkdinv {
  d_reg : forall i t k, nth_error (thr s) i = Some t -> owns t = Some k -> lookup_key k (inflight s) <> None;
  d_uniq : forall i j ti tj k, nth_error (thr s) i = Some ti -> nth_error (thr s) j = Some tj ->
             owns ti = Some k -> owns tj = Some k -> i = j;
  d_rest : forall i t, nth_error (thr s) i = Some t -> single_rest t }.

Lemma lookup_key_remove k k' m :
  lookup_key k (remove_inflight k' m) = if Nat.eqb k k' then None else lookup_key k m.
Proof.
  unfold remove_inflight. induction m as [|[a e] r IH]; cbn [filter lookup_key fst]; [destruct (Nat.eqb k k'); reflexivity|].
  destruct (Nat.eqb a k') eqn:E1; cbn [negb lookup_key].
  - rewrite IH. destruct (Nat.eqb k k') eqn:E2; [reflexivity|].
    destruct (Nat.eqb k a) eqn:E3; [|reflexivity].
    apply Nat.eqb_eq in E1, E3. subst. rewrite Nat.eqb_refl in E2. discriminate.
  - rewrite IH. destruct (Nat.eqb k a) eqn:E3; [|reflexivity].
    apply Nat.eqb_eq in E3. subst. rewrite E1. reflexivity.
Qed.

(** The three shapes of update a dedup step makes. *)
Lemma dinv_keep s s' i t t' : dinv s -> nth_error (thr s) i = Some t ->
  thr s' = upd i t' (thr s) -> inflight s' = inflight s ->
  (owns t' = owns t \/ owns t' = None) -> single_rest t' -> dinv s'.
Proof.
  intros [R U S] Hi Ht Hf Ho Hs. constructor.
  - intros j tj k Hj Hk. rewrite Hf. rewrite Ht in Hj. apply nth_error_upd_inv in Hj.
    destruct Hj as [[-> ->]|[_ Hj]]; [|eapply R; eassumption].
    destruct Ho as [Ho|Ho]; rewrite Ho in Hk; [eapply R; eassumption|discriminate].
  - intros a b ta tb k Ha Hb Oa Ob. rewrite Ht in Ha, Hb.
    apply nth_error_upd_inv in Ha. apply nth_error_upd_inv in Hb.
    destruct Ha as [[-> ->]|[Na Ha]], Hb as [[-> ->]|[Nb Hb]]; [reflexivity| | |eapply U; eassumption].
    + destruct Ho as [Ho|Ho]; rewrite Ho in Oa; [|discriminate]. eapply U; eassumption.
    + destruct Ho as [Ho|Ho]; rewrite Ho in Ob; [|discriminate]. eapply U; eassumption.
  - intros j tj Hj. rewrite Ht in Hj. apply nth_error_upd_inv in Hj.
    destruct Hj as [[-> ->]|[_ Hj]]; [exact Hs|eapply S; eassumption].
Qed.

Lemma dinv_register s s' i t t' k e : dinv s -> nth_error (thr s) i = Some t ->
  thr s' = upd i t' (thr s) -> inflight s' = (k, e) :: inflight s ->
  lookup_key k (inflight s) = None -> owns t' = Some k -> single_rest t' -> dinv s'.
Proof.
  intros [R U S] Hi Ht Hf Hn Ho Hs. constructor.
  - intros j tj k' Hj Hk. rewrite Hf. cbn [lookup_key]. destruct (Nat.eqb k' k) eqn:E; [discriminate|].
    rewrite Ht in Hj. apply nth_error_upd_inv in Hj.
    destruct Hj as [[-> ->]|[_ Hj]]; [|eapply R; eassumption].
    rewrite Ho in Hk. inversion Hk; subst. rewrite Nat.eqb_refl in E. discriminate.
  - intros a b ta tb k' Ha Hb Oa Ob. rewrite Ht in Ha, Hb.
    apply nth_error_upd_inv in Ha. apply nth_error_upd_inv in Hb.
    destruct Ha as [[-> ->]|[Na Ha]], Hb as [[-> ->]|[Nb Hb]]; [reflexivity| | |eapply U; eassumption].
    + rewrite Ho in Oa. inversion Oa; subst. exfalso. eapply R; eassumption.
    + rewrite Ho in Ob. inversion Ob; subst. exfalso. eapply R; eassumption.
  - intros j tj Hj. rewrite Ht in Hj. apply nth_error_upd_inv in Hj.
    destruct Hj as [[-> ->]|[_ Hj]]; [exact Hs|eapply S; eassumption].
Qed.

Lemma dinv_unregister s s' i t t' k : dinv s -> nth_error (thr s) i = Some t ->
  thr s' = upd i t' (thr s) -> inflight s' = remove_inflight k (inflight s) ->
  owns t = Some k -> owns t' = None -> single_rest t' -> dinv s'.
Proof.
  intros [R U S] Hi Ht Hf Hk Ho Hs. constructor.
  - intros j tj k' Hj Hk'. rewrite Hf, lookup_key_remove. rewrite Ht in Hj. apply nth_error_upd_inv in Hj.
    destruct Hj as [[-> ->]|[Nj Hj]]; [rewrite Ho in Hk'; discriminate|].
    destruct (Nat.eqb k' k) eqn:E; [|eapply R; eassumption].
    apply Nat.eqb_eq in E. subst k'. exfalso. apply Nj. eapply U; eassumption.
  - intros a b ta tb k' Ha Hb Oa Ob. rewrite Ht in Ha, Hb.
    apply nth_error_upd_inv in Ha. apply nth_error_upd_inv in Hb.
    destruct Ha as [[-> ->]|[Na Ha]], Hb as [[-> ->]|[Nb Hb]]; [reflexivity| | |eapply U; eassumption].
    + rewrite Ho in Oa. discriminate.
    + rewrite Ho in Ob. discriminate.
  - intros j tj Hj. rewrite Ht in Hj. apply nth_error_upd_inv in Hj.
    destruct Hj as [[-> ->]|[_ Hj]]; [exact Hs|eapply S; eassumption].
Qed.

Lemma dinv_same s s' : dinv s -> thr s' = thr s -> inflight s' = inflight s -> dinv s'.
Proof. intros [R U S] Ht Hf. constructor; rewrite ?Ht, ?Hf; assumption. Qed.

Lemma thr_begin_base_dedup i t k e s :
  thr (begin_base MDedup i t [k] e k s) = upd i (mkthr (Get k [] e) (todo t) (cancelled t) (Some [k])) (thr s)
  /\ inflight (begin_base MDedup i t [k] e k s) = inflight s.
Proof. unfold begin_base. cbn. rewrite upd_upd. auto. Qed.

Ltac dfin Hp :=
  first [ exact Logic.I | reflexivity | assumption
        | left; unfold owns; cbn; rewrite ?Hp; reflexivity
        | right; unfold owns; cbn; reflexivity ].
Ltac dkeep i Hp :=
  eapply dinv_keep with (i := i);
  [eassumption|eassumption|first [reflexivity|eassumption]|first [reflexivity|eassumption]|dfin Hp|dfin Hp].

Lemma next_after_key_owns t : owns (next_after_key t) = None /\ single_rest (next_after_key t).
Proof. unfold next_after_key, owns, single_rest. destruct (todo t) as [|? [|? ?]]; cbn; auto. Qed.

Lemma dedup_step_inv s e s' : dinv s -> step MDedup s e = Some s' -> dinv s'.
Proof.
  intros I H. destruct e as [i|i f|i|dt|i alt]; cbn [step] in H.
  - destruct (nth_error (thr s) i) as [t|] eqn:Ht; [|discriminate].
    destruct (tpc t) eqn:Hp; try discriminate. inversion H; subst; clear H.
    destruct (todo t) eqn:Htd; dkeep i Hp.
  - destruct (nth_error (thr s) i) as [t|] eqn:Ht; [|discriminate].
    pose proof (d_rest _ I _ _ Ht) as R. unfold single_rest in R.
    destruct (tpc t) eqn:Hp; try discriminate.
    + (* Fm *)
      destruct (thr_begin_base_dedup i t k e s) as [A B].
      destruct (negb (f =? 0)); [|destruct (memn k (snk s))]; inversion H; subst; clear H; dkeep i Hp.
    + (* Get *)
      inversion H; subst; clear H. dkeep i Hp.
    + (* Put *)
      subst rest.
      destruct ((if negb (f =? 0) then f else b) =? 0); inversion H; subst; clear H; dkeep i Hp.
  - destruct (nth_error (thr s) i) as [t|] eqn:Ht; [|discriminate].
    pose proof (d_rest _ I _ _ Ht) as R.
    destruct (cancelled t); [discriminate|]. inversion H; subst; clear H.
    eapply dinv_keep with (i := i); [eassumption|eassumption|reflexivity|reflexivity|left; reflexivity|exact R].
  - inversion H; subst; clear H. eapply dinv_same; [eassumption| |]; reflexivity.
  - destruct (nth_error (thr s) i) as [t|] eqn:Ht; [|discriminate].
    destruct (next_after_key_owns t) as [NO NS].
    destruct (tpc t) eqn:Hp; destruct alt; try discriminate.
    + (* Idle *)
      destruct (todo t) as [|k rest] eqn:Htd; [discriminate|].
      destruct (lookup_key k (inflight s)) as [e0|] eqn:L; inversion H; subst; clear H.
      * dkeep i Hp.
      * eapply dinv_register with (i := i) (k := k); [eassumption|eassumption|reflexivity|reflexivity|eassumption|reflexivity|exact Logic.I].
    + (* Wait, cancelled *)
      destruct (cancelled t); [|discriminate]. inversion H; subst; clear H. dkeep i Hp.
    + (* Wait, woken *)
      destruct (nth_error (ents s) e) as [[[] []]|]; try discriminate; inversion H; subst; clear H.
      * eapply dinv_keep with (i := i); [eassumption|eassumption|reflexivity|reflexivity|right; exact NO|exact NS].
      * dkeep i Hp.
    + (* Unreg *)
      inversion H; subst; clear H.
      eapply dinv_unregister with (i := i) (k := k);
        [eassumption|eassumption|reflexivity|reflexivity|unfold owns; rewrite Hp; reflexivity|reflexivity|exact Logic.I].
    + (* Close *)
      destruct (c =? 0); inversion H; subst; clear H.
      * eapply dinv_keep with (i := i); [eassumption|eassumption|reflexivity|reflexivity|right; exact NO|exact NS].
      * dkeep i Hp.
    + destruct (cancelled t); discriminate.
    + destruct (cancelled t); [|discriminate]. inversion H; subst; clear H. dkeep i Hp.
Qed.

Lemma dinv_init sets source sink : dinv (init_state sets source sink).
Proof.
  assert (H : forall i t, nth_error (map init_thread sets) i = Some t -> tpc t = NotStarted).
  { intros i t Hi. apply nth_error_In in Hi. apply in_map_iff in Hi. destruct Hi as (x & <- & _). reflexivity. }
  constructor; cbn [init_state thr inflight].
  - intros i t k Hi Ho. unfold owns in Ho. rewrite (H _ _ Hi) in Ho. discriminate.
  - intros i j ti tj k Hi _ Ho. unfold owns in Ho. rewrite (H _ _ Hi) in Ho. discriminate.
  - intros i t Hi. unfold single_rest. rewrite (H _ _ Hi). exact Logic.I.
Qed.

Lemma run_inv (m : mode) (P : cstate -> Prop) :
  (forall s e s', P s -> step m s e = Some s' -> P s') ->
  forall tr s s', P s -> run m s tr = Some s' -> P s'.
Proof.
  intros Hstep. induction tr as [|e r IH]; intros s s' Hs H; cbn in H.
  - inversion H; subst. exact Hs.
  - destruct (step m s e) as [s1|] eqn:E; [|discriminate]. eapply IH; [|exact H]. eapply Hstep; eassumption.
Qed.

Theorem dedup_one_copy_per_key sets source sink tr s :
  run MDedup (init_state sets source sink) tr = Some s -> forall k, (copies_of k s <= 1)%nat.
Proof.
  intros H k.
  assert (I : dinv s).
  { eapply (run_inv MDedup dinv); [|apply dinv_init|exact H]. intros; eapply dedup_step_inv; eassumption. }
  unfold copies_of. apply (count_le_1 (copying_key k)).
  intros i j x y Hi Hj Px Py. apply (d_uniq _ I i j x y k Hi Hj).
  - unfold copying_key in Px. unfold owns. destruct (tpc x); try discriminate; apply Nat.eqb_eq in Px; subst; reflexivity.
  - unfold copying_key in Py. unfold owns. destruct (tpc y); try discriminate; apply Nat.eqb_eq in Py; subst; reflexivity.
Qed.

(** * Concurrency-limiting replicator: never more than k concurrent copies *)
Definition holder (t : thread) : bool :=
  match tpc t with Get _ _ _ | Put _ _ _ _ | Granted => true | _ => false end.
Definition linv (k : nat) (s : cstate) : Prop :=
  (count holder (thr s) <= cur s)%nat /\ (cur s <= k)%nat.

Lemma notify_linv k : forall fuel s, linv k s -> linv k (notify fuel k s).
Proof.
  induction fuel as [|f IH]; intros s [A B]; cbn [notify]; [split; assumption|].
  destruct (semq s) as [|j q']; [split; assumption|].
  destruct (Nat.ltb (cur s) k) eqn:E; [|split; assumption].
  destruct (nth_error (thr s) j) as [tj|] eqn:Hj; [|split; assumption].
  apply IH. apply Nat.ltb_lt in E. split; cbn [thr cur]; [|lia].
  pose proof (count_upd holder j (mkthr Granted (todo tj) (cancelled tj) (bset tj)) (thr s) tj Hj) as C.
  assert (Hg : holder (mkthr Granted (todo tj) (cancelled tj) (bset tj)) = true) by reflexivity.
  rewrite Hg in C. destruct (holder tj); cbn [b2n] in C; lia.
Qed.

Lemma sem_release_linv k s : (count holder (thr s) + 1 <= cur s)%nat -> (cur s <= k)%nat -> linv k (sem_release k s).
Proof. intros A B. unfold sem_release. apply notify_linv. split; cbn [thr cur]; lia. Qed.

Ltac cnt p i t Ht :=
  match goal with
  | |- context [upd i ?x (thr _)] =>
      let C := fresh "C" in
      pose proof (count_upd p i x _ t Ht) as C; unfold p in C; cbn [tpc b2n] in C; fold p in C
  end.

Lemma limit_step_inv lim s e s' : linv lim s -> step (MLimit lim) s e = Some s' -> linv lim s'.
Proof.
  intros [A B] H. destruct e as [i|i f|i|dt|i alt]; cbn [step] in H.
  - destruct (nth_error (thr s) i) as [t|] eqn:Ht; [|discriminate].
    destruct (tpc t) eqn:Hp; try discriminate. inversion H; subst; clear H.
    split; cbn [thr cur set_pc set_thr]; [|exact B]. cnt holder i t Ht. rewrite Hp in C. cbn [b2n] in C. lia.
  - destruct (nth_error (thr s) i) as [t|] eqn:Ht; [|discriminate].
    destruct (tpc t) eqn:Hp; try discriminate.
    + inversion H; subst; clear H.
      split; cbn [thr cur set_pc set_thr]; [|exact B]. cnt holder i t Ht. rewrite Hp in C. cbn [b2n] in C. lia.
    + assert (Hfin : forall c s0, thr s0 = thr s -> cur s0 = cur s -> linv lim (finish_base (MLimit lim) i t e d c s0)).
      { intros c s0 E1 E2. cbn [finish_base]. apply sem_release_linv; cbn [thr cur set_thr]; rewrite ?E1, ?E2; [|exact B].
        cnt holder i t Ht. rewrite Hp in C. cbn [b2n] in C. lia. }
      destruct ((if negb (f =? 0) then f else b) =? 0).
      * destruct rest as [|d' rest']; inversion H; subst; clear H.
        -- apply Hfin; reflexivity.
        -- split; cbn [thr cur set_pc set_thr]; [|exact B]. cnt holder i t Ht. rewrite Hp in C. cbn [b2n] in C. lia.
      * inversion H; subst; clear H. apply Hfin; reflexivity.
  - destruct (nth_error (thr s) i) as [t|] eqn:Ht; [|discriminate].
    destruct (cancelled t); [discriminate|]. inversion H; subst; clear H.
    split; cbn [thr cur set_thr]; [|exact B]. cnt holder i t Ht. destruct (tpc t); cbn [b2n] in C; lia.
  - inversion H; subst; clear H. split; assumption.
  - destruct (nth_error (thr s) i) as [t|] eqn:Ht; [|discriminate].
    assert (Hbegin : forall s0 n, b2n (holder t) = n -> thr s0 = thr s -> (count holder (thr s) + 1 <= cur s0 + n)%nat -> (cur s0 <= lim)%nat ->
                     linv lim (begin_base (MLimit lim) i t (todo t) 0 0 s0)).
    { intros s0 n Hn E1 E2 E3. unfold holder in Hn. unfold begin_base. destruct (todo t) as [|d rest].
      - cbn [finish_base]. apply sem_release_linv; cbn [thr cur set_thr note_max]; rewrite ?E1, ?upd_upd; [|exact E3].
        cnt holder i t Ht. rewrite Hn in C. lia.
      - split; cbn [thr cur set_thr note_max]; rewrite ?E1, ?upd_upd; [|exact E3].
        cnt holder i t Ht. rewrite Hn in C. lia. }
    destruct (tpc t) eqn:Hp; destruct alt; try discriminate.
    + (* Idle *)
      destruct (cancelled t).
      * inversion H; subst; clear H. split; cbn [thr cur set_pc set_thr]; [|exact B]. cnt holder i t Ht. rewrite Hp in C. cbn [b2n] in C. lia.
      * destruct (Nat.ltb (cur s) lim && match semq s with [] => true | _ => false end) eqn:E.
        -- inversion H; subst; clear H. apply andb_prop in E. destruct E as [E _]. apply Nat.ltb_lt in E.
           apply Hbegin with (n := 0%nat); cbn [thr cur]; [unfold holder; rewrite Hp; reflexivity|reflexivity|lia|lia].
        -- inversion H; subst; clear H. split; cbn [thr cur set_pc set_thr]; [|exact B]. cnt holder i t Ht. rewrite Hp in C. cbn [b2n] in C. lia.
    + destruct (cancelled t); [|discriminate]. inversion H; subst; clear H.
      split; cbn [thr cur set_pc set_thr]; [|exact B]. cnt holder i t Ht. rewrite Hp in C. cbn [b2n] in C. lia.
    + destruct (nth_error (ents s) e) as [[[] []]|]; try discriminate; inversion H; subst; clear H.
      * split; cbn [thr cur set_pc set_thr]; [|exact B]. cnt holder i t Ht. rewrite Hp in C.
        unfold next_after_key in *. destruct (todo t) as [|? [|? ?]]; cbn [tpc b2n] in C; lia.
      * split; cbn [thr cur set_pc set_thr]; [|exact B]. cnt holder i t Ht. rewrite Hp in C. cbn [b2n] in C. lia.
    + inversion H; subst; clear H.
      split; cbn [thr cur set_pc set_thr]; [|exact B]. cnt holder i t Ht. rewrite Hp in C. cbn [b2n] in C. lia.
    + destruct (c =? 0); inversion H; subst; clear H.
      * split; cbn [thr cur set_pc set_thr set_ent]; [|exact B]. cnt holder i t Ht. rewrite Hp in C.
        unfold next_after_key in *. destruct (todo t) as [|? [|? ?]]; cbn [tpc b2n] in C; lia.
      * split; cbn [thr cur set_pc set_thr set_ent]; [|exact B]. cnt holder i t Ht. rewrite Hp in C. cbn [b2n] in C. lia.
    + (* WaitSem, cancelled *)
      destruct (cancelled t); [|discriminate]. injection H as <-.
      apply (notify_linv lim (S (length (semq s))) (mkcs (thr (set_pc i t (Done 1) s)) (inflight s) (ents s) (src s) (snk s) (cur s)
                (remove_nat i (semq s)) (tok s) (qcache s) (clk s) (maxkey s) (maxall s))). split; cbn [thr cur set_pc set_thr]; [|exact B]. cnt holder i t Ht. rewrite Hp in C. cbn [b2n] in C. lia.
    + (* Granted *)
      destruct (cancelled t).
      * inversion H; subst; clear H. apply sem_release_linv; cbn [thr cur set_pc set_thr]; [|exact B].
        cnt holder i t Ht. rewrite Hp in C. cbn [b2n] in C. lia.
      * inversion H; subst; clear H. apply Hbegin with (n := 1%nat); [unfold holder; rewrite Hp; reflexivity|reflexivity|lia|exact B].
    + destruct (cancelled t); [|discriminate]. inversion H; subst; clear H.
      split; cbn [thr cur set_pc set_thr]; [|exact B]. cnt holder i t Ht. rewrite Hp in C. cbn [b2n] in C. lia.
Qed.

Lemma count_init (p : thread -> bool) sets : (forall ds, p (init_thread ds) = false) -> count p (map init_thread sets) = 0%nat.
Proof. intros H. unfold count. induction sets as [|a r IH]; cbn; [reflexivity|]. rewrite H. exact IH. Qed.

Lemma count_le {T} (p q : T -> bool) l : (forall x, p x = true -> q x = true) -> (count p l <= count q l)%nat.
Proof.
  intros H. unfold count. induction l as [|a r IH]; cbn; [lia|].
  destruct (p a) eqn:P; [rewrite (H a P); cbn; lia|]. destruct (q a); cbn; lia.
Qed.

Theorem limit_at_most_k_copies lim sets source sink tr s :
  run (MLimit lim) (init_state sets source sink) tr = Some s -> (copies s <= lim)%nat.
Proof.
  intros H.
  assert (I : linv lim s).
  { eapply (run_inv (MLimit lim) (linv lim)); [|
      |exact H].
    - intros; eapply limit_step_inv; eassumption.
    - split; cbn [init_state thr cur]; [|lia]. rewrite count_init; [lia|reflexivity]. }
  destruct I as [A B]. unfold copies. fold (count in_copy (thr s)).
  pose proof (count_le in_copy holder (thr s)) as L.
  assert (count in_copy (thr s) <= count holder (thr s))%nat.
  { apply L. intros x. unfold in_copy, holder. destruct (tpc x); auto. }
  lia.
Qed.

(** * Queued replicator: never more than one concurrent copy *)
Definition qinv (s : cstate) : Prop := (count in_copy (thr s) + b2n (tok s) <= 1)%nat.

Lemma queued_step_inv size dur s e s' : qinv s -> step (MQueued size dur) s e = Some s' -> qinv s'.
Proof.
  unfold qinv. intros A H. destruct e as [i|i f|i|dt|i alt]; cbn [step] in H.
  - destruct (nth_error (thr s) i) as [t|] eqn:Ht; [|discriminate].
    destruct (tpc t) eqn:Hp; try discriminate. inversion H; subst; clear H.
    cbn [thr tok set_pc set_thr]. cnt in_copy i t Ht. rewrite Hp in C. cbn [b2n] in C. lia.
  - destruct (nth_error (thr s) i) as [t|] eqn:Ht; [|discriminate].
    destruct (tpc t) eqn:Hp; try discriminate.
    + inversion H; subst; clear H.
      cbn [thr tok set_pc set_thr]. cnt in_copy i t Ht. rewrite Hp in C. cbn [b2n] in C. lia.
    + assert (Hfin : forall c s0, thr s0 = thr s ->
                (count in_copy (thr (finish_base (MQueued size dur) i t e d c s0)) + b2n (tok (finish_base (MQueued size dur) i t e d c s0)) <= 1)%nat).
      { intros c s0 E1. cbn [finish_base thr tok set_thr]. rewrite E1.
        cnt in_copy i t Ht. rewrite Hp in C. cbn [b2n] in *. destruct (tok s); cbn [b2n] in *; lia. }
      destruct ((if negb (f =? 0) then f else b) =? 0).
      * destruct rest as [|d' rest']; inversion H; subst; clear H.
        -- apply Hfin; reflexivity.
        -- cbn [thr tok set_pc set_thr]. cnt in_copy i t Ht. rewrite Hp in C. cbn [b2n] in C. lia.
      * inversion H; subst; clear H. apply Hfin; reflexivity.
  - destruct (nth_error (thr s) i) as [t|] eqn:Ht; [|discriminate].
    destruct (cancelled t); [discriminate|]. inversion H; subst; clear H.
    cbn [thr tok set_thr]. cnt in_copy i t Ht. destruct (tpc t); cbn [b2n] in C; lia.
  - inversion H; subst; clear H. exact A.
  - destruct (nth_error (thr s) i) as [t|] eqn:Ht; [|discriminate].
    destruct (tpc t) eqn:Hp; destruct alt; try discriminate; try (destruct (cancelled t); discriminate).
    + (* Idle *)
      destruct (ec_remove_existing dur (clk s) (todo t) (qcache s)) as [mm c1].
      inversion H; subst; clear H. cbn [thr tok set_pc set_thr]. cnt in_copy i t Ht. rewrite Hp in C.
      destruct mm; cbn [b2n] in C; lia.
    + destruct (cancelled t); [|discriminate]. inversion H; subst; clear H.
      cbn [thr tok set_pc set_thr]. cnt in_copy i t Ht. rewrite Hp in C. cbn [b2n] in C. lia.
    + destruct (nth_error (ents s) e) as [[[] []]|]; try discriminate; inversion H; subst; clear H.
      * cbn [thr tok set_pc set_thr]. cnt in_copy i t Ht. rewrite Hp in C.
        unfold next_after_key in *. destruct (todo t) as [|? [|? ?]]; cbn [tpc b2n] in C; lia.
      * cbn [thr tok set_pc set_thr]. cnt in_copy i t Ht. rewrite Hp in C. cbn [b2n] in C. lia.
    + inversion H; subst; clear H.
      cbn [thr tok set_pc set_thr]. cnt in_copy i t Ht. rewrite Hp in C. cbn [b2n] in C. lia.
    + destruct (c =? 0); inversion H; subst; clear H.
      * cbn [thr tok set_pc set_thr set_ent]. cnt in_copy i t Ht. rewrite Hp in C.
        unfold next_after_key in *. destruct (todo t) as [|? [|? ?]]; cbn [tpc b2n] in C; lia.
      * cbn [thr tok set_pc set_thr set_ent]. cnt in_copy i t Ht. rewrite Hp in C. cbn [b2n] in C. lia.
    + destruct (cancelled t); [|discriminate]. inversion H; subst; clear H.
      cbn [thr tok set_pc set_thr]. cnt in_copy i t Ht. rewrite Hp in C. cbn [b2n] in C. lia.
    + (* WaitTok: takes the token *)
      destruct (tok s) eqn:Tk; [|discriminate].
      destruct (ec_remove_existing dur (clk s) (todo t) (qcache s)) as [mm c1].
      inversion H; subst; clear H. cbn [b2n] in A. unfold begin_base. destruct mm as [|d rest].
      * cbn [finish_base thr tok set_thr note_max]. rewrite upd_upd.
        cnt in_copy i t Ht. rewrite Hp in C. rewrite ?Hp. cbn [b2n] in *. lia.
      * cbn [thr tok set_thr note_max]. rewrite upd_upd.
        cnt in_copy i t Ht. rewrite Hp in C. rewrite ?Hp. cbn [b2n] in *. lia.
Qed.

Theorem queued_at_most_one_copy size dur sets source sink tr s :
  run (MQueued size dur) (init_state sets source sink) tr = Some s -> (copies s <= 1)%nat.
Proof.
  intros H.
  assert (I : qinv s).
  { eapply (run_inv (MQueued size dur) qinv); [| |exact H].
    - intros; eapply queued_step_inv; eassumption.
    - unfold qinv. cbn [init_state thr tok]. rewrite count_init; [cbn; lia|reflexivity]. }
  unfold qinv in I. unfold copies. fold (count in_copy (thr s)). lia.
Qed.

(** * Deduplicating replicator: a reported success is justified

    History variables: the events below are a function of the pre-state and
    the step taken ([gstep]); [grun] collects them, newest first. *)
Inductive gev :=
| GAsk (i k e : nat)     (* caller i asked for key k: it found, or created, in-flight entry e *)
| GJust (e : nat)        (* the owner of entry e saw the sink report "present", or its copy completed *)
| GSucc (i k e : nat).   (* caller i is told "success" for key k on the strength of entry e *)

Definition gstep (s : cstate) (e : ev) : list gev :=
  match e with
  | ETau i false =>
      match nth_error (thr s) i with
      | Some t =>
          match tpc t with
          | Idle => match todo t with
                    | k :: _ => [GAsk i k (match lookup_key k (inflight s) with Some e => e | None => length (ents s) end)]
                    | [] => []
                    end
          | Wait k e => match nth_error (ents s) e with Some (true, true) => [GSucc i k e] | _ => [] end
          | Close k e c => if c =? 0 then [GSucc i k e] else []
          | _ => []
          end
      | None => []
      end
  | ERel i f =>
      match nth_error (thr s) i with
      | Some t =>
          match tpc t with
          | Fm k e => if (f =? 0) && memn k (snk s) then [GJust e] else []
          | Put d b [] e => if (if negb (f =? 0) then f else b) =? 0 then [GJust e] else []
          | _ => []
          end
      | None => []
      end
  | _ => []
  end.

Fixpoint grun (s : cstate) (tr : list ev) (log : list gev) : option (cstate * list gev) :=
  match tr with
  | [] => Some (s, log)
  | e :: r => match step MDedup s e with
              | Some s' => grun s' r (gstep s e ++ log)
              | None => None
              end
  end.

(** What a pc says about the entry its caller asked for. *)
Definition asked (t : thread) : option (nat * nat) :=
  match tpc t with
  | Wait k e | Fm k e | Unreg k e _ | Close k e _ => Some (k, e)
  | Get d _ e | Put d _ _ e => Some (d, e)
  | _ => None
  end.
Definition done_ok (t : thread) : option nat :=
  match tpc t with
  | Unreg _ e c | Close _ e c => if c =? 0 then Some e else None
  | _ => None
  end.

Record ginv (s : cstate) (log : list gev) : Prop := mkginv {
  g_d : dinv s;
  g_ask : forall i t k e, nth_error (thr s) i = Some t -> asked t = Some (k, e) -> In (GAsk i k e) log;
  g_ok : forall i t e, nth_error (thr s) i = Some t -> done_ok t = Some e -> In (GJust e) log;
  g_ent : forall e, nth_error (ents s) e = Some (true, true) -> In (GJust e) log;
  g_succ : forall l1 l2 i k e, log = l1 ++ GSucc i k e :: l2 -> In (GJust e) l2 /\ In (GAsk i k e) l2 }.

Lemma succ_push x log :
  (forall l1 l2 i k e, log = l1 ++ GSucc i k e :: l2 -> In (GJust e) l2 /\ In (GAsk i k e) l2) ->
  (forall i k e, x = GSucc i k e -> In (GJust e) log /\ In (GAsk i k e) log) ->
  forall l1 l2 i k e, x :: log = l1 ++ GSucc i k e :: l2 -> In (GJust e) l2 /\ In (GAsk i k e) l2.
Proof.
  intros P Hx l1 l2 i k e E. destruct l1 as [|y l1']; cbn in E; inversion E; subst.
  - apply Hx. reflexivity.
  - eapply P. reflexivity.
Qed.

(** Generic preservation: thread i is replaced by t', the entry table changes
    only by appending fresh entries or by publishing (true, ok) for an entry
    whose owner recorded its justification, the log only grows. *)
Lemma ginv_update s s' log log' i t t' :
  ginv s log -> dinv s' -> nth_error (thr s) i = Some t -> thr s' = upd i t' (thr s) ->
  (forall x, In x log -> In x log') ->
  (forall k e, asked t' = Some (k, e) -> In (GAsk i k e) log') ->
  (forall e, done_ok t' = Some e -> In (GJust e) log') ->
  (forall e, nth_error (ents s') e = Some (true, true) -> nth_error (ents s) e = Some (true, true) \/ In (GJust e) log') ->
  (forall l1 l2 i k e, log' = l1 ++ GSucc i k e :: l2 -> In (GJust e) l2 /\ In (GAsk i k e) l2) ->
  ginv s' log'.
Proof.
  intros [D A O En Su] D' Ht Hthr Hmono Ha Ho He Hs. constructor; try assumption.
  - intros j tj k e Hj Hk. rewrite Hthr in Hj. apply nth_error_upd_inv in Hj.
    destruct Hj as [[-> ->]|[_ Hj]]; [apply Ha; exact Hk|apply Hmono; eapply A; eassumption].
  - intros j tj e Hj Hk. rewrite Hthr in Hj. apply nth_error_upd_inv in Hj.
    destruct Hj as [[-> ->]|[_ Hj]]; [apply Ho; exact Hk|apply Hmono; eapply O; eassumption].
  - intros e H. destruct (He e H) as [H1|H1]; [apply Hmono; apply En; exact H1|exact H1].
Qed.

Lemma gstep_inv s e s' log : ginv s log -> step MDedup s e = Some s' -> ginv s' (gstep s e ++ log).
Proof.
  intros G H. pose proof (dedup_step_inv s e s' (g_d _ _ G) H) as D'.
  pose proof G as [D A O En Su].
  destruct e as [i|i f|i|dt|i alt]; cbn [step gstep] in *.
  - (* start *)
    destruct (nth_error (thr s) i) as [t|] eqn:Ht; [|discriminate].
    destruct (tpc t) eqn:Hp; try discriminate. inversion H; subst; clear H.
    eapply ginv_update with (i := i); [exact G|exact D'|exact Ht|reflexivity|auto| | |cbn [ents set_pc set_thr]; auto|exact Su].
    + intros k e Hk. unfold asked in Hk. cbn in Hk. destruct (todo t); discriminate.
    + intros e Hk. unfold done_ok in Hk. cbn in Hk. destruct (todo t); discriminate.
  - (* backend call returns *)
    destruct (nth_error (thr s) i) as [t|] eqn:Ht; [|discriminate].
    pose proof (d_rest _ D _ _ Ht) as R. unfold single_rest in R.
    destruct (tpc t) eqn:Hp; try discriminate.
    + (* Fm *)
      assert (Hask : In (GAsk i k e) log) by (eapply A; [exact Ht|unfold asked; rewrite Hp; reflexivity]).
      destruct (f =? 0) eqn:Ef; cbn [negb andb] in *.
      * destruct (memn k (snk s)) eqn:Ms; inversion H; subst; clear H.
        -- eapply ginv_update with (i := i); [exact G|exact D'|exact Ht|reflexivity|intros; right; assumption| | |cbn [ents set_pc set_thr]; auto|].
           ++ intros k0 e0 Hk. inversion Hk; subst. right. exact Hask.
           ++ intros e0 Hk. inversion Hk; subst. left. reflexivity.
           ++ apply succ_push; [exact Su|discriminate].
        -- destruct (thr_begin_base_dedup i t k e s) as [TB _].
           eapply ginv_update with (i := i); [exact G|exact D'|exact Ht|exact TB|auto| | |cbn; auto|exact Su].
           ++ intros k0 e0 Hk. inversion Hk; subst. exact Hask.
           ++ intros e0 Hk. discriminate.
      * inversion H; subst; clear H.
        eapply ginv_update with (i := i); [exact G|exact D'|exact Ht|reflexivity|auto| | |cbn [ents set_pc set_thr]; auto|exact Su].
        -- intros k0 e0 Hk. inversion Hk; subst. exact Hask.
        -- intros e0 Hk. unfold done_ok in Hk. cbn in Hk. rewrite Ef in Hk. discriminate.
    + (* Get *)
      assert (Hask : In (GAsk i d e) log) by (eapply A; [exact Ht|unfold asked; rewrite Hp; reflexivity]).
      inversion H; subst; clear H.
      eapply ginv_update with (i := i); [exact G|exact D'|exact Ht|reflexivity|auto| | |cbn [ents set_pc set_thr]; auto|exact Su].
      * intros k0 e0 Hk. inversion Hk; subst. exact Hask.
      * intros e0 Hk. discriminate.
    + (* Put *)
      subst rest.
      assert (Hask : In (GAsk i d e) log) by (eapply A; [exact Ht|unfold asked; rewrite Hp; reflexivity]).
      destruct ((if negb (f =? 0) then f else b) =? 0) eqn:Ec; inversion H; subst; clear H.
      * eapply ginv_update with (i := i); [exact G|exact D'|exact Ht|reflexivity|intros; right; assumption| | |cbn; auto|].
        -- intros k0 e0 Hk. inversion Hk; subst. right. exact Hask.
        -- intros e0 Hk. inversion Hk; subst. left. reflexivity.
        -- apply succ_push; [exact Su|discriminate].
      * eapply ginv_update with (i := i); [exact G|exact D'|exact Ht|reflexivity|auto| | |cbn; auto|exact Su].
        -- intros k0 e0 Hk. inversion Hk; subst. exact Hask.
        -- intros e0 Hk. unfold done_ok in Hk. cbn in Hk. rewrite Ec in Hk. discriminate.
  - (* cancel *)
    destruct (nth_error (thr s) i) as [t|] eqn:Ht; [|discriminate].
    destruct (cancelled t); [discriminate|]. inversion H; subst; clear H.
    eapply ginv_update with (i := i); [exact G|exact D'|exact Ht|reflexivity|auto| | |cbn; auto|exact Su].
    + intros k e Hk. eapply A; [exact Ht|exact Hk].
    + intros e Hk. eapply O; [exact Ht|exact Hk].
  - (* clock *)
    inversion H; subst; clear H. constructor; auto.
  - destruct (nth_error (thr s) i) as [t|] eqn:Ht; [|discriminate].
    assert (NA : asked (next_after_key t) = None /\ done_ok (next_after_key t) = None).
    { unfold next_after_key, asked, done_ok. destruct (todo t) as [|? [|? ?]]; cbn; auto. }
    destruct NA as [NA NO].
    destruct (tpc t) eqn:Hp; destruct alt; try discriminate; try (destruct (cancelled t); discriminate).
    + (* Idle: lookup / register *)
      destruct (todo t) as [|k rest] eqn:Htd; [discriminate|].
      destruct (lookup_key k (inflight s)) as [e0|] eqn:L; inversion H; subst; clear H.
      * eapply ginv_update with (i := i); [exact G|exact D'|exact Ht|reflexivity|intros; right; assumption| | |cbn; auto|].
        -- intros k0 e1 Hk. inversion Hk; subst. left. reflexivity.
        -- intros e1 Hk. discriminate.
        -- apply succ_push; [exact Su|discriminate].
      * eapply ginv_update with (i := i); [exact G|exact D'|exact Ht|reflexivity|intros; right; assumption| | | |].
        -- intros k0 e1 Hk. inversion Hk; subst. left. reflexivity.
        -- intros e1 Hk. discriminate.
        -- cbn [ents]. intros e1 H1. left.
           destruct (Nat.lt_ge_cases e1 (length (ents s))) as [Hl|Hl].
           ++ rewrite nth_error_app1 in H1 by exact Hl. exact H1.
           ++ rewrite nth_error_app2 in H1 by exact Hl. destruct (e1 - length (ents s))%nat as [|[|?]]; cbn in H1; discriminate.
        -- apply succ_push; [exact Su|discriminate].
    + (* Wait, cancelled *)
      destruct (cancelled t); [|discriminate]. inversion H; subst; clear H.
      eapply ginv_update with (i := i); [exact G|exact D'|exact Ht|reflexivity|auto| | |cbn; auto|exact Su].
      * intros k0 e0 Hk. discriminate.
      * intros e0 Hk. discriminate.
    + (* Wait, woken *)
      assert (Hask : In (GAsk i k e) log) by (eapply A; [exact Ht|unfold asked; rewrite Hp; reflexivity]).
      destruct (nth_error (ents s) e) as [[[] []]|] eqn:Ee; try discriminate; inversion H; subst; clear H.
      * eapply ginv_update with (i := i); [exact G|exact D'|exact Ht|reflexivity|intros; right; assumption| | |cbn; auto|].
        -- intros k0 e0 Hk. rewrite NA in Hk. discriminate.
        -- intros e0 Hk. rewrite NO in Hk. discriminate.
        -- apply succ_push; [exact Su|]. intros i0 k0 e0 E. inversion E; subst. split; [apply En; exact Ee|exact Hask].
      * eapply ginv_update with (i := i); [exact G|exact D'|exact Ht|reflexivity|auto| | |cbn; auto|exact Su].
        -- intros k0 e0 Hk. discriminate.
        -- intros e0 Hk. discriminate.
    + (* Unreg *)
      inversion H; subst; clear H.
      eapply ginv_update with (i := i); [exact G|exact D'|exact Ht|reflexivity|auto| | |cbn; auto|exact Su].
      * intros k0 e0 Hk. inversion Hk; subst. eapply A; [exact Ht|unfold asked; rewrite Hp; reflexivity].
      * intros e0 Hk. eapply O; [exact Ht|]. unfold done_ok in *. rewrite Hp. cbn in Hk. exact Hk.
    + (* Close: publish the outcome *)
      assert (Hask : In (GAsk i k e) log) by (eapply A; [exact Ht|unfold asked; rewrite Hp; reflexivity]).
      assert (Hent : forall v e1, nth_error (upd e (true, v) (ents s)) e1 = Some (true, true) ->
                     nth_error (ents s) e1 = Some (true, true) \/ (e1 = e /\ v = true)).
      { intros v e1 H1. apply nth_error_upd_inv in H1. destruct H1 as [[-> E]|[_ H1]]; [right|left; exact H1].
        inversion E. auto. }
      destruct (c =? 0) eqn:Ec; inversion H; subst; clear H.
      * assert (Hj : In (GJust e) log) by (eapply O; [exact Ht|unfold done_ok; rewrite Hp, Ec; reflexivity]).
        eapply ginv_update with (i := i); [exact G|exact D'|exact Ht|reflexivity|intros; right; assumption| | | |].
        -- intros k0 e0 Hk. rewrite NA in Hk. discriminate.
        -- intros e0 Hk. rewrite NO in Hk. discriminate.
        -- cbn [ents set_thr set_ent]. intros e1 H1. destruct (Hent _ _ H1) as [H2|[-> _]]; [left; exact H2|right; right; exact Hj].
        -- apply succ_push; [exact Su|]. intros i0 k0 e0 E. inversion E; subst. split; assumption.
      * eapply ginv_update with (i := i); [exact G|exact D'|exact Ht|reflexivity|auto| | | |exact Su].
        -- intros k0 e0 Hk. discriminate.
        -- intros e0 Hk. discriminate.
        -- cbn [ents set_pc set_thr set_ent]. intros e1 H1. destruct (Hent _ _ H1) as [H2|[_ X]]; [left; exact H2|discriminate].
    + (* WaitTok, cancelled (not reachable in this mode, but a defined step) *)
      destruct (cancelled t); [|discriminate]. inversion H; subst; clear H.
      eapply ginv_update with (i := i); [exact G|exact D'|exact Ht|reflexivity|auto| | |cbn; auto|exact Su].
      * intros k0 e0 Hk. discriminate.
      * intros e0 Hk. discriminate.
Qed.

Lemma grun_inv tr : forall s log s' log', ginv s log -> grun s tr log = Some (s', log') -> ginv s' log'.
Proof.
  induction tr as [|e r IH]; intros s log s' log' G H; cbn in H.
  - inversion H; subst. exact G.
  - destruct (step MDedup s e) as [s1|] eqn:E; [|discriminate]. eapply IH; [|exact H]. apply gstep_inv; assumption.
Qed.

Lemma ginv_init sets source sink : ginv (init_state sets source sink) [].
Proof.
  assert (H : forall i t, nth_error (map init_thread sets) i = Some t -> tpc t = NotStarted).
  { intros i t Hi. apply nth_error_In in Hi. apply in_map_iff in Hi. destruct Hi as (x & <- & _). reflexivity. }
  constructor.
  - apply dinv_init.
  - intros i t k e Hi Ha. unfold asked in Ha. cbn in Hi. rewrite (H _ _ Hi) in Ha. discriminate.
  - intros i t e Hi Ha. unfold done_ok in Ha. cbn in Hi. rewrite (H _ _ Hi) in Ha. discriminate.
  - intros e He. cbn in He. destruct e; discriminate.
  - intros [|? ?] l2 i k e E; discriminate.
Qed.

(** Every success reported to a caller i for key k rests on an in-flight entry
    e such that, earlier in the trace, (1) caller i asked for k and found or
    created e, and (2) e's owner saw the sink report k present or completed
    the copy.  [ask_registered] adds that e was registered under k in the
    in-flight map at the moment of (1). *)
Theorem dedup_success_justified sets source sink tr s log :
  grun (init_state sets source sink) tr [] = Some (s, log) ->
  forall l1 l2 i k e, log = l1 ++ GSucc i k e :: l2 -> In (GJust e) l2 /\ In (GAsk i k e) l2.
Proof. intros H. exact (g_succ _ _ (grun_inv tr _ _ _ _ (ginv_init sets source sink) H)). Qed.

Theorem ask_registered s ev s' i k e :
  step MDedup s ev = Some s' -> In (GAsk i k e) (gstep s ev) -> lookup_key k (inflight s') = Some e.
Proof.
  intros H Hin. destruct ev as [j|j f|j|dt|j alt]; cbn [gstep] in Hin; try contradiction.
  - destruct (nth_error (thr s) j) as [t|] eqn:Ht; [|contradiction].
    destruct (tpc t); try contradiction.
    + destruct ((f =? 0) && memn k0 (snk s)); [destruct Hin as [X|[]]; discriminate|contradiction].
    + destruct rest; [|contradiction]. destruct (_ =? 0); [destruct Hin as [X|[]]; discriminate|contradiction].
  - destruct alt; [contradiction|]. cbn [step] in H.
    destruct (nth_error (thr s) j) as [t|] eqn:Ht; [|contradiction].
    destruct (tpc t) eqn:Hp; try contradiction.
    + destruct (todo t) as [|k0 rest]; [contradiction|]. destruct Hin as [X|[]]. inversion X; subst.
      destruct (lookup_key k (inflight s)) as [e0|] eqn:L; inversion H; subst; cbn [inflight set_pc set_thr lookup_key].
      * exact L.
      * rewrite Nat.eqb_refl. reflexivity.
    + destruct (nth_error (ents s) e0) as [[[] []]|]; try contradiction. destruct Hin as [X|[]]; discriminate.
    + destruct (c =? 0); [destruct Hin as [X|[]]; discriminate|contradiction].
Qed.
