(** C17L: the three entry points of a replicator decorator.

    Go sources: pkg/blobstore/replication/concurrency_limiting_blob_replicator.go
    and deduplicating_blob_replicator.go.  Both decorators implement

      ReplicateSingle(d)       = if err := ReplicateMultiple({d}); err != nil { error buffer }
                                 else WithErrorHandler(sink.Get(d), notFoundToInternal)
      ReplicateComposite(p, c) = if err := ReplicateMultiple({p}); err != nil { error buffer }
                                 else WithErrorHandler(sink.GetFromComposite(p, c), notFoundToInternal)

    so a caller of either runs the decorator's own ReplicateMultiple on a
    singleton set (for the limiter: acquire the semaphore, or give up with
    CANCELLED when the context is done before or while waiting; call the base
    replicator; release - on the success and on the error path alike) and only
    then, with nothing held, reads the sink; when ReplicateMultiple failed the
    sink is not read and the failure is the result.  The base replicator's
    ReplicateSingle / ReplicateComposite are never called.

    The model is the transition system of Compose/Replicators.v (callers of
    ReplicateMultiple) extended by a read-back phase: a caller of kind
    [KSingle d] / [KComposite d] whose ReplicateMultiple part reached [Done 0]
    is parked in sink.Get / sink.GetFromComposite; the release event of that
    backend call produces its result.  Definitions only. *)
From Coq Require Import List ZArith NArith Bool Arith Lia.
From BBS Require Import Common.ListX Compose.ExistenceCache Compose.Replicators.
Import ListNotations.
Open Scope Z_scope.

Inductive ekind := KMulti | KSingle (d : nat) | KComposite (d : nat).
Inductive post := PNone | PRead (c : Z).

Record xstate := mkxs { xb : cstate; xpost : list post }.

Definition read_obj (k : ekind) : option nat :=
  match k with KMulti => None | KSingle d | KComposite d => Some d end.

(** [Some d]: caller i is parked in the read-back of object d from the sink. *)
Definition reading (kinds : list ekind) (x : xstate) (i : nat) : option nat :=
  match nth_error (thr (xb x)) i, nth i (xpost x) PNone with
  | Some t, PNone => match tpc t with Done 0 => read_obj (nth i kinds KMulti) | _ => None end
  | _, _ => None
  end.

(** Outcome of the read-back: the injected fault f (NOT_FOUND is turned into
    INTERNAL by notFoundToInternalErrorHandler), else OK iff the sink holds d. *)
Definition read_code (f : Z) (d : nat) (sink : list nat) : Z :=
  if negb (f =? 0) then (if f =? 5 then 13 else f) else if memn d sink then 0 else 13.

Definition lift (x : xstate) (o : option cstate) : option xstate :=
  match o with Some b => Some (mkxs b (xpost x)) | None => None end.

Definition xstep (kinds : list ekind) (m : mode) (x : xstate) (e : ev) : option xstate :=
  match e with
  | ERel i f =>
      match reading kinds x i with
      | Some d => Some (mkxs (xb x) (upd i (PRead (read_code f d (snk (xb x)))) (xpost x)))
      | None => lift x (step m (xb x) e)
      end
  | _ => lift x (step m (xb x) e)
  end.

Fixpoint xrun (kinds : list ekind) (m : mode) (x : xstate) (tr : list ev) : option xstate :=
  match tr with
  | [] => Some x
  | e :: r => match xstep kinds m x e with Some x' => xrun kinds m x' r | None => None end
  end.

(** A caller of ReplicateSingle / ReplicateComposite asks for one object. *)
Definition eff_set (k : ekind) (ds : list nat) : list nat :=
  match read_obj k with Some d => [d] | None => ds end.

Definition xinit (kinds : list ekind) (sets : list (list nat)) (source sink : list nat) : xstate :=
  mkxs (init_state (map (fun p => eff_set (fst p) (snd p)) (combine kinds sets)) source sink)
       (map (fun _ => PNone) sets).

(** What caller i reported to its own caller, if it returned. *)
Definition xresult (kinds : list ekind) (x : xstate) (i : nat) : option Z :=
  match nth i (xpost x) PNone with
  | PRead c => Some c
  | PNone =>
      match nth_error (thr (xb x)) i with
      | Some t => match tpc t with
                  | Done c => match reading kinds x i with Some _ => None | None => Some c end
                  | _ => None
                  end
      | None => None
      end
  end.

Definition xfinished (kinds : list ekind) (x : xstate) (i : nat) : bool :=
  match xresult kinds x i with Some _ => true | None => false end.

(** Semaphore accounting of the limiter (used by the release theorems). *)
Definition permit_holder (t : thread) : bool :=
  match tpc t with Get _ _ _ | Put _ _ _ _ | Granted => true | _ => false end.
Definition holders (s : cstate) : nat := length (filter permit_holder (thr s)).
Definition waiting (t : thread) : bool := match tpc t with WaitSem => true | _ => false end.

(** Callers [late] arrive one after the other: each starts and runs up to its
    first blocking point. *)
Definition arrivals (late : list nat) : list ev := flat_map (fun i => [EStart i; ETau i false]) late.
