(** C17, helper for Run/R17Proofs.v (replicator decorators): the running maxima
    [maxkey] / [maxall] that the harness reports (concurrent calls of the base
    replicator per key / overall, taken when the decorator enters the base
    replicator) obey the bounds of the property, for every trace.

    The theorems of Compose/ReplicatorsProofs.v bound the number of callers
    whose program counter is inside a copy ([copies_of], [copies]); the maxima
    count callers whose [bset] is set.  The link is the invariant [wfb]: a
    caller has its [bset] set only while inside a copy, and for the
    deduplicating replicator the set is the key being copied.  (For the
    concurrency-limiting replicator this needs the semaphore's FIFO to hold
    exactly callers that wait, without duplicates.)  The bounds then follow
    from the invariants [dinv], [linv], [qinv] already proved there. *)
From Coq Require Import List ZArith NArith Bool Arith Lia Permutation.
From BBS Require Import Common.ListX Compose.ExistenceCache Compose.ExistenceCacheProofs
  Compose.Replicators Compose.ReplicatorsProofs.
Import ListNotations.
Local Open Scope nat_scope.

Definition wfb (m : mode) (t : thread) : Prop :=
  forall ds, bset t = Some ds ->
    match tpc t with
    | Get d rest _ | Put d _ rest _ => (exists pre, ds = pre ++ d :: rest) /\ (m = MDedup -> ds = [d])
    | _ => False
    end.

Definition bound_ok (m : mode) (s : cstate) : Prop :=
  match m with
  | MDedup => maxkey s <= 1
  | MLimit k => maxall s <= k
  | MQueued _ _ => maxall s <= 1
  end.

Record Inv (m : mode) (s : cstate) : Prop := mkInv {
  i_wfb : Forall (wfb m) (thr s);
  i_nd : NoDup (semq s);
  i_q : forall j tj, In j (semq s) -> nth_error (thr s) j = Some tj -> tpc tj = WaitSem;
  i_b : bound_ok m s }.

Lemma Forall_upd {T} (Q : T -> Prop) i x l : Forall Q l -> Q x -> Forall Q (upd i x l).
Proof.
  revert i. induction l as [|h t IH]; intros [|i] H Hx; cbn [upd]; try exact H.
  - inversion H; subst. constructor; assumption.
  - inversion H; subst. constructor; [assumption|apply IH; assumption].
Qed.

Lemma upd_same {T} i (t : T) l : nth_error l i = Some t -> upd i t l = l.
Proof. revert i. induction l as [|h tl IH]; intros [|i] H; cbn in *; try discriminate; [inversion H; reflexivity|rewrite IH; auto]. Qed.

Lemma inv_wfb m s i t : Inv m s -> nth_error (thr s) i = Some t -> wfb m t.
Proof. intros I H. apply nth_error_In in H. pose proof (i_wfb _ _ I) as F. rewrite Forall_forall in F. apply F, H. Qed.

Lemma bound_ok_eq m s s' : maxkey s' = maxkey s -> maxall s' = maxall s -> bound_ok m s -> bound_ok m s'.
Proof. intros A B. unfold bound_ok. rewrite A, B. auto. Qed.

Lemma inv_upd m s s' i t x : Inv m s -> nth_error (thr s) i = Some t -> (tpc t = WaitSem -> tpc x = WaitSem) ->
  thr s' = upd i x (thr s) -> semq s' = semq s -> bound_ok m s' -> wfb m x -> Inv m s'.
Proof.
  intros [W N Q B] Ht Hw Hthr Hq Hb Hx. constructor.
  - rewrite Hthr. apply Forall_upd; assumption.
  - rewrite Hq. exact N.
  - intros j tj Hj Hn. rewrite Hq in Hj. rewrite Hthr in Hn. apply nth_error_upd_inv in Hn.
    destruct Hn as [[-> ->]|[_ Hn]]; [apply Hw; eapply Q; eassumption|eapply Q; eassumption].
  - exact Hb.
Qed.

Lemma inv_same m s s' : Inv m s -> thr s' = thr s -> semq s' = semq s -> bound_ok m s' -> Inv m s'.
Proof. intros [W N Q B] Ht Hq Hb. constructor; rewrite ?Ht, ?Hq; assumption. Qed.

Lemma inv_enqueue m s s' i t x : Inv m s -> nth_error (thr s) i = Some t -> tpc t <> WaitSem -> tpc x = WaitSem ->
  thr s' = upd i x (thr s) -> semq s' = semq s ++ [i] -> bound_ok m s' -> wfb m x -> Inv m s'.
Proof.
  intros [W N Q B] Ht Hw Hxw Hthr Hq Hb Hx.
  assert (Hni : ~ In i (semq s)) by (intros X; apply Hw; eapply Q; eassumption).
  constructor.
  - rewrite Hthr. apply Forall_upd; assumption.
  - rewrite Hq. apply Permutation_NoDup with (l := i :: semq s); [apply Permutation_cons_append|constructor; assumption].
  - intros j tj Hj Hn. rewrite Hq in Hj. rewrite Hthr in Hn. apply nth_error_upd_inv in Hn.
    destruct Hn as [[-> ->]|[Hne Hn]]; [exact Hxw|].
    apply in_app_or in Hj. destruct Hj as [Hj|[Hj|[]]]; [eapply Q; eassumption|congruence].
  - exact Hb.
Qed.

Lemma inv_notify m k : forall fuel s, Inv m s -> Inv m (notify fuel k s).
Proof.
  induction fuel as [|f IH]; intros s I; cbn [notify]; [exact I|].
  destruct (semq s) as [|j q'] eqn:Eq; [exact I|]. destruct (Nat.ltb (cur s) k); [|exact I].
  destruct (nth_error (thr s) j) as [tj|] eqn:Hj; [|exact I]. apply IH.
  destruct I as [W N Q B]. rewrite Eq in N, Q. inversion N as [|? ? Hnj Nq]; subst.
  assert (Hpj : tpc tj = WaitSem) by (apply (Q j tj); [left; reflexivity|exact Hj]).
  constructor; cbn [thr semq].
  - apply Forall_upd; [exact W|]. intros ds Hb. cbn [bset] in Hb.
    pose proof (inv_wfb m s j tj (mkInv m s W ltac:(rewrite Eq; exact N) ltac:(rewrite Eq; exact Q) B) Hj ds Hb) as X.
    rewrite Hpj in X. contradiction.
  - exact Nq.
  - intros j' tj' Hin Hn. apply nth_error_upd_inv in Hn. destruct Hn as [[-> ->]|[_ Hn]]; [contradiction|].
    apply (Q j' tj'); [right; exact Hin|exact Hn].
  - exact B.
Qed.

Lemma inv_sem_release m k s : Inv m s -> Inv m (sem_release k s).
Proof. intros I. unfold sem_release. apply inv_notify. eapply inv_same; [exact I|reflexivity|reflexivity|apply (i_b _ _ I)]. Qed.

Lemma wfb_none m p td c : wfb m (mkthr p td c None).
Proof. intros ds Hb. discriminate. Qed.

(** The base replicator returned: the caller's [bset] is cleared. *)
Lemma inv_finish_base m i t t' e k c s s1 y : Inv m s -> nth_error (thr s) i = Some t -> tpc t <> WaitSem ->
  thr s1 = upd i y (thr s) -> semq s1 = semq s -> bound_ok m s1 ->
  Inv m (finish_base m i t' e k c s1).
Proof.
  intros I Ht Hw Hthr Hq Hb. destruct m as [|lim|size dur]; cbn [finish_base].
  - eapply inv_upd with (i := i) (t := t); [exact I|exact Ht|intros X; contradiction|cbn [thr set_thr]; rewrite Hthr, upd_upd; reflexivity|exact Hq|exact Hb|apply wfb_none].
  - apply inv_sem_release.
    eapply inv_upd with (i := i) (t := t); [exact I|exact Ht|intros X; contradiction|cbn [thr set_thr]; rewrite Hthr, upd_upd; reflexivity|exact Hq|exact Hb|apply wfb_none].
  - eapply inv_upd with (i := i) (t := t); [exact I|exact Ht|intros X; contradiction|cbn [thr set_thr]; rewrite Hthr, upd_upd; reflexivity|exact Hq|exact Hb|apply wfb_none].
Qed.

(** The decorator enters the base replicator. *)
Lemma inv_begin_base m i t ds e k s s0 : Inv m s -> nth_error (thr s) i = Some t -> tpc t <> WaitSem ->
  thr s0 = thr s -> semq s0 = semq s -> (m = MDedup -> exists d, ds = [d]) ->
  bound_ok m (note_max ds (set_thr i (mkthr (tpc t) (todo t) (cancelled t) (Some ds)) s0)) ->
  Inv m (begin_base m i t ds e k s0).
Proof.
  intros I Ht Hw Hthr Hq Hd Hb. unfold begin_base. destruct ds as [|d rest].
  - eapply inv_finish_base with (t := t); [exact I|exact Ht|exact Hw|cbn [thr note_max set_thr]; rewrite Hthr; reflexivity|exact Hq|exact Hb].
  - eapply inv_upd with (i := i) (t := t); [exact I|exact Ht|intros X; contradiction
      |cbn [thr note_max set_thr]; rewrite Hthr, upd_upd; reflexivity|exact Hq|exact Hb|].
    intros ds Hs. cbn [bset tpc] in *. inversion Hs; subst ds. split; [exists []; reflexivity|].
    intros Hm. destruct (Hd Hm) as [d0 E]. inversion E; subst. reflexivity.
Qed.

(** Counting *)
Lemma count_le_in {T} (p q : T -> bool) l : (forall x, In x l -> p x = true -> q x = true) -> count p l <= count q l.
Proof.
  unfold count. induction l as [|a r IH]; intros H; cbn; [lia|].
  assert (IH' : length (filter p r) <= length (filter q r)) by (apply IH; intros x Hx; apply H; right; exact Hx).
  destruct (p a) eqn:P; [rewrite (H a (or_introl eq_refl) P); cbn; lia|]. destruct (q a); cbn; lia.
Qed.

Lemma count_zero {T} (p : T -> bool) l : (forall x, In x l -> p x = false) -> count p l = 0.
Proof.
  unfold count. induction l as [|a r IH]; intros H; cbn; [reflexivity|].
  rewrite (H a (or_introl eq_refl)). apply IH. intros x Hx. apply H. right. exact Hx.
Qed.

Lemma wfb_in_copy m t : wfb m t -> in_base t = true -> in_copy t = true.
Proof.
  intros W H. unfold in_base in H. destruct (bset t) as [ds|] eqn:B; [|discriminate].
  specialize (W ds B). unfold in_copy. destruct (tpc t); try contradiction; reflexivity.
Qed.

Lemma in_base_le_in_copy m s : Inv m s -> count in_base (thr s) <= count in_copy (thr s).
Proof.
  intros I. apply count_le_in. intros x Hx. pose proof (i_wfb _ _ I) as F. rewrite Forall_forall in F.
  apply (wfb_in_copy m), F, Hx.
Qed.

Lemma not_copy_not_base m t : wfb m t -> in_copy t = false -> in_base t = false.
Proof. intros W H. destruct (in_base t) eqn:B; [|reflexivity]. rewrite (wfb_in_copy m t W B) in H. discriminate. Qed.

(** Entering the base replicator from outside a copy adds one to the callers inside it. *)
Lemma count_all_enter m s s0 i t ds : Inv m s -> nth_error (thr s) i = Some t -> in_copy t = false -> thr s0 = thr s ->
  count_all (set_thr i (mkthr (tpc t) (todo t) (cancelled t) (Some ds)) s0) <= copies s + 1.
Proof.
  intros I Ht Hc Hthr. unfold count_all, copies. cbn [thr set_thr]. rewrite Hthr.
  pose proof (count_upd in_base i (mkthr (tpc t) (todo t) (cancelled t) (Some ds)) (thr s) t Ht) as C.
  pose proof (in_base_le_in_copy m s I) as L. unfold count in *.
  rewrite (not_copy_not_base m t (inv_wfb m s i t I Ht) Hc) in C. cbn [in_base bset b2n] in C. lia.
Qed.

(** * The step lemma *)
Definition aux (m : mode) (s : cstate) : Prop :=
  match m with
  | MDedup => dinv s
  | MLimit k => linv k s
  | MQueued _ _ => qinv s
  end.

Ltac nocopy Hw Hp :=
  let ds := fresh "ds" in let Hb := fresh "Hb" in
  intros ds Hb; cbn [bset] in Hb; specialize (Hw ds Hb); rewrite Hp in Hw; contradiction.

Ltac updi I i t Ht Hp :=
  eapply inv_upd with (i := i) (t := t);
  [exact I|exact Ht|rewrite Hp; let Z := fresh in (intros Z; discriminate Z)|reflexivity|reflexivity|apply (i_b _ _ I)|].

Lemma wfb_next_after_key m t : wfb m (next_after_key t).
Proof. unfold next_after_key. destruct (todo t) as [|? [|? ?]]; apply wfb_none. Qed.

Lemma step_inv m s e s' : Inv m s -> aux m s -> step m s e = Some s' -> Inv m s'.
Proof.
  intros I X H. destruct e as [i|i f|i|dt|i alt]; cbn [step] in H.
  - (* EStart *)
    destruct (nth_error (thr s) i) as [t|] eqn:Ht; [|discriminate].
    pose proof (inv_wfb m s i t I Ht) as Hw.
    destruct (tpc t) eqn:Hp; try discriminate. inversion H; subst; clear H.
    updi I i t Ht Hp. nocopy Hw Hp.
  - (* ERel *)
    destruct (nth_error (thr s) i) as [t|] eqn:Ht; [|discriminate].
    pose proof (inv_wfb m s i t I Ht) as Hw.
    destruct (tpc t) eqn:Hp; try discriminate.
    + (* Fm *)
      destruct m as [|lim|size dur]; try discriminate.
      destruct (negb (f =? 0)%Z); [inversion H; subst; clear H; updi I i t Ht Hp; nocopy Hw Hp|].
      destruct (memn k (snk s)); inversion H; subst; clear H; [updi I i t Ht Hp; nocopy Hw Hp|].
      refine (inv_begin_base MDedup i t [k] e k s s I Ht _ eq_refl eq_refl _ _);
        [rewrite Hp; discriminate|intros _; exists k; reflexivity|].
      (* at most one caller per key in the base replicator *)
      cbn [bound_ok note_max maxkey fold_right]. apply Nat.max_lub; [apply (i_b _ _ I)|].
      unfold count_key. cbn [thr set_thr].
      set (p := fun t0 : thread => match bset t0 with Some ds => memn k ds | None => false end).
      pose proof (count_upd p i (mkthr (tpc t) (todo t) (cancelled t) (Some [k])) (thr s) t Ht) as C.
      assert (Hpt : p t = false).
      { unfold p. destruct (bset t) as [ds|] eqn:B; [|reflexivity]. specialize (Hw ds B). rewrite Hp in Hw. contradiction. }
      assert (Hz : count p (thr s) = 0).
      { apply count_zero. intros x Hx. destruct (p x) eqn:Px; [|reflexivity]. exfalso.
        apply In_nth_error in Hx. destruct Hx as [j Hj].
        pose proof (inv_wfb MDedup s j x I Hj) as Wx. unfold p in Px.
        destruct (bset x) as [ds|] eqn:B; [|discriminate]. specialize (Wx ds B).
        cbn [aux] in X.
        assert (Ox : owns x = Some k).
        { unfold owns. destruct (tpc x); try contradiction; destruct Wx as [_ Wd]; rewrite (Wd eq_refl) in Px;
            cbn in Px; rewrite orb_false_r in Px; apply Nat.eqb_eq in Px; subst; reflexivity. }
        assert (Ot : owns t = Some k) by (unfold owns; rewrite Hp; reflexivity).
        pose proof (d_uniq _ X i j t x k Ht Hj Ot Ox) as E. subst j. rewrite Ht in Hj. inversion Hj; subst x.
        rewrite Hp in Wx. contradiction. }
      unfold count in *. rewrite Hpt, Hz in C. unfold p at 2 in C. cbn [bset memn existsb] in C.
      rewrite Nat.eqb_refl in C. cbn [orb b2n] in C. fold p. lia.
    + (* Get *)
      inversion H; subst; clear H. updi I i t Ht Hp.
      intros ds Hb. cbn [bset tpc] in *. specialize (Hw ds Hb). rewrite Hp in Hw. exact Hw.
    + (* Put *)
      destruct ((if negb (f =? 0)%Z then f else b) =? 0)%Z.
      * destruct rest as [|d' rest']; inversion H; subst; clear H.
        -- eapply inv_finish_base with (t := t) (s := s) (y := t);
             [exact I|exact Ht|rewrite Hp; discriminate|cbn [thr]; symmetry; apply upd_same, Ht|reflexivity|apply (i_b _ _ I)].
        -- updi I i t Ht Hp. intros ds Hb. cbn [bset tpc] in *. specialize (Hw ds Hb). rewrite Hp in Hw.
           destruct Hw as [[pre E] Hd]. split.
           ++ exists (pre ++ [d]). rewrite <- app_assoc. exact E.
           ++ intros Hm. specialize (Hd Hm). subst ds. apply (f_equal (@length nat)) in Hd.
              rewrite app_length in Hd. cbn in Hd. lia.
      * inversion H; subst; clear H.
        eapply inv_finish_base with (t := t) (s := s) (y := t);
          [exact I|exact Ht|rewrite Hp; discriminate|cbn [thr]; symmetry; apply upd_same, Ht|reflexivity|apply (i_b _ _ I)].
  - (* ECancel *)
    destruct (nth_error (thr s) i) as [t|] eqn:Ht; [|discriminate].
    pose proof (inv_wfb m s i t I Ht) as Hw.
    destruct (cancelled t); [discriminate|]. inversion H; subst; clear H.
    eapply inv_upd with (i := i) (t := t) (x := mkthr (tpc t) (todo t) true (bset t));
      [exact I|exact Ht|intros E; exact E|reflexivity|reflexivity|apply (i_b _ _ I)|].
    intros ds Hb. cbn [bset tpc] in *. exact (Hw ds Hb).
  - (* EAdv *)
    inversion H; subst; clear H. eapply inv_same; [exact I|reflexivity|reflexivity|apply (i_b _ _ I)].
  - (* ETau *)
    destruct (nth_error (thr s) i) as [t|] eqn:Ht; [|discriminate].
    pose proof (inv_wfb m s i t I Ht) as Hw.
    destruct (tpc t) eqn:Hp; destruct alt; try discriminate.
    + (* Idle *)
      destruct m as [|lim|size dur].
      * destruct (todo t) as [|k rest] eqn:Htd; [discriminate|].
        destruct (lookup_key k (inflight s)) as [e0|]; inversion H; subst; clear H; updi I i t Ht Hp; nocopy Hw Hp.
      * destruct (cancelled t); [inversion H; subst; clear H; updi I i t Ht Hp; nocopy Hw Hp|].
        destruct (Nat.ltb (cur s) lim && match semq s with [] => true | _ => false end) eqn:E; inversion H; subst; clear H.
        -- apply andb_prop in E. destruct E as [E _]. apply Nat.ltb_lt in E.
           refine (inv_begin_base (MLimit lim) i t (todo t) 0 0 s
                     (mkcs (thr s) (inflight s) (ents s) (src s) (snk s) (S (cur s)) (semq s) (tok s) (qcache s) (clk s) (maxkey s) (maxall s))
                     I Ht _ eq_refl eq_refl _ _); [rewrite Hp; discriminate|discriminate|].
           cbn [bound_ok note_max maxall]. apply Nat.max_lub; [apply (i_b _ _ I)|].
           pose proof (count_all_enter (MLimit lim) s
                         (mkcs (thr s) (inflight s) (ents s) (src s) (snk s) (S (cur s)) (semq s) (tok s) (qcache s) (clk s) (maxkey s) (maxall s))
                         i t (todo t) I Ht ltac:(unfold in_copy; rewrite Hp; reflexivity) eq_refl) as C.
           destruct X as [XA XB]. unfold copies in C. fold (count in_copy (thr s)) in C.
           assert (count in_copy (thr s) <= count holder (thr s)).
           { apply count_le. intros x. unfold in_copy, holder. destruct (tpc x); auto. }
           lia.
        -- eapply inv_enqueue with (i := i) (t := t) (x := mkthr WaitSem (todo t) (cancelled t) (bset t)); [exact I|exact Ht|rewrite Hp; discriminate|reflexivity|reflexivity|reflexivity|apply (i_b _ _ I)|].
           nocopy Hw Hp.
      * destruct (ec_remove_existing dur (clk s) (todo t) (qcache s)) as [mm c1].
        inversion H; subst; clear H. updi I i t Ht Hp. nocopy Hw Hp.
    + (* Wait, cancelled *)
      destruct (cancelled t); [|discriminate]. inversion H; subst; clear H. updi I i t Ht Hp. nocopy Hw Hp.
    + (* Wait, woken *)
      destruct (nth_error (ents s) e) as [[[] []]|]; try discriminate; inversion H; subst; clear H.
      * updi I i t Ht Hp. apply wfb_next_after_key.
      * updi I i t Ht Hp. nocopy Hw Hp.
    + (* Unreg *)
      inversion H; subst; clear H. updi I i t Ht Hp. nocopy Hw Hp.
    + (* Close *)
      destruct (c =? 0)%Z; inversion H; subst; clear H.
      * updi I i t Ht Hp. apply wfb_next_after_key.
      * updi I i t Ht Hp. nocopy Hw Hp.
    + (* WaitSem, cancelled *)
      destruct (cancelled t); [|discriminate]. destruct m as [|lim|size dur]; try discriminate.
      injection H as <-.
      apply (inv_notify (MLimit lim) lim (S (length (semq s))) (mkcs (thr (set_pc i t (Done 1) s)) (inflight s) (ents s) (src s) (snk s) (cur s)
                (remove_nat i (semq s)) (tok s) (qcache s) (clk s) (maxkey s) (maxall s))).
      destruct I as [W N Q B]. constructor; cbn [thr semq set_pc set_thr].
      * apply Forall_upd; [exact W|]. nocopy Hw Hp.
      * apply remove_nat_nodup, N.
      * intros j tj Hj Hn. apply remove_nat_in in Hj. destruct Hj as [Hne Hj].
        apply nth_error_upd_inv in Hn. destruct Hn as [[-> _]|[_ Hn]]; [contradiction|]. eapply Q; eassumption.
      * exact B.
    + (* Granted *)
      destruct m as [|lim|size dur]; try discriminate.
      destruct (cancelled t); inversion H; subst; clear H.
      * apply inv_sem_release. updi I i t Ht Hp. nocopy Hw Hp.
      * refine (inv_begin_base (MLimit lim) i t (todo t) 0 0 s s I Ht _ eq_refl eq_refl _ _);
          [rewrite Hp; discriminate|discriminate|].
        cbn [bound_ok note_max maxall]. apply Nat.max_lub; [apply (i_b _ _ I)|].
        destruct X as [XA XB]. unfold count_all. cbn [thr set_thr].
        set (t1 := mkthr (tpc t) (todo t) (cancelled t) (Some (todo t))).
        assert (L : count in_base (upd i t1 (thr s)) <= count holder (upd i t1 (thr s))).
        { apply count_le_in. intros x Hx Bx.
          assert (F : Forall (fun x => in_base x = true -> holder x = true) (upd i t1 (thr s))).
          { apply Forall_upd.
            - pose proof (i_wfb _ _ I) as F. rewrite Forall_forall in *. intros y Hy By.
              pose proof (wfb_in_copy _ y (F y Hy) By) as Cy. unfold in_copy in Cy. unfold holder. destruct (tpc y); auto.
            - intros _. unfold holder, t1. cbn [tpc]. rewrite Hp. reflexivity. }
          rewrite Forall_forall in F. apply F; assumption. }
        pose proof (count_upd holder i t1 (thr s) t Ht) as C.
        assert (H1 : holder t1 = true) by (unfold holder, t1; cbn [tpc]; rewrite Hp; reflexivity).
        assert (H2 : holder t = true) by (unfold holder; rewrite Hp; reflexivity).
        rewrite H1, H2 in C. unfold count in *. lia.
    + (* WaitTok, cancelled *)
      destruct (cancelled t); [|discriminate]. inversion H; subst; clear H. updi I i t Ht Hp. nocopy Hw Hp.
    + (* WaitTok takes the token *)
      destruct m as [|lim|size dur]; try discriminate.
      destruct (tok s) eqn:Tk; [|discriminate].
      destruct (ec_remove_existing dur (clk s) (todo t) (qcache s)) as [mm c1].
      inversion H; subst; clear H.
      refine (inv_begin_base (MQueued size dur) i t mm 0 0 s
                (mkcs (thr s) (inflight s) (ents s) (src s) (snk s) (cur s) (semq s) false c1 (clk s) (maxkey s) (maxall s))
                I Ht _ eq_refl eq_refl _ _); [rewrite Hp; discriminate|discriminate|].
      cbn [bound_ok note_max maxall]. apply Nat.max_lub; [apply (i_b _ _ I)|].
      pose proof (count_all_enter (MQueued size dur) s
                    (mkcs (thr s) (inflight s) (ents s) (src s) (snk s) (cur s) (semq s) false c1 (clk s) (maxkey s) (maxall s))
                    i t mm I Ht ltac:(unfold in_copy; rewrite Hp; reflexivity) eq_refl) as C.
      cbn [aux] in X. unfold qinv in X. rewrite Tk in X. cbn [b2n] in X.
      unfold copies in C. fold (count in_copy (thr s)) in C. lia.
Qed.

(** * For every trace *)
Lemma inv_init m sets source sink : Inv m (init_state sets source sink).
Proof.
  constructor; cbn [init_state thr semq].
  - apply Forall_forall. intros t Ht. apply in_map_iff in Ht. destruct Ht as (x & <- & _). intros ds Hb. discriminate.
  - constructor.
  - intros j tj [].
  - destruct m; cbn; lia.
Qed.

Lemma aux_init m sets source sink : aux m (init_state sets source sink).
Proof.
  destruct m as [|lim|size dur]; cbn [aux].
  - apply dinv_init.
  - split; cbn [init_state thr cur]; [|lia]. rewrite count_init; [lia|reflexivity].
  - unfold qinv. cbn [init_state thr tok]. rewrite count_init; [cbn; lia|reflexivity].
Qed.

Lemma aux_step m s e s' : aux m s -> step m s e = Some s' -> aux m s'.
Proof.
  destruct m as [|lim|size dur]; cbn [aux]; intros A H.
  - eapply dedup_step_inv; eassumption.
  - eapply limit_step_inv; eassumption.
  - eapply queued_step_inv; eassumption.
Qed.

Theorem maxima_bounded m sets source sink tr s :
  run m (init_state sets source sink) tr = Some s -> bound_ok m s.
Proof.
  intros H.
  assert (J : Inv m s /\ aux m s).
  { eapply (run_inv m (fun s => Inv m s /\ aux m s)); [|split; [apply inv_init|apply aux_init]|exact H].
    intros s0 e s1 [I A] St. split; [eapply step_inv; eassumption|eapply aux_step; eassumption]. }
  apply (i_b _ _ (proj1 J)).
Qed.
