(** placeholder, replaced below *)
From Coq Require Import List.
