(** C17 (concurrent part): the deduplicating, concurrency-limiting and queued
    replicator decorators as one labelled transition system over n callers of
    [ReplicateMultiple], each decorating a local (copying) replicator.

    Go sources: pkg/blobstore/replication/{deduplicating,concurrency_limiting,
    queued,local}_blob_replicator.go, golang.org/x/sync/semaphore (FIFO).

    Atomic steps: one lock-protected section of the decorator (in-flight map
    lookup/registration, unregistration, publishing the outcome, a semaphore
    or token hand-over, an existence-cache call), or one backend call
    (sink.FindMissing, source.Get, sink.Put) whose outcome - the injected
    fault - comes with the event.  Definitions only. *)
From Coq Require Import List ZArith NArith Bool Arith Lia.
From BBS Require Import Common.ListX Compose.ExistenceCache.
Import ListNotations.
Open Scope Z_scope.

Inductive mode := MDedup | MLimit (k : nat) | MQueued (size : nat) (dur : N).

Inductive pc :=
| NotStarted
| Idle                                   (* about to enter the decorator for [todo] *)
| Wait (k e : nat)                       (* dedup: select on entry e of key k *)
| Fm (k e : nat)                         (* dedup leader: in sink.FindMissing [k] *)
| Get (d : nat) (rest : list nat) (e : nat)          (* local replicator: in source.Get d *)
| Put (d : nat) (b : Z) (rest : list nat) (e : nat)  (* local replicator: in sink.Put d, buffer b *)
| Unreg (k e : nat) (c : Z)              (* dedup leader: about to delete the in-flight entry *)
| Close (k e : nat) (c : Z)              (* dedup leader: about to publish success and close the channel *)
| WaitSem                                (* limit: queued on the semaphore *)
| Granted                                (* limit: semaphore handed over, not yet resumed *)
| WaitTok                                (* queued: select on the token channel *)
| Done (c : Z).

Record thread := mkthr { tpc : pc; todo : list nat; cancelled : bool; bset : option (list nat) }.

Record cstate := mkcs {
  thr : list thread;
  inflight : list (nat * nat);      (* dedup: key -> entry *)
  ents : list (bool * bool);        (* dedup: entry -> (finished, success) *)
  src : list nat; snk : list nat;   (* backend contents *)
  cur : nat; semq : list nat;       (* limit: permits in use, FIFO of waiting callers *)
  tok : bool;                       (* queued: the token is in the channel *)
  qcache : ec; clk : N;             (* queued: existence cache; virtual clock *)
  maxkey : nat; maxall : nat        (* running maxima of concurrent base calls per key / overall *)
}.

Inductive ev :=
| EStart (i : nat)
| ERel (i : nat) (f : Z)            (* the backend call caller i is parked in returns; f = injected fault *)
| ECancel (i : nat)
| EAdv (dt : N)
| ETau (i : nat) (alt : bool).      (* internal step; alt = the ctx.Done() branch of a select *)

Fixpoint upd {T} (i : nat) (x : T) (l : list T) : list T :=
  match l, i with
  | [], _ => []
  | _ :: t, O => x :: t
  | h :: t, S i' => h :: upd i' x t
  end.

Fixpoint lookup_key (k : nat) (m : list (nat * nat)) : option nat :=
  match m with [] => None | (k', e) :: r => if Nat.eqb k k' then Some e else lookup_key k r end.
Definition remove_inflight (k : nat) (m : list (nat * nat)) : list (nat * nat) :=
  filter (fun p => negb (Nat.eqb (fst p) k)) m.

Definition set_thr (i : nat) (t : thread) (s : cstate) : cstate :=
  mkcs (upd i t (thr s)) (inflight s) (ents s) (src s) (snk s) (cur s) (semq s) (tok s) (qcache s) (clk s) (maxkey s) (maxall s).
Definition set_pc (i : nat) (t : thread) (p : pc) (s : cstate) : cstate :=
  set_thr i (mkthr p (todo t) (cancelled t) (bset t)) s.

(** Concurrent base calls: overall, and the largest number sharing one key. *)
Definition in_base (t : thread) : bool := match bset t with Some _ => true | None => false end.
Definition count_all (s : cstate) : nat := length (filter in_base (thr s)).
Definition count_key (s : cstate) (k : nat) : nat :=
  length (filter (fun t => match bset t with Some ds => memn k ds | None => false end) (thr s)).
Definition note_max (ds : list nat) (s : cstate) : cstate :=
  mkcs (thr s) (inflight s) (ents s) (src s) (snk s) (cur s) (semq s) (tok s) (qcache s) (clk s)
       (fold_right (fun k m => Nat.max m (count_key s k)) (maxkey s) ds) (Nat.max (maxall s) (count_all s)).

(** The semaphore hands permits to the head of its FIFO. *)
Fixpoint notify (fuel k : nat) (s : cstate) : cstate :=
  match fuel with
  | O => s
  | S fuel' =>
      match semq s with
      | [] => s
      | j :: q' =>
          if Nat.ltb (cur s) k then
            match nth_error (thr s) j with
            | Some tj =>
                notify fuel' k
                  (mkcs (upd j (mkthr Granted (todo tj) (cancelled tj) (bset tj)) (thr s)) (inflight s) (ents s) (src s) (snk s)
                        (S (cur s)) q' (tok s) (qcache s) (clk s) (maxkey s) (maxall s))
            | None => s
            end
          else s
      end
  end.
Definition sem_release (k : nat) (s : cstate) : cstate :=
  notify (S (length (semq s))) k
    (mkcs (thr s) (inflight s) (ents s) (src s) (snk s) (Nat.pred (cur s)) (semq s) (tok s) (qcache s) (clk s) (maxkey s) (maxall s)).

(** The base (local) replicator returned [c] to the decorator. *)
Definition finish_base (m : mode) (i : nat) (t : thread) (e : nat) (k : nat) (c : Z) (s : cstate) : cstate :=
  match m with
  | MDedup => set_thr i (mkthr (Unreg k e c) (todo t) (cancelled t) None) s
  | MLimit lim => sem_release lim (set_thr i (mkthr (Done c) (todo t) (cancelled t) None) s)
  | MQueued size dur =>
      let s1 := set_thr i (mkthr (Done c) (todo t) (cancelled t) None) s in
      let cache' := if c =? 0 then ec_add size (clk s) (match bset t with Some ds => ds | None => [] end) (qcache s) else qcache s in
      mkcs (thr s1) (inflight s1) (ents s1) (src s1) (snk s1) (cur s1) (semq s1) true cache' (clk s1) (maxkey s1) (maxall s1)
  end.

(** The decorator calls base.ReplicateMultiple(ds); [e],[k]: dedup entry/key. *)
Definition begin_base (m : mode) (i : nat) (t : thread) (ds : list nat) (e k : nat) (s : cstate) : cstate :=
  let t1 := mkthr (tpc t) (todo t) (cancelled t) (Some ds) in
  let s1 := note_max ds (set_thr i t1 s) in
  match ds with
  | [] => finish_base m i t1 e k 0 s1
  | d :: rest => set_thr i (mkthr (Get d rest e) (todo t) (cancelled t) (Some ds)) s1
  end.

Definition next_after_key (t : thread) : thread :=
  match todo t with
  | _ :: (_ :: _) as rest => mkthr Idle rest (cancelled t) None
  | _ => mkthr (Done 0) [] (cancelled t) None
  end.

Definition set_ent (e : nat) (v : bool * bool) (s : cstate) : cstate :=
  mkcs (thr s) (inflight s) (upd e v (ents s)) (src s) (snk s) (cur s) (semq s) (tok s) (qcache s) (clk s) (maxkey s) (maxall s).

Definition step (m : mode) (s : cstate) (e : ev) : option cstate :=
  match e with
  | EStart i =>
      match nth_error (thr s) i with
      | Some t => match tpc t with
                  | NotStarted => Some (set_pc i t (match m, todo t with MDedup, [] => Done 0 | _, _ => Idle end) s)
                  | _ => None
                  end
      | None => None
      end
  | ECancel i =>
      match nth_error (thr s) i with
      | Some t => if cancelled t then None else Some (set_thr i (mkthr (tpc t) (todo t) true (bset t)) s)
      | None => None
      end
  | EAdv dt =>
      Some (mkcs (thr s) (inflight s) (ents s) (src s) (snk s) (cur s) (semq s) (tok s) (qcache s) (clk s + dt)%N (maxkey s) (maxall s))
  | ERel i f =>
      match nth_error (thr s) i with
      | Some t =>
          match tpc t with
          | Fm k e =>
              match m with
              | MDedup =>
                  if negb (f =? 0) then Some (set_pc i t (Unreg k e f) s)
                  else if memn k (snk s) then Some (set_pc i t (Unreg k e 0) s)
                  else Some (begin_base m i t [k] e k s)
              | _ => None
              end
          | Get d rest e =>
              let b := if negb (f =? 0) then f else if memn d (src s) then 0 else 5 in
              Some (set_pc i t (Put d b rest e) s)
          | Put d b rest e =>
              let c := if negb (f =? 0) then f else b in
              if c =? 0 then
                let s1 := mkcs (thr s) (inflight s) (ents s) (src s) (insert_sorted d (snk s)) (cur s) (semq s) (tok s)
                               (qcache s) (clk s) (maxkey s) (maxall s) in
                match rest with
                | [] => Some (finish_base m i t e d 0 s1)
                | d' :: rest' => Some (set_pc i t (Get d' rest' e) s1)
                end
              else Some (finish_base m i t e d c s)
          | _ => None
          end
      | None => None
      end
  | ETau i alt =>
      match nth_error (thr s) i with
      | Some t =>
          match tpc t, alt with
          | Idle, false =>
              match m with
              | MDedup =>
                  match todo t with
                  | [] => None
                  | k :: _ =>
                      match lookup_key k (inflight s) with
                      | Some e => Some (set_pc i t (Wait k e) s)
                      | None =>
                          let e := length (ents s) in
                          let s1 := set_pc i t (Fm k e) s in
                          Some (mkcs (thr s1) ((k, e) :: inflight s) (ents s ++ [(false, false)]) (src s) (snk s) (cur s) (semq s)
                                     (tok s) (qcache s) (clk s) (maxkey s) (maxall s))
                      end
                  end
              | MLimit lim =>
                  if cancelled t then Some (set_pc i t (Done 1) s)
                  else if Nat.ltb (cur s) lim && match semq s with [] => true | _ => false end
                  then Some (begin_base m i t (todo t) 0 0
                               (mkcs (thr s) (inflight s) (ents s) (src s) (snk s) (S (cur s)) (semq s) (tok s) (qcache s) (clk s)
                                     (maxkey s) (maxall s)))
                  else let s1 := set_pc i t WaitSem s in
                       Some (mkcs (thr s1) (inflight s) (ents s) (src s) (snk s) (cur s) (semq s ++ [i]) (tok s) (qcache s) (clk s)
                                  (maxkey s) (maxall s))
              | MQueued size dur =>
                  let (mm, c1) := ec_remove_existing dur (clk s) (todo t) (qcache s) in
                  let s1 := set_pc i t (match mm with [] => Done 0 | _ => WaitTok end) s in
                  Some (mkcs (thr s1) (inflight s) (ents s) (src s) (snk s) (cur s) (semq s) (tok s) c1 (clk s) (maxkey s) (maxall s))
              end
          | Wait k e, false =>
              match nth_error (ents s) e with
              | Some (true, true) => Some (set_thr i (next_after_key t) s)
              | Some (true, false) => Some (set_pc i t Idle s)
              | _ => None
              end
          | Wait k e, true => if cancelled t then Some (set_pc i t (Done 1) s) else None
          | Unreg k e c, false =>
              let s1 := set_pc i t (Close k e c) s in
              Some (mkcs (thr s1) (remove_inflight k (inflight s)) (ents s) (src s) (snk s) (cur s) (semq s) (tok s) (qcache s) (clk s)
                         (maxkey s) (maxall s))
          | Close k e c, false =>
              let s1 := set_ent e (true, c =? 0) s in
              if c =? 0 then Some (set_thr i (next_after_key t) s1) else Some (set_pc i t (Done c) s1)
          | WaitSem, true =>
              if cancelled t then
                match m with
                | MLimit lim =>
                    let s1 := set_pc i t (Done 1) s in
                    Some (notify (S (length (semq s))) lim
                            (mkcs (thr s1) (inflight s) (ents s) (src s) (snk s) (cur s) (remove_nat i (semq s)) (tok s) (qcache s) (clk s)
                                  (maxkey s) (maxall s)))
                | _ => None
                end
              else None
          | Granted, false =>
              match m with
              | MLimit lim =>
                  if cancelled t then Some (sem_release lim (set_pc i t (Done 1) s))
                  else Some (begin_base m i t (todo t) 0 0 s)
              | _ => None
              end
          | WaitTok, false =>
              match m with
              | MQueued size dur =>
                  if tok s then
                    let (mm, c1) := ec_remove_existing dur (clk s) (todo t) (qcache s) in
                    Some (begin_base m i t mm 0 0
                            (mkcs (thr s) (inflight s) (ents s) (src s) (snk s) (cur s) (semq s) false c1 (clk s) (maxkey s) (maxall s)))
                  else None
              | _ => None
              end
          | WaitTok, true => if cancelled t then Some (set_pc i t (Done 1) s) else None
          | _, _ => None
          end
      | None => None
      end
  end.

Fixpoint run (m : mode) (s : cstate) (tr : list ev) : option cstate :=
  match tr with
  | [] => Some s
  | e :: r => match step m s e with Some s' => run m s' r | None => None end
  end.

Definition init_thread (ds : list nat) : thread := mkthr NotStarted ds false None.
Definition init_state (sets : list (list nat)) (source sink : list nat) : cstate :=
  mkcs (map init_thread sets) [] [] source sink 0 [] true ec_empty 0%N 0 0.

(** The property's quantities. *)
Definition copying_key (k : nat) (t : thread) : bool :=
  match tpc t with
  | Get d _ _ => Nat.eqb d k
  | Put d _ _ _ => Nat.eqb d k
  | _ => false
  end.
Definition copies_of (k : nat) (s : cstate) : nat := length (filter (copying_key k) (thr s)).
Definition in_copy (t : thread) : bool := match tpc t with Get _ _ _ | Put _ _ _ _ => true | _ => false end.
Definition copies (s : cstate) : nat := length (filter in_copy (thr s)).
