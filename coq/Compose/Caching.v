(** C17 (sequential part): read-caching and read-fallback composites over two
    abstract backends with a fault oracle per call, and the replicators that
    copy from the source backend [BB] (slow / secondary) into the sink backend
    [BA] (fast / primary).

    Go sources: pkg/blobstore/readcaching/read_caching_blob_access.go,
    pkg/blobstore/readfallback/read_fallback_blob_access.go,
    pkg/blobstore/replication/{with,local,noop,deduplicating,concurrency_limiting}_blob_replicator.go.

    Objects are natural numbers (index into a table of digests whose set order
    is the numeric order); an error is its gRPC code ([0] = no error,
    [5] = NOT_FOUND, [13] = INTERNAL); a buffer is the code it will yield when
    consumed ([0] = the object's bytes).  Definitions only. *)
From Coq Require Import List ZArith Bool Arith Lia.
From BBS Require Import Common.ListX.
Import ListNotations.
Open Scope Z_scope.

Definition memb (d : nat) (s : list nat) : bool := existsb (Nat.eqb d) s.

Inductive bk := BA | BB.
Inductive cop := CGet | CPut | CFm | CGfc.
Record call := mkcall { c_bk : bk; c_op : cop; c_args : list nat; c_fault : Z }.

(** [sa]/[sb]: contents; [fl]: faults still to be injected (one per backend
    call, [0] = none, exhausted = none); [lg]: calls received, newest first. *)
Record st := mkst { sa : list nat; sb : list nat; fl : list Z; lg : list call }.

Definition contents (b : bk) (s : st) : list nat := match b with BA => sa s | BB => sb s end.
Definition set_contents (b : bk) (v : list nat) (s : st) : st :=
  match b with
  | BA => mkst v (sb s) (fl s) (lg s)
  | BB => mkst (sa s) v (fl s) (lg s)
  end.

(** Every backend call is logged and consumes one fault. *)
Definition record (b : bk) (o : cop) (args : list nat) (s : st) : Z * st :=
  match fl s with
  | [] => (0, mkst (sa s) (sb s) [] (mkcall b o args 0 :: lg s))
  | f :: r => (f, mkst (sa s) (sb s) r (mkcall b o args f :: lg s))
  end.

Definition bget (b : bk) (d : nat) (s : st) : Z * st :=
  let (f, s1) := record b CGet [d] s in
  if f =? 0 then ((if memb d (contents b s1) then 0 else 5), s1) else (f, s1).

(** [GetFromComposite(p, child of p, slicer)] on a backend: the backends of
    this model hold whole parents; the child is served iff the parent is held
    (code [0] = the child's bytes).  A call of its own kind in the log. *)
Definition bgfc (b : bk) (p : nat) (s : st) : Z * st :=
  let (f, s1) := record b CGfc [p] s in
  if f =? 0 then ((if memb p (contents b s1) then 0 else 5), s1) else (f, s1).

(** [Put] of a buffer [buf]: an injected fault wins; otherwise an error buffer
    yields its error; otherwise the object is stored. *)
Definition bput (b : bk) (d : nat) (buf : Z) (s : st) : Z * st :=
  let (f, s1) := record b CPut [d] s in
  if negb (f =? 0) then (f, s1)
  else if negb (buf =? 0) then (buf, s1)
  else (0, set_contents b (insert_sorted d (contents b s1)) s1).

Definition bfm (b : bk) (ds : list nat) (s : st) : Z * list nat * st :=
  let (f, s1) := record b CFm ds s in
  if f =? 0 then (0, filter (fun d => negb (memb d (contents b s1))) ds, s1)
  else (f, [], s1).

(** localBlobReplicator: source [BB], sink [BA]. *)
Fixpoint local_multiple (ds : list nat) (s : st) : Z * st :=
  match ds with
  | [] => (0, s)
  | d :: r =>
      let (b, s1) := bget BB d s in
      let (c, s2) := bput BA d b s1 in
      if c =? 0 then local_multiple r s2 else (c, s2)
  end.

(** ReplicateSingle: [source.Get(d).CloneStream()], [b1.WithTask(sink.Put(b2))].
    For a data buffer the result is the task's error, if any; for an error
    buffer the task runs, its result is dropped, and the error stays. *)
Definition local_single (d : nat) (s : st) : Z * st :=
  let (b, s1) := bget BB d s in
  let (c, s2) := bput BA d b s1 in
  if b =? 0 then (c, s2) else (b, s2).

Inductive repl := RLocal | RNoop | RDedup (r : repl) | RLimit (r : repl).

(** ReplicateMultiple, called by one caller at a time (the concurrent
    behaviour of the decorators is in Compose/Replicators.v). *)
Fixpoint rmultiple (r : repl) (ds : list nat) (s : st) : Z * st :=
  match r with
  | RLocal => local_multiple ds s
  | RNoop => (0, s)
  | RDedup r' =>
      (fix go (ds : list nat) (s : st) : Z * st :=
         match ds with
         | [] => (0, s)
         | d :: rest =>
             let '(c, miss, s1) := bfm BA [d] s in
             if negb (c =? 0) then (c, s1)
             else match miss with
                  | [] => go rest s1
                  | _ => let (c2, s2) := rmultiple r' [d] s1 in
                         if c2 =? 0 then go rest s2 else (c2, s2)
                  end
         end) ds s
  | RLimit r' => rmultiple r' ds s
  end.

(** [WithErrorHandler(sink.Get, notFoundToInternalErrorHandler)]. *)
Definition sink_get_nf (d : nat) (s : st) : Z * st :=
  let (b, s1) := bget BA d s in ((if b =? 5 then 13 else b), s1).

Definition rsingle (r : repl) (d : nat) (s : st) : Z * st :=
  match r with
  | RLocal => local_single d s
  | RNoop => bget BB d s
  | RDedup _ | RLimit _ =>
      let (c, s1) := rmultiple r [d] s in
      if c =? 0 then sink_get_nf d s1 else (c, s1)
  end.

(** [WithErrorHandler(sink.GetFromComposite, notFoundToInternalErrorHandler)]. *)
Definition sink_gfc_nf (p : nat) (s : st) : Z * st :=
  let (b, s1) := bgfc BA p s in ((if b =? 5 then 13 else b), s1).

(** ReplicateComposite(parent p, child, slicer).  noop: the source's
    GetFromComposite.  local, deduplicating, concurrency-limiting: the
    replicator's own ReplicateMultiple on the singleton {p} - for the local
    replicator [sink.Put(p, source.Get(p))], so the WHOLE PARENT is what lands
    in the sink - and, if that succeeded, the child is read back from the sink
    (NOT_FOUND there becomes INTERNAL); a failed ReplicateMultiple is the
    result and the sink is not read. *)
Definition rcomposite (r : repl) (p : nat) (s : st) : Z * st :=
  match r with
  | RNoop => bgfc BB p s
  | _ => let (c, s1) := rmultiple r [p] s in
         if c =? 0 then sink_gfc_nf p s1 else (c, s1)
  end.

Fixpoint copying (r : repl) : bool :=
  match r with RLocal => true | RNoop => false | RDedup r' | RLimit r' => copying r' end.

(** GetWithBlobReplicator with the single-shot selector of either composite:
    the initial backend is [BA]; only NOT_FOUND selects the replicator, once;
    whatever the replicator returns is final (codes are never rewritten). *)
Definition cget (r : repl) (d : nat) (s : st) : Z * st :=
  let (b, s1) := bget BA d s in
  if b =? 5 then rsingle r d s1 else (b, s1).

(** GetFromCompositeWithBlobReplicator with the same single-shot selector:
    the initial backend is [BA] (fast / primary); only NOT_FOUND selects the
    replicator, once; the replicator's outcome is final (a second NOT_FOUND
    finds the selector exhausted and stays NOT_FOUND). *)
Definition cgfc (r : repl) (p : nat) (s : st) : Z * st :=
  let (b, s1) := bgfc BA p s in
  if b =? 5 then rcomposite r p s1 else (b, s1).

Inductive comp := ReadCaching | ReadFallback.

(** Which backend name the selector prepends to the error of a read (Get or
    GetFromComposite): read caching never prepends anything; read fallback
    prepends "Primary" to an error other than NOT_FOUND of the initial
    backend ([1]) and "Secondary" to an error other than NOT_FOUND that the
    replicator produced ([2]) - also when that error stems from the sink, i.e.
    the primary; NOT_FOUND is passed on as it is ([0]).  [first] is the initial
    backend's answer, [final] the result of the read. *)
Definition read_pfx (k : comp) (first final : Z) : Z :=
  match k with
  | ReadCaching => 0
  | ReadFallback =>
      if first =? 0 then 0
      else if negb (first =? 5) then 1
      else if (final =? 0) || (final =? 5) then 0 else 2
  end.

(** Put goes to the embedded backend: slow for read caching, primary for fallback. *)
Definition put_target (k : comp) : bk := match k with ReadCaching => BB | ReadFallback => BA end.
Definition cput (k : comp) (d : nat) (s : st) : Z * st := bput (put_target k) d 0 s.

Definition cfm (k : comp) (r : repl) (ds : list nat) (s : st) : Z * list nat * st :=
  match k with
  | ReadCaching => bfm BB ds s
  | ReadFallback =>
      let '(c1, m1, s1) := bfm BA ds s in
      if negb (c1 =? 0) then (c1, [], s1) else
      let '(c2, m2, s2) := bfm BB m1 s1 in
      if negb (c2 =? 0) then (c2, [], s2) else
      let only := filter (fun d => negb (memb d m2)) m1 in
      let (c3, s3) := rmultiple r only s2 in
      if c3 =? 0 then (0, m2, s3) else ((if c3 =? 5 then 13 else c3), [], s3)
  end.

Inductive op := OGet (d : nat) | OPut (d : nat) | OFm (ds : list nat) | OGfc (p : nat).

(** Result of one operation: code, FindMissing answer. *)
Definition exec_op (k : comp) (r : repl) (o : op) (s : st) : (Z * list nat) * st :=
  match o with
  | OGet d => let (c, s1) := cget r d s in ((c, []), s1)
  | OPut d => let (c, s1) := cput k d s in ((c, []), s1)
  | OFm ds => let '(c, m, s1) := cfm k r (dedup_sort ds) s in ((c, m), s1)
  | OGfc p => let (c, s1) := cgfc r p s in ((c, []), s1)
  end.

Definition step_pfx (k : comp) (r : repl) (o : op) (s : st) : Z :=
  match o with
  | OGet d => read_pfx k (fst (bget BA d s)) (fst (cget r d s))
  | OGfc p => read_pfx k (fst (bgfc BA p s)) (fst (cgfc r p s))
  | _ => 0
  end.

(** One step of a history: the operation carries the faults injected into
    its backend calls.  The record kept per step is what the harness observes:
    result, calls of this step (oldest first), contents afterwards, backend
    name prepended to the error of a read. *)
Record step_obs := mkobs { o_res : Z * list nat; o_calls : list call; o_a : list nat; o_b : list nat; o_pfx : Z }.

Definition run_step (k : comp) (r : repl) (of : op * list Z) (ab : list nat * list nat)
  : step_obs * (list nat * list nat) :=
  let s0 := mkst (fst ab) (snd ab) (snd of) [] in
  let '(res, s1) := exec_op k r (fst of) s0 in
  (mkobs res (rev (lg s1)) (sa s1) (sb s1) (step_pfx k r (fst of) s0), (sa s1, sb s1)).

Fixpoint run_hist (k : comp) (r : repl) (h : list (op * list Z)) (ab : list nat * list nat) : list step_obs :=
  match h with
  | [] => []
  | of :: rest => let (o, ab1) := run_step k r of ab in o :: run_hist k r rest ab1
  end.
