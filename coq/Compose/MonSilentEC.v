(** C17, helper for Run/R17Proofs.v (existence cache, LRU set): model-only facts.

    - a Go panic (the [lpanic] flag) is sticky through every operation;
    - the number of digests answered from the cache never exceeds the number
      of cached entries, and that never exceeds the configured size - for size
      >= 1 by [ec_bounded], and for size 0 because then every non-empty Add
      panics, so a run that ends unpanicked never cached anything. *)
From Coq Require Import List ZArith NArith Bool Arith Lia.
From BBS Require Import Common.ListX Compose.ExistenceCache Compose.ExistenceCacheProofs.
Import ListNotations.

(** * Panics are sticky *)
Lemma lru_insert_panic v s : lpanic s = true -> lpanic (lru_insert v s) = true.
Proof. intros H. unfold lru_insert. destruct (memn v (lq s)); [reflexivity|exact H]. Qed.
Lemma lru_touch_panic v s : lpanic s = true -> lpanic (lru_touch v s) = true.
Proof. intros H. unfold lru_touch. destruct (memn v (lq s)); [exact H|reflexivity]. Qed.
Lemma lru_remove_panic s : lpanic s = true -> lpanic (lru_remove s) = true.
Proof. intros H. unfold lru_remove. destruct (lq s); [reflexivity|exact H]. Qed.

Lemma lru_run_panic ops : forall s, lpanic s = true -> lpanic (snd (lru_run ops s)) = true.
Proof.
  induction ops as [|[v|v| |] r IH]; intros s H; cbn [lru_run]; [exact H| | | |].
  - apply IH, lru_insert_panic, H.
  - apply IH, lru_touch_panic, H.
  - specialize (IH s H). destruct (lru_run r s). exact IH.
  - apply IH, lru_remove_panic, H.
Qed.

Lemma ec_remove_existing_panic dur now ds : forall e, lpanic (elru e) = true ->
  lpanic (elru (snd (ec_remove_existing dur now ds e))) = true.
Proof.
  induction ds as [|d r IH]; intros e H; cbn [ec_remove_existing]; [exact H|].
  destruct (lookup d (times e)) as [t0|].
  - destruct (fresh dur now t0).
    + apply IH. cbn [elru]. apply lru_touch_panic, H.
    + specialize (IH e H). destruct (ec_remove_existing dur now r e). exact IH.
  - specialize (IH e H). destruct (ec_remove_existing dur now r e). exact IH.
Qed.

Lemma ec_evict_panic e : lpanic (elru e) = true -> lpanic (elru (ec_evict e)) = true.
Proof. intros H. unfold ec_evict. destruct (lru_peek (elru e)); cbn [elru]; apply lru_remove_panic, H. Qed.

Lemma ec_add_panic size now ds : forall e, lpanic (elru e) = true -> lpanic (elru (ec_add size now ds e)) = true.
Proof.
  induction ds as [|d r IH]; intros e H; cbn [ec_add]; [exact H|]. apply IH.
  set (e1 := if Nat.leb size (length (times e)) then ec_evict e else e).
  assert (H1 : lpanic (elru e1) = true) by (unfold e1; destruct (Nat.leb _ _); [apply ec_evict_panic|]; exact H).
  destruct (lookup d (times e1)); [destruct (_ <? _)%N|]; cbn [elru]; try exact H1. apply lru_insert_panic, H1.
Qed.

Lemma estep_panic size dur o s : lpanic (elru (cache s)) = true ->
  lpanic (elru (cache (snd (estep size dur o s)))) = true.
Proof.
  intros H. destruct o as [ds d1 d2 fault|ds d1|ds d1|d|d|d fault]; cbn [estep].
  - pose proof (ec_remove_existing_panic dur (now s + d1)%N (dedup_sort ds) (cache s) H) as R.
    destruct (ec_remove_existing dur (now s + d1)%N (dedup_sort ds) (cache s)) as [mm c1]. cbn [snd] in R.
    destruct (negb (Z.eqb fault 0)); cbn [snd cache]; [exact R|]. apply ec_add_panic, R.
  - pose proof (ec_remove_existing_panic dur (now s + d1)%N (dedup_sort ds) (cache s) H) as R.
    destruct (ec_remove_existing dur (now s + d1)%N (dedup_sort ds) (cache s)) as [mm c1]. exact R.
  - cbn [snd cache]. apply ec_add_panic, H.
  - exact H.
  - exact H.
  - exact H.
Qed.

Lemma erun_panic size dur ops : forall s, lpanic (elru (cache s)) = true ->
  lpanic (elru (cache (snd (erun size dur ops s)))) = true.
Proof.
  induction ops as [|o r IH]; intros s H; cbn [erun]; [exact H|].
  pose proof (estep_panic size dur o s H) as E. destruct (estep size dur o s) as [ob s1]. cbn [snd] in E.
  specialize (IH s1 E). destruct (erun size dur r s1). exact IH.
Qed.

(** * What is answered from the cache is cached *)
Lemma ss_head_lt x l : strictly_sorted (x :: l) -> forall y, In y l -> x < y.
Proof.
  revert x. induction l as [|h t IH]; intros x H y Hy; [destruct Hy|].
  inversion H as [| |a b l' Hab Hs]; subst. destruct Hy as [<-|Hy]; [exact Hab|].
  specialize (IH h Hs y Hy). lia.
Qed.

Lemma ss_nodup l : strictly_sorted l -> NoDup l.
Proof.
  induction l as [|x l IH]; intros H; constructor.
  - intros Hin. pose proof (ss_head_lt x l H x Hin). lia.
  - apply IH. inversion H; subst; [constructor|assumption].
Qed.

Lemma dedup_sort_nodup l : NoDup (dedup_sort l).
Proof. apply ss_nodup, dedup_sort_sorted. Qed.

Lemma cached_bound dur t ds e mm c1 : ec_remove_existing dur t ds e = (mm, c1) -> NoDup ds ->
  length (filter (fun d => negb (memn d mm)) ds) <= length (times e).
Proof.
  intros R Hn. destruct (ec_remove_existing_spec _ _ _ _ _ _ R) as (_ & _ & J).
  rewrite <- (map_length fst (times e)). apply NoDup_incl_length; [apply NoDup_filter; exact Hn|].
  intros d Hd. apply filter_In in Hd. destruct Hd as [Hd Hm]. apply negb_true_iff in Hm.
  destruct (J d Hd) as (t0 & L & _).
  - intros X. apply memn_in in X. rewrite X in Hm. discriminate.
  - apply (lookup_keys d (times e)). rewrite L. discriminate.
Qed.

(** * The cache never holds more than [size] entries along a history *)
Fixpoint small_hist (size : nat) (dur : N) (ops : list eop) (s : est) : Prop :=
  match ops with
  | [] => True
  | o :: r => length (times (cache s)) <= size /\ small_hist size dur r (snd (estep size dur o s))
  end.

Lemma small_hist_pos size dur : 1 <= size -> forall ops s, ecinv (cache s) -> length (times (cache s)) <= size ->
  small_hist size dur ops s.
Proof.
  intros Hs. induction ops as [|o r IH]; intros s I B; cbn [small_hist]; [exact Logic.I|].
  split; [exact B|]. pose proof (ec_bounded size dur [o] Hs s I B) as E. cbn [erun] in E.
  destruct (estep size dur o s) as [ob s1]. cbn [snd] in *. destruct E as [I1 B1]. apply IH; assumption.
Qed.

(** size 0 *)
Lemma ec_remove_existing_empty dur t ds : forall e, times e = [] -> ec_remove_existing dur t ds e = (ds, e).
Proof.
  induction ds as [|d r IH]; intros e H; cbn [ec_remove_existing]; [reflexivity|].
  rewrite H. cbn [lookup]. rewrite (IH e H). reflexivity.
Qed.

Lemma ec_add_zero_panics t ds e : times e = [] -> lq (elru e) = [] -> ds <> [] ->
  lpanic (elru (ec_add 0 t ds e)) = true.
Proof.
  intros Ht Hq Hd. destruct ds as [|d r]; [contradiction|]. cbn [ec_add Nat.leb]. apply ec_add_panic.
  assert (P : lpanic (elru (ec_evict e)) = true).
  { unfold ec_evict, lru_peek. rewrite Hq. cbn [elru]. unfold lru_remove. rewrite Hq. reflexivity. }
  destruct (lookup d (times (ec_evict e))); [destruct (_ <? _)%N|]; cbn [elru]; try exact P. apply lru_insert_panic, P.
Qed.

Lemma small_hist_zero dur : forall ops s, times (cache s) = [] -> lq (elru (cache s)) = [] ->
  lpanic (elru (cache (snd (erun 0 dur ops s)))) = false -> small_hist 0 dur ops s.
Proof.
  induction ops as [|o r IH]; intros s Ht Hq Hp; cbn [small_hist]; [exact I|].
  split; [rewrite Ht; apply Nat.le_refl|].
  cbn [erun] in Hp. destruct (estep 0 dur o s) as [ob s1] eqn:E. cbn [snd].
  destruct (erun 0 dur r s1) as [obs s2] eqn:R. cbn [snd] in Hp.
  assert (Hp1 : lpanic (elru (cache (snd (erun 0 dur r s1)))) = false) by (rewrite R; exact Hp).
  assert (Hnp : lpanic (elru (cache s1)) = false).
  { destruct (lpanic (elru (cache s1))) eqn:P; [|reflexivity].
    rewrite (erun_panic 0 dur r s1 P) in Hp1. discriminate. }
  assert (Hadd : forall t ds, s1 = mkest (ec_add 0 t ds (cache s)) (now s1) (backend s1) -> ds = []).
  { intros t ds Hs1. destruct ds as [|d ds']; [reflexivity|]. exfalso.
    assert (X : lpanic (elru (cache s1)) = true).
    { rewrite Hs1. cbn [cache]. apply ec_add_zero_panics; [exact Ht|exact Hq|discriminate]. }
    rewrite X in Hnp. discriminate. }
  assert (Hsame : cache s1 = cache s -> small_hist 0 dur r s1).
  { intros C. apply IH; [rewrite C; exact Ht|rewrite C; exact Hq|exact Hp1]. }
  destruct o as [ds d1 d2 fault|ds d1|ds d1|d|d|d fault]; cbn [estep] in E.
  - rewrite (ec_remove_existing_empty _ _ _ _ Ht) in E.
    destruct (negb (Z.eqb fault 0)); inversion E; subst; clear E; [apply Hsame; reflexivity|].
    apply Hsame. cbn [cache]. rewrite (Hadd _ _ eq_refl). reflexivity.
  - rewrite (ec_remove_existing_empty _ _ _ _ Ht) in E. inversion E; subst. apply Hsame. reflexivity.
  - inversion E; subst; clear E. apply Hsame. cbn [cache]. rewrite (Hadd _ _ eq_refl). reflexivity.
  - inversion E; subst. apply Hsame. reflexivity.
  - inversion E; subst. apply Hsame. reflexivity.
  - inversion E; subst. apply Hsame. reflexivity.
Qed.

Theorem small_hist_from_empty size dur ops :
  lpanic (elru (cache (snd (erun size dur ops (mkest ec_empty 0%N []))))) = false ->
  small_hist size dur ops (mkest ec_empty 0%N []).
Proof.
  intros Hp. destruct size as [|n].
  - apply small_hist_zero; [reflexivity|reflexivity|exact Hp].
  - apply small_hist_pos; [lia|apply ecinv_empty|cbn; lia].
Qed.
