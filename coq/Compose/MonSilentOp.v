(** C11 — the property monitor of one operation ([check_op], [check_alt] of
    Compose/Mirrored.v) is silent on every step of the model, and on every
    observed result that differs from the model's only in what the code
    leaves unspecified: which ONE of the model's errors is reported, and the
    order of the replica calls of the two-goroutine operations.

    The clauses of [check_op] are restated one by one ([cl1] .. [cl9],
    [check_op_eq] is by reflexivity), shown to depend on the replica contents
    only at digests below [n] ([check_op_ext]) and then proved for the model's
    own contents ([check_op_model]). *)
From BBS Require Import Common.Sx Common.ListX Compose.Mirrored Compose.MirroredProofs
  Compose.MirroredFM Compose.MirroredHist.
From Coq Require Import Arith.
Local Open Scope nat_scope.

(** * Small facts *)
Lemma opt_eqb_refl a : opt_eqb a a = true.
Proof. destruct a; cbn; [apply Nat.eqb_refl|reflexivity]. Qed.
Lemma opt_eqb_of_eq a b : a = b -> opt_eqb a b = true.
Proof. intros ->. apply opt_eqb_refl. Qed.
Lemma list_nat_eqb_refl l : list_nat_eqb l l = true.
Proof. induction l as [|x l IH]; cbn; [reflexivity|]. rewrite Nat.eqb_refl. exact IH. Qed.
Lemma rid_eqb_refl x : rid_eqb x x = true.
Proof. destruct x; reflexivity. Qed.
Lemma present_true s d : present s d = true <-> lookup s d <> None.
Proof. unfold present, absent. destruct (lookup s d); cbn; split; congruence. Qed.
Lemma flag_true b id : b = true -> flag b id = [].
Proof. intros ->. reflexivity. Qed.
Lemma forallb_ext_in {T} (f g : T -> bool) l :
  (forall x, In x l -> f x = g x) -> forallb f l = forallb g l.
Proof.
  induction l as [|x l IH]; intros H; cbn; [reflexivity|].
  rewrite (H x (or_introl eq_refl)), IH; [reflexivity|]. intros y Hy. apply H. right. exact Hy.
Qed.
Lemma forallb_incl {T} (f : T -> bool) l1 l2 :
  incl l1 l2 -> forallb f l2 = true -> forallb f l1 = true.
Proof.
  intros Hi H. apply forallb_forall. intros x Hx.
  exact (proj1 (forallb_forall f l2) H x (Hi x Hx)).
Qed.
Lemma wf_on_in o cs r k d :
  wf_on o cs = true -> In (r, k, d) cs -> k <> KGet -> o r k d <> NF.
Proof.
  intros W I Nk. unfold wf_on in W.
  pose proof (proj1 (forallb_forall _ _) W _ I) as H. cbn beta iota in H.
  destruct k; [contradiction| | |]; cbn [kind_eqb orb] in H;
    apply Bool.negb_true_iff in H; apply Z.eqb_neq in H; exact H.
Qed.

(** * The clauses of [check_op], one by one *)
Definition sel (a b : store) (x : rid) : store := match x with RA => a | RB => b end.

Definition fr1 (o : oracle) (pa pb : store) (p : op) (r : result) (qa qb : store) (d : nat) (x : rid) : bool :=
  match p with
  | OPut d' v => if Nat.eqb d d' then opt_eqb (lookup (sel qa qb x) d) (lookup (sel pa pb x) d)
                                     || opt_eqb (lookup (sel qa qb x) d) (Some v)
                 else opt_eqb (lookup (sel qa qb x) d) (lookup (sel pa pb x) d)
  | OGet d' => opt_eqb (lookup (sel qa qb x) d) (lookup (sel pa pb x) d)
               || (Nat.eqb d d' && (absent (sel pa pb x) d || (o x KGet d =? NF)%Z)
                   && rid_eqb x (first_called (calls r))
                   && present (sel pa pb (other x)) d
                   && opt_eqb (lookup (sel qa qb x) d) (lookup (sel pa pb (other x)) d))
  | OFM l => opt_eqb (lookup (sel qa qb x) d) (lookup (sel pa pb x) d)
             || (existsb (Nat.eqb d) l && absent (sel pa pb x) d && present (sel pa pb (other x)) d
                 && opt_eqb (lookup (sel qa qb x) d) (lookup (sel pa pb (other x)) d))
  | OCap => opt_eqb (lookup (sel qa qb x) d) (lookup (sel pa pb x) d)
  end.
Definition cl1 n o pa pb p r qa qb : bool :=
  forallb (fun d => forallb (fun x => fr1 o pa pb p r qa qb d x) [RA; RB]) (seq 0 n).

Definition okr (r : result) : bool := is_nil (errs r).
Definition cl2 (r : result) (qa qb : store) (d v : nat) : bool :=
  negb (okr r) || (opt_eqb (lookup qa d) (Some v) && opt_eqb (lookup qb d) (Some v)).
Definition cl3 (pa pb : store) (r : result) (qa qb : store) (d : nat) : bool :=
  negb (okr r) || match okv r with
                  | [v] => (opt_eqb (lookup pa d) (Some v) || opt_eqb (lookup pb d) (Some v))
                           && opt_eqb (lookup (sel qa qb (first_called (calls r))) d) (Some v)
                  | _ => false
                  end.
Definition cl4 (o : oracle) (pa pb : store) (r : result) (d : nat) : bool :=
  negb (forallb (fun c => ocall o c =? 0)%Z [(RA, KGet, d); (RB, KGet, d); (RA, KPut, d); (RB, KPut, d)])
  || Bool.eqb (okr r) (present pa d || present pb d).
Definition fm5 (pa pb qa qb : store) (d : nat) : bool :=
  Bool.eqb (present qa d) (present qb d)
  && (absent pa d || opt_eqb (lookup qa d) (lookup pa d))
  && (absent pb d || opt_eqb (lookup qb d) (lookup pb d))
  && (present pa d || absent pb d || opt_eqb (lookup qa d) (lookup pb d))
  && (present pb d || absent pa d || opt_eqb (lookup qb d) (lookup pa d)).
Definition cl5 (pa pb : store) (r : result) (qa qb : store) (l : list nat) : bool :=
  negb (okr r) ||
  (list_nat_eqb (okv r) (filter (fun d => absent pa d && absent pb d) (dedup_sort l))
   && forallb (fm5 pa pb qa qb) (dedup_sort l)).
Definition cl6 (o : oracle) (r : result) (l : list nat) : bool :=
  negb (forallb (fun c => ocall o c =? 0)%Z
          ([(RA, KFM, 0); (RB, KFM, 0)] ++
           flat_map (fun d => [(RA, KGet, d); (RB, KGet, d); (RA, KPut, d); (RB, KPut, d)]) (dedup_sort l)))
  || okr r.
Definition cl7 (o : oracle) (r : result) : bool :=
  negb (okr r) || forallb (fun c => (ocall o c =? 0)%Z
                                    || (kind_eqb (snd (fst c)) KGet && (ocall o c =? NF)%Z)) (calls r).
Definition cl8 (o : oracle) (pa pb : store) (p : op) (r : result) : bool :=
  forallb (fun e => negb (ecode e =? NF)%Z || negb (wf_on o (calls r))
                    || match p with
                       | OGet d => answers_nf o RA pa d && answers_nf o RB pb d
                       | _ => false
                       end) (errs r).
Definition cl9 (r : result) : bool :=
  forallb (fun e => (ecode e =? NF)%Z || tag_names (etag_of e)) (errs r).

Lemma check_op_eq n o pa pb p r qa qb :
  check_op n o pa pb p r qa qb =
  flag (cl1 n o pa pb p r qa qb) 1 ++
  match p with
  | OPut d v => flag (cl2 r qa qb d v) 2
  | OGet d => flag (cl3 pa pb r qa qb d) 3 ++ flag (cl4 o pa pb r d) 4
  | OFM l => flag (cl5 pa pb r qa qb l) 5 ++ flag (cl6 o r l) 6
  | OCap => []
  end ++ flag (cl7 o r) 7 ++ flag (cl8 o pa pb p r) 8 ++ flag (cl9 r) 9.
Proof. destruct p; reflexivity. Qed.

(** * The clauses look at the replicas only at digests below [n] *)
Definition eqn (n : nat) (s1 s2 : store) : Prop := forall d, d < n -> lookup s1 d = lookup s2 d.
Definition op_digests (p : op) : list nat :=
  match p with OGet d => [d] | OPut d _ => [d] | OFM l => l | OCap => [] end.
Definition op_in_range (n : nat) (p : op) : Prop := forall d, In d (op_digests p) -> d < n.

Lemma eqn_refl n s : eqn n s s.
Proof. intros d _. reflexivity. Qed.
Lemma eqn_absent n s s' d : eqn n s s' -> d < n -> absent s d = absent s' d.
Proof. intros H L. unfold absent. rewrite (H d L). reflexivity. Qed.
Lemma eqn_present n s s' d : eqn n s s' -> d < n -> present s d = present s' d.
Proof. intros H L. unfold present. rewrite (eqn_absent n s s' d H L). reflexivity. Qed.
Lemma eqn_sel n a b a' b' x : eqn n a a' -> eqn n b b' -> eqn n (sel a b x) (sel a' b' x).
Proof. destruct x; auto. Qed.

Lemma check_op_ext n o pa pb p r qa qb pa' pb' qa' qb' :
  eqn n pa pa' -> eqn n pb pb' -> eqn n qa qa' -> eqn n qb qb' -> op_in_range n p ->
  check_op n o pa pb p r qa qb = check_op n o pa' pb' p r qa' qb'.
Proof.
  intros Ha Hb Hqa Hqb Hr. rewrite !check_op_eq.
  assert (E1 : cl1 n o pa pb p r qa qb = cl1 n o pa' pb' p r qa' qb').
  { unfold cl1. apply forallb_ext_in. intros d Hd. apply in_seq in Hd.
    assert (Ld : d < n) by lia.
    apply forallb_ext_in. intros x _. unfold fr1.
    rewrite (eqn_sel n qa qb qa' qb' x Hqa Hqb d Ld), (eqn_sel n pa pb pa' pb' x Ha Hb d Ld),
      (eqn_sel n pa pb pa' pb' (other x) Ha Hb d Ld),
      (eqn_absent n _ _ d (eqn_sel n pa pb pa' pb' x Ha Hb) Ld),
      (eqn_present n _ _ d (eqn_sel n pa pb pa' pb' (other x) Ha Hb) Ld).
    reflexivity. }
  assert (E8 : cl8 o pa pb p r = cl8 o pa' pb' p r).
  { unfold cl8. destruct p as [d|d v|l|]; try reflexivity.
    assert (Ld : d < n) by (apply Hr; left; reflexivity).
    unfold answers_nf. rewrite (eqn_absent n pa pa' d Ha Ld), (eqn_absent n pb pb' d Hb Ld). reflexivity. }
  rewrite E1, E8. f_equal. f_equal.
  destruct p as [d|d v|l|]; [| | |reflexivity].
  - assert (Ld : d < n) by (apply Hr; left; reflexivity).
    unfold cl3, cl4.
    rewrite (Ha d Ld), (Hb d Ld), (eqn_sel n qa qb qa' qb' _ Hqa Hqb d Ld),
      (eqn_present n pa pa' d Ha Ld), (eqn_present n pb pb' d Hb Ld). reflexivity.
  - assert (Ld : d < n) by (apply Hr; left; reflexivity).
    unfold cl2. rewrite (Hqa d Ld), (Hqb d Ld). reflexivity.
  - assert (Ll : forall d, In d (dedup_sort l) -> d < n).
    { intros d Hd. apply Hr. cbn [op_digests]. apply dedup_sort_in. exact Hd. }
    unfold cl5.
    rewrite (filter_ext_in (fun d => absent pa d && absent pb d) (fun d => absent pa' d && absent pb' d)).
    2:{ intros d Hd. rewrite (eqn_absent n pa pa' d Ha (Ll d Hd)), (eqn_absent n pb pb' d Hb (Ll d Hd)). reflexivity. }
    rewrite (forallb_ext_in (fm5 pa pb qa qb) (fm5 pa' pb' qa' qb')); [reflexivity|].
    intros d Hd. pose proof (Ll d Hd) as Ld. unfold fm5.
    rewrite (eqn_present n qa qa' d Hqa Ld), (eqn_present n qb qb' d Hqb Ld),
      (eqn_present n pa pa' d Ha Ld), (eqn_present n pb pb' d Hb Ld),
      (eqn_absent n pa pa' d Ha Ld), (eqn_absent n pb pb' d Hb Ld),
      (Ha d Ld), (Hb d Ld), (Hqa d Ld), (Hqb d Ld). reflexivity.
Qed.

(** * What an allowed observation shares with the model's result *)
Record obs_rel (p : op) (rm r : result) : Prop := {
  or_okv : okv r = okv rm;
  or_nil : is_nil (errs r) = is_nil (errs rm);
  or_errs : incl (errs r) (errs rm);
  or_c1 : incl (calls r) (calls rm);
  or_c2 : incl (calls rm) (calls r);
  or_bump : bump_op p = true -> calls r = calls rm
}.

Lemma obs_rel_refl p r : obs_rel p r r.
Proof. split; auto using incl_refl. Qed.

Lemma sel_sto st x : sel (sA st) (sB st) x = sto st x.
Proof. destruct x; reflexivity. Qed.

Lemma rget_nf_bool o r s d :
  rget o r s d = BErr NF r -> absent s d || (o r KGet d =? NF)%Z = true.
Proof.
  unfold rget. destruct (Z.eqb_spec (o r KGet d) 0) as [E|E].
  - unfold absent. destruct (lookup s d); [discriminate|reflexivity].
  - intros H. inversion H as [H1]. rewrite H1. apply Bool.orb_true_r.
Qed.

Lemma rget_answers_nf o r s d : rget o r s d = BErr NF r -> answers_nf o r s d = true.
Proof.
  unfold rget, answers_nf. destruct (Z.eqb_spec (o r KGet d) 0) as [E|E].
  - rewrite E. unfold absent. destruct (lookup s d); [discriminate|reflexivity].
  - intros H. inversion H as [H1]. rewrite H1. reflexivity.
Qed.

(** * The clauses on a step of the model *)
Lemma okr_model p rm r : obs_rel p rm r -> okr r = is_nil (errs rm).
Proof. intros Hrel. exact (or_nil _ _ _ Hrel). Qed.

Lemma first_called_model o st p st' rm r :
  step o st p = (st', rm) -> obs_rel p rm r ->
  bump_op p = true -> first_called (calls r) = firstR st.
Proof.
  intros Hstep Hrel B. rewrite (or_bump _ _ _ Hrel B).
  pose proof (step_rnd _ _ _ _ _ Hstep) as H. rewrite B in H. exact (proj2 H).
Qed.

(** clause 1 *)
Lemma fr1_model o st p st' rm r d x :
  step o st p = (st', rm) -> obs_rel p rm r ->
  fr1 o (sA st) (sB st) p r (sA st') (sB st') d x = true.
Proof.
  intros Hstep Hrel.
  unfold fr1. rewrite !sel_sto. destruct p as [d0|d0 v|l|]; cbn [step] in Hstep.
  - destruct (get_frame _ _ _ _ _ Hstep) as (Ho & Hf).
    pose proof (first_called_model _ _ (OGet d0) _ _ _ Hstep Hrel eq_refl) as FC.
    destruct (rid_eqb x (firstR st)) eqn:E.
    + assert (x = firstR st) by (revert E; destruct x, (firstR st); cbn; congruence). subst x.
      destruct (Hf d) as [Eq|(-> & _ & G & N & Eq)].
      * rewrite Eq, opt_eqb_refl. reflexivity.
      * rewrite Nat.eqb_refl, (rget_nf_bool _ _ _ _ G), FC, rid_eqb_refl.
        rewrite (proj2 (present_true _ _) N), (opt_eqb_of_eq _ _ Eq). apply Bool.orb_true_r.
    + assert (x = other (firstR st)) by (revert E; destruct x, (firstR st); cbn; congruence). subst x.
      rewrite Ho, opt_eqb_refl. reflexivity.
  - destruct (put_frame _ _ _ _ _ _ Hstep) as (_ & Hf).
    destruct (Hf x d) as [Eq|(-> & Eq & _)].
    + rewrite Eq, opt_eqb_refl. destruct (Nat.eqb d d0); reflexivity.
    + rewrite Nat.eqb_refl, (opt_eqb_of_eq _ _ Eq). apply Bool.orb_true_r.
  - destruct (fm_frame_proof _ _ _ _ _ Hstep) as (_ & Hf).
    destruct (Hf x d) as [Eq|(I & L & N & Eq)].
    + rewrite Eq, opt_eqb_refl. reflexivity.
    + fold (mem d l). rewrite (proj2 (mem_In d l) I), (proj2 (absent_true _ _) L),
        (proj2 (present_true _ _) N), (opt_eqb_of_eq _ _ Eq). apply Bool.orb_true_r.
  - unfold m_cap in Hstep. inversion Hstep; subst. rewrite sto_set_rnd. apply opt_eqb_refl.
Qed.

Lemma cl1_model n o st p st' rm r :
  step o st p = (st', rm) -> obs_rel p rm r ->
  cl1 n o (sA st) (sB st) p r (sA st') (sB st') = true.
Proof.
  intros Hstep Hrel.
  unfold cl1. apply forallb_forall. intros d _. cbn [forallb].
  rewrite !(fr1_model _ _ _ _ _ _ _ _ Hstep Hrel). reflexivity.
Qed.

(** clauses 7, 9 *)
Lemma cl7_model o st p st' rm r :
  step o st p = (st', rm) -> obs_rel p rm r -> cl7 o r = true.
Proof.
  intros Hstep Hrel.
  unfold cl7. rewrite (okr_model _ _ _ Hrel). destruct (errs rm) as [|e0 l0] eqn:E; [|reflexivity].
  cbn [is_nil negb orb]. apply forallb_forall. intros c Hc.
  destruct (errors_not_masked_proof _ _ _ _ _ Hstep) as (A & _ & _).
  destruct (A E c (or_c1 _ _ _ Hrel c Hc)) as [Z|[K Z]].
  - rewrite Z. reflexivity.
  - rewrite K, Z. apply Bool.orb_true_r.
Qed.

Lemma cl9_model o st p st' rm r :
  step o st p = (st', rm) -> obs_rel p rm r -> cl9 r = true.
Proof.
  intros Hstep Hrel.
  unfold cl9. apply forallb_forall. intros e He.
  destruct (errors_not_masked_proof _ _ _ _ _ Hstep) as (_ & _ & C).
  destruct (Z.eqb_spec (ecode e) NF) as [E|N]; [reflexivity|].
  pose proof (C e (or_errs _ _ _ Hrel e He) N) as T. cbn [orb].
  destruct (etag_of e); [contradiction| | |]; reflexivity.
Qed.

(** clause 2 *)
Lemma cl2_model o st d v st' rm r :
  step o st (OPut d v) = (st', rm) -> obs_rel (OPut d v) rm r ->
  cl2 r (sA st') (sB st') d v = true.
Proof.
  intros Hstep Hrel. unfold cl2. rewrite (okr_model _ _ _ Hrel).
  destruct (errs rm) as [|e0 l0] eqn:E; [|reflexivity]. cbn [step] in Hstep.
  destruct (put_ok_both_proof _ _ _ _ _ _ Hstep E) as [LA LB].
  rewrite LA, LB, opt_eqb_refl. reflexivity.
Qed.

(** clause 3 *)
Lemma cl3_model o st d st' rm r :
  step o st (OGet d) = (st', rm) -> obs_rel (OGet d) rm r ->
  cl3 (sA st) (sB st) r (sA st') (sB st') d = true.
Proof.
  intros Hstep Hrel. unfold cl3. rewrite (okr_model _ _ _ Hrel).
  destruct (errs rm) as [|e0 l0] eqn:E; [|reflexivity].
  rewrite (first_called_model _ _ _ _ _ _ Hstep Hrel eq_refl), (or_okv _ _ _ Hrel), sel_sto.
  cbn [step] in Hstep.
  destruct (get_ok_sound_proof _ _ _ _ _ Hstep E) as (x & -> & Hpre & Hpost).
  rewrite Hpost, opt_eqb_refl. cbn [is_nil negb orb]. rewrite Bool.andb_true_r.
  destruct Hpre as [L|[L _]]; destruct (firstR st); cbn [sto other] in L; rewrite L, opt_eqb_refl;
    [reflexivity|apply Bool.orb_true_r|apply Bool.orb_true_r|reflexivity].
Qed.

(** clause 4: only the four calls named by the clause need be fault-free *)
Lemma m_get_ext o o' st d :
  (forall x, o x KGet d = o' x KGet d) -> (forall x, o x KPut d = o' x KPut d) ->
  m_get o st d = m_get o' st d.
Proof. intros HG HP. unfold m_get, rget, rput. rewrite !HG, !HP. reflexivity. Qed.

Lemma cl4_model o st d st' rm r :
  step o st (OGet d) = (st', rm) -> obs_rel (OGet d) rm r ->
  cl4 o (sA st) (sB st) r d = true.
Proof.
  intros Hstep Hrel. unfold cl4. rewrite (okr_model _ _ _ Hrel).
  destruct (forallb _ _) eqn:F; [|reflexivity]. cbn [negb orb].
  cbn [forallb ocall] in F. rewrite !Bool.andb_true_iff, !Z.eqb_eq in F.
  destruct F as (F1 & F2 & F3 & F4 & _).
  cbn [step] in Hstep.
  rewrite (m_get_ext o (fun _ _ _ => 0%Z) st d) in Hstep.
  2:{ intros []; assumption. }
  2:{ intros []; assumption. }
  destruct (get_iff_either_proof _ _ _ _ _ (fun _ _ _ => eq_refl) Hstep) as (Hiff & _).
  unfold present, absent.
  destruct (errs rm) as [|e0 l0]; cbn [is_nil].
  - destruct (proj1 Hiff eq_refl) as [N|N].
    + destruct (lookup (sA st) d); [reflexivity|contradiction].
    + destruct (lookup (sB st) d); [|contradiction]. destruct (lookup (sA st) d); reflexivity.
  - destruct (lookup (sA st) d) eqn:LA.
    + exfalso. assert (C : e0 :: l0 = []) by (apply Hiff; left; discriminate). discriminate.
    + destruct (lookup (sB st) d) eqn:LB; [|reflexivity].
      exfalso. assert (C : e0 :: l0 = []) by (apply Hiff; right; discriminate). discriminate.
Qed.

(** clause 5 *)
Lemma cl5_model o st l st' rm r :
  step o st (OFM l) = (st', rm) -> obs_rel (OFM l) rm r ->
  cl5 (sA st) (sB st) r (sA st') (sB st') l = true.
Proof.
  intros Hstep Hrel. unfold cl5. rewrite (okr_model _ _ _ Hrel).
  destruct (errs rm) as [|e0 l0] eqn:E; [|reflexivity]. cbn [is_nil negb orb step] in *.
  destruct (fm_ok_proof _ _ _ _ _ Hstep E) as (Hv & Rep & _).
  destruct (fm_frame_proof _ _ _ _ _ Hstep) as [_ Fr].
  rewrite (or_okv _ _ _ Hrel), Hv, list_nat_eqb_refl. cbn [andb].
  apply forallb_forall. intros d Hd. apply (proj1 (dedup_sort_in _ _)) in Hd.
  pose proof (Rep RA d Hd) as RA'. pose proof (Rep RB d Hd) as RB'.
  pose proof (Fr RA d) as FA. pose proof (Fr RB d) as FB. cbn [sto other] in *.
  assert (QA : lookup (sA st') d = match lookup (sA st) d with Some a => Some a | None => lookup (sB st) d end).
  { destruct (lookup (sA st) d) as [a|] eqn:LA.
    - destruct FA as [Eq|(_ & C & _)]; [exact Eq|discriminate].
    - apply RA'. reflexivity. }
  assert (QB : lookup (sB st') d = match lookup (sB st) d with Some a => Some a | None => lookup (sA st) d end).
  { destruct (lookup (sB st) d) as [a|] eqn:LB.
    - destruct FB as [Eq|(_ & C & _)]; [exact Eq|discriminate].
    - apply RB'. reflexivity. }
  unfold fm5, present, absent. rewrite QA, QB.
  destruct (lookup (sA st) d), (lookup (sB st) d); cbn; rewrite ?Nat.eqb_refl; reflexivity.
Qed.

(** clause 6: only the calls named by the clause need be fault-free *)
Lemma repl_multi_no_faults_local o src : forall l st,
  (forall d, In d l -> o src KGet d = 0%Z /\ o (other src) KPut d = 0%Z) ->
  (forall d, In d l -> lookup (sto st src) d <> None) ->
  exists st' cs, repl_multi o src (other src) st l = (st', None, cs).
Proof.
  induction l as [|d t IH]; intros st Ho Hl; cbn [repl_multi]; [eauto|].
  unfold rget, rput. destruct (Ho d (or_introl eq_refl)) as [-> ->]. cbn [Z.eqb].
  destruct (lookup (sto st src) d) as [x|] eqn:L; [|exfalso; apply (Hl d); [left; reflexivity|exact L]].
  destruct (IH (set_sto st (other src) (upd (sto st (other src)) d x))) as (st' & cs & R).
  { intros d0 I. apply Ho. right. exact I. }
  { intros d0 I. replace (sto (set_sto st (other src) (upd (sto st (other src)) d x)) src) with (sto st src)
      by (destruct src; reflexivity). apply Hl. right. exact I. }
  rewrite R. eauto.
Qed.

Lemma fm_local_no_faults_ok o st ds0 st' r :
  o RA KFM 0 = 0%Z -> o RB KFM 0 = 0%Z ->
  (forall d x, In d ds0 -> o x KGet d = 0%Z /\ o x KPut d = 0%Z) ->
  m_fm o st ds0 = (st', r) -> errs r = [].
Proof.
  intros OA OB NFo H.
  destruct (m_fm_unfold _ _ _ _ _ H)
    as [(st1 & e1 & c1 & e2 & c2 & _ & _ & R1 & R2 & He & _)|(_ & _ & _ & _ & Hall)].
  - destruct (repl_multi_no_faults_local o RA
               (filter (fun d => negb (mem d (filter (absent (sA st)) (dedup_sort ds0))))
                       (filter (absent (sB st)) (dedup_sort ds0))) st) as (st1' & cs1 & Q1).
    { intros d I. apply in_only in I. destruct I as (I & _ & _). apply (proj1 (dedup_sort_in _ _)) in I.
      split; apply (NFo d _ I). }
    { intros d I. apply in_only in I. destruct I as (_ & _ & I). rewrite absent_false in I. exact I. }
    cbn [other] in Q1. rewrite Q1 in R1. inversion R1; subst.
    destruct (repl_multi_no_faults_local o RB
               (filter (fun d => negb (mem d (filter (absent (sB st)) (dedup_sort ds0))))
                       (filter (absent (sA st)) (dedup_sort ds0))) st1) as (st2' & cs2 & Q2).
    { intros d I. apply in_only in I. destruct I as (I & _ & _). apply (proj1 (dedup_sort_in _ _)) in I.
      split; apply (NFo d _ I). }
    { intros d I. apply in_only in I. destruct I as (_ & Aa & I). rewrite absent_false in I.
      apply (repl_multi_spec o RA) in Q1. destruct Q1 as (_ & _ & F1 & _). cbn [other sto] in *.
      destruct (F1 d) as [Eq|(Im & _)]; [congruence|].
      apply in_only in Im. destruct Im as (_ & _ & C). congruence. }
    cbn [other] in Q2. rewrite Q2 in R2. inversion R2; subst. exact He.
  - destruct (errs r) as [|e l]; [reflexivity|].
    destruct (Hall e (or_introl eq_refl)) as (y & _ & Ec & Ne).
    destruct y; [rewrite OA in Ec|rewrite OB in Ec]; contradiction.
Qed.

Lemma cl6_model o st l st' rm r :
  step o st (OFM l) = (st', rm) -> obs_rel (OFM l) rm r -> cl6 o r l = true.
Proof.
  intros Hstep Hrel. unfold cl6. rewrite (okr_model _ _ _ Hrel).
  destruct (forallb _ _) eqn:F; [|reflexivity]. cbn [negb orb].
  pose proof (proj1 (forallb_forall _ _) F) as Hc. cbn [step] in Hstep.
  rewrite (fm_local_no_faults_ok o st l st' rm); [reflexivity| | | |exact Hstep].
  - apply Z.eqb_eq. apply (Hc (RA, KFM, 0)). left. reflexivity.
  - apply Z.eqb_eq. apply (Hc (RB, KFM, 0)). right. left. reflexivity.
  - intros d x I. apply (proj2 (dedup_sort_in _ _)) in I.
    assert (J : forall c, In c [(RA, KGet, d); (RB, KGet, d); (RA, KPut, d); (RB, KPut, d)] ->
                          ocall o c = 0%Z).
    { intros c Ic. apply Z.eqb_eq. apply Hc. apply in_or_app. right.
      apply in_flat_map. exists d. split; [exact I|exact Ic]. }
    destruct x; split.
    + apply (J (RA, KGet, d)). cbn; auto.
    + apply (J (RA, KPut, d)). cbn; auto.
    + apply (J (RB, KGet, d)). cbn; auto.
    + apply (J (RB, KPut, d)). cbn; auto.
Qed.

(** clause 8: NOT_FOUND is only ever the answer of a read to which both
    replicas answered NOT_FOUND, provided NOT_FOUND was not injected on one
    of the non-lookup calls the operation made (local form of
    [errors_not_masked], which asks it of the whole oracle). *)
Lemma step_nf_local o st p st' r :
  step o st p = (st', r) -> wf_on o (calls r) = true ->
  forall e, In e (errs r) -> ecode e = NF -> exists d, p = OGet d /\ both_answer_nf o st d.
Proof.
  destruct p as [d|d x|ds|]; cbn [step]; intros H W e Ie En.
  - exists d. split; [reflexivity|]. revert H W e Ie En.
    unfold m_get. fold (firstR st). set (F := firstR st).
    assert (HF : forall P : rid -> Prop, P F -> P (other F) -> P RA /\ P RB).
    { intros P. destruct F; cbn; auto. }
    destruct (rget o F (sto st F) d) as [x|c og] eqn:G1.
    { intros H; inversion H; subst; cbn. intros _ e []. }
    destruct (rget_origin _ _ _ _ _ _ G1) as [-> C0].
    destruct (Z.eqb_spec c NF) as [->|N].
    2:{ intros H; inversion H; subst; cbn. intros _ e [<-|[]]. cbn. contradiction. }
    destruct (rget o (other F) (sto st (other F)) d) as [x|c2 og2] eqn:G2.
    + destruct (rput o F (sto st F) d (BData x)) as [s' [e|]] eqn:P.
      * intros H; inversion H; subst; cbn [errs calls]. intros W e0 [<-|[]]. rewrite sel_wrap_code. intros En.
        apply rput_fail in P. destruct P as [_ [(Po & _)|(_ & Pb)]]; [|discriminate].
        exfalso. apply (wf_on_in _ _ F KPut d W); [cbn; auto|discriminate|congruence].
      * intros H; inversion H; subst; cbn. intros _ e [].
    + destruct (rget_origin _ _ _ _ _ _ G2) as [-> C2].
      intros H; inversion H; subst; cbn [errs calls]. intros _ e [<-|[]]. rewrite sel_wrap_code. cbn [fst]. intros ->.
      apply (HF (fun y => rget o y (sto st y) d = BErr NF y)); assumption.
  - exfalso. revert H W e Ie En. unfold m_put.
    destruct (put_branch o RA d x st) as [st1 ea] eqn:B1.
    destruct (put_branch o RB d x st1) as [st2 eb] eqn:B2.
    intros H; inversion H; subst; clear H. cbn [errs calls].
    apply put_branch_spec in B1. apply put_branch_spec in B2.
    destruct B1 as (_ & _ & _ & _ & E1). destruct B2 as (_ & _ & _ & _ & E2).
    intros W e I En. apply in_app_or in I. destruct I as [I|I].
    + destruct (E1 e I) as (_ & Ec & _). apply (wf_on_in _ _ RA KPut d W); [cbn; auto|discriminate|congruence].
    + destruct (E2 e I) as (_ & Ec & _). apply (wf_on_in _ _ RB KPut d W); [cbn; auto|discriminate|congruence].
  - exfalso.
    destruct (m_fm_unfold _ _ _ _ _ H)
      as [(st1 & e1 & c1 & e2 & c2 & _ & _ & _ & _ & He & _)|(_ & _ & _ & Hc & Hall)].
    + rewrite He in Ie. apply in_app_or in Ie.
      destruct Ie as [I|I]; [destruct e1|destruct e2]; cbn in I; try contradiction;
        destruct I as [<-|[]]; exact (sync_wrap_code _ _ En).
    + destruct (Hall e Ie) as (y & _ & Ec & _). rewrite Hc in W.
      apply (wf_on_in _ _ y KFM 0 W); [destruct y; cbn; auto|discriminate|congruence].
  - exfalso. unfold m_cap in H. inversion H; subst; clear H. cbn [errs calls] in *.
    destruct (Z.eqb_spec (o (first_of (S (rnd st))) KCap 0) 0) as [E|N]; [contradiction|].
    destruct Ie as [<-|[]]. cbn [ecode] in En.
    apply (wf_on_in _ _ (first_of (S (rnd st))) KCap 0 W); [cbn; auto|discriminate|exact En].
Qed.

Lemma cl8_model o st p st' rm r :
  step o st p = (st', rm) -> obs_rel p rm r -> cl8 o (sA st) (sB st) p r = true.
Proof.
  intros Hstep Hrel. unfold cl8. apply forallb_forall. intros e He.
  destruct (Z.eqb_spec (ecode e) NF) as [En|N]; [|reflexivity]. cbn [negb orb].
  destruct (wf_on o (calls r)) eqn:W; [|reflexivity]. cbn [negb orb].
  assert (Wm : wf_on o (calls rm) = true).
  { unfold wf_on in *. exact (forallb_incl _ _ _ (or_c2 _ _ _ Hrel) W). }
  destruct (step_nf_local _ _ _ _ _ Hstep Wm e (or_errs _ _ _ Hrel e He) En) as (d & -> & GA & GB).
  rewrite (rget_answers_nf _ _ _ _ GA), (rget_answers_nf _ _ _ _ GB). reflexivity.
Qed.

(** * One operation: the monitor is silent *)
Theorem check_op_model n o st p st' rm r :
  step o st p = (st', rm) -> obs_rel p rm r ->
  check_op n o (sA st) (sB st) p r (sA st') (sB st') = [].
Proof.
  intros Hstep Hrel. rewrite check_op_eq.
  rewrite (flag_true _ 1 (cl1_model n _ _ _ _ _ _ Hstep Hrel)),
    (flag_true _ 7 (cl7_model _ _ _ _ _ _ Hstep Hrel)),
    (flag_true _ 8 (cl8_model _ _ _ _ _ _ Hstep Hrel)),
    (flag_true _ 9 (cl9_model _ _ _ _ _ _ Hstep Hrel)).
  destruct p as [d|d v|l|].
  - rewrite (flag_true _ 3 (cl3_model _ _ _ _ _ _ Hstep Hrel)),
      (flag_true _ 4 (cl4_model _ _ _ _ _ _ Hstep Hrel)). reflexivity.
  - rewrite (flag_true _ 2 (cl2_model _ _ _ _ _ _ _ Hstep Hrel)). reflexivity.
  - rewrite (flag_true _ 5 (cl5_model _ _ _ _ _ _ Hstep Hrel)),
      (flag_true _ 6 (cl6_model _ _ _ _ _ _ Hstep Hrel)). reflexivity.
  - reflexivity.
Qed.

Theorem check_alt_model o st p st' rm r :
  step o st p = (st', rm) -> obs_rel p rm r -> check_alt (rnd st) p r = [].
Proof.
  intros Hstep Hrel. unfold check_alt. destruct (bump_op p) eqn:B; [|reflexivity].
  rewrite (first_called_model _ _ _ _ _ _ Hstep Hrel B). unfold firstR.
  rewrite rid_eqb_refl. reflexivity.
Qed.

Lemma step_rnd_next o st p st' rm :
  step o st p = (st', rm) -> rnd st' = if bump_op p then S (rnd st) else rnd st.
Proof.
  intros H. pose proof (step_rnd _ _ _ _ _ H) as R. destruct (bump_op p); [exact (proj1 R)|exact R].
Qed.

(** The replica calls of the two-goroutine operations mention only digest 0
    (existence checks, capabilities) and the digests of the operation. *)
Lemma repl_multi_calls o src dst : forall l st st' e cs,
  repl_multi o src dst st l = (st', e, cs) -> forall c, In c cs -> In (snd c) l.
Proof.
  induction l as [|d t IH]; intros st st' e cs; cbn [repl_multi].
  - intros H; inversion H; subst. intros c [].
  - destruct (rput o dst (sto st dst) d (rget o src (sto st src) d)) as [s' [pe|]].
    + intros H; inversion H; subst. intros c [<-|[<-|[]]]; left; reflexivity.
    + destruct (repl_multi o src dst (set_sto st dst s') t) as [[st1 e1] cs1] eqn:R.
      intros H; inversion H; subst. intros c [<-|[<-|I]]; [left; reflexivity|left; reflexivity|].
      right. exact (IH _ _ _ _ R c I).
Qed.

Lemma step_calls_digests o st p st' rm :
  step o st p = (st', rm) -> bump_op p = false ->
  forall c, In c (calls rm) -> snd c = 0 \/ In (snd c) (op_digests p).
Proof.
  destruct p as [d|d x|ds|]; cbn [step bump_op op_digests]; intros H B; try discriminate.
  - unfold m_put in H.
    destruct (put_branch o RA d x st) as [st1 ea]. destruct (put_branch o RB d x st1) as [st2 eb].
    inversion H; subst. cbn [calls]. intros c [<-|[<-|[]]]; right; left; reflexivity.
  - destruct (m_fm_unfold _ _ _ _ _ H)
      as [(st1 & e1 & c1 & e2 & c2 & _ & _ & R1 & R2 & _ & _ & Hc)|(_ & _ & _ & Hc & _)];
      rewrite Hc; cbn [app].
    + intros c [<-|[<-|I]]; [left; reflexivity|left; reflexivity|]. right.
      apply in_app_or in I. destruct I as [I|I];
        [apply (repl_multi_calls _ _ _ _ _ _ _ _ R1) in I|apply (repl_multi_calls _ _ _ _ _ _ _ _ R2) in I];
        apply in_only in I; destruct I as (I & _); apply (proj1 (dedup_sort_in _ _)) in I; exact I.
    + intros c [<-|[<-|[]]]; left; reflexivity.
Qed.
