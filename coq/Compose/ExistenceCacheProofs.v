(** C17: theorems about the existence cache and the LRU set. *)
From Coq Require Import List ZArith NArith Bool Arith Lia Permutation.
From BBS Require Import Common.ListX Compose.ExistenceCache.
Import ListNotations.

Lemma memn_in d s : memn d s = true <-> In d s.
Proof.
  unfold memn. rewrite existsb_exists. split.
  - intros (x & Hin & He). apply Nat.eqb_eq in He. subst. exact Hin.
  - intros H. exists d. split; [exact H|apply Nat.eqb_refl].
Qed.

Lemma lookup_remove_key k k' m t : lookup k (remove_key k' m) = Some t -> lookup k m = Some t.
Proof.
  induction m as [|[a b] r IH]; cbn; [auto|].
  destruct (Nat.eqb k' a) eqn:E1.
  - intros H. specialize (IH H). destruct (Nat.eqb k a) eqn:E2; [|exact IH].
    apply Nat.eqb_eq in E1, E2. subst.
    clear -H. exfalso. induction r as [|[a' b'] r IH]; cbn in H; [discriminate|].
    destruct (Nat.eqb a a') eqn:E; [auto|]. cbn in H. rewrite E in H. auto.
  - cbn. destruct (Nat.eqb k a); auto.
Qed.

Lemma lookup_set_time k k' t m t0 : lookup k (set_time k' t m) = Some t0 ->
  (k = k' /\ t0 = t) \/ lookup k m = Some t0.
Proof.
  unfold set_time. cbn. destruct (Nat.eqb k k') eqn:E.
  - intros H. inversion H. apply Nat.eqb_eq in E. auto.
  - intros H. right. eapply lookup_remove_key. exact H.
Qed.

(** Every insertion time in the cache is the time of some recording. *)
Definition times_in (recs : list (nat * N)) (e : ec) : Prop :=
  forall k t0, lookup k (times e) = Some t0 -> In (k, t0) recs.

Lemma ec_evict_times_in recs e : times_in recs e -> times_in recs (ec_evict e).
Proof.
  unfold ec_evict, times_in. intros H k t0. destruct (lru_peek (elru e)); cbn; [|apply H].
  intros L. apply H. eapply lookup_remove_key. exact L.
Qed.

Lemma ec_add_times_in size now ds : forall recs e, times_in recs e ->
  times_in (map (fun d => (d, now)) ds ++ recs) (ec_add size now ds e).
Proof.
  induction ds as [|d r IH]; intros recs e H; cbn [ec_add map app]; [exact H|].
  set (e1 := if Nat.leb size (length (times e)) then ec_evict e else e).
  assert (H1 : times_in recs e1) by (unfold e1; destruct (Nat.leb _ _); [apply ec_evict_times_in|]; exact H).
  set (e2 := match lookup d (times e1) with
             | Some t0 => if (t0 <? now)%N then mkec (set_time d now (times e1)) (elru e1) else e1
             | None => mkec (set_time d now (times e1)) (lru_insert d (elru e1))
             end).
  assert (H2 : times_in ((d, now) :: recs) e2).
  { assert (Hs : forall l, times_in ((d, now) :: recs) (mkec (set_time d now (times e1)) l)).
    { intros l k t0 L. cbn [times] in L. apply lookup_set_time in L. destruct L as [[-> ->]|L]; [left; reflexivity|right; apply H1; exact L]. }
    unfold e2. destruct (lookup d (times e1)); [destruct (_ <? _)%N|]; try apply Hs.
    intros k t0 L. right. apply H1. exact L. }
  specialize (IH _ _ H2). intros k t0 L. specialize (IH k t0 L).
  apply in_app_or in IH. destruct IH as [I|[I|I]].
  - right. apply in_or_app. left. exact I.
  - left. exact I.
  - right. apply in_or_app. right. exact I.
Qed.

Lemma ec_remove_existing_spec dur now ds : forall e m e', ec_remove_existing dur now ds e = (m, e') ->
  times e' = times e /\
  (forall d, In d m -> In d ds) /\
  (forall d, In d ds -> ~ In d m -> exists t0, lookup d (times e) = Some t0 /\ fresh dur now t0 = true).
Proof.
  induction ds as [|d r IH]; intros e m e' H; cbn [ec_remove_existing] in H.
  - inversion H; subst. repeat split; auto. intros d [].
  - destruct (lookup d (times e)) as [t0|] eqn:L.
    + destruct (fresh dur now t0) eqn:F.
      * apply IH in H. cbn [times] in H. destruct H as (T & Sub & J). split; [exact T|]. split.
        -- intros x Hx. right. apply Sub. exact Hx.
        -- intros x [->|Hx] Hn; [exists t0; auto|apply J; assumption].
      * destruct (ec_remove_existing dur now r e) as [m0 e0] eqn:R. inversion H; subst.
        apply IH in R. destruct R as (T & Sub & J). split; [exact T|]. split.
        -- intros x [->|Hx]; [left; reflexivity|right; apply Sub; exact Hx].
        -- intros x [->|Hx] Hn; [contradiction Hn; left; reflexivity|].
           apply J; [exact Hx|]. intros Hm. apply Hn. right. exact Hm.
    + destruct (ec_remove_existing dur now r e) as [m0 e0] eqn:R. inversion H; subst.
      apply IH in R. destruct R as (T & Sub & J). split; [exact T|]. split.
      * intros x [->|Hx]; [left; reflexivity|right; apply Sub; exact Hx].
      * intros x [->|Hx] Hn; [contradiction Hn; left; reflexivity|].
        apply J; [exact Hx|]. intros Hm. apply Hn. right. exact Hm.
Qed.

(** * Soundness over histories *)

(** The recordings of "present" a step makes: (digest, clock reading at the
    recording).  For the decorator these are exactly the digests the backend
    has just answered to be present. *)
Definition step_recs (dur : N) (o : eop) (s : est) : list (nat * N) :=
  match o with
  | EFm ds d1 d2 fault =>
      if negb (Z.eqb fault 0) then [] else
      let t1 := (now s + d1)%N in
      let mm := fst (ec_remove_existing dur t1 (dedup_sort ds) (cache s)) in
      map (fun d => (d, (t1 + d2)%N)) (filter (fun d => memn d (backend s)) mm)
  | EAdd ds d1 => map (fun d => (d, (now s + d1)%N)) (dedup_sort ds)
  | _ => []
  end.

Definition justified_by (dur : N) (recs : list (nat * N)) (t : N) (d : nat) : Prop :=
  exists t0, In (d, t0) recs /\ (t0 <= t)%N /\ (t <= t0 + dur)%N.

(** What soundness demands of one observed step, given the recordings made
    before it: whatever was answered from the cache (requested, but not passed
    on to the backend / not returned by RemoveExisting) is justified. *)
Definition step_sound (dur : N) (o : eop) (ob : eobs) (recs : list (nat * N)) : Prop :=
  match o with
  | EFm ds _ _ _ =>
      forall d asked, In d (dedup_sort ds) -> e_call ob = Some asked -> ~ In d asked ->
                      justified_by dur recs (hd 0%N (e_clock ob)) d
  | ERemoveExisting ds _ =>
      forall d, In d (dedup_sort ds) -> ~ In d (e_ans ob) -> justified_by dur recs (hd 0%N (e_clock ob)) d
  | _ => True
  end.

Fixpoint sound_hist (size : nat) (dur : N) (ops : list eop) (s : est) (recs : list (nat * N)) : Prop :=
  match ops with
  | [] => True
  | o :: r =>
      step_sound dur o (fst (estep size dur o s)) recs /\
      sound_hist size dur r (snd (estep size dur o s)) (step_recs dur o s ++ recs)
  end.

Definition einv (recs : list (nat * N)) (s : est) : Prop :=
  times_in recs (cache s) /\ forall k t0, In (k, t0) recs -> (t0 <= now s)%N.

Lemma estep_inv size dur o s recs : einv recs s ->
  einv (step_recs dur o s ++ recs) (snd (estep size dur o s)) /\ step_sound dur o (fst (estep size dur o s)) recs.
Proof.
  intros [Ht Hn]. destruct o as [ds d1 d2 fault|ds d1|ds d1|d|d|d fault]; cbn [estep step_recs step_sound].
  - destruct (ec_remove_existing dur (now s + d1) (dedup_sort ds) (cache s)) as [mm c1] eqn:R.
    pose proof (ec_remove_existing_spec _ _ _ _ _ _ R) as (T & Sub & J).
    assert (Hsound : forall d asked, In d (dedup_sort ds) -> Some mm = Some asked -> ~ In d asked ->
                     justified_by dur recs (now s + d1)%N d).
    { intros d asked Hd Ha Hn'. inversion Ha; subst asked. destruct (J d Hd Hn') as (t0 & L & F).
      exists t0. split; [apply Ht; exact L|]. unfold fresh in F. apply N.leb_le in F.
      split; [|exact F]. specialize (Hn _ _ (Ht _ _ L)). lia. }
    assert (Ht1 : times_in recs c1) by (intros k t0 L; apply Ht; rewrite <- T; exact L).
    destruct (Z.eqb fault 0); cbn [negb fst snd e_call e_clock hd app].
    + split; [|exact Hsound]. split; cbn [cache now].
      * apply ec_add_times_in with (size := size) (now := (now s + d1 + d2)%N) (ds := filter (fun d => memn d (backend s)) mm) in Ht1.
        intros k t0 L. specialize (Ht1 k t0 L). cbn [fst]. exact Ht1.
      * intros k t0 I. apply in_app_or in I. destruct I as [I|I].
        -- apply in_map_iff in I. destruct I as (x & E & _). inversion E. lia.
        -- specialize (Hn _ _ I). lia.
    + split; [|exact Hsound]. split; cbn [cache now]; [exact Ht1|].
      intros k t0 I. specialize (Hn _ _ I). lia.
  - destruct (ec_remove_existing dur (now s + d1) (dedup_sort ds) (cache s)) as [mm c1] eqn:R.
    pose proof (ec_remove_existing_spec _ _ _ _ _ _ R) as (T & Sub & J).
    cbn [fst snd e_ans e_clock hd app]. split.
    + split; cbn [cache now].
      * intros k t0 L. apply Ht. rewrite <- T. exact L.
      * intros k t0 I. specialize (Hn _ _ I). lia.
    + intros d Hd Hn'. destruct (J d Hd Hn') as (t0 & L & F).
      exists t0. split; [apply Ht; exact L|]. unfold fresh in F. apply N.leb_le in F.
      split; [|exact F]. specialize (Hn _ _ (Ht _ _ L)). lia.
  - cbn [fst snd]. split; [|exact I]. split; cbn [cache now].
    + apply ec_add_times_in. exact Ht.
    + intros k t0 I. apply in_app_or in I. destruct I as [I|I].
      * apply in_map_iff in I. destruct I as (x & E & _). inversion E. lia.
      * specialize (Hn _ _ I). lia.
  - cbn [fst snd app]. split; [|exact I]. split; assumption.
  - cbn [fst snd app]. split; [|exact I]. split; assumption.
  - cbn [fst snd app]. split; [|exact I]. split; assumption.
Qed.

Lemma sound_hist_inv size dur ops : forall s recs, einv recs s -> sound_hist size dur ops s recs.
Proof.
  induction ops as [|o r IH]; intros s recs H; cbn [sound_hist]; [exact I|].
  destruct (estep_inv size dur o s recs H) as [H1 H2]. split; [exact H2|]. apply IH. exact H1.
Qed.

Theorem ec_sound size dur ops : sound_hist size dur ops (mkest ec_empty 0%N []) [].
Proof.
  apply sound_hist_inv. split.
  - intros k t0 L. cbn in L. discriminate.
  - intros k t0 [].
Qed.

(** The decorator passes the backend's answer through unchanged. *)
Theorem efm_transparent size dur ds d1 d2 s :
  let ob := fst (estep size dur (EFm ds d1 d2 0%Z) s) in
  exists asked, e_call ob = Some asked /\ e_code ob = 0%Z /\
                e_ans ob = filter (fun d => negb (memn d (backend s))) asked.
Proof.
  cbn [estep]. destruct (ec_remove_existing dur (now s + d1) (dedup_sort ds) (cache s)) as [mm c1].
  cbn. exists mm. auto.
Qed.

(** * LRU set *)

(** Touching or inserting an element makes it the last to be evicted and
    keeps the relative order of all other elements. *)
Lemma remove_nat_in x d l : In x (remove_nat d l) <-> x <> d /\ In x l.
Proof.
  induction l as [|h t IH]; cbn; [tauto|].
  destruct (Nat.eqb d h) eqn:E.
  - apply Nat.eqb_eq in E. subst. rewrite IH. intuition congruence.
  - apply Nat.eqb_neq in E. cbn. rewrite IH. intuition congruence.
Qed.

Lemma remove_nat_notin d l : ~ In d l -> remove_nat d l = l.
Proof.
  induction l as [|h t IH]; cbn; [auto|]. intros H. destruct (Nat.eqb d h) eqn:E.
  - apply Nat.eqb_eq in E. subst. contradiction H. left. reflexivity.
  - rewrite IH; [reflexivity|]. intros X. apply H. right. exact X.
Qed.

Lemma remove_nat_nodup d l : NoDup l -> NoDup (remove_nat d l).
Proof.
  induction 1 as [|h t Hn Hd IH]; cbn; [constructor|].
  destruct (Nat.eqb d h); [exact IH|]. constructor; [|exact IH].
  rewrite remove_nat_in. tauto.
Qed.

Definition lru_ok (s : lru) : Prop := NoDup (lq s) /\ lpanic s = false.

Theorem lru_touch_spec v s : lru_ok s -> In v (lq s) ->
  lru_ok (lru_touch v s) /\ lq (lru_touch v s) = remove_nat v (lq s) ++ [v].
Proof.
  intros [Hn Hp] Hin. unfold lru_touch. apply memn_in in Hin. rewrite Hin. cbn. split; [|reflexivity].
  split; [|exact Hp].
  apply Permutation.Permutation_NoDup with (l := v :: remove_nat v (lq s)).
  - apply Permutation.Permutation_cons_append.
  - constructor; [rewrite remove_nat_in; tauto|apply remove_nat_nodup; exact Hn].
Qed.

Theorem lru_insert_spec v s : lru_ok s -> ~ In v (lq s) ->
  lru_ok (lru_insert v s) /\ lq (lru_insert v s) = lq s ++ [v].
Proof.
  intros [Hn Hp] Hin. unfold lru_insert. destruct (memn v (lq s)) eqn:M.
  - apply memn_in in M. contradiction.
  - cbn. split; [|reflexivity]. split; [|exact Hp].
    apply Permutation.Permutation_NoDup with (l := v :: lq s).
    + apply Permutation.Permutation_cons_append.
    + constructor; assumption.
Qed.

(** Peek/Remove take the head: the element whose last Insert/Touch is oldest. *)
Theorem lru_remove_spec s v r : lru_ok s -> lq s = v :: r ->
  lru_peek s = Some v /\ lru_ok (lru_remove s) /\ lq (lru_remove s) = r.
Proof.
  intros [Hn Hp] E. unfold lru_peek, lru_remove. rewrite E. cbn. split; [reflexivity|]. split; [|reflexivity].
  split; [|exact Hp]. rewrite E in Hn. inversion Hn. assumption.
Qed.

(** * Size bound and panic-freedom of the existence cache (cache size >= 1) *)
Definition keys (m : list (nat * N)) : list nat := map fst m.

Lemma keys_remove_key x k m : In x (keys (remove_key k m)) <-> x <> k /\ In x (keys m).
Proof.
  unfold keys. induction m as [|[a b] r IH]; cbn; [tauto|].
  destruct (Nat.eqb k a) eqn:E.
  - apply Nat.eqb_eq in E. subst. rewrite IH. intuition congruence.
  - apply Nat.eqb_neq in E. cbn. rewrite IH. intuition congruence.
Qed.

Lemma keys_remove_key_nodup k m : NoDup (keys m) -> NoDup (keys (remove_key k m)).
Proof.
  unfold keys. induction m as [|[a b] r IH]; cbn; [auto|]. intros H. inversion H; subst.
  destruct (Nat.eqb k a); [auto|]. cbn. constructor; [|auto].
  intros X. apply (keys_remove_key a k r) in X. tauto.
Qed.

Lemma lookup_keys k m : lookup k m <> None <-> In k (keys m).
Proof.
  unfold keys. induction m as [|[a b] r IH]; cbn; [tauto|].
  destruct (Nat.eqb k a) eqn:E.
  - apply Nat.eqb_eq in E. subst. split; [auto|discriminate].
  - apply Nat.eqb_neq in E. rewrite IH. intuition congruence.
Qed.

Record ecinv (e : ec) : Prop := mkecinv {
  ei_q : NoDup (lq (elru e));
  ei_p : lpanic (elru e) = false;
  ei_k : NoDup (keys (times e));
  ei_same : forall k, In k (lq (elru e)) <-> In k (keys (times e)) }.

Lemma ecinv_length e : ecinv e -> length (times e) = length (lq (elru e)).
Proof.
  intros [Q P K S]. unfold keys in *. rewrite <- (map_length fst (times e)).
  apply Permutation_length. apply NoDup_Permutation; [exact K|exact Q|]. intros x. symmetry. apply S.
Qed.

Lemma ecinv_empty : ecinv ec_empty.
Proof. constructor; cbn; try constructor; tauto. Qed.

Lemma ec_remove_existing_inv dur now ds : forall e, ecinv e -> ecinv (snd (ec_remove_existing dur now ds e)).
Proof.
  induction ds as [|d r IH]; intros e I; cbn [ec_remove_existing]; [exact I|].
  destruct (lookup d (times e)) as [t0|] eqn:L.
  - destruct (fresh dur now t0).
    + apply IH. destruct I as [Q P K S].
      assert (Hin : In d (lq (elru e))) by (apply S, lookup_keys; rewrite L; discriminate).
      destruct (lru_touch_spec d (elru e) (conj Q P) Hin) as [[Q' P'] E].
      constructor; cbn [elru times]; try assumption.
      intros k. rewrite E, in_app_iff, remove_nat_in, <- S. cbn.
      destruct (Nat.eq_dec k d) as [->|N]; intuition congruence.
    + destruct (ec_remove_existing dur now r e) as [m e'] eqn:R. cbn. specialize (IH e I). rewrite R in IH. exact IH.
  - destruct (ec_remove_existing dur now r e) as [m e'] eqn:R. cbn. specialize (IH e I). rewrite R in IH. exact IH.
Qed.

Lemma ec_evict_inv e : ecinv e -> times e <> [] ->
  ecinv (ec_evict e) /\ S (length (times (ec_evict e))) = length (times e).
Proof.
  intros I Hne. pose proof (ecinv_length e I) as Hl. destruct I as [Q P K S0].
  assert (OK : lru_ok (elru e)) by (split; assumption).
  unfold ec_evict. destruct (lq (elru e)) as [|k r] eqn:E.
  - exfalso. destruct (times e); [contradiction|discriminate].
  - destruct (lru_remove_spec (elru e) k r OK E) as (Pk & [Q' P'] & Er). rewrite Pk.
    assert (I' : ecinv (mkec (remove_key k (times e)) (lru_remove (elru e)))).
    { constructor; cbn [elru times]; try assumption.
      - apply keys_remove_key_nodup. exact K.
      - intros x. rewrite Er, keys_remove_key, <- S0. cbn. inversion Q; subst.
        split; [intros H; split; [intros ->; contradiction|right; exact H]|intros [N [H|H]]; [congruence|exact H]]. }
    split; [exact I'|]. rewrite (ecinv_length _ I'). cbn [elru]. rewrite Er, Hl. reflexivity.
Qed.

Lemma length_remove_key d m : (length (remove_key d m) <= length m)%nat.
Proof. induction m as [|[a b] m IHm]; cbn; [lia|]. destruct (Nat.eqb d a); cbn; lia. Qed.

Lemma ec_add_inv size now ds : (1 <= size)%nat -> forall e, ecinv e -> (length (times e) <= size)%nat ->
  ecinv (ec_add size now ds e) /\ (length (times (ec_add size now ds e)) <= size)%nat.
Proof.
  intros Hs. induction ds as [|d r IH]; intros e I Hl; cbn [ec_add]; [auto|].
  set (e1 := if Nat.leb size (length (times e)) then ec_evict e else e).
  assert (H1 : ecinv e1 /\ (length (times e1) < size)%nat).
  { unfold e1. destruct (Nat.leb size (length (times e))) eqn:E.
    - apply Nat.leb_le in E.
      assert (Hne : times e <> []) by (destruct (times e); [cbn in E; lia|discriminate]).
      destruct (ec_evict_inv e I Hne) as [I' L']. split; [exact I'|lia].
    - apply Nat.leb_gt in E. auto. }
  destruct H1 as [I1 L1]. pose proof I1 as [Q P K S0].
  assert (Kset : NoDup (keys (set_time d now (times e1)))).
  { unfold set_time. cbn. constructor; [intros X; apply (keys_remove_key d d (times e1)) in X; tauto|apply keys_remove_key_nodup; exact K]. }
  destruct (lookup d (times e1)) as [t0|] eqn:L.
  - assert (Hd : In d (keys (times e1))) by (apply lookup_keys; rewrite L; discriminate).
    assert (Hlen : length (set_time d now (times e1)) = length (times e1)).
    { assert (P1 : Permutation (keys (set_time d now (times e1))) (keys (times e1))).
      { apply NoDup_Permutation; [exact Kset|exact K|].
        intros x. unfold set_time. cbn. fold (keys (remove_key d (times e1))). rewrite keys_remove_key.
        destruct (Nat.eq_dec x d) as [->|N]; intuition congruence. }
      apply Permutation_length in P1. unfold keys in P1. rewrite !map_length in P1. exact P1. }
    destruct (t0 <? now)%N; apply IH; try exact I1; try lia.
    + constructor; cbn [elru times]; try assumption.
      intros k. rewrite S0. unfold set_time. cbn. fold (keys (remove_key d (times e1))). rewrite keys_remove_key.
      destruct (Nat.eq_dec k d) as [->|N]; intuition congruence.
    + cbn [times]. lia.
  - assert (Hnd : ~ In d (keys (times e1))) by (intros X; apply lookup_keys in X; apply X; exact L).
    assert (Hq : ~ In d (lq (elru e1))) by (rewrite S0; exact Hnd).
    destruct (lru_insert_spec d (elru e1) (conj Q P) Hq) as [[Q' P'] E].
    apply IH.
    + constructor; cbn [elru times]; try assumption.
      intros k. rewrite E, in_app_iff, S0. unfold set_time. cbn. fold (keys (remove_key d (times e1))). rewrite keys_remove_key.
      destruct (Nat.eq_dec k d) as [->|N]; intuition congruence.
    + cbn [times set_time length]. pose proof (length_remove_key d (times e1)). lia.
Qed.

(** With a cache size of at least 1 the cache never holds more than [size]
    entries, never touches an empty queue, and the queue holds exactly the
    cached keys - through any sequence of RemoveExisting / Add calls. *)
Theorem ec_bounded size dur ops : (1 <= size)%nat ->
  forall s, ecinv (cache s) -> (length (times (cache s)) <= size)%nat ->
  let s' := snd (erun size dur ops s) in
  ecinv (cache s') /\ (length (times (cache s')) <= size)%nat.
Proof.
  intros Hs. induction ops as [|o r IH]; intros s I L; cbn [erun]; [auto|].
  destruct (estep size dur o s) as [ob s1] eqn:E.
  assert (H1 : ecinv (cache s1) /\ (length (times (cache s1)) <= size)%nat).
  { destruct o as [ds d1 d2 fault|ds d1|ds d1|d|d|d fault]; cbn [estep] in E.
    - pose proof (ec_remove_existing_inv dur (now s + d1) (dedup_sort ds) (cache s) I) as I1.
      pose proof (ec_remove_existing_spec dur (now s + d1) (dedup_sort ds) (cache s)) as T.
      destruct (ec_remove_existing dur (now s + d1) (dedup_sort ds) (cache s)) as [mm c1]. cbn [snd] in I1.
      destruct (T mm c1 eq_refl) as (T1 & _).
      destruct (negb (Z.eqb fault 0)); inversion E; subst; cbn [cache].
      + rewrite T1. auto.
      + apply ec_add_inv; [exact Hs|exact I1|rewrite T1; exact L].
    - pose proof (ec_remove_existing_inv dur (now s + d1) (dedup_sort ds) (cache s) I) as I1.
      pose proof (ec_remove_existing_spec dur (now s + d1) (dedup_sort ds) (cache s)) as T.
      destruct (ec_remove_existing dur (now s + d1) (dedup_sort ds) (cache s)) as [mm c1]. cbn [snd] in I1.
      destruct (T mm c1 eq_refl) as (T1 & _). inversion E; subst; cbn [cache]. rewrite T1. auto.
    - inversion E; subst; cbn [cache]. apply ec_add_inv; assumption.
    - inversion E; subst; cbn [cache]. auto.
    - inversion E; subst; cbn [cache]. auto.
    - inversion E; subst. auto. }
  destruct H1 as [I1 L1]. specialize (IH s1 I1 L1). destruct (erun size dur r s1) as [obs s2]. cbn [snd] in *. exact IH.
Qed.

(** Consequently no answer names more cached digests than the cache size:
    the digests a RemoveExisting call leaves out are distinct cached keys. *)
Theorem ec_no_panic size dur ops : (1 <= size)%nat ->
  lpanic (elru (cache (snd (erun size dur ops (mkest ec_empty 0%N []))))) = false.
Proof.
  intros Hs. destruct (ec_bounded size dur ops Hs (mkest ec_empty 0%N []) ecinv_empty) as [I _]; [cbn; lia|].
  apply (ei_p _ I).
Qed.

(** A composite read (GetFromComposite) through the decorator is the
    backend's: the child iff the backend holds the parent, the backend is asked
    for exactly that parent, the cache is neither consulted (no clock reading)
    nor changed - in every state, hence after every history. *)
Theorem egfc_transparent size dur p s :
  let (ob, s') := estep size dur (EGfc p 0%Z) s in
  e_code ob = (if memn p (backend s) then 0 else 5)%Z /\ e_call ob = Some [p] /\ e_clock ob = [] /\ s' = s.
Proof. cbn. repeat split; reflexivity. Qed.

Theorem egfc_failure_surfaces size dur p f s : f <> 0%Z -> e_code (fst (estep size dur (EGfc p f) s)) = f.
Proof. intros H. cbn. apply Z.eqb_neq in H. rewrite H. reflexivity. Qed.
