(** C17: theorems about the read-caching / read-fallback model. *)
From Coq Require Import List ZArith Bool Arith Lia.
From BBS Require Import Common.ListX Compose.Caching.
Import ListNotations.
Open Scope Z_scope.

Lemma memb_in d s : memb d s = true <-> In d s.
Proof.
  unfold memb. rewrite existsb_exists. split.
  - intros (x & Hin & He). apply Nat.eqb_eq in He. subst. exact Hin.
  - intros H. exists d. split; [exact H|apply Nat.eqb_refl].
Qed.

Lemma memb_insert x d s : memb x (insert_sorted d s) = true <-> x = d \/ memb x s = true.
Proof. rewrite !memb_in. apply insert_sorted_in. Qed.

(** ** Backend calls *)
Lemma record_spec b o args s :
  let (f, s1) := record b o args s in
  sa s1 = sa s /\ sb s1 = sb s /\ lg s1 = mkcall b o args f :: lg s /\
  (fl s = [] -> f = 0 /\ fl s1 = []).
Proof.
  unfold record. destruct (fl s) as [|f r] eqn:E; cbn; repeat split; auto; discriminate.
Qed.

Lemma contents_record b b' o args s : contents b (snd (record b' o args s)) = contents b s.
Proof. unfold record. destruct (fl s); destruct b; reflexivity. Qed.

Lemma bget_spec b d s c s1 : bget b d s = (c, s1) ->
  sa s1 = sa s /\ sb s1 = sb s /\
  (c = 0 -> memb d (contents b s) = true) /\
  (fl s = [] -> fl s1 = [] /\ c = if memb d (contents b s) then 0 else 5).
Proof.
  unfold bget. pose proof (record_spec b CGet [d] s) as R.
  pose proof (contents_record b b CGet [d] s) as C.
  destruct (record b CGet [d] s) as [f s0]. cbn in C. destruct R as (Ra & Rb & _ & Rf).
  destruct (f =? 0) eqn:Ef; intros H; inversion H; subst; clear H.
  - rewrite C. repeat split; auto.
    + destruct (memb d (contents b s)); [reflexivity|discriminate].
    + apply Rf; assumption.
  - repeat split; auto.
    + intros ->. discriminate.
    + apply Rf; assumption.
    + destruct (Rf H) as [-> _]. discriminate.
Qed.

Lemma bfm_spec b ds s c m s1 : bfm b ds s = (c, m, s1) ->
  sa s1 = sa s /\ sb s1 = sb s /\
  (c = 0 -> m = filter (fun d => negb (memb d (contents b s))) ds) /\
  (fl s = [] -> fl s1 = [] /\ c = 0).
Proof.
  unfold bfm. pose proof (record_spec b CFm ds s) as R.
  pose proof (contents_record b b CFm ds s) as C.
  destruct (record b CFm ds s) as [f s0]. cbn in C. destruct R as (Ra & Rb & _ & Rf).
  destruct (f =? 0) eqn:Ef; intros H; inversion H; subst; clear H.
  - rewrite C. repeat split; auto. apply Rf; assumption.
  - repeat split; auto.
    + intros ->. discriminate.
    + apply Rf; assumption.
    + destruct (Rf H) as [-> _]. discriminate.
Qed.

(** [Put] changes only the addressed backend, only by adding [d], only on success. *)
Lemma bput_spec b d buf s c s1 : bput b d buf s = (c, s1) ->
  (c = 0 -> buf = 0 /\ contents b s1 = insert_sorted d (contents b s)) /\
  (c <> 0 -> contents b s1 = contents b s) /\
  (forall b', b' <> b -> contents b' s1 = contents b' s) /\
  (exists f, lg s1 = mkcall b CPut [d] f :: lg s) /\
  (fl s = [] -> fl s1 = [] /\ c = buf).
Proof.
  unfold bput. pose proof (record_spec b CPut [d] s) as R.
  destruct (record b CPut [d] s) as [f s0]. destruct R as (Ra & Rb & Rl & Rf).
  assert (C : forall b', contents b' s0 = contents b' s) by (intros []; cbn; assumption).
  destruct (f =? 0) eqn:Ef; cbn [negb].
  - apply Z.eqb_eq in Ef. subst f.
    destruct (buf =? 0) eqn:Eb; cbn [negb]; intros H; inversion H; subst; clear H.
    + apply Z.eqb_eq in Eb. subst buf.
      split; [intros _; split; [reflexivity|destruct b; cbn; rewrite ?Ra, ?Rb; reflexivity]|].
      split; [intros Hc; contradiction Hc; reflexivity|].
      split; [intros b' Hb; destruct b, b'; try contradiction; cbn; rewrite ?Ra, ?Rb; reflexivity|].
      split; [exists 0; destruct b; cbn; exact Rl|].
      intros Hf. destruct (Rf Hf) as [_ Hf1]. split; [destruct b; cbn; exact Hf1|reflexivity].
    + apply Z.eqb_neq in Eb.
      split; [intros ->; contradiction|].
      split; [intros _; apply C|].
      split; [intros b' _; apply C|].
      split; [exists 0; exact Rl|].
      intros Hf. destruct (Rf Hf) as [_ Hf1]. split; [exact Hf1|reflexivity].
  - apply Z.eqb_neq in Ef. intros H; inversion H; subst; clear H.
    split; [intros ->; contradiction|].
    split; [intros _; apply C|].
    split; [intros b' _; apply C|].
    split; [exists c; exact Rl|].
    intros Hf. destruct (Rf Hf) as [-> _]. contradiction.
Qed.

(** ** Replicators: the sink only grows, by objects of the source; the source is untouched. *)
Definition grows (s s1 : st) : Prop :=
  sb s1 = sb s /\
  (forall x, memb x (sa s) = true -> memb x (sa s1) = true) /\
  (forall x, memb x (sa s1) = true -> memb x (sa s) = true \/ memb x (sb s) = true).

Lemma grows_refl s : grows s s.
Proof. repeat split; auto. Qed.

Lemma grows_trans s s1 s2 : grows s s1 -> grows s1 s2 -> grows s s2.
Proof.
  intros (A1 & B1 & C1) (A2 & B2 & C2). repeat split.
  - congruence.
  - auto.
  - intros x H. destruct (C2 x H) as [H1|H1]; [auto|]. right. rewrite <- A1. exact H1.
Qed.

Lemma grows_same s s1 : sa s1 = sa s -> sb s1 = sb s -> grows s s1.
Proof. intros A B. unfold grows. rewrite A, B. auto. Qed.

(** One copy step: [source.Get] then [sink.Put] of that buffer. *)
Lemma copy_step d s b s1 c s2 : bget BB d s = (b, s1) -> bput BA d b s1 = (c, s2) ->
  grows s s2 /\ (c = 0 -> memb d (sa s2) = true /\ b = 0) /\
  (fl s = [] -> fl s2 = [] /\ c = (if memb d (sb s) then 0 else 5) /\ b = c).
Proof.
  intros G P. apply bget_spec in G. destruct G as (Ga & Gb & G0 & Gf).
  apply bput_spec in P. destruct P as (P0 & Pn & Po & _ & Pf).
  assert (Hb : sb s2 = sb s). { rewrite <- Gb. apply (Po BB). discriminate. }
  split; [|split].
  - split; [exact Hb|]. destruct (Z.eq_dec c 0) as [Hc|Hc].
    + destruct (P0 Hc) as [Hbuf Hins]. cbn in Hins. split.
      * intros x Hx. rewrite Hins. apply memb_insert. right. rewrite Ga. exact Hx.
      * intros x Hx. rewrite Hins in Hx. apply memb_insert in Hx. destruct Hx as [->|Hx].
        -- right. apply G0. exact Hbuf.
        -- left. rewrite <- Ga. exact Hx.
    + specialize (Pn Hc). cbn in Pn. rewrite Pn, Ga. auto.
  - intros Hc. destruct (P0 Hc) as [Hbuf Hins]. cbn in Hins. split; [|exact Hbuf].
    rewrite Hins. apply memb_insert. left. reflexivity.
  - intros Hf. destruct (Gf Hf) as [Hf1 Hbv]. destruct (Pf Hf1) as [Hf2 Hcv].
    cbn [contents] in Hbv. split; [exact Hf2|]. split; [rewrite Hcv; exact Hbv|symmetry; exact Hcv].
Qed.

Lemma local_multiple_spec ds : forall s c s1, local_multiple ds s = (c, s1) ->
  grows s s1 /\ (c = 0 -> forall d, In d ds -> memb d (sa s1) = true) /\
  (fl s = [] -> fl s1 = [] /\ ((forall d, In d ds -> memb d (sb s) = true) -> c = 0)).
Proof.
  induction ds as [|d r IH]; cbn [local_multiple]; intros s c s1 H.
  - inversion H; subst. split; [apply grows_refl|]. split; [intros _ d []|]. auto.
  - destruct (bget BB d s) as [b s0] eqn:G. destruct (bput BA d b s0) as [c0 s2] eqn:P.
    destruct (copy_step _ _ _ _ _ _ G P) as (Gr & C0 & Cf).
    destruct (c0 =? 0) eqn:Ec.
    + apply Z.eqb_eq in Ec. subst c0. destruct (IH _ _ _ H) as (Gr2 & I0 & If).
      split; [eapply grows_trans; eassumption|]. split.
      * intros Hc x [->|Hx]; [|apply I0; assumption].
        destruct Gr2 as (_ & M & _). apply M. apply C0. reflexivity.
      * intros Hf. destruct (Cf Hf) as (Hf2 & _ & _). destruct (If Hf2) as [Hf3 Hall].
        split; [exact Hf3|]. intros Hin. apply Hall. intros x Hx.
        destruct Gr as (Hsb & _ & _). rewrite Hsb. apply Hin. right. exact Hx.
    + apply Z.eqb_neq in Ec. inversion H; subst. split; [exact Gr|]. split; [intros; contradiction|].
      intros Hf. destruct (Cf Hf) as (Hf2 & Hcv & _). split; [exact Hf2|].
      intros Hin. rewrite (Hin d (or_introl eq_refl)) in Hcv. contradiction.
Qed.

Lemma rmultiple_grows r : forall ds s c s1, rmultiple r ds s = (c, s1) -> grows s s1.
Proof.
  induction r as [| |r IH|r IH]; cbn [rmultiple]; intros ds s c s1 H.
  - apply local_multiple_spec in H. apply H.
  - inversion H; subst. apply grows_refl.
  - revert s c s1 H. induction ds as [|d rest IHd]; intros s c s1 H.
    + inversion H; subst. apply grows_refl.
    + destruct (bfm BA [d] s) as [[c0 miss] s0] eqn:F.
      apply bfm_spec in F. destruct F as (Fa & Fb & _ & _).
      pose proof (grows_same s s0 Fa Fb) as G0.
      destruct (c0 =? 0); cbn [negb] in H.
      * destruct miss as [|x miss'].
        -- eapply grows_trans; [exact G0|]. eapply IHd. exact H.
        -- destruct (rmultiple r [d] s0) as [c2 s2] eqn:R. apply IH in R.
           destruct (c2 =? 0).
           ++ eapply grows_trans; [exact G0|]. eapply grows_trans; [exact R|]. eapply IHd. exact H.
           ++ inversion H; subst. eapply grows_trans; eassumption.
      * inversion H; subst. exact G0.
  - eapply IH. exact H.
Qed.

Lemma rsingle_grows r d s c s1 : rsingle r d s = (c, s1) -> grows s s1.
Proof.
  assert (Hdec : forall r', (let (c, s1) := rmultiple r' [d] s in if c =? 0 then sink_get_nf d s1 else (c, s1)) = (c, s1) -> grows s s1).
  { intros r' H. destruct (rmultiple r' [d] s) as [c0 s0] eqn:R. apply rmultiple_grows in R.
    destruct (c0 =? 0).
    - unfold sink_get_nf in H. destruct (bget BA d s0) as [b s2] eqn:G. inversion H; subst.
      apply bget_spec in G. destruct G as (Ga & Gb & _). eapply grows_trans; [exact R|]. apply grows_same; assumption.
    - inversion H; subst. exact R. }
  destruct r; cbn [rsingle]; intros H.
  - unfold local_single in H. destruct (bget BB d s) as [b s0] eqn:G. destruct (bput BA d b s0) as [c0 s2] eqn:P.
    destruct (copy_step _ _ _ _ _ _ G P) as (Gr & _). destruct (b =? 0); inversion H; subst; exact Gr.
  - apply bget_spec in H. destruct H as (Ga & Gb & _). apply grows_same; assumption.
  - apply (Hdec (RDedup r)). exact H.
  - apply (Hdec (RLimit r)). exact H.
Qed.

(** ** Get *)

(** Soundness for every replicator stack and every fault sequence: an object
    is returned only if one of the backends held it. *)
Theorem cget_sound r d s s1 : cget r d s = (0, s1) ->
  memb d (sa s) = true \/ memb d (sb s) = true.
Proof.
  unfold cget. destruct (bget BA d s) as [b s0] eqn:G. pose proof G as G'.
  apply bget_spec in G. destruct G as (Ga & Gb & G0 & _).
  destruct (b =? 5) eqn:E5.
  - intros H.
    assert (Hd : forall r', (let (c, s1) := rmultiple r' [d] s0 in if c =? 0 then sink_get_nf d s1 else (c, s1)) = (0, s1) ->
                 memb d (sa s) = true \/ memb d (sb s) = true).
    { intros r' H'. destruct (rmultiple r' [d] s0) as [c0 s2] eqn:R. apply rmultiple_grows in R.
      destruct (c0 =? 0) eqn:Ec.
      - unfold sink_get_nf in H'. destruct (bget BA d s2) as [b2 s3] eqn:G2. inversion H' as [[Hb Hs]].
        destruct (b2 =? 5); [discriminate|]. subst b2. apply bget_spec in G2. destruct G2 as (_ & _ & G20 & _).
        specialize (G20 eq_refl). cbn in G20. destruct R as (_ & _ & R3). destruct (R3 _ G20) as [X|X].
        + left. rewrite <- Ga. exact X.
        + right. rewrite <- Gb. exact X.
      - inversion H'; subst. discriminate. }
    destruct r; cbn [rsingle] in H.
    + unfold local_single in H. destruct (bget BB d s0) as [b1 s2] eqn:G1. destruct (bput BA d b1 s2) as [c s3] eqn:P.
      destruct (copy_step _ _ _ _ _ _ G1 P) as (_ & C0 & _).
      apply bget_spec in G1. destruct G1 as (_ & _ & G10 & _).
      right. rewrite <- Gb. apply G10. destruct (b1 =? 0) eqn:Eb; [apply Z.eqb_eq; exact Eb|].
      inversion H. subst b1. discriminate.
    + apply bget_spec in H. destruct H as (_ & _ & H0 & _). right. rewrite <- Gb. apply H0. reflexivity.
    + apply (Hd (RDedup r)). exact H.
    + apply (Hd (RLimit r)). exact H.
  - intros H. inversion H; subst. left. apply G0. reflexivity.
Qed.

(** After a successful read through a copying replicator the object is in the
    fast / primary backend (every fault sequence). *)
Theorem cget_populates r d s s1 : copying r = true -> cget r d s = (0, s1) -> memb d (sa s1) = true.
Proof.
  intros Hc. unfold cget. destruct (bget BA d s) as [b s0] eqn:G.
  apply bget_spec in G. destruct G as (Ga & Gb & G0 & _).
  destruct (b =? 5) eqn:E5.
  - intros H.
    assert (Hd : forall r', (let (c, s1) := rmultiple r' [d] s0 in if c =? 0 then sink_get_nf d s1 else (c, s1)) = (0, s1) ->
                 memb d (sa s1) = true).
    { intros r' H'. destruct (rmultiple r' [d] s0) as [c0 s2] eqn:R.
      destruct (c0 =? 0) eqn:Ec.
      - unfold sink_get_nf in H'. destruct (bget BA d s2) as [b2 s3] eqn:G2. inversion H' as [[Hb Hs]].
        destruct (b2 =? 5); [discriminate|]. subst b2 s3. apply bget_spec in G2. destruct G2 as (G2a & _ & G20 & _).
        rewrite G2a. apply G20. reflexivity.
      - inversion H'; subst. discriminate. }
    destruct r; cbn [rsingle] in H; cbn in Hc; try discriminate.
    + unfold local_single in H. destruct (bget BB d s0) as [b1 s2] eqn:G1. destruct (bput BA d b1 s2) as [c s3] eqn:P.
      destruct (copy_step _ _ _ _ _ _ G1 P) as (_ & C0 & _).
      destruct (b1 =? 0) eqn:Eb.
      * inversion H; subst. apply C0. reflexivity.
      * inversion H. subst b1. discriminate.
    + apply (Hd (RDedup r)). exact H.
    + apply (Hd (RLimit r)). exact H.
  - intros H. inversion H; subst. rewrite Ga. apply G0. reflexivity.
Qed.

(** Without backend failures, with the copying (local) replicator or none:
    the object is returned iff fast/primary or slow/secondary holds it, and
    NOT_FOUND is returned otherwise. *)
Theorem cget_complete r d s : (r = RLocal \/ r = RNoop) -> fl s = [] ->
  fst (cget r d s) = if memb d (sa s) || memb d (sb s) then 0 else 5.
Proof.
  intros Hr Hf. unfold cget. destruct (bget BA d s) as [b s0] eqn:G.
  apply bget_spec in G. destruct G as (Ga & Gb & _ & Gf). destruct (Gf Hf) as [Hf0 Hb]. cbn [contents] in Hb.
  subst b. destruct (memb d (sa s)) eqn:Ma; cbn [orb]; [reflexivity|].
  change (5 =? 5) with true. cbn iota.
  destruct Hr as [-> | ->]; cbn [rsingle].
  - unfold local_single. destruct (bget BB d s0) as [b1 s2] eqn:G1. destruct (bput BA d b1 s2) as [c s3] eqn:P.
    destruct (copy_step _ _ _ _ _ _ G1 P) as (_ & _ & Cf). destruct (Cf Hf0) as (_ & Hc & Hbc).
    rewrite Gb in Hc. destruct (memb d (sb s)); subst; reflexivity.
  - destruct (bget BB d s0) as [b1 s2] eqn:G1. apply bget_spec in G1. destruct G1 as (_ & _ & _ & G1f).
    destruct (G1f Hf0) as [_ Hb1]. cbn [contents] in Hb1. rewrite Gb in Hb1. cbn [fst]. exact Hb1.
Qed.

(** ** Put: exactly one backend call, a Put on the slow (read caching) /
    primary (fallback) backend; the other backend is untouched. *)
Theorem cput_only_target k d s c s1 : cput k d s = (c, s1) ->
  (exists f, lg s1 = mkcall (put_target k) CPut [d] f :: lg s) /\
  (forall b, b <> put_target k -> contents b s1 = contents b s) /\
  (c = 0 -> memb d (contents (put_target k) s1) = true).
Proof.
  unfold cput. intros H. apply bput_spec in H. destruct H as (H0 & _ & Ho & Hl & _).
  split; [exact Hl|]. split; [exact Ho|]. intros Hc. destruct (H0 Hc) as [_ Hi]. rewrite Hi.
  apply memb_insert. left. reflexivity.
Qed.

(** ** FindMissing through a fallback *)
Lemma filter_filter {T} (f g : T -> bool) l : filter g (filter f l) = filter (fun x => f x && g x) l.
Proof.
  induction l as [|x l IH]; [reflexivity|]. cbn. destruct (f x); cbn; [destruct (g x)|]; rewrite IH; reflexivity.
Qed.

Theorem cfm_fallback_exact r ds s m s1 : cfm ReadFallback r ds s = (0, m, s1) ->
  m = filter (fun d => negb (memb d (sa s)) && negb (memb d (sb s))) ds.
Proof.
  cbn [cfm]. destruct (bfm BA ds s) as [[c1 m1] s0] eqn:F1. apply bfm_spec in F1.
  destruct F1 as (F1a & F1b & F10 & _).
  destruct (c1 =? 0) eqn:E1; cbn [negb]; [|intros H; inversion H; subst; cbn in *; discriminate].
  apply Z.eqb_eq in E1. specialize (F10 E1). cbn in F10.
  destruct (bfm BB m1 s0) as [[c2 m2] s2] eqn:F2. apply bfm_spec in F2.
  destruct F2 as (F2a & F2b & F20 & _).
  destruct (c2 =? 0) eqn:E2; cbn [negb]; [|intros H; inversion H; subst; cbn in *; discriminate].
  apply Z.eqb_eq in E2. specialize (F20 E2). cbn in F20.
  destruct (rmultiple r _ s2) as [c3 s3]. destruct (c3 =? 0) eqn:E3; intros H.
  - inversion H; subst. rewrite F1b. apply filter_filter.
  - destruct (c3 =? 5); inversion H; subst; cbn in E3; discriminate.
Qed.

(** Without backend failures (local replicator) it succeeds, and afterwards
    the primary holds everything of the request that either backend held. *)
Theorem cfm_fallback_total ds s : fl s = [] ->
  let '(c, m, s1) := cfm ReadFallback RLocal ds s in
  c = 0 /\ forall d, In d ds -> memb d (sb s) = true -> memb d (sa s1) = true.
Proof.
  intros Hf. cbn [cfm]. destruct (bfm BA ds s) as [[c1 m1] s0] eqn:F1. apply bfm_spec in F1.
  destruct F1 as (F1a & F1b & F10 & F1f). destruct (F1f Hf) as [Hf0 ->]. specialize (F10 eq_refl). cbn [contents] in F10.
  cbn [Z.eqb negb]. destruct (bfm BB m1 s0) as [[c2 m2] s2] eqn:F2. apply bfm_spec in F2.
  destruct F2 as (F2a & F2b & F20 & F2f). destruct (F2f Hf0) as [Hf2 ->]. specialize (F20 eq_refl). cbn [contents] in F20.
  cbn [Z.eqb negb rmultiple].
  destruct (local_multiple _ s2) as [c3 s3] eqn:LM. apply local_multiple_spec in LM.
  destruct LM as (Gr & L0 & Lf). destruct (Lf Hf2) as [_ Hall].
  assert (Hm2 : forall d, memb d m2 = true <-> In d m1 /\ memb d (sb s0) = false).
  { intros d. rewrite memb_in, F20, filter_In. cbn [contents]. rewrite negb_true_iff. tauto. }
  assert (Hc3 : c3 = 0).
  { apply Hall. intros d Hd. apply filter_In in Hd. destruct Hd as [Hd1 Hd2].
    rewrite F2b. destruct (memb d (sb s0)) eqn:M; [reflexivity|].
    exfalso. assert (Hin : memb d m2 = true) by (apply Hm2; split; assumption).
    rewrite Hin in Hd2. discriminate. }
  subst c3. cbn [Z.eqb]. split; [reflexivity|].
  intros d Hd Hsb. destruct (memb d (sa s)) eqn:Ma.
  - destruct Gr as (_ & M & _). apply M. rewrite F2a, F1a. exact Ma.
  - apply (L0 eq_refl). apply filter_In. split.
    + rewrite F10. apply filter_In. split; [exact Hd|]. cbn [contents]. rewrite Ma. reflexivity.
    + destruct (memb d m2) eqn:M2; [|reflexivity]. exfalso.
      apply Hm2 in M2. destruct M2 as [_ M2]. rewrite F1b, Hsb in M2. discriminate.
Qed.

(** ** Completeness for every copying replicator stack *)
Lemma rmultiple_one r : copying r = true -> forall d s c s1, fl s = [] -> memb d (sa s) = false ->
  rmultiple r [d] s = (c, s1) ->
  fl s1 = [] /\ (if memb d (sb s) then c = 0 /\ memb d (sa s1) = true else c = 5).
Proof.
  induction r as [| |r IH|r IH]; cbn [copying]; intros Hc d s c s1 Hf Ha H; try discriminate.
  - cbn [rmultiple local_multiple] in H.
    destruct (bget BB d s) as [b s0] eqn:G. destruct (bput BA d b s0) as [c0 s2] eqn:P.
    destruct (copy_step _ _ _ _ _ _ G P) as (_ & C0 & Cf). destruct (Cf Hf) as (Hf2 & Hcv & _).
    destruct (c0 =? 0) eqn:Ec; injection H as <- <-.
    + apply Z.eqb_eq in Ec. split; [exact Hf2|]. destruct (memb d (sb s)); [|rewrite Ec in Hcv; discriminate].
      split; [reflexivity|]. apply C0. exact Ec.
    + split; [exact Hf2|]. destruct (memb d (sb s)); [rewrite Hcv in Ec; discriminate|exact Hcv].
  - cbn [rmultiple] in H. destruct (bfm BA [d] s) as [[c0 miss] s0] eqn:F. apply bfm_spec in F.
    destruct F as (Fa & Fb & F0 & Ff). destruct (Ff Hf) as [Hf0 ->]. specialize (F0 eq_refl).
    cbn [contents filter] in F0. rewrite Ha in F0. cbn [negb] in F0. subst miss. cbn [Z.eqb negb] in H.
    destruct (rmultiple r [d] s0) as [c2 s2] eqn:R.
    assert (Ha0 : memb d (sa s0) = false) by (rewrite Fa; exact Ha).
    destruct (IH Hc d s0 c2 s2 Hf0 Ha0 R) as [Hf2 Hres]. rewrite Fb in Hres.
    destruct (c2 =? 0) eqn:Ec; injection H as <- <-; split; try exact Hf2.
    + destruct (memb d (sb s)); [|rewrite Hres in Ec; discriminate]. split; [reflexivity|apply Hres].
    + destruct (memb d (sb s)); [destruct Hres as [Hz _]; rewrite Hz in Ec; discriminate|exact Hres].
  - cbn [rmultiple] in H. eapply IH; eassumption.
Qed.

Lemma deco_single r' d s0 : copying r' = true -> fl s0 = [] -> memb d (sa s0) = false ->
  fst (let (c, s1) := rmultiple r' [d] s0 in if c =? 0 then sink_get_nf d s1 else (c, s1)) =
  if memb d (sb s0) then 0 else 5.
Proof.
  intros Hc Hf0 Ha0. destruct (rmultiple r' [d] s0) as [c s1] eqn:R.
  destruct (rmultiple_one r' Hc d s0 c s1 Hf0 Ha0 R) as [Hf1 Hres].
  destruct (memb d (sb s0)).
  - destruct Hres as [-> Hin]. cbn [Z.eqb]. unfold sink_get_nf.
    destruct (bget BA d s1) as [b2 s2] eqn:G2. apply bget_spec in G2. destruct G2 as (_ & _ & _ & G2f).
    destruct (G2f Hf1) as [_ Hb2]. cbn [contents] in Hb2. rewrite Hin in Hb2. subst b2. reflexivity.
  - subst c. reflexivity.
Qed.

Theorem cget_complete_copying r d s : (copying r = true \/ r = RNoop) -> fl s = [] ->
  fst (cget r d s) = if memb d (sa s) || memb d (sb s) then 0 else 5.
Proof.
  intros Hr Hf.
  assert (Hdeco : forall r', copying r' = true -> rsingle r' d = (fun s0 => let (c, s1) := rmultiple r' [d] s0 in if c =? 0 then sink_get_nf d s1 else (c, s1)) ->
                  fst (cget r' d s) = if memb d (sa s) || memb d (sb s) then 0 else 5).
  { intros r' Hc Hrs. unfold cget. destruct (bget BA d s) as [b s0] eqn:G.
    apply bget_spec in G. destruct G as (Ga & Gb & _ & Gf). destruct (Gf Hf) as [Hf0 Hb]. cbn [contents] in Hb.
    subst b. destruct (memb d (sa s)) eqn:Ma; cbn [orb]; [reflexivity|].
    change (5 =? 5) with true. cbn iota. rewrite Hrs. rewrite <- Gb. apply deco_single; [exact Hc|exact Hf0|rewrite Ga; exact Ma]. }
  destruct r as [| |r|r].
  - apply cget_complete; auto.
  - apply cget_complete; auto.
  - destruct Hr as [Hc|Hc]; [|discriminate]. apply Hdeco; [exact Hc|reflexivity].
  - destruct Hr as [Hc|Hc]; [|discriminate]. apply Hdeco; [exact Hc|reflexivity].
Qed.

(** ** GetFromComposite through the composites (parent [p]; the child is
    served by whichever backend holds the parent). *)
Lemma bgfc_spec b d s c s1 : bgfc b d s = (c, s1) ->
  sa s1 = sa s /\ sb s1 = sb s /\
  (c = 0 -> memb d (contents b s) = true) /\
  (fl s = [] -> fl s1 = [] /\ c = if memb d (contents b s) then 0 else 5).
Proof.
  unfold bgfc. pose proof (record_spec b CGfc [d] s) as R.
  pose proof (contents_record b b CGfc [d] s) as C.
  destruct (record b CGfc [d] s) as [f s0]. cbn in C. destruct R as (Ra & Rb & _ & Rf).
  destruct (f =? 0) eqn:Ef; intros H; inversion H; subst; clear H.
  - rewrite C. repeat split; auto.
    + destruct (memb d (contents b s)); [reflexivity|discriminate].
    + apply Rf; assumption.
  - repeat split; auto.
    + intros ->. discriminate.
    + apply Rf; assumption.
    + destruct (Rf H) as [-> _]. discriminate.
Qed.

Lemma repl_eq_noop r : r = RNoop \/ r <> RNoop.
Proof. destruct r; [right|left|right|right]; try reflexivity; discriminate. Qed.

(** Every replicator but the non-copying one replicates the parent with its
    own ReplicateMultiple and then reads the child back from the sink. *)
Lemma rcomposite_deco r p s : r <> RNoop ->
  rcomposite r p s = (let (c, s1) := rmultiple r [p] s in if c =? 0 then sink_gfc_nf p s1 else (c, s1)).
Proof. destruct r; intros H; try reflexivity. contradiction H. reflexivity. Qed.

Lemma copying_not_noop r : copying r = true -> r <> RNoop.
Proof. intros H ->. discriminate. Qed.

Lemma rcomposite_grows r p s c s1 : rcomposite r p s = (c, s1) -> grows s s1.
Proof.
  destruct (repl_eq_noop r) as [->|Hn].
  - cbn [rcomposite]. intros H. apply bgfc_spec in H. destruct H as (Ga & Gb & _). apply grows_same; assumption.
  - rewrite (rcomposite_deco r p s Hn). destruct (rmultiple r [p] s) as [c0 s0] eqn:R. apply rmultiple_grows in R.
    destruct (c0 =? 0).
    + unfold sink_gfc_nf. destruct (bgfc BA p s0) as [b s2] eqn:G. intros H. inversion H; subst.
      apply bgfc_spec in G. destruct G as (Ga & Gb & _). eapply grows_trans; [exact R|]. apply grows_same; assumption.
    + intros H. inversion H; subst. exact R.
Qed.

(** Soundness, every replicator stack, every fault sequence: the child is
    returned only if one of the backends held the parent. *)
Theorem cgfc_sound r p s s1 : cgfc r p s = (0, s1) ->
  memb p (sa s) = true \/ memb p (sb s) = true.
Proof.
  unfold cgfc. destruct (bgfc BA p s) as [b s0] eqn:G.
  apply bgfc_spec in G. destruct G as (Ga & Gb & G0 & _).
  destruct (b =? 5) eqn:E5.
  - destruct (repl_eq_noop r) as [->|Hn].
    + cbn [rcomposite]. intros H. apply bgfc_spec in H. destruct H as (_ & _ & H0 & _).
      right. rewrite <- Gb. apply H0. reflexivity.
    + rewrite (rcomposite_deco r p s0 Hn). destruct (rmultiple r [p] s0) as [c0 s2] eqn:R. apply rmultiple_grows in R.
      destruct (c0 =? 0) eqn:Ec.
      * unfold sink_gfc_nf. destruct (bgfc BA p s2) as [b2 s3] eqn:G2. intros H. inversion H as [[Hb Hs]].
        destruct (b2 =? 5); [discriminate|]. subst b2. apply bgfc_spec in G2. destruct G2 as (_ & _ & G20 & _).
        specialize (G20 eq_refl). cbn in G20. destruct R as (_ & _ & R3). destruct (R3 _ G20) as [X|X].
        -- left. rewrite <- Ga. exact X.
        -- right. rewrite <- Gb. exact X.
      * intros H. inversion H; subst. discriminate.
  - intros H. inversion H; subst. left. apply G0. reflexivity.
Qed.

(** After a successful composite read through any replicator that is not the
    bare non-copying one, the PARENT is in the fast / primary backend (every
    fault sequence): read caching's purpose. *)
Theorem cgfc_populates r p s s1 : r <> RNoop -> cgfc r p s = (0, s1) -> memb p (sa s1) = true.
Proof.
  intros Hn. unfold cgfc. destruct (bgfc BA p s) as [b s0] eqn:G.
  apply bgfc_spec in G. destruct G as (Ga & Gb & G0 & _).
  destruct (b =? 5) eqn:E5.
  - rewrite (rcomposite_deco r p s0 Hn). destruct (rmultiple r [p] s0) as [c0 s2] eqn:R.
    destruct (c0 =? 0) eqn:Ec.
    + unfold sink_gfc_nf. destruct (bgfc BA p s2) as [b2 s3] eqn:G2. intros H. inversion H as [[Hb Hs]].
      destruct (b2 =? 5); [discriminate|]. subst b2 s3. apply bgfc_spec in G2. destruct G2 as (G2a & _ & G20 & _).
      rewrite G2a. apply G20. reflexivity.
    + intros H. inversion H; subst. discriminate.
  - intros H. inversion H; subst. rewrite Ga. apply G0. reflexivity.
Qed.

Lemma deco_composite r' p s0 : copying r' = true -> fl s0 = [] -> memb p (sa s0) = false ->
  let res := (let (c, s1) := rmultiple r' [p] s0 in if c =? 0 then sink_gfc_nf p s1 else (c, s1)) in
  fst res = (if memb p (sb s0) then 0 else 5) /\ fl (snd res) = [].
Proof.
  intros Hc Hf0 Ha0. cbv zeta. destruct (rmultiple r' [p] s0) as [c s1] eqn:R.
  destruct (rmultiple_one r' Hc p s0 c s1 Hf0 Ha0 R) as [Hf1 Hres].
  destruct (memb p (sb s0)).
  - destruct Hres as [-> Hin]. cbn [Z.eqb]. unfold sink_gfc_nf.
    destruct (bgfc BA p s1) as [b2 s2] eqn:G2. apply bgfc_spec in G2. destruct G2 as (_ & _ & _ & G2f).
    destruct (G2f Hf1) as [Hf2 Hb2]. cbn [contents] in Hb2. rewrite Hin in Hb2. subst b2. split; [reflexivity|exact Hf2].
  - subst c. split; [reflexivity|exact Hf1].
Qed.

(** Without backend failures, every copying stack and the non-copying
    replicator: the child is returned iff fast/primary or slow/secondary
    holds the parent; NOT_FOUND otherwise. *)
Theorem cgfc_complete_copying r p s : (copying r = true \/ r = RNoop) -> fl s = [] ->
  fst (cgfc r p s) = if memb p (sa s) || memb p (sb s) then 0 else 5.
Proof.
  intros Hr Hf. unfold cgfc. destruct (bgfc BA p s) as [b s0] eqn:G.
  apply bgfc_spec in G. destruct G as (Ga & Gb & _ & Gf). destruct (Gf Hf) as [Hf0 Hb]. cbn [contents] in Hb.
  subst b. destruct (memb p (sa s)) eqn:Ma; cbn [orb]; [reflexivity|].
  change (5 =? 5) with true. cbn iota. rewrite <- Gb.
  destruct Hr as [Hc| ->].
  - rewrite (rcomposite_deco r p s0 (copying_not_noop r Hc)).
    apply (deco_composite r p s0 Hc Hf0). rewrite Ga. exact Ma.
  - cbn [rcomposite]. destruct (bgfc BB p s0) as [b1 s2] eqn:G1. apply bgfc_spec in G1.
    destruct G1 as (_ & _ & _ & G1f). destruct (G1f Hf0) as [_ Hb1]. cbn [contents] in Hb1. exact Hb1.
Qed.

(** Read-through (no backend failure, copying stack): a parent that only the
    slow / secondary backend holds is served AND is in the fast / primary
    backend afterwards, while the slow / secondary backend is unchanged. *)
Theorem cgfc_read_through r p s : copying r = true -> fl s = [] ->
  memb p (sa s) = false -> memb p (sb s) = true ->
  fst (cgfc r p s) = 0 /\ memb p (sa (snd (cgfc r p s))) = true /\ sb (snd (cgfc r p s)) = sb s.
Proof.
  intros Hc Hf Ha Hb. pose proof (cgfc_complete_copying r p s (or_introl Hc) Hf) as C.
  rewrite Ha, Hb in C. cbn [orb] in C. destruct (cgfc r p s) as [c s1] eqn:E. cbn [fst snd] in *. subst c.
  split; [reflexivity|]. split; [exact (cgfc_populates r p s s1 (copying_not_noop r Hc) E)|].
  unfold cgfc in E. destruct (bgfc BA p s) as [b s0] eqn:G. apply bgfc_spec in G. destruct G as (_ & Gb & _).
  destruct (b =? 5).
  - apply rcomposite_grows in E. destruct E as (E & _). congruence.
  - inversion E; subst. exact Gb.
Qed.

(** The backend name prepended to a read's error (fallback only): "Primary"
    exactly when the primary's own answer is an error other than NOT_FOUND -
    which is then the result -, "Secondary" exactly when the primary answered
    NOT_FOUND and the replicator ended with an error other than NOT_FOUND. *)
Theorem read_pfx_caching first final : read_pfx ReadCaching first final = 0.
Proof. reflexivity. Qed.

Theorem gfc_pfx_primary r p s : step_pfx ReadFallback r (OGfc p) s = 1 <->
  (fst (bgfc BA p s) <> 0 /\ fst (bgfc BA p s) <> 5).
Proof.
  cbn [step_pfx read_pfx]. destruct (fst (bgfc BA p s) =? 0) eqn:E0; [|destruct (fst (bgfc BA p s) =? 5) eqn:E5]; cbn [negb].
  - apply Z.eqb_eq in E0. split; [discriminate|]. intros [H _]. contradiction.
  - apply Z.eqb_eq in E5. split; [|intros [_ H]; contradiction].
    destruct ((fst (cgfc r p s) =? 0) || (fst (cgfc r p s) =? 5)); discriminate.
  - apply Z.eqb_neq in E0, E5. split; [intros _; split; assumption|reflexivity].
Qed.

Theorem gfc_primary_error_is_result r p s : fst (bgfc BA p s) <> 5 -> fst (cgfc r p s) = fst (bgfc BA p s).
Proof.
  intros H. unfold cgfc. destruct (bgfc BA p s) as [b s0]. cbn [fst] in *.
  apply Z.eqb_neq in H. rewrite H. reflexivity.
Qed.
