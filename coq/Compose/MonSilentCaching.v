(** C17, helper for Run/R17Proofs.v (sequential composites).

    The monitor of Run/R17.v decides "no backend call failed" from the faults
    recorded in the calls of one step ([lg]), whereas the completeness theorems
    of Compose/CachingProofs.v assume that no fault is left to inject
    ([fl s = []]).  This file bridges the two: an operation whose recorded
    calls all carry fault 0 behaves exactly as on the state with the fault
    list erased ([strip]), whatever faults were left unconsumed.  It also
    extends [cfm_fallback_total] from the local replicator to every
    replicator stack (code only). *)
From Coq Require Import List ZArith Bool Arith Lia.
From BBS Require Import Common.ListX Compose.Caching Compose.CachingProofs.
Import ListNotations.
Open Scope Z_scope.

Definition unfaulted (l : list call) : bool := forallb (fun c => c_fault c =? 0) l.
Definition strip (s : st) : st := mkst (sa s) (sb s) [] (lg s).

Lemma unfaulted_app l1 l2 : unfaulted (l1 ++ l2) = unfaulted l1 && unfaulted l2.
Proof. apply forallb_app. Qed.

(** [X] extends the log, and if the extended log is unfaulted, [X] commutes with [strip]. *)
Definition sim {R} (X : st -> R * st) : Prop :=
  forall s c s1, X s = (c, s1) ->
    (exists l, lg s1 = l ++ lg s) /\ (unfaulted (lg s1) = true -> X (strip s) = (c, strip s1)).

Lemma sim_record b o args : sim (record b o args).
Proof.
  intros s c s1 H. unfold record in H. destruct (fl s) as [|f r] eqn:E; inversion H; subst; clear H; cbn [lg].
  - split; [exists [mkcall b o args 0]; reflexivity|]. intros _. unfold record, strip. cbn. reflexivity.
  - split; [exists [mkcall b o args c]; reflexivity|]. intros U. cbn in U. apply andb_prop in U. destruct U as [U _].
    apply Z.eqb_eq in U. subst c. unfold record, strip. cbn. reflexivity.
Qed.

Lemma contents_strip b s : contents b (strip s) = contents b s.
Proof. destruct b; reflexivity. Qed.

Lemma sim_bget b d : sim (bget b d).
Proof.
  intros s c s1 H. unfold bget in H. destruct (record b CGet [d] s) as [f s0] eqn:R.
  destruct (sim_record _ _ _ _ _ _ R) as [Hl Hs].
  assert (Hs1 : s1 = s0) by (destruct (f =? 0); inversion H; reflexivity). subst s1.
  split; [exact Hl|]. intros U. unfold bget. rewrite (Hs U). rewrite contents_strip.
  destruct (f =? 0); inversion H; reflexivity.
Qed.

Lemma sim_bfm b ds : sim (fun s => let '(c, m, s1) := bfm b ds s in ((c, m), s1)).
Proof.
  intros s c s1 H. unfold bfm in H. destruct (record b CFm ds s) as [f s0] eqn:R.
  destruct (sim_record _ _ _ _ _ _ R) as [Hl Hs].
  assert (Hs1 : s1 = s0) by (destruct (f =? 0); inversion H; reflexivity). subst s1.
  split; [exact Hl|]. intros U. unfold bfm. rewrite (Hs U). rewrite contents_strip.
  destruct (f =? 0); inversion H; reflexivity.
Qed.

Lemma sim_bfm' b ds s c m s1 : bfm b ds s = (c, m, s1) ->
  (exists l, lg s1 = l ++ lg s) /\ (unfaulted (lg s1) = true -> bfm b ds (strip s) = (c, m, strip s1)).
Proof.
  intros H. destruct (sim_bfm b ds s (c, m) s1) as [Hl Hs]; [rewrite H; reflexivity|].
  split; [exact Hl|]. intros U. specialize (Hs U). destruct (bfm b ds (strip s)) as [[c' m'] s'].
  inversion Hs. reflexivity.
Qed.

Lemma strip_set_contents b v s : strip (set_contents b v s) = set_contents b v (strip s).
Proof. destruct b; reflexivity. Qed.

Lemma sim_bput b d buf : sim (bput b d buf).
Proof.
  intros s c s1 H. unfold bput in H. destruct (record b CPut [d] s) as [f s0] eqn:R.
  destruct (sim_record _ _ _ _ _ _ R) as [Hl Hs].
  assert (Hlg : lg s1 = lg s0).
  { destruct (negb (f =? 0)); [inversion H; reflexivity|].
    destruct (negb (buf =? 0)); inversion H; subst; [reflexivity|]. destruct b; reflexivity. }
  rewrite Hlg. split; [exact Hl|]. intros U. unfold bput. rewrite (Hs U). rewrite contents_strip.
  destruct (negb (f =? 0)); [inversion H; reflexivity|].
  destruct (negb (buf =? 0)); inversion H; subst; [reflexivity|]. rewrite strip_set_contents. reflexivity.
Qed.

(** Sequencing. *)
Lemma sim_seq_log s s1 s2 : (exists l, lg s1 = l ++ lg s) -> (exists l, lg s2 = l ++ lg s1) ->
  (exists l, lg s2 = l ++ lg s) /\ (unfaulted (lg s2) = true -> unfaulted (lg s1) = true).
Proof.
  intros [l1 H1] [l2 H2]. split.
  - exists (l2 ++ l1). rewrite H2, H1. apply app_assoc.
  - rewrite H2, unfaulted_app. intros U. apply andb_prop in U. apply U.
Qed.

Lemma sim_local_multiple ds : sim (local_multiple ds).
Proof.
  induction ds as [|d r IH]; intros s c s1 H; cbn [local_multiple] in *.
  - inversion H; subst. split; [exists []; reflexivity|]. reflexivity.
  - destruct (bget BB d s) as [b s0] eqn:G. destruct (bput BA d b s0) as [c0 s2] eqn:P.
    destruct (sim_bget _ _ _ _ _ G) as [Gl Gs]. destruct (sim_bput _ _ _ _ _ _ P) as [Pl Ps].
    destruct (sim_seq_log _ _ _ Gl Pl) as [GPl GPu].
    destruct (c0 =? 0) eqn:Ec.
    + destruct (IH _ _ _ H) as [Il Is]. destruct (sim_seq_log _ _ _ GPl Il) as [Al Au].
      split; [exact Al|]. intros U. rewrite (Gs (GPu (Au U))), (Ps (Au U)), Ec. apply Is, U.
    + inversion H; subst. split; [exact GPl|]. intros U. rewrite (Gs (GPu U)), (Ps U), Ec. reflexivity.
Qed.

Lemma sim_local_single d : sim (local_single d).
Proof.
  intros s c s1 H. unfold local_single in *.
  destruct (bget BB d s) as [b s0] eqn:G. destruct (bput BA d b s0) as [c0 s2] eqn:P.
  destruct (sim_bget _ _ _ _ _ G) as [Gl Gs]. destruct (sim_bput _ _ _ _ _ _ P) as [Pl Ps].
  destruct (sim_seq_log _ _ _ Gl Pl) as [GPl GPu].
  assert (s1 = s2) by (destruct (b =? 0); inversion H; reflexivity). subst s1.
  split; [exact GPl|]. intros U. rewrite (Gs (GPu U)), (Ps U). destruct (b =? 0); inversion H; reflexivity.
Qed.

Lemma sim_rmultiple r : forall ds, sim (rmultiple r ds).
Proof.
  induction r as [| |r IH|r IH]; intros ds.
  - apply sim_local_multiple.
  - intros s c s1 H. cbn [rmultiple] in *. inversion H; subst. split; [exists []; reflexivity|]. reflexivity.
  - intros s c s1 H. cbn [rmultiple] in *. revert s c s1 H.
    induction ds as [|d rest IHd]; intros s c s1 H.
    + inversion H; subst. split; [exists []; reflexivity|]. reflexivity.
    + destruct (bfm BA [d] s) as [[c0 miss] s0] eqn:F.
      destruct (sim_bfm' _ _ _ _ _ _ F) as [Fl Fs].
      destruct (negb (c0 =? 0)) eqn:Ec.
      * inversion H; subst. split; [exact Fl|]. intros U. rewrite (Fs U), Ec. reflexivity.
      * destruct miss as [|x miss'].
        -- destruct (IHd _ _ _ H) as [Il Is]. destruct (sim_seq_log _ _ _ Fl Il) as [Al Au].
           split; [exact Al|]. intros U. rewrite (Fs (Au U)), Ec. apply Is, U.
        -- destruct (rmultiple r [d] s0) as [c2 s2] eqn:R.
           destruct (IH _ _ _ _ R) as [Rl Rs]. destruct (sim_seq_log _ _ _ Fl Rl) as [FRl FRu].
           destruct (c2 =? 0) eqn:Ec2.
           ++ destruct (IHd _ _ _ H) as [Il Is]. destruct (sim_seq_log _ _ _ FRl Il) as [Al Au].
              split; [exact Al|]. intros U. rewrite (Fs (FRu (Au U))), Ec, (Rs (Au U)), Ec2. apply Is, U.
           ++ inversion H; subst. split; [exact FRl|]. intros U. rewrite (Fs (FRu U)), Ec, (Rs U), Ec2. reflexivity.
  - intros s c s1 H. cbn [rmultiple] in *. apply IH. exact H.
Qed.

Lemma sim_sink_get_nf d : sim (sink_get_nf d).
Proof.
  intros s c s1 H. unfold sink_get_nf in *. destruct (bget BA d s) as [b s0] eqn:G.
  destruct (sim_bget _ _ _ _ _ G) as [Gl Gs]. inversion H; subst.
  split; [exact Gl|]. intros U. rewrite (Gs U). reflexivity.
Qed.

Lemma sim_deco r d : sim (fun s => let (c, s1) := rmultiple r [d] s in if c =? 0 then sink_get_nf d s1 else (c, s1)).
Proof.
  intros s c s1 H. cbn beta in *. destruct (rmultiple r [d] s) as [c0 s0] eqn:R.
  destruct (sim_rmultiple _ _ _ _ _ R) as [Rl Rs].
  destruct (c0 =? 0) eqn:Ec.
  - destruct (sim_sink_get_nf _ _ _ _ H) as [Gl Gs]. destruct (sim_seq_log _ _ _ Rl Gl) as [Al Au].
    split; [exact Al|]. intros U. rewrite (Rs (Au U)), Ec. apply Gs, U.
  - inversion H; subst. split; [exact Rl|]. intros U. rewrite (Rs U), Ec. reflexivity.
Qed.

Lemma sim_rsingle r d : sim (rsingle r d).
Proof.
  destruct r; cbn [rsingle].
  - apply sim_local_single.
  - apply sim_bget.
  - apply (sim_deco (RDedup r)).
  - apply (sim_deco (RLimit r)).
Qed.

Lemma sim_cget r d : sim (cget r d).
Proof.
  intros s c s1 H. unfold cget in *. destruct (bget BA d s) as [b s0] eqn:G.
  destruct (sim_bget _ _ _ _ _ G) as [Gl Gs].
  destruct (b =? 5) eqn:E5.
  - destruct (sim_rsingle _ _ _ _ _ H) as [Rl Rs]. destruct (sim_seq_log _ _ _ Gl Rl) as [Al Au].
    split; [exact Al|]. intros U. rewrite (Gs (Au U)), E5. apply Rs, U.
  - inversion H; subst. split; [exact Gl|]. intros U. rewrite (Gs U), E5. reflexivity.
Qed.

(** Get: if no recorded call of the step failed, the result is the one of the
    completeness theorem, whatever faults were left. *)
Theorem cget_complete_unfaulted r d s c s1 : (copying r = true \/ r = RNoop) ->
  cget r d s = (c, s1) -> unfaulted (lg s1) = true ->
  c = if memb d (sa s) || memb d (sb s) then 0 else 5.
Proof.
  intros Hr H U. destruct (sim_cget _ _ _ _ _ H) as [_ Hs]. specialize (Hs U).
  pose proof (cget_complete_copying r d (strip s) Hr eq_refl) as C. rewrite Hs in C. exact C.
Qed.

(** ** FindMissing through a fallback answers whenever no call fails, for every replicator stack. *)
Lemma rmultiple_total r : forall ds s c s1, fl s = [] -> (forall d, In d ds -> memb d (sb s) = true) ->
  rmultiple r ds s = (c, s1) -> c = 0 /\ fl s1 = [].
Proof.
  induction r as [| |r IH|r IH]; intros ds s c s1 Hf Hin H; cbn [rmultiple] in H.
  - apply local_multiple_spec in H. destruct H as (_ & _ & Lf). destruct (Lf Hf) as [Hf1 Hall]. split; auto.
  - inversion H; subst. split; auto.
  - revert s c s1 Hf Hin H. induction ds as [|d rest IHd]; intros s c s1 Hf Hin H.
    + inversion H; subst. split; auto.
    + destruct (bfm BA [d] s) as [[c0 miss] s0] eqn:F. apply bfm_spec in F.
      destruct F as (Fa & Fb & _ & Ff). destruct (Ff Hf) as [Hf0 ->]. cbn [Z.eqb negb] in H.
      destruct miss as [|x miss'].
      * apply (IHd s0); [exact Hf0|intros y Hy; rewrite Fb; apply Hin; right; exact Hy|exact H].
      * destruct (rmultiple r [d] s0) as [c2 s2] eqn:R. pose proof (rmultiple_grows _ _ _ _ _ R) as (Gb & _).
        destruct (IH [d] s0 c2 s2 Hf0) as [-> Hf2]; [intros y [<-|[]]; rewrite Fb; apply Hin; left; reflexivity|exact R|].
        cbn [Z.eqb] in H. apply (IHd s2); [exact Hf2|intros y Hy; rewrite Gb, Fb; apply Hin; right; exact Hy|exact H].
  - eapply IH; eassumption.
Qed.

Lemma cfm_fallback_total_any r ds s : fl s = [] -> fst (fst (cfm ReadFallback r ds s)) = 0.
Proof.
  intros Hf. cbn [cfm]. destruct (bfm BA ds s) as [[c1 m1] s0] eqn:F1. apply bfm_spec in F1.
  destruct F1 as (F1a & F1b & F10 & F1f). destruct (F1f Hf) as [Hf0 ->]. specialize (F10 eq_refl). cbn [contents] in F10.
  cbn [Z.eqb negb]. destruct (bfm BB m1 s0) as [[c2 m2] s2] eqn:F2. apply bfm_spec in F2.
  destruct F2 as (F2a & F2b & F20 & F2f). destruct (F2f Hf0) as [Hf2 ->]. specialize (F20 eq_refl). cbn [contents] in F20.
  cbn [Z.eqb negb].
  destruct (rmultiple r _ s2) as [c3 s3] eqn:RM.
  assert (Hall : forall d, In d (filter (fun d => negb (memb d m2)) m1) -> memb d (sb s2) = true).
  { intros d Hd. apply filter_In in Hd. destruct Hd as [Hd1 Hd2]. rewrite F2b.
    destruct (memb d (sb s0)) eqn:M; [reflexivity|]. exfalso.
    assert (Hin : memb d m2 = true).
    { apply memb_in. rewrite F20. apply filter_In. split; [exact Hd1|]. cbn [contents]. rewrite M. reflexivity. }
    rewrite Hin in Hd2. discriminate. }
  destruct (rmultiple_total r _ s2 c3 s3 Hf2 Hall RM) as [-> _]. reflexivity.
Qed.

Lemma sim_cfm_fallback r ds s c m s1 : cfm ReadFallback r ds s = (c, m, s1) ->
  unfaulted (lg s1) = true -> cfm ReadFallback r ds (strip s) = (c, m, strip s1).
Proof.
  cbn [cfm]. destruct (bfm BA ds s) as [[c1 m1] s0] eqn:F1. destruct (sim_bfm' _ _ _ _ _ _ F1) as [F1l F1s].
  destruct (negb (c1 =? 0)) eqn:E1.
  - intros H U. inversion H; subst. rewrite (F1s U), E1. reflexivity.
  - destruct (bfm BB m1 s0) as [[c2 m2] s2] eqn:F2. destruct (sim_bfm' _ _ _ _ _ _ F2) as [F2l F2s].
    destruct (sim_seq_log _ _ _ F1l F2l) as [Al Au].
    destruct (negb (c2 =? 0)) eqn:E2.
    + intros H U. inversion H; subst. rewrite (F1s (Au U)), E1, (F2s U), E2. reflexivity.
    + destruct (rmultiple r _ s2) as [c3 s3] eqn:RM. destruct (sim_rmultiple _ _ _ _ _ RM) as [Rl Rs].
      destruct (sim_seq_log _ _ _ Al Rl) as [Bl Bu].
      intros H U.
      assert (s1 = s3) by (destruct (c3 =? 0); inversion H; reflexivity). subst s3.
      rewrite (F1s (Au (Bu U))), E1, (F2s (Bu U)), E2, (Rs U).
      destruct (c3 =? 0); inversion H; reflexivity.
Qed.

Theorem cfm_fallback_answers_unfaulted r ds s c m s1 : cfm ReadFallback r ds s = (c, m, s1) ->
  unfaulted (lg s1) = true -> c = 0.
Proof.
  intros H U. pose proof (sim_cfm_fallback _ _ _ _ _ _ H U) as Hs.
  pose proof (cfm_fallback_total_any r ds (strip s) eq_refl) as T. rewrite Hs in T. exact T.
Qed.

(** ** GetFromComposite through the composites *)
Lemma sim_bgfc b d : sim (bgfc b d).
Proof.
  intros s c s1 H. unfold bgfc in H. destruct (record b CGfc [d] s) as [f s0] eqn:R.
  destruct (sim_record _ _ _ _ _ _ R) as [Hl Hs].
  assert (Hs1 : s1 = s0) by (destruct (f =? 0); inversion H; reflexivity). subst s1.
  split; [exact Hl|]. intros U. unfold bgfc. rewrite (Hs U). rewrite contents_strip.
  destruct (f =? 0); inversion H; reflexivity.
Qed.

Lemma sim_sink_gfc_nf d : sim (sink_gfc_nf d).
Proof.
  intros s c s1 H. unfold sink_gfc_nf in *. destruct (bgfc BA d s) as [b s0] eqn:G.
  destruct (sim_bgfc _ _ _ _ _ G) as [Gl Gs]. inversion H; subst.
  split; [exact Gl|]. intros U. rewrite (Gs U). reflexivity.
Qed.

Lemma sim_deco_gfc r d : sim (fun s => let (c, s1) := rmultiple r [d] s in if c =? 0 then sink_gfc_nf d s1 else (c, s1)).
Proof.
  intros s c s1 H. cbn beta in *. destruct (rmultiple r [d] s) as [c0 s0] eqn:R.
  destruct (sim_rmultiple _ _ _ _ _ R) as [Rl Rs].
  destruct (c0 =? 0) eqn:Ec.
  - destruct (sim_sink_gfc_nf _ _ _ _ H) as [Gl Gs]. destruct (sim_seq_log _ _ _ Rl Gl) as [Al Au].
    split; [exact Al|]. intros U. rewrite (Rs (Au U)), Ec. apply Gs, U.
  - inversion H; subst. split; [exact Rl|]. intros U. rewrite (Rs U), Ec. reflexivity.
Qed.

Lemma sim_rcomposite r d : sim (rcomposite r d).
Proof.
  destruct r; cbn [rcomposite].
  - apply (sim_deco_gfc RLocal).
  - apply sim_bgfc.
  - apply (sim_deco_gfc (RDedup r)).
  - apply (sim_deco_gfc (RLimit r)).
Qed.

Lemma sim_cgfc r d : sim (cgfc r d).
Proof.
  intros s c s1 H. unfold cgfc in *. destruct (bgfc BA d s) as [b s0] eqn:G.
  destruct (sim_bgfc _ _ _ _ _ G) as [Gl Gs].
  destruct (b =? 5) eqn:E5.
  - destruct (sim_rcomposite _ _ _ _ _ H) as [Rl Rs]. destruct (sim_seq_log _ _ _ Gl Rl) as [Al Au].
    split; [exact Al|]. intros U. rewrite (Gs (Au U)), E5. apply Rs, U.
  - inversion H; subst. split; [exact Gl|]. intros U. rewrite (Gs U), E5. reflexivity.
Qed.

(** Composite read: if no recorded call of the step failed, the result is
    the one of the completeness theorem, whatever faults were left. *)
Theorem cgfc_complete_unfaulted r d s c s1 : (copying r = true \/ r = RNoop) ->
  cgfc r d s = (c, s1) -> unfaulted (lg s1) = true ->
  c = if memb d (sa s) || memb d (sb s) then 0 else 5.
Proof.
  intros Hr H U. destruct (sim_cgfc _ _ _ _ _ H) as [_ Hs]. specialize (Hs U).
  pose proof (cgfc_complete_copying r d (strip s) Hr eq_refl) as C. rewrite Hs in C. exact C.
Qed.

(** ** A backend failure other than NOT_FOUND always surfaces.

    [hard l]: some recorded call carries an injected fault other than
    NOT_FOUND.  [surf X]: [X] extends the log, and if the part it added
    contains such a call, [X] ends with an error.  Holds for Get and
    GetFromComposite through every replicator stack. *)
Definition hardc (c : call) : bool := negb (c_fault c =? 0) && negb (c_fault c =? 5).
Definition hard (l : list call) : bool := existsb hardc l.

Lemma hard_app l1 l2 : hard (l1 ++ l2) = hard l1 || hard l2.
Proof. apply existsb_app. Qed.

Definition surf (X : st -> Z * st) : Prop :=
  forall s c s1, X s = (c, s1) -> exists l, lg s1 = l ++ lg s /\ (hard l = true -> c <> 0).

(** A single backend call: one log entry; a non-zero fault is the answer. *)
Definition one_call (X : st -> Z * st) : Prop :=
  forall s c s1, X s = (c, s1) -> exists cl, lg s1 = cl :: lg s /\ (c_fault cl <> 0 -> c = c_fault cl).

Lemma record_one b o args s f s1 : record b o args s = (f, s1) -> lg s1 = mkcall b o args f :: lg s.
Proof. unfold record. destruct (fl s); intros H; inversion H; reflexivity. Qed.

Lemma one_bget b d : one_call (bget b d).
Proof.
  intros s c s1 H. unfold bget in H. destruct (record b CGet [d] s) as [f s0] eqn:R.
  apply record_one in R. exists (mkcall b CGet [d] f). cbn [c_fault].
  destruct (f =? 0) eqn:E; inversion H; subst; split; try exact R; intros Hf.
  - apply Z.eqb_eq in E. contradiction.
  - reflexivity.
Qed.

Lemma one_bgfc b d : one_call (bgfc b d).
Proof.
  intros s c s1 H. unfold bgfc in H. destruct (record b CGfc [d] s) as [f s0] eqn:R.
  apply record_one in R. exists (mkcall b CGfc [d] f). cbn [c_fault].
  destruct (f =? 0) eqn:E; inversion H; subst; split; try exact R; intros Hf.
  - apply Z.eqb_eq in E. contradiction.
  - reflexivity.
Qed.

Lemma one_bput b d buf : one_call (bput b d buf).
Proof.
  intros s c s1 H. unfold bput in H. destruct (record b CPut [d] s) as [f s0] eqn:R.
  apply record_one in R. exists (mkcall b CPut [d] f). cbn [c_fault].
  destruct (f =? 0) eqn:E; cbn [negb] in H.
  - apply Z.eqb_eq in E. split; [|intros Hf; contradiction].
    destruct (negb (buf =? 0)); inversion H; subst; [exact R|]. destruct b; exact R.
  - inversion H; subst. split; [exact R|reflexivity].
Qed.

Lemma one_bfm b ds s c m s1 : bfm b ds s = (c, m, s1) ->
  exists cl, lg s1 = cl :: lg s /\ (c_fault cl <> 0 -> c = c_fault cl).
Proof.
  intros H. unfold bfm in H. destruct (record b CFm ds s) as [f s0] eqn:R.
  apply record_one in R. exists (mkcall b CFm ds f). cbn [c_fault].
  destruct (f =? 0) eqn:E; inversion H; subst; split; try exact R; intros Hf.
  - apply Z.eqb_eq in E. contradiction.
  - reflexivity.
Qed.

Lemma hard_one cl : hard [cl] = true -> c_fault cl <> 0 /\ c_fault cl <> 5.
Proof.
  unfold hard, hardc. cbn [existsb]. rewrite orb_false_r. intros H. apply andb_prop in H. destruct H as [H0 H5].
  apply negb_true_iff in H0, H5. apply Z.eqb_neq in H0, H5. split; assumption.
Qed.

(** The answer of a single call whose log entry is hard: that fault. *)
Lemma one_hard X : one_call X -> forall s c s1, X s = (c, s1) ->
  exists cl, lg s1 = [cl] ++ lg s /\ (hard [cl] = true -> c <> 0 /\ c <> 5).
Proof.
  intros HX s c s1 H. destruct (HX _ _ _ H) as (cl & Hl & Hf). exists cl. split; [exact Hl|].
  intros Hh. apply hard_one in Hh. destruct Hh as [H0 H5]. rewrite (Hf H0). split; assumption.
Qed.

Lemma surf_one X : one_call X -> surf X.
Proof.
  intros HX s c s1 H. destruct (one_hard X HX _ _ _ H) as (cl & Hl & Hh). exists [cl]. split; [exact Hl|].
  intros Hd. apply Hh, Hd.
Qed.

Lemma surf_local_multiple ds : surf (local_multiple ds).
Proof.
  induction ds as [|d r IH]; intros s c s1 H; cbn [local_multiple] in H.
  - inversion H; subst. exists []. split; [reflexivity|discriminate].
  - destruct (bget BB d s) as [b s0] eqn:G. destruct (bput BA d b s0) as [c0 s2] eqn:P.
    destruct (one_hard _ (one_bget BB d) _ _ _ G) as (g & Gl & Gh).
    destruct (one_bput BA d b _ _ _ P) as (q & Pl & Pf).
    assert (Hc0 : hard ([q] ++ [g]) = true -> c0 <> 0).
    { rewrite hard_app. intros Hh. apply orb_prop in Hh. destruct Hh as [Hh|Hh].
      - apply hard_one in Hh. destruct Hh as [H0 _]. rewrite (Pf H0). exact H0.
      - destruct (Gh Hh) as [Hb0 _]. intros ->.
        (* Put answered 0: then the buffer was a data buffer *)
        unfold bput in P. destruct (record BA CPut [d] s0) as [f s0']. destruct (negb (f =? 0)) eqn:Ef.
        + inversion P. subst f. discriminate.
        + destruct (negb (b =? 0)) eqn:Eb; [inversion P; contradiction|].
          apply negb_false_iff, Z.eqb_eq in Eb. contradiction. }
    destruct (c0 =? 0) eqn:Ec.
    + apply Z.eqb_eq in Ec. destruct (IH _ _ _ H) as (l & Il & Ih). exists (l ++ [q] ++ [g]).
      split; [rewrite Il, Pl, Gl; cbn [app]; rewrite <- app_assoc; reflexivity|].
      rewrite hard_app. intros Hh. apply orb_prop in Hh. destruct Hh as [Hh|Hh]; [apply Ih, Hh|].
      exfalso. apply (Hc0 Hh Ec).
    + inversion H; subst. exists ([q] ++ [g]). split; [rewrite Pl, Gl; reflexivity|exact Hc0].
Qed.

Lemma surf_seq_nil s : exists l : list call, lg s = l ++ lg s /\ (hard l = true -> 0 <> 0).
Proof. exists []. split; [reflexivity|discriminate]. Qed.

Lemma surf_rmultiple r : forall ds, surf (rmultiple r ds).
Proof.
  induction r as [| |r IH|r IH]; intros ds.
  - apply surf_local_multiple.
  - intros s c s1 H. cbn [rmultiple] in H. inversion H; subst. apply surf_seq_nil.
  - intros s c s1 H. cbn [rmultiple] in H. revert s c s1 H.
    induction ds as [|d rest IHd]; intros s c s1 H.
    + inversion H; subst. apply surf_seq_nil.
    + destruct (bfm BA [d] s) as [[c0 miss] s0] eqn:F.
      destruct (one_bfm _ _ _ _ _ _ F) as (q & Fl & Ff).
      assert (Fh : hard [q] = true -> c0 <> 0).
      { intros Hh. apply hard_one in Hh. destruct Hh as [H0 _]. rewrite (Ff H0). exact H0. }
      destruct (negb (c0 =? 0)) eqn:Ec.
      * inversion H; subst. exists [q]. split; [exact Fl|exact Fh].
      * apply negb_false_iff, Z.eqb_eq in Ec.
        destruct miss as [|x miss'].
        -- destruct (IHd _ _ _ H) as (l & Il & Ih). exists (l ++ [q]).
           split; [rewrite Il, Fl; rewrite <- app_assoc; reflexivity|].
           rewrite hard_app. intros Hh. apply orb_prop in Hh. destruct Hh as [Hh|Hh]; [apply Ih, Hh|].
           exfalso. apply (Fh Hh Ec).
        -- destruct (rmultiple r [d] s0) as [c2 s2] eqn:R.
           destruct (IH _ _ _ _ R) as (l2 & Rl & Rh).
           destruct (c2 =? 0) eqn:Ec2.
           ++ apply Z.eqb_eq in Ec2. destruct (IHd _ _ _ H) as (l & Il & Ih). exists (l ++ l2 ++ [q]).
              split; [rewrite Il, Rl, Fl; rewrite <- !app_assoc; reflexivity|].
              rewrite !hard_app. intros Hh. apply orb_prop in Hh. destruct Hh as [Hh|Hh]; [apply Ih, Hh|].
              apply orb_prop in Hh. destruct Hh as [Hh|Hh]; exfalso; [apply (Rh Hh Ec2)|apply (Fh Hh Ec)].
           ++ apply Z.eqb_neq in Ec2. inversion H; subst. exists (l2 ++ [q]).
              split; [rewrite Rl, Fl; rewrite <- app_assoc; reflexivity|]. intros _. exact Ec2.
  - intros s c s1 H. cbn [rmultiple] in H. apply (IH ds). exact H.
Qed.

(** After the replicator's own ReplicateMultiple, the read-back ([Y], with
    NOT_FOUND rewritten to INTERNAL). *)
Lemma surf_deco r d (Y : st -> Z * st) : one_call Y ->
  surf (fun s => let (c, s1) := rmultiple r [d] s in
                 if c =? 0 then (let (b, s2) := Y s1 in ((if b =? 5 then 13 else b), s2)) else (c, s1)).
Proof.
  intros HY s c s1 H. cbn beta in H. destruct (rmultiple r [d] s) as [c0 s0] eqn:R.
  destruct (surf_rmultiple _ _ _ _ _ R) as (l & Rl & Rh).
  destruct (c0 =? 0) eqn:Ec.
  - apply Z.eqb_eq in Ec. destruct (Y s0) as [b s2] eqn:G. inversion H; subst.
    destruct (one_hard Y HY _ _ _ G) as (q & Gl & Gh). exists ([q] ++ l).
    split; [rewrite Gl, Rl; rewrite <- app_assoc; reflexivity|].
    rewrite hard_app. intros Hh. apply orb_prop in Hh. destruct Hh as [Hh|Hh].
    + destruct (Gh Hh) as [H0 H5]. apply Z.eqb_neq in H5. rewrite H5. exact H0.
    + exfalso. apply (Rh Hh). first [exact Ec|reflexivity].
  - apply Z.eqb_neq in Ec. inversion H; subst. exists l. split; [exact Rl|]. intros _. exact Ec.
Qed.

Lemma surf_rcomposite r d : surf (rcomposite r d).
Proof.
  destruct r; cbn [rcomposite]; unfold sink_gfc_nf.
  - apply (surf_deco RLocal d (bgfc BA d)), one_bgfc.
  - apply surf_one, one_bgfc.
  - apply (surf_deco (RDedup r) d (bgfc BA d)), one_bgfc.
  - apply (surf_deco (RLimit r) d (bgfc BA d)), one_bgfc.
Qed.

Lemma surf_local_single d : surf (local_single d).
Proof.
  intros s c s1 H. unfold local_single in H.
  destruct (bget BB d s) as [b s0] eqn:G. destruct (bput BA d b s0) as [c0 s2] eqn:P.
  destruct (one_hard _ (one_bget BB d) _ _ _ G) as (g & Gl & Gh).
  destruct (one_bput BA d b _ _ _ P) as (q & Pl & Pf).
  exists ([q] ++ [g]). destruct (b =? 0) eqn:Eb; inversion H; subst.
  - split; [rewrite Pl, Gl; reflexivity|]. apply Z.eqb_eq in Eb.
    rewrite hard_app. intros Hh. apply orb_prop in Hh. destruct Hh as [Hh|Hh].
    + apply hard_one in Hh. destruct Hh as [H0 _]. rewrite (Pf H0). exact H0.
    + destruct (Gh Hh) as [Hb0 _]. contradiction.
  - split; [rewrite Pl, Gl; reflexivity|]. intros _. apply Z.eqb_neq in Eb. exact Eb.
Qed.

Lemma surf_rsingle r d : surf (rsingle r d).
Proof.
  destruct r; cbn [rsingle]; unfold sink_get_nf.
  - apply surf_local_single.
  - apply surf_one, one_bget.
  - apply (surf_deco (RDedup r) d (bget BA d)), one_bget.
  - apply (surf_deco (RLimit r) d (bget BA d)), one_bget.
Qed.

(** The composites: first the initial backend ([Y]), on NOT_FOUND the replicator ([X]). *)
Lemma surf_first (Y X : st -> Z * st) : one_call Y -> surf X ->
  surf (fun s => let (b, s1) := Y s in if b =? 5 then X s1 else (b, s1)).
Proof.
  intros HY HX s c s1 H. cbn beta in H. destruct (Y s) as [b s0] eqn:G.
  destruct (one_hard Y HY _ _ _ G) as (q & Gl & Gh).
  destruct (b =? 5) eqn:E5.
  - apply Z.eqb_eq in E5. destruct (HX _ _ _ H) as (l & Xl & Xh). exists (l ++ [q]).
    split; [rewrite Xl, Gl; rewrite <- app_assoc; reflexivity|].
    rewrite hard_app. intros Hh. apply orb_prop in Hh. destruct Hh as [Hh|Hh]; [apply Xh, Hh|].
    destruct (Gh Hh) as [_ H5]. contradiction.
  - inversion H; subst. exists [q]. split; [exact Gl|]. intros Hh. apply (Gh Hh).
Qed.

Theorem cgfc_hard_fault_surfaces r p s c s1 : cgfc r p s = (c, s1) ->
  exists l, lg s1 = l ++ lg s /\ (hard l = true -> c <> 0).
Proof. exact (surf_first (bgfc BA p) (rcomposite r p) (one_bgfc BA p) (surf_rcomposite r p) s c s1). Qed.

Theorem cget_hard_fault_surfaces r d s c s1 : cget r d s = (c, s1) ->
  exists l, lg s1 = l ++ lg s /\ (hard l = true -> c <> 0).
Proof. exact (surf_first (bget BA d) (rsingle r d) (one_bget BA d) (surf_rsingle r d) s c s1). Qed.
