(** C11 — model of pkg/blobstore/mirrored/mirrored_blob_access.go over two
    replicas, with the read path of replication/with_blob_replicator.go and
    the local replicator (replication/local_blob_replicator.go).
    Definitions only.

    Replicas are abstract maps (digest id -> content id).  Every call on a
    replica is answered under an environment-chosen [oracle]: 0 = the natural
    answer for the replica's contents (a lookup of an absent object answers
    NOT_FOUND), c <> 0 = the call fails with gRPC code c (c = 5 is an injected
    NOT_FOUND: the replica claims not to hold the object, e.g. because it lost
    it between two calls).  Within one mirrored operation every (replica,
    kind, digest) call happens at most once, so the oracle is keyed by that
    triple; a history supplies a fresh oracle per operation. *)
From BBS Require Import Common.Sx Common.ListX.

Inductive rid := RA | RB.
Inductive kind := KGet | KPut | KFM | KCap.
Definition call := (rid * kind * nat)%type.
Definition oracle := rid -> kind -> nat -> Z.

Definition other (r : rid) : rid := match r with RA => RB | RB => RA end.
Definition rid_eqb (a b : rid) : bool :=
  match a, b with RA, RA | RB, RB => true | _, _ => false end.
Definition kind_eqb (a b : kind) : bool :=
  match a, b with KGet, KGet | KPut, KPut | KFM, KFM | KCap, KCap => true | _, _ => false end.

Definition NF : Z := 5.        (* codes.NotFound *)
Definition INTERNAL : Z := 13. (* codes.Internal *)

(** * Replicas *)
Definition store := list (nat * nat).
Fixpoint lookup (s : store) (d : nat) : option nat :=
  match s with
  | [] => None
  | (k, v) :: t => if Nat.eqb k d then Some v else lookup t d
  end.
Definition upd (s : store) (d x : nat) : store := (d, x) :: s.
Definition absent (s : store) (d : nat) : bool :=
  match lookup s d with None => true | Some _ => false end.

(** What a replica's [Get] hands back: a buffer that yields the content, or
    an error buffer (code, replica whose answer it is). *)
Inductive bufr := BData (x : nat) | BErr (c : Z) (og : rid).

Definition rget (o : oracle) (r : rid) (s : store) (d : nat) : bufr :=
  let c := o r KGet d in
  if c =? 0 then match lookup s d with Some x => BData x | None => BErr NF r end
  else BErr c r.

(** [Put]: a replica that fails does so before consuming the buffer; one that
    does not fail stores the content, or returns the buffer's own error. *)
Definition rput (o : oracle) (r : rid) (s : store) (d : nat) (b : bufr)
  : store * option (Z * rid) :=
  let c := o r KPut d in
  if c =? 0 then match b with BData x => (upd s d x, None) | BErr e og => (s, Some (e, og)) end
  else (s, Some (c, r)).

Definition rfm (o : oracle) (r : rid) (s : store) (ds : list nat) : (Z * rid) + list nat :=
  let c := o r KFM 0%nat in
  if c =? 0 then inr (filter (absent s) ds) else inl (c, r).

(** * Errors as the caller sees them: code, which replica the message names
    (and how), and whose answer it carries. *)
Inductive etag :=
| TNone                (* no replica named: both answered NOT_FOUND *)
| TBackend (r : rid)   (* "Backend A: ..." *)
| TSync (from : rid)   (* "Failed to synchronize from backend A to backend B: ..." *)
| TIncons (r : rid).   (* "Backend A returned inconsistent results while synchronizing: ..." *)
Record err := mkerr { ecode : Z; etag_of : etag; eorigin : rid }.

Record result := mkres {
  okv : list nat;       (* Get: [content]; FindMissing: missing digests; else [] *)
  errs : list err;      (* [] = success; several = any one of them (errgroup) *)
  calls : list call     (* replica calls made *)
}.

Record mstate := mkst { sA : store; sB : store; rnd : nat }.
Definition sto (st : mstate) (r : rid) : store := match r with RA => sA st | RB => sB st end.
Definition set_sto (st : mstate) (r : rid) (s : store) : mstate :=
  match r with RA => mkst s (sB st) (rnd st) | RB => mkst (sA st) s (rnd st) end.
Definition set_rnd (st : mstate) (n : nat) : mstate := mkst (sA st) (sB st) n.

(** [ba.round.Add(1)%2 == 1] selects A.  (The counter is a uint32; 2^32 is
    even, so wrap-around preserves the parity of the mathematical count.) *)
Definition first_of (n : nat) : rid := if Nat.odd n then RA else RB.

(** The selector of [getBlobReplicatorSelector]: an error other than
    NOT_FOUND gets the name of the backend whose stage produced it; a
    NOT_FOUND on the second stage is returned in original form. *)
Definition sel_wrap (name : rid) (e : Z * rid) : err :=
  if fst e =? NF then mkerr NF TNone (snd e) else mkerr (fst e) (TBackend name) (snd e).

(** * Get: first replica, then once the replicator other->first
    ([ReplicateSingle]: read source, clone, put sink in a task, stream). *)
Definition m_get (o : oracle) (st : mstate) (d : nat) : mstate * result :=
  let n := S (rnd st) in
  let F := first_of n in
  let S' := other F in
  let st1 := set_rnd st n in
  match rget o F (sto st F) d with
  | BData x => (st1, mkres [x] [] [(F, KGet, d)])
  | BErr c og =>
      if c =? NF then
        match rget o S' (sto st S') d with
        | BErr c2 og2 =>
            (* errorBuffer.WithTask runs sink.Put(error buffer) in the
               foreground and discards its outcome *)
            (st1, mkres [] [sel_wrap S' (c2, og2)] [(F, KGet, d); (S', KGet, d); (F, KPut, d)])
        | BData x =>
            match rput o F (sto st F) d (BData x) with
            | (s', None) =>
                (set_sto st1 F s', mkres [x] [] [(F, KGet, d); (S', KGet, d); (F, KPut, d)])
            | (_, Some e) =>
                (* "Replication failed" comes back through the same selector,
                   which by now names the second backend *)
                (st1, mkres [] [sel_wrap S' e] [(F, KGet, d); (S', KGet, d); (F, KPut, d)])
            end
        end
      else (st1, mkres [] [mkerr c (TBackend F) og] [(F, KGet, d)])
  end.

(** * Put: both replicas, each branch touching its own replica only. *)
Definition put_branch (o : oracle) (r : rid) (d x : nat) (st : mstate) : mstate * list err :=
  match rput o r (sto st r) d (BData x) with
  | (s', None) => (set_sto st r s', [])
  | (s', Some e) => (set_sto st r s', [mkerr (fst e) (TBackend r) (snd e)])
  end.

Definition m_put (o : oracle) (st : mstate) (d x : nat) : mstate * result :=
  let '(st1, ea) := put_branch o RA d x st in
  let '(st2, eb) := put_branch o RB d x st1 in
  (st2, mkres [] (ea ++ eb) [(RA, KPut, d); (RB, KPut, d)]).

(** * FindMissing *)

(** [digest.GetDifferenceAndIntersection]: a merge of two sorted lists. *)
Fixpoint diff_inter (a b : list nat) : list nat * list nat * list nat :=
  match a with
  | [] => ([], [], b)
  | x :: a' =>
      (fix go (b : list nat) : list nat * list nat * list nat :=
         match b with
         | [] => (a, [], [])
         | y :: b' =>
             if Nat.ltb x y then
               let '(oa, bo, ob) := diff_inter a' b in (x :: oa, bo, ob)
             else if Nat.eqb x y then
               let '(oa, bo, ob) := diff_inter a' b' in (oa, x :: bo, ob)
             else
               let '(oa, bo, ob) := go b' in (oa, bo, y :: ob)
         end) b
  end.

(** [localBlobReplicator.ReplicateMultiple]: for each digest in set order,
    [sink.Put(d, source.Get(d))]; stops at the first error. *)
Fixpoint repl_multi (o : oracle) (src dst : rid) (st : mstate) (ds : list nat)
  : mstate * option (Z * rid) * list call :=
  match ds with
  | [] => (st, None, [])
  | d :: t =>
      let b := rget o src (sto st src) d in
      match rput o dst (sto st dst) d b with
      | (s', None) =>
          let '(st', e, cs) := repl_multi o src dst (set_sto st dst s') t in
          (st', e, (src, KGet, d) :: (dst, KPut, d) :: cs)
      | (_, Some e) => (st, Some e, [(src, KGet, d); (dst, KPut, d)])
      end
  end.

Definition sync_wrap (src : rid) (e : Z * rid) : err :=
  if fst e =? NF then mkerr INTERNAL (TIncons src) (snd e) else mkerr (fst e) (TSync src) (snd e).

Definition opt_list {T} (o : option T) : list T := match o with None => [] | Some x => [x] end.
Definition fm_err (r : rid) (x : (Z * rid) + list nat) : list err :=
  match x with inl e => [mkerr (fst e) (TBackend r) (snd e)] | inr _ => [] end.
Definition is_nil {T} (l : list T) : bool := match l with [] => true | _ => false end.

Definition m_fm (o : oracle) (st : mstate) (ds0 : list nat) : mstate * result :=
  let ds := dedup_sort ds0 in
  let cs := [(RA, KFM, 0%nat); (RB, KFM, 0%nat)] in
  match rfm o RA (sA st) ds, rfm o RB (sB st) ds with
  | inr ma, inr mb =>
      let '(mfA, both, mfB) := diff_inter ma mb in
      (* the two replications run concurrently on disjoint digests; the model
         runs A->B first (see [fm_branches_commute]) *)
      let '(st1, e1, c1) := repl_multi o RA RB st mfB in
      let '(st2, e2, c2) := repl_multi o RB RA st1 mfA in
      let es := opt_list (option_map (sync_wrap RA) e1) ++ opt_list (option_map (sync_wrap RB) e2) in
      (st2, mkres (if is_nil es then both else []) es (cs ++ c1 ++ c2))
  | ra, rb => (st, mkres [] (fm_err RA ra ++ fm_err RB rb) cs)
  end.

(** * GetCapabilities: alternates too, one replica only. *)
Definition m_cap (o : oracle) (st : mstate) : mstate * result :=
  let n := S (rnd st) in
  let F := first_of n in
  let c := o F KCap 0%nat in
  (set_rnd st n, mkres [] (if c =? 0 then [] else [mkerr c (TBackend F) F]) [(F, KCap, 0%nat)]).

(** * Histories *)
Inductive op := OGet (d : nat) | OPut (d x : nat) | OFM (ds : list nat) | OCap.

Definition step (o : oracle) (st : mstate) (p : op) : mstate * result :=
  match p with
  | OGet d => m_get o st d
  | OPut d x => m_put o st d x
  | OFM ds => m_fm o st ds
  | OCap => m_cap o st
  end.

Fixpoint run (st : mstate) (h : list (oracle * op)) : mstate * list result :=
  match h with
  | [] => (st, [])
  | (o, p) :: t =>
      let '(st1, r) := step o st p in
      let '(st2, rs) := run st1 t in
      (st2, r :: rs)
  end.

Definition no_faults (o : oracle) : Prop := forall r k d, o r k d = 0.
(** An oracle is well-formed when NOT_FOUND is only ever the answer of a
    lookup (uploads, existence checks and capability calls fail with other
    codes). *)
Definition wf_oracle (o : oracle) : Prop := forall r k d, k <> KGet -> o r k d <> NF.

(** * The property as a decidable check on one observed operation
    (the monitor; it does not use [m_get]/[m_put]/[m_fm]).  [n] bounds the
    digest ids looked at; [pa pb]/[qa qb] are the replica contents before and
    after; [r] is the observed result ([errs r] has at most one element). *)
Definition bump_op (p : op) : bool := match p with OFM _ | OPut _ _ => false | _ => true end.
Definition opt_eqb (a b : option nat) : bool :=
  match a, b with
  | None, None => true
  | Some x, Some y => Nat.eqb x y
  | _, _ => false
  end.
Definition present (s : store) (d : nat) : bool := negb (absent s d).
Fixpoint list_nat_eqb (a b : list nat) : bool :=
  match a, b with
  | [], [] => true
  | x :: a', y :: b' => Nat.eqb x y && list_nat_eqb a' b'
  | _, _ => false
  end.
Definition call_eqb (a b : call) : bool :=
  let '(r1, k1, d1) := a in let '(r2, k2, d2) := b in
  rid_eqb r1 r2 && kind_eqb k1 k2 && Nat.eqb d1 d2.
Definition ocall (o : oracle) (c : call) : Z := let '(r, k, d) := c in o r k d.
Definition first_called (cs : list call) : rid :=
  match cs with (r, _, _) :: _ => r | [] => RA end.
Definition answers_nf (o : oracle) (r : rid) (s : store) (d : nat) : bool :=
  (o r KGet d =? NF) || ((o r KGet d =? 0) && absent s d).
Definition tag_names (t : etag) : bool := match t with TNone => false | _ => true end.
Definition wf_on (o : oracle) (cs : list call) : bool :=
  forallb (fun c => let '(r, k, d) := c in kind_eqb k KGet || negb (o r k d =? NF)) cs.

Definition flag (b : bool) (id : Z) : list Z := if b then [] else [id].

Definition check_op (n : nat) (o : oracle) (pa pb : store) (p : op) (r : result) (qa qb : store)
  : list Z :=
  let ok := is_nil (errs r) in
  let ds := seq 0 n in
  let pre x := match x with RA => pa | RB => pb end in
  let post x := match x with RA => qa | RB => qb end in
  (* 1: nothing is lost or altered except by an upload of that object; an
        object appears in a replica only through an upload, or as a copy of
        what the other replica held (read repair: in the first-consulted one,
        which lacked it or answered NOT_FOUND; existence check: requested
        objects) *)
  flag (forallb (fun d => forallb (fun x =>
          match p with
          | OPut d' v => if Nat.eqb d d' then opt_eqb (lookup (post x) d) (lookup (pre x) d)
                                             || opt_eqb (lookup (post x) d) (Some v)
                         else opt_eqb (lookup (post x) d) (lookup (pre x) d)
          | OGet d' => opt_eqb (lookup (post x) d) (lookup (pre x) d)
                       || (Nat.eqb d d' && (absent (pre x) d || (o x KGet d =? NF))
                           && rid_eqb x (first_called (calls r))
                           && present (pre (other x)) d
                           && opt_eqb (lookup (post x) d) (lookup (pre (other x)) d))
          | OFM l => opt_eqb (lookup (post x) d) (lookup (pre x) d)
                     || (existsb (Nat.eqb d) l && absent (pre x) d && present (pre (other x)) d
                         && opt_eqb (lookup (post x) d) (lookup (pre (other x)) d))
          | OCap => opt_eqb (lookup (post x) d) (lookup (pre x) d)
          end) [RA; RB]) ds) 1 ++
  match p with
  | OPut d v =>
      (* 2: a successful upload is present in both replicas *)
      flag (negb ok || (opt_eqb (lookup qa d) (Some v) && opt_eqb (lookup qb d) (Some v))) 2
  | OGet d =>
      let F := first_called (calls r) in
      (* 3: a successful read returns what a replica held, and afterwards the
            first-consulted replica holds it *)
      flag (negb ok || match okv r with
                       | [v] => (opt_eqb (lookup pa d) (Some v) || opt_eqb (lookup pb d) (Some v))
                                && opt_eqb (lookup (post F) d) (Some v)
                       | _ => false
                       end) 3 ++
      (* 4: absent faults, the read succeeds iff at least one replica holds it *)
      flag (negb (forallb (fun c => ocall o c =? 0) [(RA, KGet, d); (RB, KGet, d); (RA, KPut, d); (RB, KPut, d)])
            || Bool.eqb ok (present pa d || present pb d)) 4
  | OFM l =>
      let l' := dedup_sort l in
      (* 5: a successful existence check reports exactly the objects both
            lack, and has copied every requested object held by one to the other *)
      flag (negb ok ||
            (list_nat_eqb (okv r) (filter (fun d => absent pa d && absent pb d) l')
             && forallb (fun d => Bool.eqb (present qa d) (present qb d)
                                  && (absent pa d || opt_eqb (lookup qa d) (lookup pa d))
                                  && (absent pb d || opt_eqb (lookup qb d) (lookup pb d))
                                  && (present pa d || absent pb d || opt_eqb (lookup qa d) (lookup pb d))
                                  && (present pb d || absent pa d || opt_eqb (lookup qb d) (lookup pa d))) l')) 5 ++
      (* 6: absent faults it succeeds *)
      flag (negb (forallb (fun c => ocall o c =? 0)
                    ([(RA, KFM, 0%nat); (RB, KFM, 0%nat)] ++
                     flat_map (fun d => [(RA, KGet, d); (RB, KGet, d); (RA, KPut, d); (RB, KPut, d)]) l'))
            || ok) 6
  | OCap => []
  end ++
  (* 7: success only if no call made was answered with a failure (an
        answer NOT_FOUND to a lookup is not a failure) *)
  flag (negb ok || forallb (fun c => (ocall o c =? 0)
                                      || (kind_eqb (snd (fst c)) KGet && (ocall o c =? NF))) (calls r)) 7 ++
  (* 8: NOT_FOUND is reported only by a read to which both replicas answered
        NOT_FOUND (for well-formed oracles) *)
  flag (forallb (fun e => negb (ecode e =? NF) || negb (wf_on o (calls r))
                          || match p with
                             | OGet d => answers_nf o RA pa d && answers_nf o RB pb d
                             | _ => false
                             end) (errs r)) 8 ++
  (* 9: every other error names a replica *)
  flag (forallb (fun e => (ecode e =? NF) || tag_names (etag_of e)) (errs r)) 9.

(** History-level clause 10: the replica consulted first alternates, starting
    with A ([k] = number of alternating operations so far). *)
Definition check_alt (k : nat) (p : op) (r : result) : list Z :=
  if bump_op p then flag (rid_eqb (first_called (calls r)) (first_of (S k))) 10 else [].
