(** C17L: theorems about the extended system of Compose/ReplEntry.v.

    1. Every run of the extended system projects to a run of the
       ReplicateMultiple system, so the bounds proved there carry over to any
       mix of entry points.
    2. Semaphore accounting of the limiter: in every reachable state the number
       of permits in use equals the number of callers holding one, the FIFO
       holds exactly the callers that wait, and somebody waits only while all
       permits are in use.  Hence every path releases.
    3. Results of the single-object entry points. *)
From Coq Require Import List ZArith NArith Bool Arith Lia.
From BBS Require Import Common.ListX Compose.ExistenceCache Compose.ExistenceCacheProofs
  Compose.Replicators Compose.ReplicatorsProofs Compose.MonSilentRepl Compose.ReplEntry.
Import ListNotations.
Local Open Scope nat_scope.

(** * 1. Projection *)
Lemma xstep_base kinds m x e x' : xstep kinds m x e = Some x' ->
  xb x' = xb x \/ step m (xb x) e = Some (xb x').
Proof.
  unfold xstep, lift. intros H.
  destruct e as [i|i f|i|dt|i alt];
    try (destruct (step m (xb x) _) as [b|] eqn:E; [inversion H; subst; right; reflexivity|discriminate]).
  destruct (reading kinds x i) as [d|].
  - inversion H; subst. left. reflexivity.
  - destruct (step m (xb x) (ERel i f)) as [b|] eqn:E; [inversion H; subst; right; reflexivity|discriminate].
Qed.

Lemma xrun_base kinds m tr : forall x x', xrun kinds m x tr = Some x' ->
  exists tr', run m (xb x) tr' = Some (xb x').
Proof.
  induction tr as [|e r IH]; intros x x' H; cbn [xrun] in H.
  - inversion H; subst. exists []. reflexivity.
  - destruct (xstep kinds m x e) as [x1|] eqn:E; [|discriminate].
    destruct (IH _ _ H) as [tr' Htr']. destruct (xstep_base _ _ _ _ _ E) as [Eq|St].
    + exists tr'. rewrite <- Eq. exact Htr'.
    + exists (e :: tr'). cbn [run]. rewrite St. exact Htr'.
Qed.

Lemma xrun_inv kinds m (P : xstate -> Prop) :
  (forall x e x', P x -> xstep kinds m x e = Some x' -> P x') ->
  forall tr x x', P x -> xrun kinds m x tr = Some x' -> P x'.
Proof.
  intros Hstep. induction tr as [|e r IH]; intros x x' Hx H; cbn [xrun] in H.
  - inversion H; subst. exact Hx.
  - destruct (xstep kinds m x e) as [x1|] eqn:E; [|discriminate]. eapply IH; [|exact H]. eapply Hstep; eassumption.
Qed.

(** Bounds for any mix of entry points. *)
Theorem mix_limit_bound lim kinds sets source sink tr x :
  xrun kinds (MLimit lim) (xinit kinds sets source sink) tr = Some x ->
  copies (xb x) <= lim /\ maxall (xb x) <= lim.
Proof.
  intros H. destruct (xrun_base _ _ _ _ _ H) as [tr' Htr']. unfold xinit in Htr'. cbn [xb] in Htr'. split.
  - eapply limit_at_most_k_copies; exact Htr'.
  - exact (maxima_bounded (MLimit lim) _ _ _ _ _ Htr').
Qed.

Theorem mix_dedup_bound kinds sets source sink tr x :
  xrun kinds MDedup (xinit kinds sets source sink) tr = Some x ->
  (forall k, copies_of k (xb x) <= 1) /\ maxkey (xb x) <= 1.
Proof.
  intros H. destruct (xrun_base _ _ _ _ _ H) as [tr' Htr']. unfold xinit in Htr'. cbn [xb] in Htr'. split.
  - eapply dedup_one_copy_per_key; exact Htr'.
  - exact (maxima_bounded MDedup _ _ _ _ _ Htr').
Qed.

(** * 2. Semaphore accounting *)
Definition wait_at (s : cstate) (j : nat) : Prop :=
  exists tj, nth_error (thr s) j = Some tj /\ tpc tj = WaitSem.

Record pre (lim : nat) (s : cstate) : Prop := mkpre {
  p_cnt : count holder (thr s) = cur s;
  p_nd : NoDup (semq s);
  p_q : forall j, In j (semq s) <-> wait_at s j;
  p_le : cur s <= lim }.

Definition rinv (lim : nat) (s : cstate) : Prop := pre lim s /\ (semq s <> [] -> lim <= cur s).

Lemma NoDup_snoc {T} (l : list T) x : NoDup l -> ~ In x l -> NoDup (l ++ [x]).
Proof.
  induction l as [|h t IH]; intros N Hn; cbn.
  - constructor; [intros []|constructor].
  - inversion N; subst. constructor.
    + rewrite in_app_iff. cbn. intros [H|[H|[]]]; [tauto|subst; apply Hn; left; reflexivity].
    + apply IH; [assumption|]. intros H. apply Hn. right. exact H.
Qed.

Lemma holders_count s : holders s = count holder (thr s).
Proof. reflexivity. Qed.

Lemma wait_at_upd s s' i t x j : nth_error (thr s) i = Some t -> thr s' = upd i x (thr s) ->
  (wait_at s' j <-> (j = i /\ tpc x = WaitSem) \/ (j <> i /\ wait_at s j)).
Proof.
  intros Hi Hthr. unfold wait_at. rewrite Hthr. split.
  - intros (tj & Hj & Hw). apply nth_error_upd_inv in Hj. destruct Hj as [[-> ->]|[Hn Hj]].
    + left. split; [reflexivity|exact Hw].
    + right. split; [exact Hn|]. exists tj. split; assumption.
  - intros [[-> Hw]|[Hn (tj & Hj & Hw)]].
    + exists x. split; [eapply nth_error_upd_eq; exact Hi|exact Hw].
    + exists tj. split; [|exact Hw]. rewrite nth_error_upd_neq by congruence. exact Hj.
Qed.

Lemma wait_at_upd_nowait s i t x j : nth_error (thr s) i = Some t -> tpc t <> WaitSem -> tpc x <> WaitSem ->
  forall s', thr s' = upd i x (thr s) -> (wait_at s' j <-> wait_at s j).
Proof.
  intros Hi Hw Hx s' Hthr. rewrite (wait_at_upd s s' i t x j Hi Hthr).
  assert (Wi : wait_at s i -> tpc t = WaitSem) by (intros (tj & Hj & Hwj); congruence).
  destruct (Nat.eq_dec j i) as [->|Hne]; [|tauto].
  split; [intros [[_ H]|[H _]]; [contradiction|congruence]|intros H; apply Wi in H; contradiction].
Qed.

Lemma pre_upd lim s s' i t x :
  pre lim s -> nth_error (thr s) i = Some t -> thr s' = upd i x (thr s) ->
  cur s' + b2n (holder t) = cur s + b2n (holder x) -> cur s' <= lim ->
  ( (semq s' = semq s /\ (tpc t = WaitSem <-> tpc x = WaitSem))
    \/ (semq s' = semq s ++ [i] /\ tpc t <> WaitSem /\ tpc x = WaitSem)
    \/ (semq s' = remove_nat i (semq s) /\ tpc x <> WaitSem) ) ->
  pre lim s'.
Proof.
  intros [C N Q Le] Hi Hthr Hcur Hle Hq.
  assert (Wi : wait_at s i <-> tpc t = WaitSem).
  { unfold wait_at. split; [intros (tj & Hj & Hw); congruence|intros Hw; exists t; split; assumption]. }
  constructor.
  - rewrite Hthr. pose proof (count_upd holder i x (thr s) t Hi) as K. lia.
  - destruct Hq as [[E _]|[[E [Hn _]]|[E _]]]; rewrite E.
    + exact N.
    + apply NoDup_snoc; [exact N|]. rewrite Q, Wi. exact Hn.
    + apply remove_nat_nodup, N.
  - intros j. rewrite (wait_at_upd s s' i t x j Hi Hthr).
    destruct Hq as [[E Hw]|[[E [Hn Hw]]|[E Hw]]]; rewrite E.
    + rewrite Q. destruct (Nat.eq_dec j i) as [->|Hne]; [rewrite Wi; tauto|tauto].
    + rewrite in_app_iff, Q. cbn [In]. destruct (Nat.eq_dec j i) as [->|Hne]; [tauto|].
      split; [intros [H|[H|[]]]; [tauto|congruence]|intros [[H _]|[_ H]]; [congruence|tauto]].
    + rewrite remove_nat_in, Q. tauto.
  - exact Hle.
Qed.

Lemma notify_rinv lim : forall fuel s, pre lim s -> length (semq s) < fuel -> rinv lim (notify fuel lim s).
Proof.
  induction fuel as [|f IH]; intros s P Hf; [lia|]. cbn [notify].
  destruct (semq s) as [|j q'] eqn:Eq.
  - split; [exact P|]. rewrite Eq. intros H. congruence.
  - destruct (Nat.ltb (cur s) lim) eqn:E.
    + apply Nat.ltb_lt in E.
      assert (Wj : wait_at s j) by (apply (p_q _ _ P); rewrite Eq; left; reflexivity).
      destruct Wj as (tj & Hj & Hw). rewrite Hj.
      assert (Nq : ~ In j q') by (pose proof (p_nd _ _ P) as N; rewrite Eq in N; inversion N; assumption).
      apply IH; [|cbn [semq]; cbn [length] in Hf; lia].
      eapply (pre_upd lim s _ j tj (mkthr Granted (todo tj) (cancelled tj) (bset tj)) P Hj); cbn [thr cur semq]; [reflexivity| | |].
      * unfold holder at 1 2. cbn [tpc]. rewrite Hw. cbn [b2n]. lia.
      * lia.
      * right. right. split; [|cbn [tpc]; discriminate].
        rewrite Eq. cbn [remove_nat]. rewrite Nat.eqb_refl. symmetry. apply remove_nat_notin, Nq.
    + apply Nat.ltb_ge in E. split; [exact P|]. intros _. exact E.
Qed.

Lemma sem_release_rinv lim s :
  count holder (thr s) + 1 = cur s -> NoDup (semq s) -> (forall j, In j (semq s) <-> wait_at s j) -> cur s <= lim ->
  rinv lim (sem_release lim s).
Proof.
  intros C N Q Le. unfold sem_release. apply notify_rinv; [|cbn [semq]; lia].
  constructor; cbn [thr cur semq]; [lia|exact N|exact Q|lia].
Qed.

(** Thread i goes from t to x; permits in use and the FIFO do not change. *)
Lemma rinv_plain lim s s' i t x :
  rinv lim s -> nth_error (thr s) i = Some t -> thr s' = upd i x (thr s) -> cur s' = cur s -> semq s' = semq s ->
  holder x = holder t -> (tpc t = WaitSem <-> tpc x = WaitSem) -> rinv lim s'.
Proof.
  intros [P R] Hi Hthr Hc Hq Hh Hw. split.
  - eapply (pre_upd lim s s' i t x P Hi Hthr); [rewrite Hc, Hh; reflexivity|rewrite Hc; apply (p_le _ _ P)|left; split; assumption].
  - rewrite Hq, Hc. exact R.
Qed.

(** Caller i, which held a permit, gives it back and becomes x. *)
Lemma rinv_release lim s s0 i t x :
  pre lim s -> nth_error (thr s) i = Some t -> holder t = true -> holder x = false -> tpc x <> WaitSem ->
  thr s0 = upd i x (thr s) -> cur s0 = cur s -> semq s0 = semq s ->
  rinv lim (sem_release lim s0).
Proof.
  intros P Hi Hh Hx Hxw E1 E2 E3.
  assert (Hw : tpc t <> WaitSem) by (intros W; unfold holder in Hh; rewrite W in Hh; discriminate).
  pose proof (p_cnt _ _ P) as C. pose proof (count_upd holder i x (thr s) t Hi) as K.
  rewrite Hh, Hx in K. cbn [b2n] in K.
  apply sem_release_rinv; rewrite ?E1, ?E2, ?E3.
  - lia.
  - apply (p_nd _ _ P).
  - intros j. rewrite (p_q _ _ P j). symmetry. exact (wait_at_upd_nowait s i t x j Hi Hw Hxw s0 E1).
  - apply (p_le _ _ P).
Qed.

Lemma rinv_finish lim s s0 i t e d c :
  pre lim s -> nth_error (thr s) i = Some t -> holder t = true ->
  thr s0 = thr s -> cur s0 = cur s -> semq s0 = semq s ->
  rinv lim (finish_base (MLimit lim) i t e d c s0).
Proof.
  intros P Hi Hh E1 E2 E3. cbn [finish_base].
  eapply (rinv_release lim s _ i t (mkthr (Done c) (todo t) (cancelled t) None) P Hi Hh); cbn [thr cur semq set_thr tpc];
    [reflexivity|discriminate|rewrite E1; reflexivity|exact E2|exact E3].
Qed.

Lemma rinv_same lim s s' : rinv lim s -> thr s' = thr s -> cur s' = cur s -> semq s' = semq s -> rinv lim s'.
Proof.
  intros [[C N Q Le] R] E1 E2 E3. split; [constructor|]; rewrite ?E1, ?E2, ?E3; try assumption.
  intros j. rewrite (Q j). unfold wait_at. rewrite E1. tauto.
Qed.

Lemma length_remove_nat d l : length (remove_nat d l) <= length l.
Proof. induction l as [|h t IH]; cbn; [lia|]. destruct (Nat.eqb d h); cbn; lia. Qed.

(** Caller i, not queued, enters the base replicator with a permit. *)
Lemma rinv_begin lim s s0 i t ds :
  pre lim s -> nth_error (thr s) i = Some t -> tpc t <> WaitSem ->
  thr s0 = thr s -> semq s0 = semq s -> cur s0 + b2n (holder t) = cur s + 1 -> cur s0 <= lim ->
  (semq s <> [] -> lim <= cur s0) ->
  rinv lim (begin_base (MLimit lim) i t ds 0 0 s0).
Proof.
  intros P Hi Hw E1 E3 E2 Le R. unfold begin_base. destruct ds as [|d rest].
  - cbn [finish_base]. apply sem_release_rinv; cbn [thr cur semq set_thr note_max todo cancelled]; rewrite ?E1, ?E3, ?upd_upd.
    + set (x := mkthr (Done 0) (todo t) (cancelled t) None).
      pose proof (count_upd holder i x (thr s) t Hi) as K. assert (Hx : holder x = false) by reflexivity.
      rewrite Hx in K. cbn [b2n] in K. pose proof (p_cnt _ _ P). lia.
    + apply (p_nd _ _ P).
    + intros j. rewrite (p_q _ _ P j). symmetry.
      eapply (wait_at_upd_nowait s i t _ j Hi Hw); [|unfold set_thr, note_max; cbn [thr]; rewrite E1, upd_upd; reflexivity]. cbn [tpc]. discriminate.
    + exact Le.
  - set (x := mkthr (Get d rest 0) (todo t) (cancelled t) (Some (d :: rest))).
    split.
    + eapply (pre_upd lim s _ i t x P Hi); cbn [thr cur semq set_thr note_max todo cancelled]; rewrite ?E1, ?E3, ?upd_upd; [reflexivity| |exact Le|].
      * assert (Hx : holder x = true) by reflexivity. rewrite Hx. cbn [b2n]. lia.
      * left. split; [reflexivity|]. split; [intros W; contradiction|cbn [x tpc]; discriminate].
    + cbn [thr cur semq set_thr note_max todo cancelled]. rewrite E3. exact R.
Qed.

Ltac plain I i t Ht Hp :=
  eapply (rinv_plain _ _ _ i t _ I Ht); cbn [thr cur semq set_pc set_thr set_ent];
  [reflexivity|reflexivity|reflexivity
  |unfold holder; cbn [tpc]; rewrite Hp; reflexivity
  |rewrite Hp; cbn [tpc]; split; intros X; discriminate X].

Lemma holder_next_after_key t : holder (next_after_key t) = false /\ tpc (next_after_key t) <> WaitSem.
Proof. unfold next_after_key. destruct (todo t) as [|? [|? ?]]; cbn; split; try reflexivity; discriminate. Qed.

Local Opaque notify.
Lemma limit_step_rinv lim s e s' : rinv lim s -> step (MLimit lim) s e = Some s' -> rinv lim s'.
Proof.
  intros I H. pose proof I as [P R]. destruct e as [i|i f|i|dt|i alt]; cbn [step] in H.
  - (* EStart *)
    destruct (nth_error (thr s) i) as [t|] eqn:Ht; [|discriminate].
    destruct (tpc t) eqn:Hp; try discriminate. inversion H; subst; clear H. plain I i t Ht Hp.
  - (* ERel *)
    destruct (nth_error (thr s) i) as [t|] eqn:Ht; [|discriminate].
    destruct (tpc t) eqn:Hp; try discriminate.
    + inversion H; subst; clear H. plain I i t Ht Hp.
    + assert (Hh : holder t = true) by (unfold holder; rewrite Hp; reflexivity).
      destruct ((if negb (f =? 0)%Z then f else b) =? 0)%Z.
      * destruct rest as [|d' rest']; inversion H; subst; clear H.
        -- apply (rinv_finish lim s _ i t e d 0%Z P Ht Hh); reflexivity.
        -- eapply (rinv_plain _ _ _ i t _ I Ht); cbn [thr cur semq set_pc set_thr];
             [reflexivity|reflexivity|reflexivity|unfold holder; cbn [tpc]; rewrite Hp; reflexivity
             |rewrite Hp; cbn [tpc]; split; intros X; discriminate X].
      * inversion H; subst; clear H. apply (rinv_finish lim s _ i t e d _ P Ht Hh); reflexivity.
  - (* ECancel *)
    destruct (nth_error (thr s) i) as [t|] eqn:Ht; [|discriminate].
    destruct (cancelled t); [discriminate|]. inversion H; subst; clear H.
    eapply (rinv_plain _ _ _ i t _ I Ht); cbn [thr cur semq set_thr]; [reflexivity|reflexivity|reflexivity|reflexivity|cbn [tpc]; tauto].
  - (* EAdv *)
    inversion H; subst; clear H. apply (rinv_same lim s _ I); reflexivity.
  - (* ETau *)
    destruct (nth_error (thr s) i) as [t|] eqn:Ht; [|discriminate].
    destruct (tpc t) eqn:Hp; destruct alt; try discriminate.
    + (* Idle *)
      assert (Hnw : tpc t <> WaitSem) by (rewrite Hp; discriminate).
      assert (Hh : holder t = false) by (unfold holder; rewrite Hp; reflexivity).
      destruct (cancelled t).
      * inversion H; subst; clear H. plain I i t Ht Hp.
      * destruct (Nat.ltb (cur s) lim && match semq s with [] => true | _ => false end) eqn:E.
        -- inversion H; subst; clear H. apply andb_prop in E. destruct E as [E1 E2]. apply Nat.ltb_lt in E1.
           apply (rinv_begin lim s _ i t (todo t) P Ht Hnw); cbn [thr cur semq]; [reflexivity|reflexivity|rewrite Hh; cbn [b2n]; lia|lia|].
           destruct (semq s); [intros X; contradiction|discriminate].
        -- inversion H; subst; clear H. split.
           ++ eapply (pre_upd lim s _ i t _ P Ht); cbn [thr cur semq set_pc set_thr]; [reflexivity| |apply (p_le _ _ P)|].
              ** rewrite Hh. reflexivity.
              ** right. left. split; [reflexivity|]. split; [exact Hnw|reflexivity].
           ++ cbn [cur semq set_pc set_thr]. intros _. apply andb_false_iff in E. destruct E as [E|E].
              ** apply Nat.ltb_ge in E. exact E.
              ** apply R. destruct (semq s); [discriminate|discriminate].
    + (* Wait, true *)
      destruct (cancelled t); [|discriminate]. inversion H; subst; clear H. plain I i t Ht Hp.
    + (* Wait, false *)
      destruct (nth_error (ents s) e) as [[[] []]|]; try discriminate; inversion H; subst; clear H.
      * destruct (holder_next_after_key t) as [A B].
        eapply (rinv_plain _ _ _ i t _ I Ht); cbn [thr cur semq set_thr]; [reflexivity|reflexivity|reflexivity| |].
        -- rewrite A. unfold holder. rewrite Hp. reflexivity.
        -- rewrite Hp. split; [discriminate|intros X; contradiction].
      * plain I i t Ht Hp.
    + (* Unreg *)
      inversion H; subst; clear H. plain I i t Ht Hp.
    + (* Close *)
      destruct (c =? 0)%Z; inversion H; subst; clear H.
      * destruct (holder_next_after_key t) as [A B].
        eapply (rinv_plain _ _ _ i t _ I Ht); cbn [thr cur semq set_thr set_ent]; [reflexivity|reflexivity|reflexivity| |].
        -- rewrite A. unfold holder. rewrite Hp. reflexivity.
        -- rewrite Hp. split; [discriminate|intros X; contradiction].
      * plain I i t Ht Hp.
    + (* WaitSem, cancelled *)
      destruct (cancelled t); [|discriminate]. injection H as <-.
      apply notify_rinv.
      * eapply (pre_upd lim s _ i t _ P Ht); cbn [thr cur semq set_pc set_thr]; [reflexivity| |apply (p_le _ _ P)|].
        -- unfold holder. cbn [tpc]. rewrite Hp. reflexivity.
        -- right. right. split; [reflexivity|cbn [tpc]; discriminate].
      * cbn [semq]. pose proof (length_remove_nat i (semq s)). lia.
    + (* Granted *)
      assert (Hh : holder t = true) by (unfold holder; rewrite Hp; reflexivity).
      destruct (cancelled t).
      * inversion H; subst; clear H.
        eapply (rinv_release lim s _ i t _ P Ht Hh); cbn [thr cur semq set_pc set_thr]; [| |reflexivity|reflexivity|reflexivity];
          [reflexivity|cbn [tpc]; discriminate].
      * inversion H; subst; clear H.
        apply (rinv_begin lim s _ i t (todo t) P Ht); [rewrite Hp; discriminate|reflexivity|reflexivity|rewrite Hh; cbn [b2n]; lia|apply (p_le _ _ P)|exact R].
    + (* WaitTok, true *)
      destruct (cancelled t); [|discriminate]. inversion H; subst; clear H. plain I i t Ht Hp.
Qed.
Local Transparent notify.

Lemma nth_error_init sets j tj : nth_error (map init_thread sets) j = Some tj -> exists ds, tj = init_thread ds.
Proof. intros H. apply nth_error_In, in_map_iff in H. destruct H as (ds & <- & _). exists ds. reflexivity. Qed.

Lemma rinv_init lim sets source sink : rinv lim (init_state sets source sink).
Proof.
  split; [constructor|]; cbn [init_state thr cur semq].
  - apply count_init. reflexivity.
  - constructor.
  - intros j. split; [intros []|]. intros (tj & Hj & Hw). apply nth_error_init in Hj. destruct Hj as [ds ->]. discriminate.
  - lia.
  - intros H. congruence.
Qed.

Theorem limit_accounting lim sets source sink tr s :
  run (MLimit lim) (init_state sets source sink) tr = Some s -> rinv lim s.
Proof.
  intros H. eapply (run_inv (MLimit lim) (rinv lim)); [|apply rinv_init|exact H].
  intros; eapply limit_step_rinv; eassumption.
Qed.

(** Every path releases: the permits in use are exactly those of callers that
    are inside the base replicator (or were just handed one); the FIFO holds
    exactly the waiting callers; somebody waits only when all permits are in
    use - for any mix of entry points, faults and cancellations. *)
Theorem mix_limit_accounting lim kinds sets source sink tr x :
  xrun kinds (MLimit lim) (xinit kinds sets source sink) tr = Some x ->
  holders (xb x) = cur (xb x) /\
  (forall j, In j (semq (xb x)) <-> wait_at (xb x) j) /\
  (semq (xb x) <> [] -> cur (xb x) = lim).
Proof.
  intros H. destruct (xrun_base _ _ _ _ _ H) as [tr' Htr']. unfold xinit in Htr'. cbn [xb] in Htr'.
  destruct (limit_accounting _ _ _ _ _ _ Htr') as [P R]. split; [|split].
  - rewrite holders_count. apply (p_cnt _ _ P).
  - apply (p_q _ _ P).
  - intros Hq. pose proof (R Hq). pose proof (p_le _ _ P). lia.
Qed.

(** When no caller is inside the base replicator or queued - in particular
    when every caller has returned, on whichever path - no permit is in use
    and nobody is queued. *)
Theorem mix_limit_all_released lim kinds sets source sink tr x :
  xrun kinds (MLimit lim) (xinit kinds sets source sink) tr = Some x ->
  (forall i t, nth_error (thr (xb x)) i = Some t -> tpc t = NotStarted \/ exists c, tpc t = Done c) ->
  cur (xb x) = 0 /\ semq (xb x) = [].
Proof.
  intros H Hall. destruct (mix_limit_accounting _ _ _ _ _ _ _ H) as (A & B & _). split.
  - rewrite <- A, holders_count. apply count_zero. intros t Hin. apply In_nth_error in Hin. destruct Hin as [i Hi].
    unfold holder. destruct (Hall i t Hi) as [E|[c E]]; rewrite E; reflexivity.
  - destruct (semq (xb x)) as [|j q] eqn:E; [reflexivity|]. exfalso.
    destruct (proj1 (B j) (or_introl eq_refl)) as (tj & Hj & Hw).
    destruct (Hall j tj Hj) as [E1|[c E1]]; congruence.
Qed.

(** * 3. Results of the single-object entry points *)

(** The read-back reports OK exactly when the backend call was not faulted
    and the sink holds the object at that moment. *)
Lemma read_code_ok f d sink : read_code f d sink = 0%Z <-> f = 0%Z /\ memn d sink = true.
Proof.
  unfold read_code. destruct (f =? 0)%Z eqn:E; cbn [negb].
  - apply Z.eqb_eq in E. subst. destruct (memn d sink); split; try tauto; try discriminate. intros [_ X]. discriminate.
  - apply Z.eqb_neq in E. split; [|tauto]. destruct (f =? 5)%Z; [discriminate|]. intros X. contradiction.
Qed.

(** A caller of ReplicateSingle / ReplicateComposite reads the sink only after
    its ReplicateMultiple part returned OK, and the step that ends the read
    reports [read_code]. *)
Theorem read_back_step kinds m x i f d :
  reading kinds x i = Some d ->
  xstep kinds m x (ERel i f) = Some (mkxs (xb x) (upd i (PRead (read_code f d (snk (xb x)))) (xpost x))) /\
  exists t, nth_error (thr (xb x)) i = Some t /\ tpc t = Done 0 /\ read_obj (nth i kinds KMulti) = Some d.
Proof.
  intros H. split; [unfold xstep; rewrite H; reflexivity|].
  unfold reading in H. destruct (nth_error (thr (xb x)) i) as [t|]; [|discriminate].
  destruct (nth i (xpost x) PNone); [|discriminate]. destruct (tpc t) eqn:Hp; try discriminate.
  destruct c; try discriminate. exists t. repeat split; [exact Hp|exact H].
Qed.

(** * 4. Program counters of the limiter
    The transition system is shared by the three decorators; under [MLimit] a
    caller is never at a program counter of the other two. *)
Definition lpc (t : thread) : Prop :=
  match tpc t with Wait _ _ | Fm _ _ | Unreg _ _ _ | Close _ _ _ | WaitTok => False | _ => True end.
Definition linv_pc (s : cstate) : Prop := Forall lpc (thr s).

Lemma lpc_notify lim : forall fuel s, linv_pc s -> linv_pc (notify fuel lim s).
Proof.
  induction fuel as [|f IH]; intros s H; cbn [notify]; [exact H|].
  destruct (semq s) as [|j q']; [exact H|]. destruct (Nat.ltb (cur s) lim); [|exact H].
  destruct (nth_error (thr s) j) as [tj|]; [|exact H]. apply IH. unfold linv_pc. cbn [thr].
  apply Forall_upd; [exact H|exact Logic.I].
Qed.

Lemma lpc_sem_release lim s : linv_pc s -> linv_pc (sem_release lim s).
Proof. intros H. unfold sem_release. apply lpc_notify. exact H. Qed.

Lemma lpc_set i x s : linv_pc s -> lpc x -> linv_pc (set_thr i x s).
Proof. intros H Hx. unfold linv_pc. cbn [set_thr thr]. apply Forall_upd; assumption. Qed.

Lemma lpc_same s s' : linv_pc s -> thr s' = thr s -> linv_pc s'.
Proof. unfold linv_pc. intros H E. rewrite E. exact H. Qed.

Lemma lpc_finish lim i t e d c s : linv_pc s -> linv_pc (finish_base (MLimit lim) i t e d c s).
Proof. intros H. cbn [finish_base]. apply lpc_sem_release, lpc_set; [exact H|exact Logic.I]. Qed.

Lemma lpc_begin lim i t ds s : linv_pc s -> lpc t -> linv_pc (begin_base (MLimit lim) i t ds 0 0 s).
Proof.
  intros H Ht. unfold begin_base. destruct ds as [|d rest].
  - apply lpc_finish. eapply lpc_same; [|apply thr_note_max]. apply lpc_set; [exact H|exact Ht].
  - apply lpc_set; [|exact Logic.I]. eapply lpc_same; [|apply thr_note_max]. apply lpc_set; [exact H|exact Ht].
Qed.

Lemma lpc_at s i t : linv_pc s -> nth_error (thr s) i = Some t -> lpc t.
Proof. intros H Hi. unfold linv_pc in H. rewrite Forall_forall in H. apply H. eapply nth_error_In; exact Hi. Qed.

Lemma lpc_next_after_key t : lpc (next_after_key t).
Proof. unfold next_after_key, lpc. destruct (todo t) as [|? [|? ?]]; exact Logic.I. Qed.

Local Opaque notify.
Lemma limit_step_lpc lim s e s' : linv_pc s -> step (MLimit lim) s e = Some s' -> linv_pc s'.
Proof.
  intros I H. destruct e as [i|i f|i|dt|i alt]; cbn [step] in H.
  - destruct (nth_error (thr s) i) as [t|] eqn:Ht; [|discriminate].
    destruct (tpc t) eqn:Hp; try discriminate. inversion H; subst; clear H. apply lpc_set; [exact I|exact Logic.I].
  - destruct (nth_error (thr s) i) as [t|] eqn:Ht; [|discriminate].
    destruct (tpc t) eqn:Hp; try discriminate.
    + inversion H; subst; clear H. apply lpc_set; [exact I|exact Logic.I].
    + destruct ((if negb (f =? 0)%Z then f else b) =? 0)%Z.
      * destruct rest as [|d' rest']; inversion H; subst; clear H.
        -- cbn [finish_base]. apply lpc_sem_release, lpc_set; [eapply lpc_same; [exact I|reflexivity]|exact Logic.I].
        -- apply lpc_set; [eapply lpc_same; [exact I|reflexivity]|exact Logic.I].
      * inversion H; subst; clear H. cbn [finish_base]. apply lpc_sem_release, lpc_set; [exact I|exact Logic.I].
  - destruct (nth_error (thr s) i) as [t|] eqn:Ht; [|discriminate].
    destruct (cancelled t); [discriminate|]. inversion H; subst; clear H.
    apply lpc_set; [exact I|]. exact (lpc_at s i t I Ht).
  - inversion H; subst; clear H. eapply lpc_same; [exact I|reflexivity].
  - destruct (nth_error (thr s) i) as [t|] eqn:Ht; [|discriminate].
    pose proof (lpc_at s i t I Ht) as Lt. unfold lpc in Lt.
    destruct (tpc t) eqn:Hp; try contradiction; destruct alt; try discriminate.
    + (* Idle *)
      destruct (cancelled t).
      * inversion H; subst; clear H. apply lpc_set; [exact I|exact Logic.I].
      * destruct (Nat.ltb (cur s) lim && match semq s with [] => true | _ => false end).
        -- inversion H; subst; clear H. apply lpc_begin; [eapply lpc_same; [exact I|reflexivity]|unfold lpc; rewrite Hp; exact Logic.I].
        -- inversion H; subst; clear H. unfold linv_pc; cbn [thr set_pc set_thr]; apply Forall_upd; [exact I|exact Logic.I].
    + (* WaitSem, cancelled *)
      destruct (cancelled t); [|discriminate]. injection H as <-.
      apply lpc_notify. unfold linv_pc; cbn [thr set_pc set_thr]; apply Forall_upd; [exact I|exact Logic.I].
    + (* Granted *)
      destruct (cancelled t).
      * inversion H; subst; clear H. apply lpc_sem_release, lpc_set; [exact I|exact Logic.I].
      * inversion H; subst; clear H. apply lpc_begin; [exact I|unfold lpc; rewrite Hp; exact Logic.I].
Qed.
Local Transparent notify.

Lemma lpc_init sets source sink : linv_pc (init_state sets source sink).
Proof.
  unfold linv_pc. cbn [init_state thr]. apply Forall_forall. intros t Hin. apply in_map_iff in Hin.
  destruct Hin as (ds & <- & _). exact Logic.I.
Qed.

(** * 5. With all permits free, [lim] further callers are admitted at once *)
Definition fresh (s : cstate) (i : nat) : Prop :=
  exists t d rest, nth_error (thr s) i = Some t /\ tpc t = NotStarted /\ cancelled t = false /\ todo t = d :: rest.

Lemma arrive_one lim s i : fresh s i -> semq s = [] -> cur s < lim ->
  exists s2, run (MLimit lim) s [EStart i; ETau i false] = Some s2 /\ semq s2 = [] /\ cur s2 = S (cur s) /\
             (exists t2, nth_error (thr s2) i = Some t2 /\ in_copy t2 = true) /\
             (forall j, j <> i -> nth_error (thr s2) j = nth_error (thr s) j).
Proof.
  intros (t & d & rest & Ht & Hp & Hc & Htd) Hq Hlt.
  set (t1 := mkthr Idle (todo t) (cancelled t) (bset t)).
  set (s1 := set_thr i t1 s).
  assert (S1 : step (MLimit lim) s (EStart i) = Some s1).
  { cbn [step]. rewrite Ht, Hp. reflexivity. }
  assert (Ht1 : nth_error (thr s1) i = Some t1) by (cbn [s1 set_thr thr]; eapply nth_error_upd_eq; exact Ht).
  set (s1' := mkcs (thr s1) (inflight s1) (ents s1) (src s1) (snk s1) (S (cur s1)) (semq s1) (tok s1) (qcache s1) (clk s1) (maxkey s1) (maxall s1)).
  assert (S2 : step (MLimit lim) s1 (ETau i false) = Some (begin_base (MLimit lim) i t1 (d :: rest) 0 0 s1')).
  { cbn [step]. rewrite Ht1. cbn [t1 tpc cancelled todo]. rewrite Hc, Htd.
    assert (E : Nat.ltb (cur s1) lim && match semq s1 with [] => true | _ => false end = true).
    { cbn [s1 set_thr cur semq]. rewrite Hq. apply andb_true_intro. split; [apply Nat.ltb_lt; exact Hlt|reflexivity]. }
    rewrite E. reflexivity. }
  eexists. split; [cbn [run]; rewrite S1, S2; reflexivity|].
  unfold begin_base. cbn [s1' s1 set_thr note_max thr cur semq]. rewrite !upd_upd.
  split; [exact Hq|]. split; [reflexivity|]. split.
  - eexists. split; [eapply nth_error_upd_eq; exact Ht|reflexivity].
  - intros j Hj. apply nth_error_upd_neq. congruence.
Qed.

Lemma run_app m tr1 : forall s tr2, run m s (tr1 ++ tr2) = match run m s tr1 with Some s1 => run m s1 tr2 | None => None end.
Proof.
  induction tr1 as [|e r IH]; intros s tr2; cbn [app run]; [reflexivity|].
  destruct (step m s e); [apply IH|reflexivity].
Qed.

Lemma arrivals_admitted lim : forall late s,
  semq s = [] -> NoDup late -> cur s + length late <= lim -> (forall i, In i late -> fresh s i) ->
  exists s', run (MLimit lim) s (arrivals late) = Some s' /\ semq s' = [] /\ cur s' = cur s + length late /\
             (forall i, In i late -> exists t, nth_error (thr s') i = Some t /\ in_copy t = true) /\
             (forall j, ~ In j late -> nth_error (thr s') j = nth_error (thr s) j).
Proof.
  induction late as [|i late IH]; intros s Hq Nd Hle Hf.
  - exists s. cbn. repeat split; [exact Hq|lia|intros i []].
  - inversion Nd as [|? ? Hni Nd']; subst. cbn [length] in Hle.
    destruct (arrive_one lim s i (Hf i (or_introl eq_refl)) Hq ltac:(lia)) as (s2 & R2 & Q2 & C2 & (t2 & Ht2 & Hc2) & O2).
    destruct (IH s2 Q2 Nd' ltac:(lia)) as (s' & R' & Q' & C' & A' & O').
    { intros j Hj. destruct (Hf j (or_intror Hj)) as (t & d & rest & Ht & Hrest).
      exists t, d, rest. split; [|exact Hrest]. rewrite O2; [exact Ht|]. intros ->. contradiction. }
    exists s'. split; [|split; [exact Q'|split; [cbn [length]; lia|split]]].
    + change (arrivals (i :: late)) with ([EStart i; ETau i false] ++ arrivals late). rewrite run_app, R2. exact R'.
    + intros j [<-|Hj]; [|apply A', Hj]. exists t2. split; [|exact Hc2]. rewrite O'; [exact Ht2|exact Hni].
    + intros j Hj. rewrite O'; [|intros X; apply Hj; right; exact X]. apply O2. intros ->. apply Hj. left. reflexivity.
Qed.

Theorem limit_further_copies_run_at_once lim s late :
  cur s = 0 -> semq s = [] -> NoDup late -> length late <= lim ->
  (forall i, In i late -> exists t d rest, nth_error (thr s) i = Some t /\ tpc t = NotStarted /\
                                            cancelled t = false /\ todo t = d :: rest) ->
  exists s', run (MLimit lim) s (arrivals late) = Some s' /\
             (forall i, In i late -> exists t, nth_error (thr s') i = Some t /\ in_copy t = true) /\
             cur s' = length late.
Proof.
  intros Hc Hq Nd Hle Hf.
  destruct (arrivals_admitted lim late s Hq Nd ltac:(lia) Hf) as (s' & R & _ & C & A & _).
  exists s'. split; [exact R|split; [exact A|lia]].
Qed.
