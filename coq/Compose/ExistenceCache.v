(** C17: pkg/eviction/lru_set.go, pkg/digest/existence_cache.go and
    pkg/blobstore/existence_caching_blob_access.go.

    Keys are natural numbers; time is a virtual clock in [N]; the LRU queue is
    a list, oldest first.  A Go panic (Peek/Remove on an empty queue, double
    Insert, Touch of an absent element) is the explicit [panicked] flag.
    Definitions only. *)
From Coq Require Import List ZArith NArith Bool Arith Lia.
From BBS Require Import Common.ListX.
Import ListNotations.

Definition memn (d : nat) (s : list nat) : bool := existsb (Nat.eqb d) s.
Fixpoint remove_nat (d : nat) (l : list nat) : list nat :=
  match l with [] => [] | h :: t => if Nat.eqb d h then remove_nat d t else h :: remove_nat d t end.

(** * LRU set *)
Record lru := mklru { lq : list nat; lpanic : bool }.
Definition lru_empty : lru := mklru [] false.
Definition lru_insert (v : nat) (s : lru) : lru :=
  if memn v (lq s) then mklru (lq s) true else mklru (lq s ++ [v]) (lpanic s).
Definition lru_touch (v : nat) (s : lru) : lru :=
  if memn v (lq s) then mklru (remove_nat v (lq s) ++ [v]) (lpanic s) else mklru (lq s) true.
Definition lru_peek (s : lru) : option nat := match lq s with [] => None | v :: _ => Some v end.
Definition lru_remove (s : lru) : lru :=
  match lq s with [] => mklru [] true | _ :: r => mklru r (lpanic s) end.

Inductive lop := LInsert (v : nat) | LTouch (v : nat) | LPeek | LRemove.

(** Answers to the Peek operations of a history ([None] = empty queue). *)
Fixpoint lru_run (ops : list lop) (s : lru) : list (option nat) * lru :=
  match ops with
  | [] => ([], s)
  | LInsert v :: r => lru_run r (lru_insert v s)
  | LTouch v :: r => lru_run r (lru_touch v s)
  | LPeek :: r => let (a, s') := lru_run r s in (lru_peek s :: a, s')
  | LRemove :: r => lru_run r (lru_remove s)
  end.

(** * Existence cache *)
Record ec := mkec { times : list (nat * N); elru : lru }.
Definition ec_empty : ec := mkec [] lru_empty.

Fixpoint lookup (k : nat) (m : list (nat * N)) : option N :=
  match m with [] => None | (k', t) :: r => if Nat.eqb k k' then Some t else lookup k r end.
Fixpoint remove_key (k : nat) (m : list (nat * N)) : list (nat * N) :=
  match m with [] => [] | (k', t) :: r => if Nat.eqb k k' then remove_key k r else (k', t) :: remove_key k r end.
Definition set_time (k : nat) (t : N) (m : list (nat * N)) : list (nat * N) := (k, t) :: remove_key k m.

(** [!insertionTime.Before(now - duration)] *)
Definition fresh (dur now t0 : N) : bool := (now <=? t0 + dur)%N.

(** RemoveExisting: returns the digests that are not (freshly) cached; cached
    ones are touched. *)
Fixpoint ec_remove_existing (dur now : N) (ds : list nat) (e : ec) : list nat * ec :=
  match ds with
  | [] => ([], e)
  | d :: r =>
      match lookup d (times e) with
      | Some t0 =>
          if fresh dur now t0
          then ec_remove_existing dur now r (mkec (times e) (lru_touch d (elru e)))
          else let (m, e') := ec_remove_existing dur now r e in (d :: m, e')
      | None => let (m, e') := ec_remove_existing dur now r e in (d :: m, e')
      end
  end.

Definition ec_evict (e : ec) : ec :=
  match lru_peek (elru e) with
  | Some k => mkec (remove_key k (times e)) (lru_remove (elru e))
  | None => mkec (times e) (lru_remove (elru e))   (* panics *)
  end.

Fixpoint ec_add (size : nat) (now : N) (ds : list nat) (e : ec) : ec :=
  match ds with
  | [] => e
  | d :: r =>
      let e1 := if Nat.leb size (length (times e)) then ec_evict e else e in
      let e2 := match lookup d (times e1) with
                | Some t0 => if (t0 <? now)%N then mkec (set_time d now (times e1)) (elru e1) else e1
                | None => mkec (set_time d now (times e1)) (lru_insert d (elru e1))
                end in
      ec_add size now r e2
  end.

(** * History of an existence-caching FindMissing decorator over one backend,
      interleaved with direct cache calls, backend changes and clock advances. *)
Inductive eop :=
| EFm (ds : list nat) (d1 d2 : N) (fault : Z)   (* decorator FindMissing; clock advances before each Now() *)
| ERemoveExisting (ds : list nat) (d1 : N)
| EAdd (ds : list nat) (d1 : N)
| EBackendPut (d : nat)
| EBackendDel (d : nat)
| EGfc (p : nat) (fault : Z).                   (* decorator GetFromComposite of the child of parent p *)

Record est := mkest { cache : ec; now : N; backend : list nat }.

(** What is observed per step: code, answer, the backend call's argument (if
    one was made), clock readings. *)
Record eobs := mkeobs { e_code : Z; e_ans : list nat; e_call : option (list nat); e_clock : list N }.

Definition estep (size : nat) (dur : N) (o : eop) (s : est) : eobs * est :=
  match o with
  | EFm ds d1 d2 fault =>
      let ds := dedup_sort ds in
      let t1 := (now s + d1)%N in
      let (mm, c1) := ec_remove_existing dur t1 ds (cache s) in
      if negb (Z.eqb fault 0) then (mkeobs fault [] (Some mm) [t1], mkest c1 t1 (backend s))
      else
        let missing := filter (fun d => negb (memn d (backend s))) mm in
        let present := filter (fun d => memn d (backend s)) mm in
        let t2 := (t1 + d2)%N in
        (mkeobs 0 missing (Some mm) [t1; t2], mkest (ec_add size t2 present c1) t2 (backend s))
  | ERemoveExisting ds d1 =>
      let ds := dedup_sort ds in
      let t1 := (now s + d1)%N in
      let (mm, c1) := ec_remove_existing dur t1 ds (cache s) in
      (mkeobs 0 mm None [t1], mkest c1 t1 (backend s))
  | EAdd ds d1 =>
      let ds := dedup_sort ds in
      let t1 := (now s + d1)%N in
      (mkeobs 0 [] None [t1], mkest (ec_add size t1 ds (cache s)) t1 (backend s))
  | EBackendPut d => (mkeobs 0 [] None [], mkest (cache s) (now s) (insert_sorted d (backend s)))
  | EBackendDel d => (mkeobs 0 [] None [], mkest (cache s) (now s) (remove_nat d (backend s)))
  | EGfc p fault =>
      (* ExistenceCachingBlobAccess embeds the backend: a composite read is the
         backend's, the cache is neither consulted (no clock reading) nor updated *)
      (mkeobs (if negb (Z.eqb fault 0) then fault else if memn p (backend s) then 0 else 5) [] (Some [p]) [], s)
  end.

Fixpoint erun (size : nat) (dur : N) (ops : list eop) (s : est) : list eobs * est :=
  match ops with
  | [] => ([], s)
  | o :: r => let (ob, s1) := estep size dur o s in
              let (obs, s2) := erun size dur r s1 in (ob :: obs, s2)
  end.
