(** C03 — Acknowledged uploads survive graceful shutdown and committed epochs.
    Statements only; proofs are in Persist/ShutdownProofs.v.

    The transition system is the one of Persist/Syncer.v (C07): one event per
    atomic step — BlockList.Put / finalizer, PopFront, PushBack, one
    lock-protected section or I/O completion (success/failure) or timer expiry
    of either PeriodicSyncer loop, clock advance, context cancellation — over
    the model of PersistentBlockList of Persist/PBL.v.  [grun] (Shutdown.v)
    runs it together with a ghost history that cannot influence a step
    ([grun_is_run]):
      - [g_acks]: one [ack] per finalizer that returned FinOk (the uploads and
        refreshes that get acknowledged): absolute block index, end offset,
        epoch number, the BlockReference written into the index record;
      - [g_syncing] := all acks so far, at every step that calls NotifySyncStarting;
        [g_synced] := [g_syncing] at every step that calls NotifySyncCompleted;
      - every GetPersistentState snapshot is recorded with [g_synced] as its
        cohort and moves to [gs_writes] when WritePersistentState returns nil.
    So "w in gs_writes x, a in gw_cohort w" reads: a was acknowledged before the
    start of a sync that completed before the snapshot of the completed state
    write w was taken — a commit that ran to completion.
    [covers w a] (Shutdown.v): a's block had been popped by rotation before the
    snapshot, or NewPersistentBlockList on w's state lists a's epoch seed at a's
    epoch, a's block, and a write cursor at or above a's end.
    [greachable] = reachable by ANY schedule from NewPersistentBlockList (any
    persistent state, any allocator answers) + NewPeriodicSyncer. *)
From BBS Require Import Common.Sx Persist.PBL Persist.PBLProofs Persist.Syncer Persist.SyncerProofs
  Persist.Shutdown Persist.ShutdownProofs Persist.ShutdownOrder Run.R03.
From BBS Require Import Run.R03MonGhost Run.R03MonFields Run.R03MonReplay Run.R03Mon Run.R03MonAck Run.R03MonObs Run.R03MonInherit Run.R03MonStoreFields Run.R03MonList Run.R03MonCopies Run.R03MonReadback Run.R03MonEx.
Local Open Scope nat_scope.

(** The ghost never influences the run. *)
Theorem grun_is_run : forall cfg tr s x,
  run cfg s tr = match grun cfg s x tr with
                 | Some (Ok (s', _)) => Some (Ok s')
                 | Some Panic => Some Panic
                 | None => None
                 end.
Proof. exact grun_run. Qed.
Print Assumptions grun_is_run.

(** refused, not lost (block list): once closedForWriting is set, every
    finalizer fails — errClosedForWriting (UNAVAILABLE), or the block's own
    error — and changes nothing; PushBack is refused too. *)
Theorem refused_not_lost : forall tok blk size seed p p' fr,
  closedForWriting p = true -> put_finalize tok blk size seed p = Ok (p', fr) ->
  p' = p /\ (fr = FinClosed \/ (fr = FinBlockError /\ blk = None)).
Proof. exact refused_not_lost_pbl. Qed.
Print Assumptions refused_not_lost.

Theorem refused_push_back : forall alloc p, closedForWriting p = true -> push_back alloc p = (p, PushClosed).
Proof. exact push_back_closed. Qed.
Print Assumptions refused_push_back.

(** ... over all schedules: closedForWriting is set by exactly one step (the
    put loop's NotifySyncStarting(true) that follows the first shutdown sync),
    is never reset, and from then on no step creates an ack. *)
Theorem closed_only_by_final_sync : forall cfg s e s', step cfg s e = Some (Ok s') ->
  closedForWriting (s_pbl s') = closedForWriting (s_pbl s)
  \/ (closedForWriting (s_pbl s) = false /\ closedForWriting (s_pbl s') = true /\
      exists a, e = EStep TP a /\ s_p s = PSyncRet false false /\ s_p s' = PSyncing false true).
Proof. exact step_closed. Qed.
Print Assumptions closed_only_by_final_sync.

Theorem refused_not_lost_schedules : forall cfg alloc oldest init t0 s x,
  greachable cfg alloc oldest init t0 s x -> closedForWriting (s_pbl s) = true ->
  forall e s', step cfg s e = Some (Ok s') ->
    closedForWriting (s_pbl s') = true /\ g_acks (gs_g (gstep s e s' x)) = g_acks (gs_g x).
Proof. exact refused_not_lost_all. Qed.
Print Assumptions refused_not_lost_schedules.

(** graceful: for every schedule, when ProcessBlockPut has returned false
    (shutdown requested at any point, the put loop ran to termination), the list
    is closed and the newest completed state write — what is on the medium —
    has every ack ever made in its cohort and covers each of them. *)
Theorem graceful : forall cfg alloc oldest init t0 s x,
  greachable cfg alloc oldest init t0 s x -> s_p s = PExit ->
  closedForWriting (s_pbl s) = true /\
  exists w rest, gs_writes x = w :: rest /\ gw_cohort w = g_acks (gs_g x) /\
                 forall a, In a (g_acks (gs_g x)) -> covers w a.
Proof. exact graceful_all. Qed.
Print Assumptions graceful.

(** commit_covers: for every schedule, every completed state write covers every
    ack of its cohort, i.e. every upload acknowledged before the start of the
    sync whose completion preceded the snapshot.  (A process crash keeps the
    media as they are; with no finalizer between the start of the commit and
    the crash the cohort is the set of all acks and the index holds no record
    of a later epoch.) *)
Theorem commit_covers : forall cfg alloc oldest init t0 s x,
  greachable cfg alloc oldest init t0 s x ->
  forall w, In w (gs_writes x) -> forall a, In a (gw_cohort w) -> covers w a.
Proof. exact commit_covers_all. Qed.
Print Assumptions commit_covers.

(** Completed state writes are ordered by what they cover (snapshots are taken
    and completed under storeLock; the cohort of completed syncs only grows):
    the cohort of an older write is a suffix of — i.e. contained in — the
    cohort of the newest one. *)
Theorem writes_monotone : forall cfg alloc oldest init t0 s x,
  greachable cfg alloc oldest init t0 s x ->
  forall w0 rest w, gs_writes x = w0 :: rest -> In w rest -> suffix (gw_cohort w) (gw_cohort w0).
Proof. exact writes_monotone_all. Qed.
Print Assumptions writes_monotone.

(** commit_covers, at the crash: for every schedule, at any point (a process
    crash keeps the media as they are, so the state on the medium is the
    newest completed write): if some commit ran to completion — a completed
    write w whose cohort is every ack made so far, i.e. no finalizer returned
    OK between the start of w's sync and now — then the newest completed
    write has every ack in its cohort and covers each of them (and by
    [record_resolves_after_restart] their records resolve after restart). *)
Theorem crash_commit_covers : forall cfg alloc oldest init t0 s x,
  greachable cfg alloc oldest init t0 s x ->
  forall w, In w (gs_writes x) -> gw_cohort w = g_acks (gs_g x) ->
  exists w0 rest, gs_writes x = w0 :: rest /\ gw_cohort w0 = g_acks (gs_g x) /\
                  forall a, In a (g_acks (gs_g x)) -> covers w0 a.
Proof. exact crash_commit_covers_all. Qed.
Print Assumptions crash_commit_covers.

(** record level: the BlockReference that was written into the index record of
    a covered, not evicted ack resolves on the restarted list to the ack's block
    with the ack's epoch seed (so the record's checksum matches), and the
    restored write cursor of that block is at or above the object's end (so
    the object is not overwritten).  Hypotheses: fewer than 2^32 epochs between
    the snapshot's oldest epoch and the ack's, fewer than 2^16 blocks between
    the ack's block and its epoch's last block (new_blob_access.go refuses
    more than 100 blocks). *)
Theorem record_resolves_after_restart : forall cfg alloc oldest init t0 s x,
  greachable cfg alloc oldest init t0 s x ->
  forall w, In w (gs_writes x) -> forall a, In a (gw_cohort w) ->
  gw_base_abs w <= a_abs a ->
  (N.of_nat (a_ep a - gw_base_ep w) < 2 ^ 32)%N -> (Z.of_nat (a_last a - a_abs a) < 2 ^ 16)%Z ->
  ref_to_index (fst (a_ref a)) (snd (a_ref a)) (restart_of (gw_state w))
    = Ok (Some (a_abs a - gw_base_abs w, a_seed a))
  /\ exists b, nth_error (blocks (restart_of (gw_state w))) (a_abs a - gw_base_abs w) = Some b
               /\ (a_end a <= b_written b)%Z.
Proof. exact commit_record_resolves. Qed.
Print Assumptions record_resolves_after_restart.

(** ... and in general a record resolves on a restarted list iff its epoch's
    seed is in the restored state and its block is still listed. *)
Theorem record_resolves_iff : forall st eid bfl i sd, let p := restart_of st in
  ref_to_index eid bfl p = Ok (Some (i, sd)) <->
  exists e la, N.of_nat e = u32 (eid + 2 ^ 32 - oldestEpochID p)
    /\ nth_error (epochSeeds p) e = Some sd /\ nth_error (epochLast p) e = Some la
    /\ (Z.of_nat (totalReleased p) + Z.of_N bfl <= Z.of_nat la)%Z
    /\ i = Z.to_nat (Z.of_nat la - Z.of_nat (totalReleased p) - Z.of_N bfl)
    /\ i < length (blocks p).
Proof.
  intros st eid bfl i sd p. destruct (restart_wf st) as [H1 H2]. apply ref_to_index_iff; assumption.
Qed.
Print Assumptions record_resolves_iff.

(** restored_layout_admits_all: NewOldCurrentNewLocationBlobMap (model
    [ocn_new] of its constructor loops, with the growth policies that
    new_blob_access.go builds) schedules no restored block for release when the
    restored blocks fit the configuration; the bound is sharp. *)
Theorem restored_layout_admits_all : forall old cur new n, n <= old + cur + new ->
  l_to_be_released (ocn_new (cas_policy cur new) old n) = 0.
Proof. exact restored_layout_cas. Qed.
Print Assumptions restored_layout_admits_all.

Theorem restored_layout_admits_all_mutable : forall old cur n, n <= old + cur + 1 ->
  l_to_be_released (ocn_new (ac_policy cur) old n) = 0.
Proof. exact restored_layout_ac. Qed.
Print Assumptions restored_layout_admits_all_mutable.

Theorem restored_layout_overflow : forall old cur new n, old + cur + new < n ->
  l_to_be_released (ocn_new (cas_policy cur new) old n) = n - (old + cur + new).
Proof. exact restored_layout_cas_overflow. Qed.
Print Assumptions restored_layout_overflow.

Theorem restored_layout_partition : forall pol old n,
  l_old (ocn_new pol old n) + l_current (ocn_new pol old n) + l_new (ocn_new pol old n) = n.
Proof. exact ocn_new_counts. Qed.
Print Assumptions restored_layout_partition.

(** ---- non-vacuity: a concrete schedule with an upload, a periodic commit, a
    shutdown with both syncs, the final state write, ProcessBlockPut returning ---- *)
Definition ex_ok : ans := mkAns true 0.
Definition ex_no : ans := mkAns false 0.
Definition ex_trace : list event :=
  [EPushBack (Some (0, 64)%Z); EPutStart 0 10; EFinalize 0 (Some 0%Z) 1000%N;
   EStep TP ex_no; EStep TP ex_no; EStep TP ex_no; EStep TP ex_no; EStep TP ex_ok; EStep TP ex_no;
   EStep TP ex_no; EStep TP ex_no; EStep TP ex_ok; EStep TP ex_no;
   EPutStart 0 5; EFinalize 1 (Some 10%Z) 1001%N;
   ECancel; EStep TP ex_no; EStep TP ex_no; EStep TP ex_ok;
   EStep TP ex_no; EStep TP ex_ok; EStep TP ex_no; EStep TP ex_ok; EStep TP ex_no;
   EPutStart 0 5; EFinalize 2 (Some 15%Z) 1002%N;
   EStep TP ex_no; EStep TP ex_no; EStep TP ex_ok; EStep TP ex_no].

Definition ex_result := grun (mkConfig 0 3) (init_sys (fst (pbl_new (fun _ _ => true) 1 [])) 0) g0 ex_trace.

Example graceful_nonvacuous :
  match ex_result with
  | Some (Ok (s, x)) =>
      s_p s = PExit /\ length (g_acks (gs_g x)) = 2 /\ length (gs_writes x) = 2 /\
      match gs_writes x with
      | w :: _ => length (gw_cohort w) = 2 /\ length (snd (gw_state w)) = 1 /\
                  map bs_off (snd (gw_state w)) = [15%Z] /\ map bs_seeds (snd (gw_state w)) = [[1000%N; 1001%N]]
      | [] => False
      end
  | _ => False
  end.
Proof. vm_compute. repeat split; reflexivity. Qed.

(** ... in which the third upload was refused (closed) and created no ack *)
Example refused_nonvacuous :
  match grun (mkConfig 0 3) (init_sys (fst (pbl_new (fun _ _ => true) 1 [])) 0) g0 (firstn 25 ex_trace) with
  | Some (Ok (s, x)) =>
      closedForWriting (s_pbl s) = true /\
      match nth_error (s_uploads s) 2 with
      | Some (Some (tok, size)) => put_finalize tok (Some 15%Z) size 1002%N (s_pbl s) = Ok (s_pbl s, FinClosed)
      | _ => False
      end
  | _ => False
  end.
Proof. vm_compute. split; reflexivity. Qed.

(** ... and after its first 13 steps (one upload, one periodic commit) a crash would find a
    completed write whose cohort is every ack *)
Example crash_nonvacuous :
  match grun (mkConfig 0 3) (init_sys (fst (pbl_new (fun _ _ => true) 1 [])) 0) g0 (firstn 13 ex_trace) with
  | Some (Ok (s, x)) =>
      match gs_writes x with
      | [w] => gw_cohort w = g_acks (gs_g x) /\ length (g_acks (gs_g x)) = 1 /\ s_p s = PStart
      | _ => False
      end
  | _ => False
  end.
Proof. vm_compute. repeat split; reflexivity. Qed.

Example layout_nonvacuous :
  ocn_new (cas_policy 2 3) 1 6 = mkLayout 1 0 5 0 /\ ocn_new (cas_policy 2 3) 1 7 = mkLayout 2 0 5 1 /\
  ocn_new (ac_policy 2) 1 4 = mkLayout 1 2 1 0.
Proof. vm_compute. repeat split; reflexivity. Qed.

(** ================= the monitor of Run/R03.v versus the model =================
    Run/R03.v has no generative [run03 inp]: the model side of [judge03] is trace validation
    ([replay03 inp obs = []]: the model ACCEPTS the observed call history; the nondeterminism —
    interleaving, I/O outcomes, allocator answers — is resolved from the observation).  "The
    monitor is silent on the model" is therefore stated over EVERY observation the model accepts,
    i.e. for every resolution.  Proofs: Run/R03Mon*.v.

    Full statement (NOT proved: clause 5 "wrong bytes" needs the data device and the index above
    the block list, which Persist/*.v does not model):
      forall inp obs, is_marker obs = false -> replay03 inp obs = [] -> store_ok inp obs -> mon03 inp obs = [].
    Proved below: every clause except 5 ([mon03_silent_on_accepted_partial2]), the part of the store
    that the model does not contain entering as two decidable checks on the observation ([u_obs],
    [r_obs]) which hold on the generated observations.

    Proved: clauses 2, 3, 7, 8 never fire (the hypothesis [u_obs], a decidable check on the
    observation, is the store-level link "the result of an upload op is the one the store derives
    from the finalizer of the same op, and no final NotifySyncStarting / return of ProcessBlockPut
    lies inside an upload op" — R03MonAck.v; it holds on all 1000 generated observations it was
    evaluated on) ... *)
Theorem mon03_silent_on_accepted_partial : forall inp obs,
  is_marker obs = false -> replay03 inp obs = [] -> u_obs inp obs = true ->
  forall z, In z (mon03 inp obs) -> z = 1%Z \/ z = 4%Z \/ z = 5%Z.
Proof. exact R03MonObs.mon03_silent_on_accepted_partial. Qed.
Print Assumptions mon03_silent_on_accepted_partial.

(** ... and for clauses 1 and 4 the PREMISE is sound: incarnation by incarnation ([obl_sound],
    Run/R03MonObs.v), on every accepted observation, with NO further hypothesis: the incarnation's
    history is a run of the model from NewPersistentBlockList + NewPeriodicSyncer ([greachable]);
    if the monitor has seen the final synchronisation begin the model's list is closed for writing;
    if it has seen ProcessBlockPut return the model's put loop has exited; and whenever the monitor
    carries its acknowledged copies as obligations into the next incarnation ([m_prev] of
    [mon_exit] is 1 = graceful or 2 = crash after a commit that began after the last Put /
    finalizer), the state the next incarnation is restored from ([x_state]) is the state of the
    model's newest completed write, whose cohort is EVERY acknowledgement of the model and which
    covers each of them (so by [record_resolves_after_restart] their index records resolve on the
    restarted list unless rotation had evicted the block). *)
Theorem mon03_obligations_sound : forall inp obs, replay03 inp obs = [] ->
  let c := sx_nth inp 0 in
  obl_sound c (sx_nth inp 1) c (mkConfig (sx_N (sx_nth c 9)) (sx_N (sx_nth c 10))) (sx_Z (sx_nth c 0))
            (sx_list (sx_nth inp 2)) (sx_list obs) m_init init_pstate 0%N.
Proof. exact R03MonObs.mon03_obligations_sound. Qed.
Print Assumptions mon03_obligations_sound.

(** ... and over SEVERAL restarts: the monitor keeps a copy as an obligation over any number of
    incarnations as long as every exit in between was graceful or followed a completed commit, while
    the ghost of Shutdown.v starts every incarnation empty.  [chain_sound] (Run/R03MonInherit.v) starts
    the ghost of the next incarnation on the acknowledgements the previous one left covered and still
    listed ([inh_list], renumbered relative to the written state; sound because a covered
    acknowledgement satisfies the invariant of the restarted list, [G_inherit]): for every accepted
    observation in which every restart re-attached all blocks of the state file ([all_restored_h],
    decidable; true on the 800 generated observations it was evaluated on), every incarnation is a run
    of the model from NewPersistentBlockList on the state its predecessor left, and whenever the monitor
    carries obligations on, the state on the medium covers every acknowledgement of this incarnation
    AND every inherited one (rotation out of the list being the only excuse); moreover at EVERY point
    of every incarnation's history ([acks_resolve], for every prefix of the entries) every
    acknowledgement made so far or inherited is evicted or its index record — the BlockReference
    written at acknowledgement time — resolves on the current list to its block with its epoch seed,
    below the write cursor (distances < 2^32 epochs, < 2^16 blocks as in
    [record_resolves_after_restart]). *)
Theorem mon03_obligations_sound_chain : forall inp obs, replay03 inp obs = [] ->
  forallb all_restored_h (sx_list obs) = true ->
  let c := sx_nth inp 0 in
  chain_sound c (sx_nth inp 1) c (mkConfig (sx_N (sx_nth c 9)) (sx_N (sx_nth c 10))) (sx_Z (sx_nth c 0))
              (sx_list (sx_nth inp 2)) (sx_list obs) m_init init_pstate 0%N [].
Proof. exact R03MonInherit.mon03_obligations_sound_chain. Qed.
Print Assumptions mon03_obligations_sound_chain.

(** ... and the objects of those obligations ARE acknowledgements of the model.  The monitor keeps, per
    acknowledged upload, the key and the LOCATION of the block its BlockList.Put went into, and
    drops the copy when a PopFront at full occupancy removes the block at that location; the model's
    ghost keeps the absolute block index and the BlockReference written into the index record.
    Run/R03MonCopies.v runs a second bookkeeping [lst] alongside the monitor (which Put belongs to which
    upload slot, which finalizer returned OK in the current op segment, which reference each copy's
    finalizer reported: [l_cr]) and proves, for every accepted incarnation history satisfying the
    decidable link checks [l_all] (every PopFront at full occupancy — the only eviction the monitor
    excuses; a copy's upload had, with no PopFront since, an OK finalizer in its op segment, the one of
    the Put recorded for its slot; no second restore entry — true on the 800 generated observations
    they were evaluated on): the monitor's view of the list [m_live] is the list of the locations of
    the model's blocks; every copy made in this incarnation has an acknowledgement of the model with
    the reference its finalizer reported, NOT evicted, whose block sits at the copy's location; and if
    the monitor carries the copy into the next incarnation as an obligation, the state the next
    incarnation is restored from covers that acknowledgement and still lists its block, so the
    reference resolves on the restarted list to that block with its seed, below the restored write
    cursor.  What remains between this and "clauses 1, 4 silent" is the store above the block list:
    that the read-back finds the index record (key-location map) and that the old/current/new map
    admits the block. *)
Theorem mon03_owed_copies_resolve : forall c cfg bs st0 now e0 es x0 x1 cfgsx objs ops m0,
  replay_restore c cfg bs st0 now e0 = Some x0 ->
  replay_entries cfg bs 1 x0 es = (x1, []) ->
  m_fresh m0 -> m_start m0 ->
  l_all cfgsx objs ops (mon_entry cfgsx objs ops m0 e0) (l0 (old_crs m0)) es = true ->
  let m1 := fold_left (mon_entry cfgsx objs ops) (e0 :: es) m0 in
  let l1 := l_fold cfgsx objs ops (mon_entry cfgsx objs ops m0 e0) (l0 (old_crs m0)) es in
  map fst (l_cr l1) = m_copies m1 /\
  m_live m1 = map fst (locs (s_pbl (x_sys x1))) /\
  exists alloc oldest init gx, greachable cfg alloc oldest init now (x_sys x1) gx /\
  forall cp ref, In (cp, ref) (l_cr l1) -> c_old cp = false ->
    exists a, In a (g_acks (gs_g gx)) /\ a_ref a = (fst (fst ref), snd (fst ref)) /\ a_seed a = snd ref /\
      totalReleased (s_pbl (x_sys x1)) <= a_abs a /\
      loc_at (x_sys x1) (a_abs a) = Some (c_loc cp) /\
      (m_prev (mon_exit m1) <> 0%Z ->
         exists w rest, gs_writes gx = w :: rest /\ x_state x1 = gw_state w /\ covers w a /\
           gw_base_abs w <= a_abs a /\
           ((N.of_nat (a_ep a - gw_base_ep w) < 2 ^ 32)%N -> (Z.of_nat (a_last a - a_abs a) < 2 ^ 16)%Z ->
            ref_to_index (fst (fst ref)) (snd (fst ref)) (restart_of (x_state x1))
              = Ok (Some (a_abs a - gw_base_abs w, snd ref)) /\
            exists b, nth_error (blocks (restart_of (x_state x1))) (a_abs a - gw_base_abs w) = Some b /\
                      (a_end a <= b_written b)%Z)).
Proof. exact R03MonCopies.mon03_owed_copies_resolve. Qed.
Print Assumptions mon03_owed_copies_resolve.

(** ... which closes clauses 1 and 4 up to ONE statement about the store above the block list, made
    explicit as the decidable check [r_obs] (Run/R03MonReadback.v; it contains the link checks of
    [mon03_owed_copies_resolve], "every restart re-attaches all blocks of the state file", fewer than
    2^16 listed blocks / 2^32 listed epochs, and per read-back entry (32 k ...), evaluated on the replay's
    MODEL state: if the BlockReference of an owed copy of key k resolves on the model's current list with
    its seed, the entry reports the key readable — "the store finds what the block list resolves", the
    business of the key-location map and the old/current/new map, C06 / C05).  For this the copies'
    acknowledgements are carried over restarts together with their block LOCATIONS ([Sn]: a state
    snapshot lists, in order, the locations of the blocks of its moment; [carry_ack]), so inherited
    copies are live acknowledgements too, and every live acknowledgement resolves at every point.
    [r_obs] is true on the 800 generated observations it was evaluated on; it cannot be dropped
    ([mon03_r_obs_is_needed]). *)
Theorem mon03_clauses14_silent : forall inp obs, replay03 inp obs = [] -> r_obs inp obs = true ->
  forall z, In z (mon03 inp obs) -> z <> 1%Z /\ z <> 4%Z.
Proof. exact R03MonReadback.mon03_clauses14_silent. Qed.
Print Assumptions mon03_clauses14_silent.

(** all clauses but "wrong bytes": on every observation the model accepts and whose op results /
    read-backs are consistent with the recorded block-list history in the sense of the two decidable
    checks, the monitor can only report clause 5 *)
Theorem mon03_silent_on_accepted_partial2 : forall inp obs,
  is_marker obs = false -> replay03 inp obs = [] -> u_obs inp obs = true -> r_obs inp obs = true ->
  forall z, In z (mon03 inp obs) -> z = 5%Z.
Proof. exact R03MonReadback.mon03_silent_on_accepted_partial2. Qed.
Print Assumptions mon03_silent_on_accepted_partial2.

(** one incarnation, spelled out *)
Theorem mon03_incarnation_sound : forall c cfg bs st0 now e0 es x0 x1 cfgsx objs ops m0,
  replay_restore c cfg bs st0 now e0 = Some x0 ->
  replay_entries cfg bs 1 x0 es = (x1, []) ->
  m_fresh m0 ->
  let m1 := fold_left (mon_entry cfgsx objs ops) (e0 :: es) m0 in
  exists alloc oldest init gx,
    greachable cfg alloc oldest init now (x_sys x1) gx /\
    x_state x1 = match gs_writes gx with w :: _ => gw_state w | [] => st0 end /\
    (m_final m1 = true -> closedForWriting (s_pbl (x_sys x1)) = true) /\
    (m_exited m1 = true -> s_p (x_sys x1) = PExit) /\
    (m_prev (mon_exit m1) <> 0%Z ->
       exists w rest, gs_writes gx = w :: rest /\ x_state x1 = gw_state w /\
                      gw_cohort w = g_acks (gs_g gx) /\
                      forall a, In a (g_acks (gs_g gx)) -> covers w a).
Proof. exact R03Mon.mon03_incarnation_sound. Qed.
Print Assumptions mon03_incarnation_sound.

(** once the monitor's final flag is set, every finalizer entry the model accepts is a refusal
    (class 1, errClosedForWriting) or the block's own error (class 3): the model never acknowledges *)
Theorem mon03_no_ack_after_final : forall o cfg bs m x gx e x',
  G o (x_sys x) gx -> J m (x_sys x) gx -> m_final m = true ->
  tag e = 4%Z -> replay_entry cfg bs x e = Some x' ->
  sx_Z (sx_nth e 2) = 1%Z \/ sx_Z (sx_nth e 2) = 3%Z.
Proof. exact R03Mon.mon03_no_ack_after_final. Qed.
Print Assumptions mon03_no_ack_after_final.

(** non-vacuity: two observations of the REAL code (Run/R03MonEx.v) meet the hypotheses; in the
    first the monitor carries one obligation out of a graceful shutdown that refused an upload, in the
    second two obligations out of a crash after a commit *)
Definition first_inc (inp obs : sx) : mst :=
  mon_incs (sx_nth inp 0) (sx_nth inp 1) (firstn 1 (sx_list (sx_nth inp 2))) (firstn 1 (sx_list obs)) m_init.

Example mon03_hyps_nonvacuous_graceful :
  is_marker exg_obs = false /\ replay03 exg_inp exg_obs = [] /\ u_obs exg_inp exg_obs = true /\
  mon03 exg_inp exg_obs = [] /\ length (sx_list exg_obs) = 2 /\
  forallb all_restored_h (sx_list exg_obs) = true /\ l_obs exg_inp exg_obs = true /\ r_obs exg_inp exg_obs = true /\
  m_prev (first_inc exg_inp exg_obs) = 1%Z /\ length (m_copies (first_inc exg_inp exg_obs)) = 1 /\
  existsb (fun e => Z.eqb (tag e) 4 && Z.eqb (sx_Z (sx_nth e 2)) 1) (sx_list (sx_nth exg_obs 0)) = true.
Proof. vm_compute. repeat split; reflexivity. Qed.

Example mon03_hyps_nonvacuous_crash :
  is_marker exc_obs = false /\ replay03 exc_inp exc_obs = [] /\ u_obs exc_inp exc_obs = true /\
  mon03 exc_inp exc_obs = [] /\ length (sx_list exc_obs) = 3 /\
  forallb all_restored_h (sx_list exc_obs) = true /\ l_obs exc_inp exc_obs = true /\ r_obs exc_inp exc_obs = true /\
  m_prev (first_inc exc_inp exc_obs) = 2%Z /\ length (m_copies (first_inc exc_inp exc_obs)) = 2.
Proof. vm_compute. repeat split; reflexivity. Qed.

(** the hypothesis [u_obs] cannot be dropped: the replay validates the block-list / syncer call
    history, not the results of the store's own operations.  [exb_obs] is [exg_obs] with the result of
    the refused upload altered by hand from UNAVAILABLE to OK (not an observation of the code): the
    model still accepts it, [u_obs] rejects it, and the monitor reports clause 2. *)
Example mon03_u_obs_is_needed :
  is_marker exb_obs = false /\ replay03 exg_inp exb_obs = [] /\ u_obs exg_inp exb_obs = false /\
  mon03 exg_inp exb_obs = [2%Z].
Proof. vm_compute. repeat split; reflexivity. Qed.

(** likewise [r_obs]: [exr_obs] is [exg_obs] with the read-back of the owed key 0 altered by hand to
    NOT_FOUND (not an observation of the code): the model still accepts it, [r_obs] rejects it, the
    monitor reports clause 1 *)
Example mon03_r_obs_is_needed :
  replay03 exg_inp exr_obs = [] /\ u_obs exg_inp exr_obs = true /\ r_obs exg_inp exr_obs = false /\
  mon03 exg_inp exr_obs = [1%Z].
Proof. vm_compute. repeat split; reflexivity. Qed.
