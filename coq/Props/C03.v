(** C03 — placeholder while the harness is brought up. *)
From BBS Require Import Common.Sx Persist.PBL Persist.Syncer Run.R03.
