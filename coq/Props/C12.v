(** C12 — Sharding: deterministic, order-independent routing with minimal
    disruption.  Statements only; proofs in Sharding/Rendezvous*.v. *)
From Coq Require Import List NArith Lia Permutation.
From BBS Require Import Common.Sx Common.SxFactsMA Common.ListX Generated.Consts
     Sharding.Rendezvous Sharding.RendezvousArith Sharding.RendezvousProofs
     Sharding.MonSilentSel Run.R12 Run.R12Proofs.
Import ListNotations.
Open Scope N_scope.

(** [select cfg h] is the (key hash, weight) pair chosen by the code's
    constructor + GetShard for the shard map [cfg] (pairs in configuration
    order); [valid cfg]: non-empty, distinct key hashes, weights >= 1. *)

(** The fixed-point logarithm never reaches 64<<16, so the score's divisor is
    never zero, and every score is positive (the loop's initial best = 0 is
    therefore never returned by accident). *)
Theorem log2_fixed_below_64 : forall x, x < 2 ^ 64 -> log2_fixed x < N.shiftl 64 16.
Proof. exact log2_fixed_lt. Qed.
Print Assumptions log2_fixed_below_64.

Theorem scores_are_positive : forall x w, x < 2 ^ 64 -> 1 <= w -> 1 <= score x w.
Proof. exact score_pos. Qed.
Print Assumptions scores_are_positive.

(** The chosen shard maximises (score, then smaller key hash) over the set. *)
Theorem chosen_shard_is_the_maximum : forall cfg h,
  valid cfg -> h < 2 ^ 64 ->
  exists p, select cfg h = Some p /\ is_bestP (scoreP h) cfg p.
Proof. exact select_best. Qed.
Print Assumptions chosen_shard_is_the_maximum.

(** The index returned by GetShard designates that shard in configuration order. *)
Theorem returned_index_designates_chosen_shard : forall cfg sel h,
  valid cfg -> h < 2 ^ 64 -> new_selector cfg = Some sel ->
  nth_error cfg (get_shard sel h) = select cfg h.
Proof. exact get_shard_index. Qed.
Print Assumptions returned_index_designates_chosen_shard.

Theorem order_of_shards_is_irrelevant : forall cfg1 cfg2 h,
  valid cfg1 -> h < 2 ^ 64 -> Permutation cfg1 cfg2 -> select cfg1 h = select cfg2 h.
Proof. exact select_perm. Qed.
Print Assumptions order_of_shards_is_irrelevant.

Theorem removing_a_shard_reroutes_only_its_objects : forall cfg k h p,
  valid cfg -> h < 2 ^ 64 -> select cfg h = Some p -> fst p <> k ->
  select (remove_key k cfg) h = Some p.
Proof. exact select_remove. Qed.
Print Assumptions removing_a_shard_reroutes_only_its_objects.

Theorem adding_a_shard_reroutes_only_to_it : forall cfg p h,
  valid cfg -> valid (p :: cfg) -> h < 2 ^ 64 ->
  select (p :: cfg) h = Some p \/ select (p :: cfg) h = select cfg h.
Proof. exact select_add. Qed.
Print Assumptions adding_a_shard_reroutes_only_to_it.

Theorem choice_independent_of_irrelevant_shards : forall cfgS cfgT h p q,
  valid cfgS -> valid cfgT -> h < 2 ^ 64 ->
  select cfgS h = Some p -> select cfgT h = Some q -> In p cfgT -> In q cfgS -> p = q.
Proof. exact select_iia. Qed.
Print Assumptions choice_independent_of_irrelevant_shards.

(** The composite: [route] depends on the leading hash bytes only (there is
    no instance name or operation in its domain); FindMissing. *)
Theorem find_missing_asks_each_shard_only_its_own : forall sel nb oracle ds i p x,
  In (i, p) (fst (find_missing sel nb oracle ds)) -> In x p ->
  exists d, In d ds /\ snd d = x /\ route sel d = i.
Proof. exact fm_asks_own_only. Qed.
Print Assumptions find_missing_asks_each_shard_only_its_own.

Theorem find_missing_asks_about_every_digest : forall sel nb oracle ds d,
  In d ds -> (route sel d < nb)%nat ->
  exists p, In (route sel d, p) (fst (find_missing sel nb oracle ds)) /\ In (snd d) p.
Proof. exact fm_every_digest_asked. Qed.
Print Assumptions find_missing_asks_about_every_digest.

Theorem find_missing_returns_the_union : forall sel nb oracle ds res,
  snd (find_missing sel nb oracle ds) = Some res ->
  strictly_sorted res /\
  forall x, In x res <->
            exists i p m, In (i, p) (fst (find_missing sel nb oracle ds))
                          /\ oracle i p = Some m /\ In x m.
Proof. exact fm_union. Qed.
Print Assumptions find_missing_returns_the_union.

Theorem find_missing_backend_failure_is_not_masked : forall sel nb oracle ds i p,
  In (i, p) (fst (find_missing sel nb oracle ds)) -> oracle i p = None ->
  snd (find_missing sel nb oracle ds) = None.
Proof. exact fm_failure_surfaces. Qed.
Print Assumptions find_missing_backend_failure_is_not_masked.

(** Non-vacuity / documentation: with a zero weight the chosen index does
    depend on the listing order, which is why weights must be non-zero. *)
Example weight0_order_dependent :
  exists cfg1 cfg2 sel1 sel2 h,
    Permutation cfg1 cfg2 /\ new_selector cfg1 = Some sel1 /\ new_selector cfg2 = Some sel2 /\
    nth_error cfg1 (get_shard sel1 h) <> nth_error cfg2 (get_shard sel2 h).
Proof.
  exists [(5, 0); (9, 0)], [(9, 0); (5, 0)].
  eexists. eexists. exists 1. split; [apply perm_swap|].
  split; [vm_compute; reflexivity|]. split; [vm_compute; reflexivity|].
  vm_compute. discriminate.
Qed.

Example valid_example : valid [(5, 1); (9, 4294967295); (2 ^ 64 - 1, 3)].
Proof.
  split; [discriminate|]. split.
  - cbn. repeat constructor; cbn; intuition; discriminate.
  - intros p [<-|[<-|[<-|[]]]]; cbn; split; lia || reflexivity.
Qed.

(** ** The monitors are silent on the model (and on every observation the
    judge accepts as agreeing with it).

    [mon12_sel]/[mon12_ba] are the property as decidable checks on an
    observation.  Selector cases: for every input in which each variant
    accepted by the constructor has weights >= 1 ([wf12_sel]; NO bound on
    hashes or key hashes -- splitmix64 wraps), the monitor does not fire on
    the model's own output.  Blob-access cases: no hypothesis; moreover the
    monitor is silent on every observation [agree12_ba] accepts (a FindMissing
    failure may name any one of the failing shards).  Finally, for the judge
    that the driver runs: "agree" implies "no violation". *)
Theorem monitor_silent_on_model_selector : forall inp, wf12_sel inp -> mon12_sel inp (run12_sel inp) = nil.
Proof. exact mon12_sel_silent. Qed.
Print Assumptions monitor_silent_on_model_selector.

Theorem monitor_silent_on_model_blobaccess : forall inp, mon12_ba inp (run12_ba inp) = nil.
Proof. exact mon12_ba_silent. Qed.
Print Assumptions monitor_silent_on_model_blobaccess.

Theorem monitor_silent_on_allowed_observations : forall inp obs,
  agree12_ba inp obs = true -> mon12_ba inp obs = nil.
Proof. exact mon12_ba_silent_on_allowed. Qed.
Print Assumptions monitor_silent_on_allowed_observations.

Theorem judge_agree_implies_no_violation : forall inp obs,
  (sx_Z (sx_nth inp 0) = 0%Z -> wf12_sel inp) ->
  judged_agree (judge12 inp obs) = true -> judged_violates (judge12 inp obs) = false.
Proof. exact judge12_agree_not_violates. Qed.
Print Assumptions judge_agree_implies_no_violation.

(** [agree12_ba] is literally the agreement computed by [judge12]. *)
Theorem judge_fields_blobaccess : forall inp obs,
  sx_Z (sx_nth inp 0) <> 0%Z ->
  judged_agree (judge12 inp obs) = agree12_ba inp obs /\
  judged_violates (judge12 inp obs) = negb (match mon12_ba inp obs with nil => true | _ => false end).
Proof. exact judge12_ba_fields. Qed.
Print Assumptions judge_fields_blobaccess.

(** The hypothesis is needed: two zero-weight shards listed in both orders
    (the harness would execute this input -- it only refuses weights above
    2^32-1 -- but its generators never emit weight 0 and the property text
    excludes it).  Non-vacuity: a pool with a 70-bit key hash, the maximal
    weight, a 65-bit object hash and a rejected variant meets [wf12_sel]. *)
Example monitor_on_model_needs_nonzero_weights :
  let inp := L [A 0; L [L [A 0; A 5; A 0]; L [A 1; A 9; A 0]]; L [L [A 0; A 1]; L [A 1; A 0]]; L [A 1]]%Z in
  mon12_sel inp (run12_sel inp) = [1%Z].
Proof. exact mon12_sel_needs_nonzero_weights. Qed.

Example wf12_sel_nonvacuous :
  wf12_sel (L [A 0; L [L [A 0; A 5; A 1]; L [A 1; A (2 ^ 70); A 4294967295]; L [A 2; A 5; A 0]];
               L [L [A 0; A 1]; L [A 1; A 0]; L [A 0; A 2]]; L [A 1; A (2 ^ 64)]]%Z).
Proof. exact wf12_sel_example. Qed.
