(** C04P — the persistent-block-list clause of C04: "the region of a released
    block is not handed out for new data ... before a state file that no longer
    lists the block has been durably written.  Conversely, once ... the state
    file has been rewritten the block is allocatable again".

    Statements only; proofs in Persist/ReleaseSafe.v, vocabulary in
    Persist/ReleaseSafeDefs.v, on top of the C07 model (Persist/PBL.v = the
    PersistentBlockList, Persist/Syncer.v = both PeriodicSyncer loops + PopFront
    / PushBack / uploads / clock / shutdown as one transition system).  The
    block list hands a region back to the BlockAllocator only by Block.Release()
    — recorded in [releasedLog]; a region can be handed out by NewBlock only
    after that (allocator theorems of C04: allocator_invariant,
    new_block_never_returns_an_owned_region).  All theorems quantify over every
    configuration, restored state, allocator answer, and EVERY schedule. *)
From Coq Require Import List NArith ZArith.
From BBS Require Import Persist.PBL Persist.PBLProofs Persist.Syncer Persist.SyncerProofs
  Persist.LiveActs Persist.LiveCover Persist.LiveRelease Persist.LiveFair
  Persist.ReleaseSafeDefs Persist.ReleaseSafe.
From BBS Require Import Common.Sx Run.R07 Run.R04P Run.R07MonTop Run.R04PMonAcc Run.R04PMonTraj Run.R04PMonOps Run.R04PMonTop.
Import ListNotations.
Local Open Scope nat_scope.

(** Release() calls happen in PopFront order: after any schedule, the blocks
    popped so far are exactly releasedLog ++ blocksToRelease, the block with
    absolute index i (the (i+1)-th PopFront) at position i. *)
Theorem released_in_pop_order : forall cfg alloc oldest init t0 tr s,
  let s0 := init_sys (fst (pbl_new alloc oldest init)) t0 in
  run cfg s0 tr = Some (Ok s) ->
  totalReleased (s_pbl s) = length (releasedLog (s_pbl s) ++ toRelease (s_pbl s))
  /\ (forall i l, nth_error (releasedLog (s_pbl s) ++ toRelease (s_pbl s)) i = Some l ->
        exists ip, pop_at (trace cfg s0 tr) ip i l)
  /\ (forall ip i l, pop_at (trace cfg s0 tr) ip i l ->
        nth_error (releasedLog (s_pbl s) ++ toRelease (s_pbl s)) i = Some l).
Proof. exact released_in_pop_order_reach. Qed.
Print Assumptions released_in_pop_order.

(** no_reuse_before_state_rewritten.  For every state reachable by any schedule
    and every Block.Release() call made so far (entry i of releasedLog, location
    l): the executed history contains, in this order, the PopFront removing that
    block, the START of a WritePersistentState call whose state does not list
    the block, and the successful COMPLETION of that same call. *)
Theorem no_reuse_before_state_rewritten : forall cfg alloc oldest init t0 tr s i l,
  let s0 := init_sys (fst (pbl_new alloc oldest init)) t0 in
  run cfg s0 tr = Some (Ok s) ->
  nth_error (releasedLog (s_pbl s)) i = Some l ->
  covered (trace cfg s0 tr) i l.
Proof. exact no_reuse_before_state_rewritten_reach. Qed.
Print Assumptions no_reuse_before_state_rewritten.

(** released_blocks_become_allocatable.  Conversely: if the history contains the
    PopFront of block i (step ip), later the start of a state write by loop t
    (step ig) and later that write's NotifyPersistentStateWritten (step iz — the
    step the loop takes when WritePersistentState has returned nil; no other
    state write started in between, so it is that write), then the block HAS
    been Release()d: entry i of releasedLog is its location, in every later
    state.  (A write that fails is retried and one that succeeds is followed by
    this step within a bounded fair stretch: C07 every_release_eventually_committed,
    restated per block below.) *)
Theorem released_blocks_become_allocatable : forall cfg alloc oldest init t0 tr s i l ip ig iz t t' st,
  let s0 := init_sys (fst (pbl_new alloc oldest init)) t0 in
  let h := trace cfg s0 tr in
  run cfg s0 tr = Some (Ok s) ->
  pop_at h ip i l -> ip < ig -> write_starts_at h ig t st -> ig < iz ->
  no_start_between h ig iz -> notified_at h iz t' ->
  t' = t /\ nth_error (releasedLog (s_pbl s)) i = Some l.
Proof. exact released_blocks_become_allocatable_reach. Qed.
Print Assumptions released_blocks_become_allocatable.

(** ... and it does happen: after ANY schedule, for every popped block there is
    a fair extension of at most 10 events (successful I/O, clock advance) after
    which the block has been Release()d — capacity is never permanently lost. *)
Theorem popped_block_eventually_allocatable : forall cfg alloc oldest init t0 tr s ip i l,
  let s0 := init_sys (fst (pbl_new alloc oldest init)) t0 in
  run cfg s0 tr = Some (Ok s) ->
  pop_at (trace cfg s0 tr) ip i l ->
  exists ext s', fair ext = true /\ length ext <= 10 /\ run cfg s ext = Some (Ok s')
    /\ nth_error (releasedLog (s_pbl s')) i = Some l.
Proof. exact popped_block_eventually_allocatable_reach. Qed.
Print Assumptions popped_block_eventually_allocatable.

(** Non-vacuity, and the schedule the seeded change C04-a needs: two blocks;
    PopFront; the release loop takes the state (blocksReleasing = 1) and its
    write is in flight; a second PopFront; the write completes: exactly the
    first block is released, the second stays queued; the next write of the
    release loop (which omits it) releases it. *)
Example straddling_pop_example :
  let cfg := mkConfig 10 3 in
  let s0 := init_sys (fst (pbl_new (fun _ _ => false) 0 nil)) 0 in
  let r := EStep TR (mkAns true 0) in
  let pre := [r; EPushBack (Some (0, 100)%Z); EPushBack (Some (100, 100)%Z); EPopFront; r; r; r; EPopFront] in
  match run cfg s0 pre with
  | Some (Ok s1) =>
      s_r s1 = RW (WWriting (0%N, nil)) /\ toRelease (s_pbl s1) = [(0, 100)%Z; (100, 100)%Z]
      /\ releasing (s_pbl s1) = 1 /\
      match run cfg s1 [r; r] with
      | Some (Ok s2) =>
          releasedLog (s_pbl s2) = [(0, 100)%Z] /\ toRelease (s_pbl s2) = [(100, 100)%Z] /\
          match run cfg s2 [r; r; r; r; r; r] with
          | Some (Ok s3) => releasedLog (s_pbl s3) = [(0, 100)%Z; (100, 100)%Z] /\ toRelease (s_pbl s3) = nil
          | _ => False
          end
      | _ => False
      end
  | _ => False
  end.
Proof. vm_compute. repeat split; reflexivity. Qed.

(** ---- THE MONITOR IS SILENT ON THE MODEL (Run/R04PMon*.v, ~1500 lines, on top
    of the C07 infrastructure Run/R07Mon*.v).  [mon04P] is the clause as a check
    on the implementation's log; [run04Ph inp hints] is the model's own log (PBL.v
    / Syncer.v + the allocator's accounting; the hints only pick the winner of a
    storeLock tie, [run04P inp = run04Ph inp []]).  For every input whose restored
    blocks live at pairwise distinct regions of the device ([dom04P], a decidable
    boolean) and EVERY hint list none of the four clauses fires: (1) a region is
    handed out only when the state durably written last lists no block there;
    (2) every Release() follows the completion of a state write that started
    after the block's PopFront and omits it, once; (3) at quiescent points where
    the last PopFront is covered, free + listed = all regions; (4) no panic.
    Method: the monitor against an abstract accounting of regions (listed /
    waiting for Release() / released / free, the write in flight with the number
    of waiting blocks it recorded), one lemma per log event; the model against the
    same accounting: one quiesce runs at most one NotifyPersistentStateWritten —
    releasing exactly the recorded prefix of blocksToRelease — followed by at
    most one GetPersistentState, whose state lists only blocks of the list. ---- *)
Theorem mon04P_silent_on_model : forall inp hints, dom04P inp = true -> mon04P inp (run04Ph inp hints) = nil.
Proof. exact mon04P_silent_on_model_h. Qed.
Print Assumptions mon04P_silent_on_model.

Theorem mon04P_silent_on_model_run04P : forall inp, dom04P inp = true -> mon04P inp (run04P inp) = nil.
Proof. exact mon04P_silent_on_model_. Qed.
Print Assumptions mon04P_silent_on_model_run04P.

(** Non-vacuity: 3 regions, one restored block at region 0; PopFront; the release
    loop's state write fails, is retried and completes: region 0 is released;
    three PushBacks hand out regions 100, 200 and the freed region 0; a fourth
    PushBack finds no region. *)
Definition mon04P_example_input : sx :=
  (L [L [A 4; A 7; A 0; A 0; L [L [L [A 0; A 100]; A 0; L []; A 1]]];
      L [L [A 3]; L [A 6; A 0]; L [A 7; A 7]; L [A 8; A 0]; L [A 6; A 1]; L [A 4; A 1]; L [A 4; A 1]; L [A 4; A 1]; L [A 4; A 1]];
      L [A 3]])%Z.

Example mon04P_domain_example :
  dom04P mon04P_example_input = true
  /\ is_marker (run04P mon04P_example_input) = false
  /\ length (sx_list (sx_nth (run04P mon04P_example_input) 1)) = 9
  /\ sx_nth (sx_nth (sx_nth (run04P mon04P_example_input) 1) 4) 2
     = L [L [A 5; A 2; A 1]; L [A 2; A 0; A 0; A 0]]%Z     (* write 2 completes, block 0 (region 0) is released *)
  /\ sx_nth (sx_nth (sx_nth (run04P mon04P_example_input) 1) 7) 2
     = L [L [A 1; A 3; A 0]]%Z.                            (* region 0 is handed out again, to block 3 *)
Proof. vm_compute. repeat split; reflexivity. Qed.
