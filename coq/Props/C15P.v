(** C15P — many stream clones consumed in parallel: what each consumer observes
    is independent of the interleaving.  The model ([run15P]) is the
    specification itself; the statements: the monitor (the property on the
    observation alone) accepts it for every valid input, and the model's
    expectations have the shape the property demands. *)
From Coq Require Import List ZArith Bool Lia.
From BBS Require Import Common.Sx Run.R15P Run.R15PProofs.
Import ListNotations.
Open Scope Z_scope.

Theorem monitor_silent_on_model_parallel : forall inp, valid15P inp -> mon15P inp (run15P inp) = [].
Proof. exact mon15P_silent_on_model. Qed.
Print Assumptions monitor_silent_on_model_parallel.

(** every consumer that reads to the end is predicted to receive all [n] bytes *)
Theorem full_readers_get_everything : forall n chunk m,
  reads_all m = true -> sx_Z (sx_nth (expect n chunk m) 1) = n /\ sx_Z (sx_nth (expect n chunk m) 2) = -1.
Proof.
  intros n chunk m H. unfold reads_all in H. unfold expect.
  set (z := sx_Z (sx_nth m 0)) in *.
  destruct (z =? 0) eqn:E0; [split; reflexivity|].
  destruct (z =? 1) eqn:E1; [split; reflexivity|].
  destruct (z =? 2) eqn:E2; [split; reflexivity|discriminate].
Qed.
Print Assumptions full_readers_get_everything.

(** an early closer is predicted to receive exactly the chunks it read *)
Theorem early_closer_gets_its_chunks : forall n chunk k,
  1 <= n -> 1 <= chunk -> 0 <= k -> k <= nchunks n chunk ->
  expect n chunk (L [A 3; A k]) = L [A 0; A (Z.min n (k * chunk)); A (-1)].
Proof.
  intros n chunk k Hn Hc Hk Hle. unfold expect. cbn [sx_nth sx_list nth sx_Z Z.eqb Pos.eqb orb].
  replace (nchunks n chunk <? k) with false by (symmetry; apply Z.ltb_ge; exact Hle). reflexivity.
Qed.
Print Assumptions early_closer_gets_its_chunks.

Example parallel_example :
  let inp := L [A 50; A 24; L [L [A 0]; L [A 3; A 1]; L [A 2]; L [A 4]; L [A 3; A 9]]] in
  run15P inp = L [L [L [A 0; A 50; A (-1)]; L [A 0; A 24; A (-1)]; L [A (-1); A 50; A (-1)]; L [A 0; A 0; A (-1)];
                     L [A (-1); A 50; A (-1)]]; A 1; A 0]
  /\ mon15P inp (run15P inp) = []
  /\ mon15P inp (L [L [L [A 0; A 50; A (-1)]; L [A 0; A 24; A (-1)]; L [A (-1); A 26; A (-1)]; L [A 0; A 0; A (-1)];
                       L [A (-1); A 50; A (-1)]]; A 0; A 1]) = [2; 4; 6]
  /\ mon15P inp (L [A (-2)]) = [1].
Proof. vm_compute. repeat split; reflexivity. Qed.
