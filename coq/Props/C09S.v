(** C09S — stream clones of a CAS buffer obey C09's specification.
    The sub-check's model and monitor are C09's applied to the inner case, so
    every theorem of Props/C09.v speaks about what a clone's consumer observes;
    the statements below make that explicit for the monitor. *)
From Coq Require Import List ZArith.
From BBS Require Import Common.Sx Buffer.Source Run.R09 Run.R09S Buffer.C09FuelSuffices Buffer.C09FuelProps Props.C09.
Import ListNotations.

Theorem clone_model_is_direct_model : forall order inner,
  run09S (L [order; inner]) = run09 inner /\
  (forall obs, mon09S (L [order; inner]) obs = mon09 inner obs).
Proof. intros order inner. split; [reflexivity|intros obs; reflexivity]. Qed.
Print Assumptions clone_model_is_direct_model.

Theorem mon09S_silent_on_model_partial : forall inp,
  (forall x, In (Err x) (k_evs (dec_case (inner09S inp))) -> (0 < x)%Z) ->
  good_param (k_meth (dec_case (inner09S inp))) = true ->
  mon09S inp (run09S inp) = [].
Proof. intros inp H1 H2. exact (mon09_silent_on_model_partial (inner09S inp) H1 H2). Qed.
Print Assumptions mon09S_silent_on_model_partial.
