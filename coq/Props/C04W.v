(** The wiring model of Store/Wiring.v (tied to the real configuration constructor
    by the sub-checks C01W / C05W / C08W) carries C04's theorem to every store the
    constructor builds.  Statement only. *)
From Coq Require Import List NArith ZArith Bool Arith.
From BBS Require Import Common.Sx Store.Model Store.Wf Store.WfTids Store.Wiring Run.RStore Run.R01W Run.R01WProofs.
From BBS Require Props.C04 Props.StoreCombined Store.P04Mon Store.P10Monitor.
(* -- (keeps lib/checklib.py's dependency scan from reading past the sentence) *)
Import ListNotations.

(** for every accepted sane configuration message: C04's monitor (no reuse while
    referenced, no leak at quiescence, buffers released once) is silent on the
    model of the store the constructor builds, for ALL schedules *)
Theorem wired_store_satisfies_C04 : forall inp w,
  wired_world inp = Some w -> wiring_sane (dec_wiring (sx_nth inp 0)) = true -> wf_anc w = true ->
  forall es, P04Mon.mon04_model w es = [].
Proof.
  intros inp w W S A es. apply Props.C04.store_model_satisfies_C04.
  exact (wired_world_wf inp w W S A).
Qed.
Print Assumptions wired_store_satisfies_C04.
