(** Compositions of the store theorems proved separately for C01, C04, C05,
    C08 and C10 (each development was carried out against the same frozen
    model; this file plugs C01's and C04's results into the hypotheses the
    others left open).  Statements and their (short) proofs. *)
From Coq Require Import List NArith ZArith Bool Arith Lia.
From BBS Require Import Common.Sx Store.Model Store.Wf Store.WfTids Run.RStore Run.R01 Run.R05 Run.R10.
From BBS Require Import Store.P01Defs Store.P01Final Store.P10Monitor Store.P05Touch Store.P04Main Store.P04Step.
From BBS Require Props.C04 Props.C05 Props.C08 Props.C10.
Import ListNotations.

(** the two developments' renderings of "C01 monitor on the model" agree *)
Lemma mon01_model_agree w es : P10Monitor.mon01_model w es = dedupZ (P01Defs.mon01_model w es).
Proof. reflexivity. Qed.

(** C10 at full strength: on a hierarchical store, for every well-formed
    world and schedule, the C10 monitor (content, provenance under an
    ancestor-or-self instance name, no integrity error without corruption,
    readability under every descendant while nothing was released) is silent
    on the model. *)
Theorem store_model_satisfies_C10 : forall w es,
  wf_world w = true -> wf_ops w [] es = true -> wf_tids es = true ->
  c_hier (w_cfg w) = true ->
  mon10_model w es = [].
Proof.
  intros w es Hw Ho Ht Hh.
  apply Props.C10.store_model_satisfies_C10_given_C01; [exact Hh|].
  rewrite mon01_model_agree, (P01_final w es Hw Ho Ht). reflexivity.
Qed.
Print Assumptions store_model_satisfies_C10.

(** C05 with C01's integrity theorem plugged in: on the model's own
    observations only the two recorded shortfalls (clauses 5 and 6: findings
    F10 and F11) can ever be reported; clauses 1-4 never fire. *)
Theorem store_model_satisfies_C05_final : forall inp,
  let w := dec_world inp in
  let es := dec_ops inp in
  wf_world w = true -> wf_ops w [] es = true -> wf_tids es = true ->
  forall z, In z (mon05 inp (run_store inp)) -> z = 5%Z \/ z = 6%Z.
Proof.
  intros inp w es Hw Ho Ht.
  apply Props.C05.store_model_satisfies_C05_given_C01; [|exact Ho|exact Ht].
  intros es' Ho' Ht' Hc. exact (proj2 (P01_no_negs w es' Hw Ho' Ht' Hc)).
Qed.
Print Assumptions store_model_satisfies_C05_final.

(** The same for the model's observations carrying the model's own write
    indication (Run/R05.v: [run05], [wrote] - what C05's judge compares with
    the device write count of the implementation): clauses 1, 2 and 3 never
    fire - in particular an immediately repeated Get or single-digest
    FindMissing writes nothing; what can be reported is 4, 5, 6, 7 (the
    recorded findings F8, F10, F11, F12; Props/C05.v clause4/5/6/7_refuted
    show that each of them is reported for some well-formed schedule). *)
Theorem store_model_satisfies_C05_final_with_writes : forall inp,
  let w := dec_world inp in
  let es := dec_ops inp in
  wf_world w = true -> wf_ops w [] es = true -> wf_tids es = true ->
  forall z, In z (mon05 inp (run05 inp)) -> z = 4%Z \/ z = 5%Z \/ z = 6%Z \/ z = 7%Z.
Proof.
  intros inp w es Hw Ho Ht.
  apply Props.C05.store_model_idempotent_C05_given_C01; [|exact Ho|exact Ht].
  intros es' Ho' Ht' Hc. exact (proj2 (P01_no_negs w es' Hw Ho' Ht' Hc)).
Qed.
Print Assumptions store_model_satisfies_C05_final_with_writes.

(** C08 item 5 completed with C04's fuel theorem: in every reachable state of
    a well-formed world (in particular after any number of detections), an
    upload of an object that fits a block is accepted (parks) unless the
    block-device allocator has no free region left. *)
Theorem still_accepts_uploads : forall w es tid o i s' out,
  wf_world w = true ->
  let s := reach w es in
  thr_get (s_threads s) tid = None -> (osize w o <= c_bs (w_cfg w))%N ->
  step w s (OPutStart tid o i) = (s', out) ->
  out = Parked \/
  (out = Done cUnavailable [] /\ in_memory (w_cfg w) = false /\ s_free s' = []).
Proof.
  intros w es tid o i s' out Hw s Hthr Hsz Hstep.
  destruct (Props.C08.still_accepts_uploads_partial w s tid o i s' out Hthr Hsz Hstep) as [H|[H|H]];
    [left; exact H|right; exact H|].
  exfalso.
  pose proof (Props.C04.fuel_suffices w es Hw) as HF. cbn zeta in HF.
  destruct HF as (_ & _ & _ & _ & _ & _ & _ & _ & Hok).
  specialize (Hok (OPutStart tid o i)). fold s in Hok. rewrite Hstep in Hok. cbn [snd] in Hok.
  subst out. cbn [out_ok] in Hok. destruct Hok as [Hneg|[t Heq]]; [lia|discriminate].
Qed.
Print Assumptions still_accepts_uploads.
