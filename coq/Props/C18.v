(** C18 — Authorization: no backend access for a denied instance name.
    Statements only; proofs are in Auth/AuthProofs.v. *)
From BBS Require Import Common.Sx Common.ListX Auth.Auth Auth.AuthProofs Run.R18 Run.R18Proofs.

(** The operational 'any' authorizer (the code's filtering loop, any nesting
    depth, any list of names) computes, for every name, the first member
    verdict that is not a denial, else a denial. *)
Theorem any_spec : forall t names, fst (authorize t names) = map (sem t) names.
Proof. exact authorize_spec. Qed.
Print Assumptions any_spec.

Theorem any_granted_only_if_member_grants : forall ms n,
  allowed (sem (Any ms) n) = true ->
  exists pre m post, ms = pre ++ m :: post /\ allowed (sem m n) = true
                     /\ Forall (fun m' => sem m' n = 7) pre.
Proof. exact any_granted_some_member. Qed.
Print Assumptions any_granted_only_if_member_grants.

Theorem any_grants_when_a_member_grants_and_none_fails : forall ms n,
  (exists m, In m ms /\ allowed (sem m n) = true) ->
  (forall m, In m ms -> sem m n = 0 \/ sem m n = 7) ->
  sem (Any ms) n = 0.
Proof. exact any_grants_if_no_failure. Qed.
Print Assumptions any_grants_when_a_member_grants_and_none_fails.

Theorem any_reports_failure_instead_of_granting : forall pre m post n,
  denied (sem m n) = false -> Forall (fun m' => sem m' n = 7) pre ->
  sem (Any (pre ++ m :: post)) n = sem m n.
Proof. exact any_failure_reported. Qed.
Print Assumptions any_reports_failure_instead_of_granting.

Theorem any_denies_when_all_deny : forall ms n,
  (forall m, In m ms -> sem m n = 7) -> sem (Any ms) n = 7.
Proof. exact any_all_deny. Qed.
Print Assumptions any_denies_when_all_deny.

Theorem backend_reached_only_if_all_names_allowed : forall get put fm o,
  forwarded (authorizing get put fm o) = true ->
  forall n, In n (names_of o) -> sem (tree_of get put fm o) n = 0.
Proof. exact backend_only_if_all_allowed. Qed.
Print Assumptions backend_reached_only_if_all_names_allowed.

Theorem rejected_caller_receives_authorizer_error : forall get put fm o,
  forwarded (authorizing get put fm o) = false ->
  exists n, In n (names_of o) /\ code (authorizing get put fm o) = sem (tree_of get put fm o) n
            /\ allowed (sem (tree_of get put fm o) n) = false.
Proof. exact rejected_gets_authorizer_error. Qed.
Print Assumptions rejected_caller_receives_authorizer_error.

Theorem upload_buffer_passed_on_or_released : forall get put fm n,
  let r := authorizing get put fm (OPut n) in
  (forwarded r = true -> buf r = BufPassedOn) /\
  (forwarded r = false -> buf r = BufDiscarded).
Proof. exact put_buffer_exactly_once. Qed.
Print Assumptions upload_buffer_passed_on_or_released.

(** The monitor used on implementation traces never fires on the model. *)
Theorem monitor_silent_on_model : forall inp, mon18 inp (run18 inp) = [].
Proof. exact R18_monitor_silent. Qed.
Print Assumptions monitor_silent_on_model.

(** Non-vacuity: a nested tree where the second member grants what the first
    denies, and a failure (code 13) that precedes a grant. *)
Example any_example :
  let t := Any [Leaf 0 [7; 13; 7]; Any [Leaf 1 [7; 0; 7]; Leaf 2 [0; 0; 7]]] in
  fst (authorize t [0; 1; 2]%nat) = [0; 13; 7]
  /\ snd (authorize t [0; 1; 2]%nat) = [(0, [0; 1; 2]); (1, [0; 2]); (2, [0; 2])]%nat.
Proof. vm_compute. split; reflexivity. Qed.
