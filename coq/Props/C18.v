(** C18 — Authorization: no backend access for a denied instance name.
    Statements only; proofs are in Auth/AuthProofs.v. *)
From BBS Require Import Common.Sx Common.ListX Routing.Names Routing.Trie
  Auth.Auth Auth.AuthProofs Run.R18 Run.R18Proofs.

(** [nm] maps the name indices used by operations and scripted leaves to the
    instance names (component lists) they stand for; every theorem holds for
    every such map.  Leaves are scripted oracles ([Leaf]) or the static
    authorizer of the policy instance_name_prefix ([Prefix ps]): the real trie
    ([Routing/Trie.v], the C19 model of instance_name_trie.go) filled with the
    allowed prefixes and asked with ContainsPrefix. *)

(** The prefix leaf, operationally (Set every allowed prefix to 0 into an empty
    trie, then the ContainsPrefix loop), grants exactly the names of which some
    allowed prefix is a component-wise prefix — in particular not a strict
    ancestor of an allowed prefix (an interior trie node), and not a name that
    merely extends the last component as a string. *)
Theorem prefix_leaf_spec : forall ps n,
  prefix_answer ps n = if covered ps n then 0 else 7.
Proof. exact prefix_answer_spec. Qed.
Print Assumptions prefix_leaf_spec.

Theorem covered_means_some_allowed_prefix_is_a_prefix : forall ps n,
  covered ps n = true <-> exists p r, In p ps /\ n = p ++ r.
Proof. exact covered_iff. Qed.
Print Assumptions covered_means_some_allowed_prefix_is_a_prefix.

(** The operational 'any' authorizer (the code's filtering loop, any nesting
    depth, any list of names, scripted and prefix leaves) computes, for every name, the first member
    verdict that is not a denial, else a denial. *)
Theorem any_spec : forall nm t names, fst (authorize nm t names) = map (sem nm t) names.
Proof. exact authorize_spec. Qed.
Print Assumptions any_spec.

Theorem any_granted_only_if_member_grants : forall nm ms n,
  allowed (sem nm (Any ms) n) = true ->
  exists pre m post, ms = pre ++ m :: post /\ allowed (sem nm m n) = true
                     /\ Forall (fun m' => sem nm m' n = 7) pre.
Proof. exact any_granted_some_member. Qed.
Print Assumptions any_granted_only_if_member_grants.

Theorem any_grants_when_a_member_grants_and_none_fails : forall nm ms n,
  (exists m, In m ms /\ allowed (sem nm m n) = true) ->
  (forall m, In m ms -> sem nm m n = 0 \/ sem nm m n = 7) ->
  sem nm (Any ms) n = 0.
Proof. exact any_grants_if_no_failure. Qed.
Print Assumptions any_grants_when_a_member_grants_and_none_fails.

Theorem any_reports_failure_instead_of_granting : forall nm pre m post n,
  denied (sem nm m n) = false -> Forall (fun m' => sem nm m' n = 7) pre ->
  sem nm (Any (pre ++ m :: post)) n = sem nm m n.
Proof. exact any_failure_reported. Qed.
Print Assumptions any_reports_failure_instead_of_granting.

Theorem any_denies_when_all_deny : forall nm ms n,
  (forall m, In m ms -> sem nm m n = 7) -> sem nm (Any ms) n = 7.
Proof. exact any_all_deny. Qed.
Print Assumptions any_denies_when_all_deny.

Theorem backend_reached_only_if_all_names_allowed : forall nm get put fm o,
  forwarded (authorizing nm get put fm o) = true ->
  forall n, In n (names_of o) -> sem nm (tree_of get put fm o) n = 0.
Proof. exact backend_only_if_all_allowed. Qed.
Print Assumptions backend_reached_only_if_all_names_allowed.

(** Authorizers made of instance_name_prefix leaves (and 'any') only, stated on
    the allowed prefixes alone: the verdict is a grant iff the union of the
    allowed prefixes covers the name, else PERMISSION_DENIED; the backend is
    reached iff every involved name is covered; a rejection carries code 7. *)
Theorem static_tree_grants_iff_covered : forall nm t,
  static_only t = true ->
  forall n, sem nm t n = if covered (all_prefixes t) (nm n) then 0 else 7.
Proof. exact static_sem. Qed.
Print Assumptions static_tree_grants_iff_covered.

Theorem static_backend_reached_iff_all_names_covered : forall nm get put fm o,
  static_only (tree_of get put fm o) = true ->
  forwarded (authorizing nm get put fm o) =
  forallb (fun n => covered (all_prefixes (tree_of get put fm o)) (nm n)) (names_of o).
Proof. exact static_backend_iff_covered. Qed.
Print Assumptions static_backend_reached_iff_all_names_covered.

Theorem static_rejection_is_permission_denied : forall nm get put fm o,
  static_only (tree_of get put fm o) = true ->
  forwarded (authorizing nm get put fm o) = false ->
  code (authorizing nm get put fm o) = 7.
Proof. exact AuthProofs.static_rejection_is_permission_denied. Qed.
Print Assumptions static_rejection_is_permission_denied.

Theorem rejected_caller_receives_authorizer_error : forall nm get put fm o,
  forwarded (authorizing nm get put fm o) = false ->
  exists n, In n (names_of o) /\ code (authorizing nm get put fm o) = sem nm (tree_of get put fm o) n
            /\ allowed (sem nm (tree_of get put fm o) n) = false.
Proof. exact rejected_gets_authorizer_error. Qed.
Print Assumptions rejected_caller_receives_authorizer_error.

Theorem upload_buffer_passed_on_or_released : forall nm get put fm n,
  let r := authorizing nm get put fm (OPut n) in
  (forwarded r = true -> buf r = BufPassedOn) /\
  (forwarded r = false -> buf r = BufDiscarded).
Proof. exact put_buffer_exactly_once. Qed.
Print Assumptions upload_buffer_passed_on_or_released.

(** The monitor used on implementation traces (clauses 1-5, for every input:
    any trees with scripted and prefix leaves, any name alphabet) never fires
    on the model. *)
Theorem monitor_silent_on_model : forall inp, mon18 inp (run18 inp) = [].
Proof. exact R18_monitor_silent. Qed.
Print Assumptions monitor_silent_on_model.

(** Non-vacuity: a nested tree where the second member grants what the first
    denies, and a failure (code 13) that precedes a grant. *)
Example any_example :
  let t := Any [Leaf 0 [7; 13; 7]; Any [Leaf 1 [7; 0; 7]; Leaf 2 [0; 0; 7]]] in
  fst (authorize (fun _ => []) t [0; 1; 2]%nat) = [0; 13; 7]
  /\ snd (authorize (fun _ => []) t [0; 1; 2]%nat) = [(0, [0; 1; 2]); (1, [0; 2]); (2, [0; 2])]%nat.
Proof. vm_compute. split; reflexivity. Qed.

(** Non-vacuity of the prefix leaf: allowed prefixes team/prod and a; the names
    "", team, team/prod, team/prod/x, team/production, a/b.  Only the prefix
    itself and its descendants are granted; the strict ancestor [team] (an
    interior node of the trie) and the string-extension [team/production] are
    denied.  In a mixed 'any' a scripted failure before the prefix leaf wins. *)
Example prefix_example :
  let team := [116;101;97;109]%N in let prod := [112;114;111;100]%N in
  let production := [112;114;111;100;117;99;116;105;111;110]%N in
  let a := [97]%N in let b := [98]%N in let x := [120]%N in
  let names := [[]; [team]; [team; prod]; [team; prod; x]; [team; production]; [a; b]] in
  let nm := fun i => nth i names [] in
  let t := Prefix [[team; prod]; [a]] in
  fst (authorize nm t [0; 1; 2; 3; 4; 5]%nat) = [7; 7; 0; 0; 7; 0]
  /\ tval (build_trie [[team; prod]; [a]]) = -1
  /\ (exists s, lookup (tch (build_trie [[team; prod]; [a]])) team = Some s /\ tval s = -1)
  /\ fst (authorize nm (Any [Leaf 0 [7; 13; 7]; t; Prefix []]) [0; 1; 2; 3]%nat) = [7; 13; 0; 0]
  /\ forwarded (authorizing nm t t t (OFindMissing [2; 3; 5]%nat)) = true
  /\ forwarded (authorizing nm t t t (OFindMissing [2; 1; 5]%nat)) = false
  /\ mon18 (L [L [A 2; L [L [A 116; A 47; A 112]]]; L []; L []; L [A 0; A 0]; L [L [A 116]]])
            (L [A 1; A 0; A 0; L []]) = [1; 4].
Proof. vm_compute. repeat split; try reflexivity. eexists; split; reflexivity. Qed.
