(** C14F — sub-check of C14: "FindMissingBlobs returns exactly the subset the
    backend reports missing" and "a client and server of this repository
    connected back to back behave like the backend they front", for requests
    that name digests of SEVERAL instance names and digest functions — the
    same blob may be requested under several instance names in one call, and
    the backend's answer is per (instance name, digest function, blob).

    Model: Rpc/FindMissingMulti.v (the client's partitioning by digest
    function, one server RPC [Batch.find_missing] per partition, conversion
    of every answer with the partition's digest function, union; the order
    [ks] of the RPCs — Go map order — is universally quantified). *)
From Coq Require Import List ZArith Bool.
From BBS Require Import Common.Sx Rpc.ByteStream Rpc.Batch Rpc.FindMissingMulti Rpc.FindMissingMultiProofs
  Run.R14 Run.R14F Run.R14FProofs.
Import ListNotations.
Open Scope Z_scope.

(** ** find_missing_exact, for sets over several instance names.  No
    hypothesis on the backend ([missing]: any predicate on qualified
    digests), on the partitions' statuses ([err]) or on the order of the RPCs
    ([ks]: any list that contains the key of every requested digest). *)
Theorem find_missing_exact_multi : forall missing err ks qs ms,
  (forall q, In q qs -> In (qkey q) ks) ->
  client_find_missing missing err ks qs = (0, ms) ->
  forall q, In q ms <-> In q qs /\ missing q = true.
Proof. exact client_find_missing_exact. Qed.
Print Assumptions find_missing_exact_multi.

(** ** client_server_*: client and server back to back answer like the
    backend: OK, with exactly the backend's set. *)
Theorem client_server_find_missing_multi : forall missing ks qs,
  (forall q, In q qs -> 0 <= d_size (q_dig q)) ->
  (forall q, In q qs -> In (qkey q) ks) ->
  exists ms, client_find_missing missing (fun _ => 0) ks qs = (0, ms)
    /\ forall q, In q ms <-> In q qs /\ missing q = true.
Proof. exact client_server_find_missing. Qed.
Print Assumptions client_server_find_missing_multi.

(** A failing call delivers no partial answer; its status is that of a failing RPC. *)
Theorem find_missing_failure_no_partial_answer : forall missing err ks qs c ms,
  client_find_missing missing err ks qs = (c, ms) -> c <> 0 ->
  ms = [] /\ In c (failing_codes missing err ks qs).
Proof. exact client_find_missing_failure. Qed.
Print Assumptions find_missing_failure_no_partial_answer.

Theorem find_missing_status : forall missing err ks qs,
  fst (client_find_missing missing err ks qs) = hd 0 (failing_codes missing err ks qs).
Proof. exact client_find_missing_code. Qed.
Print Assumptions find_missing_status.

(** The statuses that can occur do not depend on the order of the RPCs. *)
Theorem find_missing_statuses_order_independent : forall missing err ks ks' qs c,
  (forall k, In k ks <-> In k ks') ->
  In c (failing_codes missing err ks qs) -> In c (failing_codes missing err ks' qs).
Proof. exact failing_codes_order. Qed.
Print Assumptions find_missing_statuses_order_independent.

(** The partitioning: one RPC per (instance name, digest function) that
    occurs, carrying exactly the requested digests of that key. *)
Theorem partitions_cover : forall qs q, In q qs -> In (qkey q) (keys qs).
Proof. exact keys_cover. Qed.
Print Assumptions partitions_cover.

Theorem partitions_distinct : forall qs, NoDup (keys qs).
Proof. exact keys_nodup. Qed.
Print Assumptions partitions_distinct.

Theorem partition_single_instance : forall k qs q, In q (partition_of k qs) <-> In q qs /\ qkey q = k.
Proof. exact partition_of_in. Qed.
Print Assumptions partition_single_instance.

(** ** The monitor (Run/R14F.v, mon14F) applied to implementation
    observations is silent on every observation the judge accepts as agreeing
    with the model, and on the model's own output: for all histories of Put /
    Get / FindMissing, all instance names and digest functions, all absent
    flags and all failing partitions. *)
Theorem monitor_silent_on_agreeing_observation_multi : forall inp obs,
  inp_wf14F inp -> agree14F inp (run14F inp) obs = true -> mon14F inp obs = [].
Proof. exact mon14F_silent_on_agreeing. Qed.
Print Assumptions monitor_silent_on_agreeing_observation_multi.

Theorem model_outcome_is_accepted_multi : forall inp, agree14F inp (run14F inp) (run14F inp) = true.
Proof. exact agree14F_model. Qed.
Print Assumptions model_outcome_is_accepted_multi.

Theorem monitor_silent_on_model_multi : forall inp, inp_wf14F inp -> mon14F inp (run14F inp) = [].
Proof. exact mon14F_silent_on_model. Qed.
Print Assumptions monitor_silent_on_model_multi.

(** ** Non-vacuity *)

(** One blob requested under three instance names, held under the second
    only: the exact answer has two members that differ in the instance name. *)
Example three_instance_names :
  let h := mkD 1 12 in
  let qs := [mkQ 0 0 h; mkQ 1 0 h; mkQ 2 0 h] in
  let missing q := negb (q_inst q =? 1) in
  (forall q, In q qs -> 0 <= d_size (q_dig q))
  /\ (forall q, In q qs -> In (qkey q) (keys qs))
  /\ client_find_missing missing (fun _ => 0) (keys qs) qs = (0, [mkQ 0 0 h; mkQ 2 0 h])
  /\ client_find_missing missing (fun _ => 0) (rev (keys qs)) qs = (0, [mkQ 2 0 h; mkQ 0 0 h]).
Proof.
  split; [intros q [<-|[<-|[<-|[]]]]; vm_compute; discriminate|].
  split; [intros q [<-|[<-|[<-|[]]]]; vm_compute; auto|].
  split; vm_compute; reflexivity.
Qed.

(** A failing partition: either failing status can be returned, never an answer. *)
Example two_failing_partitions :
  let h := mkD 1 12 in
  let qs := [mkQ 0 0 h; mkQ 1 0 h; mkQ 2 0 h] in
  let err k := if fst k =? 0 then 13 else if fst k =? 2 then 14 else 0 in
  client_find_missing (fun _ => true) err (keys qs) qs = (13, [])
  /\ client_find_missing (fun _ => true) err (rev (keys qs)) qs = (14, [])
  /\ failing_codes (fun _ => true) err (keys qs) qs = [13; 14].
Proof. repeat split; vm_compute; reflexivity. Qed.

(** A history inside the monitor theorem's domain: Put under instance name 1,
    Get under 1 and under 2, FindMissing of the blob under 0, 1, 2. *)
Definition example_history : sx :=
  L [L [L [A 7; A 8; A 9]]; A 2;
     L [L [A 0; A 1; A 0; A 0; A 3];
        L [A 1; A 1; A 0; A 0; A 3];
        L [A 1; A 2; A 0; A 0; A 3];
        L [A 2; L [L [A 0; A 0; A 0; A 3; A 0]; L [A 1; A 0; A 0; A 3; A 0]; L [A 2; A 0; A 0; A 3; A 0]]; L []]]].

Example history_in_domain :
  inp_wf14F example_history
  /\ run14F example_history =
     L [L [L [A 0]; L [A 0; L [A 7; A 8; A 9]]; L [A 5; L []];
           L [A 0; L [L [A 0; A 0; A 0; A 3]; L [A 2; A 0; A 0; A 3]];
              L [L [L [A 0; A 0; A 0; A 3]]; L [L [A 1; A 0; A 0; A 3]]; L [L [A 2; A 0; A 0; A 3]]]; L []]];
        L [L [A 1; A 0; A 0; A 3; L [A 7; A 8; A 9]]]].
Proof.
  split; [|vm_compute; reflexivity].
  split; [vm_compute; lia|].
  repeat constructor; vm_compute; try discriminate.
Qed.

(** The monitor is not trivially silent: the observation produced by a
    client that maps answers back by hash alone (the answer for instance 0 is
    attributed to instance 2, the last one sorted) violates clause 1. *)
Example monitor_fires_on_misattributed_answer :
  mon14F example_history
    (L [L [L [A 0]; L [A 0; L [A 7; A 8; A 9]]; L [A 5; L []];
           L [A 0; L [L [A 2; A 0; A 0; A 3]];
              L [L [L [A 0; A 0; A 0; A 3]]; L [L [A 1; A 0; A 0; A 3]]; L [L [A 2; A 0; A 0; A 3]]]]];
        L [L [A 1; A 0; A 0; A 3; L [A 7; A 8; A 9]]]]) = [1].
Proof. vm_compute. reflexivity. Qed.

(** Every hypothesis of the monitor theorem is needed: with a negative size
    the server answers INVALID_ARGUMENT and clause 1 fires on the model. *)
Example fm_size_needed :
  let inp := L [L [L [A 7]]; A 1; L [L [A 2; L [L [A 0; A 0; A 0; A (-1); A 0]]; L []]]] in
  mon14F inp (run14F inp) = [1].
Proof. vm_compute. reflexivity. Qed.
