(** C11 — mirrored storage (statements only). *)
From BBS Require Import Common.Sx Common.ListX Compose.Mirrored.
