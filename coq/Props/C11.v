(** C11 — Mirrored storage: writes reach both replicas, reads repair,
    existence checks repair, errors are not masked.
    Statements only; proofs are in Compose/Mirrored{Proofs,FM,Hist}.v.

    Quantification: every statement holds for ALL replica contents [st]
    (hence all placements of every object and all states reachable by any
    history), ALL fault oracles [o] (an arbitrary outcome for every replica
    call) unless it says [no_faults o], and both parities of the round
    counter.  The [history_*] theorems quantify over operation lists of any
    length with a fresh oracle per operation. *)
From BBS Require Import Common.Sx Common.ListX Compose.Mirrored
  Compose.MirroredProofs Compose.MirroredFM Compose.MirroredHist
  Compose.MonSilentOp Run.R11 Run.R11Proofs.
Local Open Scope nat_scope.

(** ** Writes reach both replicas *)
Theorem put_ok_both : forall o st d x st' r,
  m_put o st d x = (st', r) -> errs r = [] ->
  lookup (sA st') d = Some x /\ lookup (sB st') d = Some x.
Proof. exact put_ok_both_proof. Qed.
Print Assumptions put_ok_both.

(** The two goroutines of Put touch disjoint replicas: either order gives the
    same state and the same per-branch errors. *)
Theorem put_branches_commute : forall o d x st,
  let '(s1, e1) := put_branch o RA d x st in
  let '(s2, e2) := put_branch o RB d x s1 in
  let '(t1, f1) := put_branch o RB d x st in
  let '(t2, f2) := put_branch o RA d x t1 in
  s2 = t2 /\ e1 = f2 /\ e2 = f1.
Proof. exact put_branches_commute_proof. Qed.
Print Assumptions put_branches_commute.

(** ** Reads *)
(** Absent faults a read succeeds iff at least one replica holds the object;
    it returns the first-consulted replica's content if it has one, else the
    other's; otherwise the answer is a plain NOT_FOUND. *)
Theorem get_iff_either : forall o st d st' r,
  no_faults o -> m_get o st d = (st', r) ->
  (errs r = [] <-> (lookup (sA st) d <> None \/ lookup (sB st) d <> None))
  /\ (errs r <> [] -> errs r = [mkerr NF TNone (other (firstR st))] /\ okv r = [])
  /\ (forall x, lookup (sto st (firstR st)) d = Some x -> okv r = [x])
  /\ (forall x, lookup (sto st (firstR st)) d = None ->
                lookup (sto st (other (firstR st))) d = Some x -> okv r = [x]).
Proof. exact get_iff_either_proof. Qed.
Print Assumptions get_iff_either.

Theorem get_repairs_first_consulted : forall o st d x st' r,
  no_faults o -> m_get o st d = (st', r) ->
  lookup (sto st (firstR st)) d = None ->
  lookup (sto st (other (firstR st))) d = Some x ->
  errs r = [] /\ okv r = [x]
  /\ lookup (sto st' (firstR st)) d = Some x
  /\ sto st' (other (firstR st)) = sto st (other (firstR st))
  /\ (forall d', d' <> d -> lookup (sto st' (firstR st)) d' = lookup (sto st (firstR st)) d').
Proof. exact get_repairs_first_consulted_proof. Qed.
Print Assumptions get_repairs_first_consulted.

(** Under ANY faults: a read that succeeds returns a content one of the
    replicas held, and afterwards the first-consulted replica holds it. *)
Theorem get_ok_sound : forall o st d st' r,
  m_get o st d = (st', r) -> errs r = [] ->
  exists x, okv r = [x]
    /\ (lookup (sto st (firstR st)) d = Some x
        \/ (lookup (sto st (other (firstR st))) d = Some x
            /\ rget o (firstR st) (sto st (firstR st)) d = BErr NF (firstR st)))
    /\ lookup (sto st' (firstR st)) d = Some x.
Proof. exact get_ok_sound_proof. Qed.
Print Assumptions get_ok_sound.

(** ** Existence checks *)
Theorem fm_missing_iff_both_missing : forall o st ds st' r,
  m_fm o st ds = (st', r) -> errs r = [] ->
  forall d, In d (okv r) <-> (In d ds /\ lookup (sA st) d = None /\ lookup (sB st) d = None).
Proof. exact fm_missing_iff_both_missing_proof. Qed.
Print Assumptions fm_missing_iff_both_missing.

Theorem fm_ok_repairs_symmetric_difference : forall o st ds st' r,
  m_fm o st ds = (st', r) -> errs r = [] ->
  forall d, In d ds ->
    (forall x, lookup (sA st) d = Some x -> lookup (sB st) d = None ->
               lookup (sB st') d = Some x /\ lookup (sA st') d = Some x)
    /\ (forall x, lookup (sB st) d = Some x -> lookup (sA st) d = None ->
               lookup (sA st') d = Some x /\ lookup (sB st') d = Some x)
    /\ (lookup (sA st') d = None <-> lookup (sB st') d = None).
Proof. exact fm_ok_repairs_symmetric_difference_proof. Qed.
Print Assumptions fm_ok_repairs_symmetric_difference.

(** Whatever fails (also half-way through a synchronisation): nothing is lost
    or altered, and an object appears in a replica only as the other
    replica's copy of a requested object it lacked. *)
Theorem fm_frame : forall o st ds st' r,
  m_fm o st ds = (st', r) ->
  rnd st' = rnd st /\
  forall y d, lookup (sto st' y) d = lookup (sto st y) d
    \/ (In d ds /\ lookup (sto st y) d = None /\ lookup (sto st (other y)) d <> None
        /\ lookup (sto st' y) d = lookup (sto st (other y)) d).
Proof. exact fm_frame_proof. Qed.
Print Assumptions fm_frame.

Theorem fm_no_faults_ok : forall o st ds st' r,
  no_faults o -> m_fm o st ds = (st', r) -> errs r = [].
Proof. exact fm_no_faults_ok_proof. Qed.
Print Assumptions fm_no_faults_ok.

(** digest.GetDifferenceAndIntersection on sorted sets. *)
Theorem diff_inter_is_difference_and_intersection : forall a b,
  strictly_sorted a -> strictly_sorted b ->
  diff_inter a b = (filter (fun d => negb (mem d b)) a,
                    filter (fun d => mem d b) a,
                    filter (fun d => negb (mem d a)) b).
Proof. exact diff_inter_spec. Qed.
Print Assumptions diff_inter_is_difference_and_intersection.

(** ** Errors are not masked
    For every operation, replica contents and oracle:
    (i) a successful answer means no call the operation made was answered
        with a failure (NOT_FOUND to a lookup is not a failure);
    (ii) NOT_FOUND is reported only by a read to which BOTH replicas
        answered NOT_FOUND (oracles where uploads/existence checks never fail
        with the code NOT_FOUND);
    (iii) every other error names a replica. *)
Theorem errors_not_masked : forall o st p st' r,
  step o st p = (st', r) ->
  (errs r = [] -> forall c, In c (calls r) -> benign o c)
  /\ (wf_oracle o -> forall e, In e (errs r) -> ecode e = NF ->
        exists d, p = OGet d /\ both_answer_nf o st d)
  /\ (forall e, In e (errs r) -> ecode e <> NF -> etag_of e <> TNone).
Proof. exact errors_not_masked_proof. Qed.
Print Assumptions errors_not_masked.

(** The same in the direction "a failure surfaces".  The single exception is
    spelled out: the repair upload issued for an object that neither replica
    returned receives an error buffer and its outcome is discarded by the
    code; the read then (correctly) still reports NOT_FOUND. *)
Theorem failure_surfaces : forall o st p st' r c,
  step o st p = (st', r) -> wf_oracle o ->
  In c (calls r) -> ocall o c <> 0%Z -> ocall o c <> NF ->
  errs r <> []
  /\ ((forall e, In e (errs r) -> ecode e <> NF /\ etag_of e <> TNone)
      \/ (exists d, p = OGet d /\ both_answer_nf o st d /\ snd (fst c) = KPut)).
Proof. exact failure_surfaces_proof. Qed.
Print Assumptions failure_surfaces.

(** Exact attribution for reads (c a failure other than NOT_FOUND).  Note the
    third: a failing repair upload on the FIRST-consulted replica is reported
    under the name of the SECOND backend (the replication source), with the
    code kept and nothing stored. *)
Theorem get_first_failure_named : forall o st d st' r c,
  m_get o st d = (st', r) -> c <> 0%Z -> c <> NF -> o (firstR st) KGet d = c ->
  errs r = [mkerr c (TBackend (firstR st)) (firstR st)].
Proof. exact get_first_failure. Qed.
Print Assumptions get_first_failure_named.

Theorem get_second_failure_named : forall o st d st' r c,
  m_get o st d = (st', r) -> c <> 0%Z -> c <> NF ->
  rget o (firstR st) (sto st (firstR st)) d = BErr NF (firstR st) ->
  o (other (firstR st)) KGet d = c ->
  errs r = [mkerr c (TBackend (other (firstR st))) (other (firstR st))].
Proof. exact get_second_failure. Qed.
Print Assumptions get_second_failure_named.

Theorem get_repair_failure_named : forall o st d st' r c x,
  m_get o st d = (st', r) -> c <> 0%Z -> c <> NF ->
  rget o (firstR st) (sto st (firstR st)) d = BErr NF (firstR st) ->
  rget o (other (firstR st)) (sto st (other (firstR st))) d = BData x ->
  o (firstR st) KPut d = c ->
  errs r = [mkerr c (TBackend (other (firstR st))) (firstR st)]
  /\ sA st' = sA st /\ sB st' = sB st.
Proof. exact get_repair_failure. Qed.
Print Assumptions get_repair_failure_named.

(** ** Histories *)
Theorem history_presence : forall h st st' rs y d,
  run st h = (st', rs) -> lookup (sto st y) d <> None -> lookup (sto st' y) d <> None.
Proof. exact history_presence_proof. Qed.
Print Assumptions history_presence.

Theorem history_provenance : forall h st st' rs y d v,
  run st h = (st', rs) -> lookup (sto st' y) d = Some v ->
  lookup (sA st) d = Some v \/ lookup (sB st) d = Some v \/ exists o, In (o, OPut d v) h.
Proof. exact history_provenance_proof. Qed.
Print Assumptions history_provenance.

Theorem history_put_persists : forall h1 o d x h2 st st1 rs1 st2 r st3 rs3,
  run st h1 = (st1, rs1) -> step o st1 (OPut d x) = (st2, r) -> errs r = [] ->
  run st2 h2 = (st3, rs3) ->
  run st (h1 ++ (o, OPut d x) :: h2) = (st3, rs1 ++ r :: rs3)
  /\ lookup (sA st3) d <> None /\ lookup (sB st3) d <> None.
Proof. exact history_put_persists_proof. Qed.
Print Assumptions history_put_persists.

(** Invariant relating the replicas: agreement on the presence of [d]
    survives every history in which no upload of [d] fails (a failed upload
    may have reached one replica only; the next existence check or read of
    [d] re-establishes it, [fm_ok_repairs_symmetric_difference]). *)
Theorem history_synced : forall h st st' rs d,
  run st h = (st', rs) -> synced st d ->
  (forall i o x r, nth_error h i = Some (o, OPut d x) -> nth_error rs i = Some r -> errs r = []) ->
  synced st' d.
Proof. exact history_synced_proof. Qed.
Print Assumptions history_synced.

(** The replica consulted first alternates. *)
Theorem history_alternation : forall h st st' rs,
  run st h = (st', rs) -> rnd st' = rnd st + length (filter bump_op (map snd h)).
Proof. exact history_alternation_proof. Qed.
Print Assumptions history_alternation.

Theorem step_consults_by_parity : forall o st p st' r,
  step o st p = (st', r) ->
  if bump_op p then rnd st' = S (rnd st) /\ first_called (calls r) = first_of (S (rnd st))
  else rnd st' = rnd st.
Proof. exact step_rnd. Qed.
Print Assumptions step_consults_by_parity.

Theorem first_consulted_alternates : forall n, first_of (S n) = other (first_of n).
Proof. exact first_of_alternates. Qed.
Print Assumptions first_consulted_alternates.

(** ** Non-vacuity *)
Definition ofault (r0 : rid) (k0 : kind) (d0 : nat) (c : Z) : oracle :=
  fun r k d => if rid_eqb r r0 && kind_eqb k k0 && Nat.eqb d d0 then c else 0%Z.
Definition ok0 : oracle := fun _ _ _ => 0%Z.

(** B consulted first (round 1 -> 2), object only in A: repaired into B. *)
Example ex_read_repair :
  let st := mkst [(0, 7)] [] 1 in
  let '(st', r) := m_get ok0 st 0 in
  errs r = [] /\ okv r = [7] /\ lookup (sB st') 0 = Some 7
  /\ calls r = [(RB, KGet, 0); (RA, KGet, 0); (RB, KPut, 0)].
Proof. vm_compute. repeat split. Qed.

(** The repair upload fails UNAVAILABLE: code kept, second backend named. *)
Example ex_repair_fails :
  let st := mkst [(0, 7)] [] 1 in
  let '(st', r) := m_get (ofault RB KPut 0 14%Z) st 0 in
  errs r = [mkerr 14%Z (TBackend RA) RB] /\ sB st' = [].
Proof. vm_compute. repeat split. Qed.

(** A-only, B-only, both, neither: one existence check. *)
Example ex_find_missing :
  let st := mkst [(0, 1); (2, 3)] [(1, 2); (2, 3)] 0 in
  let '(st', r) := m_fm ok0 st [3; 0; 2; 1; 0] in
  errs r = [] /\ okv r = [3]
  /\ lookup (sB st') 0 = Some 1 /\ lookup (sA st') 1 = Some 2
  /\ lookup (sA st') 3 = None /\ lookup (sB st') 3 = None.
Proof. vm_compute. repeat split. Qed.

(** The source lost the object between FindMissing and Get: INTERNAL,
    "Backend A returned inconsistent results". *)
Example ex_inconsistent_source_is_internal :
  let st := mkst [(0, 1)] [] 0 in
  let '(st', r) := m_fm (ofault RA KGet 0 NF) st [0] in
  errs r = [mkerr INTERNAL (TIncons RA) RA] /\ okv r = [] /\ sB st' = [].
Proof. vm_compute. repeat split. Qed.

(** An upload that reaches A only, then the existence check heals it. *)
Example ex_history :
  let h := [(ofault RB KPut 0 14%Z, OPut 0 5); (ok0, OCap); (ok0, OFM [0]); (ok0, OGet 0)] in
  let '(st', rs) := run (mkst [] [] 0) h in
  map (fun r => is_nil (errs r)) rs = [false; true; true; true]
  /\ lookup (sA st') 0 = Some 5 /\ lookup (sB st') 0 = Some 5 /\ rnd st' = 2.
Proof. vm_compute. repeat split. Qed.

(** ** The property monitor is silent on the model and on every observation
    the judge accepts (proofs: Compose/MonSilentOp.v, Run/R11Proofs.v).

    One operation, at the level of the model: every clause of [check_op] and
    the alternation clause hold on a step of the model, for ALL replica
    contents, oracles and operations, and for every result [r] that shares
    with the model's result [rm] the answer, success/failure, any subset of
    its errors and the set of its replica calls (the same list for the
    alternating operations): exactly the freedom the two goroutines of
    Put/FindMissing leave. *)
Theorem monitor11_silent_on_one_step : forall n o st p st' rm r,
  step o st p = (st', rm) -> obs_rel p rm r ->
  check_op n o (sA st) (sB st) p r (sA st') (sB st') = nil /\ check_alt (rnd st) p r = nil.
Proof. exact mon11_one_step. Qed.
Print Assumptions monitor11_silent_on_one_step.

(** The monitor on whole traces, as the driver runs it.  [wf11_range inp]:
    every digest mentioned by an operation is below the universe size (the
    observation carries the replica contents for digests 0..n-1 only). *)
Theorem monitor11_silent_on_model : forall inp,
  wf11_range inp = true -> mon11 inp (run11 inp) = nil.
Proof. exact mon11_silent_on_model. Qed.
Print Assumptions monitor11_silent_on_model.

(** Every observation [agree_ops] accepts (any ONE of the model's errors; for
    Put/FindMissing any order of the call log, compared through [call_key]).
    [wf11_keys inp]: the digests of Put/FindMissing operations are below
    100000 ([call_key] packs the digest below that); [wf11_calls]: the call
    log observed for a Put/FindMissing consists of well-formed encodings
    (replica 0/1, kind 0..3, digest 0..99999). *)
Theorem monitor11_silent_on_allowed_observations : forall inp obs,
  wf11_range inp = true -> wf11_keys inp = true ->
  wf11_calls (sx_list (sx_nth inp 3)) (sx_list obs) = true ->
  is_panic obs = false ->
  agree_ops (sx_nat (sx_nth inp 0)) (init_state inp) (sx_list (sx_nth inp 3)) (sx_list obs) = true ->
  mon11 inp obs = nil.
Proof. exact mon11_silent_on_allowed. Qed.
Print Assumptions monitor11_silent_on_allowed_observations.

(** For the judge the driver runs: "agree" implies "no violation". *)
Theorem judge11_agree_implies_no_violation : forall inp obs,
  wf11_range inp = true -> wf11_keys inp = true ->
  wf11_calls (sx_list (sx_nth inp 3)) (sx_list obs) = true ->
  verdict_agree (judge11 inp obs) = true -> verdict_violates (judge11 inp obs) = false.
Proof. exact judge11_agree_not_violates. Qed.
Print Assumptions judge11_agree_implies_no_violation.

(** Non-vacuity: an existence check that repairs, an upload both of whose
    branches fail, a read; the observation reports the OTHER branch's error
    and logs the calls in another order than the model: all hypotheses hold,
    the judge agrees, the observation is not the model's output. *)
Definition c11_inp1 : sx :=
  L [A 2; L [A 7; A (-1)]; L [A (-1); A (-1)];
     L [L [A 2; L []; L [A 0; A 1]];
        L [A 1; L [L [A 0; A 1; A 1; A 14]; L [A 1; A 1; A 1; A 13]]; A 1; A 3; A 0];
        L [A 0; L []; A 0]]].
Definition c11_obs1 : sx :=
  L [L [A 1; L [A 1]; A 0; A 0; A 0;
        L [L [A 1; A 2; A 0]; L [A 0; A 0; A 0]; L [A 0; A 2; A 0]; L [A 1; A 1; A 0]];
        L [A 7; A (-1)]; L [A 7; A (-1)]];
     L [A 0; L []; A 13; A 2; A 2; L [L [A 1; A 1; A 1]; L [A 0; A 1; A 1]];
        L [A 7; A (-1)]; L [A 7; A (-1)]];
     L [A 1; L [A 7]; A 0; A 0; A 0; L [L [A 0; A 0; A 0]]; L [A 7; A (-1)]; L [A 7; A (-1)]]].
Example ex_allowed_observation :
  wf11_range c11_inp1 = true /\ wf11_keys c11_inp1 = true
  /\ wf11_calls (sx_list (sx_nth c11_inp1 3)) (sx_list c11_obs1) = true
  /\ is_panic c11_obs1 = false
  /\ agree_ops (sx_nat (sx_nth c11_inp1 0)) (init_state c11_inp1)
       (sx_list (sx_nth c11_inp1 3)) (sx_list c11_obs1) = true
  /\ sx_eqb (run11 c11_inp1) c11_obs1 = false
  /\ mon11 c11_inp1 c11_obs1 = nil.
Proof. vm_compute. repeat split. Qed.

(** *** Each hypothesis is needed.

    [wf11_range] (the harness refuses such inputs: [Exec] requires exactly n
    initial atoms per replica and every digest in 0..n-1).  On the model's
    own output: an upload of digest 1 with n = 1 (the observation cannot show
    it: clause 2); with replica A initially holding digest 1 beyond n = 1, a
    read of it (clause 3) and an existence check (clause 5). *)
Example range_needed_put :
  let inp := L [A 1; L [A (-1)]; L [A (-1)]; L [L [A 1; L []; A 1; A 5; A 0]]] in
  wf11_range inp = false /\ mon11 inp (run11 inp) = [2%Z].
Proof. vm_compute. split; reflexivity. Qed.
Example range_needed_get :
  let inp := L [A 1; L [A (-1); A 5]; L [A (-1)]; L [L [A 0; L []; A 1]]] in
  wf11_range inp = false /\ mon11 inp (run11 inp) = [3%Z].
Proof. vm_compute. split; reflexivity. Qed.
Example range_needed_fm :
  let inp := L [A 1; L [A (-1); A 5]; L [A (-1)]; L [L [A 2; L []; L [A 1]]]] in
  wf11_range inp = false /\ mon11 inp (run11 inp) = [5%Z].
Proof. vm_compute. split; reflexivity. Qed.

(** [wf11_calls] (the harness cannot produce such a log: it writes replica
    0/1, kind 0..3 and a digest of the universe).  A successful upload of
    digest 0; the oracle fails a call the operation never makes.  The
    observed log [(0 1 0) (0 11 0)] has the keys of the model's log
    [(0 1 0) (1 1 0)] (0*10^6+11*10^5 = 1*10^6+1*10^5), so the judge agrees,
    but it decodes to (A, GetCapabilities, 0), a failed call: clause 7.
    Likewise with the out-of-range digest 100000: (0 0 100000) has the key of
    (0 1 0). *)
Example calls_wf_needed :
  let inp := L [A 1; L [A (-1)]; L [A (-1)]; L [L [A 1; L [L [A 0; A 3; A 0; A 14]]; A 0; A 5; A 0]]] in
  let obs := L [L [A 1; L []; A 0; A 0; A 0; L [L [A 0; A 1; A 0]; L [A 0; A 11; A 0]]; L [A 5]; L [A 5]]] in
  wf11_range inp = true /\ wf11_keys inp = true
  /\ wf11_calls (sx_list (sx_nth inp 3)) (sx_list obs) = false /\ is_panic obs = false
  /\ agree_ops (sx_nat (sx_nth inp 0)) (init_state inp) (sx_list (sx_nth inp 3)) (sx_list obs) = true
  /\ mon11 inp (run11 inp) = nil /\ mon11 inp obs = [7%Z].
Proof. vm_compute. repeat split. Qed.
Example calls_digest_bound_needed :
  let inp := L [A 1; L [A (-1)]; L [A (-1)]; L [L [A 1; L [L [A 0; A 0; A 100000; A 14]]; A 0; A 5; A 0]]] in
  let obs := L [L [A 1; L []; A 0; A 0; A 0; L [L [A 0; A 0; A 100000]; L [A 1; A 1; A 0]]; L [A 5]; L [A 5]]] in
  wf11_range inp = true /\ wf11_keys inp = true
  /\ wf11_calls (sx_list (sx_nth inp 3)) (sx_list obs) = false /\ is_panic obs = false
  /\ agree_ops (sx_nat (sx_nth inp 0)) (init_state inp) (sx_list (sx_nth inp 3)) (sx_list obs) = true
  /\ mon11 inp (run11 inp) = nil /\ mon11 inp obs = [7%Z].
Proof. vm_compute. repeat split. Qed.

(** [wf11_keys] (the harness bounds the universe by 6).  With every digest
    in range it can only fail for a universe above 100000, where evaluating
    the monitor costs ~10^10 steps; so the witness is a theorem for every
    [n] > [d] = 100000: an upload of [d] whose B branch is answered
    NOT_FOUND, observed with the call log [(0 2 0) (1 2 0)] (the keys of
    the model's [(0 1 d) (1 1 d)]): all other hypotheses hold, the judge
    agrees, the monitor is silent on the model's output and clause 8 fires
    on the observation.  The second example is the same collision at n = 1
    (cheap to evaluate, but out of range as well). *)
Theorem keys_needed : forall n d, Z.of_nat d = 100000%Z -> d < n ->
  wf11_range (kn_inp n) = true
  /\ wf11_keys (kn_inp n) = false
  /\ wf11_calls (sx_list (sx_nth (kn_inp n) 3)) (sx_list (kn_obs n d)) = true
  /\ is_panic (kn_obs n d) = false
  /\ agree_ops (sx_nat (sx_nth (kn_inp n) 0)) (init_state (kn_inp n))
       (sx_list (sx_nth (kn_inp n) 3)) (sx_list (kn_obs n d)) = true
  /\ mon11 (kn_inp n) (run11 (kn_inp n)) = nil
  /\ In 8%Z (mon11 (kn_inp n) (kn_obs n d)).
Proof. exact keys_hypothesis_needed. Qed.
Print Assumptions keys_needed.
Example keys_needed_instance :
  let n := Z.to_nat 100001 in let d := Z.to_nat 100000 in
  wf11_range (kn_inp n) = true /\ wf11_keys (kn_inp n) = false
  /\ In 8%Z (mon11 (kn_inp n) (kn_obs n d)).
Proof.
  cbv zeta.
  destruct (keys_hypothesis_needed (Z.to_nat 100001) (Z.to_nat 100000)) as (H1 & H2 & _ & _ & _ & _ & H7).
  - apply Z2Nat.id. discriminate.
  - apply Z2Nat.inj_lt; [discriminate|discriminate|reflexivity].
  - exact (conj H1 (conj H2 H7)).
Qed.
Example keys_needed_small :
  let inp := L [A 1; L [A (-1)]; L [A (-1)]; L [L [A 1; L [L [A 1; A 1; A 100000; A 5]]; A 100000; A 5; A 0]]] in
  let obs := L [L [A 0; L []; A 5; A 2; A 2; L [L [A 0; A 2; A 0]; L [A 1; A 2; A 0]]; L [A (-1)]; L [A (-1)]]] in
  wf11_keys inp = false
  /\ wf11_calls (sx_list (sx_nth inp 3)) (sx_list obs) = true /\ is_panic obs = false
  /\ agree_ops (sx_nat (sx_nth inp 0)) (init_state inp) (sx_list (sx_nth inp 3)) (sx_list obs) = true
  /\ mon11 inp (run11 inp) = nil /\ mon11 inp obs = [8%Z].
Proof. vm_compute. repeat split. Qed.
