(** C07 — Persistence never stalls: every upload and block release gets
    committed.  Statements only; proofs are in Persist/PBLProofs.v and
    Persist/SyncerProofs.v.  The transition system ([Syncer.step], [run]) has
    one event per atomic step: upload Put / finalizer, PopFront, PushBack, one
    lock-protected section or I/O completion (success/failure) or timer expiry
    or channel wait of either syncer loop, clock advance, context
    cancellation.  [reachable] = reachable by ANY schedule (event list) from
    the state produced by NewPersistentBlockList + NewPeriodicSyncer, for any
    persistent state, any allocator answers, any hash seeds. *)
From BBS Require Import Common.Sx Persist.PBL Persist.PBLProofs Persist.Syncer Persist.SyncerProofs Run.R07.
Local Open Scope nat_scope.

(** No schedule makes any step panic: in particular no wake-up channel is
    closed twice, no slice/index goes out of range. *)
Theorem no_panic : forall cfg alloc oldest init t0 tr,
  run cfg (init_sys (fst (pbl_new alloc oldest init)) t0) tr <> Some Panic.
Proof. exact no_panic_all_schedules. Qed.
Print Assumptions no_panic.

Theorem close_once : forall cfg alloc oldest init t0 s, reachable cfg alloc oldest init t0 s ->
  NoDup (ch_closed (heap (s_pbl s))).
Proof. exact close_once_reach. Qed.
Print Assumptions close_once.

(** The current put wake-up channel is closed exactly while some epoch is not
    yet synchronized (unabsorbed upload work). *)
Theorem wakeup_put : forall cfg alloc oldest init t0 s, reachable cfg alloc oldest init t0 s ->
  (synchronizedEpochs (s_pbl s) < length (epochSeeds (s_pbl s)) -> put_chan_closed (s_pbl s) = true) /\
  (synchronizedEpochs (s_pbl s) = length (epochSeeds (s_pbl s)) -> put_chan_closed (s_pbl s) = false).
Proof. exact wakeup_put_reach. Qed.
Print Assumptions wakeup_put.

(** The current release wake-up channel is closed exactly while some popped
    block has not been released. *)
Theorem wakeup_release : forall cfg alloc oldest init t0 s, reachable cfg alloc oldest init t0 s ->
  (toRelease (s_pbl s) <> [] -> release_chan_closed (s_pbl s) = true) /\
  (toRelease (s_pbl s) = [] -> release_chan_closed (s_pbl s) = false).
Proof. exact wakeup_release_reach. Qed.
Print Assumptions wakeup_release.
