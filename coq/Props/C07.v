(** C07 — Persistence never stalls: every upload and block release gets
    committed.  Statements only; proofs are in Persist/PBLProofs.v and
    Persist/SyncerProofs.v.  The transition system ([Syncer.step], [run]) has
    one event per atomic step: upload Put / finalizer, PopFront, PushBack, one
    lock-protected section or I/O completion (success/failure) or timer expiry
    or channel wait of either syncer loop, clock advance, context
    cancellation.  [reachable] = reachable by ANY schedule (event list) from
    the state produced by NewPersistentBlockList + NewPeriodicSyncer, for any
    persistent state, any allocator answers, any hash seeds. *)
From BBS Require Import Common.Sx Persist.PBL Persist.PBLProofs Persist.Syncer Persist.SyncerProofs Run.R07.
Local Open Scope nat_scope.

(** No schedule makes any step panic: in particular no wake-up channel is
    closed twice, no slice/index goes out of range. *)
Theorem no_panic : forall cfg alloc oldest init t0 tr,
  run cfg (init_sys (fst (pbl_new alloc oldest init)) t0) tr <> Some Panic.
Proof. exact no_panic_all_schedules. Qed.
Print Assumptions no_panic.

Theorem close_once : forall cfg alloc oldest init t0 s, reachable cfg alloc oldest init t0 s ->
  NoDup (ch_closed (heap (s_pbl s))).
Proof. exact close_once_reach. Qed.
Print Assumptions close_once.

(** The current put wake-up channel is closed exactly while some epoch is not
    yet synchronized (unabsorbed upload work). *)
Theorem wakeup_put : forall cfg alloc oldest init t0 s, reachable cfg alloc oldest init t0 s ->
  (synchronizedEpochs (s_pbl s) < length (epochSeeds (s_pbl s)) -> put_chan_closed (s_pbl s) = true) /\
  (synchronizedEpochs (s_pbl s) = length (epochSeeds (s_pbl s)) -> put_chan_closed (s_pbl s) = false).
Proof. exact wakeup_put_reach. Qed.
Print Assumptions wakeup_put.

(** The current release wake-up channel is closed exactly while some popped
    block has not been released. *)
Theorem wakeup_release : forall cfg alloc oldest init t0 s, reachable cfg alloc oldest init t0 s ->
  (toRelease (s_pbl s) <> [] -> release_chan_closed (s_pbl s) = true) /\
  (toRelease (s_pbl s) = [] -> release_chan_closed (s_pbl s) = false).
Proof. exact wakeup_release_reach. Qed.
Print Assumptions wakeup_release.

(** No missed notification: a channel a loop still holds is the current one
    or is already closed (stale channels are closed); hence a loop never
    waits on an open channel while work is pending. *)
Theorem stale_channels_closed_and_no_missed_wakeup :
  forall cfg alloc oldest init t0 s, reachable cfg alloc oldest init t0 s ->
  (forall c, s_r s = RWait c -> c <> get_release_wakeup (s_pbl s) -> is_closed (heap (s_pbl s)) c = true) /\
  (forall c, s_p s = PSelect c \/ s_p s = PIdle c -> c <> get_put_wakeup (s_pbl s) ->
             is_closed (heap (s_pbl s)) c = true) /\
  (forall c, s_r s = RWait c -> toRelease (s_pbl s) <> nil -> is_closed (heap (s_pbl s)) c = true) /\
  (forall c, s_p s = PSelect c \/ s_p s = PIdle c ->
             synchronizedEpochs (s_pbl s) < length (epochSeeds (s_pbl s)) ->
             is_closed (heap (s_pbl s)) c = true).
Proof. exact no_missed_wakeup_reach. Qed.
Print Assumptions stale_channels_closed_and_no_missed_wakeup.

(** No stall (release): whenever a popped block awaits release, the release
    loop can step on its own, or waits for its WritePersistentState call, or
    sleeps after a failed write, or waits for storeLock held by the put loop
    which is then runnable or in its own I/O call. *)
Theorem release_never_stalls : forall cfg alloc oldest init t0 s, reachable cfg alloc oldest init t0 s ->
  toRelease (s_pbl s) <> nil -> r_progress cfg s.
Proof. exact release_progress_reach. Qed.
Print Assumptions release_never_stalls.

(** No stall (put): whenever an epoch is not yet synchronized, the put loop
    can step on its own, waits for I/O, waits for a timer (interval or
    retry), has returned (shutdown), or waits for storeLock held by the
    release loop which is then runnable or in its I/O call. *)
Theorem put_never_stalls : forall cfg alloc oldest init t0 s, reachable cfg alloc oldest init t0 s ->
  synchronizedEpochs (s_pbl s) < length (epochSeeds (s_pbl s)) -> p_progress cfg s.
Proof. exact put_progress_reach. Qed.
Print Assumptions put_never_stalls.

(** The release loop contains no minimum-interval wait: its step function is
    the same for every minimumEpochInterval (with [release_never_stalls]: it
    is never blocked behind the put loop's interval timer either, because the
    put loop holds storeLock only inside writePersistentState). *)
Theorem release_not_delayed_by_interval : forall cfg cfg' a s,
  c_retry cfg = c_retry cfg' -> rstep cfg a s = rstep cfg' a s.
Proof. exact release_independent_of_interval. Qed.
Print Assumptions release_not_delayed_by_interval.

(** Consecutive sync schedule times (timer expiries recorded in
    lastSynchronizationTime, i.e. syncs started while running) are at least
    minimumEpochInterval apart; the first at least one interval after t0. *)
Theorem min_interval : forall cfg alloc oldest init t0 s, reachable cfg alloc oldest init t0 s ->
  gaps_ok (c_interval cfg) t0 (s_sched s).
Proof. exact min_interval_reach. Qed.
Print Assumptions min_interval.

(** Transient failures are retried: a failed state write releases storeLock,
    sleeps errorRetryInterval and re-enters writePersistentState; a failed
    data sync sleeps and calls the DataSyncer again (without a new
    NotifySyncStarting). *)
Theorem failed_state_write_is_retried : forall cfg s st t,
  s_r s = RW (WWriting st) ->
  exists s1, step cfg s (EStep TR (mkAns false t)) = Some (Ok s1)
    /\ s_r s1 = RW (WSleep (s_now s + c_retry cfg)) /\ s_store s1 = None /\ s_pbl s1 = s_pbl s
    /\ (forall s2 a, step cfg s1 (EStep TR a) = Some (Ok s2) -> s_r s2 = RW WAcquire).
Proof. exact failed_write_is_retried. Qed.
Print Assumptions failed_state_write_is_retried.

Theorem failed_data_sync_is_retried : forall cfg s keep final t,
  s_p s = PSyncing keep final ->
  exists s1, step cfg s (EStep TP (mkAns false t)) = Some (Ok s1)
    /\ s_p s1 = PSyncSleep keep final (s_now s + c_retry cfg) /\ s_pbl s1 = s_pbl s
    /\ (forall s2 a, step cfg s1 (EStep TP a) = Some (Ok s2) -> s_p s2 = PSyncing keep final).
Proof. exact failed_sync_is_retried. Qed.
Print Assumptions failed_data_sync_is_retried.

(** Ranking on the loops' program counters, per commit cycle (PARTIAL, see the
    note below): every own step of a loop that is not a failed I/O call
    strictly decreases the loop's rank, or it is the last step of
    writePersistentState — NotifyPersistentStateWritten, which releases exactly
    the blocks recorded by the preceding GetPersistentState; a failed I/O call
    raises the rank by at most 3 (and is retried, see above); steps of all other
    threads and of the environment leave the rank unchanged. *)
Theorem release_rank_partial : forall cfg alloc oldest init t0 s, reachable cfg alloc oldest init t0 s ->
  (forall a s', step cfg s (EStep TR a) = Some (Ok s') ->
     if r_fails s a then r_dist s' <= r_dist s + 3
     else r_dist s' < r_dist s \/
          (s_r s = RW WWritten /\ s_r s' = RStart /\
           releasedLog (s_pbl s') = releasedLog (s_pbl s) ++ firstn (releasing (s_pbl s)) (toRelease (s_pbl s))))
  /\ (forall e s', (forall a, e <> EStep TR a) -> step cfg s e = Some (Ok s') -> r_dist s' = r_dist s).
Proof. exact release_rank_reach. Qed.
Print Assumptions release_rank_partial.

Theorem put_rank_partial : forall cfg alloc oldest init t0 s, reachable cfg alloc oldest init t0 s ->
  (forall a s', step cfg s (EStep TP a) = Some (Ok s') ->
     if p_fails s a then p_dist s' <= p_dist s + 3
     else p_dist s' < p_dist s \/
          (exists k, s_p s = PW k WWritten /\ s_p s' = (if k then PStart else PExit) /\
           releasedLog (s_pbl s') = releasedLog (s_pbl s) ++ firstn (releasing (s_pbl s)) (toRelease (s_pbl s))))
  /\ (forall e s', (forall a, e <> EStep TP a) -> step cfg s e = Some (Ok s') -> p_dist s' = p_dist s).
Proof. exact put_rank_reach. Qed.
Print Assumptions put_rank_partial.

(** NOT PROVED (kept as the full statements; what is proved instead is the
    `_never_stalls` pair (never disabled while work is pending), the retry
    theorems and the per-cycle `_rank_partial` pair; missing is the link from
    "a cycle completes" to "THIS upload / THESE blocks are covered", which
    needs ghost state relating [s_writes] to acknowledged uploads, and the
    fair-schedule liveness corollary):

    put_rank / release_rank : sys -> nat -> nat  (target = number of blocks to be
    released resp. absolute epoch to be committed) with
      (a) every own non-failure step of the loop decreases the rank when it is > 0;
      (b) a failed I/O step increases it by at most one loop length K and is followed by a retry;
      (c) steps of other threads never increase it;
      (d) rank 0 <-> a state write omitting the released blocks (they are in releasedLog)
          resp. covering the epoch has completed ([s_writes]);
      liveness : forall tr, run cfg s tr = Some (Ok s') ->
          (number of own non-failure steps in tr) >= rank s + K * (failures in tr) -> rank s' = 0
      (weak fairness and finitely many failures as hypotheses), and
      upload_commit_bound (the state write starts no later than max(t, last)+interval plus I/O steps).
    The correspondence monitor checks the observable consequence on every
    implementation run (clauses 1, 4, 5, 6 of Run/R07.v: pending work with an
    idle loop; completed write not covering an acknowledged upload). *)

(** Non-vacuity: an empty store; PushBack, Put + finalizer (creates epoch 0,
    closes the put channel), interval elapses, timer fires, sync ok, state
    write ok: the write covers the epoch, the put channel is open again;
    then PopFront and the release loop's write releases the block. *)
Example commit_and_release_example :
  let cfg := mkConfig 10 3 in
  let s0 := init_sys (fst (pbl_new (fun _ _ => false) 0 nil)) 0 in
  let ok := EStep TP (mkAns true 0) in
  let r := EStep TR (mkAns true 0) in
  let tr := (r :: ok :: ok :: EPushBack (Some (0, 100)%Z) :: EPutStart 0 5 :: EFinalize 0 (Some 0%Z) 77
             :: ok (* PIdle: channel closed -> timer now+10 *)
             :: ETick 10 :: EStep TP (mkAns false 10) (* timer fires *)
             :: ok (* NotifySyncStarting *) :: ok (* sync ok *) :: ok (* NotifySyncCompleted *)
             :: ok (* storeLock *) :: ok (* GetPersistentState *) :: ok (* write ok *) :: ok (* written *)
             :: EPopFront :: r :: r :: r :: r :: r :: nil)%list in
  match run cfg s0 tr with
  | Some (Ok s) =>
      s_sched s = (10%N :: nil)%list
      /\ map (fun w => (w_by w, w_state w)) (s_writes s)
         = ((TR, (1%N, nil)) :: (TP, (0%N, (mkBstate (0, 100)%Z 5%Z (77%N :: nil) :: nil))) :: nil)%list
      /\ releasedLog (s_pbl s) = ((0, 100)%Z :: nil)%list
      /\ put_chan_closed (s_pbl s) = false /\ release_chan_closed (s_pbl s) = false
      /\ length (ch_closed (heap (s_pbl s))) = 2
  | _ => False
  end.
Proof. vm_compute. repeat split; reflexivity. Qed.
