(** C07 — Persistence never stalls: every upload and block release gets
    committed.  Statements only; proofs are in Persist/PBLProofs.v and
    Persist/SyncerProofs.v.  The transition system ([Syncer.step], [run]) has
    one event per atomic step: upload Put / finalizer, PopFront, PushBack, one
    lock-protected section or I/O completion (success/failure) or timer expiry
    or channel wait of either syncer loop, clock advance, context
    cancellation.  [reachable] = reachable by ANY schedule (event list) from
    the state produced by NewPersistentBlockList + NewPeriodicSyncer, for any
    persistent state, any allocator answers, any hash seeds. *)
From BBS Require Import Common.Sx Persist.PBL Persist.PBLProofs Persist.Syncer Persist.SyncerProofs Run.R07.
From BBS Require Import Persist.LiveActs Persist.LiveCover Persist.LiveRelease Persist.LiveFair Persist.LivePut
  Persist.LiveBound Persist.LiveEpoch Persist.LiveTop.
From BBS Require Import Run.R07MonBase Run.R07MonOps Run.R07MonC123 Run.R07MonCov1 Run.R07MonCov2 Run.R07MonOps2
  Run.R07MonCov3 Run.R07MonC5 Run.R07MonTop.
Local Open Scope nat_scope.

(** No schedule makes any step panic: in particular no wake-up channel is
    closed twice, no slice/index goes out of range. *)
Theorem no_panic : forall cfg alloc oldest init t0 tr,
  run cfg (init_sys (fst (pbl_new alloc oldest init)) t0) tr <> Some Panic.
Proof. exact no_panic_all_schedules. Qed.
Print Assumptions no_panic.

Theorem close_once : forall cfg alloc oldest init t0 s, reachable cfg alloc oldest init t0 s ->
  NoDup (ch_closed (heap (s_pbl s))).
Proof. exact close_once_reach. Qed.
Print Assumptions close_once.

(** The current put wake-up channel is closed exactly while some epoch is not
    yet synchronized (unabsorbed upload work). *)
Theorem wakeup_put : forall cfg alloc oldest init t0 s, reachable cfg alloc oldest init t0 s ->
  (synchronizedEpochs (s_pbl s) < length (epochSeeds (s_pbl s)) -> put_chan_closed (s_pbl s) = true) /\
  (synchronizedEpochs (s_pbl s) = length (epochSeeds (s_pbl s)) -> put_chan_closed (s_pbl s) = false).
Proof. exact wakeup_put_reach. Qed.
Print Assumptions wakeup_put.

(** The current release wake-up channel is closed exactly while some popped
    block has not been released. *)
Theorem wakeup_release : forall cfg alloc oldest init t0 s, reachable cfg alloc oldest init t0 s ->
  (toRelease (s_pbl s) <> [] -> release_chan_closed (s_pbl s) = true) /\
  (toRelease (s_pbl s) = [] -> release_chan_closed (s_pbl s) = false).
Proof. exact wakeup_release_reach. Qed.
Print Assumptions wakeup_release.

(** No missed notification: a channel a loop still holds is the current one
    or is already closed (stale channels are closed); hence a loop never
    waits on an open channel while work is pending. *)
Theorem stale_channels_closed_and_no_missed_wakeup :
  forall cfg alloc oldest init t0 s, reachable cfg alloc oldest init t0 s ->
  (forall c, s_r s = RWait c -> c <> get_release_wakeup (s_pbl s) -> is_closed (heap (s_pbl s)) c = true) /\
  (forall c, s_p s = PSelect c \/ s_p s = PIdle c -> c <> get_put_wakeup (s_pbl s) ->
             is_closed (heap (s_pbl s)) c = true) /\
  (forall c, s_r s = RWait c -> toRelease (s_pbl s) <> nil -> is_closed (heap (s_pbl s)) c = true) /\
  (forall c, s_p s = PSelect c \/ s_p s = PIdle c ->
             synchronizedEpochs (s_pbl s) < length (epochSeeds (s_pbl s)) ->
             is_closed (heap (s_pbl s)) c = true).
Proof. exact no_missed_wakeup_reach. Qed.
Print Assumptions stale_channels_closed_and_no_missed_wakeup.

(** No stall (release): whenever a popped block awaits release, the release
    loop can step on its own, or waits for its WritePersistentState call, or
    sleeps after a failed write, or waits for storeLock held by the put loop
    which is then runnable or in its own I/O call. *)
Theorem release_never_stalls : forall cfg alloc oldest init t0 s, reachable cfg alloc oldest init t0 s ->
  toRelease (s_pbl s) <> nil -> r_progress cfg s.
Proof. exact release_progress_reach. Qed.
Print Assumptions release_never_stalls.

(** No stall (put): whenever an epoch is not yet synchronized, the put loop
    can step on its own, waits for I/O, waits for a timer (interval or
    retry), has returned (shutdown), or waits for storeLock held by the
    release loop which is then runnable or in its I/O call. *)
Theorem put_never_stalls : forall cfg alloc oldest init t0 s, reachable cfg alloc oldest init t0 s ->
  synchronizedEpochs (s_pbl s) < length (epochSeeds (s_pbl s)) -> p_progress cfg s.
Proof. exact put_progress_reach. Qed.
Print Assumptions put_never_stalls.

(** The release loop contains no minimum-interval wait: its step function is
    the same for every minimumEpochInterval (with [release_never_stalls]: it
    is never blocked behind the put loop's interval timer either, because the
    put loop holds storeLock only inside writePersistentState). *)
Theorem release_not_delayed_by_interval : forall cfg cfg' a s,
  c_retry cfg = c_retry cfg' -> rstep cfg a s = rstep cfg' a s.
Proof. exact release_independent_of_interval. Qed.
Print Assumptions release_not_delayed_by_interval.

(** Consecutive sync schedule times (timer expiries recorded in
    lastSynchronizationTime, i.e. syncs started while running) are at least
    minimumEpochInterval apart; the first at least one interval after t0. *)
Theorem min_interval : forall cfg alloc oldest init t0 s, reachable cfg alloc oldest init t0 s ->
  gaps_ok (c_interval cfg) t0 (s_sched s).
Proof. exact min_interval_reach. Qed.
Print Assumptions min_interval.

(** Transient failures are retried: a failed state write releases storeLock,
    sleeps errorRetryInterval and re-enters writePersistentState; a failed
    data sync sleeps and calls the DataSyncer again (without a new
    NotifySyncStarting). *)
Theorem failed_state_write_is_retried : forall cfg s st t,
  s_r s = RW (WWriting st) ->
  exists s1, step cfg s (EStep TR (mkAns false t)) = Some (Ok s1)
    /\ s_r s1 = RW (WSleep (s_now s + c_retry cfg)) /\ s_store s1 = None /\ s_pbl s1 = s_pbl s
    /\ (forall s2 a, step cfg s1 (EStep TR a) = Some (Ok s2) -> s_r s2 = RW WAcquire).
Proof. exact failed_write_is_retried. Qed.
Print Assumptions failed_state_write_is_retried.

Theorem failed_data_sync_is_retried : forall cfg s keep final t,
  s_p s = PSyncing keep final ->
  exists s1, step cfg s (EStep TP (mkAns false t)) = Some (Ok s1)
    /\ s_p s1 = PSyncSleep keep final (s_now s + c_retry cfg) /\ s_pbl s1 = s_pbl s
    /\ (forall s2 a, step cfg s1 (EStep TP a) = Some (Ok s2) -> s_p s2 = PSyncing keep final).
Proof. exact failed_sync_is_retried. Qed.
Print Assumptions failed_data_sync_is_retried.

(** Ranking on the loops' program counters, per commit cycle (the names keep
    `_partial`: these are the per-cycle rank lemmas; the full statements —
    coverage, bounded liveness, commit bound — follow below): every own step of a loop that is not a failed I/O call
    strictly decreases the loop's rank, or it is the last step of
    writePersistentState — NotifyPersistentStateWritten, which releases exactly
    the blocks recorded by the preceding GetPersistentState; a failed I/O call
    raises the rank by at most 3 (and is retried, see above); steps of all other
    threads and of the environment leave the rank unchanged. *)
Theorem release_rank_partial : forall cfg alloc oldest init t0 s, reachable cfg alloc oldest init t0 s ->
  (forall a s', step cfg s (EStep TR a) = Some (Ok s') ->
     if r_fails s a then r_dist s' <= r_dist s + 3
     else r_dist s' < r_dist s \/
          (s_r s = RW WWritten /\ s_r s' = RStart /\
           releasedLog (s_pbl s') = releasedLog (s_pbl s) ++ firstn (releasing (s_pbl s)) (toRelease (s_pbl s))))
  /\ (forall e s', (forall a, e <> EStep TR a) -> step cfg s e = Some (Ok s') -> r_dist s' = r_dist s).
Proof. exact release_rank_reach. Qed.
Print Assumptions release_rank_partial.

Theorem put_rank_partial : forall cfg alloc oldest init t0 s, reachable cfg alloc oldest init t0 s ->
  (forall a s', step cfg s (EStep TP a) = Some (Ok s') ->
     if p_fails s a then p_dist s' <= p_dist s + 3
     else p_dist s' < p_dist s \/
          (exists k, s_p s = PW k WWritten /\ s_p s' = (if k then PStart else PExit) /\
           releasedLog (s_pbl s') = releasedLog (s_pbl s) ++ firstn (releasing (s_pbl s)) (toRelease (s_pbl s))))
  /\ (forall e s', (forall a, e <> EStep TP a) -> step cfg s e = Some (Ok s') -> p_dist s' = p_dist s).
Proof. exact put_rank_reach. Qed.
Print Assumptions put_rank_partial.

(** ---- COVERAGE (the link from "a commit cycle completes" to "THIS upload /
    THESE blocks are covered"; ghost bookkeeping = functions of the executed
    schedule, Persist/LiveActs.v: [act_of s e] = the PersistentBlockList call
    performed by step [e] in state [s]; [sync_starts] = NotifySyncStarting
    followed by a DataSyncer call; [sync_completes] = NotifySyncCompleted;
    [AGetState t] = loop t calls GetPersistentState and starts
    WritePersistentState; [AWritten t] = NotifyPersistentStateWritten). ---- *)

(** upload_covered_by_next_commit.  The whole schedule is
      ... (reaching s1) ; finalizer k returns FinOk off [step i] ; trA ;
      e2 = a step starting a data sync ; trB ; e3 = a step completing a data
      sync ; trC ; e4 = a step of loop t starting a state write
    with trA, trB, trC ARBITRARY schedules.  Then the object's block has been
    released by PopFront in the meantime, or the state passed to the store
    covers the object [o] (= obj_of: absolute block index, block location, end
    offset off+size, its epoch = the last epoch when the finalizer returned,
    that epoch's seed): the state's entry number (abs - totalBlocksReleased) is
    the object's block with write_offset >= off+size, and the object's epoch is
    among the state's epochs — the seed at position (epoch index - d) of the
    concatenated epoch_hash_seeds is the epoch's seed, [d] = number of epochs
    PopFront removed in between ([popsum]).  This holds for EVERY state write
    started after the sync completion, in particular for the first, by either
    loop. *)
Theorem upload_covered_by_next_commit : forall cfg alloc oldest init t0
    s1 k blk seed s1' abs size off p' trA s2 e2 s2' trB s3 e3 s3' trC s4 e4 s4' t,
  reachable cfg alloc oldest init t0 s1 ->
  step cfg s1 (EFinalize k blk seed) = Some (Ok s1') ->
  nth_error (s_uploads s1) k = Some (Some (PutAt abs, size)) ->
  put_finalize (PutAt abs) blk size seed (s_pbl s1) = Ok (p', FinOk off) ->
  run cfg s1' trA = Some (Ok s2) -> step cfg s2 e2 = Some (Ok s2') -> sync_starts s2 e2 = true ->
  run cfg s2' trB = Some (Ok s3) -> step cfg s3 e3 = Some (Ok s3') -> sync_completes s3 e3 = true ->
  run cfg s3' trC = Some (Ok s4) -> step cfg s4 e4 = Some (Ok s4') -> act_of s4 e4 = AGetState t ->
  let o := obj_of (s_pbl s1) p' abs (off + size) in
  let d := popsum cfg s1' trA + popsum cfg s2' trB + popsum cfg s3' trC in
  abs < totalReleased (s_pbl s4) \/
  exists st, written_state s4' t = Some st /\ covers st (abs - totalReleased (s_pbl s4)) o (o_epoch o - d).
Proof. exact upload_covered_reach. Qed.
Print Assumptions upload_covered_by_next_commit.

(** ... and the epoch ID: the reference (EpochID, BlocksFromLast) and hash seed
    that BlockIndexToBlockReference computes on the block list right after the
    finalizer (what the key-location map stores for the object) has EpochID =
    the written state's oldest_epoch_id + (epoch index - d) in uint32
    arithmetic — the position at which [covers] finds the same seed. *)
Theorem upload_covered_epoch_id : forall cfg alloc oldest init t0
    s1 k blk seed s1' abs size off p' trA s2 e2 s2' trB s3 e3 s3' trC s4 e4 s4' t,
  reachable cfg alloc oldest init t0 s1 ->
  step cfg s1 (EFinalize k blk seed) = Some (Ok s1') ->
  nth_error (s_uploads s1) k = Some (Some (PutAt abs, size)) ->
  put_finalize (PutAt abs) blk size seed (s_pbl s1) = Ok (p', FinOk off) ->
  run cfg s1' trA = Some (Ok s2) -> step cfg s2 e2 = Some (Ok s2') -> sync_starts s2 e2 = true ->
  run cfg s2' trB = Some (Ok s3) -> step cfg s3 e3 = Some (Ok s3') -> sync_completes s3 e3 = true ->
  run cfg s3' trC = Some (Ok s4) -> step cfg s4 e4 = Some (Ok s4') -> act_of s4 e4 = AGetState t ->
  let o := obj_of (s_pbl s1) p' abs (off + size) in
  let d := popsum cfg s1' trA + popsum cfg s2' trB + popsum cfg s3' trC in
  abs < totalReleased (s_pbl s4) \/
  exists st ref, written_state s4' t = Some st
    /\ index_to_ref (abs - totalReleased p') p' = Ok (ref, o_seed o)
    /\ d <= o_epoch o
    /\ fst ref = u32 (fst st + N.of_nat (o_epoch o - d)).
Proof. exact upload_covered_epoch_id_reach. Qed.
Print Assumptions upload_covered_epoch_id.

(** release_covered.  Schedule = ... (reaching s1) ; PopFront removing block fb
    [step i] ; trA = any schedule without a GetPersistentState ; e4 = loop t
    starts a state write (so: the FIRST state write started after i).  Then
    (a) fb is among the blocks recorded by that GetPersistentState
        (blocksToRelease at that moment);
    (b) fb is absent from the state written: every entry j of the state is
        block j of the current list, i.e. the block with absolute index
        totalBlocksReleased(s4) + j, and totalBlocksReleased(s4) exceeds fb's
        absolute index totalBlocksReleased(s1);
    (c) whenever, after any further schedule trB without another
        GetPersistentState, some loop t' runs NotifyPersistentStateWritten,
        then t' = t (it is that write; it did not fail) and exactly the
        recorded blocks are appended to releasedLog (Block.Release() calls). *)
Theorem release_covered : forall cfg alloc oldest init t0 s1 fb rest s1' trA s4 e4 s4' t,
  reachable cfg alloc oldest init t0 s1 ->
  blocks (s_pbl s1) = fb :: rest -> step cfg s1 EPopFront = Some (Ok s1') ->
  run cfg s1' trA = Some (Ok s4) -> no_getstate cfg s1' trA = true ->
  step cfg s4 e4 = Some (Ok s4') -> act_of s4 e4 = AGetState t ->
  In (b_loc fb) (toRelease (s_pbl s4))
  /\ totalReleased (s_pbl s1) < totalReleased (s_pbl s4)
  /\ (exists st, written_state s4' t = Some st /\
        forall j e, nth_error (snd st) j = Some e ->
          exists b, nth_error (blocks (s_pbl s4)) j = Some b /\ bs_loc e = b_loc b)
  /\ forall trB s5 e5 s5' t',
       run cfg s4' trB = Some (Ok s5) -> no_getstate cfg s4' trB = true ->
       step cfg s5 e5 = Some (Ok s5') -> act_of s5 e5 = AWritten t' ->
       t' = t /\ releasedLog (s_pbl s5') = releasedLog (s_pbl s5) ++ toRelease (s_pbl s4).
Proof. exact release_covered_reach. Qed.
Print Assumptions release_covered.

(** ---- LIVENESS in bounded form (no infinite traces): [fair ext] = the
    extension consists only of steps of the two syncer loops whose I/O call
    succeeds / whose select takes a ready case, and of clock advances (timer
    firings).  Weak fairness + finitely many injected failures on an infinite
    schedule imply that such a stretch eventually occurs; the theorems say
    that after it the commit has happened, and bound its length. ---- *)

(** every_release_eventually_committed: after ANY schedule prefix that leaves a
    popped block unreleased there is a fair extension of at most 10 events
    (<= 3 to let the holder of storeLock finish, one clock advance past a retry
    sleep, <= 6 of the release loop itself; no minimum-interval wait) after
    which all blocks awaiting release have been Release()d, in order. *)
Theorem every_release_eventually_committed : forall cfg alloc oldest init t0 s,
  reachable cfg alloc oldest init t0 s -> toRelease (s_pbl s) <> nil ->
  exists ext s', fair ext = true /\ length ext <= 10 /\ run cfg s ext = Some (Ok s')
    /\ toRelease (s_pbl s') = nil
    /\ releasedLog (s_pbl s') = (releasedLog (s_pbl s) ++ toRelease (s_pbl s))%list.
Proof. exact release_eventually_reach. Qed.
Print Assumptions every_release_eventually_committed.

(** every_upload_eventually_committed: take ANY schedule [trp] after the
    finalizer of an upload returned FinOk.  Then there is a fair extension of at
    most 35 events (the put loop's own steps, <= 3 steps of the release loop when
    it holds storeLock, clock advances past the interval timer / retry sleeps)
    after which the upload's block has been released by PopFront, or
    [scan ... = PhDone]: the executed schedule trp ++ ext contains, after the
    acknowledgement and in this order, the start of a data sync, its completion,
    a GetPersistentState of some loop and that same write's
    NotifyPersistentStateWritten — and a completed state write ([s_writes]) whose
    state covers the object.  The policy of the extension is explicit
    (LivePut.choose) and the bound is a rank (LivePut.rank <= 35) that every chunk
    of the policy lowers by its length (LivePut.progress_ph0..3). *)
Theorem every_upload_eventually_committed : forall cfg alloc oldest init t0
    s1 k blk seed s1' abs size off p' trp s,
  reachable cfg alloc oldest init t0 s1 ->
  step cfg s1 (EFinalize k blk seed) = Some (Ok s1') ->
  nth_error (s_uploads s1) k = Some (Some (PutAt abs, size)) ->
  put_finalize (PutAt abs) blk size seed (s_pbl s1) = Ok (p', FinOk off) ->
  run cfg s1' trp = Some (Ok s) ->
  exists ext s', fair ext = true /\ length ext <= 35 /\ run cfg s ext = Some (Ok s')
    /\ (abs < totalReleased (s_pbl s')
        \/ (scan cfg Ph0 s1' (trp ++ ext) = PhDone /\
            exists w bi ei, In w (s_writes s') /\
              covers (w_state w) bi (obj_of (s_pbl s1) p' abs (off + size)) ei)).
Proof. exact upload_eventually. Qed.
Print Assumptions every_upload_eventually_committed.

(** upload_commit_bound, in terms of the virtual clock values of the model: an
    upload is acknowledged at time t = s_now s1 with lastSynchronizationTime =
    s_last s1.  Take any schedule [tr] afterwards during which no data sync has
    started yet ([scan ... = Ph0]) and which is [urgent]: the clock never
    advances while the put loop has an enabled internal step (its lock-protected
    sections and channel selects take no virtual time; I/O calls, sleeps, the
    timer and waiting for storeLock may).  Then, unless the upload's block has
    been released, whenever the put loop waits on its interval timer the
    deadline is at most max(t, lastSynchronizationTime) + minimumEpochInterval,
    and lastSynchronizationTime is unchanged until that timer fires (no other
    sync is scheduled in between: ONE interval, not two).  The covering sync is
    started by the step after that timer (or immediately on shutdown); what
    else separates it from t is I/O of the cycle in flight and timer latency. *)
Theorem upload_commit_bound : forall cfg alloc oldest init t0 s1 k blk seed s1' abs size off p' tr s,
  reachable cfg alloc oldest init t0 s1 ->
  step cfg s1 (EFinalize k blk seed) = Some (Ok s1') ->
  nth_error (s_uploads s1) k = Some (Some (PutAt abs, size)) ->
  put_finalize (PutAt abs) blk size seed (s_pbl s1) = Ok (p', FinOk off) ->
  run cfg s1' tr = Some (Ok s) -> urgent cfg s1' tr = true ->
  scan cfg Ph0 s1' tr = Ph0 ->
  abs < totalReleased (s_pbl s) \/
  ((forall dl, s_p s = PTimer dl -> (dl <= N.max (s_now s1) (s_last s1) + c_interval cfg)%N)
   /\ (s_p s <> PNotify true -> s_last s = s_last s1)).
Proof. intros; eapply commit_bound; eauto. Qed.
Print Assumptions upload_commit_bound.

(** What is NOT stated: liveness over infinite traces (the bounded form above
    replaces it: weak fairness + finitely many injected failures give a fair
    stretch of the required length); a bound in wall-clock terms (the model's
    clock is virtual; I/O durations and timer latency are the environment's). *)

(** Non-vacuity of the coverage / liveness / bound theorems: empty store,
    PushBack, Put of 5 bytes, finalizer (epoch 0, seed 77) at time 0; the
    hypotheses of the theorems are met by the schedule of the example below and
    the state written is (0, [block (0,100) write_offset 5 seeds [77]]). *)
Example upload_covered_example :
  let cfg := mkConfig 10 3 in
  let s0 := init_sys (fst (pbl_new (fun _ _ => false) 0 nil)) 0 in
  let ok := EStep TP (mkAns true 0) in
  let r := EStep TR (mkAns true 0) in
  let pre := (r :: ok :: ok :: EPushBack (Some (0, 100)%Z) :: EPutStart 0 5 :: nil)%list in
  let trA := (ok :: ETick 10 :: EStep TP (mkAns false 10) :: nil)%list in
  match run cfg s0 pre with
  | Some (Ok s1) =>
    match step cfg s1 (EFinalize 0 (Some 0%Z) 77) with
    | Some (Ok s1') =>
      match run cfg s1' trA with
      | Some (Ok s2) =>
        match step cfg s2 ok with
        | Some (Ok s2') =>
          match run cfg s2' (ok :: nil)%list with
          | Some (Ok s3) =>
            match step cfg s3 ok with
            | Some (Ok s3') =>
              match run cfg s3' (ok :: nil)%list with
              | Some (Ok s4) =>
                match step cfg s4 ok with
                | Some (Ok s4') =>
                    nth_error (s_uploads s1) 0 = Some (Some (PutAt 0, 5%Z))
                    /\ (exists p', put_finalize (PutAt 0) (Some 0%Z) 5 77 (s_pbl s1) = Ok (p', FinOk 0))
                    /\ sync_starts s2 ok = true /\ sync_completes s3 ok = true
                    /\ act_of s4 ok = AGetState TP
                    /\ written_state s4' TP = Some (0%N, (mkBstate (0, 100)%Z 5%Z (77%N :: nil) :: nil)%list)
                    /\ obj_of (s_pbl s1) (s_pbl s1') 0 5 = mkObj 0 (0, 100)%Z 5 0 77
                    /\ urgent cfg s1' trA = true /\ scan cfg Ph0 s1' trA = Ph0
                    /\ s_p s2 = PNotify true /\ s_sched s2 = (10%N :: nil)%list
                    /\ scan cfg Ph0 s1' (trA ++ ok :: ok :: ok :: ok :: ok :: ok :: ok :: nil)%list = PhDone
                | _ => False
                end
              | _ => False
              end
            | _ => False
            end
          | _ => False
          end
        | _ => False
        end
      | _ => False
      end
    | _ => False
    end
  | _ => False
  end.
Proof. vm_compute. repeat split; try reflexivity. eexists. reflexivity. Qed.

(** The hypothesis "a data sync that STARTED after the acknowledgement" is
    needed: upload B (bytes 5..10, new epoch, seed 78) is acknowledged while the
    sync started for upload A is in flight; that sync completes afterwards and
    the state written next has write_offset 5 and only A's epoch. *)
Example sync_started_before_ack_does_not_cover :
  let cfg := mkConfig 10 3 in
  let s0 := init_sys (fst (pbl_new (fun _ _ => false) 0 nil)) 0 in
  let ok := EStep TP (mkAns true 0) in
  let pre := (ok :: ok :: EPushBack (Some (0, 100)%Z) :: EPutStart 0 5 :: EFinalize 0 (Some 0%Z) 77
              :: ok :: ETick 10 :: EStep TP (mkAns false 10) :: ok (* NotifySyncStarting; sync A in flight *)
              :: EPutStart 0 5 :: nil)%list in
  match run cfg s0 pre with
  | Some (Ok s1) =>
    match step cfg s1 (EFinalize 1 (Some 5%Z) 78) with
    | Some (Ok s1') =>
      match run cfg s1' (ok :: nil)%list with
      | Some (Ok s3) =>
        match step cfg s3 ok with
        | Some (Ok s3') =>
          match run cfg s3' (ok :: nil)%list with
          | Some (Ok s4) =>
            match step cfg s4 ok with
            | Some (Ok s4') =>
                (exists p', put_finalize (PutAt 0) (Some 5%Z) 5 78 (s_pbl s1) = Ok (p', FinOk 5))
                /\ sync_completes s3 ok = true /\ act_of s4 ok = AGetState TP
                /\ scan cfg Ph0 s1' (ok :: ok :: ok :: ok :: nil)%list = Ph0
                /\ written_state s4' TP = Some (0%N, (mkBstate (0, 100)%Z 5%Z (77%N :: nil) :: nil)%list)
                /\ obj_of (s_pbl s1) (s_pbl s1') 0 10 = mkObj 0 (0, 100)%Z 10 1 78
            | _ => False
            end
          | _ => False
          end
        | _ => False
        end
      | _ => False
      end
    | _ => False
    end
  | _ => False
  end.
Proof. vm_compute. repeat split; try reflexivity. eexists. reflexivity. Qed.

(** ... and of release_covered: PopFront, then the release loop's write. *)
Example release_covered_example :
  let cfg := mkConfig 10 3 in
  let s0 := init_sys (fst (pbl_new (fun _ _ => false) 0 nil)) 0 in
  let r := EStep TR (mkAns true 0) in
  let pre := (r :: EPushBack (Some (0, 100)%Z) :: EPushBack (Some (100, 100)%Z) :: nil)%list in
  match run cfg s0 pre with
  | Some (Ok s1) =>
    match step cfg s1 EPopFront with
    | Some (Ok s1') =>
      match run cfg s1' (r :: r :: nil)%list with
      | Some (Ok s4) =>
        match step cfg s4 r with
        | Some (Ok s4') =>
          match run cfg s4' (r :: nil)%list with
          | Some (Ok s5) =>
            match step cfg s5 r with
            | Some (Ok s5') =>
                no_getstate cfg s1' (r :: r :: nil)%list = true /\ act_of s4 r = AGetState TR
                /\ no_getstate cfg s4' (r :: nil)%list = true /\ act_of s5 r = AWritten TR
                /\ toRelease (s_pbl s4) = ((0, 100)%Z :: nil)%list
                /\ releasedLog (s_pbl s5') = ((0, 100)%Z :: nil)%list
                /\ written_state s4' TR = Some (0%N, nil)
            | _ => False
            end
          | _ => False
          end
        | _ => False
        end
      | _ => False
      end
    | _ => False
    end
  | _ => False
  end.
Proof. vm_compute. repeat split; reflexivity. Qed.

(** Non-vacuity: an empty store; PushBack, Put + finalizer (creates epoch 0,
    closes the put channel), interval elapses, timer fires, sync ok, state
    write ok: the write covers the epoch, the put channel is open again;
    then PopFront and the release loop's write releases the block. *)
Example commit_and_release_example :
  let cfg := mkConfig 10 3 in
  let s0 := init_sys (fst (pbl_new (fun _ _ => false) 0 nil)) 0 in
  let ok := EStep TP (mkAns true 0) in
  let r := EStep TR (mkAns true 0) in
  let tr := (r :: ok :: ok :: EPushBack (Some (0, 100)%Z) :: EPutStart 0 5 :: EFinalize 0 (Some 0%Z) 77
             :: ok (* PIdle: channel closed -> timer now+10 *)
             :: ETick 10 :: EStep TP (mkAns false 10) (* timer fires *)
             :: ok (* NotifySyncStarting *) :: ok (* sync ok *) :: ok (* NotifySyncCompleted *)
             :: ok (* storeLock *) :: ok (* GetPersistentState *) :: ok (* write ok *) :: ok (* written *)
             :: EPopFront :: r :: r :: r :: r :: r :: nil)%list in
  match run cfg s0 tr with
  | Some (Ok s) =>
      s_sched s = (10%N :: nil)%list
      /\ map (fun w => (w_by w, w_state w)) (s_writes s)
         = ((TR, (1%N, nil)) :: (TP, (0%N, (mkBstate (0, 100)%Z 5%Z (77%N :: nil) :: nil))) :: nil)%list
      /\ releasedLog (s_pbl s) = ((0, 100)%Z :: nil)%list
      /\ put_chan_closed (s_pbl s) = false /\ release_chan_closed (s_pbl s) = false
      /\ length (ch_closed (heap (s_pbl s))) = 2
  | _ => False
  end.
Proof. vm_compute. repeat split; reflexivity. Qed.

(** ---- THE MONITOR IS SILENT ON THE MODEL (Run/R07Mon*.v, ~4200 lines).
    [mon07] is the property as a check on implementation observations;
    [run07h inp hints] is the model's own observation (the hints only pick the
    winner of a storeLock tie; [run07 inp = run07h inp []]; the judge uses the
    hints of the observation).  For every input of the domain [dom07] — the
    restored blocks have pairwise distinct offsets below 10000 (the fake
    allocator hands out 10000 + 100 n) and restored epochs + number of
    operations < 2^32 (epoch IDs are uint32) — and EVERY hint list, no clause
    fires:
      1  a popped block awaits release while the release loop waits — the
         executor always reaches a QUIESCENT state (rank <= 12 < fuel 64) and
         there the release loop is runnable, writing, sleeping, or behind the
         put loop's state write;
      2  schedule times closer than the minimum interval, where a non-retry
         DataSyncer call that no interval-timer expiry preceded counts as a
         schedule time — in the model such a call is entered from [PNotify true]
         only, which only the expiry of the interval timer in the same operation
         creates;
      3  the panic / hang marker — no operation of the executor panics;
      4/6 a completed state write does not cover an upload acknowledged before
         the start of the last successful sync / lists the epoch of a later one
         — per acknowledged upload a ghost object of Persist/LiveCover.v whose
         level (written / sync started / sync completed) is the one the monitor
         derives from its own bookkeeping, with the negative counterpart (below
         level 2 the epoch is not among the synchronized ones);
      5  the put loop waits (idle / returned / behind a release loop that is not
         writing) while an acknowledged upload is not covered by the last
         completed state write.
    Hence a monitor hit on an implementation observation that agrees with the
    model is impossible: a hit is always a disagreement with the model.  Without
    the domain hypothesis clauses 1, 2 and 3 are silent for ALL inputs. ---- *)
Theorem mon07_silent_on_model : forall inp hints, dom07 inp = true -> mon07 inp (run07h inp hints) = nil.
Proof. exact mon07_silent_on_model_h. Qed.
Print Assumptions mon07_silent_on_model.

Theorem mon07_silent_on_model_run07 : forall inp, dom07 inp = true -> mon07 inp (run07 inp) = nil.
Proof. exact mon07_silent_on_model_. Qed.
Print Assumptions mon07_silent_on_model_run07.

Theorem mon07_clauses_123_silent_for_all_inputs : forall inp hints k,
  List.In k (mon07 inp (run07h inp hints)) -> (k = 4 \/ k = 5 \/ k = 6)%Z.
Proof. exact mon07_clauses_123_silent. Qed.
Print Assumptions mon07_clauses_123_silent_for_all_inputs.

(** Non-vacuity of [dom07]: a restored block (epoch ID 2^32-2, so that the new
    epoch's ID wraps), PushBack, Put + finalizer, the interval elapses, the timer
    fires, the sync fails and is retried, state write, PopFront, a failed and a
    retried state write of the release loop, cancellation, final sync, final
    write, ProcessBlockPut returns false: 19 operations, 4 state writes. *)
Definition mon07_example_input : sx :=
  (L [L [A 10; A 3; A 0; A 4294967294; L [L [L [A 0; A 100]; A 7; L [A 1]; A 1]]];
      L [L [A 4; A 1]; L [A 1; A 0; A 5; A 0; A 0]; L [A 2; A 0]; L [A 7; A 10]; L [A 8; A 1];
         L [A 5; A 0]; L [A 7; A 3]; L [A 8; A 1]; L [A 5; A 1]; L [A 6; A 1]; L [A 3]; L [A 6; A 0]; L [A 7; A 3];
         L [A 8; A 0]; L [A 6; A 1]; L [A 9]; L [A 5; A 1]; L [A 5; A 1]; L [A 6; A 1]]])%Z.

Example mon07_domain_example :
  dom07 mon07_example_input = true
  /\ is_marker (run07 mon07_example_input) = false
  /\ length (sx_list (run07 mon07_example_input)) = 19
  /\ sx_nth (sx_nth (run07 mon07_example_input) 18) 2 = L [A 4%Z]     (* the put loop has returned *)
  /\ sx_nth (sx_nth (run07 mon07_example_input) 18) 5 = L [A 0%Z].    (* the popped block has been released *)
Proof. vm_compute. repeat split; reflexivity. Qed.
