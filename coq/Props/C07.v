(** C07 — persistence never stalls.  Statements only. *)
From BBS Require Import Common.Sx Persist.PBL Persist.Syncer Run.R07.
