(** C02 — after a crash and restart no object is served with wrong bytes.
    (statements; proofs in Persist/Crash*Proofs.v) *)
From BBS Require Import Common.Sx Persist.PBL Persist.Syncer Persist.Crash Persist.CrashLts Run.R02.
