(** C02 — after a crash and restart no object is served with wrong bytes.
    Statements only; proofs are in Persist/CrashEpochProofs.v,
    Persist/CrashAllocProofs.v (and the files named below).

    The transition system ([CrashLts.cstep], [crun]) is the LTS of
    Persist/Syncer.v (persistent block list + the two PeriodicSyncer loops,
    tied to the code by the C07 check) instrumented with the block allocator,
    uploads (allocate / data writes / finalizer + index record writes in one
    lock-protected section) and the directory operations of
    WritePersistentState; it emits ONE global I/O log.  [creach] = reachable by
    ANY event list.  A crash is a prefix [firstn n] of that log (so it may fall
    between any two I/O operations, also inside one atomic step) plus a loss
    choice [ch] (Persist/Crash.v: any subset of the data sector writes issued
    since the begin of the last completed sync, any subset of the index record
    writes, any prefix of the directory name-space operations since the last
    directory fsync, and what an un-fsynced file contains); [crash_of] computes
    the post-crash media, [restart] = NewPersistentBlockList on the surviving
    state file, [resolves] = the post-crash slot content passes
    BlockReferenceToBlockIndex and the seed check of the record checksum.

    Modelled assumptions: record writes are atomic; a record verifies under
    exactly the seed it was written with (Index/RecordCodecProofs:
    codec_roundtrip_thm, stale_seed_invalid_thm — restated below); a fresh seed
    differs from all earlier ones ([fresh] guard); a successful Sync makes every
    write issued before its call durable; sector writes are atomic; rename is
    durable after the directory fsync; same geometry across restarts.
    Repeated crashes (arbitrarily many lives): [repeated_crash], [repeated_crash_bytes],
    [no_overwrite_after_restart], [safe_medium_closed] below (Persist/CrashRepeat*.v). *)
From Coq Require Import List NArith ZArith Bool Arith Lia.
From BBS Require Import Common.Sx Persist.PBL Persist.Syncer Persist.Crash Persist.CrashLts
  Persist.CrashEpochProofs Persist.CrashAllocProofs Persist.CrashOffsetsProofs Persist.CrashReuseProofs Persist.CrashSafe Index.RecordCodec Index.RecordCodecProofs Run.R02.
From BBS Require Persist.CrashRepeat Persist.CrashRepeatShadow Persist.CrashRepeatRec Persist.CrashRepeatSafe.
From BBS Require Run.R02Mon.
Import ListNotations.
Local Open Scope nat_scope.

(** ---- the modelled assumption about the record checksum, from the codec ---- *)
Theorem record_verifies_under_its_seed_only : forall seed seed' r,
  wf_drec r -> (seed < 2 ^ 64)%N -> (seed' < 2 ^ 64)%N ->
  decode seed (encode seed r) = Some r /\ (seed <> seed' -> decode seed' (encode seed r) = None).
Proof.
  intros seed seed' r W H1 H2. split; [apply codec_roundtrip_thm; exact W|].
  intros Hn. apply stale_seed_invalid_thm; assumption.
Qed.
Print Assumptions record_verifies_under_its_seed_only.

(** ---- key lemma 1: every record of an epoch is written after the data it
    designates was issued, and before the epoch is closed by NotifySyncStarting ---- *)
Theorem record_after_data_before_close : forall g cfg t0 c, creach g cfg medium_empty t0 c ->
  forall p slot r, nth_error (cs_log c) p = Some (IoIndex slot r) ->
    (forall q l lo hi, nth_error (cs_log c) q = Some (IoData (r_up r) l lo hi) -> q < p) /\
    (forall j, j < cs_nclosed c -> nth_error (cs_seeds c) j = Some (r_seed r) -> p < cs_closed_at c).
Proof. exact CrashEpochProofs.record_after_data_before_close. Qed.
Print Assumptions record_after_data_before_close.

(** ---- key lemma 2: a seed appears in a state file (already when the file is
    WRITTEN, a fortiori when it is durable) only after a sync that started
    after the epoch was closed has completed: every record carrying that seed
    lies below the durable frontier of the log prefix before the write ---- *)
Theorem seed_in_state_file_only_after_sync : forall g cfg t0 c, creach g cfg medium_empty t0 c ->
  forall q st h s, nth_error (cs_log c) q = Some (IoWriteNew (st, h)) ->
    In s (concat (map bs_seeds (snd st))) ->
    forall p slot r, nth_error (cs_log c) p = Some (IoIndex slot r) -> r_seed r = s ->
      p < durable_upto (firstn q (cs_log c)).
Proof. exact CrashEpochProofs.seed_durable_after_sync. Qed.
Print Assumptions seed_in_state_file_only_after_sync.

(** ---- crash safety: single crash of the first life (a store that started on empty media) ----
    For every history, every crash point, every loss choice: a record that resolves after the
    restart (i) designates the allocation of a COMPLETED upload of the record's key, (ii) all data
    writes of that upload lie below the durable frontier of the log prefix (so they survive every
    loss choice), (iii) the restarted block list resolves it to the device region that upload was
    allocated in, below the block's restored write offset, and (iv) on the post-crash data device
    every byte of the location is owned by a write of THAT upload: no surviving write of another
    upload covers it (allocations in one block are disjoint; a region is handed out again only
    after a state file without the block is durable, and then the surviving state file cannot
    list the block any more). *)
Theorem crash_safe : forall g cfg t0 c, length (g_locs g) < 65536 -> NoDup (g_locs g) ->
  creach g cfg medium_empty t0 c ->
  forall n ch slot r i, resolves g (crash_of medium_empty c n ch) slot r i ->
  exists up l b,
    nth_error (cs_ups c) (r_up r) = Some up /\ up_key up = r_key r /\ up_off up = r_off r /\
    up_size up = r_size r /\ up_state up = UpFin true /\ up_issued up = up_size up /\
    (forall q l' lo hi, nth_error (cs_log c) q = Some (IoData (r_up r) l' lo hi) ->
       q < durable_upto (firstn n (cs_log c))) /\
    nth_error (blocks (fst (restart (geom g) (m_state (crash_of medium_empty c n ch))))) i = Some b /\
    b_loc b = l /\ nth_error (cs_locs c) (up_abs up) = Some l /\
    (0 <= r_off r)%Z /\ (0 <= r_size r)%Z /\ (r_off r + r_size r <= b_written b)%Z /\
    (forall z, (r_off r <= z < r_off r + r_size r)%Z ->
       byte_owner (m_data (crash_of medium_empty c n ch)) l z None = Some (r_up r)).
Proof. exact CrashSafe.crash_safe_thm. Qed.
Print Assumptions crash_safe.

(** the two halves separately (the first without any hypothesis on the geometry) *)
Theorem crash_safe_partial_durable : forall g cfg t0 c, creach g cfg medium_empty t0 c ->
  forall n ch slot r i, resolves g (crash_of medium_empty c n ch) slot r i ->
  exists up, nth_error (cs_ups c) (r_up r) = Some up /\ up_key up = r_key r /\ up_off up = r_off r /\
    up_size up = r_size r /\ up_state up = UpFin true /\ up_issued up = up_size up /\
    (forall q l lo hi, nth_error (cs_log c) q = Some (IoData (r_up r) l lo hi) ->
       q < durable_upto (firstn n (cs_log c))).
Proof. exact CrashEpochProofs.crash_safe_durable. Qed.
Print Assumptions crash_safe_partial_durable.

(** relative distances (epoch's last block - blocksFromLast) are preserved by
    dropping a prefix of the block list and by the restart *)
Theorem crash_safe_partial_location : forall g cfg t0 c, length (g_locs g) < 65536 ->
  creach g cfg medium_empty t0 c ->
  forall n ch slot r i, resolves g (crash_of medium_empty c n ch) slot r i ->
  exists up l, nth_error (cs_ups c) (r_up r) = Some up /\
    block_loc (fst (restart (geom g) (m_state (crash_of medium_empty c n ch)))) i = Some l /\
    nth_error (cs_locs c) (up_abs up) = Some l.
Proof. exact CrashAllocProofs.crash_safe_location_strong. Qed.
Print Assumptions crash_safe_partial_location.

(** ---- no overwrite after restart (any base medium) ----
    allocations within a block are pairwise disjoint and every data write lies
    inside the allocation of its upload; after a restart on ANY medium every
    allocation in a restored block starts at or above the restored write offset
    rounded up to a sector. *)
Theorem allocations_disjoint : forall g cfg base t0 c, creach g cfg base t0 c ->
  (forall k1 k2 u1 u2, k1 <> k2 ->
     nth_error (cs_ups c) k1 = Some u1 -> nth_error (cs_ups c) k2 = Some u2 ->
     up_abs u1 = up_abs u2 -> up_abs u1 < length (cs_locs c) ->
     (up_off u1 + up_size u1 <= up_off u2 \/ up_off u2 + up_size u2 <= up_off u1)%Z) /\
  (forall k u, nth_error (cs_ups c) k = Some u -> up_abs u < length (cs_locs c) ->
     exists cur, nth_error (cs_cur c) (up_abs u) = Some cur /\ (up_off u + up_size u <= cur)%Z) /\
  (forall k l lo hi, In (IoData k l lo hi) (cs_log c) ->
     exists u, nth_error (cs_ups c) k = Some u /\ nth_error (cs_locs c) (up_abs u) = Some l /\
       (up_off u <= lo /\ lo < hi /\ hi <= up_off u + up_size u)%Z).
Proof. exact CrashAllocProofs.alloc_disjoint. Qed.
Print Assumptions allocations_disjoint.

Theorem no_overwrite_after_restart_partial : forall g cfg base t0 c, (0 < g_sector g)%Z ->
  creach g cfg base t0 c ->
  (forall i b, nth_error (blocks (fst (restart (geom g) (m_state base)))) i = Some b ->
     exists cur, nth_error (cs_cur c) i = Some cur /\ (round_up (g_sector g) (b_written b) <= cur)%Z) /\
  (forall k u b, nth_error (cs_ups c) k = Some u ->
     nth_error (blocks (fst (restart (geom g) (m_state base)))) (up_abs u) = Some b ->
     (b_written b <= round_up (g_sector g) (b_written b) /\ round_up (g_sector g) (b_written b) <= up_off u)%Z).
Proof. exact CrashAllocProofs.alloc_above_restored_offset. Qed.
Print Assumptions no_overwrite_after_restart_partial.

(** ---- key lemma 3: restored write offsets cover every resolvable location ---- *)
Theorem restored_offsets_cover : forall g cfg t0 c, length (g_locs g) < 65536 ->
  creach g cfg medium_empty t0 c ->
  forall n ch slot r i, resolves g (crash_of medium_empty c n ch) slot r i ->
  exists b, nth_error (blocks (fst (restart (geom g) (m_state (crash_of medium_empty c n ch))))) i = Some b /\
    (r_off r + r_size r <= b_written b)%Z /\ (0 <= r_off r)%Z /\ (0 <= r_size r)%Z.
Proof. exact CrashOffsetsProofs.restored_offsets_cover. Qed.
Print Assumptions restored_offsets_cover.

(** ---- no overwrite after restart: the two-life forms ----
    (a) every data write of a life into a block restored at its start lies at or above the
    restored write offset rounded up to a sector (any base medium); (b) for a second life started
    on the crashed media of a first life: every data write into restored block i lies above the end
    of every location that resolves to block i.  The full statement — including writes into a NEW
    block allocated on the region of a restored block that was popped and released during the life,
    and for the media of ANY history of lives — is [no_overwrite_after_restart] below. *)
Theorem no_overwrite_after_restart_block : forall g cfg base t0 c, (0 < g_sector g)%Z ->
  creach g cfg base t0 c ->
  forall q k l lo hi, nth_error (cs_log c) q = Some (IoData k l lo hi) ->
  forall up i b, nth_error (cs_ups c) k = Some up -> up_abs up = i ->
    nth_error (blocks (fst (restart (geom g) (m_state base)))) i = Some b ->
    (b_written b <= round_up (g_sector g) (b_written b) <= lo)%Z.
Proof. exact CrashOffsetsProofs.no_overwrite_after_restart_block. Qed.
Print Assumptions no_overwrite_after_restart_block.

Theorem no_overwrite_after_restart_partial2 :
  forall g cfg t0 c n ch cfg2 t02 c2,
  length (g_locs g) < 65536 -> (0 < g_sector g)%Z ->
  creach g cfg medium_empty t0 c ->
  creach g cfg2 (crash_of medium_empty c n ch) t02 c2 ->
  forall slot r i, resolves g (crash_of medium_empty c n ch) slot r i ->
  forall q k l lo hi up, nth_error (cs_log c2) q = Some (IoData k l lo hi) ->
    nth_error (cs_ups c2) k = Some up -> up_abs up = i ->
    (r_off r + r_size r <= lo)%Z.
Proof. exact CrashOffsetsProofs.committed_space_not_overwritten_in_restored_block. Qed.
Print Assumptions no_overwrite_after_restart_partial2.

(** the data writes of one upload tile its allocation: once all bytes were issued every byte of the
    allocation is covered by a write of that upload (any base medium) *)
Theorem upload_writes_cover : forall g cfg base t0 c, creach g cfg base t0 c ->
  forall k up, nth_error (cs_ups c) k = Some up -> up_issued up = up_size up ->
  forall z, (up_off up <= z < up_off up + up_size up)%Z ->
    exists l lo hi, In (IoData k l lo hi) (cs_log c) /\
      nth_error (cs_locs c) (up_abs up) = Some l /\ (lo <= z < hi)%Z.
Proof. intros g cfg base t0 c R k up H. exact (proj2 (CrashOffsetsProofs.upload_writes_tile g cfg base t0 c R k up H)). Qed.
Print Assumptions upload_writes_cover.

(** a block's region is handed out again only after a state file without it is durable:
    there is an assignment K of window starts (absolute index of the first listed block) to the
    state-file writes of the log such that the directory operations form non-interleaved attempts
    remove/create/write/fsync/rename/dirsync, K is non-decreasing and describes the payloads, and
    whenever data is written into block a', every earlier block a on the same region lies below the
    window start of the last state write whose directory fsync precedes that data write. *)
Theorem region_reused_only_after_durable_state : forall g cfg t0 c, length (g_locs g) < 65536 ->
  NoDup (g_locs g) -> creach g cfg medium_empty t0 c -> exists K, reuse_witness c K.
Proof. exact CrashReuseProofs.region_reused_only_after_durable_state. Qed.
Print Assumptions region_reused_only_after_durable_state.

(** the regions of the list, of the blocks awaiting release, of the free list and of the
    regions held for open writers partition the device *)
Theorem regions_partition : forall g cfg t0 c, length (g_locs g) < 65536 -> NoDup (g_locs g) ->
  creach g cfg medium_empty t0 c ->
  NoDup (skipn (totalReleased (s_pbl (cs_sys c))) (cs_locs c) ++ toRelease (s_pbl (cs_sys c)) ++ cs_free c ++ cs_held c).
Proof. intros g cfg t0 c H1 H2 R. exact (proj1 (CrashReuseProofs.regions_distinct g cfg t0 c H1 H2 R)). Qed.
Print Assumptions regions_partition.

(** ---- repeated crashes ----
    A HISTORY is a list of lives ([CrashRepeat.lives g H m]): the first starts on empty media, every
    later one on the media left by the crash of its predecessor — ANY reachable state of that life,
    ANY prefix of its I/O log, ANY loss choice; [m] = the media after the last crash.  So crashes
    during recovery, right after a restart, before the first state write of a life … are included.
    The upload tags of the model ([r_up], the tag of [IoData]) are indices into the upload table of
    ONE life; across lives an upload is identified by (life, index): [CrashRepeatSafe.hist_data H]
    is the data device as the history left it — the surviving data writes of every life, tagged with
    the number of the life — and [towner … l z] the (life, upload) of the LAST surviving write that
    covers byte [z] of region [l].

    [repeated_crash]: after ANY number of crash + restart rounds, a record that resolves on the final
    media designates a COMPLETED upload (life j, index k) of the record's key, offset and size, all
    of whose data writes lay below the durable frontier of the log prefix at which life j crashed,
    allocated in the very device region that the restarted list attaches to the resolved block,
    below that block's restored write offset, and every byte of the location is owned by a write of
    that upload — no surviving write of any other upload of any life covers it.
    [repeated_crash_bytes]: the same on the medium's own data list ([byte_owner (m_data m)]).
    Proof: the medium invariant [SafeF] holds for empty media and is closed under one life + crash
    from ANY medium that satisfies it ([safe_medium_closed]); inside a life on such a medium every
    record is native (a completed upload of this life, as in the first life) or inherited (an object
    of a restored block, re-referenced by Robin-Hood moves), decided once per record
    (Persist/CrashRepeatRec.v); the structural first-life invariants are transported by a step-by-step
    simulation in which moves are replaced by writes of the finalizer's own record
    (Persist/CrashRepeatSim.v, CrashRepeatShadow.v). *)
Theorem repeated_crash : forall g H m,
  length (g_locs g) < 65536 -> NoDup (g_locs g) -> (0 < g_sector g)%Z ->
  CrashRepeat.lives g H m ->
  forall slot r i, resolves g m slot r i ->
  exists j lf k up b l,
    nth_error H j = Some lf /\ nth_error (cs_ups (CrashRepeat.lf_c lf)) k = Some up /\
    up_key up = r_key r /\ up_off up = r_off r /\ up_size up = r_size r /\
    up_state up = UpFin true /\ up_issued up = up_size up /\
    (forall q l' lo hi, nth_error (cs_log (CrashRepeat.lf_c lf)) q = Some (IoData k l' lo hi) ->
       q < durable_upto (firstn (CrashRepeat.lf_n lf) (cs_log (CrashRepeat.lf_c lf)))) /\
    nth_error (cs_locs (CrashRepeat.lf_c lf)) (up_abs up) = Some l /\
    nth_error (blocks (fst (restart (geom g) (m_state m)))) i = Some b /\ b_loc b = l /\
    (r_off r + r_size r <= b_written b)%Z /\
    forall z, (r_off r <= z < r_off r + r_size r)%Z ->
      CrashRepeatSafe.towner (CrashRepeatSafe.hist_data H) l z None = Some (j, k).
Proof. exact CrashRepeatSafe.repeated_crash. Qed.
Print Assumptions repeated_crash.

(** the data list of the final medium is the history's data with the life tags erased, so on the
    medium itself the last write covering each byte of the location carries that upload's tag *)
Theorem repeated_crash_bytes : forall g H m,
  length (g_locs g) < 65536 -> NoDup (g_locs g) -> (0 < g_sector g)%Z ->
  CrashRepeat.lives g H m ->
  forall slot r i, resolves g m slot r i ->
  exists j lf k up b,
    nth_error H j = Some lf /\ nth_error (cs_ups (CrashRepeat.lf_c lf)) k = Some up /\
    up_key up = r_key r /\ up_off up = r_off r /\ up_size up = r_size r /\ up_state up = UpFin true /\
    nth_error (blocks (fst (restart (geom g) (m_state m)))) i = Some b /\
    nth_error (cs_locs (CrashRepeat.lf_c lf)) (up_abs up) = Some (b_loc b) /\
    (r_off r + r_size r <= b_written b)%Z /\
    forall z, (r_off r <= z < r_off r + r_size r)%Z -> byte_owner (m_data m) (b_loc b) z None = Some k.
Proof. exact CrashRepeatSafe.repeated_crash_bytes. Qed.
Print Assumptions repeated_crash_bytes.

Theorem data_of_history : forall g H m, CrashRepeat.lives g H m ->
  m_data m = map snd (CrashRepeatSafe.hist_data H).
Proof. exact CrashRepeatSafe.lives_data. Qed.
Print Assumptions data_of_history.

(** the invariant: closed under a life of any length and a crash, from ANY medium that satisfies it
    (the "one restart from any invariant-satisfying state" step; [repeated_crash] is its iteration) *)
Theorem safe_medium_empty : forall g, CrashRepeatSafe.SafeF g [] medium_empty.
Proof. exact CrashRepeatSafe.SafeF_empty. Qed.
Theorem safe_medium_closed : forall g H base lf,
  length (g_locs g) < 65536 -> NoDup (g_locs g) -> (0 < g_sector g)%Z ->
  CrashRepeatSafe.SafeF g H base ->
  creach g (CrashRepeat.lf_cfg lf) base (CrashRepeat.lf_t0 lf) (CrashRepeat.lf_c lf) ->
  CrashRepeatSafe.SafeF g (H ++ [lf])
    (crash_of base (CrashRepeat.lf_c lf) (CrashRepeat.lf_n lf) (CrashRepeat.lf_ch lf)).
Proof. exact CrashRepeatSafe.SafeF_step. Qed.
Print Assumptions safe_medium_closed.

(** ---- no overwrite after restart, arbitrarily many lives ----
    [base] = the media of ANY history; a life of any length on it: once a data write (position [q]
    of its log) has touched a byte of a location that resolved at the restart, that record never
    resolves again, at whatever later point the life crashes and whatever is lost — the write went
    into a NEW block on the region, which the allocator handed out only after a state file without
    the old block was durable (writes into the restored block itself start at or above its restored
    write offset: [no_overwrite_after_restart_block]).  Equivalently: as long as the record can still
    resolve after a crash, no upload accepted after the restart has written into its bytes. *)
Theorem no_overwrite_after_restart : forall g H base cfg t0 c,
  length (g_locs g) < 65536 -> NoDup (g_locs g) -> (0 < g_sector g)%Z ->
  CrashRepeat.lives g H base -> creach g cfg base t0 c ->
  forall slot r i b, resolves g base slot r i ->
    nth_error (blocks (fst (restart (geom g) (m_state base)))) i = Some b ->
  forall q k lo hi z, nth_error (cs_log c) q = Some (IoData k (b_loc b) lo hi) ->
    (r_off r <= z < r_off r + r_size r)%Z -> (lo <= z < hi)%Z ->
  forall n ch, q < n -> forall slot' i', ~ resolves g (crash_of base c n ch) slot' r i'.
Proof. exact CrashRepeatSafe.no_overwrite_after_restart. Qed.
Print Assumptions no_overwrite_after_restart.

(** the region-reuse discipline and the partition of the device for a life on any medium whose state
    file restores duplicate-free seeds and regions (in particular the media of any history) *)
Theorem region_reused_only_after_durable_state_any_base : forall g cfg base t0 c,
  length (g_locs g) < 65536 -> NoDup (g_locs g) -> CrashRepeatShadow.base_ok g base ->
  creach g cfg base t0 c -> exists K, reuse_witness c K.
Proof. exact CrashRepeatShadow.region_reuse_any_base. Qed.
Print Assumptions region_reused_only_after_durable_state_any_base.

(** what can be the state file after a crash of a life that started with files: the file it started
    with (only while no directory fsync of the life completed) or the payload of a state write of the
    prefix — never the left-over state.new, never torn or stale content *)
Theorem state_file_survivor_any_base : forall (base : medium irec) (L : list (io irec)) ch x,
  shaped L -> m_state (crash_medium base L ch) = Some x ->
  (m_state base = Some x /\ dlw L = None) \/
  exists pos, nth_error L pos = Some (IoWriteNew x) /\ forall lw, dlw L = Some lw -> lw <= pos.
Proof. exact CrashRepeat.dir_survivor_any. Qed.
Print Assumptions state_file_survivor_any_base.

(** ---- non-vacuity: a concrete history (push a block, upload 20 bytes of key 5
    in two device writes, finalize + record in slot 3, one commit cycle of the
    put loop with the six directory operations), a crash after the directory
    fsync with nothing lost: the record resolves; a crash before the rename:
    nothing resolves although the record itself survived. ---- *)
Definition ex_g : geo := mkGeo [(0, 64); (64, 64); (128, 64)]%Z 16%Z 7%N.
Definition ex_cfg : config := mkConfig 10 3.
Definition ex_ok : ans := mkAns true 0.
Definition ex_tr : list cev :=
  [CPush; CPutStart 0 5%N 20%Z; CData 0 16%Z; CData 0 4%Z; CWriterDone 0 true; CFinalize 0 1001%N [IwNew 3];
   CStep TP ex_ok; CStep TP ex_ok; CTick 10; CStep TP (mkAns true 10); CStep TP ex_ok; CStep TP ex_ok;
   CStep TP ex_ok; CStep TP ex_ok; CStep TP ex_ok; CDir; CDir; CDir; CDir; CDir; CDir; CStep TP ex_ok; CStep TP ex_ok].
Definition ex_c : cst :=
  match crun ex_g ex_cfg (cinit ex_g medium_empty 0) ex_tr with Some c => c | None => cinit ex_g medium_empty 0 end.
Definition ex_all : choice := mkChoice (repeat true 8) (repeat true 8) 9 0.
Definition ex_rec : irec := mkIrec 1 0 5 0 20 1001 0.

Example ex_reachable : creach ex_g ex_cfg medium_empty 0 ex_c /\ length (cs_log ex_c) = 11.
Proof. split; [exists ex_tr|]; vm_compute; reflexivity. Qed.
Example ex_resolves_after_commit : resolves ex_g (crash_of medium_empty ex_c 11 ex_all) 3 ex_rec 0.
Proof. split; vm_compute; reflexivity. Qed.
Example ex_not_before_rename :
  slot_get (m_index (crash_of medium_empty ex_c 9 ex_all)) 3 None = Some ex_rec /\
  resolve_ref (fst (restart (geom ex_g) (m_state (crash_of medium_empty ex_c 9 ex_all)))) 0 1 0 1001 = None.
Proof. split; vm_compute; reflexivity. Qed.
(** the data write issued before the completed sync is durable: it survives the choice "lose everything" *)
Example ex_data_durable :
  length (m_data (crash_of medium_empty ex_c 11 (mkChoice [] [] 0 1))) = 2.
Proof. vm_compute. reflexivity. Qed.

(** ---- non-vacuity, two lives: the first life of the example crashes after its commit cycle with
    nothing lost; the second life (on those media) uploads 8 bytes of key 6 into the RESTORED block
    (at the restored write offset 20 rounded up to a sector: 32), finalizes with a record in slot 4
    and crashes before any state write, its data write surviving.  The record of the FIRST life
    still resolves (through the state file the second life started with); byte 19 of the region is
    owned by upload 0 of life 0, byte 32 by upload 0 of life 1 — on the raw medium both carry the
    per-life tag 0, which is why uploads are identified by (life, index); the new record does not
    resolve (its epoch is not in any state file). ---- *)
Definition ex_m1 : medium irec := crash_of medium_empty ex_c 11 ex_all.
Definition ex_tr2 : list cev :=
  [CPutStart 0 6%N 8%Z; CData 0 8%Z; CWriterDone 0 true; CFinalize 0 2002%N [IwNew 4]].
Definition ex_c2 : cst :=
  match crun ex_g ex_cfg (cinit ex_g ex_m1 50) ex_tr2 with Some c => c | None => cinit ex_g ex_m1 50 end.
Definition ex_lf1 : CrashRepeat.life := CrashRepeat.mkLife ex_cfg 0 ex_c 11 ex_all.
Definition ex_lf2 : CrashRepeat.life := CrashRepeat.mkLife ex_cfg 50 ex_c2 2 ex_all.
Definition ex_m2 : medium irec := crash_of ex_m1 ex_c2 2 ex_all.

Example ex2_history : CrashRepeat.lives ex_g (([] ++ [ex_lf1]) ++ [ex_lf2])
   (crash_of (crash_of medium_empty (CrashRepeat.lf_c ex_lf1) (CrashRepeat.lf_n ex_lf1) (CrashRepeat.lf_ch ex_lf1))
             (CrashRepeat.lf_c ex_lf2) (CrashRepeat.lf_n ex_lf2) (CrashRepeat.lf_ch ex_lf2)).
Proof.
  apply CrashRepeat.lives_snoc.
  - apply CrashRepeat.lives_snoc; [constructor|]. exists ex_tr. vm_compute. reflexivity.
  - exists ex_tr2. vm_compute. reflexivity.
Qed.
Example ex2_second_life_wrote : length (cs_log ex_c2) = 2 /\ length (m_data ex_m2) = 3.
Proof. split; vm_compute; reflexivity. Qed.
Example ex2_old_record_resolves : resolves ex_g ex_m2 3 ex_rec 0.
Proof. split; vm_compute; reflexivity. Qed.
Example ex2_owners :
  CrashRepeatSafe.towner (CrashRepeatSafe.hist_data [ex_lf1; ex_lf2]) (0, 64)%Z 19 None = Some (0, 0) /\
  CrashRepeatSafe.towner (CrashRepeatSafe.hist_data [ex_lf1; ex_lf2]) (0, 64)%Z 32 None = Some (1, 0) /\
  byte_owner (m_data ex_m2) (0, 64)%Z 19 None = Some 0 /\ byte_owner (m_data ex_m2) (0, 64)%Z 32 None = Some 0.
Proof. repeat split; vm_compute; reflexivity. Qed.
Example ex2_new_record_not_yet :
  slot_get (m_index ex_m2) 4 None = Some (mkIrec 2 0 6 32 8 2002 0) /\
  resolve_ref (fst (restart (geom ex_g) (m_state ex_m2))) 0 2 0 2002 = None.
Proof. split; vm_compute; reflexivity. Qed.

(** ---- the monitor of Run/R02.v on the model (Run/R02Mon.v) ----
    Run/R02.v has no "run02 inp" that generates an observation ([tie_life] validates the
    implementation's own trace), so the usual "monitor silent on the model" is stated relationally.
    [R02Mon.model_get_obs g ver H m key o]: [o] is an answer the crash model admits for [Get key] right
    after the restart on the media [m] of history [H]: NOT_FOUND / UNAVAILABLE (location-map probing and
    refresh are not modelled: always possible), or a record of the key resolves and the bytes of its
    location are served — (1 key ver) when the location is exactly the allocation of ONE completed
    upload (life j, index k) of that key owning every byte of it ([R02Mon.designates]; [ver j k] = the
    version that upload carried), ANY payload otherwise (foreign bytes).  The monitor's [get_clauses]
    accepts every such answer: the foreign case is refuted by [repeated_crash], the good case needs only
    that the history's uploads are uploads the input attempted ([R02Mon.labelled]). *)
Theorem probe_get_silent_on_model : forall g ver H m opss key o,
  length (g_locs g) < 65536 -> NoDup (g_locs g) -> (0 < g_sector g)%Z ->
  CrashRepeat.lives g H m -> R02Mon.labelled ver H opss ->
  R02Mon.model_get_obs g ver H m key o -> get_clauses opss key o = [].
Proof.
  intros g ver H m opss key o G1 G2 G3.
  exact (R02Mon.probe_get_silent_on_model g ver H m opss key o (conj G1 (conj G2 G3))).
Qed.
Print Assumptions probe_get_silent_on_model.

Theorem probe_fm_silent_on_model : forall g m key o, R02Mon.model_fm_obs g m key o -> fm_clauses o = [].
Proof. exact R02Mon.probe_fm_silent_on_model. Qed.
Print Assumptions probe_fm_silent_on_model.

(** the foreign disjunct of the model observation is empty (this IS [repeated_crash], at the sx level) *)
Theorem model_get_obs_never_foreign : forall g ver H m key o,
  length (g_locs g) < 65536 -> NoDup (g_locs g) -> (0 < g_sector g)%Z ->
  CrashRepeat.lives g H m -> R02Mon.model_get_obs g ver H m key o ->
  o = L [A 5%Z] \/ o = L [A 14%Z] \/
  exists slot r i b j k, resolves g m slot r i /\ Z.of_N (r_key r) = key /\
    nth_error (blocks (fst (restart (geom g) (m_state m)))) i = Some b /\
    R02Mon.designates H (b_loc b) r j k /\ o = L [A 0%Z; L [A 1%Z; A key; A (ver j k)]].
Proof.
  intros g ver H m key o G1 G2 G3.
  exact (R02Mon.model_get_obs_never_foreign g ver H m key o (conj G1 (conj G2 G3))).
Qed.
Print Assumptions model_get_obs_never_foreign.

(** on a non-empty location "one completed upload with exactly this allocation owns every byte"
    determines the upload ([towner] is a function), and it is the upload of the record's key *)
Theorem owner_designates : forall g H m slot r i b j k,
  length (g_locs g) < 65536 -> NoDup (g_locs g) -> (0 < g_sector g)%Z ->
  CrashRepeat.lives g H m -> resolves g m slot r i ->
  nth_error (blocks (fst (restart (geom g) (m_state m)))) i = Some b -> (0 < r_size r)%Z ->
  R02Mon.owned_by H (b_loc b) r j k -> R02Mon.designates H (b_loc b) r j k.
Proof.
  intros g H m slot r i b j k G1 G2 G3.
  exact (R02Mon.owner_designates g H m slot r i b j k (conj G1 (conj G2 G3))).
Qed.
Print Assumptions owner_designates.

(** the probe list ((fm get) per key, key = position): the first component of [mon_life]'s clauses *)
Theorem probe_silent_on_model : forall g ver H m opss probe,
  length (g_locs g) < 65536 -> NoDup (g_locs g) -> (0 < g_sector g)%Z ->
  CrashRepeat.lives g H m -> R02Mon.labelled ver H opss ->
  R02Mon.indexed (R02Mon.model_probe_obs g ver H m) 0%Z probe ->
  flat_map (fun kp => fm_clauses (sx_nth (snd kp) 0) ++ get_clauses opss (fst kp) (sx_nth (snd kp) 1))
           (zip_index 0%Z probe) = [].
Proof.
  intros g ver H m opss probe G1 G2 G3.
  exact (R02Mon.probe_silent_on_model g ver H m opss probe (conj G1 (conj G2 G3))).
Qed.
Print Assumptions probe_silent_on_model.

(** [mon_life] decomposed: nothing is reported iff the node is not abnormal, its probe / final / opres
    components (depth >= 1) are empty, and every experiment's subtree reports nothing *)
Theorem mon_life_nil_iff : forall f d opss ing obs,
  mon_life (S f) d opss ing obs = [] <->
  abnormal obs = false /\
  (d <> 0 -> R02Mon.probe_clauses (sx_nth ing 0 :: opss) obs = [] /\
             R02Mon.final_clauses (sx_nth ing 0 :: opss) obs = [] /\
             R02Mon.opres_clauses (sx_nth ing 0 :: opss) (sx_nth ing 0) obs = []) /\
  Forall (fun eo => mon_life f (S d) (sx_nth ing 0 :: opss) (sx_nth (fst eo) 6) (sx_nth (snd eo) 4) = [])
         (combine (sx_list (sx_nth ing 1)) (sx_list (sx_nth obs 6))).
Proof. exact R02Mon.mon_life_nil_iff. Qed.
Print Assumptions mon_life_nil_iff.

(** the same lemma for a list of [Get] answers (the shape of [final]) and for the answers to the
    (5 key) / (6 keys) operations of an op list ([opres]) — WHEN these are model observations of the
    restart medium, which a running store's answers are only if the life has made no model step *)
Theorem gets_silent_on_model : forall g ver H m opss gets,
  length (g_locs g) < 65536 -> NoDup (g_locs g) -> (0 < g_sector g)%Z ->
  CrashRepeat.lives g H m -> R02Mon.labelled ver H opss ->
  R02Mon.indexed (R02Mon.model_get_obs g ver H m) 0%Z gets ->
  flat_map (fun kg => get_clauses opss (fst kg) (snd kg)) (zip_index 0%Z gets) = [].
Proof.
  intros g ver H m opss gets G1 G2 G3.
  exact (R02Mon.gets_silent_on_model g ver H m opss gets (conj G1 (conj G2 G3))).
Qed.
Print Assumptions gets_silent_on_model.

Theorem opres_silent_on_model : forall g ver H m opss ops obs,
  length (g_locs g) < 65536 -> NoDup (g_locs g) -> (0 < g_sector g)%Z ->
  CrashRepeat.lives g H m -> R02Mon.labelled ver H opss ->
  Forall (R02Mon.model_opres_obs g ver H m) (combine (sx_list ops) (sx_list (sx_nth obs 3))) ->
  R02Mon.opres_clauses opss ops obs = [].
Proof.
  intros g ver H m opss ops obs G1 G2 G3.
  exact (R02Mon.opres_silent_on_model g ver H m opss ops obs (conj G1 (conj G2 G3))).
Qed.
Print Assumptions opres_silent_on_model.

(** PARTIAL (probe component; final / opres assumed, or of a life without a model step).
    [R02Mon.model_tree g ver d H m opss ing obs]: the node at depth [d] is not abnormal; at depth >= 1 its
    probe list consists of model observations for the history [H] (d lives) and its media [m]; its
    [final] / [opres] components are ASSUMED clean — reads in a running store after the restart, for
    which the crash model has no observation function (no read event, no volatile view of the data
    device; a Get may refresh, so a life without uploads is not quiescent either) — or are model
    observations of the restart medium (a life that made no model step); every experiment is a crash
    of a model life [lf] on [m] — any reachable state, any log prefix, any loss choice — whose uploads
    the node's op list attempted, and the subtree is a model tree for [H ++ [lf]] on the media that
    crash leaves.  On such a tree the monitor reports nothing. *)
Theorem mon02_silent_on_model_partial : forall g ver fuel ing obs,
  length (g_locs g) < 65536 -> NoDup (g_locs g) -> (0 < g_sector g)%Z ->
  R02Mon.model_tree g ver 0 [] medium_empty [] ing obs -> mon_life fuel 0 [] ing obs = [].
Proof.
  intros g ver fuel ing obs G1 G2 G3.
  exact (R02Mon.mon02_silent_on_model_partial g ver (conj G1 (conj G2 G3)) fuel ing obs).
Qed.
Print Assumptions mon02_silent_on_model_partial.

Theorem mon_life_silent_on_model_tree : forall g ver fuel d H m opss ing obs,
  length (g_locs g) < 65536 -> NoDup (g_locs g) -> (0 < g_sector g)%Z ->
  CrashRepeat.lives g H m -> R02Mon.labelled ver H opss -> R02Mon.model_tree g ver d H m opss ing obs ->
  mon_life fuel d opss ing obs = [].
Proof.
  intros g ver fuel d H m opss ing obs G1 G2 G3.
  exact (R02Mon.mon_life_silent_on_model_tree g ver (conj G1 (conj G2 G3)) fuel d H m opss ing obs).
Qed.
Print Assumptions mon_life_silent_on_model_tree.

(** ---- non-vacuity of the model observations: the two-life history above.  Life 0 uploaded version 0 of
    key 5, life 1 version 1 of key 6 ([ex_ver]).  After the second crash [Get 5] may be served, and
    then with exactly (1 5 0): record [ex_rec] (slot 3) resolves to block 0 and bytes 0..19 of its
    region are all owned by upload 0 of life 0 although life 1 wrote into the same block. ---- *)
Definition ex_ver (j k : nat) : Z := Z.of_nat j.
Definition ex_blk : binfo :=
  match nth_error (blocks (fst (restart (geom ex_g) (m_state ex_m2)))) 0 with Some b => b | None => mkBinfo (0, 0)%Z 0%Z 0%Z 0%Z 0 end.

Lemma ex2_designates : R02Mon.designates [ex_lf1; ex_lf2] (0, 64)%Z ex_rec 0 0.
Proof.
  exists ex_lf1. eexists. split; [reflexivity|]. split; [vm_compute; reflexivity|].
  repeat (split; [vm_compute; reflexivity|]).
  intros z Hz. change (r_off ex_rec) with 0%Z in Hz. change (r_size ex_rec) with 20%Z in Hz.
  assert (Hc : (z = 0 \/ z = 1 \/ z = 2 \/ z = 3 \/ z = 4 \/ z = 5 \/ z = 6 \/ z = 7 \/ z = 8 \/ z = 9 \/
                z = 10 \/ z = 11 \/ z = 12 \/ z = 13 \/ z = 14 \/ z = 15 \/ z = 16 \/ z = 17 \/ z = 18 \/ z = 19)%Z) by lia.
  repeat (destruct Hc as [->|Hc]; [vm_compute; reflexivity|]). subst z. vm_compute. reflexivity.
Qed.

Example ex2_get_model_obs :
  R02Mon.model_get_obs ex_g ex_ver [ex_lf1; ex_lf2] ex_m2 5 (L [A 0; L [A 1; A 5; A 0]])%Z.
Proof.
  change (L [A 0; L [A 1; A 5; A 0]])%Z with (L [A 0; L [A 1; A 5; A (ex_ver 0 0)]])%Z.
  apply (R02Mon.mgo_served ex_g ex_ver [ex_lf1; ex_lf2] ex_m2 5%Z 3 ex_rec 0 ex_blk 0 0).
  - exact ex2_old_record_resolves.
  - reflexivity.
  - vm_compute. reflexivity.
  - change (b_loc ex_blk) with (0, 64)%Z. exact ex2_designates.
Qed.
(** … and the monitor accepts it for every op list in which that upload occurs *)
Example ex2_get_model_obs_accepted :
  get_clauses [L [L [A 1; A 6; A 1]]; L [L [A 1; A 5; A 0]]]%Z 5 (L [A 0; L [A 1; A 5; A 0]])%Z = [].
Proof. vm_compute. reflexivity. Qed.

(** ---- non-vacuity of [model_tree]: a three-level observation tree over the same two-life history.
    Life 0 runs op list ((1 5 0)) and crashes (experiment 0), life 1 is probed for keys 0..6 — key 5 is
    served with (1 5 0), everything else misses —, runs ((1 6 1)), is read back (final: keys 5 and 6
    served) and crashes; life 2 is probed: key 5 still served, key 6 lost (its record does not resolve,
    [ex2_new_record_not_yet]).  The tree is a model tree, so the monitor is silent on it — and
    [vm_compute] of the monitor agrees. ---- *)
Definition ex_miss (k : Z) : sx := L [L [A 0; L [A k]]; L [A 5]]%Z.
Definition ex_hit5 : sx := L [L [A 0; L []]; L [A 0; L [A 1; A 5; A 0]]]%Z.
Definition ex_probe : sx := L [ex_miss 0; ex_miss 1; ex_miss 2; ex_miss 3; ex_miss 4; ex_hit5; ex_miss 6]%Z.
Definition ex_gen2 : sx := L [L []; L []].
Definition ex_gen1 : sx := L [L [L [A 1; A 6; A 1]]; L [L [A 0; A 0; L []; L []; A 0; A 0; ex_gen2]]]%Z.
Definition ex_gen0 : sx := L [L [L [A 1; A 5; A 0]]; L [L [A 0; A 0; L []; L []; A 9; A 0; ex_gen1]]]%Z.
Definition ex_final2 : sx :=
  L [L [A 5]; L [A 5]; L [A 5]; L [A 5]; L [A 5]; L [A 0; L [A 1; A 5; A 0]]; L [A 5]]%Z.
Definition ex_obs2 : sx := L [L []; L []; ex_probe; L []; ex_final2; L []; L []; L []].
Definition ex_final1 : sx :=
  L [L [A 5]; L [A 5]; L [A 5]; L [A 5]; L [A 5]; L [A 0; L [A 1; A 5; A 0]]; L [A 0; L [A 1; A 6; A 1]]]%Z.
Definition ex_obs1 : sx :=
  L [L []; L []; ex_probe; L [L [A 0]]; ex_final1; L []; L [L [A 2; L []; L []; A 0; ex_obs2]]; L []]%Z.
Definition ex_obs0 : sx :=
  L [L []; L []; L []; L [L [A 0]]; L []; L []; L [L [A 11; L []; L []; A 0; ex_obs1]]; L []]%Z.

Lemma ex1_designates : R02Mon.designates [ex_lf1] (0, 64)%Z ex_rec 0 0.
Proof.
  exists ex_lf1. eexists. split; [reflexivity|]. split; [vm_compute; reflexivity|].
  repeat (split; [vm_compute; reflexivity|]).
  intros z Hz. change (r_off ex_rec) with 0%Z in Hz. change (r_size ex_rec) with 20%Z in Hz.
  assert (Hc : (z = 0 \/ z = 1 \/ z = 2 \/ z = 3 \/ z = 4 \/ z = 5 \/ z = 6 \/ z = 7 \/ z = 8 \/ z = 9 \/
                z = 10 \/ z = 11 \/ z = 12 \/ z = 13 \/ z = 14 \/ z = 15 \/ z = 16 \/ z = 17 \/ z = 18 \/ z = 19)%Z) by lia.
  repeat (destruct Hc as [->|Hc]; [vm_compute; reflexivity|]). subst z. vm_compute. reflexivity.
Qed.

Lemma ex_ups1 : cs_ups (CrashRepeat.lf_c ex_lf1) = [mkUp 5 0 0 20 20 (UpFin true)].
Proof. vm_compute. reflexivity. Qed.
Lemma ex_ups2 : cs_ups (CrashRepeat.lf_c ex_lf2) = [mkUp 6 0 32 8 8 (UpFin true)].
Proof. vm_compute. reflexivity. Qed.
Lemma ex_labelled1 : R02Mon.labelled ex_ver [ex_lf1] [L [L [A 1; A 5; A 0]]]%Z.
Proof.
  intros j lf k up Hj Hk. destruct j as [|j]; [|destruct j; discriminate]. injection Hj as <-.
  rewrite ex_ups1 in Hk. destruct k as [|k]; [|destruct k; discriminate]. injection Hk as <-.
  vm_compute. reflexivity.
Qed.
Lemma ex_labelled2 : R02Mon.labelled ex_ver [ex_lf1; ex_lf2] [L [L [A 1; A 6; A 1]]; L [L [A 1; A 5; A 0]]]%Z.
Proof.
  intros j lf k up Hj Hk. destruct j as [|[|j]]; [| |destruct j; discriminate]; injection Hj as <-.
  - rewrite ex_ups1 in Hk. destruct k as [|k]; [|destruct k; discriminate]. injection Hk as <-.
    vm_compute. reflexivity.
  - rewrite ex_ups2 in Hk. destruct k as [|k]; [|destruct k; discriminate]. injection Hk as <-.
    vm_compute. reflexivity.
Qed.

Ltac ex_probe_misses :=
  repeat match goal with
  | |- _ /\ _ => split
  | |- R02Mon.model_probe_obs _ _ _ _ _ _ => split
  | |- R02Mon.model_fm_obs _ _ _ _ => apply R02Mon.mfo_missing
  | |- R02Mon.model_get_obs _ _ _ _ _ _ => apply R02Mon.mgo_miss
  | |- True => exact I
  end.

Lemma ex_blk_loc : b_loc ex_blk = (0, 64)%Z.
Proof. vm_compute. reflexivity. Qed.

Example ex_tree_model : R02Mon.model_tree ex_g ex_ver 0 [] medium_empty [] ex_gen0 ex_obs0.
Proof.
  apply R02Mon.mt_node; [reflexivity|intros Hd; exfalso; apply Hd; reflexivity|].
  constructor; [|constructor].
  exists ex_lf1. split; [exists ex_tr; vm_compute; reflexivity|]. split; [exact ex_labelled1|].
  (* life 1: history [ex_lf1], media ex_m1 *)
  apply R02Mon.mt_node; [reflexivity| |].
  - intros _. split; [|split; left; vm_compute; reflexivity].
    cbn [fst snd ex_obs1 ex_probe ex_miss ex_hit5 sx_nth sx_list nth R02Mon.indexed]. ex_probe_misses.
    + apply (R02Mon.mfo_present ex_g _ _ 3 ex_rec 0); [exact ex_resolves_after_commit|reflexivity].
    + apply (R02Mon.mgo_served ex_g ex_ver _ _ _ 3 ex_rec 0 ex_blk 0 0);
        [exact ex_resolves_after_commit|reflexivity|vm_compute; reflexivity|rewrite ex_blk_loc; exact ex1_designates].
  - constructor; [|constructor].
    exists ex_lf2. split; [exists ex_tr2; vm_compute; reflexivity|]. split; [exact ex_labelled2|].
    (* life 2: history [ex_lf1; ex_lf2], media ex_m2 *)
    apply R02Mon.mt_node; [reflexivity| |constructor].
    assert (Hserved : R02Mon.model_get_obs ex_g ex_ver (([] ++ [ex_lf1]) ++ [ex_lf2])
                        (crash_of (crash_of medium_empty (CrashRepeat.lf_c ex_lf1) (CrashRepeat.lf_n ex_lf1) (CrashRepeat.lf_ch ex_lf1))
                                  (CrashRepeat.lf_c ex_lf2) (CrashRepeat.lf_n ex_lf2) (CrashRepeat.lf_ch ex_lf2))
                        (0 + 1 + 1 + 1 + 1 + 1)%Z (L [A 0; L [A 1; A 5; A 0]])%Z).
    { apply (R02Mon.mgo_served ex_g ex_ver _ _ _ 3 ex_rec 0 ex_blk 0 0);
        [exact ex2_old_record_resolves|reflexivity|vm_compute; reflexivity|rewrite ex_blk_loc; exact ex2_designates]. }
    intros _. split; [|split; [right|left; vm_compute; reflexivity]].
    + cbn [fst snd ex_obs1 ex_obs2 ex_probe ex_miss ex_hit5 sx_nth sx_list nth R02Mon.indexed]. ex_probe_misses.
      * apply (R02Mon.mfo_present ex_g _ _ 3 ex_rec 0); [exact ex2_old_record_resolves|reflexivity].
      * exact Hserved.
    + cbn [fst snd ex_obs1 ex_obs2 ex_final2 sx_nth sx_list nth R02Mon.indexed]. ex_probe_misses. exact Hserved.
Qed.
Example ex_tree_silent : mon_life 6 0 [] ex_gen0 ex_obs0 = [].
Proof.
  apply (mon02_silent_on_model_partial ex_g ex_ver); [apply Nat.ltb_lt; vm_compute; reflexivity| |reflexivity|].
  - repeat (constructor; [cbn [In]; intuition discriminate|]). constructor.
  - exact ex_tree_model.
Qed.
(** the monitor is not silent by construction: the same tree with foreign bytes served for key 5 after
    the second restart is reported (clause 1) *)
Definition ex_probe_bad : sx :=
  L [ex_miss 0; ex_miss 1; ex_miss 2; ex_miss 3; ex_miss 4; L [L [A 0; L []]; L [A 0; L [A 2; A 20; L []]]]; ex_miss 6]%Z.
Definition ex_obs0_bad : sx :=
  L [L []; L []; L []; L [L [A 0]]; L []; L [];
     L [L [A 11; L []; L []; A 0;
           L [L []; L []; ex_probe; L [L [A 0]]; ex_final1; L [];
              L [L [A 2; L []; L []; A 0; L [L []; L []; ex_probe_bad; L []; L []; L []; L []; L []]]]; L []]]]; L []]%Z.
Example ex_tree_wrong_bytes_caught :
  mon_life 6 0 [] ex_gen0 ex_obs0 = [] /\ mon_life 6 0 [] ex_gen0 ex_obs0_bad = [1%Z].
Proof. split; vm_compute; reflexivity. Qed.
