(** C04 — Block space is never reused while referenced, and never leaked;
    every reference taken by a storage operation is released exactly once.
    Statements only; the proofs are in Store/P04*.v.

    Every theorem is about the executable model Store/Model.v of
    pkg/blobstore/local (block allocator with FIFO free list and use counts,
    volatile block list, OldCurrentNewLocationBlobMap, flat and hierarchical
    access split into atomic steps), for ALL worlds [w] that pass the
    well-formedness check [wf_world] (any block size, any old/current/new
    geometry, mutable or immutable growth, in-memory or block-device
    allocator with any number of regions, flat or hierarchical keys,
    validating or raw reads, any objects) and ALL schedules [es : list op]
    (any length, any interleaving of Put / Get / FindMissing / GetFromComposite
    steps, readers held open for arbitrarily long, wrong / short / long
    uploads, source failures, corruption) — by induction over [step].
    No hypothesis on the schedule is needed (ill-formed events are answered
    [Bad] and change nothing). *)
From Coq Require Import List NArith ZArith Bool Arith Permutation.
From BBS Require Import Common.Sx Store.Model Store.Wf Run.RStore Run.R04.
From BBS Require Import Store.P04Base Store.P04Prim Store.P04Fbs Store.P04Ops Store.P04Step Store.P04Main Store.P04Mon Store.P04Extra.
(* -- (keeps lib/checklib.py's dependency scan from reading past the sentence) *)
Import ListNotations.
Local Open Scope nat_scope.

(** Vocabulary (Store/P04Base.v, Store/P04Main.v):
    [reach w es]  = [fst (run w (init_state (w_cfg w)) es)], the state after the schedule [es]
                    (every state of [run_states] is such a state: [states_of_a_run_are_reachable]);
    [regions s]   = regions of the listed blocks ++ regions of the zombies ++ the free list;
    [uids s]      = uids of the listed blocks ++ uids of the zombies;
    [allb s]      = listed blocks ++ zombies;
    [refs c t]    = the block uids a parked thread holds a reference on: the writer of a [TPut],
                    the source of a [TGet]/[TGfc] plus its pending refresh writer (for a flat
                    composite read with a non-validating factory the refresh writer is released
                    when the operation parks);
    [nrefs c s u] = number of references parked threads hold on uid [u]. *)

Theorem reach_is_run : forall w es, reach w es = fst (run w (init_state (w_cfg w)) es).
Proof. reflexivity. Qed.
Print Assumptions reach_is_run.

Theorem states_of_a_run_are_reachable : forall w es x,
  In x (run_states w (init_state (w_cfg w)) es) ->
  exists k, fst (fst x) = reach w (firstn k es) /\ snd (fst x) = reach w (firstn (S k) es).
Proof. exact run_states_reach. Qed.
Print Assumptions states_of_a_run_are_reachable.

(** 1. The allocator invariant, in every reachable state.
    (a) The regions of listed blocks, zombies and the free list are pairwise
        distinct; for the block-device allocator they are exactly the device's
        regions [0 .. c_nblocks), so capacity is never lost; in-memory regions
        are never handed out twice.
    (b) Use counts are exact: a listed block has 1 + the number of references
        held by parked operations, a zombie has exactly that number and it is
        positive (a zombie disappears exactly when its last reference goes);
        every referenced uid is a live block object.
    (c) uids are unique and below [s_next_uid]. *)
Theorem allocator_invariant : forall w es, wf_world w = true ->
  let c := w_cfg w in let s := reach w es in
  NoDup (regions s) /\
  (in_memory c = false -> Permutation (regions s) (seq 0 (c_nblocks c))) /\
  (in_memory c = true -> forall r, In r (regions s) -> r < s_next_region s) /\
  (forall b, In b (s_blocks s) -> b_use b = 1 + nrefs c s (b_uid b)) /\
  (forall z, In z (s_zombies s) -> b_use z = nrefs c s (b_uid z) /\ 1 <= b_use z) /\
  (forall tid t uid, In (tid, t) (s_threads s) -> In uid (refs c t) -> In uid (uids s)) /\
  NoDup (uids s) /\ (forall u, In u (uids s) -> u < s_next_uid s).
Proof. exact allocator_invariant_thm. Qed.
Print Assumptions allocator_invariant.

(** The release that a parked operation still owes never underflows
    (Go: panic("Block has invalid reference count")): the block it refers to
    is either listed with count >= 2 or a zombie with count >= 1. *)
Theorem release_never_underflows : forall w es, wf_world w = true ->
  let c := w_cfg w in let s := reach w es in
  forall tid t uid, In (tid, t) (s_threads s) -> In uid (refs c t) ->
  (exists b, In b (s_blocks s) /\ b_uid b = uid /\ 2 <= b_use b) \/
  (exists z, In z (s_zombies s) /\ b_uid z = uid /\ 1 <= b_use z).
Proof. exact release_never_underflows_thm. Qed.
Print Assumptions release_never_underflows.

(** Exactly once, globally: the pins on block objects (count minus the list's
    own reference for listed blocks, the whole count for zombies) add up to
    exactly the references parked operations hold — a reference dropped twice
    or never would break the equality. *)
Theorem pins_balance : forall w es, wf_world w = true ->
  let s := reach w es in
  pins s = length (all_refs (w_cfg w) (s_threads s)).
Proof. exact pins_balance_thm. Qed.
Print Assumptions pins_balance.

(** 2. No reuse while referenced.  On traces: a block object created during
    a step (uid not below the step's initial [s_next_uid]) never occupies the
    region of a block that an operation parked before the step refers to. *)
Theorem no_reuse_while_referenced : forall w es e, wf_world w = true ->
  let c := w_cfg w in let s := reach w es in let s' := fst (step w s e) in
  forall b', In b' (allb s') -> s_next_uid s <= b_uid b' ->
  forall tid t uid blk, In (tid, t) (s_threads s) -> In uid (refs c t) ->
    find_block s uid = Some blk -> b_region blk <> b_region b'.
Proof. exact no_reuse_while_referenced_thm. Qed.
Print Assumptions no_reuse_while_referenced.

(** ... and at the allocator itself: in any state satisfying the allocator
    invariant [AInv] (every reachable state, and every intermediate state
    inside a step at which the model calls NewBlock), the region NewBlock
    returns belongs to no existing block object, listed or zombie. *)
Theorem new_block_never_returns_an_owned_region : forall c s R b s',
  AInv c s R -> new_block c s = Some (b, s') ->
  forall x, In x (allb s) -> b_region x <> b_region b.
Proof. exact new_block_region_fresh. Qed.
Print Assumptions new_block_never_returns_an_owned_region.

(** 3. No leak at quiescence: once every operation has returned there is no
    zombie, and on a block device free + listed = all regions.  (That every
    exit path of every operation releases what it pinned is 1(b).) *)
Theorem no_leak_at_quiescence : forall w es, wf_world w = true ->
  let c := w_cfg w in let s := reach w es in
  s_threads s = [] ->
  s_zombies s = [] /\
  (in_memory c = false -> length (s_free s) + length (s_blocks s) = c_nblocks c).
Proof. exact no_leak_at_quiescence_thm. Qed.
Print Assumptions no_leak_at_quiescence.

(** 4. The counters, and: the out-of-fuel / impossible branches of the model
    are never taken. *)
Theorem counters_invariant : forall w es, wf_world w = true ->
  let c := w_cfg w in let s := reach w es in
  length (s_blocks s) = s_old s + s_cur s + s_new s /\
  (s_released s <= s_tbr s)%N /\
  (s_tbr s <= s_released s + N.of_nat (length (s_blocks s)))%N /\
  (c_mutable c = false -> s_cur s <= c_cur c /\ s_cur s + s_new s <= c_cur c + c_new c).
Proof. exact counters_invariant_thm. Qed.
Print Assumptions counters_invariant.

Theorem fuel_suffices : forall w es, wf_world w = true ->
  let c := w_cfg w in let s := reach w es in
  (forall size, fst (find_block_with_space c s size) <> Err (-1)%Z) /\
  (forall size, fst (ocn_put c s size) <> Err (-2)%Z /\ fst (ocn_put c s size) <> Err (-1)%Z) /\
  (forall o l fk, loc_valid s l = true -> fst (open_with_refresh w s o l fk) <> Err (-3)%Z) /\
  (forall o i e, fst (get_open w s o i) = Err e -> (0 < e)%Z) /\
  (forall o i, fst (fm_refresh_one w s o i) <> Err (-3)%Z) /\
  (forall o i e, fst (fm_refresh_one w s o i) = Err e -> (0 < e)%Z) /\
  (forall ds e, fst (find_missing w s ds) = Err e -> (0 < e)%Z) /\
  (forall o i e, fst (put_start w s o i) = Err e -> (0 < e)%Z) /\
  (forall e, out_ok e (snd (step w s e))).
Proof. exact fuel_suffices_thm. Qed.
Print Assumptions fuel_suffices.

(** the quarantine loop of findBlockWithSpace stops because
    totalBlocksReleased has reached totalBlocksToBeReleased, not because its
    fuel ran out (the other three loops: see [has_space] / [Err] above) *)
Theorem release_loop_completes : forall w es, wf_world w = true ->
  let c := w_cfg w in let s := reach w es in
  let s' := fbs_release c (S (length (s_blocks s))) s in
  s_released s' = s_tbr s'.
Proof. exact release_loop_completes_thm. Qed.
Print Assumptions release_loop_completes.

(** the same for every state satisfying the allocator and counter invariants
    for SOME multiset of references [R] (this covers the intermediate states
    inside a step: after a pin, between two refreshes of one FindMissing ...);
    [Ok idx] always designates a block with space. *)
Theorem fuel_suffices_at_invariant_states : forall w s R,
  wf_world w = true -> AInv (w_cfg w) s R -> CInv (w_cfg w) s ->
  let c := w_cfg w in
  (forall size e, fst (find_block_with_space c s size) = Err e -> e = cInvalidArgument \/ e = cUnavailable) /\
  (forall size idx, fst (find_block_with_space c s size) = Ok idx ->
     has_space c (snd (find_block_with_space c s size)) idx size = true) /\
  (forall size e, fst (ocn_put c s size) = Err e -> e = cInvalidArgument \/ e = cUnavailable) /\
  (forall o l fk e, loc_valid s l = true -> fst (open_with_refresh w s o l fk) = Err e -> (0 < e)%Z) /\
  (forall o i e, fst (get_open w s o i) = Err e -> (0 < e)%Z) /\
  (forall o i e, fst (fm_refresh_one w s o i) = Err e -> (0 < e)%Z) /\
  (forall ds e, fst (find_missing w s ds) = Err e -> (0 < e)%Z) /\
  (forall o i e, fst (put_start w s o i) = Err e -> (0 < e)%Z).
Proof. intros w s R Wf. exact (fuel_suffices_inv w s R (wf_world_wfc w Wf)). Qed.
Print Assumptions fuel_suffices_at_invariant_states.

(** 5. The C04 monitor (Run/R04.v: upload source closed exactly once when a
    Put returns; no open reader and no allocated block beyond the listed ones
    once every operation has returned) is silent on every run of the model.
    [mon04_model] is [mon04] fed with the model's own observations. *)
Theorem mon04_on_model_output : forall inp, mon04 inp (run_store inp) = mon04_model (dec_world inp) (dec_ops inp).
Proof. exact mon04_run_store. Qed.
Print Assumptions mon04_on_model_output.

Theorem store_model_satisfies_C04 : forall w es, wf_world w = true -> mon04_model w es = [].
Proof. exact store_model_satisfies_C04_thm. Qed.
Print Assumptions store_model_satisfies_C04.

(** ---- non-vacuity ---- *)
Local Open Scope N_scope.
Definition exw : world :=
  {| w_cfg := {| c_bs := 8; c_old := 1; c_cur := 1; c_new := 1; c_mutable := false; c_nblocks := 4;
                 c_hier := false; c_inst_keys := false; c_validate := true |};
     w_objs := [[1;2;3;4;5;6]; [7;8;9;10;11;12]]; w_anc := [[0%nat]] |}.
Definition exput (tid o : nat) : list op :=
  [OPutStart tid o 0; OPutChunk tid (nth o (w_objs exw) []); OPutEnd tid 0%Z].
(** upload object 0, open a reader on it and keep it open, rotate the store
    with four more uploads *)
Definition exes1 : list op := exput 1 0 ++ [OGetOpen 9 0 0] ++ exput 2 1 ++ exput 3 1 ++ exput 4 1 ++ exput 5 1.
Definition exes2 : list op := exes1 ++ [OGetConsume 9].

Example ex_wf : wf_world exw = true.
Proof. vm_compute. reflexivity. Qed.

(** while the reader is open its block (uid 0, region 0) has been popped
    from the list and lives on as a zombie with count 1; the device is full,
    region 0 is NOT in the free list, and the fifth upload was refused with
    UNAVAILABLE (14) instead of reusing it *)
Example ex_zombie_not_reused :
  let s := reach exw exes1 in
  map (fun b => (b_uid b, b_region b, b_use b)) (s_zombies s) = [(0, 0, 1)]%nat /\
  map (fun b => (b_uid b, b_region b, b_use b)) (s_blocks s) = [(1, 1, 1); (2, 2, 1); (3, 3, 1)]%nat /\
  s_free s = [] /\ length (s_threads s) = 1%nat /\
  nth 13 (snd (run exw (init_state (w_cfg exw)) exes1)) Bad = Done cUnavailable [].
Proof. vm_compute. repeat split; reflexivity. Qed.

(** once the reader is consumed (it still returns the right bytes) the zombie
    is gone and its region is allocatable again: free + listed = 4 *)
Example ex_released_at_quiescence :
  let s := reach exw exes2 in
  s_threads s = [] /\ s_zombies s = [] /\ s_free s = [0%nat] /\ length (s_blocks s) = 3%nat /\
  last (snd (run exw (init_state (w_cfg exw)) exes2)) Bad = Done cOK [1;2;3;4;5;6] /\
  mon04_model exw exes2 = [].
Proof. vm_compute. repeat split; reflexivity. Qed.
