(** C16 — I/O-error recovery resumes at the right offset: each byte delivered
    exactly once.  Statements only; proofs are in Buffer/ErrHandlerProofs.v.

    [stitched ifuel max cur k answers out e offered] (Buffer/ErrHandlerProofs.v)
    is the specification: from the current underlying reader [cur], with [k]
    bytes delivered so far, the stream is the piece [p] that [cur] delivers up to
    its end ([drains]); if it ends with io.EOF that is all; if it ends with an
    I/O error [t], [t] is offered to the handler: an error answer ends the
    stream with that error, a replacement buffer is opened (unvalidated) at
    offset [k + |p|] and the stream continues with ITS stitched stream. *)
From Coq Require Import List ZArith NArith Bool.
From BBS Require Import Common.Sx Buffer.Source Buffer.Validate Buffer.Convert Buffer.ErrHandler
  Buffer.StreamProofs Buffer.ValidateProofs Buffer.ErrHandlerProofs Buffer.ClosedOnceProofs
  Buffer.ErrHandlerStackProofs Buffer.StackRuleProofs Buffer.ValidateReaderProofs Buffer.ConvertProofs
  Buffer.EHFullCarry Buffer.EHFullReader Buffer.EHFullMethods Buffer.EHFullStack Buffer.EHFullPrefix Buffer.EHFullExact Buffer.EHFullStackExact Buffer.EHFullStacking Buffer.EHFullCompleted Buffer.EHFullPartial Buffer.EHFullTrace Buffer.EHFullRuns Buffer.EHFullRetry Buffer.EHFullMon Buffer.EHFullMon3 Buffer.EHFullMonS Buffer.EHFullMonR Buffer.C09FuelSuffices Buffer.EHFuelLaws Buffer.EHFuelSuffices Buffer.EHFuelMon Run.R09 Run.R16 Run.R16Proofs.
Import ListNotations.
Open Scope N_scope.

(** The stream of the error-handling chunk reader, read to its end, is the
    stitched stream b0[0,k1) ++ b1[k1,k2) ++ ...; the handler's log grows by
    exactly the I/O errors that ended the pieces, once each and in order; the
    delivered offset is the number of bytes handed out. *)
Theorem stitched_output_and_each_io_error_offered_once : forall ifuel max fuel r out e r',
  drains (ehc_read ifuel fuel max) r out e r' -> e <> EFuel ->
  exists offered,
    stitched ifuel max (ec_cur r) (ec_off r) (h_answers (ec_h r)) out e offered /\
    h_log (ec_h r') = h_log (ec_h r) ++ map HOnError offered /\
    ec_off r' = ec_off r + lenN out.
Proof. exact ehc_stitched. Qed.
Print Assumptions stitched_output_and_each_io_error_offered_once.

(** No duplicated and no skipped range, at full strength.

    [carries_full C b] (Buffer/EHFullCarry.v): the buffer [b] carries the object
    [C] — for EVERY buffer kind of the model:
    - chunk-reader backed CAS buffer, and reader backed CAS buffer whose reader
      reports EOF / errors on a call of their own: the chunks before the first
      event that is not a chunk are a prefix of [C], all of [C] if that event is
      io.EOF (the source may fail or end anywhere; what follows is never read);
    - reader backed CAS buffer whose reader hands out EOF / an error TOGETHER
      with data ([rcar]): every chunk of the script is the next piece of [C] and
      io.EOF comes only when all of [C] has been handed out — io.ReadFull and
      io.CopyN(io.Discard) drop an error that arrives with the last byte they
      asked for, and the next read continues with what follows it in the script
      (see [content_carrier_insufficient_for_attaching_readers] below);
    - validated byte slice: it is [C]; error buffer: always.
    If the original and all replacement buffers carry [C], a stitched stream
    started at offset [k] that reaches io.EOF is exactly C[k..] — wherever the
    failures occur, whatever the chunkings, for replacement buffers that fail
    again, cannot be opened at the delivered offset or are in an error state,
    for ANY fuel (running out of fuel is just another error). *)
Theorem no_dup_no_skip : forall ifuel max C cur k ans out e offered,
  stitched ifuel max cur k ans out e offered -> e = EEof ->
  forall b, cur = ucr_open ifuel b k -> carries_full C b ->
  Forall (ans_carries C) ans -> k <= lenN C -> out = dropN k C.
Proof. exact stitched_no_dup_no_skip_full. Qed.
Print Assumptions no_dup_no_skip.

(** ... and whatever the outcome (io.EOF or the handler's error), what has been
    handed out is a prefix of C[k..]: nothing duplicated, skipped or foreign. *)
Theorem delivered_is_prefix : forall ifuel max C cur k ans out e offered,
  stitched ifuel max cur k ans out e offered ->
  forall b, cur = ucr_open ifuel b k -> carries_full C b ->
  Forall (ans_carries C) ans -> k <= lenN C -> exists rest, dropN k C = out ++ rest.
Proof. exact stitched_prefix_full. Qed.
Print Assumptions delivered_is_prefix.

(** The earlier partial form ([carries]: no reader-backed buffers, no fuel
    exhaustion) is an instance. *)
Theorem carries_is_carries_full : forall C b, carries C b -> carries_full C b.
Proof. exact carries_carries_full. Qed.
Print Assumptions carries_is_carries_full.

(** On the scripts the harness generates for readers that attach EOF to data
    (chunks and optionally one final Eof event) [rcar] is no more than the
    notion used for the other stream-backed buffers. *)
Theorem carrier_notions_agree_on_clean_scripts : forall evs C,
  clean_script evs -> ccar C evs -> rcar C evs.
Proof. exact clean_ccar_rcar. Qed.
Print Assumptions carrier_notions_agree_on_clean_scripts.

(** * The [ToReader] path: errorHandlingReader.
    [rstitched fuel cur k answers out e offered] (Buffer/EHFullReader.v) is
    [stitched] for io.Readers: the consumer reads with arbitrary buffer sizes
    ([rdrains]), and the data that comes together with the error that ends a
    piece belongs to the piece (it is handed to the consumer, the replacement is
    opened after it).  The stream of the error-handling reader, read to its end
    with any buffer sizes, is the stitched stream; the handler's log grows by
    exactly the I/O errors that ended the pieces, once each and in order; the
    delivered offset is the number of bytes handed out. *)
Theorem reader_stitched_output_and_each_io_error_offered_once : forall fuel r out e r',
  rdrains (ehr_read fuel) r out e r' ->
  exists offered,
    rstitched fuel (er_cur r) (er_off r) (h_answers (er_h r)) out e offered /\
    h_log (er_h r') = h_log (er_h r) ++ map HOnError offered /\
    er_off r' = er_off r + lenN out.
Proof. exact ehr_stitched. Qed.
Print Assumptions reader_stitched_output_and_each_io_error_offered_once.

Theorem no_dup_no_skip_reader : forall fuel C cur k ans out e offered,
  rstitched fuel cur k ans out e offered -> e = EEof ->
  forall b, cur = urd_open fuel b k -> carries_full C b ->
  Forall (ans_carries C) ans -> k <= lenN C -> out = dropN k C.
Proof. exact rstitched_no_dup_no_skip. Qed.
Print Assumptions no_dup_no_skip_reader.

Theorem delivered_is_prefix_reader : forall fuel C cur k ans out e offered,
  rstitched fuel cur k ans out e offered ->
  forall b, cur = urd_open fuel b k -> carries_full C b ->
  Forall (ans_carries C) ans -> k <= lenN C -> exists rest, dropN k C = out ++ rest.
Proof. exact rstitched_prefix. Qed.
Print Assumptions delivered_is_prefix_reader.

Theorem handler_error_is_result_reader : forall fuel cur k ans out e offered,
  rstitched fuel cur k ans out e offered ->
  e = EEof \/
  exists c pre t, e = ECode c /\ offered = pre ++ [t] /\
                  fst (on_error (mkHst (skipn (length pre) ans) []) t) = Fail c.
Proof. exact rstitched_result. Qed.
Print Assumptions handler_error_is_result_reader.

(** The validating reader above the error-handling reader completes only if
    the stitched stream has the digest's size and hash.  (Proved for the
    validating reader over ANY io.Reader that never returns
    io.ErrUnexpectedEOF itself: the validated stream that reaches io.EOF is what
    the reader underneath delivered up to its own io.EOF.) *)
Theorem still_validated_reader : forall H cfg fuel b h out st',
  rdrains (ehrv_read H cfg fuel) (vinit cfg (ehr_init fuel b h)) out EEof st' ->
  lenN out = g_size cfg /\ g_hash cfg = H out /\
  exists offered, rstitched fuel (urd_open fuel b 0) 0 (h_answers h) out EEof offered.
Proof. exact ehr_validated_stitched. Qed.
Print Assumptions still_validated_reader.

(** * The stitched stream in closed form: the monitor's specification function.
    For well-formed buffers ([wf_buf]: a reader that attaches EOF to data has a
    script of chunks and at most one final Eof event — the scripts the harness
    generates) and as long as no underlying reader runs out of fuel, what one
    buffer delivers from offset k is exactly [piece_of b k] and the stitched
    stream is exactly [stitch b k answers] (Run/R16.v, the function the monitor
    evaluates on implementation observations) — on the chunk-reader path and on
    the io.Reader path, for every buffer kind. *)
Theorem stitched_stream_is_the_specification : forall ifuel max cur k ans out e offered,
  stitched ifuel max cur k ans out e offered ->
  forall b, cur = ucr_open ifuel b k -> wf_buf b -> Forall wf_ans ans ->
  ~ In EFuel offered -> stitch b k ans = (out, e, offered).
Proof. exact stitched_is_stitch. Qed.
Print Assumptions stitched_stream_is_the_specification.

Theorem stitched_reader_stream_is_the_specification : forall fuel cur k ans out e offered,
  rstitched fuel cur k ans out e offered ->
  forall b, cur = urd_open fuel b k -> wf_buf b -> Forall wf_ans ans ->
  ~ In EFuel offered -> stitch b k ans = (out, e, offered).
Proof. exact rstitched_is_stitch. Qed.
Print Assumptions stitched_reader_stream_is_the_specification.

(** ... so the streams of both error-handling readers, read to their end, are
    [stitch] of the buffer and the handler's script, and the handler's log is
    the list of errors [stitch] says are offered. *)
Theorem error_handling_chunk_reader_stream : forall ifuel fuel max b h out e r',
  drains (ehc_read ifuel fuel max) (ehc_init ifuel b h) out e r' ->
  wf_buf b -> Forall wf_ans (h_answers h) ->
  e <> EFuel -> ~ In (HOnError EFuel) (h_log (ec_h r')) ->
  exists offered, stitch b 0 (h_answers h) = (out, e, offered) /\
                  h_log (ec_h r') = h_log h ++ map HOnError offered.
Proof. exact ehc_stream_is_stitch. Qed.
Print Assumptions error_handling_chunk_reader_stream.

Theorem error_handling_reader_stream : forall fuel b h out e r',
  rdrains (ehr_read fuel) (ehr_init fuel b h) out e r' ->
  wf_buf b -> Forall wf_ans (h_answers h) ->
  ~ In (HOnError EFuel) (h_log (er_h r')) ->
  exists offered, stitch b 0 (h_answers h) = (out, e, offered) /\
                  h_log (er_h r') = h_log h ++ map HOnError offered.
Proof. exact ehr_stream_is_stitch. Qed.
Print Assumptions error_handling_reader_stream.

(** * Stacks in closed form: the FLATTENED model of nested error-handling
    readers ([sch_read] / [shr_read]: one plain reader below the active levels,
    [escalate] passes an error upwards, a replacing level finishes the levels
    below it) IS the LEVEL-WISE specification [stitch_stack] (Run/R16.v) the
    monitor evaluates: level l+1 takes the whole stream of level l as its base
    and consults its own script when that stream fails.  [w]: the world after
    the handlers have been applied ([w_act w]: the active levels, innermost
    first, any number >= 1); [oel h]: the OnError arguments handler [h] has
    received; the streams, the final error and EVERY level's OnError log are
    those of [stitch_stack] ([zipo]: each active level's log grows by its list
    of offers).  Well-formed buffers, no fuel exhaustion, any depth. *)
Theorem stack_chunk_stream_is_the_level_wise_specification : forall ifuel fuel max b w out e r',
  drains (sch_read ifuel fuel max) (sch_init ifuel b w) out e r' ->
  wf_buf b -> hs_wf (w_act w) -> w_act w <> [] ->
  e <> EFuel -> Forall (fun h => ~ In EFuel (oel h)) (lv (sc_w r')) ->
  exists offss,
    (let '(p, t) := piece_of b 0 in stitch_stack p t (map h_answers (w_act w))) = (out, e, offss) /\
    oews (sc_w r') = map oel (w_dn w) ++ zipo (map oel (w_act w)) offss /\
    length offss = length (w_act w).
Proof. exact stack_chunk_stream_is_stitch_stack. Qed.
Print Assumptions stack_chunk_stream_is_the_level_wise_specification.

Theorem stack_reader_stream_is_the_level_wise_specification : forall fuel b w out e r',
  rdrains (shr_read fuel) (shr_init fuel b w) out e r' ->
  wf_buf b -> hs_wf (w_act w) -> w_act w <> [] ->
  e <> EFuel -> Forall (fun h => ~ In EFuel (oel h)) (lv (sr_w r')) ->
  exists offss,
    (let '(p, t) := piece_of b 0 in stitch_stack p t (map h_answers (w_act w))) = (out, e, offss) /\
    oews (sr_w r') = map oel (w_dn w) ++ zipo (map oel (w_act w)) offss /\
    length offss = length (w_act w).
Proof. exact stack_reader_stream_is_stitch_stack. Qed.
Print Assumptions stack_reader_stream_is_the_level_wise_specification.

(** ... and the WHOLE run of a stack, from the original buffer [b0] and the
    scripts [anss] of all handlers (any number, innermost first): applying the
    handlers — WithErrorHandler on a buffer in a known state consults the
    handler at once, possibly several times, and may finish levels before any
    byte is read — is part of [stitch_stack] too ([stacked_spec],
    Buffer/EHFullStacking.v).  The stream of the nested readers, its final
    error and EVERY level's list of OnError arguments at the end ([oews]) are
    exactly [stitch_stack (piece_of b0 0) anss]. *)
Theorem whole_stack_chunk_stream_is_the_specification : forall ifuel fuel max b0 anss b w out e r',
  stack_handlers b0 (mkW [] [] []) (map (fun a => mkHst a []) anss) = (b, w) -> w_act w <> [] ->
  drains (sch_read ifuel fuel max) (sch_init ifuel b w) out e r' ->
  wf_case b0 anss -> e <> EFuel -> Forall (fun h => ~ In EFuel (oel h)) (lv (sc_w r')) ->
  (let '(p0, t0) := piece_of b0 0 in stitch_stack p0 t0 anss) = (out, e, oews (sc_w r')).
Proof. exact whole_stack_chunk_stream. Qed.
Print Assumptions whole_stack_chunk_stream_is_the_specification.

Theorem whole_stack_reader_stream_is_the_specification : forall fuel b0 anss b w out e r',
  stack_handlers b0 (mkW [] [] []) (map (fun a => mkHst a []) anss) = (b, w) -> w_act w <> [] ->
  rdrains (shr_read fuel) (shr_init fuel b w) out e r' ->
  wf_case b0 anss -> e <> EFuel -> Forall (fun h => ~ In EFuel (oel h)) (lv (sr_w r')) ->
  (let '(p0, t0) := piece_of b0 0 in stitch_stack p0 t0 anss) = (out, e, oews (sr_w r')).
Proof. exact whole_stack_reader_stream. Qed.
Print Assumptions whole_stack_reader_stream_is_the_specification.

(** Runs that stop early (a validating reader stops reading as soon as it
    knows the stream is too long): whatever has been pulled out of the nested
    readers is a PREFIX of the specification's stream, and every level's OnError
    arguments so far are its earlier ones followed by a prefix ([lpre]) of the
    offers the specification lists for it — at any offset, also for replacement
    buffers opened beyond their end.  (Buffer/EHFullPartial.v) *)
Theorem stack_chunk_stream_pulled_is_prefix_of_the_specification : forall ifuel fuel max b w out r',
  pulls (sch_read ifuel fuel max) (sch_init ifuel b w) out r' ->
  wf_buf b -> hs_wf (w_act w) -> w_act w <> [] ->
  Forall (fun h => ~ In EFuel (oel h)) (lv (sc_w r')) ->
  exists rest e offss qss,
    (let '(p, t) := piece_of b 0 in stitch_stack p t (map h_answers (w_act w))) = (out ++ rest, e, offss) /\
    oews (sc_w r') = map oel (w_dn w) ++ zipo (map oel (w_act w)) qss /\ Forall2 lpre qss offss.
Proof. exact stack_chunk_pulled_is_prefix. Qed.
Print Assumptions stack_chunk_stream_pulled_is_prefix_of_the_specification.

Theorem stack_reader_stream_pulled_is_prefix_of_the_specification : forall fuel b w out r',
  rpulls (shr_read fuel) (shr_init fuel b w) out r' ->
  wf_buf b -> hs_wf (w_act w) -> w_act w <> [] ->
  Forall (fun h => ~ In EFuel (oel h)) (lv (sr_w r')) ->
  exists rest e offss qss,
    (let '(p, t) := piece_of b 0 in stitch_stack p t (map h_answers (w_act w))) = (out ++ rest, e, offss) /\
    oews (sr_w r') = map oel (w_dn w) ++ zipo (map oel (w_act w)) qss /\ Forall2 lpre qss offss.
Proof. exact stack_reader_pulled_is_prefix. Qed.
Print Assumptions stack_reader_stream_pulled_is_prefix_of_the_specification.

(** At the level of the model's outcome: if a streaming method (IntoWriter,
    ToChunkReader at any offset / chunk size, ToReader with any read sizes) on a
    stack of at least one handler COMPLETES, then the stitched stream [st] of
    the specification ends with io.EOF, the consumer holds exactly the expected
    slice of [st], every handler's OnError arguments ([oell] of its log) are
    exactly the offers the specification lists, and [st] has the digest's size
    and hash (for a byte slice that was never streamed: provided the byte
    slices of the case hold valid content — they are trusted by the code).
    This is what monitor clauses 3 and 4 demand of a completed run.
    Hypotheses: well-formed buffers, no fuel exhaustion offered to a handler. *)
Theorem completed_streaming_run_is_the_specification : forall H cfg fuel b0 anss m,
  streaming m -> anss <> [] ->
  completed m (y_err (run_stack H cfg fuel b0 anss m)) = true ->
  wf_case b0 anss -> no_fuel_offered (y_logs (run_stack H cfg fuel b0 anss m)) ->
  exists st,
    (let '(p0, t0) := piece_of b0 0 in stitch_stack p0 t0 anss)
      = (st, EEof, map oell (y_logs (run_stack H cfg fuel b0 anss m))) /\
    y_data (run_stack H cfg fuel b0 anss m) = expected_slice m st /\
    (bytes_trusted H cfg b0 anss -> valid_bytes H cfg st).
Proof. exact run_stack_completed_streaming. Qed.
Print Assumptions completed_streaming_run_is_the_specification.

(** * Every consumption method.  If the buffer handed to WithErrorHandler and
    every replacement buffer the handler supplies carry the object [C], then a
    call / stream that completes ([completed]: nil for ToByteSlice, IntoWriter,
    CloneCopy; nil or io.EOF for ReadAt; io.EOF for ToChunkReader and ToReader)
    has handed the consumer exactly the expected slice of [C]
    ([expected_slice]: C, C[off..] for ToChunkReader, C[off..off+len) for
    ReadAt): each byte once and in order, or an error — for every buffer kind,
    handler script, failure position, chunking, start offset, chunk size, read
    sizes, digest, hash function and fuel. *)
Theorem no_dup_no_skip_every_method : forall H cfg fuel C b0 answers m,
  carries_full C b0 -> Forall (ans_carries C) answers -> m <> MDiscard ->
  completed m (x_err (run_case H cfg fuel b0 answers m)) = true ->
  x_data (run_case H cfg fuel b0 answers m) = expected_slice m C.
Proof. exact run_case_no_dup_no_skip. Qed.
Print Assumptions no_dup_no_skip_every_method.

(** ... and for STACKS of error handlers of any depth ([run_stack]): the
    original buffer and every replacement supplied by ANY level carry [C]
    ([anss]: the handler scripts, innermost first).  (Buffer/EHFullStack.v: the
    nested error-handling readers themselves satisfy the carrier law — the
    reader in use carries C[off..] where [off] is the delivered offset all
    active levels share, a replacement supplied by any level is opened at [off].) *)
Theorem no_dup_no_skip_every_method_stack : forall H cfg fuel C b0 anss m,
  carries_full C b0 -> Forall (Forall (ans_carries C)) anss -> m <> MDiscard ->
  completed m (y_err (run_stack H cfg fuel b0 anss m)) = true ->
  y_data (run_stack H cfg fuel b0 anss m) = expected_slice m C.
Proof. exact run_stack_no_dup_no_skip. Qed.
Print Assumptions no_dup_no_skip_every_method_stack.

(** "... or an error": for the streaming methods (IntoWriter, ToChunkReader at
    any offset and chunk size, ToReader with any read sizes) on a stack of at
    least one handler, WHATEVER the outcome — completion, validation failure,
    an error answer of the handlers, out of fuel — the bytes the consumer has
    received are a prefix of the expected slice of [C]: nothing duplicated,
    skipped or foreign is ever handed out.  (Buffer/EHFullPrefix.v: the
    validating readers satisfy the carrier law too — they hand out what the
    reader underneath handed out, possibly withholding the end, and say io.EOF
    only when the reader underneath did.) *)
Theorem delivered_is_prefix_every_streaming_method : forall H cfg fuel C b0 anss m,
  carries_full C b0 -> Forall (Forall (ans_carries C)) anss -> anss <> [] -> streaming m ->
  exists rest, expected_slice m C = y_data (run_stack H cfg fuel b0 anss m) ++ rest.
Proof. exact run_stack_delivered_prefix. Qed.
Print Assumptions delivered_is_prefix_every_streaming_method.

(** The content is still validated across the stitched parts: the validated
    stream above the error-handling reader completes only if the stitched
    stream has the digest's size and hash (C09's theorem applied to it). *)
Theorem still_validated : forall H cfg fuel max b h out st',
  drains (ehv_read H cfg fuel max) (vinit cfg (ehc_init fuel b h)) out EEof st' ->
  lenN out = g_size cfg /\ g_hash cfg = H out /\
  exists offered, stitched fuel max (ucr_open fuel b 0) 0 (h_answers h) out EEof offered.
Proof. exact eh_validated_stitched. Qed.
Print Assumptions still_validated.

(** An error returned by the handler is what the consumer gets: a stitched
    stream ends with io.EOF or with the handler's answer to the last error
    offered (code 10 stands for a handler without further answers). *)
Theorem handler_error_is_result : forall ifuel max cur k ans out e offered,
  stitched ifuel max cur k ans out e offered ->
  e = EEof \/
  exists c pre t, e = ECode c /\ offered = pre ++ [t] /\
                  fst (on_error (mkHst (skipn (length pre) ans) []) t) = Fail c.
Proof. exact stitched_result. Qed.
Print Assumptions handler_error_is_result.

(** Whole-operation retries (ToByteSlice, ReadAt, CloneCopy via tryRepeatedly):
    the result is that of the first buffer on which the whole (validated, C09)
    operation succeeds, so no partial data of a failed attempt is ever returned;
    the error of every failed attempt is offered to the handler exactly once,
    in order; an error answer of the handler is the result; Done follows last. *)
Theorem retried_operation : forall H cfg fuel n m b h cbs d e cbs' h',
  try_repeatedly H cfg fuel n m b h cbs = (d, e, cbs', h') ->
  (length (h_answers h) < n)%nat ->
  exists offered, retried H cfg fuel m b (h_answers h) d e offered /\
                  h_log h' = h_log h ++ map HOnError offered ++ [HDone].
Proof. exact try_repeatedly_spec. Qed.
Print Assumptions retried_operation.

(** Done is reported exactly once on every path: every buffer kind handed to
    WithErrorHandler, every handler script, every method (including Discard,
    invalid offsets and handler failures), every digest. *)
Theorem done_exactly_once : forall H cfg fuel b0 answers m,
  count_done (x_log (run_case H cfg fuel b0 answers m)) = 1%nat.
Proof. exact run_case_done_once. Qed.
Print Assumptions done_exactly_once.

(** * Stacks of error handlers: [WithErrorHandler(... WithErrorHandler(b0, h0) ..., hk)]

    [run_stack H cfg fuel b0 anss m]: [anss] are the scripts of the handlers,
    innermost first (any depth); [y_logs] the calls each handler received;
    [y_closes] the Close() count of the scripted source of every stream-backed
    plain buffer that was created (the original and every replacement supplied
    by any level), taken from the source itself when its reader is given up. *)

(** Done is reported exactly once to the handler of EVERY level of a stack, on
    every path: all buffers, all handler scripts at every level (replacements,
    errors, too few answers), all methods, offsets, chunk sizes, digests, any
    fuel; including handler failure at all levels, Discard and invalid offsets. *)
Theorem done_exactly_once_at_every_level : forall H cfg fuel b0 anss m,
  (length (y_logs (run_stack H cfg fuel b0 anss m)) = length anss)%nat /\
  Forall (fun log => count_done log = 1%nat) (y_logs (run_stack H cfg fuel b0 anss m)).
Proof. exact run_stack_done_every_level. Qed.
Print Assumptions done_exactly_once_at_every_level.

(** Every underlying buffer that was opened is closed exactly once, on every
    path (success, replacement by any level, failure of all handlers, Discard,
    invalid offsets, failed construction of an offset reader). *)
Theorem every_source_closed_exactly_once : forall H cfg fuel b0 anss m,
  Forall (fun n => n = 1%nat) (y_closes (run_stack H cfg fuel b0 anss m)).
Proof. exact run_stack_closed_once. Qed.
Print Assumptions every_source_closed_exactly_once.

(** ... and so does every whole operation on a plain stream-backed buffer
    (C09's buffers: every method of a CAS chunk-reader / reader buffer closes the
    scripted source exactly once), which is what tryRepeatedly relies on. *)
Theorem plain_buffer_closes_source_once : forall H cfg fuel b m,
  Forall (fun n => n = 1%nat) (closes_of b (plain H cfg fuel b m)).
Proof. exact plain_closed_once. Qed.
Print Assumptions plain_buffer_closes_source_once.

(** The offering rule for stacks, over a whole run.  [ruled anss logs]
    (Buffer/StackRuleProofs.v): every level l has a trace [g_tr] of (error
    offered, answer given) pairs such that
    - [hrun]: the handler state whose log is [logs_l] is what the scripted
      handler with script [anss_l] becomes by being offered exactly the errors
      of the trace, one OnError call each, giving the answers of the trace (so
      the trace's errors are the OnError calls of the log, [trace_is_log]);
    - [gvalid]: all its answers are replacements, or the LAST one is an error
      and all earlier ones replacements: a handler that has answered with an
      error is not asked again ([not_asked_again_after_error]);
    - [chain]: for neighbouring levels ([adj inner outer]) either the inner
      handler has not answered with an error and the outer handler has not been
      asked at all, or the inner handler's last answer is the error c and the
      FIRST error the outer handler was offered is c.  An I/O error of an
      underlying buffer therefore reaches the innermost active handler first,
      and an outer handler only ever sees what the handler below it returned
      (then, after it has supplied a replacement, that replacement's errors).
    For all buffers, all handler scripts at every level, all methods, offsets,
    chunk sizes, digests, any fuel, any depth. *)
Theorem stack_offering_rule : forall H cfg fuel b0 anss m,
  ruled anss (y_logs (run_stack H cfg fuel b0 anss m)).
Proof. exact run_stack_ruled. Qed.
Print Assumptions stack_offering_rule.

Theorem trace_is_log : forall ans h tr, hrun ans h tr -> onerrors (h_log h) = map fst tr.
Proof. exact hrun_log. Qed.
Print Assumptions trace_is_log.

Theorem not_asked_again_after_error : forall g, gvalid g -> Forall isrep (removelast (g_tr g)).
Proof. exact gvalid_not_asked_again. Qed.
Print Assumptions not_asked_again_after_error.

(** The rule for one offering ([escalate], the one place where the nested
    readers and the nested tryRepeatedly calls pass an error upwards): [e] is
    offered to the innermost active handler first; the error answer of a
    handler is exactly what the next outer handler is offered; handlers above a
    replacing handler are not asked; the error answer of the outermost handler
    is the result; and each handler asked receives exactly ONE further OnError
    call, with the error of the chain (all other logs unchanged). *)
Theorem offering_rule_single_offering : forall act e,
  let '(r, passed, act') := escalate e act in offering e act r passed act'.
Proof. exact escalate_offering. Qed.
Print Assumptions offering_rule_single_offering.

Theorem each_error_offered_once_per_level : forall act e r passed act',
  escalate e act = (r, passed, act') ->
  map h_log (passed ++ act') = grow act (offer_chain e act) \/
  (fst r = None /\ act' = [] /\ map h_log passed = grow act (offer_chain e act)).
Proof. exact escalate_logs. Qed.
Print Assumptions each_error_offered_once_per_level.

(** The monitor's new clauses 8 (Done = 1 at every level) and 9 (every
    underlying reader closed once) hold of the model's own observation for every
    input: on the unchanged tree they can only fire where the implementation's
    observation differs from the model's. *)
Theorem new_monitor_clauses_silent_on_model : forall inp,
  clause8 (q_anss (dec_case16 inp)) (obs_dones (run16 inp)) = true /\
  clause9 (obs_closes (run16 inp)) = true.
Proof. exact clauses_8_9_silent_on_model. Qed.
Print Assumptions new_monitor_clauses_silent_on_model.

(** ... and so does clause 10, the stack offering rule in the monitor's own
    (boolean, script-indexed) form: [stack_offering_rule] carried over to the
    encoded observation. *)
Theorem stack_rule_clause_silent_on_model : forall inp,
  clause10 (q_anss (dec_case16 inp)) (obs_offered (run16 inp)) = true.
Proof. exact clause_10_silent_on_model. Qed.
Print Assumptions stack_rule_clause_silent_on_model.

(** Clause 1 (Done reported exactly once to the outermost handler) is silent
    on the model as well, for every input with at least one handler (the
    harness's domain); without a handler there is no Done count to look at and
    the clause fires ([clause1_needs_a_handler], Buffer/EHFullMon.v).  Clauses
    2-7 (the stitching / validity clauses, which compare the observation with
    the specification functions [stitch_stack] / [buffer_in_use]) need the
    harness's domain ([monitor_silent_on_model] below): see
    [content_carrier_insufficient_for_attaching_readers] for an input outside
    it on which 3, 4, 5 and 7 fire on the model itself. *)
Theorem clause_1_silent_on_model : forall inp,
  q_anss (dec_case16 inp) <> [] -> last (obs_dones (run16 inp)) 0%Z = 1%Z.
Proof. exact EHFullMon.clause_1_silent_on_model. Qed.
Print Assumptions clause_1_silent_on_model.

(** [stack_fuel] SUFFICES (Buffer/EHFuelLaws.v, EHFuelSuffices.v): for every
    buffer, every stack of handler scripts, every digest and hash function and
    every method whose loop parameters are positive ([good_param]: the chunk
    size of ToChunkReader and every read size of ToReader is at least 1, as the
    harness generates them) the model of the stack run with at least
    [stack_fuel b0 anss] never ends in the out-of-fuel marker and never offers
    it to a handler.  (The cost of a buffer is 4 + the measure of its script,
    the cost of an answer that of its replacement, [stack_fuel] four times the
    cost of the case; the measure of a nested error-handling reader is the
    measure of the plain reader in use plus the cost of the answers the active
    levels have left: a read that hands out data decreases the first, a
    replacement moves more than the measure of the freshly opened reader out of
    the second.)  This discharges the fuel hypotheses of the theorems above for
    the fuel [run16] uses: *)
Theorem stack_fuel_suffices : forall H cfg fuel b0 anss m,
  (stack_fuel b0 anss <= fuel)%nat -> good_param m = true ->
  y_err (run_stack H cfg fuel b0 anss m) <> EFuel /\
  no_fuel_offered (y_logs (run_stack H cfg fuel b0 anss m)).
Proof. exact run_stack_no_fuel. Qed.
Print Assumptions stack_fuel_suffices.

(** [completed_streaming_run_is_the_specification] without its fuel hypothesis *)
Theorem completed_streaming_run_is_the_specification_with_stack_fuel : forall H cfg fuel b0 anss m,
  streaming m -> anss <> [] ->
  completed m (y_err (run_stack H cfg fuel b0 anss m)) = true ->
  wf_case b0 anss -> (stack_fuel b0 anss <= fuel)%nat -> good_param m = true ->
  exists st,
    (let '(p0, t0) := piece_of b0 0 in stitch_stack p0 t0 anss)
      = (st, EEof, map oell (y_logs (run_stack H cfg fuel b0 anss m))) /\
    y_data (run_stack H cfg fuel b0 anss m) = expected_slice m st /\
    (bytes_trusted H cfg b0 anss -> valid_bytes H cfg st).
Proof. exact run_stack_completed_streaming_fuel. Qed.
Print Assumptions completed_streaming_run_is_the_specification_with_stack_fuel.

(** Clause 3 (a streaming method completed => the stitched stream of the
    specification is valid and the consumer holds exactly its expected slice)
    is silent on the model for every input with at least one handler,
    well-formed buffers (readers that attach EOF to data have scripts of chunks
    and at most one final Eof), positive loop parameters and a positive final
    error code (Buffer/EHFullMon3.v, EHFuelMon.v). *)
Theorem clause_3_silent_on_model : forall inp,
  q_anss (dec_case16 inp) <> [] -> wf_case (q_b0 (dec_case16 inp)) (q_anss (dec_case16 inp)) ->
  good_param (q_meth (dec_case16 inp)) = true ->
  (forall x, y_err (out16 inp) = ECode x -> (0 < x)%Z) ->
  ~ In 3%Z (mon16 inp (run16 inp)).
Proof. exact clause_3_silent_on_model_fuel. Qed.
Print Assumptions clause_3_silent_on_model.

(** Every streaming run of a stack, however it ends, against the level-wise
    specification [(st, term, offss) = stitch_stack (piece_of b0 0) anss]
    (Buffer/EHFullTrace.v, EHFullRuns.v): every level's OnError arguments are a
    prefix of its offers in the specification; and either the method rejected
    its offset, or the validated stream [out] is a prefix of [st], the consumer
    holds [out] from the method's offset, fewer than [size] bytes unless the
    stream reached io.EOF, and the run ended with the specification's own final
    error (all offers made), with a validation failure at the specification's
    io.EOF, or with a validation failure because [st] is longer than the digest's
    size. *)
Theorem every_streaming_run_against_the_specification : forall H cfg fuel b0 anss m,
  streaming m -> anss <> [] -> bad_param (g_size cfg) m = false ->
  wf_case b0 anss ->
  y_err (run_stack H cfg fuel b0 anss m) <> EFuel ->
  no_fuel_offered (y_logs (run_stack H cfg fuel b0 anss m)) ->
  let o := run_stack H cfg fuel b0 anss m in
  let '(st, term, offss) := (let '(p0, t0) := piece_of b0 0 in stitch_stack p0 t0 anss) in
  Forall2 lpre (map oell (y_logs o)) offss /\
  ((y_err o = ECode 3 /\ y_data o = [] /\ term = EEof /\ map oell (y_logs o) = offss) \/
   (exists out e rest,
      e <> ENone /\ st = out ++ rest /\ y_data o = dropN (Z.to_N (m_off m)) out /\
      y_err o = method_err m e /\ (e <> EEof -> out = [] \/ lenN out < g_size cfg) /\
      ended_run cfg e st term (map oell (y_logs o)) offss)).
Proof. exact run_stack_streaming_facts. Qed.
Print Assumptions every_streaming_run_against_the_specification.

(** ... and without the fuel hypotheses, for any fuel of at least [stack_fuel]: *)
Theorem every_streaming_run_against_the_specification_with_stack_fuel : forall H cfg fuel b0 anss m,
  streaming m -> anss <> [] -> bad_param (g_size cfg) m = false ->
  wf_case b0 anss -> (stack_fuel b0 anss <= fuel)%nat -> good_param m = true ->
  let o := run_stack H cfg fuel b0 anss m in
  let '(st, term, offss) := (let '(p0, t0) := piece_of b0 0 in stitch_stack p0 t0 anss) in
  Forall2 lpre (map oell (y_logs o)) offss /\
  ((y_err o = ECode 3 /\ y_data o = [] /\ term = EEof /\ map oell (y_logs o) = offss) \/
   (exists out e rest,
      e <> ENone /\ st = out ++ rest /\ y_data o = dropN (Z.to_N (m_off m)) out /\
      y_err o = method_err m e /\ (e <> EEof -> out = [] \/ lenN out < g_size cfg) /\
      ended_run cfg e st term (map oell (y_logs o)) offss)).
Proof. exact run_stack_streaming_facts_fuel. Qed.
Print Assumptions every_streaming_run_against_the_specification_with_stack_fuel.

(** Whole-operation retries on a stack (ToByteSlice, ReadAt, CloneCopy through
    nested tryRepeatedly), Buffer/EHFullRetry.v, EHFullMonR.v: if the call
    completes, the buffer it completed on is the one [buffer_in_use] computes from
    the scripts and the number of offers each level received ([biu]), its
    content ends with io.EOF and is valid (byte slices: if trusted), and the
    consumer holds its expected slice; and the error the outermost handler
    returned last is the consumer's result. *)
Theorem whole_operation_retries_on_a_stack : forall H cfg fuel b0 anss m,
  retrying m -> anss <> [] -> y_err (run_stack H cfg fuel b0 anss m) <> EFuel ->
  retry_facts H cfg b0 anss m (run_stack H cfg fuel b0 anss m).
Proof. exact run_stack_retry_facts. Qed.
Print Assumptions whole_operation_retries_on_a_stack.

Theorem whole_operation_retries_on_a_stack_with_stack_fuel : forall H cfg fuel b0 anss m,
  retrying m -> anss <> [] -> (stack_fuel b0 anss <= fuel)%nat ->
  retry_facts H cfg b0 anss m (run_stack H cfg fuel b0 anss m).
Proof. exact run_stack_retry_facts_fuel. Qed.
Print Assumptions whole_operation_retries_on_a_stack_with_stack_fuel.

(** THE MONITOR IS SILENT ON THE MODEL, every method, every clause:
    [mon16 inp (run16 inp) = []] for every input of [dom16F]
    (Buffer/EHFuelMon.v; the streaming methods: Buffer/EHFullMonS.v, the
    others: EHFullMonR.v): at least one handler; well-formed buffers (readers
    that attach EOF to data have scripts of chunks and at most one final Eof
    event); parameters the method accepts ([bad_param] = false); positive loop
    parameters ([good_param]); a positive final error code.  No hypothesis on
    fuel: [run16] runs the model on [stack_fuel], which suffices
    ([stack_fuel_suffices]).  So on the unchanged tree a monitor alarm can only
    come from an implementation observation that differs from the model's.
    The unconditional statement is false: [clause1_needs_a_handler],
    [stitching_clauses_fire_outside_the_domain]. *)
Theorem monitor_silent_on_model : forall inp, dom16F inp -> mon16 inp (run16 inp) = [].
Proof. exact mon16_silent_on_model_fuel. Qed.
Print Assumptions monitor_silent_on_model.

(** Non-vacuity: the original fails after one byte, the replacement is opened
    at offset 1; the consumer gets 1,2,3 once each, validation succeeds, the
    error 14 is offered once and Done is reported once. *)
Example c16_stitches :
  let H := lookup [([1; 2; 3], [9; 9])] in
  let cfg := mkVcfg [9; 9] 3 13 in
  run_case H cfg 60 (BChunk [Chunk [1]; Err 14; Chunk [7]])
           [Replace (BChunk [Chunk [1; 2]; Chunk [3]])] MIntoWriter
  = mkOut16 [1; 2; 3] ENone [] [true] [HOnError (ECode 14); HDone] [].
Proof. vm_compute. reflexivity. Qed.

(** Non-vacuity for stacks: two handlers, an I/O error after one byte that
    neither repairs (the inner one answers 7, the outer one 9): 14 is offered to
    the inner handler, 7 to the outer one, the consumer gets 9; both handlers
    are told Done once and the source is closed once (the scenario of the seeded
    change C16-a). *)
Example c16_stack_unrecoverable :
  let H := lookup [([1; 2; 3], [9; 9])] in
  let cfg := mkVcfg [9; 9] 3 13 in
  run_stack H cfg 60 (BChunk [Chunk [1]; Err 14; Chunk [7]]) [[Fail 7]; [Fail 9]] MIntoWriter
  = mkOut16s [1] (ECode 9) [] [] [[HOnError (ECode 14); HDone]; [HOnError (ECode 7); HDone]] [1%nat] [].
Proof. vm_compute. reflexivity. Qed.

(** ... and one where the outer handler repairs what the inner one gave up:
    the replacement is opened at offset 1, the inner handler is finished at that
    moment, both sources are closed once. *)
Example c16_stack_outer_repairs :
  let H := lookup [([1; 2; 3], [9; 9])] in
  let cfg := mkVcfg [9; 9] 3 13 in
  run_stack H cfg 60 (BChunk [Chunk [1]; Err 14; Chunk [7]])
            [[Fail 7]; [Replace (BChunk [Chunk [1; 2]; Chunk [3]])]] MIntoWriter
  = mkOut16s [1; 2; 3] ENone [] [true]
             [[HOnError (ECode 14); HDone]; [HOnError (ECode 7); HDone]] [1%nat; 1%nat] [].
Proof. vm_compute. reflexivity. Qed.

(** Non-vacuity of [no_dup_no_skip_every_method]: the object 1,2,3; the
    original chunk-reader buffer fails after one byte; the first replacement is
    a reader-backed buffer (EOF/errors attached to data) that is opened at offset
    1 and fails again after one more byte (its first error 5 arrives together
    with the byte 2 that completes an io.ReadFull and is dropped, the repeated
    error is offered); the second replacement, a reader-backed
    buffer with errors on their own calls, is opened at offset 2.  All carry the
    object; the consumer reads with chunk size 1 from offset 1 and gets 2,3. *)
Example c16_every_kind_carries :
  let H := lookup [([1; 2; 3], [9; 9])] in
  let cfg := mkVcfg [9; 9] 3 13 in
  let C := [1; 2; 3] in
  let b0 := BChunk [Chunk [1]; Err 14; Chunk [7]] in
  let b1 := BReader [Chunk [1; 2]; Err 5; Err 5; Chunk [3]] true in
  let b2 := BReader [Chunk [1]; Chunk [2; 3]; Eof; Chunk [9]] false in
  carries_full C b0 /\ carries_full C b1 /\ carries_full C b2 /\
  run_case H cfg 80 b0 [Replace b1; Replace b2] (MToChunkReader 1 1 0)
  = mkOut16 [2; 3] EEof [] [true] [HOnError (ECode 14); HOnError (ECode 5); HDone] [].
Proof.
  vm_compute. split; [exists [2; 3]; split; [reflexivity|discriminate]|].
  split; [exists [3]; split; [reflexivity|]; exists []; auto|].
  split; [exists []; auto|reflexivity].
Qed.

(** Why readers that attach errors to data need the stronger notion [rcar]:
    with "the chunks before the first non-chunk event are a prefix of C" alone
    the statement is FALSE on the model.  The reader hands out 1,2 together with
    error 14; io.ReadFull(2 bytes) inside the reader-backed chunk reader drops
    that error, the handler is never asked, and the next read continues with the
    7 that follows in the script: the stream completes with 1,2,7 (valid for a
    digest of 1,2,7) although the buffer's [content] is the prefix 1,2 of 1,2,3.
    (The harness excludes such scripts: a real reader repeats its error.) *)
Example content_carrier_insufficient_for_attaching_readers :
  let H := lookup [([1; 2; 7], [9; 9])] in
  let cfg := mkVcfg [9; 9] 3 13 in
  let evs := [Chunk [1; 2]; Err 14; Chunk [7]; Eof] in
  ccar [1; 2; 3] evs /\ ~ rcar [1; 2; 3] evs /\
  run_case H cfg 60 (BReader evs true) [] (MToChunkReader 0 2 0)
  = mkOut16 [1; 2; 7] EEof [] [true] [HDone] [].
Proof.
  split; [exists [3]; split; [reflexivity|discriminate]|].
  split; [|vm_compute; reflexivity].
  cbn. intros (C' & E & C'' & E2 & _). injection E as <-. cbn in E2. discriminate E2.
Qed.

(** Non-vacuity for stacks: the inner handler gives up (error 7), the outer one
    supplies a reader-backed replacement, opened at offset 1; all buffers carry
    1,2,3; ToReader with read sizes 2,1,... delivers 1,2,3 once each. *)
Example c16_stack_carries :
  let H := lookup [([1; 2; 3], [9; 9])] in
  let cfg := mkVcfg [9; 9] 3 13 in
  let b1 := BReader [Chunk [1; 2; 3]] true in
  carries_full [1; 2; 3] b1 /\
  run_stack H cfg 60 (BChunk [Chunk [1]; Err 14; Chunk [7]]) [[Fail 7]; [Replace b1]] (MToReader [2; 1] 0)
  = mkOut16s [1; 2; 3] EEof [] [true]
             [[HOnError (ECode 14); HDone]; [HOnError (ECode 7); HDone]] [1%nat; 1%nat] [].
Proof. vm_compute. split; [exists []; auto|reflexivity]. Qed.

(** The same input in the monitor's encoding (digest of 1,2,7; the table holds
    the hashes): the model completes with 1,2,7 without any OnError call and the
    monitor's stitching clauses 3, 4, 5, 7 fire on the model's own observation.
    The harness rejects this input (readers that attach a non-repeated error to
    data are excluded, lib/props.d/C16.py). *)
Example stitching_clauses_fire_outside_the_domain :
  let inp := L [A 1; L [A 3; L [A 9; A 9]; A 3];
                L [A 1; A 1; L [L [A 0; L [A 1; A 2]]; L [A 1; A 14]; L [A 0; L [A 7]]; L [A 2]]];
                L [L []]; L [A 3; A 0; A 2; A 0]; L [L [L [A 1; A 2; A 7]; L [A 9; A 9]]]] in
  run16 inp = L [L [A 1; A 2; A 7]; A (-1); L []; L [A 1]; L [L []]; L [A 1]; L []; L [A 1]] /\
  mon16 inp (run16 inp) = [3; 4; 7; 5]%Z.
Proof. vm_compute. auto. Qed.

(** Non-vacuity of the prefix theorem on a failing run: both buffers carry
    1,2,3,4 but the digest says 3 bytes: the validator stops the stream (code 13)
    after 1,2 — a prefix of the object — and withholds the rest. *)
Example c16_prefix_on_failure :
  let H := lookup [([1; 2; 3], [9; 9])] in
  let cfg := mkVcfg [9; 9] 3 13 in
  run_stack H cfg 60 (BChunk [Chunk [1]; Err 14]) [[Replace (BReader [Chunk [1; 2]; Chunk [3; 4]; Eof] false)]]
            (MToChunkReader 0 1 0)
  = mkOut16s [1; 2] (ECode 13) [] [false] [[HOnError (ECode 14); HDone]] [1%nat; 1%nat] [].
Proof. vm_compute. reflexivity. Qed.

(** Non-vacuity of the closed form for stacks: three levels over a chunk-reader
    buffer; the innermost gives up (7), the middle one replaces, its replacement
    fails too, the middle one then gives up (8), the outermost replaces with a
    byte slice: [stitch_stack] yields the stream 1,2,3 and, per level, the
    errors it is offered. *)
Example c16_stitch_stack_instance :
  let b0 := BChunk [Chunk [1]; Err 14] in
  let anss := [[Fail 7]; [Replace (BReader [Chunk [1; 2]; Err 15] false); Fail 8]; [Replace (BBytes [1; 2; 3])]] in
  (let '(p, t) := piece_of b0 0 in stitch_stack p t anss)
  = ([1; 2; 3], EEof, [[ECode 14]; [ECode 7; ECode 15]; [ECode 8]]) /\
  let H := lookup [([1; 2; 3], [9; 9])] in
  let cfg := mkVcfg [9; 9] 3 13 in
  run_stack H cfg 80 b0 anss MIntoWriter
  = mkOut16s [1; 2; 3] ENone [] [true]
      [[HOnError (ECode 14); HDone]; [HOnError (ECode 7); HOnError (ECode 15); HDone]; [HOnError (ECode 8); HDone]]
      [1%nat; 1%nat] [].
Proof. vm_compute. auto. Qed.

(** Non-vacuity of [monitor_silent_on_model]: an input that meets
    [dom16F] (two stacked handlers; the inner one gives up, the outer one
    replaces; ToChunkReader at offset 1 in chunks of 1). *)
Example dom16F_instance :
  let inp := L [A 1; L [A 3; L [A 9; A 9]; A 3];
                L [A 0; L [L [A 0; L [A 1]]; L [A 1; A 14]; L [A 0; L [A 7]]]];
                L [L [L [A 1; A 7]]; L [L [A 0; L [A 1; A 0; L [L [A 0; L [A 1; A 2]]; L [A 0; L [A 3]]; L [A 2]]]]]];
                L [A 3; A 1; A 1; A 0]; L [L [L [A 1; A 2; A 3]; L [A 9; A 9]]]] in
  dom16F inp /\
  run16 inp = L [L [A 2; A 3]; A (-1); L []; L [A 1]; L [L [A 14]; L [A 7]]; L [A 1; A 1]; L []; L [A 1; A 1]].
Proof.
  cbv zeta. split; [|vm_compute; reflexivity].
  unfold dom16F. rsplit.
  - vm_compute. discriminate.
  - vm_compute. split; [exact I|]. repeat constructor.
  - vm_compute. reflexivity.
  - vm_compute. reflexivity.
  - vm_compute. discriminate.
Qed.
