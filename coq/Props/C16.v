(** C16 — I/O-error recovery resumes at the right offset: each byte delivered
    exactly once.  Statements only; proofs are in Buffer/ErrHandlerProofs.v.

    [stitched ifuel max cur k answers out e offered] (Buffer/ErrHandlerProofs.v)
    is the specification: from the current underlying reader [cur], with [k]
    bytes delivered so far, the stream is the piece [p] that [cur] delivers up to
    its end ([drains]); if it ends with io.EOF that is all; if it ends with an
    I/O error [t], [t] is offered to the handler: an error answer ends the
    stream with that error, a replacement buffer is opened (unvalidated) at
    offset [k + |p|] and the stream continues with ITS stitched stream. *)
From Coq Require Import List ZArith NArith Bool.
From BBS Require Import Common.Sx Buffer.Source Buffer.Validate Buffer.Convert Buffer.ErrHandler
  Buffer.StreamProofs Buffer.ValidateProofs Buffer.ErrHandlerProofs Run.R09 Run.R16.
Import ListNotations.
Open Scope N_scope.

(** The stream of the error-handling chunk reader, read to its end, is the
    stitched stream b0[0,k1) ++ b1[k1,k2) ++ ...; the handler's log grows by
    exactly the I/O errors that ended the pieces, once each and in order; the
    delivered offset is the number of bytes handed out. *)
Theorem stitched_output_and_each_io_error_offered_once : forall ifuel max fuel r out e r',
  drains (ehc_read ifuel fuel max) r out e r' -> e <> EFuel ->
  exists offered,
    stitched ifuel max (ec_cur r) (ec_off r) (h_answers (ec_h r)) out e offered /\
    h_log (ec_h r') = h_log (ec_h r) ++ map HOnError offered /\
    ec_off r' = ec_off r + lenN out.
Proof. exact ehc_stitched. Qed.
Print Assumptions stitched_output_and_each_io_error_offered_once.

(** No duplicated and no skipped range: if the original and all replacement
    buffers carry the same object [C] (sources may fail or end anywhere), a
    stitched stream started at offset [k] that reaches io.EOF is exactly C[k..].
    Full statement: for every buffer kind.  Proved for chunk-reader backed CAS
    buffers, validated byte slices and error buffers ([carries]); reader-backed
    CAS buffers (io.CopyN/io.ReadFull underneath) are covered by the
    correspondence check only. *)
Theorem no_dup_no_skip_partial : forall ifuel max C cur k ans out e offered,
  stitched ifuel max cur k ans out e offered -> e = EEof ->
  forall b, cur = ucr_open ifuel b k -> carries C b ->
  Forall (fun a => match a with Replace b' => carries C b' | Fail _ => True end) ans ->
  ~ In EFuel offered -> k <= lenN C -> out = dropN k C.
Proof. exact stitched_no_dup_no_skip. Qed.
Print Assumptions no_dup_no_skip_partial.

(** The content is still validated across the stitched parts: the validated
    stream above the error-handling reader completes only if the stitched
    stream has the digest's size and hash (C09's theorem applied to it). *)
Theorem still_validated : forall H cfg fuel max b h out st',
  drains (ehv_read H cfg fuel max) (vinit cfg (ehc_init fuel b h)) out EEof st' ->
  lenN out = g_size cfg /\ g_hash cfg = H out /\
  exists offered, stitched fuel max (ucr_open fuel b 0) 0 (h_answers h) out EEof offered.
Proof. exact eh_validated_stitched. Qed.
Print Assumptions still_validated.

(** An error returned by the handler is what the consumer gets: a stitched
    stream ends with io.EOF or with the handler's answer to the last error
    offered (code 10 stands for a handler without further answers). *)
Theorem handler_error_is_result : forall ifuel max cur k ans out e offered,
  stitched ifuel max cur k ans out e offered ->
  e = EEof \/
  exists c pre t, e = ECode c /\ offered = pre ++ [t] /\
                  fst (on_error (mkHst (skipn (length pre) ans) []) t) = Fail c.
Proof. exact stitched_result. Qed.
Print Assumptions handler_error_is_result.

(** Whole-operation retries (ToByteSlice, ReadAt, CloneCopy via tryRepeatedly):
    the result is that of the first buffer on which the whole (validated, C09)
    operation succeeds, so no partial data of a failed attempt is ever returned;
    the error of every failed attempt is offered to the handler exactly once,
    in order; an error answer of the handler is the result; Done follows last. *)
Theorem retried_operation : forall H cfg fuel n m b h cbs d e cbs' h',
  try_repeatedly H cfg fuel n m b h cbs = (d, e, cbs', h') ->
  (length (h_answers h) < n)%nat ->
  exists offered, retried H cfg fuel m b (h_answers h) d e offered /\
                  h_log h' = h_log h ++ map HOnError offered ++ [HDone].
Proof. exact try_repeatedly_spec. Qed.
Print Assumptions retried_operation.

(** Done is reported exactly once on every path: every buffer kind handed to
    WithErrorHandler, every handler script, every method (including Discard,
    invalid offsets and handler failures), every digest. *)
Theorem done_exactly_once : forall H cfg fuel b0 answers m,
  count_done (x_log (run_case H cfg fuel b0 answers m)) = 1%nat.
Proof. exact run_case_done_once. Qed.
Print Assumptions done_exactly_once.

(** Non-vacuity: the original fails after one byte, the replacement is opened
    at offset 1; the consumer gets 1,2,3 once each, validation succeeds, the
    error 14 is offered once and Done is reported once. *)
Example c16_stitches :
  let H := lookup [([1; 2; 3], [9; 9])] in
  let cfg := mkVcfg [9; 9] 3 13 in
  run_case H cfg 60 (BChunk [Chunk [1]; Err 14; Chunk [7]])
           [Replace (BChunk [Chunk [1; 2]; Chunk [3]])] MIntoWriter
  = mkOut16 [1; 2; 3] ENone [] [true] [HOnError (ECode 14); HDone] [].
Proof. vm_compute. reflexivity. Qed.
