(** C16 — I/O-error recovery resumes at the right offset: each byte delivered
    exactly once.  Statements only; proofs are in Buffer/ErrHandlerProofs.v.

    [stitched ifuel max cur k answers out e offered] (Buffer/ErrHandlerProofs.v)
    is the specification: from the current underlying reader [cur], with [k]
    bytes delivered so far, the stream is the piece [p] that [cur] delivers up to
    its end ([drains]); if it ends with io.EOF that is all; if it ends with an
    I/O error [t], [t] is offered to the handler: an error answer ends the
    stream with that error, a replacement buffer is opened (unvalidated) at
    offset [k + |p|] and the stream continues with ITS stitched stream. *)
From Coq Require Import List ZArith NArith Bool.
From BBS Require Import Common.Sx Buffer.Source Buffer.Validate Buffer.Convert Buffer.ErrHandler
  Buffer.StreamProofs Buffer.ValidateProofs Buffer.ErrHandlerProofs Buffer.ClosedOnceProofs
  Buffer.ErrHandlerStackProofs Buffer.StackRuleProofs Run.R09 Run.R16 Run.R16Proofs.
Import ListNotations.
Open Scope N_scope.

(** The stream of the error-handling chunk reader, read to its end, is the
    stitched stream b0[0,k1) ++ b1[k1,k2) ++ ...; the handler's log grows by
    exactly the I/O errors that ended the pieces, once each and in order; the
    delivered offset is the number of bytes handed out. *)
Theorem stitched_output_and_each_io_error_offered_once : forall ifuel max fuel r out e r',
  drains (ehc_read ifuel fuel max) r out e r' -> e <> EFuel ->
  exists offered,
    stitched ifuel max (ec_cur r) (ec_off r) (h_answers (ec_h r)) out e offered /\
    h_log (ec_h r') = h_log (ec_h r) ++ map HOnError offered /\
    ec_off r' = ec_off r + lenN out.
Proof. exact ehc_stitched. Qed.
Print Assumptions stitched_output_and_each_io_error_offered_once.

(** No duplicated and no skipped range: if the original and all replacement
    buffers carry the same object [C] (sources may fail or end anywhere), a
    stitched stream started at offset [k] that reaches io.EOF is exactly C[k..].
    Full statement: for every buffer kind.  Proved for chunk-reader backed CAS
    buffers, validated byte slices and error buffers ([carries]); reader-backed
    CAS buffers (io.CopyN/io.ReadFull underneath) are covered by the
    correspondence check only. *)
Theorem no_dup_no_skip_partial : forall ifuel max C cur k ans out e offered,
  stitched ifuel max cur k ans out e offered -> e = EEof ->
  forall b, cur = ucr_open ifuel b k -> carries C b ->
  Forall (fun a => match a with Replace b' => carries C b' | Fail _ => True end) ans ->
  ~ In EFuel offered -> k <= lenN C -> out = dropN k C.
Proof. exact stitched_no_dup_no_skip. Qed.
Print Assumptions no_dup_no_skip_partial.

(** The content is still validated across the stitched parts: the validated
    stream above the error-handling reader completes only if the stitched
    stream has the digest's size and hash (C09's theorem applied to it). *)
Theorem still_validated : forall H cfg fuel max b h out st',
  drains (ehv_read H cfg fuel max) (vinit cfg (ehc_init fuel b h)) out EEof st' ->
  lenN out = g_size cfg /\ g_hash cfg = H out /\
  exists offered, stitched fuel max (ucr_open fuel b 0) 0 (h_answers h) out EEof offered.
Proof. exact eh_validated_stitched. Qed.
Print Assumptions still_validated.

(** An error returned by the handler is what the consumer gets: a stitched
    stream ends with io.EOF or with the handler's answer to the last error
    offered (code 10 stands for a handler without further answers). *)
Theorem handler_error_is_result : forall ifuel max cur k ans out e offered,
  stitched ifuel max cur k ans out e offered ->
  e = EEof \/
  exists c pre t, e = ECode c /\ offered = pre ++ [t] /\
                  fst (on_error (mkHst (skipn (length pre) ans) []) t) = Fail c.
Proof. exact stitched_result. Qed.
Print Assumptions handler_error_is_result.

(** Whole-operation retries (ToByteSlice, ReadAt, CloneCopy via tryRepeatedly):
    the result is that of the first buffer on which the whole (validated, C09)
    operation succeeds, so no partial data of a failed attempt is ever returned;
    the error of every failed attempt is offered to the handler exactly once,
    in order; an error answer of the handler is the result; Done follows last. *)
Theorem retried_operation : forall H cfg fuel n m b h cbs d e cbs' h',
  try_repeatedly H cfg fuel n m b h cbs = (d, e, cbs', h') ->
  (length (h_answers h) < n)%nat ->
  exists offered, retried H cfg fuel m b (h_answers h) d e offered /\
                  h_log h' = h_log h ++ map HOnError offered ++ [HDone].
Proof. exact try_repeatedly_spec. Qed.
Print Assumptions retried_operation.

(** Done is reported exactly once on every path: every buffer kind handed to
    WithErrorHandler, every handler script, every method (including Discard,
    invalid offsets and handler failures), every digest. *)
Theorem done_exactly_once : forall H cfg fuel b0 answers m,
  count_done (x_log (run_case H cfg fuel b0 answers m)) = 1%nat.
Proof. exact run_case_done_once. Qed.
Print Assumptions done_exactly_once.

(** * Stacks of error handlers: [WithErrorHandler(... WithErrorHandler(b0, h0) ..., hk)]

    [run_stack H cfg fuel b0 anss m]: [anss] are the scripts of the handlers,
    innermost first (any depth); [y_logs] the calls each handler received;
    [y_closes] the Close() count of the scripted source of every stream-backed
    plain buffer that was created (the original and every replacement supplied
    by any level), taken from the source itself when its reader is given up. *)

(** Done is reported exactly once to the handler of EVERY level of a stack, on
    every path: all buffers, all handler scripts at every level (replacements,
    errors, too few answers), all methods, offsets, chunk sizes, digests, any
    fuel; including handler failure at all levels, Discard and invalid offsets. *)
Theorem done_exactly_once_at_every_level : forall H cfg fuel b0 anss m,
  (length (y_logs (run_stack H cfg fuel b0 anss m)) = length anss)%nat /\
  Forall (fun log => count_done log = 1%nat) (y_logs (run_stack H cfg fuel b0 anss m)).
Proof. exact run_stack_done_every_level. Qed.
Print Assumptions done_exactly_once_at_every_level.

(** Every underlying buffer that was opened is closed exactly once, on every
    path (success, replacement by any level, failure of all handlers, Discard,
    invalid offsets, failed construction of an offset reader). *)
Theorem every_source_closed_exactly_once : forall H cfg fuel b0 anss m,
  Forall (fun n => n = 1%nat) (y_closes (run_stack H cfg fuel b0 anss m)).
Proof. exact run_stack_closed_once. Qed.
Print Assumptions every_source_closed_exactly_once.

(** ... and so does every whole operation on a plain stream-backed buffer
    (C09's buffers: every method of a CAS chunk-reader / reader buffer closes the
    scripted source exactly once), which is what tryRepeatedly relies on. *)
Theorem plain_buffer_closes_source_once : forall H cfg fuel b m,
  Forall (fun n => n = 1%nat) (closes_of b (plain H cfg fuel b m)).
Proof. exact plain_closed_once. Qed.
Print Assumptions plain_buffer_closes_source_once.

(** The offering rule for stacks, over a whole run.  [ruled anss logs]
    (Buffer/StackRuleProofs.v): every level l has a trace [g_tr] of (error
    offered, answer given) pairs such that
    - [hrun]: the handler state whose log is [logs_l] is what the scripted
      handler with script [anss_l] becomes by being offered exactly the errors
      of the trace, one OnError call each, giving the answers of the trace (so
      the trace's errors are the OnError calls of the log, [trace_is_log]);
    - [gvalid]: all its answers are replacements, or the LAST one is an error
      and all earlier ones replacements: a handler that has answered with an
      error is not asked again ([not_asked_again_after_error]);
    - [chain]: for neighbouring levels ([adj inner outer]) either the inner
      handler has not answered with an error and the outer handler has not been
      asked at all, or the inner handler's last answer is the error c and the
      FIRST error the outer handler was offered is c.  An I/O error of an
      underlying buffer therefore reaches the innermost active handler first,
      and an outer handler only ever sees what the handler below it returned
      (then, after it has supplied a replacement, that replacement's errors).
    For all buffers, all handler scripts at every level, all methods, offsets,
    chunk sizes, digests, any fuel, any depth. *)
Theorem stack_offering_rule : forall H cfg fuel b0 anss m,
  ruled anss (y_logs (run_stack H cfg fuel b0 anss m)).
Proof. exact run_stack_ruled. Qed.
Print Assumptions stack_offering_rule.

Theorem trace_is_log : forall ans h tr, hrun ans h tr -> onerrors (h_log h) = map fst tr.
Proof. exact hrun_log. Qed.
Print Assumptions trace_is_log.

Theorem not_asked_again_after_error : forall g, gvalid g -> Forall isrep (removelast (g_tr g)).
Proof. exact gvalid_not_asked_again. Qed.
Print Assumptions not_asked_again_after_error.

(** The rule for one offering ([escalate], the one place where the nested
    readers and the nested tryRepeatedly calls pass an error upwards): [e] is
    offered to the innermost active handler first; the error answer of a
    handler is exactly what the next outer handler is offered; handlers above a
    replacing handler are not asked; the error answer of the outermost handler
    is the result; and each handler asked receives exactly ONE further OnError
    call, with the error of the chain (all other logs unchanged). *)
Theorem offering_rule_single_offering : forall act e,
  let '(r, passed, act') := escalate e act in offering e act r passed act'.
Proof. exact escalate_offering. Qed.
Print Assumptions offering_rule_single_offering.

Theorem each_error_offered_once_per_level : forall act e r passed act',
  escalate e act = (r, passed, act') ->
  map h_log (passed ++ act') = grow act (offer_chain e act) \/
  (fst r = None /\ act' = [] /\ map h_log passed = grow act (offer_chain e act)).
Proof. exact escalate_logs. Qed.
Print Assumptions each_error_offered_once_per_level.

(** The monitor's new clauses 8 (Done = 1 at every level) and 9 (every
    underlying reader closed once) hold of the model's own observation for every
    input: on the unchanged tree they can only fire where the implementation's
    observation differs from the model's. *)
Theorem new_monitor_clauses_silent_on_model : forall inp,
  clause8 (q_anss (dec_case16 inp)) (obs_dones (run16 inp)) = true /\
  clause9 (obs_closes (run16 inp)) = true.
Proof. exact clauses_8_9_silent_on_model. Qed.
Print Assumptions new_monitor_clauses_silent_on_model.

(** ... and so does clause 10, the stack offering rule in the monitor's own
    (boolean, script-indexed) form: [stack_offering_rule] carried over to the
    encoded observation. *)
Theorem stack_rule_clause_silent_on_model : forall inp,
  clause10 (q_anss (dec_case16 inp)) (obs_offered (run16 inp)) = true.
Proof. exact clause_10_silent_on_model. Qed.
Print Assumptions stack_rule_clause_silent_on_model.

(** Non-vacuity: the original fails after one byte, the replacement is opened
    at offset 1; the consumer gets 1,2,3 once each, validation succeeds, the
    error 14 is offered once and Done is reported once. *)
Example c16_stitches :
  let H := lookup [([1; 2; 3], [9; 9])] in
  let cfg := mkVcfg [9; 9] 3 13 in
  run_case H cfg 60 (BChunk [Chunk [1]; Err 14; Chunk [7]])
           [Replace (BChunk [Chunk [1; 2]; Chunk [3]])] MIntoWriter
  = mkOut16 [1; 2; 3] ENone [] [true] [HOnError (ECode 14); HDone] [].
Proof. vm_compute. reflexivity. Qed.

(** Non-vacuity for stacks: two handlers, an I/O error after one byte that
    neither repairs (the inner one answers 7, the outer one 9): 14 is offered to
    the inner handler, 7 to the outer one, the consumer gets 9; both handlers
    are told Done once and the source is closed once (the scenario of the seeded
    change C16-a). *)
Example c16_stack_unrecoverable :
  let H := lookup [([1; 2; 3], [9; 9])] in
  let cfg := mkVcfg [9; 9] 3 13 in
  run_stack H cfg 60 (BChunk [Chunk [1]; Err 14; Chunk [7]]) [[Fail 7]; [Fail 9]] MIntoWriter
  = mkOut16s [1] (ECode 9) [] [] [[HOnError (ECode 14); HDone]; [HOnError (ECode 7); HDone]] [1%nat] [].
Proof. vm_compute. reflexivity. Qed.

(** ... and one where the outer handler repairs what the inner one gave up:
    the replacement is opened at offset 1, the inner handler is finished at that
    moment, both sources are closed once. *)
Example c16_stack_outer_repairs :
  let H := lookup [([1; 2; 3], [9; 9])] in
  let cfg := mkVcfg [9; 9] 3 13 in
  run_stack H cfg 60 (BChunk [Chunk [1]; Err 14; Chunk [7]])
            [[Fail 7]; [Replace (BChunk [Chunk [1; 2]; Chunk [3]])]] MIntoWriter
  = mkOut16s [1; 2; 3] ENone [] [true]
             [[HOnError (ECode 14); HDone]; [HOnError (ECode 7); HDone]] [1%nat; 1%nat] [].
Proof. vm_compute. reflexivity. Qed.
