(** C16 — placeholder while the harness is brought up. *)
From BBS Require Import Common.Sx Buffer.Source Buffer.ErrHandler Run.R16.
