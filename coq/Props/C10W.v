(** The wiring model of Store/Wiring.v (tied to the real configuration constructor
    by the sub-checks C01W / C05W / C08W) carries C10's theorem to every store the
    constructor builds.  Statement only. *)
From Coq Require Import List NArith ZArith Bool Arith.
From BBS Require Import Common.Sx Store.Model Store.Wf Store.WfTids Store.Wiring Run.RStore Run.R01W Run.R01WProofs.
From BBS Require Props.C04 Props.StoreCombined Store.P04Mon Store.P10Monitor.
(* -- (keeps lib/checklib.py's dependency scan from reading past the sentence) *)
Import ListNotations.

(** for every accepted sane hierarchical configuration message: C10's monitor is
    silent on the model of the store the constructor builds, for all well-formed
    schedules *)
Theorem wired_store_satisfies_C10 : forall inp w,
  wired_world inp = Some w -> wiring_sane (dec_wiring (sx_nth inp 0)) = true -> wf_anc w = true ->
  c_hier (w_cfg w) = true ->
  forall es, wf_ops w [] es = true -> wf_tids es = true -> P10Monitor.mon10_model w es = [].
Proof.
  intros inp w W S A H es WO WT.
  exact (Props.StoreCombined.store_model_satisfies_C10 w es (wired_world_wf inp w W S A) WO WT H).
Qed.
Print Assumptions wired_store_satisfies_C10.
