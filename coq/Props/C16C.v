(** C16C — stream clones of a buffer with an error handler obey C16's
    specification (sub-check of C16; model and monitor in Run/R16C.v, proofs in
    Run/R16CProofs.v). *)
From Coq Require Import List ZArith NArith Bool.
From BBS Require Import Common.Sx Buffer.Source Buffer.Convert Buffer.ErrHandler Buffer.EHFuelMon
  Run.R09 Run.R16 Run.R16C Run.R16CProofs.
Import ListNotations.
Open Scope Z_scope.

(** The clone model is C16's model of ONE consumer of the error-handled
    buffer: the handlers' logs, the Close() counts and the integrity callbacks
    are those of [run16] on the inner case consumed by ToChunkReader(0, c)
    (Discard when every handle is discarded), and every handle's result is a
    function of that run's bytes and terminator alone. *)
Theorem clone_model_is_direct_model : forall splits ms order inner,
  let inp := L [splits; ms; order; inner] in
  let o := run16 (set_meth inner (base_meth (map dec_meth (sx_list ms)))) in
  run16C inp =
    L [L (map (fun m => handle_res m (dec_bytes (sx_nth o 0)) (sx_Z (sx_nth o 1))) (map dec_meth (sx_list ms)));
       sx_nth o 3; sx_nth o 4; sx_nth o 5; sx_nth o 7].
Proof. intros. reflexivity. Qed.
Print Assumptions clone_model_is_direct_model.

(** What C16's monitor says about the single consumer it says about every
    handle: if [mon16] is silent on the observation of ToChunkReader(0, c0) of
    the error-handled buffer (bytes D, terminator E), it is silent on the view
    of a handle that shows D from its offset (or nothing, when the stream
    failed) with the same terminator, the same handler logs and close counts. *)
Theorem handle_view_inherits_C16 : forall inner c0 D E x cbs onerrs dones y closes off c D',
  mon16 (set_meth inner (L [A 3; A 0; A c0; A 0])) (L [of_Ns D; A E; x; cbs; onerrs; dones; y; closes]) = [] ->
  0 <= off -> shows off D E D' ->
  mon16 (set_meth inner (L [A 3; A off; A c; A 0])) (L [of_Ns D'; A E; L []; cbs; onerrs; dones; L []; closes]) = [].
Proof. exact mon16_view. Qed.
Print Assumptions handle_view_inherits_C16.

(** The monitor is SILENT ON THE MODEL: for every script (any number of
    faults / replacements / handler levels), every handle tree, every start
    order and every assignment of the five methods (or Discard) to the
    handles.  [dom16C]: C16's domain [dom16F] for the single consumer
    (>= 1 handler, well-formed scripts, positive loop parameters, positive
    final code), handles among ToByteSlice / IntoWriter / ToChunkReader at an
    offset >= 0 / ToReader / Discard, and the single consumer's stream does not
    end with the code 0 ("no error": a drained stream ends with io.EOF or an
    error).  Derived from C16's [monitor_silent_on_model] through
    [handle_view_inherits_C16]; no fuel hypothesis. *)
Theorem mon16C_silent_on_model : forall inp, dom16C inp -> mon16C inp (run16C inp) = [].
Proof. exact R16CProofs.mon16C_silent_on_model. Qed.
Print Assumptions mon16C_silent_on_model.

(** Non-vacuity: the shape of the seeded change's demonstration.  The stream
    delivers 1 and fails with 14, the handler supplies a replacement (1,2,3 in
    two chunks), two handles: IntoWriter and ToChunkReader(1, 2).  Both get
    the stitched object (from their offset), the error is offered once, Done
    once, both sources closed once. *)
Example dom16C_instance :
  let inner := L [A 1; L [A 3; L [A 9; A 9]; A 3];
                  L [A 0; L [L [A 0; L [A 1]]; L [A 1; A 14]; L [A 0; L [A 7]]]];
                  L [L [L [A 0; L [A 0; L [L [A 0; L [A 1; A 2]]; L [A 0; L [A 3]]; L [A 2]]]]]];
                  L [A 6]; L [L [L [A 1; A 2; A 3]; L [A 9; A 9]]]] in
  let inp := L [L [A 0]; L [L [A 1]; L [A 3; A 1; A 2; A 0]]; L [A 0; A 1]; inner] in
  dom16C inp /\
  run16C inp = L [L [L [A 0; L [A 1; A 2; A 3]]; L [A (-1); L [A 2; A 3]]]; L [A 1]; L [L [A 14]]; L [A 1]; L [A 1; A 1]].
Proof.
  cbv zeta. split; [|vm_compute; reflexivity].
  unfold dom16C. split; [|split].
  - unfold dom16F. repeat match goal with |- _ /\ _ => split end.
    + vm_compute. discriminate.
    + vm_compute. split; [exact I|]. repeat constructor.
    + vm_compute. reflexivity.
    + vm_compute. reflexivity.
    + vm_compute. discriminate.
  - vm_compute. reflexivity.
  - intros _. vm_compute. discriminate.
Qed.

(** ... and with every handle discarded the error-handled buffer is discarded once. *)
Example dom16C_instance_all_discarded :
  let inner := L [A 1; L [A 3; L [A 9; A 9]; A 3];
                  L [A 0; L [L [A 0; L [A 1]]; L [A 1; A 14]; L [A 0; L [A 7]]]];
                  L [L [L [A 1; A 7]]];
                  L [A 6]; L [L [L [A 1; A 2; A 3]; L [A 9; A 9]]]] in
  let inp := L [L [A 0; A 1]; L [L [A 6]; L [A 6]; L [A 6]]; L [A 2; A 0; A 1]; inner] in
  dom16C inp /\
  run16C inp = L [L [L [A 0; L []]; L [A 0; L []]; L [A 0; L []]]; L []; L [L []]; L [A 1]; L [A 1]].
Proof.
  cbv zeta. split; [|vm_compute; reflexivity].
  unfold dom16C. split; [|split].
  - unfold dom16F. repeat match goal with |- _ /\ _ => split end.
    + vm_compute. discriminate.
    + vm_compute. split; [exact I|]. repeat constructor.
    + vm_compute. reflexivity.
    + vm_compute. reflexivity.
    + vm_compute. discriminate.
  - vm_compute. reflexivity.
  - intros H. vm_compute in H. discriminate H.
Qed.
