(** C17 - read caching, read fallback, replicator decorators and existence
    caches are transparent.  Statements only; proofs are in Compose/*Proofs.v.

    Sequential composites (Compose/Caching.v): backend [BA] is the fast
    (read caching) / primary (read fallback) backend, [BB] the slow / secondary
    one; [sa s]/[sb s] are their contents in state [s]; [fl s] are the faults
    still to be injected, one per backend call (so the theorems that do not
    assume [fl s = []] hold for every fault sequence); every theorem is about
    an arbitrary state, hence about every history leading to it. *)
From Coq Require Import List ZArith NArith Bool Arith.
From BBS Require Import Common.Sx Common.ListX
  Compose.Caching Compose.CachingProofs Compose.MonSilentCaching
  Compose.ExistenceCache Compose.ExistenceCacheProofs
  Compose.Replicators Compose.ReplicatorsProofs.
Import ListNotations.
Open Scope Z_scope.

(** ** Read caching / read fallback: an object is returned iff the fast/primary
    or the slow/secondary backend holds it.  [cget] is the Get of both
    composites (they differ in error texts only). *)

(** "only if", for every replicator stack and under every fault sequence. *)
Theorem readcache_readfallback_get_only_if_held : forall r d s s1,
  cget r d s = (0, s1) -> memb d (sa s) = true \/ memb d (sb s) = true.
Proof. exact cget_sound. Qed.
Print Assumptions readcache_readfallback_get_only_if_held.

(** "iff" when no backend call fails, for every copying replicator stack
    (local, under any nesting of deduplicating / concurrency-limiting
    decorators) and for the non-copying one: held => returned, not held =>
    NOT_FOUND. *)
Theorem readcache_readfallback_iff : forall r d s, (copying r = true \/ r = RNoop) -> fl s = [] ->
  fst (cget r d s) = if memb d (sa s) || memb d (sb s) then 0 else 5.
Proof. exact cget_complete_copying. Qed.
Print Assumptions readcache_readfallback_iff.

(** Uploads go to the slow (read caching) respectively primary (fallback)
    backend only: exactly one backend call, a Put there; the other backend's
    contents are unchanged; an acknowledged upload is stored there. *)
Theorem uploads_go_to_slow_resp_primary_only : forall k d s c s1, cput k d s = (c, s1) ->
  (exists f, lg s1 = mkcall (put_target k) CPut [d] f :: lg s) /\
  (forall b, b <> put_target k -> contents b s1 = contents b s) /\
  (c = 0 -> memb d (contents (put_target k) s1) = true).
Proof. exact cput_only_target. Qed.
Print Assumptions uploads_go_to_slow_resp_primary_only.

Example put_targets : put_target ReadCaching = BB /\ put_target ReadFallback = BA.
Proof. split; reflexivity. Qed.

(** After a successful read through a copying replicator (local, possibly
    under deduplicating / concurrency-limiting decorators) the object is in
    the fast respectively primary backend - under every fault sequence. *)
Theorem read_through_populates : forall r d s s1, copying r = true ->
  cget r d s = (0, s1) -> memb d (sa s1) = true.
Proof. exact cget_populates. Qed.
Print Assumptions read_through_populates.

(** FindMissing through a fallback reports exactly the objects missing from
    both backends (every replicator, every fault sequence: if it answers at
    all) ... *)
Theorem fallback_fm_exact : forall r ds s m s1, cfm ReadFallback r ds s = (0, m, s1) ->
  m = filter (fun d => negb (memb d (sa s)) && negb (memb d (sb s))) ds.
Proof. exact cfm_fallback_exact. Qed.
Print Assumptions fallback_fm_exact.

(** ... and it does answer when no backend call fails; objects only the
    secondary held are in the primary afterwards. *)
Theorem fallback_fm_answers_and_repairs : forall ds s, fl s = [] ->
  let '(c, m, s1) := cfm ReadFallback RLocal ds s in
  c = 0 /\ forall d, In d ds -> memb d (sb s) = true -> memb d (sa s1) = true.
Proof. exact cfm_fallback_total. Qed.
Print Assumptions fallback_fm_answers_and_repairs.

(** Replication only ever adds objects of the source to the sink. *)
Theorem replication_only_copies : forall r ds s c s1, rmultiple r ds s = (c, s1) -> grows s s1.
Proof. exact rmultiple_grows. Qed.
Print Assumptions replication_only_copies.

(** Non-vacuity: object 1 only in the slow backend; a read through the local
    replicator returns it and it is in the fast backend afterwards; with a
    failing sink Put (fault at the third call) the read fails with that code. *)
Example read_through_example :
  let s := mkst [0%nat] [1%nat] [] [] in
  fst (cget RLocal 1 s) = 0 /\ sa (snd (cget RLocal 1 s)) = [0%nat; 1%nat] /\
  fst (cget RLocal 1 (mkst [0%nat] [1%nat] [0; 0; 14] [])) = 14 /\
  fst (cget (RDedup RLocal) 2 s) = 5.
Proof. vm_compute. repeat split; reflexivity. Qed.

(** ** Composite reads: GetFromComposite(parent p, child of p, slicer) through
    either composite.  [cgfc r p] is GetFromCompositeWithBlobReplicator with
    the composite's single-shot selector: the fast / primary backend [BA]
    first; only on NOT_FOUND the replicator's ReplicateComposite, once -
    noop: the source's GetFromComposite; local and the decorators: the
    replicator's own ReplicateMultiple on {p} (the WHOLE parent is put into
    the sink), then the child is read back from the sink, NOT_FOUND there
    becoming INTERNAL.  The child is available iff the parent is held. *)

(** "only if": every replicator stack, every fault sequence. *)
Theorem composite_read_only_if_parent_held : forall r p s s1,
  cgfc r p s = (0, s1) -> memb p (sa s) = true \/ memb p (sb s) = true.
Proof. exact cgfc_sound. Qed.
Print Assumptions composite_read_only_if_parent_held.

(** "iff" when no backend call fails: the child's bytes whenever fast/primary
    or slow/secondary holds the parent, NOT_FOUND only if neither does. *)
Theorem composite_read_iff : forall r p s, (copying r = true \/ r = RNoop) -> fl s = [] ->
  fst (cgfc r p s) = if memb p (sa s) || memb p (sb s) then 0 else 5.
Proof. exact cgfc_complete_copying. Qed.
Print Assumptions composite_read_iff.

(** The same with "no call of this read failed" read off the recorded calls,
    whatever faults were left to inject (the form the monitor uses). *)
Theorem composite_read_iff_when_no_call_failed : forall r p s c s1, (copying r = true \/ r = RNoop) ->
  cgfc r p s = (c, s1) -> unfaulted (lg s1) = true ->
  c = if memb p (sa s) || memb p (sb s) then 0 else 5.
Proof. exact cgfc_complete_unfaulted. Qed.
Print Assumptions composite_read_iff_when_no_call_failed.

(** After a successful composite read through anything but the bare
    non-copying replicator the PARENT is in the fast / primary backend, under
    every fault sequence ... *)
Theorem composite_read_through_populates : forall r p s s1, r <> RNoop ->
  cgfc r p s = (0, s1) -> memb p (sa s1) = true.
Proof. exact cgfc_populates. Qed.
Print Assumptions composite_read_through_populates.

(** ... and a parent that only the slow / secondary backend holds IS read
    through when no call fails: served, in the fast / primary backend
    afterwards, the slow / secondary backend unchanged. *)
Theorem composite_read_through_of_slow_only_parent : forall r p s, copying r = true -> fl s = [] ->
  memb p (sa s) = false -> memb p (sb s) = true ->
  fst (cgfc r p s) = 0 /\ memb p (sa (snd (cgfc r p s))) = true /\ sb (snd (cgfc r p s)) = sb s.
Proof. exact cgfc_read_through. Qed.
Print Assumptions composite_read_through_of_slow_only_parent.

(** A backend failure other than NOT_FOUND at ANY call of the read surfaces
    as an error ([l] = the calls this read added to the log), for composite
    reads and for Get, every replicator stack, every fault sequence. *)
Theorem composite_read_backend_failure_surfaces : forall r p s c s1, cgfc r p s = (c, s1) ->
  exists l, lg s1 = l ++ lg s /\ (hard l = true -> c <> 0).
Proof. exact cgfc_hard_fault_surfaces. Qed.
Print Assumptions composite_read_backend_failure_surfaces.

Theorem get_backend_failure_surfaces : forall r d s c s1, cget r d s = (c, s1) ->
  exists l, lg s1 = l ++ lg s /\ (hard l = true -> c <> 0).
Proof. exact cget_hard_fault_surfaces. Qed.
Print Assumptions get_backend_failure_surfaces.

(** Which backend name is put in front of the error: read caching none;
    read fallback "Primary" ([1]) exactly for an error other than NOT_FOUND of
    the primary's own answer, which is then the result. *)
Theorem read_caching_adds_no_prefix : forall first final, read_pfx ReadCaching first final = 0.
Proof. exact read_pfx_caching. Qed.
Print Assumptions read_caching_adds_no_prefix.

Theorem fallback_primary_prefix : forall r p s, step_pfx ReadFallback r (OGfc p) s = 1 <->
  (fst (bgfc BA p s) <> 0 /\ fst (bgfc BA p s) <> 5).
Proof. exact gfc_pfx_primary. Qed.
Print Assumptions fallback_primary_prefix.

Theorem composite_read_primary_error_is_result : forall r p s,
  fst (bgfc BA p s) <> 5 -> fst (cgfc r p s) = fst (bgfc BA p s).
Proof. exact gfc_primary_error_is_result. Qed.
Print Assumptions composite_read_primary_error_is_result.

(** Non-vacuity: parent 1 only in the slow backend, read through the
    deduplicating local replicator: five backend calls, the parent is in the
    fast backend afterwards; parent 0 only in the fast backend is served by
    one call; a sink Put failing with UNAVAILABLE surfaces; so does a sink
    that lost the parent between the copy and the read-back (INTERNAL). *)
Example composite_read_example :
  let s := mkst [0%nat] [1%nat] [] [] in
  fst (cgfc (RDedup RLocal) 1 s) = 0 /\ sa (snd (cgfc (RDedup RLocal) 1 s)) = [0%nat; 1%nat] /\
  length (lg (snd (cgfc (RDedup RLocal) 1 s))) = 5%nat /\
  fst (cgfc (RDedup RLocal) 0 s) = 0 /\ length (lg (snd (cgfc (RDedup RLocal) 0 s))) = 1%nat /\
  fst (cgfc RLocal 1 (mkst [0%nat] [1%nat] [0; 0; 14] [])) = 14 /\
  fst (cgfc RLocal 1 (mkst [0%nat] [1%nat] [0; 0; 0; 5] [])) = 13 /\
  fst (cgfc RLocal 2 s) = 5 /\ fst (cgfc RNoop 1 s) = 0 /\ sa (snd (cgfc RNoop 1 s)) = [0%nat].
Proof. vm_compute. repeat split; reflexivity. Qed.

(** ** Existence cache (Compose/ExistenceCache.v)
    [sound_hist] unfolds, along a history of decorator calls, direct cache
    calls, backend changes and clock advances, to: whatever a FindMissing /
    RemoveExisting answered from the cache at clock reading t (a requested
    digest not passed on to the backend) has a recording (d, t0) - a backend
    answer "present" obtained by the decorator, or a direct Add - made earlier
    with t0 <= t <= t0 + duration.  All histories, all sizes, all durations. *)
Theorem existence_cache_sound : forall size dur ops,
  sound_hist size dur ops (mkest ec_empty 0%N []) [].
Proof. exact ec_sound. Qed.
Print Assumptions existence_cache_sound.

(** The decorator returns the backend's answer for what it asked. *)
Theorem existence_cache_transparent : forall size dur ds d1 d2 s,
  let ob := fst (estep size dur (EFm ds d1 d2 0%Z) s) in
  exists asked, e_call ob = Some asked /\ e_code ob = 0%Z /\
                e_ans ob = filter (fun d => negb (memn d (backend s))) asked.
Proof. exact efm_transparent. Qed.
Print Assumptions existence_cache_transparent.

(** A composite read through the decorator is the backend's own (the child
    iff the backend holds the parent), the backend is asked for exactly that
    parent, the cache is neither consulted nor changed; a backend failure is
    the result. *)
Theorem existence_cache_composite_read_transparent : forall size dur p s,
  let (ob, s') := estep size dur (EGfc p 0%Z) s in
  e_code ob = (if memn p (backend s) then 0 else 5)%Z /\ e_call ob = Some [p] /\ e_clock ob = [] /\ s' = s.
Proof. exact egfc_transparent. Qed.
Print Assumptions existence_cache_composite_read_transparent.

Theorem existence_cache_composite_read_failure_surfaces : forall size dur p f s,
  f <> 0%Z -> e_code (fst (estep size dur (EGfc p f) s)) = f.
Proof. exact egfc_failure_surfaces. Qed.
Print Assumptions existence_cache_composite_read_failure_surfaces.

(** Non-vacuity: size 1, duration 5.  Object 0 is recorded at time 0, hidden
    at time 5, asked again at time 6; recording object 1 evicts object 0. *)
Example existence_example :
  let ops := [EBackendPut 0; EBackendPut 1; EFm [0%nat] 0 0 0; EBackendDel 0;
              EFm [0%nat] 5 0 0; EFm [0%nat] 1 0 0; EBackendPut 0;
              EFm [0%nat] 0 0 0; EFm [1%nat] 0 0 0; EFm [0%nat; 1%nat] 0 0 0] in
  map (fun o => (e_ans o, e_call o)) (fst (erun 1 5 ops (mkest ec_empty 0%N []))) =
  [([], None); ([], None); ([], Some [0%nat]); ([], None);
   ([], Some []); ([0%nat], Some [0%nat]); ([], None);
   ([], Some [0%nat]); ([], Some [1%nat]); ([], Some [0%nat])].
Proof. vm_compute. reflexivity. Qed.

(** ** LRU set: Insert/Touch move the element to the back of the queue and
    keep the order of the others; Peek/Remove take the front, i.e. the element
    whose last Insert/Touch is the oldest. *)
Theorem lru_touch_moves_to_back : forall v s, lru_ok s -> In v (lq s) ->
  lru_ok (lru_touch v s) /\ lq (lru_touch v s) = remove_nat v (lq s) ++ [v].
Proof. exact lru_touch_spec. Qed.
Print Assumptions lru_touch_moves_to_back.

Theorem lru_insert_appends : forall v s, lru_ok s -> ~ In v (lq s) ->
  lru_ok (lru_insert v s) /\ lq (lru_insert v s) = lq s ++ [v].
Proof. exact lru_insert_spec. Qed.
Print Assumptions lru_insert_appends.

Theorem lru_evicts_front : forall s v r, lru_ok s -> lq s = v :: r ->
  lru_peek s = Some v /\ lru_ok (lru_remove s) /\ lq (lru_remove s) = r.
Proof. exact lru_remove_spec. Qed.
Print Assumptions lru_evicts_front.

(** ** Replicator decorators (Compose/Replicators.v): a transition system over
    any number of callers of ReplicateMultiple with arbitrary (overlapping)
    digest sets; a trace is any sequence of atomic steps - caller starts,
    lock-protected sections of the decorator, backend calls returning with an
    arbitrary injected fault, context cancellations, clock advances.  [run]
    accepts exactly the traces whose steps are enabled, so the theorems hold
    for all interleavings at that granularity. *)

(** Deduplicating: never more than one concurrent copy of the same key. *)
Theorem dedup_at_most_one_copy_per_key : forall sets source sink tr s,
  run MDedup (init_state sets source sink) tr = Some s -> forall k, (copies_of k s <= 1)%nat.
Proof. exact dedup_one_copy_per_key. Qed.
Print Assumptions dedup_at_most_one_copy_per_key.

(** Concurrency-limiting with a semaphore of k permits: never more than k. *)
Theorem limit_at_most_k : forall k sets source sink tr s,
  run (MLimit k) (init_state sets source sink) tr = Some s -> (copies s <= k)%nat.
Proof. exact limit_at_most_k_copies. Qed.
Print Assumptions limit_at_most_k.

(** Queued (one token): never more than one. *)
Theorem queued_at_most_one : forall size dur sets source sink tr s,
  run (MQueued size dur) (init_state sets source sink) tr = Some s -> (copies s <= 1)%nat.
Proof. exact queued_at_most_one_copy. Qed.
Print Assumptions queued_at_most_one.

(** Non-vacuity: two callers for key 0; the second waits while the first
    copies (one copy in progress); the first fails in sink.Put, the waiter
    retries, becomes the leader and copies itself. *)
Example dedup_example :
  let tr := [EStart 0; ETau 0 false; EStart 1; ETau 1 false; ERel 0 0; ERel 0 0] in
  (match run MDedup (init_state [[0%nat]; [0%nat]] [0%nat] []) tr with
   | Some s => (copies_of 0 s, map tpc (thr s))
   | None => (7%nat, [])
   end) = (1%nat, [Put 0 0 [] 0; Wait 0 0]) /\
  (match run MDedup (init_state [[0%nat]; [0%nat]] [0%nat] [])
             (tr ++ [ERel 0 14; ETau 0 false; ETau 0 false; ETau 1 false; ETau 1 false; ERel 1 0]) with
   | Some s => (copies_of 0 s, map tpc (thr s))
   | None => (7%nat, [])
   end) = (1%nat, [Done 14; Get 0 [] 1]).
Proof. vm_compute. split; reflexivity. Qed.

(** [success_justified].  History variables ([gstep], a function of pre-state
    and step): [GAsk i k e] - caller i asked for key k and found or created
    in-flight entry e; [GJust e] - e's owner saw the sink answer "present" for
    its key or its copy into the sink completed; [GSucc i k e] - caller i is
    told success for k on the strength of e (it owned e, or waited for e and
    read success = true).  Every reported success is preceded in the trace by
    the caller's own request that found/created e AND by a sink-present
    observation or completed copy belonging to e; and e was registered in the
    in-flight map when the caller asked.  This is the strongest statement
    true of the algorithm: the justification may precede the request (a
    leader's FindMissing can have returned just before a waiter arrived,
    while the leader had not yet unregistered); for sinks whose contents only
    grow during the run it implies "found in, or copied to, the sink after the
    caller asked".  The literal reading is NOT a theorem of this algorithm and
    is not claimed. *)
Theorem success_justified : forall sets source sink tr s log,
  grun (init_state sets source sink) tr [] = Some (s, log) ->
  forall l1 l2 i k e, log = l1 ++ GSucc i k e :: l2 -> In (GJust e) l2 /\ In (GAsk i k e) l2.
Proof. exact dedup_success_justified. Qed.
Print Assumptions success_justified.

Theorem success_justified_entry_registered_when_asked : forall s ev s' i k e,
  step MDedup s ev = Some s' -> In (GAsk i k e) (gstep s ev) -> lookup_key k (inflight s') = Some e.
Proof. exact ask_registered. Qed.
Print Assumptions success_justified_entry_registered_when_asked.

(** Non-vacuity: caller 1 waits for caller 0's copy and is told success;
    the log (newest first) shows request, justification, successes. *)
Example success_example :
  let tr := [EStart 0; ETau 0 false; EStart 1; ETau 1 false; ERel 0 0; ERel 0 0; ERel 0 0;
             ETau 0 false; ETau 0 false; ETau 1 false] in
  option_map snd (grun (init_state [[0%nat]; [0%nat]] [0%nat] []) tr []) =
  Some [GSucc 1 0 0; GSucc 0 0 0; GJust 0; GAsk 1 0 0; GAsk 0 0 0].
Proof. vm_compute. reflexivity. Qed.

(** ** Existence cache: size bound (down to size 1) and panic-freedom.
    Through any history, the number of cached entries never exceeds the
    configured size, the LRU queue holds exactly the cached keys without
    duplicates, and Peek/Remove are never applied to an empty queue. *)
Theorem existence_cache_bounded : forall size dur ops, (1 <= size)%nat ->
  forall s, ecinv (cache s) -> (length (times (cache s)) <= size)%nat ->
  let s' := snd (erun size dur ops s) in
  ecinv (cache s') /\ (length (times (cache s')) <= size)%nat.
Proof. exact ec_bounded. Qed.
Print Assumptions existence_cache_bounded.

Theorem existence_cache_never_panics : forall size dur ops, (1 <= size)%nat ->
  lpanic (elru (cache (snd (erun size dur ops (mkest ec_empty 0%N []))))) = false.
Proof. exact ec_no_panic. Qed.
Print Assumptions existence_cache_never_panics.

(** ** The monitor used on implementation traces never fires on the model.

    [mon17 inp obs] (Run/R17Proofs.v: the dispatch of [judge17] on the case
    kind, applied to the monitors [mon_seq], [mon_ec], [mon_conc], [mon_lru]
    of Run/R17.v, Run/R17Conc.v) is the property as a decidable check on what
    the implementation was observed to do; [run17 inp] is the model's output
    ([run_seq], [run_ec], [run_lru]); [agree17 inp obs] is the agreement bit of
    [judge17].

    SEQUENTIAL case kinds (0: read-caching / read-fallback composites, 1:
    existence cache, 3: LRU set): for EVERY input - no well-formedness
    hypothesis at all: decoders clamp, the monitors compare decoded values with
    values the model encoded itself, an existence cache of size 0 panics in the
    model at its first recording and the monitors do not judge panics - all
    clauses (1-10 and 15 - composites incl. composite reads -, 11-13 and 16 -
    existence cache incl. composite reads -, 14) are silent on the model's
    output, which is the only observation the judge accepts for these kinds.
    For kind 2, [run17] is the placeholder [L []] (there is no single model
    output); the statements about kind 2 follow below. *)
From BBS Require Import Run.R17Conc Run.R17 Run.R17Proofs.

Theorem monitor_silent_on_model : forall inp, mon17 inp (run17 inp) = [].
Proof. exact mon17_silent_on_model. Qed.
Print Assumptions monitor_silent_on_model.

Theorem monitor_silent_on_agreeing_observation_sequential : forall inp obs,
  sx_Z (sx_nth inp 0) <> 2 -> agree17 inp obs = true -> mon17 inp obs = [].
Proof. exact mon17_silent_on_agreeing_sequential. Qed.
Print Assumptions monitor_silent_on_agreeing_observation_sequential.

Theorem model_output_is_accepted : forall inp,
  sx_Z (sx_nth inp 0) = 0 \/ sx_Z (sx_nth inp 0) = 1 \/ sx_Z (sx_nth inp 0) = 3 ->
  agree17 inp (run17 inp) = true.
Proof. exact model_output_agrees. Qed.
Print Assumptions model_output_is_accepted.

(** Non-vacuity: a read-fallback history over a deduplicating local
    replicator (a read-through, a read with an injected sink failure, an
    upload, a FindMissing, a NOT_FOUND); an existence-cache history of size 1
    and duration 5 (hit, expiry, failing backend, direct calls); an LRU
    history. *)
Example monitor_silent_examples :
  (let inp := L [A 0; A 1; L [A 2; A 0]; L [A 0]; L [A 1; A 2];
                 L [L [A 0; A 1; L []]; L [A 0; A 2; L [A 0; A 0; A 14]]; L [A 1; A 3; L []];
                    L [A 2; L [A 0; A 3; A 4; A 2]; L []]; L [A 0; A 4; L []]]] in
   map (fun o => sx_Z (sx_nth o 0)) (sx_list (run17 inp)) = [0; 14; 0; 0; 5]
   /\ sx_nth (sx_nth (run17 inp) 3) 1 = L [A 4]
   /\ agree17 inp (run17 inp) = true /\ mon17 inp (run17 inp) = [])
  /\ (let inp := L [A 1; A 1; A 5;
                L [L [A 3; A 0]; L [A 3; A 1]; L [A 0; L [A 0]; A 0; A 0; A 0]; L [A 4; A 0];
                   L [A 0; L [A 0]; A 5; A 0; A 0]; L [A 0; L [A 0]; A 1; A 0; A 0];
                   L [A 0; L [A 0; A 1]; A 0; A 0; A 14]; L [A 1; L [A 0; A 1]; A 0]; L [A 2; L [A 1]; A 0]]] in
      map (fun o => sx_nth o 2) (sx_list (run17 inp)) =
        [L []; L []; L [L [A 0]]; L []; L [L []]; L [L [A 0]]; L [L [A 0; A 1]]; L []; L []]
      /\ agree17 inp (run17 inp) = true /\ mon17 inp (run17 inp) = [])
  /\ (let inp := L [A 3; L [L [A 0; A 5]; L [A 0; A 7]; L [A 2]; L [A 1; A 5]; L [A 2]; L [A 3]; L [A 2]]] in
      run17 inp = L [L [A 5; A 7; A 5]] /\ agree17 inp (run17 inp) = true /\ mon17 inp (run17 inp) = []).
Proof. exact (conj seq_example (conj ec_example lru_example)). Qed.

(** Non-vacuity for the composite reads (GetFromComposite): read caching over
    the deduplicating local replicator (from fast; read-through with five
    backend calls, the parent in fast afterwards; failing sink Put; failing
    fast backend; absent parent), read fallback with the "Primary" /
    "Secondary" prefixes, and an existence cache whose FindMissing is answered
    from the cache while the composite read is the backend's NOT_FOUND. *)
Example monitor_silent_examples_composite_reads :
  (let inp := L [A 0; A 0; L [A 2; A 0]; L [A 0]; L [A 1; A 2];
                 L [L [A 3; A 0; L []]; L [A 3; A 1; L []]; L [A 3; A 1; L []]; L [A 3; A 2; L [A 0; A 0; A 0; A 14]];
                    L [A 3; A 2; L [A 13]]; L [A 3; A 4; L []]]] in
   map (fun o => sx_Z (sx_nth o 0)) (sx_list (run17 inp)) = [0; 0; 0; 14; 13; 5]
   /\ map (fun o => length (sx_list (sx_nth o 2))) (sx_list (run17 inp)) = [1; 5; 1; 4; 1; 4]%nat
   /\ sx_nth (sx_nth (run17 inp) 1) 3 = L [A 0; A 1]
   /\ agree17 inp (run17 inp) = true /\ mon17 inp (run17 inp) = [])
  /\ (let inp := L [A 0; A 1; A 0; L []; L [A 1];
                 L [L [A 3; A 1; L [A 14]]; L [A 3; A 1; L [A 0; A 14]]; L [A 3; A 1; L [A 0; A 0; A 0; A 5]];
                    L [A 0; A 1; L [A 5; A 2]]; L [A 3; A 1; L []]]] in
      map (fun o => (sx_Z (sx_nth o 0), sx_Z (sx_nth o 5))) (sx_list (run17 inp)) = [(14, 1); (14, 2); (13, 2); (2, 2); (0, 0)]
      /\ agree17 inp (run17 inp) = true /\ mon17 inp (run17 inp) = [])
  /\ (let inp := L [A 1; A 1; A 5;
                L [L [A 3; A 0]; L [A 0; L [A 0]; A 0; A 0; A 0]; L [A 4; A 0]; L [A 0; L [A 0]; A 1; A 0; A 0];
                   L [A 5; A 0; A 0]; L [A 3; A 0]; L [A 5; A 0; A 0]; L [A 5; A 0; A 14]]] in
      map (fun o => (sx_Z (sx_nth o 0), sx_nth o 2)) (sx_list (run17 inp)) =
        [(0, L []); (0, L [L [A 0]]); (0, L []); (0, L [L []]); (5, L [L [A 0]]); (0, L []); (0, L [L [A 0]]); (14, L [L [A 0]])]
      /\ agree17 inp (run17 inp) = true /\ mon17 inp (run17 inp) = []).
Proof. exact seq_gfc_example. Qed.

(** The monitor's clauses about composite reads DO fire on observations that
    break them (it is not vacuously silent): read caching, parent 5 only in
    the fast backend, answered NOT_FOUND after asking the slow backend
    (clause 9); parent 3 only in the slow backend, served from there with the
    fast backend still empty afterwards (clause 10) - the two observations
    the real code produces when its composite read starts at the slow
    backend. *)
Example monitor_fires_on_bypassed_cache :
  mon17 (L [A 0; A 0; A 0; L [A 5]; L []; L [L [A 3; A 5; L []]]])
        (L [L [A 5; L []; L [L [A 1; A 3; L [A 5]; A 0]; L [A 1; A 0; L [A 5]; A 0]; L [A 0; A 1; L [A 5]; A 0]]; L [A 5]; L []; A 0]]) = [9]
  /\ mon17 (L [A 0; A 0; A 0; L []; L [A 3]; L [L [A 3; A 3; L []]]])
           (L [L [A 0; L []; L [L [A 1; A 3; L [A 3]; A 0]]; L []; L [A 3]; A 0]]) = [10].
Proof. vm_compute. split; reflexivity. Qed.

(** CONCURRENT case kind (2: deduplicating / concurrency-limiting / queued
    replicator under gated schedules).  The judge accepts a SET of
    observations: every model state reachable by running the lock-protected
    sections to quiescence in any order that shows the observed statuses,
    maxima and sink contents.  [mon_conc] is, clause group by clause group,
    [mon_conc_counts ++ mon_conc_success]:

    - clauses 21/22/23 (more concurrent copies per key than one / overall than
      the configured limit / than one) are silent on EVERY observation the
      judge accepts, for every input.  (Proof: every state the judge keeps is
      reachable in the transition system, Run/R17Proofs.v; the maxima the
      harness reports are bounded on every reachable state,
      Compose/MonSilentRepl.v, from the invariants behind
      [dedup_at_most_one_copy_per_key], [limit_at_most_k],
      [queued_at_most_one].)
    - clauses 24/25 (success without justification) are evaluated on the
      harness's event log (obs[4]).  The judge's agreement test does not read
      the log and the model has no counterpart of it, so "accepted => silent"
      is not a theorem for them: [monitor_domain_boundary] below gives an
      accepted observation with a made-up log on which clause 24 fires.  For
      these clauses the chain is closed only at the model level, by
      [success_justified] above (on the model's own history variables). *)
Theorem monitor_conc_is_counts_then_success : forall inp obs,
  mon_conc inp obs = if sx_eqb obs (L [A (-1)]) then [] else mon_conc_counts inp obs ++ mon_conc_success inp obs.
Proof. exact mon_conc_split. Qed.
Print Assumptions monitor_conc_is_counts_then_success.

(** Hypothesis-free form: [run_conc] is the agreement test [judge_conc] uses. *)
Theorem monitor_counts_silent_whenever_run_conc_accepts : forall inp obs,
  fst (run_conc inp obs) = true -> mon_conc_counts inp obs = [].
Proof. exact conc_counts_silent_run_conc. Qed.
Print Assumptions monitor_counts_silent_whenever_run_conc_accepts.

(** The same through [judge17]'s agreement bit ("kind = 2" only selects the
    branch of [judge17] in which that bit is [run_conc]'s). *)
Theorem monitor_silent_on_agreeing_observation_concurrent_counts : forall inp obs,
  sx_Z (sx_nth inp 0) = 2 -> agree17 inp obs = true -> mon_conc_counts inp obs = [].
Proof. exact conc_counts_silent_on_agreeing. Qed.
Print Assumptions monitor_silent_on_agreeing_observation_concurrent_counts.

(** The agreement test for kind 2 is a function of obs[0..3] (statuses per
    round, maxima, sink contents): the event log obs[4], on which the clauses
    24/25 are evaluated, is not constrained by it. *)
Theorem judge_agreement_ignores_event_log : forall inp o0 o1 o2 o3 lg lg',
  sx_Z (sx_nth inp 0) = 2 ->
  agree17 inp (L [o0; o1; o2; o3; lg]) = agree17 inp (L [o0; o1; o2; o3; lg']).
Proof. exact agreement_ignores_log. Qed.
Print Assumptions judge_agreement_ignores_event_log.

(** The bound behind it, for every trace of the transition system. *)
Theorem reported_maxima_bounded : forall m sets source sink tr s,
  run m (init_state sets source sink) tr = Some s ->
  match m with
  | MDedup => (maxkey s <= 1)%nat
  | MLimit k => (maxall s <= k)%nat
  | MQueued _ _ => (maxall s <= 1)%nat
  end.
Proof. exact Compose.MonSilentRepl.maxima_bounded. Qed.
Print Assumptions reported_maxima_bounded.

(** Domain boundary.  The sequential statement has no hypothesis.  The only
    hypothesis anywhere, "kind <> 2" in
    [monitor_silent_on_agreeing_observation_sequential], is necessary: a
    kind-2 input, an observation the judge accepts (no events, one caller not
    started) and a made-up log "caller 0 starts, caller 0 returns OK" - clause
    24 fires.  The harness derives the log from the real run and cannot
    produce this pair; the point is that agreement does not constrain the log.
    Also shown: an existence cache of size 0 (rejected by harness/c17.go, which
    demands 1..64) is inside the domain of the theorem - the model panics at
    the first recording and the monitor does not judge panics. *)
Example monitor_domain_boundary :
  (let inp := L [A 2; L [A 0]; L [L [A 0]]; L [A 0]; L []; L []] in
   let obs := L [L []; A 0; A 0; L []; L [L [A 0; A 0; A 0]; L [A 3; A 0; A 0; A 0]]] in
   agree17 inp obs = true /\ mon17 inp obs = [24] /\ mon_conc_counts inp obs = [])
  /\ (let inp := L [A 1; A 0; A 5; L [L [A 3; A 0]; L [A 0; L [A 0]; A 0; A 0; A 0]]] in
      run17 inp = L [A (-1)] /\ mon17 inp (run17 inp) = [])
  /\ (* [model_output_is_accepted] needs a kind in {0, 1, 3}: an unknown kind is
        never accepted, and kind 2 has only the placeholder output *)
     (agree17 (L [A 4]) (run17 (L [A 4])) = false
      /\ let inp := L [A 2; L [A 0]; L [L [A 0]]; L [A 0]; L []; L [L [A 0; A 0]]] in
         agree17 inp (run17 inp) = false).
Proof.
  refine (conj conc_success_clauses_not_determined_by_agreement (conj ec_size0_example _)).
  vm_compute. split; reflexivity.
Qed.

(** Non-vacuity for kind 2: two callers of the deduplicating replicator for
    the same object, the second waits while the first copies; the judge
    accepts the observation and no clause fires. *)
Example monitor_silent_example_concurrent :
  let inp := L [A 2; L [A 0]; L [L [A 0]; L [A 0]]; L [A 0]; L [];
                L [L [A 0; A 0]; L [A 0; A 1]; L [A 1; A 0; A 0]; L [A 1; A 0; A 0]; L [A 1; A 0; A 0]]] in
  let obs := L [L [L [L [A 1; A 0; A 2; L [A 0]]; L [A 0]];
                   L [L [A 1; A 0; A 2; L [A 0]]; L [A 2]];
                   L [L [A 1; A 1; A 0; L [A 0]]; L [A 2]];
                   L [L [A 1; A 0; A 1; L [A 0]]; L [A 2]];
                   L [L [A 3; A 0]; L [A 3; A 0]]];
                A 1; A 1; L [A 0]; L []] in
  agree17 inp obs = true /\ mon17 inp obs = [].
Proof. exact conc_example. Qed.

(** ** Clauses 24 / 25 (success reported only with justification) on the event
    log of EVERY trace of the model.

    The judge for kind 2 accepts an observation iff its statuses, maxima and
    sink are those of a state the model's transition system reaches; it does
    not read the event log (above).  The transition system has no log of its
    own; Compose/EventLog.v says which harness events a step emits ([tlog m s
    tr]: start; return of the backend call a caller is released from, with
    the backend's answer; arrival in the next backend call; the caller's own
    return), and Run/R17LogExamples.v checks on five schedules replayed on the
    real decorators that [tlog] of the corresponding trace IS the recorded log,
    event for event.  The theorems are by induction over ALL traces (any
    number of callers, any interleaving of the atomic steps, any faults,
    cancellations, clock advances): no hypothesis but "tr is a trace". *)
From BBS Require Import Compose.EventLog Run.R17LogBase Run.R17LogLimit Run.R17LogQueued Run.R17LogDedup
  Run.R17LogOrder Run.R17LogMon Run.R17LogExamples.

(** Clause 24, deduplicating replicator: a caller that returned OK has, for
    every object of its set, a justifying event (sink.FindMissing reporting it
    present / a successful sink.Put) by a caller whose next event comes after
    the asking caller's start. *)
Theorem clause24_silent_on_every_dedup_trace : forall sets source sink tr s,
  run MDedup (init_state sets source sink) tr = Some s ->
  clause24_ok sets (tlog MDedup (init_state sets source sink) tr).
Proof. exact dedup_clause24. Qed.
Print Assumptions clause24_silent_on_every_dedup_trace.

(** Clause 24, concurrency-limiting replicator. *)
Theorem clause24_silent_on_every_limit_trace : forall lim sets source sink tr s,
  run (MLimit lim) (init_state sets source sink) tr = Some s ->
  clause24_ok sets (tlog (MLimit lim) (init_state sets source sink) tr).
Proof. exact limit_clause24. Qed.
Print Assumptions clause24_silent_on_every_limit_trace.

(** Clause 25, queued replicator: for every object some caller put it into
    the sink and returned OK at a clock reading no more than [dur] before the
    asking caller's start. *)
Theorem clause25_silent_on_every_queued_trace : forall size dur sets source sink tr s,
  run (MQueued size dur) (init_state sets source sink) tr = Some s ->
  clause25_ok dur sets (tlog (MQueued size dur) (init_state sets source sink) tr).
Proof. exact queued_clause25. Qed.
Print Assumptions clause25_silent_on_every_queued_trace.

(** In the monitor's own terms: the success clauses of [mon_conc] on an
    observation whose log is the log of a trace (whatever its other fields). *)
Theorem monitor_success_clauses_silent_on_every_trace : forall inp m sets source sink evs o0 o1 o2 o3 tr s,
  conc_cfg inp = (m, sets, source, sink, evs) ->
  run m (init_state sets source sink) tr = Some s ->
  mon_conc_success inp (L [o0; o1; o2; o3; L (tlog m (init_state sets source sink) tr)]) = [].
Proof. exact conc_success_silent_on_trace. Qed.
Print Assumptions monitor_success_clauses_silent_on_every_trace.

(** The whole kind-2 monitor (21/22/23 and 24/25) on what the model shows
    along a trace: maxima and sink of the state reached, log of the trace. *)
Theorem monitor_conc_silent_on_every_trace : forall inp m sets source sink evs rounds tr s,
  conc_cfg inp = (m, sets, source, sink, evs) ->
  run m (init_state sets source sink) tr = Some s ->
  mon_conc inp (L [rounds; of_nat (maxkey s); of_nat (maxall s); of_nats (snk s);
                   L (tlog m (init_state sets source sink) tr)]) = [].
Proof. exact mon_conc_silent_on_trace. Qed.
Print Assumptions monitor_conc_silent_on_every_trace.

(** "Agree implies no violation", all clauses, kind 2: an observation the
    judge accepts, carrying the log of ANY trace of the model, is still
    accepted and raises no clause.  Together with
    [monitor_silent_on_agreeing_observation_sequential] (kinds 0, 1, 3) this
    covers every kind; the hypothesis on the log cannot be dropped
    ([monitor_domain_boundary]). *)
Theorem monitor_silent_on_agreeing_observation_concurrent_with_model_log :
  forall inp obs m sets source sink evs tr s,
  sx_Z (sx_nth inp 0) = 2 -> agree17 inp obs = true ->
  conc_cfg inp = (m, sets, source, sink, evs) ->
  run m (init_state sets source sink) tr = Some s ->
  let obs' := L [sx_nth obs 0; sx_nth obs 1; sx_nth obs 2; sx_nth obs 3; L (tlog m (init_state sets source sink) tr)] in
  agree17 inp obs' = true /\ mon17 inp obs' = [].
Proof. exact mon17_silent_on_accepted_with_model_log. Qed.
Print Assumptions monitor_silent_on_agreeing_observation_concurrent_with_model_log.

(** The order in which the log lines are written.  The model emits the events
    of one atomic step contiguously; the harness's goroutines write their own
    lines, so when one caller's lock-protected section wakes another, the
    lines the two write next may come in either order.  Start events are
    written by the scheduler at quiescent points - no line moves across one -
    and every caller's own lines keep their order.  [same_run lg lg']: the
    per-caller subsequences of lg' are those of lg; the start events of either
    are at the same positions in the other, with the same number of lines of
    every caller before them.  It is reflexive and transitive and contains
    every swap of two adjacent non-start lines of different callers, hence
    every sequence of such swaps; clauses 24 and 25 are invariant under it
    (24 via: "justified after st" holds iff some caller's m-th line justifies
    and that caller has at most m+1 lines up to position st). *)
Theorem same_run_is_a_preorder_containing_adjacent_swaps :
  (forall lg, same_run lg lg) /\
  (forall a b c, same_run a b -> same_run b c -> same_run a c) /\
  (forall l1 a b l2, lg_caller a <> lg_caller b -> is_start_ev a = false -> is_start_ev b = false ->
     same_run (l1 ++ a :: b :: l2) (l1 ++ b :: a :: l2)).
Proof. exact (conj same_run_refl (conj same_run_trans same_run_swap)). Qed.
Print Assumptions same_run_is_a_preorder_containing_adjacent_swaps.

Theorem clause24_invariant_under_write_order : forall sets lg lg',
  same_run lg lg' -> clause24_ok sets lg -> clause24_ok sets lg'.
Proof. exact clause24_same_run. Qed.
Print Assumptions clause24_invariant_under_write_order.

Theorem clause25_invariant_under_write_order : forall dur sets lg lg',
  same_run lg lg' -> clause25_ok dur sets lg -> clause25_ok dur sets lg'.
Proof. exact clause25_same_run. Qed.
Print Assumptions clause25_invariant_under_write_order.

(** "Agree implies no violation", all clauses, kind 2, for the log of any
    trace however the lines of a round were ordered. *)
Theorem monitor_silent_on_agreeing_observation_concurrent_any_write_order :
  forall inp obs m sets source sink evs tr s lg',
  sx_Z (sx_nth inp 0) = 2 -> agree17 inp obs = true ->
  conc_cfg inp = (m, sets, source, sink, evs) ->
  run m (init_state sets source sink) tr = Some s ->
  same_run (tlog m (init_state sets source sink) tr) lg' ->
  let obs' := L [sx_nth obs 0; sx_nth obs 1; sx_nth obs 2; sx_nth obs 3; L lg'] in
  agree17 inp obs' = true /\ mon17 inp obs' = [].
Proof. exact mon17_silent_on_accepted_any_write_order. Qed.
Print Assumptions monitor_silent_on_agreeing_observation_concurrent_any_write_order.

(** Instance: the waiter writes "caller 1 returns" before the leader writes
    "caller 0 returns". *)
Example waiter_writes_its_return_first :
  let tr := [EStart 0; ETau 0 false; EStart 1; ETau 1 false; ERel 0 0; ERel 0 0; ERel 0 0;
             ETau 0 false; ETau 0 false; ETau 1 false] in
  let lg := tlog MDedup (init_state [[0%nat]; [0%nat]] [0%nat] []) tr in
  let l1 := firstn 8 lg in
  let a := L [A 3; A 0; A 0; A 0] in
  let b := L [A 3; A 1; A 0; A 0] in
  lg = l1 ++ [a; b] /\ same_run lg (l1 ++ [b; a])
  /\ mon17 (L [A 2; L [A 0]; L [L [A 0]; L [A 0]]; L [A 0]; L []; L []]) (L [L []; A 1; A 1; L [A 0]; L (l1 ++ [b; a])]) = [].
Proof. exact dedup_waiter_writes_its_return_first. Qed.

(** Non-vacuity, and the tie of [tlog] to the real code: the log of the trace
    that follows the schedule is the log the harness recorded from the real
    deduplicating replicator (two callers, the waiter is told OK on the
    strength of the leader's copy); the monitor is silent on it.  Further
    instances (limiter with a queued caller, queued replicator answering from
    the existence cache after a clock advance, two keys with a failing Get,
    and the case "justified before the waiter started" that only the model
    can schedule) are in Run/R17LogExamples.v. *)
Example model_log_is_the_recorded_log :
  let tr := [EStart 0; ETau 0 false; EStart 1; ETau 1 false; ERel 0 0; ERel 0 0; ERel 0 0;
             ETau 0 false; ETau 0 false; ETau 1 false] in
  let lg := tlog MDedup (init_state [[0%nat]; [0%nat]] [0%nat] []) tr in
  lg = [L [A 0; A 0; A 0];
        L [A 1; A 0; A 0; A 2; L [A 0]; A 0];
        L [A 0; A 1; A 0];
        L [A 2; A 0; A 0; A 2; L [A 0]; A 0; L [A 0]; A 0];
        L [A 1; A 0; A 1; A 0; L [A 0]; A 0];
        L [A 2; A 0; A 1; A 0; L [A 0]; A 0; L []; A 0];
        L [A 1; A 0; A 0; A 1; L [A 0]; A 0];
        L [A 2; A 0; A 0; A 1; L [A 0]; A 0; L []; A 0];
        L [A 3; A 0; A 0; A 0];
        L [A 3; A 1; A 0; A 0]]
  /\ mon17 (L [A 2; L [A 0]; L [L [A 0]; L [A 0]]; L [A 0]; L []; L []]) (L [L []; A 1; A 1; L [A 0]; L lg]) = [].
Proof. exact dedup_log_is_the_recorded_log. Qed.

Example justified_before_the_waiter_started :
  let tr := [EStart 0; ETau 0 false; ERel 0 0; EStart 1; ETau 1 false; ETau 0 false; ETau 0 false; ETau 1 false] in
  let lg := tlog MDedup (init_state [[0%nat]; [0%nat]] [] [0%nat]) tr in
  map lg_kind lg = [0; 1; 2; 0; 3; 3]
  /\ map lg_caller lg = [0; 0; 0; 1; 0; 1]%nat
  /\ mon17 (L [A 2; L [A 0]; L [L [A 0]; L [A 0]]; L []; L [A 0]; L []]) (L [L []; A 0; A 0; L [A 0]; L lg]) = [].
Proof. exact dedup_justified_before_the_waiter_started. Qed.
