From BBS Require Import Common.Sx Run.R17.
