(** C13 — Completeness checking: an ActionResult is returned only if every CAS
    object it references exists.  Statements only; proofs are in
    Complete/CompletenessProofs.v and Complete/WireVisitProofs.v.

    [decorator_get batch maxmsg maxtree fm gets ac] is the model of
    completenessCheckingBlobAccess.Get: [fst = None] means the ActionResult is
    returned, [fst = Some c] an error with gRPC code c; [snd] holds the log of
    calls the CAS received.  [fm k batch] is the CAS's answer to the k-th
    FindMissing call (any function: presence may change from call to call, calls
    may fail), [nth j gets] what Get(tree of output directory j) delivered. *)
From BBS Require Import Common.Sx Complete.WireVisit Complete.WireVisitProofs Complete.Completeness
  Complete.CompletenessProofs Run.R13 Run.R13Proofs.

(** Result returned => every referenced digest (output files, stdout, stderr,
    tree and root-directory digests, every file inside the delivered trees, and
    every directory inside them when the root digest is given) was member of a
    FindMissing batch of this call whose answer did not contain it. *)
Theorem complete_only_if_all_present :
  forall batch maxmsg maxtree fm gets size ar q,
    decorator_get batch maxmsg maxtree fm gets (AcOk size ar) = (None, q) ->
    forall d, In d (referenced ar gets) ->
    exists k b m, In (CFm k b (FmMissing m)) (q_log q) /\ fm k b = FmMissing m /\ In d b /\ ~ In d m.
Proof. exact get_complete_only_if_all_present. Qed.
Print Assumptions complete_only_if_all_present.

(** A referenced object the CAS reports missing whenever asked: never the result... *)
Theorem incomplete_never_returned :
  forall batch maxmsg maxtree fm gets size ar d,
    In d (referenced ar gets) -> always_missing fm d ->
    fst (decorator_get batch maxmsg maxtree fm gets (AcOk size ar)) <> None.
Proof. exact get_incomplete_never_returned. Qed.
Print Assumptions incomplete_never_returned.

(** ... and the caller receives NOT_FOUND when nothing else is wrong (no CAS
    failure, trees read cleanly or are themselves absent, messages within the
    size limit). *)
Theorem incomplete_is_not_found :
  forall batch maxmsg maxtree fm gets size ar d,
    (size <= maxmsg)%Z ->
    (forall k b c, fm k b <> FmErr c) ->
    (forall i, benign maxmsg (nth i gets get_not_found)) ->
    In d (referenced ar gets) -> always_missing fm d ->
    fst (decorator_get batch maxmsg maxtree fm gets (AcOk size ar)) = Some code_not_found.
Proof. exact get_incomplete_is_not_found. Qed.
Print Assumptions incomplete_is_not_found.

(** A malformed digest in the ActionResult (or an absent tree digest): error, never the result. *)
Theorem malformed_is_error :
  forall batch maxmsg maxtree fm gets size ar,
    (Exists malformed (ar_files ar)
     \/ Exists (fun od => malformed (od_tree od) \/ malformed (od_root od) \/ od_tree od = None) (ar_dirs ar)
     \/ malformed (ar_stdout ar) \/ malformed (ar_stderr ar)) ->
    fst (decorator_get batch maxmsg maxtree fm gets (AcOk size ar)) <> None.
Proof. exact get_malformed_is_error. Qed.
Print Assumptions malformed_is_error.

(** The tree of output directory j is unreadable or corrupted (its visit does not
    end cleanly), or holds a malformed digest among the digests that are checked,
    or a Directory above the message size limit: error, never the result. *)
Theorem tree_error_is_error :
  forall batch maxmsg maxtree fm gets size ar j od,
    nth_error (ar_dirs ar) j = Some od ->
    bad_tget maxmsg od (nth j gets get_not_found) ->
    fst (decorator_get batch maxmsg maxtree fm gets (AcOk size ar)) <> None.
Proof. exact get_tree_error_is_error. Qed.
Print Assumptions tree_error_is_error.

Theorem tree_unreadable_is_error :
  forall batch maxmsg maxtree fm gets size ar j od,
    nth_error (ar_dirs ar) j = Some od ->
    (exists delivered c, nth j gets get_not_found = get_read_error delivered c
                         \/ nth j gets get_not_found = get_corrupted delivered c)
    \/ nth j gets get_not_found = get_not_found ->
    fst (decorator_get batch maxmsg maxtree fm gets (AcOk size ar)) <> None.
Proof. exact get_tree_unreadable_is_error. Qed.
Print Assumptions tree_unreadable_is_error.

(** Trees exceeding the configured total size: error, never the result. *)
Theorem tree_budget :
  forall batch maxmsg maxtree fm gets size ar,
    (ar_dirs ar <> [] \/ 0 <= maxtree)%Z ->
    (maxtree < tree_sizes (ar_dirs ar))%Z ->
    fst (decorator_get batch maxmsg maxtree fm gets (AcOk size ar)) <> None.
Proof. exact get_tree_budget. Qed.
Print Assumptions tree_budget.

(** Every FindMissing batch, in every run (successful or not), has at most
    [batch] elements, and the logged answer is the oracle's. *)
Theorem every_batch_bounded :
  forall batch maxmsg maxtree fm gets ac r q,
    (1 <= batch)%nat ->
    decorator_get batch maxmsg maxtree fm gets ac = (r, q) ->
    forall k b a, In (CFm k b a) (q_log q) -> (length b <= batch)%nat /\ a = fm k b.
Proof. exact get_every_batch_bounded. Qed.
Print Assumptions every_batch_bounded.

(** Non-vacuity: two output files, one output directory with root digest whose
    tree has a root (one file, one subdirectory) and a child (one file), stdout;
    batch size 2.  Everything present: returned after four batches (stdout = file 1 is asked about again
    after the first flush).  Object 6
    (the file in the child directory) missing: NOT_FOUND. *)
Definition ex_wd (i : nat) : odig := Some (mkWd true i 5).
Definition ex_ar : action_result :=
  mkAR [ex_wd 1; ex_wd 2] [mkOutDir (ex_wd 3) (ex_wd 4)] (ex_wd 1) None 7.
Definition ex_gets : list tget :=
  [get_ok [(mkDir [ex_wd 5] [ex_wd 7], 40); (mkDir [ex_wd 6] [], 20)]].

Example complete_example :
  decorator_get 2 100 100 (fun _ _ => FmMissing []) ex_gets (AcOk 50 ex_ar)
  = (None, mkQ [7; 6]%nat 4
       [CFm 3 [7; 6]%nat (FmMissing []); CFm 2 [1; 5]%nat (FmMissing []); CGet 0 3;
        CFm 1 [3; 4]%nat (FmMissing []); CFm 0 [1; 2]%nat (FmMissing [])])
  /\ referenced ex_ar ex_gets = [1; 2; 3; 4; 1; 5; 7; 6]%nat.
Proof. vm_compute. split; reflexivity. Qed.

Example incomplete_example :
  fst (decorator_get 2 100 100 (fun _ b => FmMissing (filter (Nat.eqb 6) b)) ex_gets (AcOk 50 ex_ar))
  = Some code_not_found.
Proof. vm_compute. reflexivity. Qed.

Example corrupted_example :
  fst (decorator_get 2 100 100 (fun _ _ => FmMissing [])
         [get_corrupted [(mkDir [ex_wd 5] [ex_wd 7], 40)] code_invalid] (AcOk 50 ex_ar))
  = Some code_internal.
Proof. vm_compute. reflexivity. Qed.

(** ---- The wire-level visitor util.VisitProtoBytesFields (byte level). *)

(** On a well-formed encoding (canonical varints, field numbers 1..2^31-1, fewer
    than 2^63 bytes) it visits exactly the top-level length-delimited fields, in
    order, with number, payload, payload offset and size, and succeeds. *)
Theorem wire_visit_spec : forall fs,
  Forall (fun f => wf_num (fst f)) fs ->
  (N.of_nat (length (encode_fields fs)) <= max_int64)%N ->
  wire_visit_all (encode_fields fs) None = (visits_of 0 fs, WOk).
Proof. exact wire_visit_wellformed. Qed.
Print Assumptions wire_visit_spec.

(** A message cut anywhere strictly inside a field (inside its tag, its length
    or its payload): the complete fields before it are visited and the visitor
    fails - never a silent short visit.  (A cut exactly between two fields is a
    well-formed shorter message; telling it apart is the CAS reader's size and
    checksum validation, which then ends the stream with a read error: next
    theorem.) *)
Theorem wire_visit_truncation_is_error : forall fs num p j,
  Forall (fun f => wf_num (fst f)) fs -> wf_num num ->
  (N.of_nat (length (encode_fields fs)) + N.of_nat (length p) <= max_int64)%N ->
  (0 < j < length (encode_field num p))%nat ->
  wire_visit_all (encode_fields fs ++ firstn j (encode_field num p)) None
  = (visits_of 0 fs, WErr code_invalid_argument).
Proof. exact wire_visit_truncated. Qed.
Print Assumptions wire_visit_truncation_is_error.

(** Whatever the bytes, a stream that ends in a read error is never visited
    successfully, and the model's fuel always suffices. *)
Theorem wire_visit_read_error_is_error : forall bs c, snd (wire_visit_all bs (Some c)) <> WOk.
Proof. exact wire_visit_all_read_error. Qed.
Print Assumptions wire_visit_read_error_is_error.

Theorem wire_visit_total : forall bs term, snd (wire_visit_all bs term) <> WFuel.
Proof. exact wire_visit_all_terminates. Qed.
Print Assumptions wire_visit_total.

Example wire_example :
  encode_fields [(1, [8; 1]); (2, []); (300, [7])]%N = [10; 2; 8; 1; 18; 0; 226; 18; 1; 7]%N
  /\ wire_visit_all [10; 2; 8; 1; 18; 0; 226; 18; 1; 7]%N None
     = ([mkVisit 1 2 2 [8; 1]; mkVisit 2 6 0 []; mkVisit 300 9 1 [7]]%N, WOk)
  /\ wire_visit_all [10; 2; 8; 1; 18; 0; 226; 18; 1]%N None
     = ([mkVisit 1 2 2 [8; 1]; mkVisit 2 6 0 []]%N, WErr 3)
  /\ wire_visit_all [10; 2; 8; 1; 18]%N (Some 13) = ([], WErr 13)
  /\ wire_visit_all [138; 128; 0; 128; 0]%N None = ([mkVisit 1 5 0 []]%N, WOk)
  /\ wire_visit_all [8; 1]%N None = ([], WErr 3)
  /\ wire_visit_all [10; 255; 255; 255; 255; 255; 255; 255; 255; 127]%N None = ([], WErr 3).
Proof. vm_compute. repeat split; reflexivity. Qed.

(** ---- The monitor used on implementation traces never fires on the model.

    [mon13] reads an observation [(code same calls env)]; the model predicts
    [code] and [calls] from the environment [env] ([run13 env]).  For every
    environment and every observation that the judge accepts as agreeing with
    the model, all six clauses of the monitor are silent.  [env_wf env] is
      - batch size >= 1,
      - maxtree >= 0 or at least one output directory,
      - for every Tree stream of [env]: whenever the model's byte-level visit of
        the delivered bytes succeeds, the harness's own parse of the same bytes
        (recorded in [env]) is flagged clean, and each root/children field it
        lists is found under its payload offset and is a field the visitor
        hands over ([stream_consistent]).
    harness/c13.go rejects batch < 1 and maxtree < 0 and computes [env] itself
    from the bytes the real CAS reader delivered; the examples below show that
    the monitor does fire on the model when one of the hypotheses is dropped. *)
Theorem monitor_silent_on_agreeing_observation : forall inp obs,
  env_wf (env_of obs) ->
  sx_eqb (run13 (env_of obs)) (L [sx_nth obs 0; sx_nth obs 2]) = true ->
  mon13 inp obs = [].
Proof. exact mon13_silent_on_agreeing. Qed.
Print Assumptions monitor_silent_on_agreeing_observation.

Theorem monitor_silent_on_model : forall inp env same,
  env_wf env -> mon13 inp (model_obs env same) = [].
Proof. exact mon13_silent_on_model. Qed.
Print Assumptions monitor_silent_on_model.

(** Each hypothesis is needed (environments the harness cannot produce):
    batch 0 -> clause 5; maxtree -1 without output directory -> clause 4; a
    stream flagged unclean although the visit succeeds -> clause 3; a listed
    field that is never visited, or listed twice under one offset -> clause 1. *)
Example monitor_domain_boundary :
  mon13 (L []) (model_obs (nec_env (L [A 0; A 100; A 100]) (L [L [A 1; A 1; A 5]]) (L []) (L []) (L [])) (A 1)) = [5]
  /\ mon13 (L []) (model_obs (nec_env (L [A 1; A 100; A (-1)]) (L []) (L []) (L []) (L [])) (A 1)) = [4]
  /\ mon13 (L []) (model_obs (nec_env (L [A 1; A 100; A 100]) (L []) (L [L [L [A 1; A 2; A 0]; L []]])
                                      (L [L [L []; A 0; L []; A 0]]) (L [])) (A 1)) = [3]
  /\ mon13 (L []) (model_obs (nec_env (L [A 1; A 100; A 100]) (L []) (L [L [L [A 1; A 2; A 0]; L []]])
                                      (L [L [L []; A 0; L [L [A 0; A 1; L [L [L [A 1; A 9; A 5]]; L []]]]; A 1]])
                                      (L [A 9])) (A 1)) = [1]
  /\ mon13 (L []) (model_obs (nec_env (L [A 1; A 100; A 100]) (L []) (L [L [L [A 1; A 2; A 2]; L []]])
                                      (L [L [L [A 10; A 0]; A 0;
                                             L [L [A 2; A 1; L [L []; L []]]; L [A 2; A 1; L [L [L [A 1; A 9; A 5]]; L []]]];
                                             A 1]])
                                      (L [A 9])) (A 1)) = [1].
Proof.
  exact (conj batch_needed (conj budget_needed (conj clean_needed (conj field_visited_needed field_lookup_needed)))).
Qed.

(** Non-vacuity: a well-formed environment with one Tree; the model returns the
    ActionResult after two FindMissing batches and one tree Get. *)
Example monitor_silent_example :
  env_wf ok_env
  /\ run13 ok_env = L [A 0; L [L [A 0; L [A 1; A 2]; A 0; L []]; L [A 1; A 2]; L [A 0; L [A 3; A 5]; A 0; L []]]].
Proof. exact (conj ok_env_wf ok_env_run). Qed.
