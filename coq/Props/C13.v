(** C13 — placeholder while the correspondence is brought up. *)
From BBS Require Import Common.Sx Complete.WireVisit Complete.Completeness Run.R13.
