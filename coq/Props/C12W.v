(** C12W — the wiring of the sharding backend: the backend reached is the one of
    the shard the selector chose.  The model is C12's selector; the monitor is
    silent on it for every configuration and digest list. *)
From Coq Require Import List ZArith NArith Bool Lia.
From BBS Require Import Common.Sx Common.SxFactsMA Sharding.Rendezvous Sharding.MonSilentSel Run.R12 Run.R12W.
Import ListNotations.

Theorem mon12W_silent_on_model : forall inp, mon12W inp (run12W inp) = [].
Proof.
  intros inp. unfold mon12W, run12W.
  destruct (new_selector (cfg_of (sx_nth inp 1))) as [sel|] eqn:Hs; [|reflexivity].
  set (obs := L (map (fun d => let i := get_shard sel (sx_N (sx_nth d 0)) in L [of_nat i; of_nat i; of_nat i; of_nat i])
                     (sx_list (sx_nth inp 2)))).
  assert (Hrej : is_reject obs = false).
  { unfold obs. destruct (sx_list (sx_nth inp 2)) as [|d [|d2 l]]; reflexivity. }
  rewrite Hrej.
  assert (HD : forall o, In o (sx_list obs) -> exists i, (i < length (sx_list (sx_nth inp 1)))%nat /\
                                                 o = L [of_nat i; of_nat i; of_nat i; of_nat i]).
  { intros o Ho. unfold obs in Ho. cbn [sx_list] in Ho.
    apply in_map_iff in Ho. destruct Ho as (d & <- & _).
    exists (get_shard sel (sx_N (sx_nth d 0))). split; [|reflexivity].
    pose proof (get_shard_in_range _ _ (sx_N (sx_nth d 0)) Hs) as Hr.
    unfold cfg_of in Hr. rewrite map_length in Hr. exact Hr. }
  assert (H6 : forallb (fun o => (Nat.eqb (sx_nat (sx_nth o 0)) (sx_nat (sx_nth o 1)) && Z.eqb (sx_Z (sx_nth o 0)) (sx_Z (sx_nth o 1)))
                       && Nat.ltb (sx_nat (sx_nth o 0)) (length (sx_list (sx_nth inp 1))) && Z.leb 0 (sx_Z (sx_nth o 0)))
             (sx_list obs) = true).
  { apply forallb_forall. intros o Ho. destruct (HD o Ho) as (i & Hi & ->).
    cbn [sx_nth sx_list nth]. rewrite !sx_nat_of_nat, Nat.eqb_refl, Z.eqb_refl. cbn [andb].
    apply andb_true_iff. split; [apply Nat.ltb_lt; exact Hi|].
    unfold of_nat. cbn [sx_Z]. apply Z.leb_le. lia. }
  assert (H7 : forallb (fun o => (Nat.eqb (sx_nat (sx_nth o 1)) (sx_nat (sx_nth o 2)) && Z.eqb (sx_Z (sx_nth o 1)) (sx_Z (sx_nth o 2)))
                       && (Nat.eqb (sx_nat (sx_nth o 1)) (sx_nat (sx_nth o 3)) && Z.eqb (sx_Z (sx_nth o 1)) (sx_Z (sx_nth o 3))))
             (sx_list obs) = true).
  { apply forallb_forall. intros o Ho. destruct (HD o Ho) as (i & Hi & ->).
    cbn [sx_nth sx_list nth]. rewrite !Nat.eqb_refl, !Z.eqb_refl. reflexivity. }
  cbv zeta. rewrite H6, H7. reflexivity.
Qed.
Print Assumptions mon12W_silent_on_model.

(** the model's expectation is C12's routing function: the shard reached for a
    digest is [get_shard] of its leading hash bytes over the configured set *)
Theorem wiring_model_is_the_selector : forall inp sel,
  new_selector (cfg_of (sx_nth inp 1)) = Some sel ->
  run12W inp = L (map (fun d => let i := get_shard sel (sx_N (sx_nth d 0)) in L [of_nat i; of_nat i; of_nat i; of_nat i])
                      (sx_list (sx_nth inp 2))).
Proof. intros inp sel H. unfold run12W. rewrite H. reflexivity. Qed.
Print Assumptions wiring_model_is_the_selector.
