(** C01S (sub-check of C01) — the sector-granular writer of the block-device backed
    block allocator.  Statements only; proofs are in Store/SectorWriterProofs.v. *)
From BBS Require Import Common.Sx Store.SectorWriter Run.R01S.

(** Non-vacuity: two writers sharing a sector (sector size 4), interleaved, both complete. *)
Example shared_sector_example :
  let c := {| c_sector := 4; c_spb := 2; c_base := 0 |} in
  option_map st_dev
    (run c (init_state (repeat 9%Z 8) new_block)
       [EAlloc 3; EAlloc 3; EWrite 1 [4;5]%Z; EWrite 0 [1;2;3]%Z; EWrite 1 [6]%Z; EFlush 1; EFlush 0])
  = Some [1;2;3;4;5;6;0;0]%Z.
Proof. vm_compute. reflexivity. Qed.
