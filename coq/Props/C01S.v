(** C01S (sub-check of C01) — the sector-granular writer of the block-device backed
    block allocator (HasSpace/Put, blockDeviceBackedBlockWriter.Write/flush, sharedSector,
    NewBlockAtLocation).  Statements only; proofs are in Store/SectorWriter*.v.

    The theorems quantify over every sector size >= 1, block size, device, initial cursor
    without shared sector (NewBlock / NewBlockAtLocation), and every event list accepted by
    [run]: allocations (guarded by HasSpace, as the store does), Write/flush/abandon steps
    of any writer in any interleaving. *)
From BBS Require Import Common.Sx Store.SectorWriter Store.SectorWriterProofs Store.SectorWriterSpec
  Store.SectorWriterCommute Store.SectorWriterInv Run.R01S.

(** Byte ranges handed out by successive allocations are in order and pairwise disjoint,
    start at or above the initial cursor, end within the block; HasSpace is exactly "fits". *)
Theorem allocations_disjoint : forall c dev b0 tr s,
  1 <= c_sector c -> cursor_wf c b0 ->
  run c (init_state dev b0) tr = Some s ->
  (forall i j ti tj, i < j -> nth_error (st_threads s) i = Some ti -> nth_error (st_threads s) j = Some tj ->
     t_start ti + t_size ti <= t_start tj) /\
  (forall i ti, nth_error (st_threads s) i = Some ti ->
     cpos c b0 <= t_start ti /\ t_start ti + t_size ti <= c_spb c * c_sector c) /\
  (forall b size, has_space c b size = true <-> cpos c b + size <= c_spb c * c_sector c).
Proof. exact allocations_disjoint_proof. Qed.
Print Assumptions allocations_disjoint.

(** NewBlockAtLocation(_, r): every later allocation starts at or above r, in fact at or
    above r rounded up to a sector boundary, so no sector holding restored data is rewritten
    (together with [writer_writes_only_own_sectors]). *)
Theorem restored_offset_rounds_up : forall c dev r tr s i ti,
  1 <= c_sector c ->
  run c (init_state dev (new_block_at c r)) tr = Some s ->
  nth_error (st_threads s) i = Some ti ->
  r <= t_start ti /\
  (exists m, cpos c (new_block_at c r) = m * c_sector c /\ m * c_sector c <= t_start ti).
Proof. exact restored_offset_rounds_up_proof. Qed.
Print Assumptions restored_offset_rounds_up.

(** Every device write of writer k lies within the sectors overlapping its byte range
    [t_start, t_start + t_size) (an empty range inside a sector counts as touching that sector). *)
Theorem writer_writes_only_own_sectors : forall c dev b0 tr s e s' log k t,
  1 <= c_sector c -> b_shared b0 = None ->
  run c (init_state dev b0) tr = Some s ->
  step c s e = Some (s', log) -> ev_thread e = Some k -> nth_error (st_threads s) k = Some t ->
  Forall (fun w => (c_base c + t_start t / c_sector c) * c_sector c <= fst w /\
                   fst w + length (snd w) <=
                   c_base c * c_sector c + (t_start t + t_size t + c_sector c - 1) / c_sector c * c_sector c) log.
Proof. exact writer_writes_only_own_sectors_proof. Qed.
Print Assumptions writer_writes_only_own_sectors.

(** Steps of two different writers that touch no common shared-sector image and whose device
    writes hit disjoint byte ranges commute (same final state, same device writes per step). *)
Theorem private_write_commutes : forall c s ea eb ka kb ta tb sa la sb lb,
  ev_thread ea = Some ka -> ev_thread eb = Some kb -> ka <> kb ->
  nth_error (st_threads s) ka = Some ta -> nth_error (st_threads s) kb = Some tb ->
  (forall i, In i (ids_of (t_w ta)) -> ~ In i (ids_of (t_w tb))) ->
  step c s ea = Some (sa, la) -> step c s eb = Some (sb, lb) ->
  disjoint_writes la lb ->
  exists sab, step c sa eb = Some (sab, lb) /\ step c sb ea = Some (sab, la).
Proof. exact private_write_commutes_gen. Qed.
Print Assumptions private_write_commutes.

(** Non-vacuity: two writers sharing a sector (sector size 4), interleaved, both complete;
    three writers in one sector, the middle one abandoned; a restored block. *)
Example shared_sector_example :
  let c := {| c_sector := 4; c_spb := 2; c_base := 0 |} in
  option_map st_dev
    (run c (init_state (repeat 9%Z 8) new_block)
       [EAlloc 3; EAlloc 3; EWrite 1 [4;5]%Z; EWrite 0 [1;2;3]%Z; EWrite 1 [6]%Z; EFlush 1; EFlush 0])
  = Some [1;2;3;4;5;6;0;0]%Z.
Proof. vm_compute. reflexivity. Qed.

Example abandoned_neighbour_example :
  let c := {| c_sector := 4; c_spb := 1; c_base := 1 |} in
  option_map st_dev
    (run c (init_state (repeat 9%Z 12) new_block)
       [EAlloc 1; EAlloc 1; EAlloc 2; EWrite 2 [7;8]%Z; EFlush 2; EAbandon 1; EWrite 0 [5]%Z; EFlush 0])
  = Some [9;9;9;9; 5;0;7;8; 9;9;9;9]%Z.
Proof. vm_compute. reflexivity. Qed.

Example restored_example :
  let c := {| c_sector := 4; c_spb := 3; c_base := 0 |} in
  option_map (fun s => (st_dev s, map t_start (st_threads s)))
    (run c (init_state (repeat 9%Z 12) (new_block_at c 5)) [EAlloc 2; EWrite 0 [1;2]%Z; EFlush 0])
  = Some ([9;9;9;9; 9;9;9;9; 1;2;0;0]%Z, [8]).
Proof. vm_compute. reflexivity. Qed.
