(** C01S (sub-check of C01) — the sector-granular writer of the block-device backed
    block allocator (HasSpace/Put, blockDeviceBackedBlockWriter.Write/flush, sharedSector,
    NewBlockAtLocation).  Statements only; proofs are in Store/SectorWriter*.v.

    The theorems quantify over every sector size >= 1, block size, device, initial cursor
    without shared sector (NewBlock / NewBlockAtLocation), and every event list accepted by
    [run]: allocations (guarded by HasSpace, as the store does), Write/flush/abandon steps
    of any writer in any interleaving. *)
From BBS Require Import Common.Sx Store.SectorWriter Store.SectorWriterProofs Store.SectorWriterSpec
  Store.SectorWriterCommute Store.SectorWriterInv Store.SectorWriterAccum Store.SectorWriterCommute2
  Store.SectorWriterDevice Run.R01S Run.R01SMonBase Run.R01SMonInv Run.R01SMon.

(** Byte ranges handed out by successive allocations are in order and pairwise disjoint,
    start at or above the initial cursor, end within the block; HasSpace is exactly "fits". *)
Theorem allocations_disjoint : forall c dev b0 tr s,
  1 <= c_sector c -> cursor_wf c b0 ->
  run c (init_state dev b0) tr = Some s ->
  (forall i j ti tj, i < j -> nth_error (st_threads s) i = Some ti -> nth_error (st_threads s) j = Some tj ->
     t_start ti + t_size ti <= t_start tj) /\
  (forall i ti, nth_error (st_threads s) i = Some ti ->
     cpos c b0 <= t_start ti /\ t_start ti + t_size ti <= c_spb c * c_sector c) /\
  (forall b size, has_space c b size = true <-> cpos c b + size <= c_spb c * c_sector c).
Proof. exact allocations_disjoint_proof. Qed.
Print Assumptions allocations_disjoint.

(** NewBlockAtLocation(_, r): every later allocation starts at or above r, in fact at or
    above r rounded up to a sector boundary, so no sector holding restored data is rewritten
    (together with [writer_writes_only_own_sectors]). *)
Theorem restored_offset_rounds_up : forall c dev r tr s i ti,
  1 <= c_sector c ->
  run c (init_state dev (new_block_at c r)) tr = Some s ->
  nth_error (st_threads s) i = Some ti ->
  r <= t_start ti /\
  (exists m, cpos c (new_block_at c r) = m * c_sector c /\ m * c_sector c <= t_start ti).
Proof. exact restored_offset_rounds_up_proof. Qed.
Print Assumptions restored_offset_rounds_up.

(** Every device write of writer k lies within the sectors overlapping its byte range
    [t_start, t_start + t_size) (an empty range inside a sector counts as touching that sector). *)
Theorem writer_writes_only_own_sectors : forall c dev b0 tr s e s' log k t,
  1 <= c_sector c -> b_shared b0 = None ->
  run c (init_state dev b0) tr = Some s ->
  step c s e = Some (s', log) -> ev_thread e = Some k -> nth_error (st_threads s) k = Some t ->
  Forall (fun w => (c_base c + t_start t / c_sector c) * c_sector c <= fst w /\
                   fst w + length (snd w) <=
                   c_base c * c_sector c + (t_start t + t_size t + c_sector c - 1) / c_sector c * c_sector c) log.
Proof. exact writer_writes_only_own_sectors_proof. Qed.
Print Assumptions writer_writes_only_own_sectors.

(** Steps of two different writers that touch no common shared-sector image and whose device
    writes hit disjoint byte ranges commute (same final state, same device writes per step). *)
Theorem private_write_commutes : forall c s ea eb ka kb ta tb sa la sb lb,
  ev_thread ea = Some ka -> ev_thread eb = Some kb -> ka <> kb ->
  nth_error (st_threads s) ka = Some ta -> nth_error (st_threads s) kb = Some tb ->
  (forall i, In i (ids_of (t_w ta)) -> ~ In i (ids_of (t_w tb))) ->
  step c s ea = Some (sa, la) -> step c s eb = Some (sb, lb) ->
  disjoint_writes la lb ->
  exists sab, step c sa eb = Some (sab, lb) /\ step c sb ea = Some (sab, la).
Proof. exact private_write_commutes_gen. Qed.
Print Assumptions private_write_commutes.

(** In particular: steps of two different writers whose sector spans (the sectors overlapping
    their byte ranges) are disjoint commute, in every reachable state. *)
Theorem private_write_commutes_disjoint_sectors : forall c dev b0 tr s ea eb ka kb ta tb sa la sb lb,
  1 <= c_sector c -> b_shared b0 = None -> run c (init_state dev b0) tr = Some s ->
  ev_thread ea = Some ka -> ev_thread eb = Some kb -> ka <> kb ->
  nth_error (st_threads s) ka = Some ta -> nth_error (st_threads s) kb = Some tb ->
  (span_hi c ta <= span_lo c tb \/ span_hi c tb <= span_lo c ta) ->
  step c s ea = Some (sa, la) -> step c s eb = Some (sb, lb) ->
  exists sab, step c sa eb = Some (sab, lb) /\ step c sb ea = Some (sab, la).
Proof. exact private_write_commutes_spans. Qed.
Print Assumptions private_write_commutes_disjoint_sectors.

(** A shared-sector image contains, for every writer touching that sector, the bytes it has
    copied so far ([copied]: bytes of its first, shared sector as soon as they were passed to
    Write; bytes of its last sector once it has flushed) — whatever the other writers of that
    sector did in between.  Since [flush] and the completion of the first sector write the image
    itself ([flush_writes_image], [write_first_writes_image]), every device write of a shared
    sector re-writes all bytes of the writers that already flushed. *)
Theorem shared_sector_accumulates : forall c dev b0 tr s,
  1 <= c_sector c -> b_shared b0 = None ->
  run c (init_state dev b0) tr = Some s ->
  forall id j t pos, id < length (st_images s) -> nth_error (st_threads s) j = Some t ->
    t_start t <= pos < t_start t + t_size t ->
    pos / c_sector c = im_sec (nth id (st_images s) dimg) ->
    copied c t pos ->
    nth (pos mod c_sector c) (img_data (st_images s) id) 0%Z = nth (pos - t_start t) (t_data t) 0%Z.
Proof. exact shared_sector_accumulates_proof. Qed.
Print Assumptions shared_sector_accumulates.

Theorem shared_sector_writes_carry_image :
  (forall c images w id, w_last w = Some id -> id < length images ->
     snd (flush c images w) =
     [(w_off w * length (img_data (fst (flush c images w)) id), img_data (fst (flush c images w)) id)]) /\
  (forall c images w p id,
     w_first w = Some id -> id < length images -> length (img_data images id) = c_sector c ->
     w_firstoff w < c_sector c -> c_sector c <= w_firstoff w + length p ->
     exists rest, snd (write c images w p) =
       (w_off w * c_sector c, img_data (fst (fst (write c images w p))) id) :: rest).
Proof. split; [exact flush_writes_image|exact write_first_writes_image]. Qed.
Print Assumptions shared_sector_writes_carry_image.

(** Ingredient: every byte of a flushed writer that lies in its shared first sector or in its
    last sector is in the image of that sector, in every later state. *)
Theorem completed_writer_data_in_images : forall c dev b0 tr s id k t pos,
  1 <= c_sector c -> b_shared b0 = None ->
  run c (init_state dev b0) tr = Some s ->
  nth_error (st_threads s) k = Some t -> t_status t = Flushed ->
  id < length (st_images s) -> t_start t <= pos < t_start t + t_size t ->
  pos / c_sector c = im_sec (nth id (st_images s) dimg) ->
  (pos / c_sector c = t_start t / c_sector c /\ t_first0 t <> None \/
   pos / c_sector c = (t_start t + t_size t) / c_sector c) ->
  nth (pos mod c_sector c) (img_data (st_images s) id) 0%Z = nth (pos - t_start t) (t_data t) 0%Z.
Proof. exact completed_in_images_full. Qed.
Print Assumptions completed_writer_data_in_images.

(** The property itself.  Once writer k has been given all [t_size] bytes of its allocation
    and has flushed (the guard of [EFlush]), the device bytes of its byte range equal its data.
    [tr] is an arbitrary accepted event list, so the state [s] is any state after the flush:
    the statement includes every continuation by other writers — active ones, abandoned ones,
    and ones allocated later that start in the same sector.  (The device must contain the
    block: [WriteAt] is modelled for in-range writes only.) *)
Theorem completed_writer_data_on_device : forall c dev b0 tr s k t,
  1 <= c_sector c -> b_shared b0 = None ->
  (c_base c + c_spb c) * c_sector c <= length dev ->
  run c (init_state dev b0) tr = Some s ->
  nth_error (st_threads s) k = Some t -> t_status t = Flushed ->
  forall i, i < t_size t ->
    nth (c_base c * c_sector c + t_start t + i) (st_dev s) 0%Z = nth i (t_data t) 0%Z.
Proof. exact completed_writer_data_on_device_proof. Qed.
Print Assumptions completed_writer_data_on_device.

(** The continuation made explicit: from any reachable state in which writer k is flushed, any
    further event list leaves writer k's record untouched and every device byte of its range
    unchanged (and equal to its data). *)
Theorem completed_writer_data_stays_on_device : forall c dev b0 tr s k t tr2 s2,
  1 <= c_sector c -> b_shared b0 = None ->
  (c_base c + c_spb c) * c_sector c <= length dev ->
  run c (init_state dev b0) tr = Some s ->
  nth_error (st_threads s) k = Some t -> t_status t = Flushed ->
  run c s tr2 = Some s2 ->
  nth_error (st_threads s2) k = Some t /\
  forall i, i < t_size t ->
    nth (c_base c * c_sector c + t_start t + i) (st_dev s2) 0%Z = nth i (t_data t) 0%Z /\
    nth (c_base c * c_sector c + t_start t + i) (st_dev s2) 0%Z =
    nth (c_base c * c_sector c + t_start t + i) (st_dev s) 0%Z.
Proof. exact completed_writer_data_stays_on_device_proof. Qed.
Print Assumptions completed_writer_data_stays_on_device.

(** a flushed writer has been given all its bytes (so "its data" above is all of it) *)
Theorem flushed_writer_has_all_bytes : forall c dev b0 tr s k t,
  run c (init_state dev b0) tr = Some s ->
  nth_error (st_threads s) k = Some t -> t_status t = Flushed -> length (t_data t) = t_size t.
Proof. exact flushed_writer_has_all_bytes_proof. Qed.
Print Assumptions flushed_writer_has_all_bytes.

(** Non-vacuity: two writers sharing a sector (sector size 4), interleaved, both complete;
    three writers in one sector, the middle one abandoned; a restored block. *)
Example shared_sector_example :
  let c := {| c_sector := 4; c_spb := 2; c_base := 0 |} in
  option_map st_dev
    (run c (init_state (repeat 9%Z 8) new_block)
       [EAlloc 3; EAlloc 3; EWrite 1 [4;5]%Z; EWrite 0 [1;2;3]%Z; EWrite 1 [6]%Z; EFlush 1; EFlush 0])
  = Some [1;2;3;4;5;6;0;0]%Z.
Proof. vm_compute. reflexivity. Qed.

Example abandoned_neighbour_example :
  let c := {| c_sector := 4; c_spb := 1; c_base := 1 |} in
  option_map st_dev
    (run c (init_state (repeat 9%Z 12) new_block)
       [EAlloc 1; EAlloc 1; EAlloc 2; EWrite 2 [7;8]%Z; EFlush 2; EAbandon 1; EWrite 0 [5]%Z; EFlush 0])
  = Some [9;9;9;9; 5;0;7;8; 9;9;9;9]%Z.
Proof. vm_compute. reflexivity. Qed.

Example restored_example :
  let c := {| c_sector := 4; c_spb := 3; c_base := 0 |} in
  option_map (fun s => (st_dev s, map t_start (st_threads s)))
    (run c (init_state (repeat 9%Z 12) (new_block_at c 5)) [EAlloc 2; EWrite 0 [1;2]%Z; EFlush 0])
  = Some ([9;9;9;9; 9;9;9;9; 1;2;0;0]%Z, [8]).
Proof. vm_compute. reflexivity. Qed.

(** a writer allocated AFTER writer 0 has flushed starts in writer 0's last sector and
    completes that sector: writer 0's bytes are re-written from the shared image *)
Example late_neighbour_example :
  let c := {| c_sector := 4; c_spb := 2; c_base := 0 |} in
  option_map st_dev
    (run c (init_state (repeat 9%Z 8) new_block)
       [EAlloc 3; EWrite 0 [1;2;3]%Z; EFlush 0; EAlloc 3; EWrite 1 [4;5]%Z; EWrite 1 [6]%Z; EFlush 1])
  = Some [1;2;3;4;5;6;0;0]%Z.
Proof. vm_compute. reflexivity. Qed.

(** The monitor is silent on the model's own run: for EVERY input whose sector size is >= 1
    (the only domain restriction; the harness accepts sector sizes 1..64 only), none of the
    monitor's five clauses fires on [run01S inp].  So the model satisfies the property as the
    monitor states it, and the monitor cannot raise a false alarm on an implementation whose
    observation agrees with the model.  Proof: induction over the event list with a joint
    invariant of the sector-writer state, the validating chunk readers and the monitor's
    bookkeeping (Run/R01SMon*.v), on top of the theorems above. *)
Theorem mon01S_silent_on_model : forall inp, dom01S inp = true -> mon01S inp (run01S inp) = [].
Proof. exact mon01S_silent_on_model_proof. Qed.
Print Assumptions mon01S_silent_on_model.

(** the domain, spelled out *)
Theorem dom01S_spec : forall inp, dom01S inp = true <-> 1 <= sx_nat (sx_nth inp 0).
Proof. exact dom01S_spec_proof. Qed.
Print Assumptions dom01S_spec.

(** clause by clause (clause numbers as in Run/R01S.v) *)
Theorem mon01S_clauses_silent_on_model : forall inp, dom01S inp = true ->
  ~ In 1%Z (mon01S inp (run01S inp)) /\ ~ In 2%Z (mon01S inp (run01S inp)) /\
  ~ In 3%Z (mon01S inp (run01S inp)) /\ ~ In 4%Z (mon01S inp (run01S inp)) /\
  ~ In 5%Z (mon01S inp (run01S inp)).
Proof. exact mon01S_clauses_silent_on_model_proof. Qed.
Print Assumptions mon01S_clauses_silent_on_model.

(** Non-vacuity: an input in the domain — restored block, three writers in flight, two of them
    sharing a sector and completing out of order, one abandoned, events on dead and unknown
    writers — on which the monitor is silent and the block holds the data; and necessity of the
    domain: with sector size 0 clause 5 fires on the model's run. *)
Example dom01S_nonvacuous :
  dom01S Ex.good = true /\ mon01S Ex.good (run01S Ex.good) = [] /\
  sx_nth (run01S Ex.good) 1 = of_Zs ([9;9;9;9;9;9;9;9;9;9;9;9] ++ [9;9;9;9;1;2;3;4;5;6;0;0] ++ [9;9;9;9;9;9;9;9;9;9;9;9])%Z.
Proof. exact dom01S_example. Qed.

Example dom01S_is_needed :
  let bad := Ex.inp 0 2 3 7 [Ex.al 0] in
  dom01S bad = false /\ mon01S bad (run01S bad) = [5%Z].
Proof. exact dom01S_needed. Qed.
