(** C08Q — the quarantine arithmetic of OldCurrentNewLocationBlobMap under
    interleaving (sub-check of C08).

    Model: Store/Quarantine.v — the counters totalBlocksReleased /
    totalBlocksToBeReleased, the block list, the old/current/new bookkeeping and
    the sub-steps of findBlockWithSpace()/Put() as atomic steps of the Put
    thread, interleaved at EVERY step with integrity callbacks of readers
    obtained earlier (a callback raises the boundary to its block's absolute
    index + 1 without holding the lock).  Every theorem quantifies over every
    configuration and every event list [es] (Put-thread steps, Put() entered /
    left, readers handed out, callbacks) from the constructor's state
    [init_of c] for ANY initialBlocksCount [q_init c] (restored blocks are
    promoted to "new" / "current" as the growth policy allows, the "old" ones
    above desiredOldBlocksCount are quarantined by the constructor); proofs by
    induction over [es] in Store/QuarantineProofs.v, Run/R08QProofs.v.
    [wf0 c]: 0 <= desiredOldBlocksCount (with a negative count the constructor
    asks for the release of more blocks than exist).

    C08: "from that moment no object stored in the same or an older block is
    returned or reported present, while objects in newer blocks are unaffected". *)
From Coq Require Import List ZArith Bool Lia.
From BBS Require Import Common.Sx Store.Quarantine Store.QuarantineProofs Store.CasMax Run.R08Q Run.R08QProofs Store.QFuel.
Import ListNotations.
Open Scope Z_scope.

(** The boundary never lags behind the release counter (except in the one step
    between a rotation's popFront() and its raise, inside the write lock), never
    exceeds what ordinary rotation and the detections so far justify, and
    honours every detection:  released <= toBeReleased <= max(released, highest
    boundary a detection asked for) and that highest boundary <= toBeReleased. *)
Theorem boundary_justified : forall c es,
  wf0 c ->
  let st := run_evs c (init_of c) es in
  rel st <= tbr st + (if is_raise (pcs st) then 1 else 0)
  /\ tbr st <= Z.max (rel st) (maxdet st) /\ maxdet st <= tbr st.
Proof. exact boundary_justified_reach. Qed.
Print Assumptions boundary_justified.

(** A live block newer than every detected block is never hidden: its
    locations stay valid (BlockReferenceToBlockIndex resolves block index i). *)
Theorem newer_blocks_never_hidden : forall c es i,
  wf0 c ->
  let st := run_evs c (init_of c) es in
  is_raise (pcs st) = false -> 0 <= i -> maxdet st <= rel st + i -> hidden st i = false.
Proof. exact newer_never_hidden_reach. Qed.
Print Assumptions newer_blocks_never_hidden.

(** A detected block and all older ones become invisible with the callback and
    stay invisible whatever happens afterwards. *)
Theorem detected_and_older_hidden_at_once : forall c es r rd es' i,
  wf0 c ->
  let st := run_evs c (init_of c) es in
  nth_error (rdrs st) r = Some rd -> r_open rd = true -> r_bad rd = true ->
  let st' := run_evs c (detect st r) es' in
  r_tgt rd <= tbr st' /\ (rel st' + i < r_tgt rd -> hidden st' i = true).
Proof. exact detected_hidden_at_once_reach. Qed.
Print Assumptions detected_and_older_hidden_at_once.

(** ... and are released by the next Put(): whatever was quarantined when a
    Put() is entered has been popped when that Put() hands out its writer,
    whichever callbacks run in between. *)
Theorem quarantined_released_by_next_put : forall c es sz es' idx,
  wf0 c ->
  let st := run_evs c (init_of c) es in
  pcs st = Idle ->
  let st' := run_evs c (start st sz) es' in
  pcs st' = PDone 0 idx -> tbr st <= rel st'.
Proof. exact released_by_next_put_reach. Qed.
Print Assumptions quarantined_released_by_next_put.

(** No block is released before its time: a Put-thread step that pops a block
    pops exactly one, and either a quarantined one (absolute index below a
    detection's boundary) or — ordinary rotation — the oldest block of a list
    that is above its configured capacity old+current+new. *)
Theorem release_justified : forall c es,
  wfq c ->
  let st := run_evs c (init_of c) es in
  rel (put_step c st) <> rel st ->
  rel (put_step c st) = rel st + 1
  /\ (rel st < maxdet st \/ (exists sz, pcs st = PPop sz) /\ capq c + 1 <= live st).
Proof. exact release_justified_reach. Qed.
Print Assumptions release_justified.

(** The catch-up loop never pops an empty block list (no Go panic there). *)
Theorem catch_up_never_pops_empty_list : forall c es sz snap,
  wf0 c ->
  let st := run_evs c (init_of c) es in
  pcs st = PCatch sz snap -> rel st < snap -> blocks st <> [].
Proof. exact catch_up_has_blocks_reach. Qed.
Print Assumptions catch_up_never_pops_empty_list.

(** Without restored blocks the constructor's state is the empty one. *)
Theorem no_initial_blocks_is_the_empty_state : forall c,
  q_init c <= 0 -> wf0 c -> init_of c = init.
Proof. exact init_of_0. Qed.
Print Assumptions no_initial_blocks_is_the_empty_state.

(** FUEL.  The final allocation loop of findBlockWithSpace ([alloc_loop], fuel
    new + 2) never runs out of fuel, and no Put() ends with the out-of-fuel
    code -1: every configuration with 0 <= old, 0 <= current, 1 <= new, any
    initialBlocksCount, every interleaving (Store/QFuel.v). *)
Theorem final_allocation_loop_fuel_suffices : forall c es,
  wfq c ->
  let st := run_evs c (init_of c) es in
  (forall sz, pcs st = PAlloc sz -> snd (alloc_loop (alloc_fuel st) c st sz) <> -1)
  /\ (forall code idx, pcs st = PDone code idx -> code <> -1).
Proof. exact alloc_fuel_suffices_reach. Qed.
Print Assumptions final_allocation_loop_fuel_suffices.

(** The fuel [put_fuel] the run function gives a whole Put() (catch-up loop,
    grow loop, rotation loop, final loop, callbacks at every block-list call)
    suffices: no observation of the model carries the code -1, for every
    schedule whose upload sizes fit a fresh block or exceed the block size
    ([sizes_ok]: sz <= blockSize - q_pb or blockSize < sz; the harness generates
    and accepts only such sizes).  The monitor's exemption for code -1 is
    therefore never used on the model. *)
Theorem put_fuel_suffices : forall inp,
  wfq (inp_cfg inp) -> sizes_ok (inp_cfg inp) (inp_ops inp) = true ->
  Forall not_out_of_fuel (run_ops (inp_cfg inp) (init_of (inp_cfg inp)) (inp_ops inp)).
Proof. intros inp. exact (put_fuel_suffices_all (inp_cfg inp) (inp_ops inp)). Qed.
Print Assumptions put_fuel_suffices.

(** ... and the hypothesis on sizes is needed: block size 8, probes 2, an upload
    of 7 bytes fits no fresh block but passes the size filter; the rotation loop
    of the real code never ends, the model runs out of fuel. *)
Example ex_size_hypothesis_needed :
  let inp := L [L [A 8; A 1; A 1; A 1; A 1; A 2]; L [L [A 0; A 7; L []]]] in
  wfq (inp_cfg inp) /\ sizes_ok (inp_cfg inp) (inp_ops inp) = false
  /\ match run_ops (inp_cfg inp) (init_of (inp_cfg inp)) (inp_ops inp) with
     | [BPut code _ _ _] => code = -1
     | _ => False
     end.
Proof. cbv zeta. split; [unfold wfq; cbn; lia|]. split; vm_compute; reflexivity. Qed.

(** The monitor of Run/R08Q.v is silent on the model's own observations, for
    every configuration with 0 <= old, 0 <= current, 1 <= new, any
    initialBlocksCount and every schedule (callbacks at every block-list call
    of every Put()). *)
Theorem mon08Q_silent_on_model : forall inp,
  wfq (inp_cfg inp) -> mon08Q inp (run08Q inp) = [].
Proof. exact mon08Q_silent_on_model_all. Qed.
Print Assumptions mon08Q_silent_on_model.

(** The model's callback step "boundary := max boundary target" abstracts the
    compare-and-swap loop of increaseTotalBlocksToBeReleased.  At the granularity
    of its Load / CompareAndSwap operations (Store/CasMax.v), for ANY number of
    concurrent calls and EVERY interleaving [es] (spawn a call / one atomic
    operation of call i): the variable never decreases, stays within the largest
    value asked for, equals the start value plus the amounts returned (what the
    error logger reports), and a call that has returned has its value in place
    for ever. *)
Theorem cas_loop_is_atomic_maximum : forall v0 es,
  let s := crun v0 es in
  v0 <= c_v s <= max_new v0 (c_ths s)
  /\ c_v s = v0 + sum_ret (c_ths s)
  /\ (forall i t r, nth_error (c_ths s) i = Some t -> c_pc t = CRet r ->
        0 <= r /\ forall es', c_new t <= c_v (fold_left cstep es' s))
  /\ (forall es', c_v s <= c_v (fold_left cstep es' s)).
Proof. exact cas_loop_is_atomic_maximum_all. Qed.
Print Assumptions cas_loop_is_atomic_maximum.

(** Two calls racing (5 then 3 asked for, the loser of the CompareAndSwap
    retries): both return, the variable holds the maximum. *)
Example ex_cas_race :
  let s := crun 1 [CSpawn 5; CSpawn 3; CStep 0; CStep 1; CStep 1; CStep 0; CStep 0; CStep 0; CStep 1] in
  c_v s = 5 /\ map c_pc (c_ths s) = [CRet 2; CRet 2].
Proof. vm_compute. split; reflexivity. Qed.

(** Non-vacuity.  2 old / 2 current / 1 new (mutable policy), block size 32,
    every upload fills a block; a reader is obtained on block 2 of 5, its read
    fails while the next Put() is between its PushBack and its rotation
    PopFront (hook 0): three blocks are hidden at once, the two newer blocks
    stay visible, the upload is accepted and its finalizer succeeds, and the
    following Put() releases the quarantined blocks first. *)
Definition ex_cfg : sx := L [A 32; A 2; A 2; A 1; A 1; A 2].
Definition ex_put (hooks : list sx) : sx := L [A 0; A 30; L hooks].
Definition ex_inp : sx :=
  L [ex_cfg; L [ex_put []; ex_put []; ex_put []; ex_put []; ex_put []; ex_put [];
                L [A 1; A 2; A 1];
                ex_put [L [A 0]; L []];
                L [A 3; A 6];
                ex_put []]].

Example ex_wf : wfq (inp_cfg ex_inp).
Proof. unfold wfq. cbn. lia. Qed.

Example ex_sizes : sizes_ok (inp_cfg ex_inp) (inp_ops ex_inp) = true.
Proof. vm_compute. reflexivity. Qed.

Example ex_run :
  run08Q ex_inp =
  L [ L [A 0; A 0; A 0; L [L [A 1; L []; L []]]; L [A 1]];
      L [A 0; A 0; A 1; L [L [A 1; L []; L [A 1]]]; L [A 1; A 1]];
      L [A 0; A 0; A 2; L [L [A 1; L []; L [A 1; A 1]]]; L [A 1; A 1; A 1]];
      L [A 0; A 0; A 3; L [L [A 1; L []; L [A 1; A 1; A 1]]]; L [A 1; A 1; A 1; A 1]];
      L [A 0; A 0; A 4; L [L [A 1; L []; L [A 1; A 1; A 1; A 1]]]; L [A 1; A 1; A 1; A 1; A 1]];
      L [A 0; A 0; A 4; L [L [A 1; L []; L [A 1; A 1; A 1; A 1; A 1]];
                           L [A 0; L []; L [A 1; A 1; A 1; A 1; A 1; A 1]]];
         L [A 1; A 1; A 1; A 1; A 1]];
      L [A 1; A 1; L [A 1; A 1; A 1; A 1; A 1]];
      L [A 0; A 0; A 4; L [L [A 1; L [L [A 13; A 3]]; L [A 0; A 0; A 0; A 1; A 1]];
                           L [A 0; L []; L [A 0; A 0; A 0; A 1; A 1; A 1]]];
         L [A 0; A 0; A 1; A 1; A 1]];
      L [A 3; A 0; A 4; L [A 0; A 0; A 1; A 1; A 1]];
      L [A 0; A 0; A 3; L [L [A 0; L []; L [A 0; A 0; A 1; A 1; A 1]];
                           L [A 0; L []; L [A 0; A 1; A 1; A 1]];
                           L [A 1; L []; L [A 1; A 1; A 1]]];
         L [A 1; A 1; A 1; A 1]] ].
Proof. vm_compute. reflexivity. Qed.

(** The monitor is not vacuous: had the boundary moved one block too far during
    that Put() (what "totalBlocksToBeReleased.Add(1)" in the rotation does), the
    newer block 3 would be invisible afterwards — clause 1 fires. *)
Example ex_monitor_fires :
  mon08Q (L [ex_cfg; L [ex_put []; ex_put []; ex_put []; ex_put []; ex_put []; ex_put [];
                         L [A 1; A 2; A 1]; ex_put [L [A 0]; L []]]])
    (L [ L [A 0; A 0; A 0; L [L [A 1; L []; L []]]; L [A 1]];
         L [A 0; A 0; A 1; L [L [A 1; L []; L [A 1]]]; L [A 1; A 1]];
         L [A 0; A 0; A 2; L [L [A 1; L []; L [A 1; A 1]]]; L [A 1; A 1; A 1]];
         L [A 0; A 0; A 3; L [L [A 1; L []; L [A 1; A 1; A 1]]]; L [A 1; A 1; A 1; A 1]];
         L [A 0; A 0; A 4; L [L [A 1; L []; L [A 1; A 1; A 1; A 1]]]; L [A 1; A 1; A 1; A 1; A 1]];
         L [A 0; A 0; A 4; L [L [A 1; L []; L [A 1; A 1; A 1; A 1; A 1]];
                              L [A 0; L []; L [A 1; A 1; A 1; A 1; A 1; A 1]]];
            L [A 1; A 1; A 1; A 1; A 1]];
         L [A 1; A 1; L [A 1; A 1; A 1; A 1; A 1]];
         L [A 0; A 0; A 4; L [L [A 1; L [L [A 13; A 3]]; L [A 0; A 0; A 0; A 1; A 1]];
                              L [A 0; L []; L [A 0; A 0; A 0; A 1; A 1; A 1]]];
            L [A 0; A 0; A 0; A 1; A 1]] ]) = [1].
Proof. vm_compute. reflexivity. Qed.

(** ... and had a later, older detection moved the boundary backwards (the
    plain Swap), a detected block would be visible again — clause 2. *)
Example ex_monitor_fires_backwards :
  mon08Q (L [L [A 32; A 2; A 2; A 1; A 1; A 2];
             L [ex_put []; ex_put []; ex_put [];
                L [A 1; A 0; A 1]; L [A 1; A 2; A 1]; L [A 2; A 1]; L [A 2; A 0]]])
    (L [ L [A 0; A 0; A 0; L [L [A 1; L []; L []]]; L [A 1]];
         L [A 0; A 0; A 1; L [L [A 1; L []; L [A 1]]]; L [A 1; A 1]];
         L [A 0; A 0; A 2; L [L [A 1; L []; L [A 1; A 1]]]; L [A 1; A 1; A 1]];
         L [A 1; A 1; L [A 1; A 1; A 1]];
         L [A 1; A 1; L [A 1; A 1; A 1]];
         L [A 2; A 13; A 3; L [A 0; A 0; A 0]];
         L [A 2; A 13; A 0; L [A 0; A 1; A 1]] ]) = [2; 2].
Proof. vm_compute. reflexivity. Qed.
