(** C08Q — the quarantine arithmetic of OldCurrentNewLocationBlobMap under
    interleaving (sub-check of C08).

    Model: Store/Quarantine.v — the counters totalBlocksReleased /
    totalBlocksToBeReleased, the block list, the old/current/new bookkeeping and
    the sub-steps of findBlockWithSpace()/Put() as atomic steps of the Put
    thread, interleaved at EVERY step with integrity callbacks of readers
    obtained earlier (a callback raises the boundary to its block's absolute
    index + 1 without holding the lock).  Every theorem quantifies over every
    configuration and every event list [es] (Put-thread steps, Put() entered /
    left, readers handed out, callbacks) from the constructor's state
    [init_of c] for ANY initialBlocksCount [q_init c] (restored blocks are
    promoted to "new" / "current" as the growth policy allows, the "old" ones
    above desiredOldBlocksCount are quarantined by the constructor); proofs by
    induction over [es] in Store/QuarantineProofs.v, Run/R08QProofs.v.
    [wf0 c]: 0 <= desiredOldBlocksCount (with a negative count the constructor
    asks for the release of more blocks than exist).

    C08: "from that moment no object stored in the same or an older block is
    returned or reported present, while objects in newer blocks are unaffected". *)
From Coq Require Import List ZArith Bool Lia.
From BBS Require Import Common.Sx Store.Quarantine Store.QuarantineProofs Store.CasMax Run.R08Q Run.R08QProofs Store.QFuel Store.QFine.
Import ListNotations.
Open Scope Z_scope.

(** The boundary never lags behind the release counter (except in the one step
    between a rotation's popFront() and its raise, inside the write lock), never
    exceeds what ordinary rotation and the detections so far justify, and
    honours every detection:  released <= toBeReleased <= max(released, highest
    boundary a detection asked for) and that highest boundary <= toBeReleased. *)
Theorem boundary_justified : forall c es,
  wf0 c ->
  let st := run_evs c (init_of c) es in
  rel st <= tbr st + (if is_raise (pcs st) then 1 else 0)
  /\ tbr st <= Z.max (rel st) (maxdet st) /\ maxdet st <= tbr st.
Proof. exact boundary_justified_reach. Qed.
Print Assumptions boundary_justified.

(** A live block newer than every detected block is never hidden: its
    locations stay valid (BlockReferenceToBlockIndex resolves block index i). *)
Theorem newer_blocks_never_hidden : forall c es i,
  wf0 c ->
  let st := run_evs c (init_of c) es in
  is_raise (pcs st) = false -> 0 <= i -> maxdet st <= rel st + i -> hidden st i = false.
Proof. exact newer_never_hidden_reach. Qed.
Print Assumptions newer_blocks_never_hidden.

(** A detected block and all older ones become invisible with the callback and
    stay invisible whatever happens afterwards. *)
Theorem detected_and_older_hidden_at_once : forall c es r rd es' i,
  wf0 c ->
  let st := run_evs c (init_of c) es in
  nth_error (rdrs st) r = Some rd -> r_open rd = true -> r_bad rd = true ->
  let st' := run_evs c (detect st r) es' in
  r_tgt rd <= tbr st' /\ (rel st' + i < r_tgt rd -> hidden st' i = true).
Proof. exact detected_hidden_at_once_reach. Qed.
Print Assumptions detected_and_older_hidden_at_once.

(** ... and are released by the next Put(): whatever was quarantined when a
    Put() is entered has been popped when that Put() hands out its writer,
    whichever callbacks run in between. *)
Theorem quarantined_released_by_next_put : forall c es sz es' idx,
  wf0 c ->
  let st := run_evs c (init_of c) es in
  pcs st = Idle ->
  let st' := run_evs c (start st sz) es' in
  pcs st' = PDone 0 idx -> tbr st <= rel st'.
Proof. exact released_by_next_put_reach. Qed.
Print Assumptions quarantined_released_by_next_put.

(** No block is released before its time: a Put-thread step that pops a block
    pops exactly one, and either a quarantined one (absolute index below a
    detection's boundary) or — ordinary rotation — the oldest block of a list
    that is above its configured capacity old+current+new. *)
Theorem release_justified : forall c es,
  wfq c ->
  let st := run_evs c (init_of c) es in
  rel (put_step c st) <> rel st ->
  rel (put_step c st) = rel st + 1
  /\ (rel st < maxdet st \/ (exists sz, pcs st = PPop sz) /\ capq c + 1 <= live st).
Proof. exact release_justified_reach. Qed.
Print Assumptions release_justified.

(** The catch-up loop never pops an empty block list (no Go panic there). *)
Theorem catch_up_never_pops_empty_list : forall c es sz snap,
  wf0 c ->
  let st := run_evs c (init_of c) es in
  pcs st = PCatch sz snap -> rel st < snap -> blocks st <> [].
Proof. exact catch_up_has_blocks_reach. Qed.
Print Assumptions catch_up_never_pops_empty_list.

(** Without restored blocks the constructor's state is the empty one. *)
Theorem no_initial_blocks_is_the_empty_state : forall c,
  q_init c <= 0 -> wf0 c -> init_of c = init.
Proof. exact init_of_0. Qed.
Print Assumptions no_initial_blocks_is_the_empty_state.

(** FUEL.  The final allocation loop of findBlockWithSpace ([alloc_loop], fuel
    new + 2) never runs out of fuel, and no Put() ends with the out-of-fuel
    code -1: every configuration with 0 <= old, 0 <= current, 1 <= new, any
    initialBlocksCount, every interleaving (Store/QFuel.v). *)
Theorem final_allocation_loop_fuel_suffices : forall c es,
  wfq c ->
  let st := run_evs c (init_of c) es in
  (forall sz, pcs st = PAlloc sz -> snd (alloc_loop (alloc_fuel st) c st sz) <> -1)
  /\ (forall code idx, pcs st = PDone code idx -> code <> -1).
Proof. exact alloc_fuel_suffices_reach. Qed.
Print Assumptions final_allocation_loop_fuel_suffices.

(** The fuel [put_fuel] the run function gives a whole Put() (catch-up loop,
    grow loop, rotation loop, final loop, callbacks at every block-list call)
    suffices: no observation of the model carries the code -1, for every
    schedule whose upload sizes fit a fresh block or exceed the block size
    ([sizes_ok]: sz <= blockSize - q_pb or blockSize < sz; the harness generates
    and accepts only such sizes).  The monitor's exemption for code -1 is
    therefore never used on the model. *)
Theorem put_fuel_suffices : forall inp,
  wfq (inp_cfg inp) -> sizes_ok (inp_cfg inp) (inp_ops inp) = true ->
  Forall not_out_of_fuel (run_ops (inp_cfg inp) (init_of (inp_cfg inp)) (inp_ops inp)).
Proof. intros inp. exact (put_fuel_suffices_all (inp_cfg inp) (inp_ops inp)). Qed.
Print Assumptions put_fuel_suffices.

(** ... and the hypothesis on sizes is needed: block size 8, probes 2, an upload
    of 7 bytes fits no fresh block but passes the size filter; the rotation loop
    of the real code never ends, the model runs out of fuel. *)
Example ex_size_hypothesis_needed :
  let inp := L [L [A 8; A 1; A 1; A 1; A 1; A 2]; L [L [A 0; A 7; L []]]] in
  wfq (inp_cfg inp) /\ sizes_ok (inp_cfg inp) (inp_ops inp) = false
  /\ match run_ops (inp_cfg inp) (init_of (inp_cfg inp)) (inp_ops inp) with
     | [BPut code _ _ _] => code = -1
     | _ => False
     end.
Proof. cbv zeta. split; [unfold wfq; cbn; lia|]. split; vm_compute; reflexivity. Qed.

(** The monitor of Run/R08Q.v is silent on the model's own observations, for
    every configuration with 0 <= old, 0 <= current, 1 <= new, any
    initialBlocksCount and every schedule (callbacks at every block-list call
    of every Put()). *)
Theorem mon08Q_silent_on_model : forall inp,
  wfq (inp_cfg inp) -> mon08Q inp (run08Q inp) = [].
Proof. exact mon08Q_silent_on_model_all. Qed.
Print Assumptions mon08Q_silent_on_model.

(** The model's callback step "boundary := max boundary target" abstracts the
    compare-and-swap loop of increaseTotalBlocksToBeReleased.  At the granularity
    of its Load / CompareAndSwap operations (Store/CasMax.v), for ANY number of
    concurrent calls and EVERY interleaving [es] (spawn a call / one atomic
    operation of call i): the variable never decreases, stays within the largest
    value asked for, equals the start value plus the amounts returned (what the
    error logger reports), and a call that has returned has its value in place
    for ever.  (Composed with the main model below:
    [fine_grained_refines_atomic_maximum].) *)
Theorem cas_loop_is_atomic_maximum : forall v0 es,
  let s := crun v0 es in
  v0 <= c_v s <= max_new v0 (c_ths s)
  /\ c_v s = v0 + sum_ret (c_ths s)
  /\ (forall i t r, nth_error (c_ths s) i = Some t -> c_pc t = CRet r ->
        0 <= r /\ forall es', c_new t <= c_v (fold_left cstep es' s))
  /\ (forall es', c_v s <= c_v (fold_left cstep es' s)).
Proof. exact cas_loop_is_atomic_maximum_all. Qed.
Print Assumptions cas_loop_is_atomic_maximum.

(** COMPOSITION of the two models (Store/QFine.v).  The fine-grained system:
    the state of Store/Quarantine.v plus, for every reader's callback and for
    the Put thread's raise, a program counter of the compare-and-swap loop; an
    event [EDetect r] / an [EPut] at [PRaise] performs ONE Load or ONE
    CompareAndSwap ([cas_op] = [CasMax.cstep] on the boundary and that thread),
    interleaved arbitrarily with the operations of all other callers and with
    every other step of the model.  For EVERY event list [es] from the
    constructor's state: the abstract states along the fine-grained trace are
    the states along a trace of the coarse model (Store/Quarantine.v, where a
    call is one atomic-maximum step) whose events are [lins]: the coarse step
    at the linearisation point of a call (the Load that finds new <= old, the
    CompareAndSwap that succeeds), a stutter step (None) for every other Load
    and every failed CompareAndSwap.  So every state of the fine-grained system
    is a reachable state of the coarse model and every theorem above about
    [run_evs c (init_of c) es] holds of it.  Safety only: that a call
    eventually returns (lock-freedom: a CompareAndSwap fails only because
    another call's succeeded) is not stated. *)
Theorem fine_grained_refines_atomic_maximum : forall c es,
  map f_q (ftrace c (finit c) es) = ctrace c (init_of c) (lins c (finit c) es)
  /\ f_q (frun c (finit c) es) = run_evs c (init_of c) (somes (lins c (finit c) es)).
Proof. exact fine_refines_coarse_all. Qed.
Print Assumptions fine_grained_refines_atomic_maximum.

(** Same observations: when the callback of reader [r] would finish at the
    next fine-grained step (its call returns), that step is the coarse
    [EDetect r] and the caller sees what the coarse model reports - INTERNAL
    and the amount the call returned (what the error logger prints); in every
    other case the step is a stutter step.  (Visibility, can_open and the
    finalizers are functions of the abstract state.) *)
Theorem fine_grained_callback_result : forall c es r,
  let s := frun c (finit c) es in
  match fobs s r with
  | Some o => lin c s (EDetect r) = Some (EDetect r) /\ o = detect_obs (f_q s) r
  | None => lin c s (EDetect r) = None
  end.
Proof. exact fine_detect_obs_all. Qed.
Print Assumptions fine_grained_callback_result.

(** The operation the fine-grained system performs is the step of
    Store/CasMax.v: in a CasMax state with any number of threads, a step of
    thread i is [cas_op] on the variable and that thread. *)
Theorem cas_step_is_the_composed_operation : forall s i t,
  nth_error (c_ths s) i = Some t ->
  cstep s (CStep i) =
  {| c_v := fst (cas_op (c_v s) (c_new t) (c_pc t));
     c_ths := match c_pc t with
              | CRet _ => c_ths s
              | _ => upd (c_ths s) i {| c_new := c_new t; c_pc := snd (cas_op (c_v s) (c_new t) (c_pc t)) |}
              end |}.
Proof. exact cstep_is_cas_op. Qed.
Print Assumptions cas_step_is_the_composed_operation.

Theorem fine_grained_state_invariant : forall c es, wf0 c -> Inv (f_q (frun c (finit c) es)).
Proof. exact fine_state_inv. Qed.
Print Assumptions fine_grained_state_invariant.

(** Non-vacuity: 3 restored blocks; two readers (blocks 0 and 2, both damaged)
    race: both Load 0, reader 1's CompareAndSwap(0,3) succeeds, reader 0's
    CompareAndSwap(0,1) fails, its second Load finds 1 <= 3 and returns 0. *)
Example ex_fine_race :
  let c := inp_cfg (L [L [A 32; A 1; A 1; A 1; A 0; A 2; A 3]; L []]) in
  let es := [EOpen 0 true; EOpen 2 true; EDetect 0; EDetect 1; EDetect 1; EDetect 0; EDetect 0] in
  lins c (finit c) es
  = [Some (EOpen 0 true); Some (EOpen 2 true); None; None; Some (EDetect 1); None; Some (EDetect 0)]
  /\ map (fun s => (tbr (f_q s), f_rp s)) (ftrace c (finit c) es)
    = [(0, [CLoad]); (0, [CLoad; CLoad]); (0, [CCas 0; CLoad]); (0, [CCas 0; CCas 0]);
       (3, [CCas 0; CRet 3]); (3, [CLoad; CRet 3]); (3, [CRet 0; CRet 3])].
Proof. vm_compute. split; reflexivity. Qed.

(** Two calls racing (5 then 3 asked for, the loser of the CompareAndSwap
    retries): both return, the variable holds the maximum. *)
Example ex_cas_race :
  let s := crun 1 [CSpawn 5; CSpawn 3; CStep 0; CStep 1; CStep 1; CStep 0; CStep 0; CStep 0; CStep 1] in
  c_v s = 5 /\ map c_pc (c_ths s) = [CRet 2; CRet 2].
Proof. vm_compute. split; reflexivity. Qed.

(** Non-vacuity.  2 old / 2 current / 1 new (mutable policy), block size 32,
    every upload fills a block; a reader is obtained on block 2 of 5, its read
    fails while the next Put() is between its PushBack and its rotation
    PopFront (hook 0): three blocks are hidden at once, the two newer blocks
    stay visible, the upload is accepted and its finalizer succeeds, and the
    following Put() releases the quarantined blocks first. *)
Definition ex_cfg : sx := L [A 32; A 2; A 2; A 1; A 1; A 2].
Definition ex_put (hooks : list sx) : sx := L [A 0; A 30; L hooks].
Definition ex_inp : sx :=
  L [ex_cfg; L [ex_put []; ex_put []; ex_put []; ex_put []; ex_put []; ex_put [];
                L [A 1; A 2; A 1];
                ex_put [L [A 0]; L []];
                L [A 3; A 6];
                ex_put []]].

Example ex_wf : wfq (inp_cfg ex_inp).
Proof. unfold wfq. cbn. lia. Qed.

Example ex_sizes : sizes_ok (inp_cfg ex_inp) (inp_ops ex_inp) = true.
Proof. vm_compute. reflexivity. Qed.

Example ex_run :
  run08Q ex_inp =
  L [ L [A 0; A 0; A 0; L [L [A 1; L []; L []]]; L [A 1]];
      L [A 0; A 0; A 1; L [L [A 1; L []; L [A 1]]]; L [A 1; A 1]];
      L [A 0; A 0; A 2; L [L [A 1; L []; L [A 1; A 1]]]; L [A 1; A 1; A 1]];
      L [A 0; A 0; A 3; L [L [A 1; L []; L [A 1; A 1; A 1]]]; L [A 1; A 1; A 1; A 1]];
      L [A 0; A 0; A 4; L [L [A 1; L []; L [A 1; A 1; A 1; A 1]]]; L [A 1; A 1; A 1; A 1; A 1]];
      L [A 0; A 0; A 4; L [L [A 1; L []; L [A 1; A 1; A 1; A 1; A 1]];
                           L [A 0; L []; L [A 1; A 1; A 1; A 1; A 1; A 1]]];
         L [A 1; A 1; A 1; A 1; A 1]];
      L [A 1; A 1; L [A 1; A 1; A 1; A 1; A 1]];
      L [A 0; A 0; A 4; L [L [A 1; L [L [A 13; A 3]]; L [A 0; A 0; A 0; A 1; A 1]];
                           L [A 0; L []; L [A 0; A 0; A 0; A 1; A 1; A 1]]];
         L [A 0; A 0; A 1; A 1; A 1]];
      L [A 3; A 0; A 4; L [A 0; A 0; A 1; A 1; A 1]];
      L [A 0; A 0; A 3; L [L [A 0; L []; L [A 0; A 0; A 1; A 1; A 1]];
                           L [A 0; L []; L [A 0; A 1; A 1; A 1]];
                           L [A 1; L []; L [A 1; A 1; A 1]]];
         L [A 1; A 1; A 1; A 1]] ].
Proof. vm_compute. reflexivity. Qed.

(** Restored blocks: 5 blocks under a capacity of 1 old + 1 current + 1 new
    (immutable policy): the constructor quarantines blocks 0-1; a reader on
    block 3 fails inside the first Put()'s catch-up loop; that Put() releases
    the two blocks of its snapshot, the next one the two others. *)
Definition ex_inp_restored : sx :=
  L [L [A 32; A 1; A 1; A 1; A 0; A 2; A 5];
     L [L [A 1; A 3; A 1]; L [A 0; A 30; L [L [A 0]]]; L [A 0; A 30; L []]]].
Example ex_run_restored :
  wfq (inp_cfg ex_inp_restored) /\ sizes_ok (inp_cfg ex_inp_restored) (inp_ops ex_inp_restored) = true /\
  run08Q ex_inp_restored =
  L [L [A 1; A 1; L [A 0; A 0; A 1; A 1; A 1]];
     L [A 0; A 0; A 1;
        L [L [A 0; L [L [A 13; A 2]]; L [A 0; A 0; A 0; A 0; A 1]];
           L [A 0; L []; L [A 0; A 0; A 0; A 1]]];
        L [A 0; A 0; A 1]];
     L [A 0; A 0; A 0;
        L [L [A 0; L []; L [A 0; A 0; A 1]]; L [A 0; L []; L [A 0; A 1]]; L [A 1; L []; L [A 1]]];
        L [A 1; A 1]]].
Proof. split; [unfold wfq; cbn; lia|]. split; vm_compute; reflexivity. Qed.

(** The monitor is not vacuous: had the boundary moved one block too far during
    that Put() (what "totalBlocksToBeReleased.Add(1)" in the rotation does), the
    newer block 3 would be invisible afterwards — clause 1 fires. *)
Example ex_monitor_fires :
  mon08Q (L [ex_cfg; L [ex_put []; ex_put []; ex_put []; ex_put []; ex_put []; ex_put [];
                         L [A 1; A 2; A 1]; ex_put [L [A 0]; L []]]])
    (L [ L [A 0; A 0; A 0; L [L [A 1; L []; L []]]; L [A 1]];
         L [A 0; A 0; A 1; L [L [A 1; L []; L [A 1]]]; L [A 1; A 1]];
         L [A 0; A 0; A 2; L [L [A 1; L []; L [A 1; A 1]]]; L [A 1; A 1; A 1]];
         L [A 0; A 0; A 3; L [L [A 1; L []; L [A 1; A 1; A 1]]]; L [A 1; A 1; A 1; A 1]];
         L [A 0; A 0; A 4; L [L [A 1; L []; L [A 1; A 1; A 1; A 1]]]; L [A 1; A 1; A 1; A 1; A 1]];
         L [A 0; A 0; A 4; L [L [A 1; L []; L [A 1; A 1; A 1; A 1; A 1]];
                              L [A 0; L []; L [A 1; A 1; A 1; A 1; A 1; A 1]]];
            L [A 1; A 1; A 1; A 1; A 1]];
         L [A 1; A 1; L [A 1; A 1; A 1; A 1; A 1]];
         L [A 0; A 0; A 4; L [L [A 1; L [L [A 13; A 3]]; L [A 0; A 0; A 0; A 1; A 1]];
                              L [A 0; L []; L [A 0; A 0; A 0; A 1; A 1; A 1]]];
            L [A 0; A 0; A 0; A 1; A 1]] ]) = [1].
Proof. vm_compute. reflexivity. Qed.

(** ... and had a later, older detection moved the boundary backwards (the
    plain Swap), a detected block would be visible again — clause 2. *)
Example ex_monitor_fires_backwards :
  mon08Q (L [L [A 32; A 2; A 2; A 1; A 1; A 2];
             L [ex_put []; ex_put []; ex_put [];
                L [A 1; A 0; A 1]; L [A 1; A 2; A 1]; L [A 2; A 1]; L [A 2; A 0]]])
    (L [ L [A 0; A 0; A 0; L [L [A 1; L []; L []]]; L [A 1]];
         L [A 0; A 0; A 1; L [L [A 1; L []; L [A 1]]]; L [A 1; A 1]];
         L [A 0; A 0; A 2; L [L [A 1; L []; L [A 1; A 1]]]; L [A 1; A 1; A 1]];
         L [A 1; A 1; L [A 1; A 1; A 1]];
         L [A 1; A 1; L [A 1; A 1; A 1]];
         L [A 2; A 13; A 3; L [A 0; A 0; A 0]];
         L [A 2; A 13; A 0; L [A 0; A 1; A 1]] ]) = [2; 2].
Proof. vm_compute. reflexivity. Qed.
