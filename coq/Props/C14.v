(** C14 — ByteStream / ContentAddressableStorage / ActionCache RPCs.
    Statements only; proofs are in Rpc/*Proofs.v.

    All theorems hold for every hash function [hashf], every decoder
    [decompress] and every encoder [compress]; the round-trip law
    [decompress (compress x) = DOk x] is a premise where it is needed
    (zstd itself is library behaviour: modelled, not verified).
    The zstd paths are the REPAIRED ones (findings F2, F6, F7).

    [0 <= d_size d]: digests come out of the resource-name / proto parsers,
    which reject negative sizes (C20). *)
From Coq Require Import List ZArith Bool Lia.
From BBS Require Import Rpc.ByteStream Rpc.Batch Rpc.ClientServer
  Rpc.ByteStreamProofs Rpc.BatchProofs Rpc.ClientServerProofs.
Import ListNotations.
Open Scope Z_scope.

(** ** Uploads.  For ALL message sequences and terminals, all backend modes:
    an identity upload is stored only if the offsets start at zero and are
    contiguous, finish_write is set on the last message and on no other, the
    client half-closed afterwards, and the concatenated data matches the
    digest; what is stored is that concatenation. *)
Theorem write_stores_only_if : forall hashf decompress pm d ms t x,
  0 <= d_size d ->
  wr_stored (write hashf decompress pm (RIdentity d) ms t) = Some x ->
  contiguous 0 ms /\ finished_at_end ms /\ t = TEof /\ x = payload ms /\ valid hashf d x = true
  /\ wr_code (write hashf decompress pm (RIdentity d) ms t) = 0.
Proof. exact write_identity_stores_only_if. Qed.
Print Assumptions write_stores_only_if.

(** Compressed uploads: the upload is the prefix of the message sequence up
    to the first finish_write (the service does not read further); it starts
    at offset zero, is contiguous, and the stored bytes are what the decoder
    makes of the concatenated data — and match the digest.  ([decoded] covers
    [DOk] and the truncated-tail case [DTrunc], see Rpc/ByteStream.v.) *)
Theorem write_stores_only_if_zstd : forall hashf decompress pm d ms t x,
  wr_stored (write hashf decompress pm (RZstd d) ms t) = Some x ->
  exists pre post, ms = pre ++ post /\ contiguous 0 pre /\ finished_at_end pre
    /\ decoded (decompress (payload pre)) = Some x /\ valid hashf d x = true.
Proof. exact write_zstd_stores_only_if. Qed.
Print Assumptions write_stores_only_if_zstd.

(** ... and conversely every such upload is stored (so the conditions are exact). *)
Theorem write_stores_if : forall hashf decompress d ms,
  contiguous 0 ms -> finished_at_end ms -> valid hashf d (payload ms) = true -> d_size d <= backend_max ->
  write hashf decompress 0 (RIdentity d) ms TEof = mkWres 0 [] (d_size d) (Some (payload ms)).
Proof. exact write_identity_stores_if. Qed.
Print Assumptions write_stores_if.

Theorem write_stores_if_zstd : forall hashf decompress d ms x,
  contiguous 0 ms -> finished_at_end ms -> decompress (payload ms) = DOk x ->
  valid hashf d x = true -> d_size d <= backend_max ->
  write hashf decompress 0 (RZstd d) ms TEof = mkWres 0 [] (blen (payload ms)) (Some x).
Proof. exact write_zstd_stores_if. Qed.
Print Assumptions write_stores_if_zstd.

(** In every other case the RPC fails and nothing becomes visible: any
    resource name, any message sequence, any stream or backend error. *)
Theorem otherwise_nothing_visible : forall hashf decompress pm rn ms t,
  wr_code (write hashf decompress pm rn ms t) <> 0 ->
  wr_stored (write hashf decompress pm rn ms t) = None.
Proof. exact write_failure_stores_nothing. Qed.
Print Assumptions otherwise_nothing_visible.

Theorem alternative_outcomes_are_failures : forall hashf decompress pm rn ms t c,
  In c (wr_alts (write hashf decompress pm rn ms t)) -> c <> 0.
Proof. exact (fun h dc => write_alternatives_are_failures h dc (fun x => x)). Qed.
Print Assumptions alternative_outcomes_are_failures.

(** ** Reads.  For all offsets 0 <= k <= size and all chunk sizes the
    messages concatenate to exactly the bytes from k to the end (each message
    non-empty and at most one chunk long). *)
Theorem read_exact_suffix : forall compress d get content k chunk pieces,
  get d = inl content -> (0 < chunk)%nat -> 0 <= k <= blen content ->
  exists msgs, read compress (RIdentity d) 0 get k chunk pieces None = (0, msgs)
               /\ concat msgs = skipn (Z.to_nat k) content
               /\ forall m, In m msgs -> (0 < length m <= chunk)%nat.
Proof. exact read_identity_exact_suffix. Qed.
Print Assumptions read_exact_suffix.

(** Compressed reads: the messages decode to exactly the suffix, however the
    encoder cuts its output. *)
Theorem read_exact_suffix_zstd : forall decompress compress d get content k chunk pieces,
  (forall x, decompress (compress x) = DOk x) ->
  get d = inl content -> 0 <= k <= blen content ->
  exists msgs, read compress (RZstd d) 0 get k chunk pieces None = (0, msgs)
               /\ decompress (concat msgs) = DOk (skipn (Z.to_nat k) content).
Proof. exact read_zstd_exact_suffix. Qed.
Print Assumptions read_exact_suffix_zstd.

(** Any other offset: INVALID_ARGUMENT and no data, both compressors. *)
Theorem bad_offset_no_foreign_bytes : forall compress rn d get content k chunk pieces sf,
  rn = RIdentity d \/ rn = RZstd d ->
  get d = inl content -> ~ (0 <= k <= blen content) ->
  read compress rn 0 get k chunk pieces sf = (cInvalidArgument, []).
Proof. exact read_bad_offset_no_data. Qed.
Print Assumptions bad_offset_no_foreign_bytes.

Theorem read_backend_error_passes : forall compress rn d get c k chunk pieces sf,
  rn = RIdentity d \/ rn = RZstd d -> get d = inr c ->
  read compress rn 0 get k chunk pieces sf = (c, []).
Proof. exact read_backend_error_no_data. Qed.
Print Assumptions read_backend_error_passes.

(** Whatever the name, limit, offset and the message at which sending fails:
    what was sent is a prefix of the (compressed) suffix — never bytes from elsewhere. *)
Theorem read_never_bytes_from_elsewhere : forall compress rn limit get k chunk pieces sf,
  (0 < chunk)%nat ->
  let msgs := snd (read compress rn limit get k chunk pieces sf) in
  msgs = [] \/
  exists d content rest, get d = inl content /\ 0 <= k <= blen content /\
    ((rn = RIdentity d /\ skipn (Z.to_nat k) content = concat msgs ++ rest) \/
     (rn = RZstd d /\ compress (skipn (Z.to_nat k) content) = concat msgs ++ rest)).
Proof. exact read_sends_prefix_of_suffix. Qed.
Print Assumptions read_never_bytes_from_elsewhere.

(** ** Batches: one status per entry; stored iff OK; never a mismatch. *)
Theorem batch_update_per_object_status : forall hashf es i d data pm,
  nth_error es i = Some (d, data, pm) ->
  exists c o, nth_error (batch_update hashf es) i = Some (c, o)
    /\ (c = 0 <-> o <> None)
    /\ (forall x, o = Some x -> x = data /\ valid hashf d data = true).
Proof. exact batch_update_per_entry. Qed.
Print Assumptions batch_update_per_object_status.

Theorem batch_update_never_stores_mismatch : forall hashf es c x,
  In (c, Some x) (batch_update hashf es) ->
  exists d data pm, In (d, data, pm) es /\ x = data /\ valid hashf d x = true /\ c = 0.
Proof. exact BatchProofs.batch_update_never_stores_mismatch. Qed.
Print Assumptions batch_update_never_stores_mismatch.

Theorem batch_read_never_delivers_mismatch : forall hashf held maxsz ds rs i d,
  batch_read (fun d => backend_get hashf (held d) d) maxsz ds = Some rs ->
  nth_error ds i = Some d ->
  exists c x, nth_error rs i = Some (c, x)
    /\ (c = 0 -> held d = Some x /\ valid hashf d x = true)
    /\ (c <> 0 -> x = []).
Proof. exact BatchProofs.batch_read_never_delivers_mismatch. Qed.
Print Assumptions batch_read_never_delivers_mismatch.

Theorem batch_read_per_object_status : forall get maxsz ds rs,
  batch_read get maxsz ds = Some rs -> length rs = length ds.
Proof. exact batch_read_per_entry. Qed.
Print Assumptions batch_read_per_object_status.

(** One server RPC: digests of ONE instance name and digest function.  Sets
    over several instance names / digest functions through the client (one
    RPC per partition, union): [find_missing_exact_multi] and
    [client_server_find_missing_multi] in Props/C14F.v. *)
Theorem find_missing_exact : forall missing ds ms,
  find_missing missing 0 ds = (0, ms) ->
  forall d, In d ms <-> In d ds /\ missing d = true.
Proof. exact BatchProofs.find_missing_exact. Qed.
Print Assumptions find_missing_exact.

(** ** Client and server back to back behave like the backend: for all data
    and all chunkings (chunk sizes; the encoder's and decoder's cuts) the
    server stores exactly the data, and a download returns the backend's
    bytes; the backend's errors reach the caller. *)
Theorem client_server_identity : forall hashf decompress compress chunk pieces d data,
  valid hashf d data = true -> (0 < chunk)%nat -> d_size d <= backend_max ->
  client_put hashf decompress compress false chunk pieces d data = mkWres 0 [] (d_size d) (Some data).
Proof. exact client_put_identity_stores. Qed.
Print Assumptions client_server_identity.

Theorem client_server_identity_zstd : forall hashf decompress compress,
  (forall x, decompress (compress x) = DOk x) ->
  forall chunk pieces d data,
  valid hashf d data = true -> d_size d <= backend_max ->
  client_put hashf decompress compress true chunk pieces d data
  = mkWres 0 [] (blen (compress data)) (Some data).
Proof. exact client_put_zstd_stores. Qed.
Print Assumptions client_server_identity_zstd.

Theorem client_server_read_identity : forall hashf decompress compress chunk sp cp get d content,
  get d = inl content -> valid hashf d content = true -> (0 < chunk)%nat -> d_size d <= backend_max ->
  client_get hashf decompress compress false chunk sp cp get d = inl content.
Proof. exact client_get_identity_returns. Qed.
Print Assumptions client_server_read_identity.

Theorem client_server_read_identity_zstd : forall hashf decompress compress,
  (forall x, decompress (compress x) = DOk x) ->
  forall chunk sp cp get d content,
  get d = inl content -> valid hashf d content = true -> d_size d <= backend_max ->
  client_get hashf decompress compress true chunk sp cp get d = inl content.
Proof. exact client_get_zstd_returns. Qed.
Print Assumptions client_server_read_identity_zstd.

Theorem client_server_error_passes : forall hashf decompress compress zstd chunk sp cp get d c,
  get d = inr c -> c <> 0 -> d_size d <= backend_max ->
  client_get hashf decompress compress zstd chunk sp cp get d = inr c.
Proof. exact client_get_error. Qed.
Print Assumptions client_server_error_passes.

Theorem client_server_invalid_upload : forall hashf decompress compress zstd chunk pieces d data x,
  0 <= d_size d -> valid hashf d data = false ->
  wr_code (client_put hashf decompress compress zstd chunk pieces d data) <> 0 /\
  (wr_stored (client_put hashf decompress compress zstd chunk pieces d data) = Some x -> valid hashf d x = true).
Proof. exact client_put_invalid. Qed.
Print Assumptions client_server_invalid_upload.

(** ** Non-vacuity: concrete instances (hash = sum of the bytes; codec = tag byte). *)
Definition ex_hash (x : bytes) : Z := fold_left Z.add x 0.
Definition ex_compress (x : bytes) : bytes := 40 :: x.
Definition ex_decompress (c : bytes) : dres := match c with 40 :: x => DOk x | [] => DOk [] | _ => DBad end.

Example upload_three_messages :
  write ex_hash ex_decompress 0 (RIdentity (mkD 15 5))
        [mkW 0 [1; 2] false; mkW 2 [] false; mkW 2 [3; 4; 5] true] TEof
  = mkWres 0 [] 5 (Some [1; 2; 3; 4; 5]).
Proof. vm_compute. reflexivity. Qed.

Example upload_gap_rejected :
  write ex_hash ex_decompress 0 (RIdentity (mkD 15 5))
        [mkW 0 [1; 2] false; mkW 3 [3; 4; 5] true] TEof = wfail cInvalidArgument.
Proof. vm_compute. reflexivity. Qed.

Example upload_zstd_first_offset_rejected :
  write ex_hash ex_decompress 0 (RZstd (mkD 15 5)) [mkW 7 [40; 1; 2; 3; 4; 5] true] TEof = wfail cInvalidArgument
  /\ write ex_hash ex_decompress 0 (RZstd (mkD 15 5)) [mkW 0 [40; 1; 2] false; mkW 3 [3; 4; 5] true] TEof
     = mkWres 0 [] 6 (Some [1; 2; 3; 4; 5]).
Proof. vm_compute. split; reflexivity. Qed.

Example read_from_offset :
  read ex_compress (RIdentity (mkD 15 5)) 0 (fun _ => inl [1; 2; 3; 4; 5]) 2 2%nat [] None = (0, [[3; 4]; [5]])
  /\ read ex_compress (RZstd (mkD 15 5)) 0 (fun _ => inl [1; 2; 3; 4; 5]) 2 2%nat [1%nat] None = (0, [[40; 3]; [4; 5]])
  /\ read ex_compress (RZstd (mkD 15 5)) 0 (fun _ => inl [1; 2; 3; 4; 5]) 6 2%nat [] None = (cInvalidArgument, []).
Proof. vm_compute. repeat split; reflexivity. Qed.

Example client_round_trip :
  client_put ex_hash ex_decompress ex_compress true 2%nat [1%nat] (mkD 15 5) [1; 2; 3; 4; 5]
  = mkWres 0 [] 6 (Some [1; 2; 3; 4; 5])
  /\ client_get ex_hash ex_decompress ex_compress true 2%nat [0%nat] [1%nat]
       (fun _ => inl [1; 2; 3; 4; 5]) (mkD 15 5) = inl [1; 2; 3; 4; 5].
Proof. vm_compute. split; reflexivity. Qed.

(** ** The monitor used on implementation traces never fires on the model.

    [mon14 inp (orc res)] is the property as a decidable check on an
    implementation result [res]; [agree14 inp (run14 inp orc) res] is the judge's
    test that [res] is an outcome the model allows (it accepts a SET of results:
    the alternative failure codes of a compressed upload, FindMissing answers up
    to order, any prefix of a compressed read cut short by a failing Send).
    For every input, every oracle and every result the judge accepts, all twelve
    clauses are silent.  [inp_wf inp] (Run/R14Proofs.v) is
      - for an identity ByteStream.Read (kind 1, compressor 0): chunk size >= 1
        and an injected Send failure has a non-zero code;
      - for a client<->server case (kind 5): chunk size >= 1, the blob of a Put
        and the size of a Get at most [backend_max] (1 MiB, the harness's
        ToByteSlice limit), FindMissing sizes >= 0.
    No condition for Write, BatchUpdateBlobs, BatchReadBlobs, FindMissingBlobs,
    compressed reads and the ActionCache. *)
From BBS Require Import Common.Sx Run.R14 Run.R14Proofs.

Theorem monitor_silent_on_agreeing_observation : forall inp obs,
  inp_wf inp ->
  agree14 inp (run14 inp (sx_nth obs 0)) (sx_nth obs 1) = true ->
  mon14 inp obs = [].
Proof. exact mon14_silent_on_agreeing. Qed.
Print Assumptions monitor_silent_on_agreeing_observation.

(** ... in particular on the model's own (primary) outcome, which the judge accepts. *)
Theorem model_outcome_is_accepted : forall inp orc,
  agree14 inp (run14 inp orc) (model_res inp orc) = true.
Proof. exact agree14_model_res. Qed.
Print Assumptions model_outcome_is_accepted.

Theorem monitor_silent_on_model : forall inp orc,
  inp_wf inp -> mon14 inp (L [orc; model_res inp orc]) = [].
Proof. exact mon14_silent_on_model. Qed.
Print Assumptions monitor_silent_on_model.

(** Each hypothesis is needed: chunk 0 / Send failure "code 0" on an identity
    read (clause 6); client<->server with chunk 0, a Get of an absent digest of
    1 MiB + 1 bytes, a FindMissing with a negative size, a Put of a 1 MiB + 1
    byte blob (clause 11).  harness/c14.go rejects all of these except the
    oversized Get (sizes are only bounded from below). *)
Example monitor_domain_boundary :
  (let inp := L [A 1; L [L [A 7]]; L [A 0; A 0; A 1]; A 0; A 0; A 0; A 0; L []] in
   mon14 inp (L [L []; model_res inp (L [])]) = [6])
  /\ (let inp := L [A 1; L [L [A 7]]; L [A 0; A 0; A 1]; A 0; A 0; A 0; A 1; L [A 0; A 0]] in
      mon14 inp (L [L []; model_res inp (L [])]) = [6])
  /\ (let inp := L [A 5; L [L [A 7]]; A 0; A 0; L [L [A 0; A 0; A 1]]] in
      mon14 inp (L [L []; model_res inp (L [])]) = [11])
  /\ (let inp := L [A 5; L [L [A 7]]; A 0; A 1; L [L [A 1; A 0; A 1048577]]] in
      mon14 inp (L [L []; model_res inp (L [])]) = [11])
  /\ (let inp := L [A 5; L [L [A 7]]; A 0; A 1; L [L [A 2; L [L [A 0; A (-1)]]]]] in
      mon14 inp (L [L []; model_res inp (L [])]) = [11])
  /\ (let inp := L [A 5; L [L (map A (repeat 0 (Z.to_nat 1048577)))]; A 0; A 1048577; L [L [A 0; A 0; A 1048577]]] in
      mon14 inp (L [L []; model_res inp (L [])]) = [11]).
Proof.
  exact (conj read_chunk_needed (conj read_sendfail_code_needed (conj cs_chunk_needed
          (conj cs_get_size_needed (conj cs_fm_size_needed cs_put_size_needed))))).
Qed.

(** Non-vacuity: a client<->server case (zstd, chunk 2: Put, Get, FindMissing) in the domain. *)
Example monitor_silent_example :
  let inp := L [A 5; L [L [A 7; A 8; A 9]]; A 1; A 2;
                L [L [A 0; A 0; A 3]; L [A 1; A 0; A 3]; L [A 2; L [L [A 0; A 3]; L [A 0; A 4]]]]] in
  inp_wf inp
  /\ model_res inp (L []) = L [L [L [A 0; L []]; L [A 0; L [A 7; A 8; A 9]]; L [A 0; L [L [A 0; A 4]]]];
                               L [L [A 0; A 3; L [A 7; A 8; A 9]]]].
Proof. exact cs_ok_example. Qed.
