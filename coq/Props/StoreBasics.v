(** Basic theorems about the local-store model (interim statements shared by
    C01/C04/C05/C08/C10 until their full invariant theorems are merged). *)
From Coq Require Import List NArith ZArith.
From BBS Require Import Store.Model Store.Basics.
Import ListNotations.
Open Scope N_scope.

Theorem lookup_resolves_only_own_valid_entries : forall s k l,
  index_get s k = Some l ->
  In (k, l) (map (fun e => (k, snd e)) (filter (fun e => key_eqb (fst e) k) (s_index s)))
  /\ loc_valid s l = true.
Proof. exact index_get_sound. Qed.
Print Assumptions lookup_resolves_only_own_valid_entries.

Theorem lookup_never_resolves_into_quarantine : forall s k l,
  index_get s k = Some l -> s_tbr s <= l_abs l /\ l_abs l < s_released s + N.of_nat (length (s_blocks s)).
Proof. exact index_get_above_quarantine. Qed.
Print Assumptions lookup_never_resolves_into_quarantine.

Theorem finalizer_refuses_quarantined_block : forall c s wr ok l s',
  finalize c s wr ok = (Ok l, s') -> ok = true /\ s_tbr s' <= wr_abs wr.
Proof. exact finalize_refuses_quarantined. Qed.
Print Assumptions finalizer_refuses_quarantined_block.
