(** C04A — the allocator-accounting clause of C04: "a region of the block
    device is not handed out while a block, reader or writer obtained earlier
    on it is still live, and capacity is neither lost nor invented."

    Statements only; model Alloc/BDA.v (the free list and use counts of
    block_device_backed_block_allocator.go exactly as the code keeps them:
    initial order, NewBlock takes the front, Release appends at use count 0,
    NewBlockAtLocation swap-removes), proofs Alloc/BDAProofs.v, BDALive.v,
    BDAMon.v, monitor Run/R04A.v.  All theorems quantify over every geometry
    ([wf_cfg]: sector size and sectors per block positive; any number of
    regions) and EVERY sequence of calls [ops] (NewBlock, NewBlockAtLocation
    with any location and write offset, Release by the owner, Get, HasSpace/Put,
    closing readers / running writers, in any order and interleaving).
    [reach c ops] is the state after [ops] from the freshly constructed
    allocator; [live_offs a] are the regions of blocks with a positive use
    count; [proto_ok] = the caller releases each block once and does not
    Get/Put on a block it has released. *)
From Coq Require Import List ZArith Bool Permutation.
From BBS Require Import Common.Sx Alloc.BDA Alloc.BDAProofs Alloc.BDALive Alloc.BDAMon Run.R04A.
Import ListNotations.
Open Scope Z_scope.

(** The invariant: free list and regions in use are disjoint, duplicate-free,
    and together exactly the regions of the device — after ANY calls
    (including callers that break the protocol, up to a panic). *)
Theorem allocator_accounting_invariant : forall c ops, wf_cfg c ->
  let a := reach c ops in
  NoDup (a_free a ++ live_offs a) /\ Permutation (a_free a ++ live_offs a) (regions c).
Proof. exact accounting_reach. Qed.
Print Assumptions allocator_accounting_invariant.

(** For callers that keep the protocol no call panics and every use count is
    exactly 1 (until the owner's Release) + the readers / writers not yet
    finished: a region is "in use" precisely while a handle on it is live. *)
Theorem use_counts_exact : forall c ops, wf_cfg c -> proto_ok c (init_a c) ops = true ->
  let a := reach c ops in
  panicked (snd (exec c (init_a c) ops)) = false /\
  forall h b, nth_error (a_blks a) h = Some b ->
    b_use b = (if b_rel b then 0 else 1) + Z.of_nat (count_open h (a_pins a)).
Proof. exact use_exact_reach. Qed.
Print Assumptions use_counts_exact.

(** Clause 1: whatever call hands out a block, its region is a region of the
    device on which no block has a positive use count. *)
Theorem region_not_handed_out_while_in_use : forall c ops o a' x, wf_cfg c ->
  step c (reach c ops) o = (a', RHanded x) ->
  In x (regions c) /\ ~ In x (live_offs (reach c ops)).
Proof. exact handout_reach. Qed.
Print Assumptions region_not_handed_out_while_in_use.

(** ... in the monitor's vocabulary: for a protocol-keeping caller, every
    earlier handle on the region handed out is dead (released by its owner, no
    unfinished reader / writer). *)
Theorem region_not_handed_out_while_handle_live : forall c ops o a' x h b, wf_cfg c ->
  proto_ok c (init_a c) ops = true ->
  step c (reach c ops) o = (a', RHanded x) ->
  nth_error (a_blks (reach c ops)) h = Some b -> b_off b = x ->
  b_rel b = true /\ count_open h (a_pins (reach c ops)) = O.
Proof. exact handout_handles_dead. Qed.
Print Assumptions region_not_handed_out_while_handle_live.

(** Clause 2: NewBlock reports Unavailable only when every region is in use;
    if some region is not in use it hands one out. *)
Theorem unavailable_only_when_all_regions_in_use : forall c ops, wf_cfg c ->
  let a := reach c ops in
  (snd (step c a ONew) = RUnavail -> Permutation (live_offs a) (regions c))
  /\ ((exists x, In x (regions c) /\ ~ In x (live_offs a)) ->
      exists y, snd (step c a ONew) = RHanded y /\ ~ In y (live_offs a)).
Proof. exact unavailable_reach. Qed.
Print Assumptions unavailable_only_when_all_regions_in_use.

(** Clause 4: NewBlockAtLocation succeeds iff the location is (offset, size) of
    a region that is not in use, and then hands out that region. *)
Theorem new_block_at_location_iff_region_free : forall c ops off size wo, wf_cfg c ->
  let a := reach c ops in
  ((exists x, snd (step c a (OAt off size wo)) = RHanded x)
   <-> (exists x, In x (regions c) /\ ~ In x (live_offs a)
                  /\ x * c_sector c = off /\ c_spb c * c_sector c = size))
  /\ (forall x, snd (step c a (OAt off size wo)) = RHanded x -> x * c_sector c = off).
Proof. exact at_location_reach. Qed.
Print Assumptions new_block_at_location_iff_region_free.

(** Clause 3, liveness: at any state a protocol-keeping caller can reach, for
    any block not yet released: once the owner releases it and its open
    readers / writers are finished ([ext], no other call needed, nothing
    panics) its region is in the free list, and NewBlock() calls hand it out
    (the drain: at most [c_n c] calls). *)
Theorem released_region_becomes_allocatable : forall c ops h b, wf_cfg c ->
  proto_ok c (init_a c) ops = true ->
  let a := reach c ops in
  nth_error (a_blks a) h = Some b -> b_rel b = false ->
  let ext := ORel h :: map OFin (open_idx h 0 (a_pins a)) in
  let a' := fst (exec c a ext) in
  panicked (snd (exec c a ext)) = false
  /\ In (b_off b) (a_free a')
  /\ In (RHanded (b_off b)) (snd (drain c (S (c_n c)) a')).
Proof. exact liveness_reach. Qed.
Print Assumptions released_region_becomes_allocatable.

(** The monitor of Run/R04A.v (clauses 1-6) is silent on the model's
    observations: every input (any geometry, both allocators, any calls). *)
Theorem mon04A_silent_on_model : forall inp, mon04A inp (run04A inp) = [].
Proof. exact mon04A_silent. Qed.
Print Assumptions mon04A_silent_on_model.

(** The in-memory allocator has no regions, no free list and no use counts:
    NewBlock always succeeds, NewBlockAtLocation always fails. *)
Theorem in_memory_allocator_calls : forall bs a,
  snd (step_mem bs a ONew) = RMem
  /\ forall off size wo, snd (step_mem bs a (OAt off size wo)) = RAtFail.
Proof. exact in_memory_calls. Qed.
Print Assumptions in_memory_allocator_calls.

(** ---- non-vacuity ---- *)
Definition exc : acfg := mkCfg 4 2 3.

(** a restart: blocks restored at regions 2 and 0 (swap-remove reorders the
    free list), a bad location refused, then growth, a release while a reader
    is open, Unavailable while it is pinned, and the region's return. *)
Definition exops : list op :=
  [OAt 16 8 5; OAt 0 8 0; OAt 16 8 0; OAt 4 8 0; ONew; ONew;
   OGet 0; ORel 0; ONew; OFin 0; ONew].

Example ex_proto : proto_ok exc (init_a exc) exops = true.
Proof. reflexivity. Qed.

Example ex_run :
  snd (exec exc (init_a exc) exops)
  = [RHanded 4; RHanded 0; RAtFail; RAtFail; RHanded 2; RUnavail;
     RGot; RRel; RUnavail; RFin 1 0; RHanded 4].
Proof. reflexivity. Qed.

(** the swap-remove really reorders: restoring region 0 of 4 leaves [3;1;2] *)
Example ex_swap_remove :
  a_free (reach (mkCfg 1 1 4) [OAt 0 1 0]) = [3; 1; 2].
Proof. reflexivity. Qed.

Example ex_liveness_hypotheses :
  let a := reach exc [ONew; OGet 0; OPut 0 3] in
  exists b, nth_error (a_blks a) 0 = Some b /\ b_rel b = false
            /\ open_idx 0 0 (a_pins a) = [0; 1]%nat /\ b_use b = 3.
Proof. eexists. repeat split. Qed.

(** what the seeded change C04-c produces (one region, restored, then the
    drain hands the same region out again) is rejected by clause 1 *)
Example ex_monitor_rejects_duplicate_handout :
  mon04A (L [L [A 0; A 16; A 3; A 1]; L [L [A 1; A 0; A 48; A 0]]])
         (L [L [L [A 1; A 0; A 48; A 0]]; L [L [A 1; A 0; A 48; A 0]; L [A 0; A 14]]; L [A 2; A 0; A 1]])
  = [1].
Proof. reflexivity. Qed.

(** Unavailable although a region has no live handle: clause 2; a region
    missing from the drain: clause 3; a free location refused: clause 4 *)
Example ex_monitor_rejects_premature_unavailable :
  mon04A (L [L [A 0; A 4; A 1; A 2]; L [L [A 0]; L [A 0]]])
         (L [L [L [A 1; A 0; A 4; A 0]; L [A 0; A 14]]; L [L [A 1; A 4; A 4; A 4]; L [A 0; A 14]]; L [A 2; A 0; A 1]])
  = [2].
Proof. reflexivity. Qed.

Example ex_monitor_rejects_lost_capacity :
  mon04A (L [L [A 0; A 4; A 1; A 2]; L [L [A 0]; L [A 2; A 0]]])
         (L [L [L [A 1; A 0; A 4; A 0]; L [A 2]]; L [L [A 1; A 4; A 4; A 4]; L [A 0; A 14]]; L [A 2; A 1; A 1]])
  = [3].
Proof. reflexivity. Qed.

Example ex_monitor_rejects_refused_free_location :
  mon04A (L [L [A 0; A 4; A 1; A 2]; L [L [A 1; A 4; A 4; A 0]]])
         (L [L [L [A 0; A 0]]; L [L [A 1; A 0; A 4; A 0]; L [A 1; A 4; A 4; A 4]; L [A 0; A 14]]; L [A 2; A 0; A 1]])
  = [4].
Proof. reflexivity. Qed.

Example ex_monitor_accepts_model :
  mon04A (L [L [A 0; A 4; A 1; A 2]; L [L [A 1; A 4; A 4; A 0]; L [A 0]; L [A 0]]])
         (run04A (L [L [A 0; A 4; A 1; A 2]; L [L [A 1; A 4; A 4; A 0]; L [A 0]; L [A 0]]])) = []
  /\ run04A (L [L [A 0; A 4; A 1; A 2]; L [L [A 1; A 4; A 4; A 0]; L [A 0]; L [A 0]]])
     = L [L [L [A 1; A 4; A 4; A 4]; L [A 1; A 0; A 4; A 0]; L [A 0; A 14]]; L [L [A 0; A 14]]; L [A 2; A 0; A 1]].
Proof. split; reflexivity. Qed.
