(** C04B — stream-backed CAS buffers close their source exactly once on every
    path (every method, every script, every outcome). *)
From Coq Require Import List ZArith NArith Bool Lia.
From BBS Require Import Common.Sx Buffer.Source Buffer.Validate Buffer.Convert Buffer.ClosedOnceProofs Run.R09 Run.R04B.
Import ListNotations.
Open Scope Z_scope.

(** the model: whatever the digest, hash function, script, method and fuel *)
Theorem reader_buffer_source_closed_exactly_once : forall H cfg fuel evs attach m,
  o_closed (cas_reader H cfg fuel evs attach m) = 1%nat.
Proof. exact cas_reader_closed_once. Qed.
Print Assumptions reader_buffer_source_closed_exactly_once.

Theorem chunk_reader_buffer_source_closed_exactly_once : forall H cfg fuel evs m,
  o_closed (cas_chunk_reader H cfg fuel evs m) = 1%nat.
Proof. exact cas_chunk_reader_closed_once. Qed.
Print Assumptions chunk_reader_buffer_source_closed_exactly_once.

Lemma closed_field report o : sx_Z (sx_nth (enc_out report o) 4) = Z.of_nat (o_closed o).
Proof. reflexivity. Qed.

Theorem mon04B_silent_on_model : forall inp, mon04B inp (run04B inp) = [].
Proof.
  intros inp. unfold mon04B, stream_backed, run04B, run09.
  set (c := dec_case inp). change (sx_Z (sx_nth inp 0)) with (k_kind c).
  destruct (k_kind c =? 1) eqn:E1.
  - apply Z.eqb_eq in E1. rewrite E1. cbn [orb andb]. rewrite closed_field, cas_reader_closed_once. reflexivity.
  - destruct (k_kind c =? 2) eqn:E2; [|reflexivity].
    apply Z.eqb_eq in E2. rewrite E2. cbn [orb andb]. rewrite closed_field, cas_chunk_reader_closed_once. reflexivity.
Qed.
Print Assumptions mon04B_silent_on_model.
