(** C20X — chains of digest set operations on derived sets (sub-check of C20). *)
From Coq Require Import List ZArith NArith Bool Lia.
From BBS Require Import Common.Sx Digest.DigestModel Digest.SetModel Digest.SetProofs Run.R20 Run.R20X Run.R20XProofs.
Import ListNotations.
