(** C20X — chains of digest set operations on DERIVED sets (sub-check of C20).
    Statements only; proofs are in Run/R20XProofs.v.

    Property sentence (C20): "Digest sets built, united, intersected, subtracted,
    partitioned and filtered by this package equal the corresponding mathematical
    sets, sorted and duplicate-free."  C20's own theorems speak about one operation
    on given sorted sets; here the operations are CHAINED: a program (Run/R20X.v) runs
    over an environment of sets that starts with the built sets and to which every
    instruction appends its outputs, so later instructions take partitions,
    differences, intersections, unions and filtered sets of earlier ones as arguments.

    Vocabulary (Run/R20XProofs.v):
      [in_univ ds s]            s is strictly increasing in Go's string order and every
                                member is the packed form of a digest of the universe [ds];
      [instr_spec env ins outs] the outputs are exactly the mathematical
                                difference / intersection / union / partition / filter
                                of the instruction's input sets [env_get env i];
      [trace_spec ds env p tr]  every instruction of [p] succeeded (no panic, no error)
                                with outputs satisfying [instr_spec] in the environment it
                                ran in, all of them again [in_univ ds]. *)
From Coq Require Import List NArith ZArith Bool Lia.
From BBS Require Import Common.Sx Generated.Consts Digest.DigestModel Digest.SetModel
     Digest.DigestProofs Digest.SetProofs Run.R20 Run.R20Proofs Run.R20X Run.R20XProofs.
Import ListNotations.
Open Scope Z_scope.

(** ** One instruction, any environment of sets of the universe *)
Theorem instruction_exact : forall ds env ins,
  Forall valid_digest ds -> Forall (in_univ ds) env ->
  exists outs, exec_instr env ins = Ok outs /\ instr_spec env ins outs /\ Forall (in_univ ds) outs.
Proof. exact exec_instr_spec. Qed.
Print Assumptions instruction_exact.

(** ** Every program: any length, any indices (an index beyond the environment is the
    empty set), any universe of valid digests, any initial sets of that universe *)
Theorem set_program_exact : forall ds, Forall valid_digest ds ->
  forall p env, Forall (in_univ ds) env -> trace_spec ds env p (exec_prog env p).
Proof. exact exec_prog_spec. Qed.
Print Assumptions set_program_exact.

(** every set of the final environment is sorted, duplicate-free and drawn from the universe *)
Theorem set_program_sets_sorted_nodup : forall ds, Forall valid_digest ds ->
  forall p env, Forall (in_univ ds) env ->
  Forall (fun s => sorted s /\ NoDup s /\ forall x, In x s -> In x (map pack ds)) (final_env env p).
Proof.
  intros ds V p env He. pose proof (final_env_in_univ ds V p env He) as H.
  apply Forall_forall. intros s Hs. rewrite Forall_forall in H. destruct (H s Hs) as [S M].
  split; [exact S|]. split; [apply sorted_NoDup, S|exact M].
Qed.
Print Assumptions set_program_sets_sorted_nodup.

(** the sets SetBuilder builds from indices into the universe are such initial sets *)
Theorem built_sets_in_universe : forall ds sets,
  Forall (fun s => Forall (fun i => (i < length ds)%nat) (sx_nats s)) (sx_list sets) ->
  Forall (in_univ ds) (built_of (map pack ds) sets).
Proof. exact built_in_univ. Qed.
Print Assumptions built_sets_in_universe.

(** what [run20X] hands to the judge is this semantics *)
Theorem run20X_is_exec_prog : forall inp ds,
  Forall valid_digest ds -> sx_list (sx_nth inp 0) = map enc_entry ds ->
  run20X inp = L [enc_list (map pack ds); enc_sets (built_of (map pack ds) (sx_nth inp 1));
                  L (map (enc_out enc_sets)
                         (exec_prog (built_of (map pack ds) (sx_nth inp 1)) (map dec_instr (sx_list (sx_nth inp 2)))))].
Proof. exact run20X_eq. Qed.
Print Assumptions run20X_is_exec_prog.

(** ** The monitor used on implementation observations never fires on the model:
    for every input whose universe is a list of canonically written valid digests and
    whose initial sets are indices into it ([inp_wf20X], the same domain as kind 6 of
    C20) and EVERY program. *)
Theorem mon20X_silent_on_model : forall inp, inp_wf20X inp -> mon20X inp (run20X inp) = [].
Proof. exact mon20X_silent_on_model_proof. Qed.
Print Assumptions mon20X_silent_on_model.

(** ** Non-vacuity.  Universe: the same md5 hash under instance names "a" (5 bytes) and
    "b" (empty blob); sets {0,1} and {1}; program: partition set 0, subtract / intersect
    its first partition with the origin in both orders, filter, unite. *)
Definition ex_prog_inp : sx :=
  L [L [ex_entry (L [A 97]) 3 5; ex_entry (L [A 98]) 3 0]; L [L [A 0; A 1]; L [A 1]];
     L [L [A 2; A 0]; L [A 0; A 0; A 2]; L [A 0; A 2; A 0]; L [A 3; A 0]; L [A 1; A 2; A 3; A 0; A 7]]].

Example ex_prog_wf : inp_wf20X ex_prog_inp.
Proof.
  destruct (proj2 ex_sets_ok_wf eq_refl) as (ds & V & Hent & Hs).
  exists ds. split; [exact V|]. split; [exact Hent|exact Hs].
Qed.

Example ex_prog_silent : mon20X ex_prog_inp (run20X ex_prog_inp) = [].
Proof. apply mon20X_silent_on_model, ex_prog_wf. Qed.

(** the program really runs: five steps, 2 + 3 + 3 + 1 + 1 sets appended *)
Example ex_prog_shape :
  map (fun st => length (sx_list (ok_val st))) (sx_list (sx_nth (run20X ex_prog_inp) 2)) = [2; 3; 3; 1; 1]%nat.
Proof. vm_compute. reflexivity. Qed.

(** an observation in which "origin minus its first partition" is answered as if both
    arguments were the same set (empty difference, the whole origin as intersection)
    is flagged by clause 12 *)
Definition ex_prog_bad_obs : sx :=
  let o := run20X ex_prog_inp in
  let steps := sx_nth o 2 in
  L [sx_nth o 0; sx_nth o 1;
     L [sx_nth steps 0; L [A 0; L [L []; sx_nth (sx_nth o 1) 0; L []]]; sx_nth steps 2; sx_nth steps 3; sx_nth steps 4]].
Example ex_prog_bad_flagged : mon20X ex_prog_inp ex_prog_bad_obs = [12].
Proof. vm_compute. reflexivity. Qed.
