(** C16N — sub-check of C16: nested error handling (replacement buffers that
    are themselves stream-backed buffers with their own error handlers). *)
From Coq Require Import List ZArith NArith Bool.
From BBS Require Import Common.Sx Buffer.Source Buffer.Validate Buffer.Convert Buffer.ErrHandler Buffer.EHNest
  Run.R09 Run.R16 Run.R16N.
Import ListNotations.
